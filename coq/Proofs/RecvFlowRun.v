(* Run-level theorems of the receive-flow model: C03. *)
From H2V Require Import Base.Tac Model.RecvFlow Proofs.RecvFlowLists Proofs.RecvFlowInv Proofs.RecvFlowEff.
Local Open Scope Z_scope.

Definition rno_conn_err (outs : list (list rout)) : bool := negb (existsb rhas_conn_err outs).

Lemma rinit_inv : RInv rinit_state.
Proof.
  unfold RInv, RInvD, RInvG, rinit_state; simp_r. cbn [sum_infl map].
  repeat apply conj; try rlia; constructor.
Qed.

(* no label of any run panics; the unattributed charge is >= 0 and stays 0 as long as no connection
   error was reported *)
Theorem rrun_safe ls : forall st d,
  0 <= d -> RInvD d st -> Forall rlabel_ok ls ->
  match rrun st ls with
  | inl (Some (st', outs)) =>
      (exists d', d <= d' /\ RInvD d' st') /\ (rno_conn_err outs = true -> RInvD d st')
  | inl None => True
  | inr (_, RPanic _) => False
  | inr (_, _) => True
  end.
Proof.
  induction ls as [|l ls IH]; intros st d Hd HI Hls; cbn [rrun].
  - split; [exists d; split; [lia|exact HI]|auto].
  - inversion Hls as [|? ? Hl Hls']; subst.
    pose proof (rstep_inv d st l Hd HI Hl) as X.
    destruct (rstep st l) as [st1 o1|n|n]; cbn [rstep_result_ok] in X; auto.
    destruct X as ((d1 & Hd1 & HI1) & Hno).
    destruct (rhas_conn_err o1) eqn:Ec.
    + specialize (IH st1 d1 ltac:(lia) HI1 Hls').
      destruct (rrun st1 ls) as [[[st2 os]|]|[k r]]; [|exact I|destruct r; exact IH].
      destruct IH as ((d2 & Hd2 & HI2) & _). split; [exists d2; split; [lia|exact HI2]|].
      unfold rno_conn_err. cbn [existsb]. rewrite Ec. cbn [orb negb]. discriminate.
    + specialize (IH st1 d Hd (Hno eq_refl) Hls').
      destruct (rrun st1 ls) as [[[st2 os]|]|[k r]]; [|exact I|destruct r; exact IH].
      destruct IH as (A & B). split; [exact A|].
      unfold rno_conn_err in *. cbn [existsb]. rewrite Ec. cbn [orb]. exact B.
Qed.

Theorem reach_inv ls st outs :
  Forall rlabel_ok ls -> rrun rinit_state ls = inl (Some (st, outs)) ->
  (exists d, RInvD d st) /\ (rno_conn_err outs = true -> RInv st).
Proof.
  intros Hls Hrun.
  pose proof (rrun_safe ls _ 0 ltac:(lia) rinit_inv Hls) as X. rewrite Hrun in X.
  destruct X as ((d & _ & HI) & Hno). split; [exists d; exact HI|exact Hno].
Qed.

Theorem C03_no_panic ls k n :
  Forall rlabel_ok ls -> rrun rinit_state ls <> inr (k, RPanic n).
Proof.
  intros Hls E.
  pose proof (rrun_safe ls _ 0 ltac:(lia) rinit_inv Hls) as X. rewrite E in X. exact X.
Qed.

(* what the invariant says about one record *)
Definition rec_conserved (init : Z) (s : rstream) : Prop :=
  0 <= r_infl s /\ r_win s <= r_avail s /\ r_avail s + r_infl s <= r_base s /\
  (r_isrecv s = true -> r_done s = false -> r_unl s = false -> r_avail s + r_infl s = r_base s) /\
  r_base s <= RMAXW /\ (r_unl s = false -> r_base s <= init).

Lemma rok_conserved init s : rok init s -> rec_conserved init s.
Proof.
  intros ((K1 & K2 & K3 & K4 & K5 & K6 & K7) & KL). unfold rec_conserved.
  repeat apply conj; try assumption. intros A. apply (KL A).
Qed.

(* C03 conservation: on every run without connection error
   R1  available + in flight = configured target          (connection)
   R2  every in-flight byte belongs to exactly one record
   R3  available + in flight = configured size            (every record whose handle is held),
       and never more than that for any record *)
Theorem C03_conservation ls st outs :
  Forall rlabel_ok ls -> rrun rinit_state ls = inl (Some (st, outs)) -> rno_conn_err outs = true ->
  k_avail st + k_infl st = k_target st /\ 0 <= k_target st <= RMAXW /\
  k_infl st = sum_infl (k_strs st) /\
  NoDup (map r_id (k_strs st)) /\
  forall s, In s (k_strs st) -> rec_conserved (k_init st) s.
Proof.
  intros Hls Hrun Hno. destruct (reach_inv ls st outs Hls Hrun) as (_ & HI). specialize (HI Hno).
  pose proof HI as (C1 & C2 & C3 & C4 & C5 & C6 & C7 & C8 & C9 & C10 & C11 & C12).
  split; [exact C4|]. split; [lia|]. split; [lia|]. split; [exact C11|].
  intros s HIn. apply rok_conserved. eapply RInvD_In; eauto.
Qed.

(* after a connection error everything still holds except that the bytes of the failing frame stay
   charged to the connection (d) *)
Theorem C03_conservation_any ls st outs :
  Forall rlabel_ok ls -> rrun rinit_state ls = inl (Some (st, outs)) ->
  k_avail st + k_infl st = k_target st /\ 0 <= k_target st <= RMAXW /\
  (exists d, 0 <= d /\ k_infl st = sum_infl (k_strs st) + d) /\
  NoDup (map r_id (k_strs st)) /\
  forall s, In s (k_strs st) -> rec_conserved (k_init st) s.
Proof.
  intros Hls Hrun. destruct (reach_inv ls st outs Hls Hrun) as ((d & HI) & _).
  pose proof HI as (C1 & C2 & C3 & C4 & C5 & C6 & C7 & C8 & C9 & C10 & C11 & C12).
  split; [exact C4|]. split; [lia|]. split; [exists d; split; [exact C1|exact C3]|]. split; [exact C11|].
  intros s HIn. apply rok_conserved. eapply RInvD_In; eauto.
Qed.

(* ------------------------------------------------------------------------------------------- *)
(* never over-advertised *)

Definition may_raise_stream (st : rstate) (l : rlabel) (key : N) : Prop :=
  match l with
  | RStreamWUPop k true => k = key
  | RApplySettings new_init _ => k_init st < new_init
  | _ => False
  end.

Definition conn_emission (st st' : rstate) (o : list rout) (incr : Z) : Prop :=
  o = [RWU 0 incr] /\ 0 < incr /\ k_win st' = k_win st + incr /\
  k_win st' = k_avail st' /\ k_avail st' <= k_target st' /\ k_target st' <= RMAXW.

Definition stream_emission (st st' : rstate) (o : list rout) (key : N) (incr : Z) : Prop :=
  o = [RWU key incr] /\ 0 < incr /\
  exists s s', rfind key (k_strs st) = Some s /\ rfind key (k_strs st') = Some s' /\
    r_win s' = r_win s + incr /\ r_win s' = r_avail s' /\ r_avail s' <= r_base s' /\
    r_base s' <= RMAXW /\ (r_unl s' = false -> r_base s' <= k_init st').

Lemma conn_emit d st st' o :
  RInvD d st -> rstep st RConnWU = ROk st' o -> exists incr, conn_emission st st' o incr.
Proof.
  intros HI. pose proof HI as (C1 & C2 & C3 & C4 & C5 & C6 & C7 & C8 & C9 & C10 & C11 & C12).
  cbn [rstep]. destruct (unclaimed (k_win st) (k_avail st)) as [incr|] eqn:EU; [|discriminate].
  apply unclaimed_some in EU. destruct EU as (-> & U1 & U2).
  destruct (negb (in_i32r (k_win st + (k_avail st - k_win st))) || (RMAXW <? k_win st + (k_avail st - k_win st)));
    [discriminate|].
  intros H; inversion H; subst. exists (k_avail st - k_win st). unfold conn_emission. simp_r.
  repeat apply conj; try reflexivity; lia.
Qed.

Lemma stream_emit d st key b st' o k incr :
  RInvD d st -> rstep st (RStreamWUPop key b) = ROk st' o -> In (RWU k incr) o ->
  k = key /\ b = true /\ stream_emission st st' o key incr.
Proof.
  intros HI. cbn [rstep]. destruct (rfind key (k_strs st)) as [s|] eqn:F; [|discriminate].
  pose proof (RInvD_rok _ _ _ _ HI F) as ((K1 & K2 & K3 & K4 & K5 & K6 & K7) & KL).
  pose proof (rfind_id _ _ _ F) as Hid.
  destruct b; cbn [negb].
  - destruct (unclaimed (r_win s) (r_avail s)) as [inc|] eqn:EU.
    + pose proof (unclaimed_some _ _ _ EU) as (Hinc & U1 & U2).
      destruct (negb (in_i32r (r_win s + inc)) || (RMAXW <? r_win s + inc)); [discriminate|].
      intros H HIn; inversion H; subst st' o. destruct HIn as [HIn|[]]. inversion HIn; subst k incr.
      split; [reflexivity|]. split; [reflexivity|]. unfold stream_emission.
      split; [reflexivity|]. split; [lia|].
      eexists; eexists. split; [exact F|]. split.
      * simp_r. rewrite rfind_rupd. simp_r. rewrite Hid, N.eqb_refl, F. reflexivity.
      * simp_r. unfold rlink in KL. repeat apply conj; lia.
    + intros H HIn; inversion H; subst. destruct HIn.
  - intros H HIn; inversion H; subst. destruct HIn.
Qed.

(* One step from any state satisfying the invariant:
   - every WINDOW_UPDATE in the outputs is the single output of RConnWU or of RStreamWUPop key true,
     and right after it the advertised window equals available <= configured size <= 2^31-1;
   - the connection window does not rise at any other label;
   - a stream window does not rise at any label other than its own WINDOW_UPDATE emission and a
     SETTINGS_INITIAL_WINDOW_SIZE increase. *)
Theorem never_over_advertised d st l st' o :
  RInvD d st -> rlabel_ok l -> rstep st l = ROk st' o ->
  (forall key incr, In (RWU key incr) o ->
     (l = RConnWU /\ key = 0%N /\ conn_emission st st' o incr) \/
     (l = RStreamWUPop key true /\ stream_emission st st' o key incr)) /\
  (l <> RConnWU -> k_win st' <= k_win st) /\
  (forall key s s', rfind key (k_strs st) = Some s -> rfind key (k_strs st') = Some s' ->
     ~ may_raise_stream st l key -> r_win s' <= r_win s).
Proof.
  intros HI Hl E.
  pose proof HI as (_ & _ & _ & _ & _ & _ & _ & _ & _ & _ & ND & _).
  pose proof (rstep_eff st l st' o ND Hl E) as X.
  split; [|split].
  - intros key incr HIn.
    destruct l as [key0 init|key0|sz|key0 k sz payload isrecv|key0 cap|key0 isrecv tr|key0|target
                  |new_init touched| |key0 streaming]; cbn [rstep_eff_spec] in X;
      try (exfalso; destruct X as (_ & _ & N); exact (N _ _ HIn)).
    + destruct X as (_ & _ & _ & N). exfalso. exact (N _ _ HIn).
    + destruct X as (_ & _ & _ & N). exfalso. exact (N _ _ HIn).
    + left. destruct (conn_emit d st st' o HI E) as (incr0 & Hem).
      pose proof Hem as (Ho & _). rewrite Ho in HIn. destruct HIn as [HIn|[]]. inversion HIn; subst.
      split; [reflexivity|]. split; [reflexivity|exact Hem].
    + right. destruct (stream_emit d st key0 streaming st' o key incr HI E HIn) as (-> & -> & Hem).
      split; [reflexivity|exact Hem].
  - intros Hne.
    destruct l as [key0 init|key0|sz|key0 k sz payload isrecv|key0 cap|key0 isrecv tr|key0|target
                  |new_init touched| |key0 streaming]; cbn [rstep_eff_spec rlabel_ok] in X, Hl;
      try (destruct X as (W & _); lia).
    + destruct X as (_ & [W|W] & _); lia.
    + destruct X as (_ & [W|W] & _); lia.
    + congruence.
    + destruct streaming; destruct X as (W & _); lia.
  - intros key s s' F F' Hnr.
    destruct l as [key0 init|key0|sz|key0 k sz payload isrecv|key0 cap|key0 isrecv tr|key0|target
                  |new_init touched| |key0 streaming]; cbn [rstep_eff_spec may_raise_stream] in X, Hnr;
      try (destruct X as (_ & L & _); exact (win_le_s_weak _ _ L _ _ _ F F')).
    + destruct X as (_ & L & _). exact (L _ _ _ F F').
    + destruct X as (_ & _ & L & _). exact (win_le_s_weak _ _ L _ _ _ F F').
    + destruct X as (_ & _ & L & _). exact (win_le_s_weak _ _ L _ _ _ F F').
    + destruct X as (_ & L & _). exact (win_le_s_weak _ _ (L ltac:(lia)) _ _ _ F F').
    + destruct X as (incr & _ & _ & Hs). rewrite Hs in F'. rewrite F in F'. inversion F'; subst. lia.
    + destruct streaming.
      * destruct X as (_ & Hoth & _). rewrite (Hoth key) in F' by congruence.
        rewrite F in F'. inversion F'; subst. lia.
      * destruct X as (_ & L & _). exact (win_le_s_weak _ _ L _ _ _ F F').
Qed.

Theorem C03_never_over_advertised ls st outs l st' o :
  Forall rlabel_ok ls -> rrun rinit_state ls = inl (Some (st, outs)) ->
  rlabel_ok l -> rstep st l = ROk st' o ->
  (forall key incr, In (RWU key incr) o ->
     (l = RConnWU /\ key = 0%N /\ conn_emission st st' o incr) \/
     (l = RStreamWUPop key true /\ stream_emission st st' o key incr)) /\
  (l <> RConnWU -> k_win st' <= k_win st) /\
  (forall key s s', rfind key (k_strs st) = Some s -> rfind key (k_strs st') = Some s' ->
     ~ may_raise_stream st l key -> r_win s' <= r_win s).
Proof.
  intros Hls Hrun Hl E. destruct (reach_inv ls st outs Hls Hrun) as ((d & HI) & _).
  exact (never_over_advertised d st l st' o HI Hl E).
Qed.

(* in every reachable state every stream window is within its configured size *)
Theorem C03_window_bounds ls st outs :
  Forall rlabel_ok ls -> rrun rinit_state ls = inl (Some (st, outs)) ->
  forall s, In s (k_strs st) ->
    r_win s <= r_avail s /\ r_avail s <= r_base s /\ r_base s <= RMAXW /\
    (r_unl s = false -> r_base s <= k_init st /\ k_init st <= RMAXW).
Proof.
  intros Hls Hrun s HIn. destruct (reach_inv ls st outs Hls Hrun) as ((d & HI) & _).
  pose proof HI as (C1 & C2 & C3 & C4 & C5 & C6 & C7 & C8 & C9 & C10 & C11 & C12).
  destruct (RInvD_In _ _ _ HI HIn) as ((K1 & K2 & K3 & K4 & K5 & K6 & K7) & KL).
  split; [exact K2|]. split; [lia|]. split; [exact K5|]. intros A. destruct (KL A). split; [assumption|exact C8].
Qed.

(* ------------------------------------------------------------------------------------------- *)
(* the connection window against the wire ledger *)

Definition conn_wu (l : rlabel) (o : list rout) : Z :=
  match l with
  | RConnWU => match o with [RWU _ incr] => incr | _ => 0 end
  | _ => 0
  end.

(* flow-controlled size of a DATA label that charged the connection window (a label that reports a
   connection error is excluded: the run-level theorem is about runs without one) *)
Definition conn_charged (l : rlabel) (o : list rout) : Z :=
  if rhas_conn_err o then 0
  else match l with RDataUnknown sz => sz | RData _ _ sz _ _ => sz | _ => 0 end.

Fixpoint conn_ledger (ls : list rlabel) (outs : list (list rout)) : Z :=
  match ls, outs with
  | l :: ls', o :: outs' => conn_wu l o - conn_charged l o + conn_ledger ls' outs'
  | _, _ => 0
  end.

Lemma step_ledger st l st' o :
  NoDup (map r_id (k_strs st)) -> rlabel_ok l -> rstep st l = ROk st' o -> rhas_conn_err o = false ->
  k_win st' = k_win st + conn_wu l o - conn_charged l o.
Proof.
  intros ND Hl E Hno. pose proof (rstep_eff st l st' o ND Hl E) as X.
  unfold conn_charged. rewrite Hno.
  destruct l as [key0 init|key0|sz|key0 k sz payload isrecv|key0 cap|key0 isrecv tr|key0|target
                |new_init touched| |key0 streaming]; cbn [rstep_eff_spec conn_wu] in *;
    try (destruct X as (W & _); lia).
  - destruct X as (incr & -> & W & _). lia.
  - destruct streaming; destruct X as (W & _); lia.
Qed.

Theorem run_ledger ls : forall st st' outs,
  RInv st -> Forall rlabel_ok ls ->
  rrun st ls = inl (Some (st', outs)) -> rno_conn_err outs = true ->
  k_win st' = k_win st + conn_ledger ls outs.
Proof.
  induction ls as [|l ls IH]; intros st st' outs HI Hls Hrun Hno; cbn [rrun] in Hrun.
  - inversion Hrun; subst. cbn [conn_ledger]. lia.
  - inversion Hls as [|? ? Hl Hls']; subst.
    destruct (rstep st l) as [st1 o1|n|n] eqn:Es; try discriminate.
    destruct (rrun st1 ls) as [[[st2 os]|]|[k r]] eqn:Er; try discriminate.
    inversion Hrun; subst st' outs.
    unfold rno_conn_err in Hno. cbn [existsb] in Hno. apply negb_true_iff, orb_false_iff in Hno.
    destruct Hno as (Hn1 & Hn2).
    pose proof (rstep_inv 0 st l ltac:(lia) HI Hl) as X. rewrite Es in X. cbn [rstep_result_ok] in X.
    destruct X as (_ & HI1). specialize (HI1 Hn1).
    pose proof HI as (_ & _ & _ & _ & _ & _ & _ & _ & _ & _ & ND & _).
    pose proof (step_ledger st l st1 o1 ND Hl Es Hn1) as W1.
    pose proof (IH st1 st2 os HI1 Hls' Er ltac:(unfold rno_conn_err; rewrite Hn2; reflexivity)) as W2.
    cbn [conn_ledger]. lia.
Qed.

(* on every run without connection error the window the model holds for the connection is what the
   peer can compute from the wire: 65535 + WINDOW_UPDATE(0) increments - DATA sizes *)
Theorem C03_conn_ledger ls st outs :
  Forall rlabel_ok ls -> rrun rinit_state ls = inl (Some (st, outs)) -> rno_conn_err outs = true ->
  k_win st = RDEFAULT + conn_ledger ls outs.
Proof.
  intros Hls Hrun Hno. exact (run_ledger ls _ _ _ rinit_inv Hls Hrun Hno).
Qed.

(* ------------------------------------------------------------------------------------------- *)
(* restoration *)

Lemma pop_emits d st s :
  RInvD d st -> In s (k_strs st) -> unclaimed (r_win s) (r_avail s) <> None ->
  exists st' s',
    rstep st (RStreamWUPop (r_id s) true) = ROk st' [RWU (r_id s) (r_avail s - r_win s)] /\
    rfind (r_id s) (k_strs st') = Some s' /\
    r_win s' = r_avail s /\ r_avail s' = r_avail s /\ r_base s' = r_base s /\ r_infl s' = r_infl s /\
    r_pend s' = false.
Proof.
  intros HI HIn Hu. pose proof HI as (C1 & C2 & C3 & C4 & C5 & C6 & C7 & C8 & C9 & C10 & C11 & C12).
  pose proof (In_rfind _ _ C11 HIn) as F.
  destruct (RInvD_In _ _ _ HI HIn) as ((K1 & K2 & K3 & K4 & K5 & K6 & K7) & KL).
  cbn [rstep]. rewrite F. cbn [negb].
  destruct (unclaimed (r_win s) (r_avail s)) as [incr|] eqn:EU; [|congruence].
  apply unclaimed_some in EU. destruct EU as (-> & U1 & U2).
  rewrite in_i32r_true by rlia. cbn [negb orb].
  destruct (RMAXW <? r_win s + (r_avail s - r_win s)) eqn:EM; [exfalso; lia|].
  eexists; eexists. split; [reflexivity|]. split.
  - simp_r. eapply (rfind_rupd_same (mkR (r_id s) _ _ _ _ _ _ _ _)). simp_r. exact F.
  - simp_r. repeat apply conj; try reflexivity. lia.
Qed.

Lemma conn_wu_emits d st :
  RInvD d st -> unclaimed (k_win st) (k_avail st) <> None ->
  exists st', rstep st RConnWU = ROk st' [RWU 0 (k_avail st - k_win st)] /\
    k_win st' = k_avail st /\ k_avail st' = k_avail st /\ k_infl st' = k_infl st /\
    k_target st' = k_target st.
Proof.
  intros HI Hu. pose proof HI as (C1 & C2 & C3 & C4 & C5 & C6 & C7 & C8 & C9 & C10 & C11 & C12).
  cbn [rstep]. destruct (unclaimed (k_win st) (k_avail st)) as [incr|] eqn:EU; [|congruence].
  apply unclaimed_some in EU. destruct EU as (-> & U1 & U2).
  rewrite in_i32r_true by rlia. cbn [negb orb].
  destruct (RMAXW <? k_win st + (k_avail st - k_win st)) eqn:EM; [exfalso; lia|].
  eexists. split; [reflexivity|]. simp_r. repeat apply conj; try reflexivity. lia.
Qed.

(* nothing, or less than half a window, is withheld *)
Definition settled (win size : Z) : Prop :=
  size <= win \/ (win < size /\ size - win < Z.quot win 2).

Theorem restores_inv d st :
  RInvD d st ->
  (k_infl st = 0 ->
     k_avail st = k_target st /\
     ((unclaimed (k_win st) (k_avail st) = None /\ settled (k_win st) (k_target st)) \/
      exists st', rstep st RConnWU = ROk st' [RWU 0 (k_target st - k_win st)] /\
                  k_win st' = k_target st /\ k_avail st' = k_target st)) /\
  (forall s, In s (k_strs st) ->
     r_isrecv s = true -> r_done s = false -> r_unl s = false -> r_infl s = 0 ->
     r_avail s = r_base s /\
     ((unclaimed (r_win s) (r_avail s) = None /\ r_win s <= r_base s /\ settled (r_win s) (r_base s)) \/
      (r_pend s = true /\
       exists st' s', rstep st (RStreamWUPop (r_id s) true) = ROk st' [RWU (r_id s) (r_base s - r_win s)] /\
                      rfind (r_id s) (k_strs st') = Some s' /\
                      r_win s' = r_base s /\ r_avail s' = r_base s /\ r_base s' = r_base s))).
Proof.
  intros HI. pose proof HI as (C1 & C2 & C3 & C4 & C5 & C6 & C7 & C8 & C9 & C10 & C11 & C12).
  split.
  - intros H0. assert (Ha : k_avail st = k_target st) by lia. split; [exact Ha|].
    destruct (unclaimed (k_win st) (k_avail st)) as [u|] eqn:EU.
    + right. destruct (conn_wu_emits d st HI ltac:(congruence)) as (st' & E & W & A & _).
      exists st'. rewrite <- Ha. split; [exact E|]. split; [exact W|exact A].
    + left. split; [reflexivity|]. apply unclaimed_none in EU. unfold settled. lia.
  - intros s HIn A1 A2 A3 A4.
    destruct (RInvD_In _ _ _ HI HIn) as ((K1 & K2 & K3 & K4 & K5 & K6 & K7) & KL).
    specialize (K4 A1 A2 A3). assert (Ha : r_avail s = r_base s) by lia. split; [exact Ha|].
    destruct (unclaimed (r_win s) (r_avail s)) as [u|] eqn:EU.
    + right. assert (Hu : unclaimed (r_win s) (r_avail s) <> None) by congruence.
      split; [exact (K7 A1 A2 A3 A4 Hu)|].
      destruct (pop_emits d st s HI HIn Hu) as (st' & s' & E & F' & W & A & B & _).
      exists st', s'. rewrite Ha in E, W, A. repeat apply conj; assumption.
    + left. split; [reflexivity|]. apply unclaimed_none in EU. unfold settled. lia.
Qed.

(* in every reachable state: a connection with nothing in flight and a stream whose application
   holds the handle and has released everything it was given have their full configured window
   available; the advertised window either already is within half a window of it (h2 batches
   WINDOW_UPDATEs) or its WINDOW_UPDATE is due / queued and brings it to exactly the configured size *)
Theorem C03_restores ls st outs :
  Forall rlabel_ok ls -> rrun rinit_state ls = inl (Some (st, outs)) ->
  (k_infl st = 0 ->
     k_avail st = k_target st /\
     ((unclaimed (k_win st) (k_avail st) = None /\ settled (k_win st) (k_target st)) \/
      exists st', rstep st RConnWU = ROk st' [RWU 0 (k_target st - k_win st)] /\
                  k_win st' = k_target st /\ k_avail st' = k_target st)) /\
  (forall s, In s (k_strs st) ->
     r_isrecv s = true -> r_done s = false -> r_unl s = false -> r_infl s = 0 ->
     r_avail s = r_base s /\
     ((unclaimed (r_win s) (r_avail s) = None /\ r_win s <= r_base s /\ settled (r_win s) (r_base s)) \/
      (r_pend s = true /\
       exists st' s', rstep st (RStreamWUPop (r_id s) true) = ROk st' [RWU (r_id s) (r_base s - r_win s)] /\
                      rfind (r_id s) (k_strs st') = Some s' /\
                      r_win s' = r_base s /\ r_avail s' = r_base s /\ r_base s' = r_base s))).
Proof.
  intros Hls Hrun. destruct (reach_inv ls st outs Hls Hrun) as ((d & HI) & _).
  exact (restores_inv d st HI).
Qed.

(* ------------------------------------------------------------------------------------------- *)
(* the repaired defect: without queueing on a SETTINGS decrease, credit is lost *)

Fixpoint settings_streams_nofix (st : rstate) (delta : Z) (touched : list N) : routcome :=
  match touched with
  | [] => ROk st []
  | key :: t' =>
    match rfind key (k_strs st) with
    | None => RStuck 2
    | Some s =>
      if r_unl s then RStuck 3 else
      let w := r_win s + delta in
      let a := r_avail s + delta in
      if negb (in_i32r w) || negb (in_i32r a) || (RMAXW <? w) then ROk st [RConnErr]
      else
      settings_streams_nofix
        (kput st (mkR (r_id s) w a (r_infl s) (r_pend s) (r_isrecv s) (r_base s + delta) (r_done s) (r_unl s)))
        delta t'
    end
  end.

Definition rstep_nofix (st : rstate) (l : rlabel) : routcome :=
  match l with
  | RApplySettings new_init touched =>
    if negb (nodup_keysr touched) then RStuck 22 else
    let delta := new_init - k_init st in
    let st0 := mkK (k_win st) (k_avail st) (k_infl st) new_init (k_target st) (k_strs st) in
    if delta =? 0 then (match touched with [] => ROk st0 [] | _ => RStuck 23 end)
    else match settings_streams_nofix st0 delta touched with
         | ROk st1 o =>
           if rhas_conn_err o then ROk st1 o
           else ROk (kset_strs st1 (mark_done touched (k_strs st1))) o
         | x => x
         end
  | _ => rstep st l
  end.

Fixpoint rrun_nofix (st : rstate) (ls : list rlabel) : option rstate :=
  match ls with
  | [] => Some st
  | l :: ls' =>
    match rstep_nofix st l with
    | ROk st1 o => if rhas_conn_err o then None else rrun_nofix st1 ls'
    | _ => None
    end
  end.

Lemma settings_streams_nofix_same delta touched : forall st,
  0 <= delta -> settings_streams_nofix st delta touched = settings_streams st delta touched.
Proof.
  induction touched as [|key t IH]; intros st Hd; cbn [settings_streams_nofix settings_streams]; [reflexivity|].
  destruct (rfind key (k_strs st)) as [s|]; [|reflexivity].
  destruct (r_unl s); [reflexivity|]. cbv zeta.
  destruct (negb (in_i32r (r_win s + delta)) || negb (in_i32r (r_avail s + delta)) || (RMAXW <? r_win s + delta));
    [reflexivity|].
  destruct (delta <? 0) eqn:E; [exfalso; lia|]. apply IH. exact Hd.
Qed.

(* the unrepaired variant differs only on a decrease of the initial window size *)
Lemma rstep_nofix_same st l :
  (forall n t, l = RApplySettings n t -> k_init st <= n) -> rstep_nofix st l = rstep st l.
Proof.
  intros H. destruct l; try reflexivity. cbn [rstep_nofix rstep].
  rewrite settings_streams_nofix_same; [reflexivity|]. specialize (H _ _ eq_refl). lia.
Qed.

(* corpus/conn/f1_window_stall.json *)
Definition f1_labels : list rlabel :=
  [ RNew 1 65535; RData 1 DCharged 20000 20000 true; RRelease 1 20000; RApplySettings 10000 [1%N] ].

Definition f1_stalled : rstream := mkR 1 (-10000) 10000 0 false true 10000 false false.

Lemma f1_labels_ok : Forall rlabel_ok f1_labels.
Proof. unfold f1_labels. repeat (constructor; [cbn [rlabel_ok]; unfold RMAXW; try lia; exact I|]). constructor. Qed.

Lemma f1_nofix_state :
  rrun_nofix rinit_state f1_labels = Some (mkK 45535 65535 0 10000 65535 [f1_stalled]).
Proof. vm_compute. reflexivity. Qed.

Lemma f1_stalled_not_Q : ~ rQ f1_stalled.
Proof.
  intros H. specialize (H eq_refl eq_refl eq_refl eq_refl).
  assert (X : r_pend f1_stalled = true) by (apply H; vm_compute; discriminate).
  discriminate X.
Qed.

Theorem C03_fix_needed :
  exists ls st s, Forall rlabel_ok ls /\ rrun_nofix rinit_state ls = Some st /\ In s (k_strs st) /\
    r_isrecv s = true /\ r_done s = false /\ r_unl s = false /\ r_infl s = 0 /\
    unclaimed (r_win s) (r_avail s) = Some (r_base s - r_win s) /\ r_win s < 0 /\ r_pend s = false /\
    ~ rQ s.
Proof.
  exists f1_labels, (mkK 45535 65535 0 10000 65535 [f1_stalled]), f1_stalled.
  split; [exact f1_labels_ok|]. split; [exact f1_nofix_state|]. split; [left; reflexivity|].
  repeat (split; [vm_compute; reflexivity|]). exact f1_stalled_not_Q.
Qed.

(* with the repair the same history queues the stream, and its WINDOW_UPDATE restores the window *)
Example f1_fixed :
  match rrun rinit_state (f1_labels ++ [RStreamWUPop 1 true]) with
  | inl (Some (st, outs)) =>
      rno_conn_err outs = true /\ concat outs = [RWU 1 20000] /\
      rfind 1%N (k_strs st) = Some (mkR 1 10000 10000 0 false true 10000 false false)
  | _ => False
  end.
Proof. vm_compute. repeat split; reflexivity. Qed.

(* ------------------------------------------------------------------------------------------- *)
(* non-vacuity: a concrete history (padding, releases, both kinds of WINDOW_UPDATE, DATA on an unknown
   stream, a SETTINGS decrease and increase, a target change, a dropped handle, a closed stream) runs
   to completion without connection error and agrees with the wire ledger *)
Definition rdemo_prefix : list rlabel :=
  [ RNew 1 65535; RNew 2 65535; RData 1 DCharged 30000 29000 true; RData 2 DCharged 10000 10000 true;
    RRelease 1 29000 ].

Definition rdemo_labels : list rlabel :=
  rdemo_prefix ++
  [ RStreamWUPop 1 true; RConnWU; RDataUnknown 500; RApplySettings 20000 [1%N; 2%N];
    RSetTarget 100000; RConnWU; RApplySettings 30000 [1%N; 2%N]; RData 2 DStreamErr 100 100 true;
    RClear 2 false 10000; RData 2 DNoRecv 50 50 false; RReleaseClosed 1; RRemove 2 ].

Example rdemo_labels_ok : Forall rlabel_ok rdemo_labels.
Proof.
  unfold rdemo_labels, rdemo_prefix. cbn [app].
  repeat (constructor; [cbn [rlabel_ok]; unfold RMAXW; try lia; exact I|]). constructor.
Qed.

Example rdemo_runs :
  match rrun rinit_state rdemo_labels with
  | inl (Some (st, outs)) =>
      rno_conn_err outs = true /\
      concat outs = [RWU 1 30000; RWU 0 30000; RWU 0 34965; RStreamErr 2] /\
      k_win st = RDEFAULT + conn_ledger rdemo_labels outs /\
      k_infl st = 0 /\ k_avail st = 100000
  | _ => False
  end.
Proof. vm_compute. repeat split; reflexivity. Qed.

(* the hypotheses of the restoration theorem are satisfiable in both ways: after the prefix stream 1
   is queued (30000 >= half of 35535 is owed); after its WINDOW_UPDATE it is settled *)
Example rdemo_restores_queued :
  match rrun rinit_state rdemo_prefix with
  | inl (Some (st, outs)) =>
      exists s, In s (k_strs st) /\ r_id s = 1%N /\ r_isrecv s = true /\ r_done s = false /\
                r_unl s = false /\ r_infl s = 0 /\ r_pend s = true /\
                unclaimed (r_win s) (r_avail s) = Some 30000
  | _ => False
  end.
Proof. vm_compute. eexists. split; [right; left; reflexivity|]. repeat split; reflexivity. Qed.
