(* The link between Model/Handover.v and Model/SendFlow.v: what the flow-control model does with its per-stream list
   `s_frames` ("remaining lengths of the queued DATA frames incl. the in-flight remainder") at a pop is exactly what
   Handover's `abs_queue` does at staging (HandoverProofs.stage_spec), with the same `len`; re-queueing the tail is a
   stutter for it (HandoverProofs.reclaim_abs_queue) and clear_queue empties both (HandoverProofs.clear_spec).  Hence the
   window accounting proved for SendFlow (C02, C16: bytes are charged once, when popped) is not disturbed by the
   hand-over: the bytes handed to the codec were charged at the pop, the tail is charged when it is popped again. *)
From H2V Require Import Base.Tac Model.SendFlow Proofs.SendFlowLists.
Local Open Scope Z_scope.

Definition pop_len (s : sstream) (sz max_len : Z) : Z := Z.min (Z.min sz max_len) (as_size (s_avail s)).

Lemma notify_if_up_frames maxbuf prev s s' o :
  notify_if_up maxbuf prev s = (s', o) -> s_frames s' = s_frames s /\ s_id s' = s_id s /\ s_buf s' = s_buf s /\ s_win s' = s_win s.
Proof.
  unfold notify_if_up. destruct (prev <? capacity maxbuf s); intros H; inversion H; subst; cbn; auto.
Qed.

Theorem sendflow_pop_queue st sid sz max_len st' outs :
  step st (LPopData sid sz max_len) = Ok st' outs ->
  exists s s' q,
    find_s sid (c_strs st) = Some s /\ s_frames s = sz :: q /\
    find_s sid (c_strs st') = Some s' /\
    s_frames s' = (if pop_len s sz max_len <? sz then [sz - pop_len s sz max_len] else []) ++ q /\
    s_buf s' = s_buf s - pop_len s sz max_len /\
    s_win s' = s_win s - pop_len s sz max_len /\
    c_win st' = c_win st - pop_len s sz max_len.
Proof.
  cbn [step]. destruct (find_s sid (c_strs st)) as [s|] eqn:Ef; [|discriminate].
  destruct (s_frames s) as [|f q] eqn:Eq; [discriminate|].
  destruct (f =? sz) eqn:Efs; cbn [negb]; [|discriminate]. assert (f = sz) by lia. subst f.
  destruct (s_dead s && (0 <? sz)); [discriminate|].
  destruct ((0 <? sz) && (s_avail s =? 0)); [discriminate|].
  fold (pop_len s sz max_len). set (len := pop_len s sz max_len).
  destruct ((0 <? len) && (as_size (s_win s) <? len)); [discriminate|].
  destruct ((0 <? len) && (s_win s <? len)); [discriminate|].
  destruct (s_buf s <? len); [discriminate|]. destruct (s_req s <? len); [discriminate|].
  match goal with |- context [notify_if_up ?a ?b ?c] => destruct (notify_if_up a b c) as [s2 o2] eqn:En end.
  destruct ((0 <? len) && (c_win st <? len)); [discriminate|].
  intros H; inversion H; subst st' outs; clear H.
  apply notify_if_up_frames in En. cbn [s_frames s_id s_buf s_win set_req set_bufq set_avail set_win] in En.
  destruct En as (E1 & E2 & E3 & E4).
  pose proof (find_s_id _ _ _ Ef) as Hid.
  exists s, s2, q. split; [reflexivity|]. split; [exact Eq|].
  cbn [c_strs c_win set_cwin put set_strs].
  split; [|split; [|split; [|split]]]; auto.
  - rewrite <- Hid, <- E2. apply (find_upd_same s2 _ s). rewrite E2, Hid. exact Ef.
  - rewrite E1. fold len. destruct (len <? sz); reflexivity.
Qed.

(* clear_queue of the flow model empties the list (its in-flight remainder included) *)
Theorem sendflow_clear_queue st sid st' outs :
  clear_queue st sid = Ok st' outs ->
  exists s s', find_s sid (c_strs st) = Some s /\ find_s sid (c_strs st') = Some s' /\ s_frames s' = [] /\ s_buf s' = 0.
Proof.
  unfold clear_queue. destruct (find_s sid (c_strs st)) as [s|] eqn:Ef; [|discriminate].
  intros H; inversion H; subst; clear H. pose proof (find_s_id _ _ _ Ef) as Hid.
  set (s' := set_req (set_bufq s 0 []) 0).
  exists s, s'. split; [reflexivity|]. cbn [c_strs put set_strs].
  split; [|split; reflexivity].
  replace sid with (s_id s') by (cbn; exact Hid). apply (find_upd_same s' _ s). cbn [s_id s' set_req set_bufq]. rewrite Hid. exact Ef.
Qed.
