(* Proofs about the receive path model (Model/ReadBuf.v):
     C12_read_chunking     events and final state are independent of how the transport cut the stream
     C12_recv_limit        an oversize frame is refused from its Length field alone
     continuation_*        the CONTINUATION rules of decode_frame
     C12_roundtrip_stream  every encoded frame, CONTINUATION runs included, decodes (reference
                           stream decoder) to the value that was sent
   All statements about [feed] hold for every HPACK instance [ops]. *)
From H2V Require Import Base.Tac Base.Bytes Gen.FrameConsts Ref.Rfc9113Frame Model.FrameCodec Model.WriteBuf
  Model.ReadBuf Proofs.WriteBufProofs Proofs.FrameCodecProofs.
Local Open Scope N_scope.

(* the model of LengthDelimitedCodec hard-wires what codec/mod.rs configures *)
Lemma ld_config_as_modelled :
  (ld_length_field_offset, ld_length_field_length, ld_num_skip, ld_length_adjustment) = (0, 3, 0, 9).
Proof. reflexivity. Qed.

(* ---------------------------------------------------------------------------------------- *)
(* the length-delimited layer is monotone in the buffered octets *)

Lemma takeN_app_le n (a b : list N) : n <= lenN a -> takeN n (a ++ b) = takeN n a.
Proof.
  intros H. unfold takeN, lenN in *. rewrite firstn_app.
  replace (N.to_nat n - length a)%nat with 0%nat by lia. cbn [firstn]. apply app_nil_r.
Qed.

Lemma dropN_app_le n (a b : list N) : n <= lenN a -> dropN n (a ++ b) = dropN n a ++ b.
Proof.
  intros H. unfold dropN, lenN in *. rewrite skipn_app.
  replace (N.to_nat n - length a)%nat with 0%nat by lia. reflexivity.
Qed.

Lemma ld_data_more n buf more :
  ld_data n (buf ++ more) =
  match ld_data n buf with
  | LdOut fr rest => LdOut fr (rest ++ more)
  | LdNeed s => ld_data n (buf ++ more)
  | LdError => LdError
  end.
Proof.
  unfold ld_data at 2. destruct (lenN buf <? n) eqn:E; [reflexivity|]. apply N.ltb_ge in E.
  unfold ld_data. rewrite lenN_app.
  destruct (lenN buf + lenN more <? n) eqn:E2; [apply N.ltb_lt in E2; lia|].
  rewrite takeN_app_le, dropN_app_le by lia. reflexivity.
Qed.

Lemma ld_decode_out max s buf fr rest more :
  ld_decode max s buf = LdOut fr rest -> ld_decode max s (buf ++ more) = LdOut fr (rest ++ more).
Proof.
  unfold ld_decode. destruct s as [|n].
  - destruct buf as [|l0 [|l1 [|l2 r]]]; try discriminate. cbn [app].
    destruct (max <? _); [discriminate|].
    intros H. change (l0 :: l1 :: l2 :: r ++ more) with ((l0 :: l1 :: l2 :: r) ++ more).
    rewrite ld_data_more, H. reflexivity.
  - intros H. rewrite ld_data_more, H. reflexivity.
Qed.

Lemma ld_decode_err max s buf more :
  ld_decode max s buf = LdError -> ld_decode max s (buf ++ more) = LdError.
Proof.
  unfold ld_decode. destruct s as [|n].
  - destruct buf as [|l0 [|l1 [|l2 r]]]; try discriminate. cbn [app].
    destruct (max <? _); [reflexivity|]. unfold ld_data. destruct (_ <? _); discriminate.
  - unfold ld_data. destruct (_ <? _); discriminate.
Qed.

(* waiting for more octets: deciding again with more octets gives the same answer from the old
   and from the updated decoder state *)
Lemma ld_decode_need max s buf s' more :
  ld_decode max s buf = LdNeed s' -> ld_decode max s' (buf ++ more) = ld_decode max s (buf ++ more).
Proof.
  unfold ld_decode. destruct s as [|n].
  - destruct buf as [|l0 [|l1 [|l2 r]]].
    1-3: (intros H; injection H as <-; reflexivity).
    cbn [app]. destruct (max <? _); [discriminate|].
    unfold ld_data at 1. destruct (_ <? _); [|discriminate]. intros H. injection H as <-. reflexivity.
  - unfold ld_data at 1. destruct (_ <? _); [|discriminate]. intros H. injection H as <-. reflexivity.
Qed.

Lemma ld_decode_need_idem max s buf s' :
  ld_decode max s buf = LdNeed s' -> ld_decode max s' buf = LdNeed s'.
Proof.
  intros H. pose proof (ld_decode_need max s buf s' [] H) as H2. rewrite app_nil_r in H2. congruence.
Qed.

Lemma ld_decode_out_len max s buf fr rest :
  ld_decode max s buf = LdOut fr rest -> fr ++ rest = buf.
Proof.
  assert (Hd : forall n, ld_data n buf = LdOut fr rest -> fr ++ rest = buf).
  { intros n. unfold ld_data. destruct (_ <? _); [discriminate|]. intros H. injection H as <- <-. apply takeN_dropN. }
  unfold ld_decode. destruct s as [|n]; [|apply Hd].
  destruct buf as [|l0 [|l1 [|l2 r]]]; try discriminate.
  destruct (max <? _); [discriminate|]. apply Hd.
Qed.

(* ---------------------------------------------------------------------------------------- *)
(* pump: fuel *)

Lemma parse_head_len bs h p : parse_head bs = Some (h, p) -> (9 <= length bs)%nat.
Proof.
  destruct bs as [|l0 [|l1 [|l2 [|k [|fl [|s0 [|s1 [|s2 [|s3 payload]]]]]]]]]; try discriminate.
  intros _. cbn [length]. lia.
Qed.

Lemma decode_frame_short {HS} (ops : hpack_ops HS) mh mc pt hs bytes :
  parse_head bytes = None -> decode_frame ops mh mc pt hs bytes = (pt, hs, DStop EvPanic).
Proof. intros H. unfold decode_frame. rewrite H. reflexivity. Qed.

Lemma decode_frame_continues {HS} (ops : hpack_ops HS) mh mc pt hs bytes pt' hs' d :
  decode_frame ops mh mc pt hs bytes = (pt', hs', d) ->
  (forall e, d <> DStop e) -> (9 <= length bytes)%nat.
Proof.
  intros H Hd. destruct (parse_head bytes) as [[h p]|] eqn:E.
  - eapply parse_head_len; eauto.
  - rewrite decode_frame_short in H by exact E. injection H as <- <- <-. exfalso. eapply Hd. reflexivity.
Qed.

Definition with_buf {HS} (st : rstate HS) (b : list N) : rstate HS :=
  set_core st b (r_ld st) (r_partial st) (r_hs st) (r_dead st).

Definition drain {HS} (ops : hpack_ops HS) (st : rstate HS) : rstate HS * list (event HS) :=
  pump ops (S (length (r_buf st))) st.

Lemma pump_enough {HS} (ops : hpack_ops HS) : forall F1 F2 (st : rstate HS),
  (length (r_buf st) < F1)%nat -> (length (r_buf st) < F2)%nat -> pump ops F1 st = pump ops F2 st.
Proof.
  induction F1 as [|F1 IH]; intros F2 st H1 H2; [lia|].
  destruct F2 as [|F2]; [lia|].
  cbn [pump]. destruct (r_dead st); [reflexivity|].
  destruct (ld_decode (r_max_frame st) (r_ld st) (r_buf st)) as [s|fr rest|] eqn:El; try reflexivity.
  destruct (decode_frame ops (r_max_hls st) (r_max_cont st) (r_partial st) (r_hs st) fr) as [[pt hs] d] eqn:Ed.
  pose proof (ld_decode_out_len _ _ _ _ _ El) as Hlen.
  assert (Hrest : forall e0, (forall e, d <> DStop e) ->
            (length (r_buf (set_core st rest LdHead pt hs e0)) < F1)%nat /\
            (length (r_buf (set_core st rest LdHead pt hs e0)) < F2)%nat).
  { intros e0 Hd. pose proof (decode_frame_continues _ _ _ _ _ _ _ _ _ Ed Hd) as H9.
    cbn [r_buf set_core]. rewrite <- Hlen, app_length in H1, H2. lia. }
  destruct d as [|e|e].
  - destruct (Hrest false ltac:(discriminate)) as [Ha Hb]. apply IH; assumption.
  - destruct (Hrest false ltac:(discriminate)) as [Ha Hb]. rewrite (IH F2 _ Ha Hb). reflexivity.
  - reflexivity.
Qed.

Lemma pump_run {HS} (ops : hpack_ops HS) F (st : rstate HS) :
  (length (r_buf st) < F)%nat -> pump ops F st = drain ops st.
Proof. intros H. unfold drain. apply pump_enough; lia. Qed.

(* the unfolding equation of [drain] *)
Lemma run_unfold {HS} (ops : hpack_ops HS) (st : rstate HS) :
  drain ops st =
  if r_dead st then (st, []) else
  match ld_decode (r_max_frame st) (r_ld st) (r_buf st) with
  | LdNeed s => (set_core st (r_buf st) s (r_partial st) (r_hs st) false, [])
  | LdError => (set_core st (r_buf st) (r_ld st) (r_partial st) (r_hs st) true,
                [EvError (PEGoAway [] reason_FRAME_SIZE_ERROR)])
  | LdOut bytes rest =>
      let '(pt, hs, d) := decode_frame ops (r_max_hls st) (r_max_cont st) (r_partial st) (r_hs st) bytes in
      match d with
      | DNone => drain ops (set_core st rest LdHead pt hs false)
      | DEvent e => let (st', evs) := drain ops (set_core st rest LdHead pt hs false) in (st', e :: evs)
      | DStop e => (set_core st rest LdHead pt hs true, [e])
      end
  end.
Proof.
  unfold drain at 1. cbn [pump]. destruct (r_dead st); [reflexivity|].
  destruct (ld_decode (r_max_frame st) (r_ld st) (r_buf st)) as [s|fr rest|] eqn:El; try reflexivity.
  destruct (decode_frame ops (r_max_hls st) (r_max_cont st) (r_partial st) (r_hs st) fr) as [[pt hs] d] eqn:Ed.
  pose proof (ld_decode_out_len _ _ _ _ _ El) as Hlen.
  assert (Hrest : (forall e, d <> DStop e) ->
            (length (r_buf (set_core st rest LdHead pt hs false)) < length (r_buf st))%nat).
  { intros Hd. pose proof (decode_frame_continues _ _ _ _ _ _ _ _ _ Ed Hd) as H9.
    cbn [r_buf set_core]. rewrite <- Hlen, app_length. lia. }
  destruct d as [|e|e].
  - rewrite pump_run by (apply Hrest; discriminate). reflexivity.
  - rewrite pump_run by (apply Hrest; discriminate). reflexivity.
  - reflexivity.
Qed.

(* the buffer only shrinks *)
Lemma run_buf_le {HS} (ops : hpack_ops HS) : forall n (st : rstate HS),
  (length (r_buf st) <= n)%nat -> (length (r_buf (fst (drain ops st))) <= length (r_buf st))%nat.
Proof.
  induction n as [|n IH]; intros st Hn; rewrite run_unfold.
  - destruct (r_dead st); [cbn [fst]; lia|].
    destruct (ld_decode _ _ _) as [s|fr rest|] eqn:El; try (cbn [fst r_buf set_core]; lia).
    destruct (decode_frame _ _ _ _ _ fr) as [[pt hs] d] eqn:Ed.
    pose proof (ld_decode_out_len _ _ _ _ _ El) as Hlen.
    destruct d as [|e|e].
    + pose proof (decode_frame_continues _ _ _ _ _ _ _ _ _ Ed ltac:(discriminate)) as H9.
      rewrite <- Hlen, app_length in Hn. lia.
    + pose proof (decode_frame_continues _ _ _ _ _ _ _ _ _ Ed ltac:(discriminate)) as H9.
      rewrite <- Hlen, app_length in Hn. lia.
    + cbn [fst r_buf set_core]. rewrite <- Hlen, app_length. lia.
  - destruct (r_dead st); [cbn [fst]; lia|].
    destruct (ld_decode _ _ _) as [s|fr rest|] eqn:El; try (cbn [fst r_buf set_core]; lia).
    destruct (decode_frame _ _ _ _ _ fr) as [[pt hs] d] eqn:Ed.
    pose proof (ld_decode_out_len _ _ _ _ _ El) as Hlen.
    assert (Hrest : (forall e, d <> DStop e) ->
              (length (r_buf (set_core st rest LdHead pt hs false)) <= n)%nat /\
              (length rest <= length (r_buf st))%nat).
    { intros Hd. pose proof (decode_frame_continues _ _ _ _ _ _ _ _ _ Ed Hd) as H9.
      cbn [r_buf set_core]. rewrite <- Hlen, app_length in *. lia. }
    destruct d as [|e|e].
    + destruct (Hrest ltac:(discriminate)) as [Ha Hb]. specialize (IH _ Ha). cbn [r_buf set_core] in IH. lia.
    + destruct (Hrest ltac:(discriminate)) as [Ha Hb]. specialize (IH _ Ha).
      destruct (drain ops (set_core st rest LdHead pt hs false)) as [st' evs]. cbn [fst r_buf set_core] in *. lia.
    + cbn [fst r_buf set_core]. rewrite <- Hlen, app_length. lia.
Qed.

(* ---------------------------------------------------------------------------------------- *)
(* feeding more octets later is the same as having them from the start *)

Lemma ld_need_then_error max s buf s' more :
  ld_decode max s buf = LdNeed s' -> ld_decode max s (buf ++ more) = LdError -> s' = s.
Proof.
  unfold ld_decode. destruct s as [|n].
  - destruct buf as [|l0 [|l1 [|l2 r]]].
    1-3: (intros H _; injection H as <-; reflexivity).
    cbn [app]. destruct (max <? _); [discriminate|].
    intros _ H. unfold ld_data in H. destruct (_ <? _); discriminate.
  - intros _ H. unfold ld_data in H. destruct (_ <? _); discriminate.
Qed.

Ltac norm := unfold with_buf, set_core; cbn [r_buf r_ld r_max_frame r_max_hls r_max_cont r_partial r_hs r_dead].
Ltac norm_in_all := unfold with_buf, set_core in *; cbn [r_buf r_ld r_max_frame r_max_hls r_max_cont r_partial r_hs r_dead] in *.

Lemma run_app {HS} (ops : hpack_ops HS) : forall n (st : rstate HS) more,
  (length (r_buf st) <= n)%nat ->
  drain ops (with_buf st (r_buf st ++ more)) =
  let (s1, e1) := drain ops st in
  let (s2, e2) := drain ops (with_buf s1 (r_buf s1 ++ more)) in
  (s2, e1 ++ e2).
Proof.
  induction n as [|n IH]; intros st more Hn.
  all: destruct st as [buf ld mf mh mc pt0 hs0 dead];
       norm_in_all.
  all: rewrite (run_unfold ops {| r_buf := buf; r_ld := ld; r_max_frame := mf; r_max_hls := mh; r_max_cont := mc;
                                 r_partial := pt0; r_hs := hs0; r_dead := dead |}).
  all: norm.
  all: destruct dead.
  1,3: (rewrite run_unfold; norm;
        rewrite run_unfold; cbn [r_dead]; reflexivity).
  all: destruct (ld_decode mf ld buf) as [s|fr rest|] eqn:El.
  (* n = 0 *)
  - (* LdNeed *)
    norm.
    rewrite (run_unfold ops {| r_buf := buf ++ more; r_ld := ld; r_max_frame := mf; r_max_hls := mh;
                               r_max_cont := mc; r_partial := pt0; r_hs := hs0; r_dead := false |}).
    rewrite (run_unfold ops {| r_buf := buf ++ more; r_ld := s; r_max_frame := mf; r_max_hls := mh;
                               r_max_cont := mc; r_partial := pt0; r_hs := hs0; r_dead := false |}).
    norm.
    rewrite (ld_decode_need mf ld buf s more El).
    destruct (ld_decode mf ld (buf ++ more)) as [s2|fr2 rest2|] eqn:El2.
    + reflexivity.
    + destruct (decode_frame ops mh mc pt0 hs0 fr2) as [[pt hs] d]. destruct d.
      * destruct (drain ops _); reflexivity.
      * destruct (drain ops _); reflexivity.
      * reflexivity.
    + rewrite (ld_need_then_error mf ld buf s more El El2). reflexivity.
  - (* LdOut: impossible with an empty budget only if buf = []; handled uniformly *)
    pose proof (ld_decode_out mf ld buf fr rest more El) as El2.
    rewrite (run_unfold ops {| r_buf := buf ++ more; r_ld := ld; r_max_frame := mf; r_max_hls := mh;
                               r_max_cont := mc; r_partial := pt0; r_hs := hs0; r_dead := false |}).
    norm. rewrite El2.
    destruct (decode_frame ops mh mc pt0 hs0 fr) as [[pt hs] d] eqn:Ed.
    pose proof (ld_decode_out_len _ _ _ _ _ El) as Hlen.
    destruct d as [|e|e].
    + pose proof (decode_frame_continues _ _ _ _ _ _ _ _ _ Ed ltac:(discriminate)) as H9.
      rewrite <- Hlen, app_length in Hn. lia.
    + pose proof (decode_frame_continues _ _ _ _ _ _ _ _ _ Ed ltac:(discriminate)) as H9.
      rewrite <- Hlen, app_length in Hn. lia.
    + norm.
      rewrite run_unfold. cbn [r_dead]. reflexivity.
  - (* LdError *)
    rewrite (run_unfold ops {| r_buf := buf ++ more; r_ld := ld; r_max_frame := mf; r_max_hls := mh;
                               r_max_cont := mc; r_partial := pt0; r_hs := hs0; r_dead := false |}).
    norm.
    rewrite (ld_decode_err mf ld buf more El).
    rewrite run_unfold. norm. reflexivity.
  (* n = S n *)
  - norm.
    rewrite (run_unfold ops {| r_buf := buf ++ more; r_ld := ld; r_max_frame := mf; r_max_hls := mh;
                               r_max_cont := mc; r_partial := pt0; r_hs := hs0; r_dead := false |}).
    rewrite (run_unfold ops {| r_buf := buf ++ more; r_ld := s; r_max_frame := mf; r_max_hls := mh;
                               r_max_cont := mc; r_partial := pt0; r_hs := hs0; r_dead := false |}).
    norm.
    rewrite (ld_decode_need mf ld buf s more El).
    destruct (ld_decode mf ld (buf ++ more)) as [s2|fr2 rest2|] eqn:El2.
    + reflexivity.
    + destruct (decode_frame ops mh mc pt0 hs0 fr2) as [[pt hs] d]. destruct d.
      * destruct (drain ops _); reflexivity.
      * destruct (drain ops _); reflexivity.
      * reflexivity.
    + rewrite (ld_need_then_error mf ld buf s more El El2). reflexivity.
  - pose proof (ld_decode_out mf ld buf fr rest more El) as El2.
    rewrite (run_unfold ops {| r_buf := buf ++ more; r_ld := ld; r_max_frame := mf; r_max_hls := mh;
                               r_max_cont := mc; r_partial := pt0; r_hs := hs0; r_dead := false |}).
    norm. rewrite El2.
    destruct (decode_frame ops mh mc pt0 hs0 fr) as [[pt hs] d] eqn:Ed.
    pose proof (ld_decode_out_len _ _ _ _ _ El) as Hlen.
    assert (Hrest : (forall e, d <> DStop e) -> (length rest <= n)%nat).
    { intros Hd. pose proof (decode_frame_continues _ _ _ _ _ _ _ _ _ Ed Hd) as H9.
      rewrite <- Hlen, app_length in Hn. lia. }
    destruct d as [|e|e].
    + specialize (IH {| r_buf := rest; r_ld := LdHead; r_max_frame := mf; r_max_hls := mh; r_max_cont := mc;
                        r_partial := pt; r_hs := hs; r_dead := false |} more (Hrest ltac:(discriminate))).
      unfold with_buf, set_core in IH; cbn [r_buf r_ld r_max_frame r_max_hls r_max_cont r_partial r_hs r_dead] in IH. exact IH.
    + specialize (IH {| r_buf := rest; r_ld := LdHead; r_max_frame := mf; r_max_hls := mh; r_max_cont := mc;
                        r_partial := pt; r_hs := hs; r_dead := false |} more (Hrest ltac:(discriminate))).
      unfold with_buf, set_core in IH; cbn [r_buf r_ld r_max_frame r_max_hls r_max_cont r_partial r_hs r_dead] in IH. rewrite IH.
      destruct (drain ops {| r_buf := rest; r_ld := LdHead; r_max_frame := mf; r_max_hls := mh; r_max_cont := mc;
                           r_partial := pt; r_hs := hs; r_dead := false |}) as [s1 e1].
      match goal with |- context [drain ops ?x] => destruct (drain ops x) as [s2 e2] end. reflexivity.
    + norm.
      rewrite run_unfold. cbn [r_dead]. reflexivity.
  - rewrite (run_unfold ops {| r_buf := buf ++ more; r_ld := ld; r_max_frame := mf; r_max_hls := mh;
                               r_max_cont := mc; r_partial := pt0; r_hs := hs0; r_dead := false |}).
    norm.
    rewrite (ld_decode_err mf ld buf more El).
    rewrite run_unfold. norm. reflexivity.
Qed.

Lemma feed_run {HS} (ops : hpack_ops HS) (st : rstate HS) c :
  feed ops st c = drain ops (with_buf st (r_buf st ++ c)).
Proof. reflexivity. Qed.

Lemma feed_app {HS} (ops : hpack_ops HS) (st : rstate HS) a b :
  feed ops st (a ++ b) =
  let (s1, e1) := feed ops st a in
  let (s2, e2) := feed ops s1 b in
  (s2, e1 ++ e2).
Proof.
  rewrite !feed_run.
  pose proof (run_app ops (length (r_buf st ++ a)) (with_buf st (r_buf st ++ a)) b) as H.
  assert (E : with_buf (with_buf st (r_buf st ++ a)) (r_buf (with_buf st (r_buf st ++ a)) ++ b)
              = with_buf st (r_buf st ++ a ++ b)).
  { destruct st as [buf0 ld0 mf0 mh0 mc0 pt0 hs0 dead0]. unfold with_buf, set_core. cbn [r_buf r_ld r_max_frame r_max_hls r_max_cont r_partial r_hs r_dead].
    rewrite app_assoc. reflexivity. }
  rewrite E in H. rewrite H.
  - destruct (drain ops (with_buf st (r_buf st ++ a))) as [s1 e1]. rewrite feed_run. reflexivity.
  - destruct st as [buf0 ld0 mf0 mh0 mc0 pt0 hs0 dead0]. unfold with_buf, set_core. cbn [r_buf]. lia.
Qed.

(* a state in which everything buffered has been looked at: nothing happens without new octets *)
Definition settled {HS} (ops : hpack_ops HS) (st : rstate HS) : Prop := feed ops st [] = (st, []).

Lemma with_buf_same {HS} (st : rstate HS) : with_buf st (r_buf st ++ []) = st.
Proof. destruct st as [buf0 ld0 mf0 mh0 mc0 pt0 hs0 dead0]. unfold with_buf, set_core. cbn [r_buf r_ld r_max_frame r_max_hls r_max_cont r_partial r_hs r_dead]. rewrite app_nil_r. reflexivity. Qed.

Lemma settled_init {HS} (ops : hpack_ops HS) hs0 mf mh : settled ops (rinit hs0 mf mh).
Proof. reflexivity. Qed.

Lemma feed_settled {HS} (ops : hpack_ops HS) (st : rstate HS) c : settled ops (fst (feed ops st c)).
Proof.
  unfold settled. pose proof (feed_app ops st c []) as H. rewrite app_nil_r in H.
  destruct (feed ops st c) as [s1 e1]. cbn [fst].
  destruct (feed ops s1 []) as [s2 e2]. injection H as H1 H2.
  assert (e2 = []).
  { rewrite <- (app_nil_r e1) in H2 at 1. apply app_inv_head in H2. congruence. }
  subst. reflexivity.
Qed.

Lemma feed_all_settled {HS} (ops : hpack_ops HS) : forall chunks (st : rstate HS),
  settled ops st -> settled ops (fst (feed_all ops st chunks)).
Proof.
  induction chunks as [|c cs IH]; intros st Hs; [exact Hs|].
  cbn [feed_all]. pose proof (feed_settled ops st c) as H1.
  destruct (feed ops st c) as [s1 e1]. cbn [fst] in H1. specialize (IH s1 H1).
  destruct (feed_all ops s1 cs) as [s2 e2]. exact IH.
Qed.

(* C12, receive side: the events (frames, errors) and the final state do not depend on how the
   transport cut the octet stream into reads -- one octet at a time, all at once, anything in
   between; a read that returns Pending changes nothing at all (it is not even an input of
   the state machine). *)
Theorem C12_read_chunking {HS} (ops : hpack_ops HS) : forall chunks (st : rstate HS) bs,
  settled ops st -> concat chunks = bs ->
  feed_all ops st chunks = feed_all ops st [bs].
Proof.
  induction chunks as [|c cs IH]; intros st bs Hs Hc; subst bs.
  - cbn [concat feed_all]. rewrite Hs. reflexivity.
  - cbn [concat]. cbn [feed_all] in *. rewrite feed_app.
    pose proof (feed_settled ops st c) as Hs1.
    destruct (feed ops st c) as [s1 e1]. cbn [fst] in Hs1.
    specialize (IH s1 (concat cs) Hs1 eq_refl). rewrite IH.
    destruct (feed ops s1 (concat cs)) as [s2 e2]. rewrite !app_nil_r. reflexivity.
Qed.

Corollary C12_read_chunking_init {HS} (ops : hpack_ops HS) hs0 max_frame max_hls chunks :
  feed_all ops (rinit hs0 max_frame max_hls) chunks = feed_all ops (rinit hs0 max_frame max_hls) [concat chunks].
Proof. apply C12_read_chunking; [apply settled_init | reflexivity]. Qed.

(* one octet at a time is one of the chunkings *)
Corollary C12_read_bytewise {HS} (ops : hpack_ops HS) hs0 max_frame max_hls bs :
  feed_all ops (rinit hs0 max_frame max_hls) (map (fun b => [b]) bs)
  = feed_all ops (rinit hs0 max_frame max_hls) [bs].
Proof.
  apply C12_read_chunking; [apply settled_init|].
  induction bs as [|b bs IH]; [reflexivity|]. cbn [map concat app]. rewrite IH. reflexivity.
Qed.

(* ---------------------------------------------------------------------------------------- *)
(* C12, receive limit *)

(* Between two frames (nothing buffered), as soon as the three octets of a Length field that
   exceeds the local SETTINGS_MAX_FRAME_SIZE have arrived -- with or without anything behind them --
   the reader reports FRAME_SIZE_ERROR and is dead: not one octet of that frame's payload has to
   arrive, none is waited for, nothing of it is ever delivered. *)
Theorem C12_recv_limit {HS} (ops : hpack_ops HS) (st : rstate HS) l0 l1 l2 more :
  r_dead st = false -> r_ld st = LdHead -> r_buf st = [] ->
  r_max_frame st < (l0 * 256 + l1) * 256 + l2 ->
  feed ops st (l0 :: l1 :: l2 :: more) =
    (set_core st (l0 :: l1 :: l2 :: more) LdHead (r_partial st) (r_hs st) true,
     [EvError (PEGoAway [] reason_FRAME_SIZE_ERROR)]).
Proof.
  intros Hd Hl Hb Hmax. rewrite feed_run, run_unfold.
  destruct st as [buf0 ld0 mf0 mh0 mc0 pt0 hs0 dead0].
  unfold with_buf, set_core. cbn [r_buf r_ld r_max_frame r_max_hls r_max_cont r_partial r_hs r_dead] in *.
  subst. cbn [app ld_decode].
  destruct (mf0 <? (l0 * 256 + l1) * 256 + l2) eqn:E; [reflexivity | apply N.ltb_ge in E; lia].
Qed.

(* afterwards nothing is produced, whatever arrives *)
Lemma dead_silent {HS} (ops : hpack_ops HS) (st : rstate HS) c :
  r_dead st = true -> feed ops st c = (with_buf st (r_buf st ++ c), []).
Proof.
  intros Hd. rewrite feed_run, run_unfold.
  destruct st as [buf0 ld0 mf0 mh0 mc0 pt0 hs0 dead0].
  unfold with_buf, set_core. cbn [r_buf r_ld r_max_frame r_max_hls r_max_cont r_partial r_hs r_dead] in *.
  subst. reflexivity.
Qed.

Lemma dead_silent_all {HS} (ops : hpack_ops HS) : forall chunks (st : rstate HS),
  r_dead st = true -> snd (feed_all ops st chunks) = [] /\ r_dead (fst (feed_all ops st chunks)) = true.
Proof.
  induction chunks as [|c cs IH]; intros st Hd; [cbn [feed_all snd fst]; auto|].
  cbn [feed_all]. rewrite (dead_silent ops st c Hd).
  assert (Hd' : r_dead (with_buf st (r_buf st ++ c)) = true).
  { destruct st as [buf0 ld0 mf0 mh0 mc0 pt0 hs0 dead0]. exact Hd. }
  destruct (IH _ Hd') as [H1 H2]. destruct (feed_all ops _ cs) as [s2 e2]. cbn [fst snd] in *. subst. auto.
Qed.

(* fewer than three octets of a head decide nothing yet *)
Lemma head_incomplete_waits {HS} (ops : hpack_ops HS) (st : rstate HS) c :
  r_dead st = false -> r_ld st = LdHead -> r_buf st = [] -> (length c < 3)%nat ->
  snd (feed ops st c) = [].
Proof.
  intros Hd Hl Hb Hc. rewrite feed_run, run_unfold.
  destruct st as [buf0 ld0 mf0 mh0 mc0 pt0 hs0 dead0].
  unfold with_buf, set_core. cbn [r_buf r_ld r_max_frame r_max_hls r_max_cont r_partial r_hs r_dead] in *.
  subst. cbn [app]. destruct c as [|a [|b [|x r]]]; try reflexivity. cbn [length] in Hc. lia.
Qed.

(* the hypotheses of C12_recv_limit are satisfiable: the default limit, a head announcing 16385 octets,
   delivered alone, one octet at a time *)
Example C12_recv_limit_example :
  let st := rinit ([] : list N) 16384 16777216 in
  r_dead st = false /\ r_ld st = LdHead /\ r_buf st = [] /\ r_max_frame st < (0 * 256 + 64) * 256 + 1 /\
  snd (feed_all hp_raw st [[0]; [64]; [1]]) = [EvError (PEGoAway [] reason_FRAME_SIZE_ERROR)] /\
  snd (feed_all hp_raw st [[0]; [64]]) = [] /\
  snd (feed_all hp_raw st [[0; 64; 1; 0; 0; 0; 0; 0; 1]; [1; 2; 3]; [4]]) = [EvError (PEGoAway [] reason_FRAME_SIZE_ERROR)].
Proof. vm_compute. repeat split; reflexivity. Qed.

(* exactly the limit is accepted, one more is not *)
Example recv_limit_boundary :
  snd (feed hp_raw (rinit [] 16384 16777216) ([0; 64; 0; 0; 0; 0; 0; 0; 1] ++ repeat 7 (N.to_nat 16384)))
    = [EvFrame (FData 1 0 None (repeat 7 (N.to_nat 16384)))] /\
  snd (feed hp_raw (rinit [] 16384 16777216) ([0; 64; 1; 0; 0; 0; 0; 0; 1] ++ repeat 7 (N.to_nat 16385)))
    = [EvError (PEGoAway [] reason_FRAME_SIZE_ERROR)].
Proof. vm_compute. split; reflexivity. Qed.

(* ---------------------------------------------------------------------------------------- *)
(* the CONTINUATION rules of decode_frame (RFC 9113 6.10 / 4.3) *)

Definition is_continuation (bytes : list N) : bool :=
  match parse_head bytes with
  | Some (h, _) => match kind_new (h_kind h) with KContinuation => true | _ => false end
  | None => false
  end.

(* while a header block is open, any frame that is not a CONTINUATION -- whatever its type, known
   or unknown, whatever its stream -- is a connection error PROTOCOL_ERROR *)
Lemma continuation_expected {HS} (ops : hpack_ops HS) mh mc p hs bytes :
  (9 <= length bytes)%nat -> is_continuation bytes = false ->
  decode_frame ops mh mc (Some p) hs bytes = (Some p, hs, go_away_protocol).
Proof.
  intros H9 Hc. unfold decode_frame, is_continuation in *.
  destruct (parse_head bytes) as [[h payload]|] eqn:E.
  - destruct (kind_new (h_kind h)); try discriminate; reflexivity.
  - destruct bytes as [|l0 [|l1 [|l2 [|k [|fl [|s0 [|s1 [|s2 [|s3 payload]]]]]]]]]; cbn [length] in H9; try lia.
    discriminate.
Qed.

Lemma load_frame_continuation bytes h payload :
  parse_head bytes = Some (h, payload) -> kind_new (h_kind h) = KContinuation ->
  load_frame bytes = POk (LdContinuation (h_sid h) (has_bit (h_flag h) continuation_END_HEADERS) payload).
Proof. intros E K. unfold load_frame. rewrite E, K. reflexivity. Qed.

(* a CONTINUATION with no header block open *)
Lemma continuation_unexpected {HS} (ops : hpack_ops HS) mh mc hs bytes :
  is_continuation bytes = true ->
  decode_frame ops mh mc None hs bytes = (None, hs, go_away_protocol).
Proof.
  intros Hc. unfold is_continuation in Hc. unfold decode_frame.
  destruct (parse_head bytes) as [[h payload]|] eqn:E; [|discriminate].
  destruct (kind_new (h_kind h)) eqn:K; try discriminate.
  cbn [andb]. rewrite (load_frame_continuation bytes h payload E K). reflexivity.
Qed.

(* a CONTINUATION for another stream than the open block *)
Lemma continuation_other_stream {HS} (ops : hpack_ops HS) mh mc p hs bytes h payload :
  parse_head bytes = Some (h, payload) -> kind_new (h_kind h) = KContinuation ->
  frame_sid (pt_frame p) <> h_sid h ->
  decode_frame ops mh mc (Some p) hs bytes = (None, hs, go_away_protocol).
Proof.
  intros E K Hs. unfold decode_frame. rewrite E, K. cbn [andb negb].
  rewrite (load_frame_continuation bytes h payload E K).
  apply N.eqb_neq in Hs. rewrite Hs. reflexivity.
Qed.

(* in particular a CONTINUATION on stream 0 is always refused: a block is only ever opened by
   HEADERS / PUSH_PROMISE, whose `load` refuses stream 0 *)
Lemma continuation_stream_zero_refused {HS} (ops : hpack_ops HS) mh mc pt hs bytes h payload :
  parse_head bytes = Some (h, payload) -> kind_new (h_kind h) = KContinuation -> h_sid h = 0 ->
  match pt with Some p => frame_sid (pt_frame p) <> 0 | None => True end ->
  snd (decode_frame ops mh mc pt hs bytes) = go_away_protocol.
Proof.
  intros E K Hz Hp. destruct pt as [p|].
  - rewrite (continuation_other_stream ops mh mc p hs bytes h payload E K) by congruence. reflexivity.
  - rewrite continuation_unexpected; [reflexivity|]. unfold is_continuation. rewrite E, K. reflexivity.
Qed.

(* the CONTINUATION flood limit: one more non-final CONTINUATION than max_continuation_frames *)
Lemma continuation_flood {HS} (ops : hpack_ops HS) mh mc p hs bytes h payload :
  parse_head bytes = Some (h, payload) -> kind_new (h_kind h) = KContinuation ->
  frame_sid (pt_frame p) = h_sid h -> has_bit (h_flag h) continuation_END_HEADERS = false ->
  mc < pt_count p + 1 ->
  decode_frame ops mh mc (Some p) hs bytes =
    (None, hs, DEvent (EvError (PEGoAway dbg_too_many_continuations reason_ENHANCE_YOUR_CALM))).
Proof.
  intros E K Hs Hf Hc. unfold decode_frame. rewrite E, K. cbn [andb negb].
  rewrite (load_frame_continuation bytes h payload E K), Hf, Hs, N.eqb_refl. cbn [negb andb].
  apply N.ltb_lt in Hc. rewrite Hc. reflexivity.
Qed.

Example continuation_rules_examples :
  let st := rinit ([] : list N) 16384 20000 in
  (* HEADERS without END_HEADERS, then DATA on the same stream *)
  snd (feed hp_raw st ([0;0;1;1;0;0;0;0;1;130] ++ [0;0;1;0;0;0;0;0;1;7]))
    = [EvError (PEGoAway [] reason_PROTOCOL_ERROR)] /\
  (* ... then an unknown frame type *)
  snd (feed hp_raw st ([0;0;1;1;0;0;0;0;1;130] ++ [0;0;0;200;0;0;0;0;1]))
    = [EvError (PEGoAway [] reason_PROTOCOL_ERROR)] /\
  (* ... then CONTINUATION on stream 3 *)
  snd (feed hp_raw st ([0;0;1;1;0;0;0;0;1;130] ++ [0;0;1;9;4;0;0;0;3;135]))
    = [EvError (PEGoAway [] reason_PROTOCOL_ERROR)] /\
  (* ... then the right CONTINUATION *)
  snd (feed hp_raw st ([0;0;1;1;0;0;0;0;1;130] ++ [0;0;1;9;4;0;0;0;1;135]))
    = [EvHeaders (FHeaders 1 4 None []) [130; 135]] /\
  (* limit max(5, ..) = 5: five non-final CONTINUATIONs pass, the sixth does not *)
  r_max_cont st = 5 /\
  snd (feed hp_raw st ([0;0;0;1;0;0;0;0;1] ++ concat (repeat [0;0;0;9;0;0;0;0;1] 5) ++ [0;0;1;9;4;0;0;0;1;130]))
    = [EvHeaders (FHeaders 1 4 None []) [130]] /\
  snd (feed hp_raw st ([0;0;0;1;0;0;0;0;1] ++ concat (repeat [0;0;0;9;0;0;0;0;1] 6) ++ [0;0;1;9;4;0;0;0;1;130]))
    = [EvError (PEGoAway dbg_too_many_continuations reason_ENHANCE_YOUR_CALM);
       EvError (PEGoAway [] reason_PROTOCOL_ERROR)].
Proof. vm_compute. repeat split; reflexivity. Qed.


(* ---------------------------------------------------------------------------------------- *)
(* the reference stream splitter on concatenated frames *)

(* [fr] is exactly one frame: a head announcing the length of what follows *)
Definition one_frame (fr : list N) : Prop :=
  exists k fl sid p, fr = head_encode k fl sid (lenN p) ++ p /\ lenN p < 16777216.

Lemma one_frame_len fr : one_frame fr -> (9 <= length fr)%nat.
Proof. intros (k & fl & sid & p & -> & _). rewrite app_length, length_head_encode. lia. Qed.

Lemma rfc_split_step fuel fr rest :
  one_frame fr ->
  rfc_split (S fuel) (fr ++ rest) = let (fs, t) := rfc_split fuel rest in (fr :: fs, t).
Proof.
  intros (k & fl & sid & p & -> & Hp).
  cbn [rfc_split]. rewrite <- app_assoc. rewrite (declared_length_head k fl sid (lenN p) (p ++ rest) Hp).
  change olen with lenN. change take with takeN. change drop with dropN.
  assert (Hl : lenN (head_encode k fl sid (lenN p) ++ p) = 9 + lenN p) by (rewrite lenN_app, lenN_head_encode; reflexivity).
  rewrite app_assoc.
  destruct (9 + lenN p <=? lenN ((head_encode k fl sid (lenN p) ++ p) ++ rest)) eqn:E.
  2:{ apply N.leb_gt in E. rewrite lenN_app, Hl in E. lia. }
  rewrite <- Hl. rewrite FrameCodecProofs.takeN_app_exact, FrameCodecProofs.dropN_app_exact. reflexivity.
Qed.

Lemma rfc_split_concat : forall fs fuel,
  Forall one_frame fs -> (length fs < fuel)%nat -> rfc_split fuel (concat fs) = (fs, []).
Proof.
  induction fs as [|fr fs IH]; intros fuel Hall Hf.
  - destruct fuel; [lia|]. reflexivity.
  - destruct fuel as [|fuel]; [lia|]. inversion Hall as [|x l H1 H2]; subst.
    cbn [concat]. rewrite (rfc_split_step fuel fr (concat fs) H1).
    rewrite (IH fuel H2) by (cbn [length] in Hf; lia). reflexivity.
Qed.

Lemma length_concat_frames fs : Forall one_frame fs -> (length fs <= length (concat fs))%nat.
Proof.
  induction fs as [|fr fs IH]; intros Hall; [cbn; lia|].
  inversion Hall as [|x l H1 H2]; subst. cbn [concat length]. rewrite app_length.
  pose proof (one_frame_len fr H1). specialize (IH H2). lia.
Qed.

Lemma rfc_frames_concat fs : Forall one_frame fs -> rfc_frames (concat fs) = (fs, []).
Proof.
  intros Hall. unfold rfc_frames. apply rfc_split_concat; [exact Hall|].
  pose proof (length_concat_frames fs Hall). lia.
Qed.

(* ---------------------------------------------------------------------------------------- *)
(* the CONTINUATION frames the encoder produces for the rest of a block *)

Fixpoint cont_frames (fuel : nat) (max sid : N) (rest : list N) : list (list N) :=
  match fuel with
  | O => []
  | S fuel' =>
      if max <? lenN rest
      then (head_encode kind_continuation 0 sid max ++ takeN max rest) :: cont_frames fuel' max sid (dropN max rest)
      else [head_encode kind_continuation headers_END_HEADERS sid (lenN rest) ++ rest]
  end.

Lemma continuations_encode_frames max sid :
  1 <= max -> max <= MAX_MAX_FRAME_SIZE ->
  forall fuel rest, (length rest < fuel)%nat ->
    continuations_encode fuel max sid rest = EOk (concat (cont_frames fuel max sid rest)).
Proof.
  intros H1 H2. induction fuel as [|fuel IH]; intros rest Hf; [lia|].
  cbn [continuations_encode cont_frames]. rewrite continuation_encode_eq by assumption.
  destruct (max <? lenN rest) eqn:E.
  - apply N.ltb_lt in E. pose proof (length_dropN_lt max rest H1 E) as Hlt.
    rewrite (IH (dropN max rest)) by lia. cbn [concat].
    change (headers_END_HEADERS - headers_END_HEADERS) with 0. reflexivity.
  - cbn [concat]. rewrite app_nil_r. reflexivity.
Qed.

(* each of them is one frame, within the limit, and reads as a CONTINUATION of the stream; only the
   last carries END_HEADERS; the fragments concatenate to [rest] *)
Lemma cont_frames_spec max sid :
  1 <= max -> max <= MAX_MAX_FRAME_SIZE -> sid <> 0 -> sid < 2147483648 ->
  forall fuel rest, (length rest < fuel)%nat ->
    Forall one_frame (cont_frames fuel max sid rest) /\
    forall (o : open_block), open_stream o = sid ->
      exists ws, rfc_parse_all max (cont_frames fuel max sid rest) = Some ws /\
                 rfc_reassemble (Some o) ws = Some [open_close (open_extend o rest)].
Proof.
  intros H1 H2 Hs0 Hs. unfold MAX_MAX_FRAME_SIZE in H2.
  assert (Hparse : forall fl p, fl < 256 -> lenN p <= max ->
            rfc_parse_frame max (head_encode kind_continuation fl sid (lenN p) ++ p)
            = Accept (WContinuation sid (flag fl F_END_HEADERS) p)).
  { intros fl p Hfl Hp. unfold kind_continuation. rewrite rfc_parse_encoded by lia.
    unfold parse_payload. change (9 =? T_DATA) with false. change (9 =? T_HEADERS) with false.
    change (9 =? T_PRIORITY) with false. change (9 =? T_RST_STREAM) with false. change (9 =? T_SETTINGS) with false.
    change (9 =? T_PUSH_PROMISE) with false. change (9 =? T_PING) with false. change (9 =? T_GOAWAY) with false.
    change (9 =? T_WINDOW_UPDATE) with false. change (9 =? T_CONTINUATION) with true. cbv iota.
    apply N.eqb_neq in Hs0. rewrite Hs0. reflexivity. }
  induction fuel as [|fuel IH]; intros rest Hf; [lia|].
  cbn [cont_frames]. destruct (max <? lenN rest) eqn:E.
  - apply N.ltb_lt in E. pose proof (length_dropN_lt max rest H1 E) as Hlt.
    destruct (IH (dropN max rest) ltac:(lia)) as [Hall Hre].
    assert (Hlt' : lenN (takeN max rest) = max) by (rewrite lenN_takeN; lia).
    split.
    + constructor; [|exact Hall]. exists kind_continuation, 0, sid, (takeN max rest). rewrite Hlt'. split; [reflexivity | lia].
    + intros o Ho. destruct (Hre (open_extend o (takeN max rest))) as (ws & Hp & Hr).
      { destruct o; exact Ho. }
      exists (WContinuation sid false (takeN max rest) :: ws). split.
      * cbn [rfc_parse_all]. rewrite <- Hlt' at 2. rewrite (Hparse 0 (takeN max rest)) by lia.
        change (flag 0 F_END_HEADERS) with false. rewrite Hp. reflexivity.
      * cbn [rfc_reassemble]. rewrite Ho, N.eqb_refl. rewrite Hr. f_equal. f_equal. f_equal.
        destruct o; cbn [open_extend]; rewrite <- app_assoc, takeN_dropN; reflexivity.
  - apply N.ltb_ge in E. split.
    + constructor; [|constructor]. exists kind_continuation, headers_END_HEADERS, sid, rest. split; [reflexivity | lia].
    + intros o Ho. exists [WContinuation sid true rest]. split.
      * cbn [rfc_parse_all]. unfold headers_END_HEADERS. rewrite (Hparse 4 rest) by lia. reflexivity.
      * cbn [rfc_reassemble]. rewrite Ho, N.eqb_refl. reflexivity.
Qed.

Lemma rfc_accept_one_frame max bs w :
  rfc_parse_frame max bs = Accept w -> rfc_frames bs = ([bs], []).
Proof.
  unfold rfc_parse_frame, rfc_parse_frame_with.
  destruct bs as [|l2 [|l1 [|l0 after]]]; try discriminate.
  destruct (max <? _); [discriminate|].
  destruct after as [|ty [|fl [|s3 [|s2 [|s1 [|s0 payload]]]]]]; try discriminate.
  destruct (l2 * 65536 + l1 * 256 + l0 =? olen payload) eqn:E; cbn [negb]; [|discriminate].
  apply N.eqb_eq in E. intros _.
  unfold rfc_frames. set (bs := l2 :: l1 :: l0 :: ty :: fl :: s3 :: s2 :: s1 :: s0 :: payload).
  assert (Hl : olen bs = 9 + olen payload) by (unfold bs, olen; cbn [length]; lia).
  cbn [rfc_split]. change (declared_length bs) with (Some (l2 * 65536 + l1 * 256 + l0)). rewrite E.
  destruct (9 + olen payload <=? olen bs) eqn:E2; [|apply N.leb_gt in E2; lia].
  rewrite <- Hl. change olen with lenN. change take with takeN. change drop with dropN.
  rewrite takeN_lenN. rewrite (dropN_all bs (lenN bs)) by lia.
  unfold bs at 1. cbn [length rfc_split declared_length]. reflexivity.
Qed.

Lemma reassemble_single max f :
  frame_wf max f = true -> rfc_reassemble None [wire_value_of f] = Some [wire_value_of f].
Proof.
  intros Hwf. destruct f as [sid flags pad data | sid flags dep block | sid dep | sid flags promised block | s
                            | ack payload | last code debug | sid inc | sid code]; try reflexivity.
  - cbn [frame_wf] in Hwf. split_andb. boolprops.
    assert (Hb : has_bit flags headers_END_HEADERS = true).
    { unfold headers_END_HEADERS, headers_END_STREAM in *.
      match goal with H : _ \/ _ |- _ => destruct H as [H|H]; apply N.eqb_eq in H; subst flags; reflexivity end. }
    cbn [wire_value_of]. rewrite Hb. reflexivity.
  - cbn [frame_wf] in Hwf. split_andb. boolprops. subst flags. reflexivity.
Qed.

(* C12, serialise-then-parse, in general: whatever the encoder emits for a well-formed value --
   one frame, or HEADERS / PUSH_PROMISE followed by the CONTINUATION frames Encoder::unset_frame
   produces -- is cut by the reference splitter into complete frames, each accepted by the
   reference parser, and the reference reassembly (RFC 9113 4.3: same stream, nothing interleaved,
   END_HEADERS exactly on the last) yields exactly the value that was sent. *)
Theorem C12_roundtrip_stream : forall max f,
  42 <= max -> max <= MAX_MAX_FRAME_SIZE -> frame_wf max f = true ->
  exists bs, encode max f = EOk bs /\ rfc_decode_stream max bs = Some [wire_value_of f].
Proof.
  intros max f H42 Hmax Hwf.
  assert (Hsingle : single_frame max f = true ->
            exists bs, encode max f = EOk bs /\ rfc_decode_stream max bs = Some [wire_value_of f]).
  { intros Hs. destruct (C12_roundtrip max f H42 Hmax Hwf Hs) as (bs & He & Hr & _).
    exists bs. split; [exact He|]. unfold rfc_decode_stream. rewrite (rfc_accept_one_frame max bs _ Hr).
    cbn [rfc_parse_all]. rewrite Hr. cbn [option_map]. apply (reassemble_single max f Hwf). }
  destruct (single_frame max f) eqn:Es; [apply Hsingle; reflexivity|]. clear Hsingle.
  pose proof Hmax as Hmax'. unfold MAX_MAX_FRAME_SIZE in Hmax'.
  destruct f as [sid flags pad data | sid flags dep block | sid dep | sid flags promised block | s
                 | ack payload | last code debug | sid inc | sid code]; try discriminate.
  - (* HEADERS + CONTINUATION *)
    cbn [single_frame] in Es. apply N.leb_gt in Es.
    cbn [frame_wf] in Hwf. unfold sid_ok in Hwf. split_andb. boolprops. destruct dep; [discriminate|].
    match goal with H : sid <> 0 |- _ => rename H into Hs0 end.
    assert (Hfl : flags = 4 \/ flags = 5).
    { unfold headers_END_HEADERS, headers_END_STREAM in *.
      match goal with H : _ \/ _ |- _ => destruct H as [H|H]; apply N.eqb_eq in H; lia end. }
    cbn [encode]. unfold headers_encode, header_block_encode, HEADER_LEN, kind_headers, headers_END_HEADERS.
    assert (Hb4 : has_bit flags 4 = true) by (destruct Hfl; subst flags; reflexivity). rewrite Hb4.
    destruct (max + 9 <? 9) eqn:E9; [apply N.ltb_lt in E9; lia|].
    rewrite lenN_nil.
    destruct (max + 9 - 9 <? 0) eqn:E0; [apply N.ltb_lt in E0; lia|].
    replace (max + 9 - 9 - 0) with max by lia.
    destruct (max <? lenN block) eqn:E1; [|apply N.ltb_ge in E1; lia].
    assert (Hlt : lenN (takeN max block) = max) by (rewrite lenN_takeN; lia).
    rewrite Hlt. replace (0 + max) with max by lia.
    destruct (16777216 <=? max) eqn:E2; [apply N.leb_le in E2; lia|].
    cbn [with_continuations app].
    assert (Hfuel : (length (dropN max block) < S (length (dropN max block)))%nat) by lia.
    rewrite (continuations_encode_frames max sid ltac:(lia) Hmax _ _ Hfuel).
    eexists. split; [reflexivity|].
    destruct (cont_frames_spec max sid ltac:(lia) Hmax Hs0 ltac:(lia) _ _ Hfuel) as [Hall Hre].
    set (first := head_encode 1 (flags - 4) sid max ++ takeN max block).
    assert (Hfirst : one_frame first).
    { exists 1, (flags - 4), sid, (takeN max block). rewrite Hlt. split; [reflexivity | lia]. }
    unfold rfc_decode_stream.
    change (first ++ concat (cont_frames (S (length (dropN max block))) max sid (dropN max block)))
      with (concat (first :: cont_frames (S (length (dropN max block))) max sid (dropN max block))).
    rewrite rfc_frames_concat by (constructor; assumption).
    cbn [rfc_parse_all].
    assert (Hp : rfc_parse_frame max first
                 = Accept (WHeaders sid (has_bit flags headers_END_STREAM) false None (takeN max block))).
    { unfold first. rewrite <- Hlt at 2. rewrite rfc_parse_encoded by (destruct Hfl; subst flags; lia || lia).
      unfold parse_payload. change (1 =? T_DATA) with false. change (1 =? T_HEADERS) with true. cbv iota.
      apply N.eqb_neq in Hs0. rewrite Hs0.
      destruct Hfl; subst flags; reflexivity. }
    rewrite Hp.
    destruct (Hre (OpenHeaders sid (has_bit flags headers_END_STREAM) None (takeN max block)) eq_refl)
      as (ws & Hpa & Hr).
    rewrite Hpa. cbn [option_map rfc_reassemble]. rewrite Hr.
    cbn [open_extend open_close wire_value_of option_map]. rewrite takeN_dropN.
    unfold headers_END_HEADERS. rewrite Hb4. reflexivity.
  - (* PUSH_PROMISE + CONTINUATION *)
    cbn [single_frame] in Es. apply N.leb_gt in Es.
    cbn [frame_wf] in Hwf. unfold sid_ok in Hwf. split_andb. boolprops.
    match goal with H : sid <> 0 |- _ => rename H into Hs0 end.
    unfold headers_END_HEADERS in *. subst flags.
    cbn [encode]. unfold push_promise_encode, header_block_encode, HEADER_LEN, kind_push_promise, headers_END_HEADERS.
    change (has_bit 4 4) with true. cbv iota.
    destruct (max + 9 <? 9) eqn:E9; [apply N.ltb_lt in E9; lia|].
    change (lenN (enc_u32 promised)) with 4.
    destruct (max + 9 - 9 <? 4) eqn:E0; [apply N.ltb_lt in E0; lia|].
    replace (max + 9 - 9 - 4) with (max - 4) by lia.
    destruct (max - 4 <? lenN block) eqn:E1; [|apply N.ltb_ge in E1; lia].
    assert (Hlt : lenN (takeN (max - 4) block) = max - 4) by (rewrite lenN_takeN; lia).
    rewrite Hlt. replace (4 + (max - 4)) with max by lia.
    destruct (16777216 <=? max) eqn:E2; [apply N.leb_le in E2; lia|].
    cbn [with_continuations].
    assert (Hfuel : (length (dropN (max - 4) block) < S (length (dropN (max - 4) block)))%nat) by lia.
    rewrite (continuations_encode_frames max sid ltac:(lia) Hmax _ _ Hfuel).
    eexists. split; [reflexivity|].
    destruct (cont_frames_spec max sid ltac:(lia) Hmax Hs0 ltac:(lia) _ _ Hfuel) as [Hall Hre].
    change (4 - 4) with 0.
    set (pl := enc_u32 promised ++ takeN (max - 4) block).
    assert (Hpl : lenN pl = max) by (unfold pl; rewrite lenN_app, Hlt; change (lenN (enc_u32 promised)) with 4; lia).
    set (first := head_encode 5 0 sid max ++ pl).
    assert (Hfirst : one_frame first).
    { exists 5, 0, sid, pl. rewrite Hpl. split; [reflexivity | lia]. }
    unfold rfc_decode_stream.
    change (first ++ concat (cont_frames (S (length (dropN (max - 4) block))) max sid (dropN (max - 4) block)))
      with (concat (first :: cont_frames (S (length (dropN (max - 4) block))) max sid (dropN (max - 4) block))).
    rewrite rfc_frames_concat by (constructor; assumption).
    cbn [rfc_parse_all].
    assert (Hp : rfc_parse_frame max first = Accept (WPushPromise sid false promised (takeN (max - 4) block))).
    { unfold first. rewrite <- Hpl at 2. rewrite rfc_parse_encoded by lia.
      unfold parse_payload. change (5 =? T_DATA) with false. change (5 =? T_HEADERS) with false.
      change (5 =? T_PRIORITY) with false. change (5 =? T_RST_STREAM) with false. change (5 =? T_SETTINGS) with false.
      change (5 =? T_PUSH_PROMISE) with true. cbv iota. apply N.eqb_neq in Hs0. rewrite Hs0.
      change (flag 0 F_PADDED) with false. cbn [pad_length]. unfold pl, enc_u32. cbn [app strip_trailing].
      assert (Hpr : u31_of ((promised / 16777216) mod 256) ((promised / 65536) mod 256) ((promised / 256) mod 256)
                           (promised mod 256) = promised) by (unfold u31_of; lia).
      rewrite Hpr. reflexivity. }
    rewrite Hp.
    destruct (Hre (OpenPush sid promised (takeN (max - 4) block)) eq_refl) as (ws & Hpa & Hr).
    rewrite Hpa. cbn [option_map rfc_reassemble]. rewrite Hr.
    cbn [open_extend open_close wire_value_of]. rewrite takeN_dropN. reflexivity.
Qed.

(* non-vacuity: a block of 200 octets under a limit of 64 makes HEADERS + three CONTINUATIONs *)
Example C12_roundtrip_stream_example :
  let f := FHeaders 1 (headers_END_HEADERS + headers_END_STREAM) None (repeat 65 200) in
  frame_wf 64 f = true /\ single_frame 64 f = false /\
  (match encode 64 f with
   | EOk bs => rfc_decode_stream 64 bs = Some [wire_value_of f] /\
               payload_lengths (S (length bs)) bs = Some [64; 64; 64; 8]
   | _ => False
   end).
Proof. vm_compute. repeat split; reflexivity. Qed.

(* the model's own reader (raw header blocks) reassembles what the encoder split: the block of
   200 octets sent under a limit of 64 comes back as one HEADERS event carrying the whole block *)
Example reader_reassembles_encoder_output :
  let f := FHeaders 1 (headers_END_HEADERS + headers_END_STREAM) None (repeat 65 200) in
  match encode 64 f with
  | EOk bs =>
      map raw_event_frame (snd (feed hp_raw (rinit [] 16384 16777216) bs)) = [Some f] /\
      map raw_event_frame (snd (feed_all hp_raw (rinit [] 16384 16777216) (map (fun b => [b]) bs))) = [Some f]
  | _ => False
  end.
Proof. vm_compute. split; reflexivity. Qed.


(* ---------------------------------------------------------------------------------------- *)
(* no panic, no fuel exhaustion: what the length-delimited layer hands to decode_frame always has
   its 9 octet head *)

Definition ld_ok (s : ld_state) : Prop := match s with LdHead => True | LdData n => 9 <= n end.

Definition clean_event {HS} (e : event HS) : Prop :=
  match e with EvPanic => False | EvOutOfFuel => False | _ => True end.

Lemma ld_decode_ok max s buf :
  ld_ok s ->
  match ld_decode max s buf with
  | LdNeed s' => ld_ok s'
  | LdOut fr rest => (9 <= length fr)%nat
  | LdError => True
  end.
Proof.
  intros Hs.
  assert (Hd : forall n, 9 <= n ->
            match ld_data n buf with LdNeed s' => ld_ok s' | LdOut fr rest => (9 <= length fr)%nat | LdError => True end).
  { intros n Hn. unfold ld_data. destruct (lenN buf <? n) eqn:E; [exact Hn|]. apply N.ltb_ge in E.
    pose proof (FrameCodecProofs.lenN_takeN n buf) as Hl. unfold lenN in *. lia. }
  unfold ld_decode. destruct s as [|n]; [|apply Hd, Hs].
  destruct buf as [|l0 [|l1 [|l2 r]]]; try exact I.
  destruct (max <? _); [exact I|]. apply Hd. unfold ld_length_adjustment. lia.
Qed.

Lemma decode_frame_no_panic {HS} (ops : hpack_ops HS) mh mc pt hs bytes :
  (9 <= length bytes)%nat ->
  match snd (decode_frame ops mh mc pt hs bytes) with
  | DEvent e => clean_event e
  | DStop e => clean_event e
  | DNone => True
  end.
Proof.
  intros H9. unfold decode_frame.
  destruct (parse_head bytes) as [[h payload]|] eqn:E.
  2:{ destruct bytes as [|l0 [|l1 [|l2 [|k [|fl [|s0 [|s1 [|s2 [|s3 p]]]]]]]]]; cbn [length] in H9; try lia. discriminate. }
  destruct (_ && _); [exact I|].
  pose proof (load_frame_never_panics bytes) as Hnp.
  assert (H9' : 9 <= lenN bytes) by (unfold lenN; lia). specialize (Hnp H9').
  assert (Hnf : load_frame bytes <> PErrFrameSize /\ load_frame bytes <> PNotOneFrame).
  { unfold load_frame. rewrite E. split; destruct (kind_new (h_kind h)); cbn [h_sid];
      try (destruct (_ =? 0)); cbn [negb]; try discriminate;
      match goal with |- lift _ _ ?r <> _ => destruct r; discriminate end. }
  destruct Hnf as [Hn1 Hn2].
  destruct (load_frame bytes) as [l|k sid e| | | | |]; try congruence; try exact I.
  - destruct l as [f|sid eoh frag|]; [| |exact I].
    + destruct (is_header_frame f); [|exact I].
      destruct (hp_load ops mh (hp_begin ops hs) (frame_block f)) as [[oc rest] hs2].
      destruct oc; cbn [hpack_verdict]; try exact I;
        destruct (has_bit (frame_flags f) headers_END_HEADERS); exact I.
    + destruct pt as [p|]; [|exact I].
      destruct (negb (frame_sid (pt_frame p) =? sid)); [exact I|].
      destruct (negb eoh && (mc <? pt_count p + 1)); [exact I|].
      destruct (_ && _); [exact I|].
      destruct (hp_load ops mh hs (pt_buf p ++ frag)) as [[oc rest] hs2].
      destruct oc; cbn [hpack_verdict]; try exact I; destruct eoh; exact I.
  - unfold load_error_event. destruct e, k; exact I.
Qed.

Theorem drain_clean {HS} (ops : hpack_ops HS) : forall n (st : rstate HS),
  (length (r_buf st) <= n)%nat -> ld_ok (r_ld st) ->
  Forall clean_event (snd (drain ops st)) /\ ld_ok (r_ld (fst (drain ops st))).
Proof.
  induction n as [|n IH]; intros st Hn Hl; rewrite run_unfold.
  all: destruct (r_dead st); [cbn [fst snd]; auto|].
  all: pose proof (ld_decode_ok (r_max_frame st) (r_ld st) (r_buf st) Hl) as Hok.
  all: destruct (ld_decode (r_max_frame st) (r_ld st) (r_buf st)) as [s|fr rest|] eqn:El.
  all: try (cbn [fst snd r_ld set_core]; split; [repeat constructor | assumption]).
  all: pose proof (decode_frame_no_panic ops (r_max_hls st) (r_max_cont st) (r_partial st) (r_hs st) fr Hok) as Hc.
  all: destruct (decode_frame ops (r_max_hls st) (r_max_cont st) (r_partial st) (r_hs st) fr) as [[pt hs] d] eqn:Ed.
  all: cbn [snd] in Hc.
  all: pose proof (ld_decode_out_len _ _ _ _ _ El) as Hlen.
  - destruct d as [|e|e].
    + rewrite <- Hlen, app_length in Hn. lia.
    + rewrite <- Hlen, app_length in Hn. lia.
    + cbn [fst snd r_ld set_core]. split; [constructor; [exact Hc | constructor] | exact I].
  - assert (Hrest : (length rest <= n)%nat) by (rewrite <- Hlen, app_length in Hn; lia).
    destruct d as [|e|e].
    + apply IH; [exact Hrest | exact I].
    + destruct (IH (set_core st rest LdHead pt hs false) Hrest I) as [Ha Hb].
      destruct (drain ops (set_core st rest LdHead pt hs false)) as [st' evs]. cbn [fst snd] in *.
      split; [constructor; assumption | exact Hb].
    + cbn [fst snd r_ld set_core]. split; [constructor; [exact Hc | constructor] | exact I].
Qed.

(* from the initial state, under any chunking and any HPACK instance, the reader never reaches a
   Rust panic (slice index, assert) and the model never runs out of fuel *)
Theorem reader_never_panics {HS} (ops : hpack_ops HS) hs0 max_frame max_hls : forall chunks,
  Forall clean_event (snd (feed_all ops (rinit hs0 max_frame max_hls) chunks)).
Proof.
  assert (H : forall chunks (st : rstate HS), ld_ok (r_ld st) ->
            Forall clean_event (snd (feed_all ops st chunks)) /\ ld_ok (r_ld (fst (feed_all ops st chunks)))).
  { induction chunks as [|c cs IH]; intros st Hl; [cbn [feed_all fst snd]; auto|].
    cbn [feed_all]. rewrite feed_run.
    destruct (drain_clean ops (length (r_buf (with_buf st (r_buf st ++ c)))) (with_buf st (r_buf st ++ c)) (Nat.le_refl _))
      as [Ha Hb].
    { destruct st as [buf0 ld0 mf0 mh0 mc0 pt0 hs1 dead0]. exact Hl. }
    destruct (drain ops (with_buf st (r_buf st ++ c))) as [s1 e1]. cbn [fst snd] in *.
    destruct (IH s1 Hb) as [Hc Hd]. destruct (feed_all ops s1 cs) as [s2 e2]. cbn [fst snd] in *.
    split; [apply Forall_app; split; assumption | exact Hd]. }
  intros chunks. apply H. exact I.
Qed.


(* ---------------------------------------------------------------------------------------- *)
(* the model's own reader on what the model's encoder wrote (raw header blocks) *)

Lemma load_frame_encoded k fl sid payload :
  k < 256 -> fl < 256 -> sid < 2147483648 ->
  load_frame (head_encode k fl sid (lenN payload) ++ payload) = dispatch (mk_head k fl sid) payload.
Proof.
  intros Hk Hf Hs. unfold head_encode, enc_u24, enc_u32. cbn [app]. unfold load_frame. cbn [parse_head].
  assert (E3 : fst (parse_sid ((sid / 16777216) mod 256) ((sid / 65536) mod 256) ((sid / 256) mod 256) (sid mod 256)) = sid).
  { unfold parse_sid, dec_u32, STREAM_ID_MASK. cbn [fst]. lia. }
  rewrite E3. rewrite (N.mod_small k 256 Hk), (N.mod_small fl 256 Hf). reflexivity.
Qed.

Lemma parse_head_encoded k fl sid len payload :
  k < 256 -> fl < 256 -> sid < 2147483648 ->
  parse_head (head_encode k fl sid len ++ payload) = Some (mk_head k fl sid, payload).
Proof.
  intros Hk Hf Hs. unfold head_encode, enc_u24, enc_u32. cbn [app parse_head].
  assert (E3 : fst (parse_sid ((sid / 16777216) mod 256) ((sid / 65536) mod 256) ((sid / 256) mod 256) (sid mod 256)) = sid).
  { unfold parse_sid, dec_u32, STREAM_ID_MASK. cbn [fst]. lia. }
  rewrite E3. rewrite (N.mod_small k 256 Hk), (N.mod_small fl 256 Hf). reflexivity.
Qed.

(* one complete frame at the front of the buffer is handed to decode_frame *)
Lemma drain_one_frame {HS} (ops : hpack_ops HS) (st : rstate HS) k fl sid p more :
  r_dead st = false -> r_ld st = LdHead ->
  r_buf st = (head_encode k fl sid (lenN p) ++ p) ++ more ->
  lenN p <= r_max_frame st -> lenN p < 16777216 ->
  drain ops st =
    let '(pt, hs, d) := decode_frame ops (r_max_hls st) (r_max_cont st) (r_partial st) (r_hs st)
                                     (head_encode k fl sid (lenN p) ++ p) in
    match d with
    | DNone => drain ops (set_core st more LdHead pt hs false)
    | DEvent e => let (st', evs) := drain ops (set_core st more LdHead pt hs false) in (st', e :: evs)
    | DStop e => (set_core st more LdHead pt hs true, [e])
    end.
Proof.
  intros Hd Hl Hb Hmax H24. rewrite run_unfold, Hd, Hl, Hb.
  set (fr := head_encode k fl sid (lenN p) ++ p).
  assert (Hfl : lenN fr = lenN p + 9).
  { unfold fr. rewrite FrameCodecProofs.lenN_app, lenN_head_encode. lia. }
  assert (Hld : ld_decode (r_max_frame st) LdHead (fr ++ more) = LdOut fr more).
  { unfold fr at 1, head_encode, enc_u24. cbn [app ld_decode].
    assert (E1 : ((lenN p / 65536) mod 256 * 256 + (lenN p / 256) mod 256) * 256 + lenN p mod 256 = lenN p) by lia.
    rewrite E1. destruct (r_max_frame st <? lenN p) eqn:E; [apply N.ltb_lt in E; lia|].
    unfold ld_data, ld_length_adjustment.
    match goal with |- context [lenN ?l <? _] => change l with (fr ++ more) end.
    rewrite FrameCodecProofs.lenN_app, Hfl.
    destruct (lenN p + 9 + lenN more <? lenN p + 9) eqn:E2; [apply N.ltb_lt in E2; lia|].
    match goal with |- LdOut (takeN _ ?l) _ = _ => change l with (fr ++ more) end.
    rewrite <- Hfl. rewrite FrameCodecProofs.takeN_app_exact, FrameCodecProofs.dropN_app_exact. reflexivity. }
  rewrite Hld. reflexivity.
Qed.

Lemma headers_load_plain k fl sid p :
  sid <> 0 -> (fl = 0 \/ fl = 1 \/ fl = 4 \/ fl = 5) ->
  headers_load (mk_head k fl sid) p = Ok (FHeaders sid fl None p).
Proof.
  intros Hs Hfl. unfold headers_load. cbn [mk_head h_sid h_flag].
  apply N.eqb_neq in Hs. rewrite Hs.
  destruct Hfl as [ -> | [ -> | [ -> | -> ]]];
    (change (has_bit _ headers_PADDED) with false; change (has_bit _ headers_PRIORITY) with false;
     cbn [bind]; change (0 <? 0) with false; cbn [bind]; reflexivity).
Qed.

Lemma push_promise_load_plain k fl sid promised p :
  sid <> 0 -> promised < 2147483648 -> (fl = 0 \/ fl = 4) ->
  push_promise_load (mk_head k fl sid) (enc_u32 promised ++ p) = Ok (FPushPromise sid fl promised p).
Proof.
  intros Hs Hp Hfl. unfold push_promise_load. cbn [mk_head h_sid h_flag].
  apply N.eqb_neq in Hs. rewrite Hs.
  assert (Hl : lenN (enc_u32 promised ++ p) = 4 + lenN p) by (rewrite FrameCodecProofs.lenN_app; reflexivity).
  destruct Hfl as [ -> | -> ];
    (change (has_bit _ headers_PADDED) with false; cbn [bind];
     destruct (lenN (enc_u32 promised ++ p) <? 4) eqn:E5; [apply N.ltb_lt in E5; lia|];
     unfold enc_u32; cbn [app]; change (0 <? 0) with false; cbn [bind];
     assert (Hp' : fst (parse_sid ((promised / 16777216) mod 256) ((promised / 65536) mod 256)
                                  ((promised / 256) mod 256) (promised mod 256)) = promised)
       by (unfold parse_sid, dec_u32, STREAM_ID_MASK; cbn [fst]; lia);
     rewrite Hp'; reflexivity).
Qed.

(* decode_frame, raw instance: the opening frame of a split block *)
Lemma decode_open_headers mh mc acc0 fl sid part :
  sid <> 0 -> sid < 2147483648 -> (fl = 0 \/ fl = 1) ->
  decode_frame hp_raw mh mc None acc0 (head_encode kind_headers fl sid (lenN part) ++ part) =
    (Some {| pt_frame := FHeaders sid fl None []; pt_buf := []; pt_count := 0 |}, part, DNone).
Proof.
  intros Hs Hs31 Hfl. unfold decode_frame, kind_headers.
  assert (Hf256 : fl < 256) by (destruct Hfl; subst; lia).
  rewrite parse_head_encoded by lia. cbn [mk_head h_kind]. change (kind_new 1) with KHeaders. cbn [andb].
  rewrite load_frame_encoded by lia. unfold dispatch. cbn [mk_head h_kind h_sid]. change (kind_new 1) with KHeaders.
  cbv iota. rewrite headers_load_plain by (auto; destruct Hfl; auto).
  cbn [lift is_header_frame frame_flags frame_block hp_raw hp_load hp_begin app].
  destruct Hfl as [-> | ->]; (change (has_bit _ headers_END_HEADERS) with false; cbn [hpack_verdict strip_block]; reflexivity).
Qed.

Lemma decode_open_push_promise mh mc acc0 sid promised part :
  sid <> 0 -> sid < 2147483648 -> promised < 2147483648 ->
  decode_frame hp_raw mh mc None acc0
    (head_encode kind_push_promise 0 sid (lenN (enc_u32 promised ++ part)) ++ enc_u32 promised ++ part) =
    (Some {| pt_frame := FPushPromise sid 0 promised []; pt_buf := []; pt_count := 0 |}, part, DNone).
Proof.
  intros Hs Hs31 Hp. unfold decode_frame, kind_push_promise.
  rewrite parse_head_encoded by lia. cbn [mk_head h_kind]. change (kind_new 5) with KPushPromise. cbn [andb].
  rewrite load_frame_encoded by lia. unfold dispatch. cbn [mk_head h_kind h_sid]. change (kind_new 5) with KPushPromise.
  cbv iota. rewrite push_promise_load_plain by auto.
  cbn [lift is_header_frame frame_flags frame_block hp_raw hp_load hp_begin app].
  change (has_bit 0 headers_END_HEADERS) with false. cbn [hpack_verdict strip_block]. reflexivity.
Qed.

(* ... and its CONTINUATION frames *)
Lemma decode_continuation mh mc p acc fl sid frag :
  sid <> 0 -> sid < 2147483648 -> frame_sid (pt_frame p) = sid -> pt_buf p = [] ->
  (fl = 0 \/ fl = 4) -> (fl = 0 -> pt_count p + 1 <= mc) ->
  decode_frame hp_raw mh mc (Some p) acc (head_encode kind_continuation fl sid (lenN frag) ++ frag) =
    if fl =? 0
    then (Some {| pt_frame := pt_frame p; pt_buf := []; pt_count := pt_count p + 1 |}, acc ++ frag, DNone)
    else (None, acc ++ frag, DEvent (EvHeaders (set_end_headers (pt_frame p)) (acc ++ frag))).
Proof.
  intros Hs Hs31 Hsid Hbuf Hfl Hcnt. unfold decode_frame, kind_continuation.
  assert (Hf256 : fl < 256) by (destruct Hfl; subst; lia).
  rewrite parse_head_encoded by lia. cbn [mk_head h_kind]. change (kind_new 9) with KContinuation. cbn [andb negb].
  rewrite load_frame_encoded by lia. unfold dispatch. cbn [mk_head h_kind h_sid h_flag]. change (kind_new 9) with KContinuation.
  cbv iota. rewrite Hsid, N.eqb_refl, Hbuf. cbn [negb lenN length]. change (N.of_nat 0 =? 0) with true. cbn [negb andb].
  cbn [hp_raw hp_load hp_over app].
  destruct Hfl as [-> | ->].
  - change (has_bit 0 continuation_END_HEADERS) with false. cbn [negb andb].
    destruct (mc <? pt_count p + 1) eqn:E; [apply N.ltb_lt in E; specialize (Hcnt eq_refl); lia|].
    cbn [hpack_verdict]. reflexivity.
  - change (has_bit 4 continuation_END_HEADERS) with true. cbn [negb andb hpack_verdict]. reflexivity.
Qed.

Lemma set_core_twice {HS} (st : rstate HS) b1 l1 p1 h1 d1 b2 l2 p2 h2 d2 :
  set_core (set_core st b1 l1 p1 h1 d1) b2 l2 p2 h2 d2 = set_core st b2 l2 p2 h2 d2.
Proof. reflexivity. Qed.

Lemma cont_frames_nonempty fuel max sid rest : (0 < fuel)%nat -> cont_frames fuel max sid rest <> [].
Proof. destruct fuel; [lia|]. intros _. cbn [cont_frames]. destruct (max <? lenN rest); discriminate. Qed.

Lemma drain_continuations smax sid :
  1 <= smax -> smax <= MAX_MAX_FRAME_SIZE -> sid <> 0 -> sid < 2147483648 ->
  forall fuel rest (st : rstate (list N)) F0 acc cnt more,
    (length rest < fuel)%nat -> smax <= r_max_frame st ->
    r_dead st = false -> r_ld st = LdHead ->
    r_buf st = concat (cont_frames fuel smax sid rest) ++ more ->
    r_partial st = Some {| pt_frame := F0; pt_buf := []; pt_count := cnt |} ->
    frame_sid F0 = sid -> r_hs st = acc ->
    cnt + N.of_nat (length (cont_frames fuel smax sid rest)) <= r_max_cont st + 1 ->
    drain hp_raw st =
      let (s', evs) := drain hp_raw (set_core st more LdHead None (acc ++ rest) false) in
      (s', EvHeaders (set_end_headers F0) (acc ++ rest) :: evs).
Proof.
  intros H1 H2 Hs0 Hs31. pose proof H2 as H2'. unfold MAX_MAX_FRAME_SIZE in H2'.
  induction fuel as [|fuel IH]; intros rest st F0 acc cnt more Hf Hmax Hd Hl Hb Hp Hsid Hhs Hcnt; [lia|].
  cbn [cont_frames] in Hb, Hcnt.
  destruct (smax <? lenN rest) eqn:E.
  - apply N.ltb_lt in E. pose proof (length_dropN_lt smax rest H1 E) as Hlt.
    assert (Hlt' : lenN (takeN smax rest) = smax) by (rewrite FrameCodecProofs.lenN_takeN; lia).
    cbn [concat] in Hb. rewrite <- app_assoc in Hb. rewrite <- Hlt' in Hb at 1.
    cbn [length] in Hcnt.
    pose proof (cont_frames_nonempty fuel smax sid (dropN smax rest) ltac:(lia)) as Hne.
    assert (Hlen1 : 1 <= N.of_nat (length (cont_frames fuel smax sid (dropN smax rest)))).
    { destruct (cont_frames fuel smax sid (dropN smax rest)); [congruence | cbn [length]; lia]. }
    rewrite (drain_one_frame hp_raw st kind_continuation 0 sid (takeN smax rest) _ Hd Hl Hb) by lia.
    rewrite Hp, Hhs.
    rewrite (decode_continuation (r_max_hls st) (r_max_cont st) _ acc 0 sid (takeN smax rest) Hs0 Hs31)
      by (cbn [pt_frame pt_buf pt_count]; auto; intros; lia).
    change (0 =? 0) with true. cbv iota. cbn [pt_frame pt_count].
    rewrite (IH (dropN smax rest) _ F0 (acc ++ takeN smax rest) (cnt + 1) more); try reflexivity; try assumption.
    + rewrite set_core_twice. rewrite <- app_assoc, FrameCodecProofs.takeN_dropN. reflexivity.
    + lia.
    + cbn [r_max_cont set_core]. lia.
  - apply N.ltb_ge in E. cbn [concat] in Hb. rewrite app_nil_r in Hb.
    rewrite (drain_one_frame hp_raw st kind_continuation headers_END_HEADERS sid rest _ Hd Hl Hb) by lia.
    rewrite Hp, Hhs. unfold headers_END_HEADERS.
    rewrite (decode_continuation (r_max_hls st) (r_max_cont st) _ acc 4 sid rest Hs0 Hs31)
      by (cbn [pt_frame pt_buf pt_count]; auto; intros; discriminate).
    change (4 =? 0) with false. cbv iota. cbn [pt_frame]. reflexivity.
Qed.

Lemma model_parse_ld max bs l more :
  model_parse max bs = POk l ->
  ld_decode max LdHead (bs ++ more) = LdOut bs more /\ load_frame bs = POk l.
Proof.
  unfold model_parse. destruct bs as [|l0 [|l1 [|l2 r]]]; try discriminate.
  destruct (max <? (l0 * 256 + l1) * 256 + l2) eqn:Emax; [discriminate|].
  destruct (lenN (l0 :: l1 :: l2 :: r) =? (l0 * 256 + l1) * 256 + l2 + ld_length_adjustment) eqn:El; [|discriminate].
  apply N.eqb_eq in El. intros H. split; [|exact H].
  cbn [app ld_decode]. rewrite Emax.
  change (l0 :: l1 :: l2 :: r ++ more) with ((l0 :: l1 :: l2 :: r) ++ more).
  unfold ld_data. rewrite <- El, FrameCodecProofs.lenN_app.
  destruct (lenN (l0 :: l1 :: l2 :: r) + lenN more <? lenN (l0 :: l1 :: l2 :: r)) eqn:E2; [apply N.ltb_lt in E2; lia|].
  rewrite FrameCodecProofs.takeN_app_exact, FrameCodecProofs.dropN_app_exact. reflexivity.
Qed.

Lemma model_parse_max_mono max1 max2 bs l :
  model_parse max1 bs = POk l -> max1 <= max2 -> model_parse max2 bs = POk l.
Proof.
  unfold model_parse. destruct bs as [|l0 [|l1 [|l2 r]]]; try discriminate.
  destruct (max1 <? _) eqn:E1; [discriminate|]. apply N.ltb_ge in E1. intros H Hle.
  destruct (max2 <? _) eqn:E2; [apply N.ltb_lt in E2; lia|]. exact H.
Qed.

(* the number of CONTINUATION frames the encoder needs for [f] under the limit [smax] *)
Definition continuations_needed (smax : N) (f : frame) : N :=
  match f with
  | FHeaders sid _ _ block =>
      if smax <? lenN block
      then N.of_nat (length (cont_frames (S (length (dropN smax block))) smax sid (dropN smax block)))
      else 0
  | FPushPromise sid _ _ block =>
      if smax - 4 <? lenN block
      then N.of_nat (length (cont_frames (S (length (dropN (smax - 4) block))) smax sid (dropN (smax - 4) block)))
      else 0
  | _ => 0
  end.

(* C12, serialise-then-parse inside the model: what Encoder::buffer / unset_frame emit for [f] under the
   sender's limit [smax], fed to the reader (receive limit [rmax] >= smax, raw header blocks), comes out
   as exactly one event carrying [f] -- for CONTINUATION runs as long as the receiver's
   CONTINUATION-flood limit is not exceeded. *)
Theorem C12_roundtrip_reader : forall smax rmax hls f,
  42 <= smax -> smax <= MAX_MAX_FRAME_SIZE -> smax <= rmax ->
  frame_wf smax f = true ->
  continuations_needed smax f <= calc_max_continuation_frames hls rmax + 1 ->
  exists bs,
    encode smax f = EOk bs /\
    map raw_event_frame (snd (feed hp_raw (rinit [] rmax hls) bs)) = [Some f].
Proof.
  intros smax rmax hls f H42 Hmax Hr Hwf Hcont.
  pose proof Hmax as Hmax'. unfold MAX_MAX_FRAME_SIZE in Hmax'.
  assert (Hsingle : single_frame smax f = true ->
     exists bs, encode smax f = EOk bs /\ map raw_event_frame (snd (feed hp_raw (rinit [] rmax hls) bs)) = [Some f]).
  { intros Hs. destruct (C12_roundtrip smax f H42 Hmax Hwf Hs) as (bs & He & _ & Hm).
    exists bs. split; [exact He|].
    apply (model_parse_max_mono smax rmax) in Hm; [|exact Hr].
    destruct (model_parse_ld rmax bs _ [] Hm) as [Hld Hlf]. rewrite app_nil_r in Hld.
    rewrite feed_run, run_unfold.
    unfold with_buf, set_core, rinit. cbn [r_buf r_ld r_max_frame r_max_hls r_max_cont r_partial r_hs r_dead app].
    rewrite Hld. unfold decode_frame.
    assert (H9 : exists h p, parse_head bs = Some (h, p)).
    { unfold load_frame in Hlf. destruct (parse_head bs) as [[h p]|]; [eauto | discriminate]. }
    destruct H9 as (h & p & Hph). rewrite Hph. cbn [andb]. rewrite Hlf.
    assert (Hfin : forall (st : rstate (list N)), r_dead st = false -> r_ld st = LdHead -> r_buf st = [] -> drain hp_raw st = (set_core st [] LdHead (r_partial st) (r_hs st) false, [])).
    { intros st Hd Hl Hb. rewrite run_unfold, Hd, Hl, Hb. reflexivity. }
    destruct (is_header_frame f) eqn:Eh.
    - cbn [hp_raw hp_load hp_begin app hpack_verdict].
      assert (Heh : has_bit (frame_flags f) headers_END_HEADERS = true).
      { destruct f; try discriminate; cbn [frame_wf] in Hwf; split_andb; boolprops; cbn [frame_flags];
          unfold headers_END_HEADERS, headers_END_STREAM in *.
        - match goal with H : _ \/ _ |- _ => destruct H as [H|H]; apply N.eqb_eq in H; subst; reflexivity end.
        - subst. reflexivity. }
      rewrite Heh. rewrite Hfin by reflexivity. cbn [snd map raw_event_frame].
      destruct f; try discriminate; reflexivity.
    - rewrite Hfin by reflexivity. cbn [snd map raw_event_frame]. reflexivity. }
  destruct (single_frame smax f) eqn:Es; [apply Hsingle; reflexivity|]. clear Hsingle.
  assert (Hfin : forall (st : rstate (list N)), r_dead st = false -> r_ld st = LdHead -> r_buf st = [] ->
            snd (drain hp_raw st) = []).
  { intros st Hd Hl Hb. rewrite run_unfold, Hd, Hl, Hb. reflexivity. }
  destruct f as [sid flags pad data | sid flags dep block | sid dep | sid flags promised block | s
                 | ack payload | last code debug | sid inc | sid code]; try discriminate.
  - (* HEADERS + CONTINUATION *)
    cbn [single_frame] in Es. apply N.leb_gt in Es.
    cbn [frame_wf] in Hwf. unfold sid_ok in Hwf. split_andb. boolprops. destruct dep; [discriminate|].
    match goal with H : sid <> 0 |- _ => rename H into Hs0 end.
    assert (Hfl : flags = 4 \/ flags = 5).
    { unfold headers_END_HEADERS, headers_END_STREAM in *.
      match goal with H : _ \/ _ |- _ => destruct H as [H|H]; apply N.eqb_eq in H; lia end. }
    cbn [continuations_needed] in Hcont.
    assert (E1 : (smax <? lenN block) = true) by (apply N.ltb_lt; lia). rewrite E1 in Hcont.
    cbn [encode]. unfold headers_encode, header_block_encode, HEADER_LEN, kind_headers, headers_END_HEADERS.
    assert (Hb4 : has_bit flags 4 = true) by (destruct Hfl; subst flags; reflexivity). rewrite Hb4.
    destruct (smax + 9 <? 9) eqn:E9; [apply N.ltb_lt in E9; lia|].
    rewrite WriteBufProofs.lenN_nil.
    destruct (smax + 9 - 9 <? 0) eqn:E0; [apply N.ltb_lt in E0; lia|].
    replace (smax + 9 - 9 - 0) with smax by lia. rewrite E1.
    assert (Hlt : lenN (takeN smax block) = smax) by (rewrite FrameCodecProofs.lenN_takeN; lia).
    rewrite Hlt. replace (0 + smax) with smax by lia.
    destruct (16777216 <=? smax) eqn:E2; [apply N.leb_le in E2; lia|].
    cbn [with_continuations app].
    set (rest := dropN smax block) in *.
    assert (Hfuel : (length rest < S (length rest))%nat) by lia.
    rewrite (continuations_encode_frames smax sid ltac:(lia) Hmax _ _ Hfuel).
    eexists. split; [reflexivity|].
    rewrite feed_run. unfold with_buf, set_core, rinit.
    cbn [r_buf r_ld r_max_frame r_max_hls r_max_cont r_partial r_hs r_dead app].
    rewrite <- Hlt at 1.
    match goal with |- context [drain hp_raw ?st0] => set (st := st0) end.
    rewrite (drain_one_frame hp_raw st 1 (flags - 4) sid (takeN smax block) _ eq_refl eq_refl eq_refl)
      by (unfold st; cbn [r_max_frame]; lia).
    unfold st at 1 2 3 4. cbn [r_max_hls r_max_cont r_partial r_hs].
    change 1 with kind_headers at 1.
    rewrite (decode_open_headers _ _ [] (flags - 4) sid (takeN smax block) Hs0 ltac:(lia))
      by (destruct Hfl; subst flags; [left | right]; reflexivity).
    match goal with |- context [drain hp_raw ?st1] => set (st' := st1) end.
    rewrite (drain_continuations smax sid ltac:(lia) Hmax Hs0 ltac:(lia) (S (length rest)) rest st'
               (FHeaders sid (flags - 4) None []) (takeN smax block) 0 []
               Hfuel ltac:(unfold st', st; cbn [r_max_frame set_core]; lia) eq_refl eq_refl
               ltac:(unfold st', st; cbn [r_buf set_core]; rewrite app_nil_r; reflexivity) eq_refl eq_refl eq_refl
               ltac:(unfold st', st; cbn [r_max_cont set_core]; lia)).
    match goal with |- context [drain hp_raw ?st2] => pose proof (Hfin st2 eq_refl eq_refl eq_refl) as Hf2;
      destruct (drain hp_raw st2) as [s2 e2] end.
    cbn [snd] in *. subst e2. cbn [map raw_event_frame set_end_headers].
    unfold rest. rewrite FrameCodecProofs.takeN_dropN.
    destruct Hfl; subst flags; reflexivity.
  - (* PUSH_PROMISE + CONTINUATION *)
    cbn [single_frame] in Es. apply N.leb_gt in Es.
    cbn [frame_wf] in Hwf. unfold sid_ok in Hwf. split_andb. boolprops.
    match goal with H : sid <> 0 |- _ => rename H into Hs0 end.
    unfold headers_END_HEADERS in *. subst flags.
    cbn [continuations_needed] in Hcont.
    assert (E1 : (smax - 4 <? lenN block) = true) by (apply N.ltb_lt; lia). rewrite E1 in Hcont.
    cbn [encode]. unfold push_promise_encode, header_block_encode, HEADER_LEN, kind_push_promise, headers_END_HEADERS.
    change (has_bit 4 4) with true. cbv iota.
    destruct (smax + 9 <? 9) eqn:E9; [apply N.ltb_lt in E9; lia|].
    change (lenN (enc_u32 promised)) with 4.
    destruct (smax + 9 - 9 <? 4) eqn:E0; [apply N.ltb_lt in E0; lia|].
    replace (smax + 9 - 9 - 4) with (smax - 4) by lia. rewrite E1.
    assert (Hlt : lenN (takeN (smax - 4) block) = smax - 4) by (rewrite FrameCodecProofs.lenN_takeN; lia).
    rewrite Hlt. replace (4 + (smax - 4)) with smax by lia.
    destruct (16777216 <=? smax) eqn:E2; [apply N.leb_le in E2; lia|].
    cbn [with_continuations]. change (4 - 4) with 0.
    set (rest := dropN (smax - 4) block) in *.
    set (part := takeN (smax - 4) block) in *.
    assert (Hfuel : (length rest < S (length rest))%nat) by lia.
    rewrite (continuations_encode_frames smax sid ltac:(lia) Hmax _ _ Hfuel).
    eexists. split; [reflexivity|].
    assert (Hpl : lenN (enc_u32 promised ++ part) = smax).
    { rewrite FrameCodecProofs.lenN_app, Hlt. change (lenN (enc_u32 promised)) with 4. lia. }
    rewrite feed_run. unfold with_buf, set_core, rinit.
    cbn [r_buf r_ld r_max_frame r_max_hls r_max_cont r_partial r_hs r_dead app].
    rewrite <- Hpl at 1.
    match goal with |- context [drain hp_raw ?st0] => set (st := st0) end.
    rewrite (drain_one_frame hp_raw st 5 0 sid (enc_u32 promised ++ part) _ eq_refl eq_refl eq_refl)
      by (unfold st; cbn [r_max_frame]; lia).
    unfold st at 1 2 3 4. cbn [r_max_hls r_max_cont r_partial r_hs].
    change 5 with kind_push_promise at 1.
    rewrite (decode_open_push_promise _ _ [] sid promised part Hs0 ltac:(lia) ltac:(lia)).
    match goal with |- context [drain hp_raw ?st1] => set (st' := st1) end.
    rewrite (drain_continuations smax sid ltac:(lia) Hmax Hs0 ltac:(lia) (S (length rest)) rest st'
               (FPushPromise sid 0 promised []) part 0 []
               Hfuel ltac:(unfold st', st; cbn [r_max_frame set_core]; lia) eq_refl eq_refl
               ltac:(unfold st', st; cbn [r_buf set_core]; rewrite app_nil_r; reflexivity) eq_refl eq_refl eq_refl
               ltac:(unfold st', st; cbn [r_max_cont set_core]; lia)).
    match goal with |- context [drain hp_raw ?st2] => pose proof (Hfin st2 eq_refl eq_refl eq_refl) as Hf2;
      destruct (drain hp_raw st2) as [s2 e2] end.
    cbn [snd] in *. subst e2. cbn [map raw_event_frame set_end_headers].
    unfold rest, part. rewrite FrameCodecProofs.takeN_dropN. reflexivity.
Qed.

Example C12_roundtrip_reader_example :
  let f := FPushPromise 1 headers_END_HEADERS 2 (repeat 66 150) in
  frame_wf 64 f = true /\
  continuations_needed 64 f = 2 /\ calc_max_continuation_frames 16777216 16384 = 1280.
Proof. vm_compute. repeat split; reflexivity. Qed.


(* ---------------------------------------------------------------------------------------- *)
(* HeaderBlock::is_malformed (literal instance): once a fragment made the block malformed, no
   later fragment can make it valid again, however the block is cut into HEADERS / CONTINUATION
   fragments *)

Lemma lit_loop_malformed_sticky : forall fuel max_hls st hsz buf oc rest st',
  lit_loop fuel max_hls st hsz true buf = (oc, rest, st') ->
  oc <> HpOk /\ lt_malformed st' = true.
Proof.
  induction fuel as [|fuel IH]; intros max_hls st hsz buf oc rest st' H; cbn [lit_loop] in H.
  - injection H as <- <- <-. split; [discriminate | reflexivity].
  - destruct buf as [|b after_type]; [injection H as <- <- <-; split; [discriminate | reflexivity]|].
    destruct (negb ((b =? 0) || (b =? 16))); [injection H as <- <- <-; split; [discriminate | reflexivity]|].
    destruct (decode_str after_type) as [name after_name| | |];
      try (injection H as <- <- <-; split; [discriminate | reflexivity]).
    destruct (decode_str after_name) as [value rest0| | |];
      try (injection H as <- <- <-; split; [discriminate | reflexivity]).
    destruct (negb _); [injection H as <- <- <-; split; [discriminate | reflexivity]|].
    destruct (_ || _).
    + eapply IH; exact H.
    + destruct (_ <? _); [injection H as <- <- <-; split; [discriminate | reflexivity]|].
      eapply IH; exact H.
Qed.

(* the flag a call of load leaves behind is at least the one it started from *)
Lemma lit_loop_malformed_mono : forall fuel max_hls st hsz m buf oc rest st',
  lit_loop fuel max_hls st hsz m buf = (oc, rest, st') ->
  m = true -> lt_malformed st' = true.
Proof.
  intros fuel max_hls st hsz m buf oc rest st' H Hm. subst m.
  eapply lit_loop_malformed_sticky; exact H.
Qed.

(* a load that meets a connection-specific field ends with the flag set, also when it ends NeedMore *)
Theorem hp_lit_malformed_sticky max_hls (hs : lit_state) buf :
  lt_malformed hs = true ->
  let '(oc, rest, hs') := hp_load hp_lit max_hls hs buf in
  oc <> HpOk /\ lt_malformed hs' = true.
Proof.
  intros Hm. cbn [hp_lit hp_load]. rewrite Hm.
  destruct (lit_loop (S (length buf)) max_hls hs (lt_field_size hs) true buf) as [[oc rest] hs'] eqn:E.
  eapply lit_loop_malformed_sticky; exact E.
Qed.

(* hence: with a header block open whose state is already malformed, no CONTINUATION -- in particular
   not the one carrying END_HEADERS -- makes decode_frame deliver the frame *)
Theorem malformed_block_never_delivered mh mc p (hs : lit_state) bytes f hs'' :
  lt_malformed hs = true ->
  snd (decode_frame hp_lit mh mc (Some p) hs bytes) <> DEvent (EvHeaders f hs'').
Proof.
  intros Hm. unfold decode_frame.
  destruct (parse_head bytes) as [[h payload]|] eqn:E; [|discriminate].
  destruct (kind_new (h_kind h)) eqn:K; cbn [andb negb snd]; try discriminate.
  rewrite (load_frame_continuation bytes h payload E K).
  destruct (negb (frame_sid (pt_frame p) =? h_sid h)); [discriminate|].
  destruct (_ && _); [discriminate|].
  destruct (_ && _); [discriminate|].
  pose proof (hp_lit_malformed_sticky mh hs (pt_buf p ++ payload) Hm) as Hst.
  destruct (hp_load hp_lit mh hs (pt_buf p ++ payload)) as [[oc rest] hs2]. destruct Hst as [Hoc _].
  destruct oc; try congruence; cbn [hpack_verdict snd];
    destruct (has_bit (h_flag h) continuation_END_HEADERS); discriminate.
Qed.

(* regression for the repaired defect (commit "a header block stays malformed when it continues in a
   CONTINUATION frame"): a block with `connection: close` is refused with a stream error whether it
   arrives in one frame, or cut in the middle of the field that follows the offending one *)
Example malformed_verdict_survives_fragmentation :
  let lit name value := [0; N.of_nat (length name)] ++ name ++ [N.of_nat (length value)] ++ value in
  let block := lit [120; 45; 97] [49] ++ lit s_connection [99; 108; 111; 115; 101] ++ lit [120; 45; 98] [50] in
  let head ty fl len := [0; 0; len; ty; fl; 0; 0; 0; 1] in
  let cut := 27 in
  let whole := head 1 4 (lenN block) ++ block in
  let split := head 1 0 cut ++ takeN cut block ++ head 9 4 (lenN block - cut) ++ dropN cut block in
  snd (feed hp_lit (rinit lit_empty 16384 16777216) whole) = [EvError (PEReset 1 reason_PROTOCOL_ERROR)] /\
  snd (feed hp_lit (rinit lit_empty 16384 16777216) split) = [EvError (PEReset 1 reason_PROTOCOL_ERROR)].
Proof. vm_compute. split; reflexivity. Qed.
