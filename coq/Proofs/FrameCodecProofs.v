(* Proofs about the frame layer model (Model/FrameCodec.v) against the RFC 9113 grammar
   (Ref/Rfc9113Frame.v):
     model_parse_never_panics      load_frame / model_parse never reach a Rust panic
     C12_parse_agrees_with_rfc     same accept / reject decision and same values, outside the
                                   boundary of the codec (rfc_parse_frame_codec)
     C12_roundtrip_*               what the encoders emit is parsed back, by the reference parser
                                   and by the model's own parser, to the value that was sent *)
From H2V Require Import Base.Tac Base.Bytes Gen.FrameConsts Ref.Rfc9113Frame Model.FrameCodec.
Local Open Scope N_scope.

(* ---------------------------------------------------------------------------------------- *)
(* lists *)

Lemma lenN_nil : lenN [] = 0.
Proof. reflexivity. Qed.

Lemma lenN_cons x l : lenN (x :: l) = 1 + lenN l.
Proof. unfold lenN. cbn [length]. lia. Qed.

Lemma lenN_app a b : lenN (a ++ b) = lenN a + lenN b.
Proof. unfold lenN. rewrite app_length. lia. Qed.

Lemma olen_lenN l : olen l = lenN l.
Proof. reflexivity. Qed.

Lemma take_takeN n l : take n l = takeN n l.
Proof. reflexivity. Qed.

Lemma drop_dropN n l : drop n l = dropN n l.
Proof. reflexivity. Qed.

Lemma takeN_all l n : lenN l <= n -> takeN n l = l.
Proof. unfold takeN, lenN. intros H. apply firstn_all2. lia. Qed.

Lemma takeN_lenN l : takeN (lenN l) l = l.
Proof. apply takeN_all. lia. Qed.

Lemma dropN_all l n : lenN l <= n -> dropN n l = [].
Proof. unfold dropN, lenN. intros H. apply skipn_all2. lia. Qed.

Lemma takeN_dropN n l : takeN n l ++ dropN n l = l.
Proof. apply firstn_skipn. Qed.

Lemma lenN_takeN n l : lenN (takeN n l) = N.min n (lenN l).
Proof. unfold lenN, takeN. rewrite firstn_length. lia. Qed.

Lemma lenN_dropN n l : lenN (dropN n l) = lenN l - n.
Proof. unfold lenN, dropN. rewrite skipn_length. lia. Qed.

Lemma takeN_app_exact a b : takeN (lenN a) (a ++ b) = a.
Proof.
  unfold takeN, lenN. rewrite Nat2N.id. rewrite firstn_app, Nat.sub_diag, firstn_all. cbn [firstn].
  apply app_nil_r.
Qed.

Lemma dropN_app_exact a b : dropN (lenN a) (a ++ b) = b.
Proof.
  unfold dropN, lenN. rewrite Nat2N.id. rewrite skipn_app, Nat.sub_diag, skipn_all. reflexivity.
Qed.

Lemma takeN_0 l : takeN 0 l = [].
Proof. reflexivity. Qed.

Lemma dropN_0 l : dropN 0 l = l.
Proof. reflexivity. Qed.

Lemma list_N_eqb_refl l : list_N_eqb l l = true.
Proof. apply list_N_eqb_eq. reflexivity. Qed.

Lemma bytes_ok_cons b l : bytes_ok (b :: l) = true <-> b < 256 /\ bytes_ok l = true.
Proof.
  unfold bytes_ok. cbn [forallb]. rewrite andb_true_iff. unfold byte_ok. rewrite N.ltb_lt. tauto.
Qed.

Lemma bytes_ok_app a b : bytes_ok (a ++ b) = true <-> bytes_ok a = true /\ bytes_ok b = true.
Proof. unfold bytes_ok. rewrite forallb_app, andb_true_iff. tauto. Qed.

Lemma bytes_ok_firstn n l : bytes_ok l = true -> bytes_ok (firstn n l) = true.
Proof.
  intros H. rewrite <- (firstn_skipn n l) in H. apply bytes_ok_app in H. tauto.
Qed.

Lemma bytes_ok_skipn n l : bytes_ok l = true -> bytes_ok (skipn n l) = true.
Proof.
  intros H. rewrite <- (firstn_skipn n l) in H. apply bytes_ok_app in H. tauto.
Qed.

(* ---------------------------------------------------------------------------------------- *)
(* numbers *)

Lemma dec_enc_u32 v : v < 4294967296 ->
  match enc_u32 v with [a; b; c; d] => dec_u32 a b c d = v | _ => False end.
Proof. intros H. unfold enc_u32, dec_u32. lia. Qed.

Lemma dec_enc_u16 v : v < 65536 ->
  match enc_u16 v with [a; b] => dec_u16 a b = v | _ => False end.
Proof. intros H. unfold enc_u16, dec_u16. lia. Qed.

Lemma has_bit_flag f b : has_bit f b = flag f b.
Proof. reflexivity. Qed.

(* StreamId::parse and the RFC's 31-bit field agree on octets *)
Lemma parse_sid_u31 a b c d :
  a < 256 -> b < 256 -> c < 256 -> d < 256 ->
  parse_sid a b c d = (u31_of a b c d, high_bit a).
Proof.
  intros Ha Hb Hc Hd. unfold parse_sid, u31_of, high_bit, has_bit, dec_u32, STREAM_ID_MASK.
  f_equal.
  - lia.
  - destruct (128 <=? a) eqn:E; [apply N.leb_le in E | apply N.leb_gt in E].
    + apply N.eqb_eq. lia.
    + apply N.eqb_neq. lia.
Qed.

Lemma dec_u32_u32_of a b c d : dec_u32 a b c d = u32_of a b c d.
Proof. unfold dec_u32, u32_of. lia. Qed.

Lemma dec_u32_mod_u31 a b c d :
  a < 256 -> b < 256 -> c < 256 -> d < 256 ->
  dec_u32 a b c d mod 2147483648 = u31_of a b c d.
Proof. intros. unfold dec_u32, u31_of. lia. Qed.

(* ---------------------------------------------------------------------------------------- *)
(* per frame type: the model's `load` against the RFC grammar *)


Ltac dtest :=
  match goal with
  | |- context [if ?a <? ?b then _ else _] => let E := fresh "E" in destruct (a <? b) eqn:E; [apply N.ltb_lt in E | apply N.ltb_ge in E]
  | |- context [if ?a <=? ?b then _ else _] => let E := fresh "E" in destruct (a <=? b) eqn:E; [apply N.leb_le in E | apply N.leb_gt in E]
  | |- context [if ?a =? ?b then _ else _] => let E := fresh "E" in destruct (a =? b) eqn:E; [apply N.eqb_eq in E | apply N.eqb_neq in E]
  end.

Definition mk_head (k fl sid : N) : head := {| h_kind := k; h_flag := fl; h_sid := sid |}.

Lemma data_flags fl :
  let f := keep_bit fl 1 + keep_bit fl 8 in
  has_bit f 8 = flag fl 8 /\ has_bit f 1 = flag fl 1 /\ f = bit_if (flag fl 1) 1 + bit_if (flag fl 8) 8.
Proof.
  unfold keep_bit. change flag with has_bit.
  destruct (has_bit fl 1), (has_bit fl 8); vm_compute; auto.
Qed.

Lemma agree_data k fl sid payload :
  agree (lift KData sid (data_load (mk_head k fl sid) payload)) (parse_payload T_DATA fl sid payload) = true.
Proof.
  unfold parse_payload. change (T_DATA =? T_DATA) with true. cbv iota.
  unfold data_load. cbn [h_sid h_flag mk_head].
  destruct (sid =? 0) eqn:Es; [reflexivity|].
  unfold data_PADDED, data_END_STREAM, F_PADDED, F_END_STREAM.
  destruct (data_flags fl) as (Hp & He & Hf). cbv zeta in Hp, He, Hf.
  rewrite Hp. unfold pad_length.
  destruct (flag fl 8) eqn:Epad.
  - (* padded *)
    unfold strip_padding. destruct payload as [|p rest].
    + reflexivity.
    + rewrite lenN_cons. 
      destruct (1 + lenN rest =? 0) eqn:E0; [apply N.eqb_eq in E0; lia|].
      unfold strip_trailing. change olen with lenN.
      destruct (1 + lenN rest <=? p) eqn:E1; [apply N.leb_le in E1 | apply N.leb_gt in E1].
      * destruct (p <=? lenN rest) eqn:E2; [apply N.leb_le in E2; lia|]. reflexivity.
      * destruct (p <=? lenN rest) eqn:E2; [apply N.leb_le in E2 | apply N.leb_gt in E2; lia].
        cbn [bind lift agree wire_matches]. unfold data_END_STREAM, data_PADDED.
        rewrite He, Hp, <- Hf, !N.eqb_refl, Bool.eqb_reflx. cbn [opt_N_eqb eqb andb]. rewrite N.eqb_refl.
        rewrite take_takeN. replace (1 + lenN rest - p - 1) with (lenN rest - p) by lia.
        rewrite list_N_eqb_refl. reflexivity.
  - cbn [strip_trailing lift agree wire_matches]. unfold data_END_STREAM, data_PADDED.
    rewrite He, Hp, <- Hf, !N.eqb_refl, Bool.eqb_reflx, list_N_eqb_refl. reflexivity.
Qed.

Lemma strip_agree pad (src : list N) :
  (if 0 <? pad
   then if lenN src <? pad then @Err (list N) TooMuchPadding else Ok (takeN (lenN src - pad) src)
   else Ok src)
  = match strip_trailing (Some pad) src with Some f => Ok f | None => Err TooMuchPadding end.
Proof.
  unfold strip_trailing. change olen with lenN. change take with takeN.
  destruct (0 <? pad) eqn:E0; [apply N.ltb_lt in E0 | apply N.ltb_ge in E0].
  - destruct (lenN src <? pad) eqn:E1; [apply N.ltb_lt in E1 | apply N.ltb_ge in E1].
    + destruct (pad <=? lenN src) eqn:E2; [apply N.leb_le in E2; lia | reflexivity].
    + destruct (pad <=? lenN src) eqn:E2; [reflexivity | apply N.leb_gt in E2; lia].
  - assert (pad = 0) by lia. subst pad. cbn [N.leb]. rewrite N.sub_0_r, takeN_lenN.
    destruct (0 <=? lenN src) eqn:E2; [reflexivity | apply N.leb_gt in E2; lia].
Qed.

Lemma prio_eqb_mk x i w :
  prio_eqb {| pf_exclusive := x; pf_dependency := i; pf_weight := w |}
           {| dep_id := i; dep_weight := w; dep_excl := x |} = true.
Proof.
  unfold prio_eqb. cbn [pf_exclusive pf_dependency pf_weight dep_excl dep_id dep_weight].
  rewrite Bool.eqb_reflx, !N.eqb_refl. reflexivity.
Qed.

Lemma agree_headers k fl sid payload :
  bytes_ok payload = true ->
  agree (lift KHeaders sid (headers_load (mk_head k fl sid) payload)) (parse_payload T_HEADERS fl sid payload) = true.
Proof.
  intros Hb.
  unfold parse_payload. change (T_HEADERS =? T_DATA) with false. change (T_HEADERS =? T_HEADERS) with true. cbv iota.
  unfold headers_load. cbn [h_sid h_flag mk_head].
  destruct (sid =? 0) eqn:Es; [reflexivity|].
  unfold headers_PADDED, headers_PRIORITY, F_PADDED, F_PRIORITY. change flag with has_bit.
  unfold pad_length.
  (* normalise the padding step: both sides work on (pad option, src1) *)
  assert (Hcore : forall (pad : option N) (src1 : list N), bytes_ok src1 = true ->
    agree (lift KHeaders sid
      ('(dep, src2) <-
         (if has_bit fl 32 then
            if lenN src1 <? 5 then Err MalformedMessage else
            d <- dependency_load (takeN 5 src1) ;;
            if dep_id d =? sid then Err InvalidDependencyId else Ok (Some d, dropN 5 src1)
          else Ok (None, src1)) ;;
       src3 <- (match pad with
                | Some p => if 0 <? p then if lenN src2 <? p then Err TooMuchPadding
                                           else Ok (takeN (lenN src2 - p) src2) else Ok src2
                | None => Ok src2 end) ;;
       Ok (FHeaders sid fl dep src3)))
     (match (if has_bit fl 32 then
               match parse_priority_fields src1 with Some (p, rest) => Some (Some p, rest) | None => None end
             else Some (None, src1)) with
      | None => Reject FRAME_SIZE_ERROR
      | Some (prio, rest) =>
          match strip_trailing pad rest with
          | None => Reject PROTOCOL_ERROR
          | Some frag =>
              match prio with
              | Some p => if pf_dependency p =? sid then Reject PROTOCOL_ERROR
                          else Accept (WHeaders sid (has_bit fl F_END_STREAM) (has_bit fl F_END_HEADERS) prio frag)
              | None => Accept (WHeaders sid (has_bit fl F_END_STREAM) (has_bit fl F_END_HEADERS) None frag)
              end
          end
      end) = true).
  { intros pad src1 Hb1.
    assert (Hfin : forall dep prio src2, opt_prio_eqb prio dep = true ->
       agree (lift KHeaders sid
          (src3 <- (match pad with
                | Some p => if 0 <? p then if lenN src2 <? p then Err TooMuchPadding
                                           else Ok (takeN (lenN src2 - p) src2) else Ok src2
                | None => Ok src2 end) ;; Ok (FHeaders sid fl dep src3)))
         (match strip_trailing pad src2 with
          | None => Reject PROTOCOL_ERROR
          | Some frag => Accept (WHeaders sid (has_bit fl F_END_STREAM) (has_bit fl F_END_HEADERS) prio frag)
          end) = true).
    { intros dep prio src2 Hp. destruct pad as [p|].
      - rewrite strip_agree. destruct (strip_trailing (Some p) src2); [|reflexivity].
        cbn [bind lift agree wire_matches]. unfold headers_END_STREAM, headers_END_HEADERS, F_END_STREAM, F_END_HEADERS.
        rewrite N.eqb_refl, !Bool.eqb_reflx, Hp, list_N_eqb_refl. reflexivity.
      - cbn [strip_trailing bind lift agree wire_matches].
        unfold headers_END_STREAM, headers_END_HEADERS, F_END_STREAM, F_END_HEADERS.
        rewrite N.eqb_refl, !Bool.eqb_reflx, Hp, list_N_eqb_refl. reflexivity. }
    destruct (has_bit fl 32) eqn:Eprio.
    - destruct src1 as [|a [|b [|c [|d [|w rest]]]]];
        try (cbn [length lenN parse_priority_fields]; reflexivity).
      assert (E5 : (lenN (a :: b :: c :: d :: w :: rest) <? 5) = false).
      { rewrite !lenN_cons. apply N.ltb_ge. lia. }
      rewrite E5. change (takeN 5 (a :: b :: c :: d :: w :: rest)) with [a; b; c; d; w].
      change (dropN 5 (a :: b :: c :: d :: w :: rest)) with rest.
      apply bytes_ok_cons in Hb1 as (Ha & Hb1). apply bytes_ok_cons in Hb1 as (Hb' & Hb1).
      apply bytes_ok_cons in Hb1 as (Hc & Hb1). apply bytes_ok_cons in Hb1 as (Hd & Hb1).
      unfold dependency_load. change (lenN [a; b; c; d; w] =? 5) with true. cbn [negb].
      rewrite (parse_sid_u31 a b c d Ha Hb' Hc Hd). cbn [bind dep_id parse_priority_fields pf_dependency].
      destruct (u31_of a b c d =? sid) eqn:Edep.
      + cbn [lift agree]. destruct (strip_trailing pad rest); reflexivity.
      + cbn [bind]. 
        specialize (Hfin (Some {| dep_id := u31_of a b c d; dep_weight := w; dep_excl := high_bit a |})
                         (Some {| pf_exclusive := high_bit a; pf_dependency := u31_of a b c d; pf_weight := w |}) rest).
        destruct (strip_trailing pad rest) eqn:Est.
        * apply Hfin. apply prio_eqb_mk.
        * apply Hfin. apply prio_eqb_mk.
    - cbn [bind]. specialize (Hfin None None src1 eq_refl).
      destruct (strip_trailing pad src1); exact Hfin. }
  destruct (has_bit fl 8) eqn:Epad.
  - destruct payload as [|p rest]; [reflexivity|].
    apply bytes_ok_cons in Hb as (_ & Hb). cbn [bind].
    exact (Hcore (Some p) rest Hb).
  - cbn [bind]. specialize (Hcore None payload Hb).
    exact Hcore.
Qed.

Lemma agree_priority k fl sid payload :
  bytes_ok payload = true -> sid <> 0 ->
  agree (lift KPriority sid (priority_load (mk_head k fl sid) payload)) (parse_payload T_PRIORITY fl sid payload) = true.
Proof.
  intros Hb Hs.
  unfold parse_payload.
  change (T_PRIORITY =? T_DATA) with false. change (T_PRIORITY =? T_HEADERS) with false.
  change (T_PRIORITY =? T_PRIORITY) with true. cbv iota.
  apply N.eqb_neq in Hs. rewrite Hs.
  unfold priority_load, dependency_load. cbn [h_sid mk_head]. change olen with lenN.
  destruct (lenN payload =? 5) eqn:E5; cbn [negb]; [|reflexivity].
  apply N.eqb_eq in E5.
  destruct payload as [|a [|b [|c [|d [|w rest]]]]]; try (cbn in E5; lia).
  apply bytes_ok_cons in Hb as (Ha & Hb). apply bytes_ok_cons in Hb as (Hb' & Hb).
  apply bytes_ok_cons in Hb as (Hc & Hb). apply bytes_ok_cons in Hb as (Hd & Hb).
  rewrite (parse_sid_u31 a b c d Ha Hb' Hc Hd). cbn [bind dep_id parse_priority_fields pf_dependency].
  destruct (u31_of a b c d =? sid) eqn:Edep; [reflexivity|].
  cbn [lift agree wire_matches]. rewrite N.eqb_refl, prio_eqb_mk. reflexivity.
Qed.

Lemma agree_reset k fl sid payload :
  sid <> 0 ->
  agree (lift KReset sid (reset_load (mk_head k fl sid) payload)) (parse_payload T_RST_STREAM fl sid payload) = true.
Proof.
  intros Hs. unfold parse_payload.
  change (T_RST_STREAM =? T_DATA) with false. change (T_RST_STREAM =? T_HEADERS) with false.
  change (T_RST_STREAM =? T_PRIORITY) with false. change (T_RST_STREAM =? T_RST_STREAM) with true. cbv iota.
  apply N.eqb_neq in Hs. rewrite Hs.
  unfold reset_load. cbn [h_sid mk_head].
  destruct payload as [|a [|b [|c [|d [|e rest]]]]]; try reflexivity.
  - change (lenN [a; b; c; d] =? 4) with true. cbn [negb lift agree wire_matches].
    rewrite dec_u32_u32_of, !N.eqb_refl. reflexivity.
  - assert (E : (lenN (a :: b :: c :: d :: e :: rest) =? 4) = false).
    { apply N.eqb_neq. rewrite !lenN_cons. lia. }
    rewrite E. reflexivity.
Qed.

Lemma agree_ping k fl sid payload :
  agree (lift KPing sid (ping_load (mk_head k fl sid) payload)) (parse_payload T_PING fl sid payload) = true.
Proof.
  unfold parse_payload.
  change (T_PING =? T_DATA) with false. change (T_PING =? T_HEADERS) with false.
  change (T_PING =? T_PRIORITY) with false. change (T_PING =? T_RST_STREAM) with false.
  change (T_PING =? T_SETTINGS) with false. change (T_PING =? T_PUSH_PROMISE) with false.
  change (T_PING =? T_PING) with true. cbv iota.
  unfold ping_load. cbn [h_sid h_flag mk_head]. change olen with lenN.
  destruct (sid =? 0) eqn:Es; cbn [negb]; [|reflexivity].
  destruct (lenN payload =? 8) eqn:E8; cbn [negb]; [|reflexivity].
  cbn [lift agree wire_matches]. rewrite list_N_eqb_refl.
  unfold keep_bit, ping_ACK, F_ACK. change flag with has_bit.
  destruct (has_bit fl 1); reflexivity.
Qed.

Lemma agree_goaway fl payload :
  bytes_ok payload = true ->
  agree (lift KGoAway 0 (go_away_load payload)) (parse_payload T_GOAWAY fl 0 payload) = true.
Proof.
  intros Hb. unfold parse_payload.
  change (T_GOAWAY =? T_DATA) with false. change (T_GOAWAY =? T_HEADERS) with false.
  change (T_GOAWAY =? T_PRIORITY) with false. change (T_GOAWAY =? T_RST_STREAM) with false.
  change (T_GOAWAY =? T_SETTINGS) with false. change (T_GOAWAY =? T_PUSH_PROMISE) with false.
  change (T_GOAWAY =? T_PING) with false. change (T_GOAWAY =? T_GOAWAY) with true. cbv iota.
  change (negb (0 =? 0)) with false. cbv iota.
  unfold go_away_load.
  destruct payload as [|a [|b [|c [|d [|e [|f [|g [|i debug]]]]]]]]; try reflexivity.
  assert (E : (lenN (a :: b :: c :: d :: e :: f :: g :: i :: debug) <? 8) = false).
  { apply N.ltb_ge. rewrite !lenN_cons. lia. }
  rewrite E.
  apply bytes_ok_cons in Hb as (Ha & Hb). apply bytes_ok_cons in Hb as (Hb' & Hb).
  apply bytes_ok_cons in Hb as (Hc & Hb). apply bytes_ok_cons in Hb as (Hd & Hb).
  rewrite (parse_sid_u31 a b c d Ha Hb' Hc Hd). cbn [fst lift agree wire_matches].
  rewrite dec_u32_u32_of, !N.eqb_refl, list_N_eqb_refl. reflexivity.
Qed.

Lemma agree_window_update k fl sid payload :
  bytes_ok payload = true ->
  agree (lift KWindowUpdate sid (window_update_load (mk_head k fl sid) payload))
        (parse_payload T_WINDOW_UPDATE fl sid payload) = true.
Proof.
  intros Hb. unfold parse_payload.
  change (T_WINDOW_UPDATE =? T_DATA) with false. change (T_WINDOW_UPDATE =? T_HEADERS) with false.
  change (T_WINDOW_UPDATE =? T_PRIORITY) with false. change (T_WINDOW_UPDATE =? T_RST_STREAM) with false.
  change (T_WINDOW_UPDATE =? T_SETTINGS) with false. change (T_WINDOW_UPDATE =? T_PUSH_PROMISE) with false.
  change (T_WINDOW_UPDATE =? T_PING) with false. change (T_WINDOW_UPDATE =? T_GOAWAY) with false.
  change (T_WINDOW_UPDATE =? T_WINDOW_UPDATE) with true. cbv iota.
  unfold window_update_load. cbn [h_sid mk_head].
  destruct payload as [|a [|b [|c [|d [|e rest]]]]]; try reflexivity.
  - change (lenN [a; b; c; d] =? 4) with true. cbn [negb].
    apply bytes_ok_cons in Hb as (Ha & Hb). apply bytes_ok_cons in Hb as (Hb' & Hb).
    apply bytes_ok_cons in Hb as (Hc & Hb). apply bytes_ok_cons in Hb as (Hd & Hb).
    unfold SIZE_INCREMENT_MASK. rewrite (dec_u32_mod_u31 a b c d Ha Hb' Hc Hd).
    destruct (u31_of a b c d =? 0); [reflexivity|].
    cbn [lift agree wire_matches]. rewrite !N.eqb_refl. reflexivity.
  - assert (E : (lenN (a :: b :: c :: d :: e :: rest) =? 4) = false).
    { apply N.eqb_neq. rewrite !lenN_cons. lia. }
    rewrite E. reflexivity.
Qed.

Lemma agree_continuation fl sid payload :
  sid <> 0 ->
  agree (POk (LdContinuation sid (has_bit fl continuation_END_HEADERS) payload))
        (parse_payload T_CONTINUATION fl sid payload) = true.
Proof.
  intros Hs. unfold parse_payload.
  change (T_CONTINUATION =? T_DATA) with false. change (T_CONTINUATION =? T_HEADERS) with false.
  change (T_CONTINUATION =? T_PRIORITY) with false. change (T_CONTINUATION =? T_RST_STREAM) with false.
  change (T_CONTINUATION =? T_SETTINGS) with false. change (T_CONTINUATION =? T_PUSH_PROMISE) with false.
  change (T_CONTINUATION =? T_PING) with false. change (T_CONTINUATION =? T_GOAWAY) with false.
  change (T_CONTINUATION =? T_WINDOW_UPDATE) with false. change (T_CONTINUATION =? T_CONTINUATION) with true.
  cbv iota. apply N.eqb_neq in Hs. rewrite Hs.
  cbn [agree wire_matches]. rewrite N.eqb_refl, list_N_eqb_refl.
  change flag with has_bit. unfold continuation_END_HEADERS, F_END_HEADERS. rewrite Bool.eqb_reflx. reflexivity.
Qed.

Lemma agree_push_promise k fl sid payload :
  bytes_ok payload = true ->
  agree (lift KPushPromise sid (push_promise_load (mk_head k fl sid) payload))
        (parse_payload T_PUSH_PROMISE fl sid payload) = true.
Proof.
  intros Hb. unfold parse_payload.
  change (T_PUSH_PROMISE =? T_DATA) with false. change (T_PUSH_PROMISE =? T_HEADERS) with false.
  change (T_PUSH_PROMISE =? T_PRIORITY) with false. change (T_PUSH_PROMISE =? T_RST_STREAM) with false.
  change (T_PUSH_PROMISE =? T_SETTINGS) with false. change (T_PUSH_PROMISE =? T_PUSH_PROMISE) with true. cbv iota.
  unfold push_promise_load. cbn [h_sid h_flag mk_head].
  destruct (sid =? 0) eqn:Es; [reflexivity|].
  unfold headers_PADDED, F_PADDED in *. change flag with has_bit in *. change olen with lenN in *.
  unfold pad_length.
  assert (Hcore : forall (pad : option N) (src1 : list N), bytes_ok src1 = true ->
     agree (lift KPushPromise sid
        (if lenN src1 <? 4 then Err MalformedMessage else
         match src1 with
         | a :: b :: c :: d :: src2 =>
             src3 <- (match pad with
                      | Some p => if 0 <? p then if lenN src2 <? p then Err TooMuchPadding
                                                 else Ok (takeN (lenN src2 - p) src2) else Ok src2
                      | None => Ok src2 end) ;;
             Ok (FPushPromise sid fl (fst (parse_sid a b c d)) src3)
         | _ => Panic
         end))
       (match src1 with
        | a :: b :: c :: d :: rest =>
            match strip_trailing pad rest with
            | None => Reject PROTOCOL_ERROR
            | Some frag => Accept (WPushPromise sid (has_bit fl F_END_HEADERS) (u31_of a b c d) frag)
            end
        | _ => Reject FRAME_SIZE_ERROR
        end) = true).
  { intros pad src1 Hb1.
    destruct src1 as [|a [|b [|c [|d src2]]]]; try reflexivity.
    apply bytes_ok_cons in Hb1 as (Ha & Hb1). apply bytes_ok_cons in Hb1 as (Hb' & Hb1).
    apply bytes_ok_cons in Hb1 as (Hc & Hb1). apply bytes_ok_cons in Hb1 as (Hd' & Hb1).
    rewrite (parse_sid_u31 a b c d Ha Hb' Hc Hd'). cbn [fst].
    rewrite !lenN_cons in *.
    destruct (1 + (1 + (1 + (1 + lenN src2))) <? 4) eqn:E5; [apply N.ltb_lt in E5; lia|].
    destruct pad as [p|].
    - rewrite strip_agree. destruct (strip_trailing (Some p) src2); [|reflexivity].
      cbn [bind lift agree wire_matches]. unfold headers_END_HEADERS, F_END_HEADERS.
      rewrite !N.eqb_refl, Bool.eqb_reflx, list_N_eqb_refl. reflexivity.
    - cbn [strip_trailing bind lift agree wire_matches]. unfold headers_END_HEADERS, F_END_HEADERS.
      rewrite !N.eqb_refl, Bool.eqb_reflx, list_N_eqb_refl. reflexivity. }
  destruct (has_bit fl 8) eqn:Epad.
  - destruct payload as [|p rest]; [reflexivity|].
    apply bytes_ok_cons in Hb as (_ & Hb). cbn [bind].
    exact (Hcore (Some p) rest Hb).
  - cbn [bind]. exact (Hcore None payload Hb).
Qed.

Lemma agree_unknown ty fl sid payload :
  kind_new ty = KUnknown ->
  agree (POk LdIgnored) (parse_payload ty fl sid payload) = true.
Proof.
  unfold kind_new, parse_payload.
  unfold kind_data, kind_headers, kind_priority, kind_reset, kind_settings, kind_push_promise, kind_ping,
    kind_go_away, kind_window_update, kind_continuation,
    T_DATA, T_HEADERS, T_PRIORITY, T_RST_STREAM, T_SETTINGS, T_PUSH_PROMISE, T_PING, T_GOAWAY, T_WINDOW_UPDATE,
    T_CONTINUATION.
  destruct (ty =? 0); [discriminate|]. destruct (ty =? 1); [discriminate|].
  destruct (ty =? 2); [discriminate|]. destruct (ty =? 3); [discriminate|].
  destruct (ty =? 4); [discriminate|]. destruct (ty =? 5); [discriminate|].
  destruct (ty =? 6); [discriminate|]. destruct (ty =? 7); [discriminate|].
  destruct (ty =? 8); [discriminate|]. destruct (ty =? 9); [discriminate|].
  reflexivity.
Qed.

Ltac simp_eqb :=
  repeat match goal with
  | |- context [N.eqb ?x ?y] =>
      lazymatch x with N0 => idtac | Npos _ => idtac end;
      lazymatch y with N0 => idtac | Npos _ => idtac end;
      let v := eval vm_compute in (N.eqb x y) in change (N.eqb x y) with v
  end.

Definition fields_follow (ps : list (N * N)) (s s' : settings) : Prop :=
  s_flags s' = s_flags s /\
  s_header_table_size s' = setting_value ps 1 (s_header_table_size s) /\
  s_enable_push s' = setting_value ps 2 (s_enable_push s) /\
  s_max_concurrent_streams s' = setting_value ps 3 (s_max_concurrent_streams s) /\
  s_initial_window_size s' = setting_value ps 4 (s_initial_window_size s) /\
  s_max_frame_size s' = setting_value ps 5 (s_max_frame_size s) /\
  s_max_header_list_size s' = setting_value ps 6 (s_max_header_list_size s) /\
  s_enable_connect_protocol s' = setting_value ps 8 (s_enable_connect_protocol s).

Lemma settings_loop_agree n : forall p s,
  (length p <= n)%nat -> lenN p mod 6 = 0 ->
  match parse_params p with
  | None => False
  | Some ps =>
      match settings_loop p s with
      | Panic => False
      | Err _ => first_param_error ps <> None
      | Ok s' => first_param_error ps = None /\ fields_follow ps s s'
      end
  end.
Proof.
  induction n as [|n IH]; intros p s Hn Hm.
  - destruct p; [|cbn in Hn; lia]. cbn [parse_params settings_loop first_param_error].
    split; [reflexivity|]. unfold fields_follow. cbn [setting_value]. tauto.
  - destruct p as [|a [|b [|c [|d [|e [|f rest]]]]]];
      try (exfalso; cbn [lenN length] in Hm; vm_compute in Hm; discriminate).
    + cbn [parse_params settings_loop first_param_error].
      split; [reflexivity|]. unfold fields_follow. cbn [setting_value]. tauto.
    + assert (Hn' : (length rest <= n)%nat) by (cbn [length] in Hn; lia).
      assert (Hm' : lenN rest mod 6 = 0) by (rewrite !lenN_cons in Hm; lia).
      cbn [parse_params settings_loop].
      unfold dec_u16. rewrite dec_u32_u32_of.
      remember (a * 256 + b) as id eqn:Hid. remember (u32_of c d e f) as val eqn:Hval.
      clear Hid Hval Hn Hm.
      unfold setting_id_header_table_size, setting_id_enable_push, setting_id_max_concurrent_streams,
        setting_id_initial_window_size, setting_id_max_frame_size, setting_id_max_header_list_size,
        setting_id_enable_connect_protocol.
      pose proof (fun s0 => IH rest s0 Hn' Hm') as IH'. clear IH.
      destruct (parse_params rest) as [ps|] eqn:Eps; [|exact (IH' s)].
      cbn [first_param_error param_error].
      unfold S_ENABLE_PUSH, S_INITIAL_WINDOW_SIZE, S_MAX_FRAME_SIZE, S_ENABLE_CONNECT_PROTOCOL,
        MAX_FLOW_WINDOW, FRAME_SIZE_LOWER_BOUND, FRAME_SIZE_UPPER_BOUND, MAX_INITIAL_WINDOW_SIZE,
        DEFAULT_MAX_FRAME_SIZE, FrameConsts.MAX_MAX_FRAME_SIZE.
      (* one case per identifier *)
      destruct (id =? 1) eqn:E1.
      { apply N.eqb_eq in E1. subst id. simp_eqb. cbv iota.
        match goal with |- context [settings_loop rest ?s0] => specialize (IH' s0) end.
        destruct (settings_loop rest _) as [s'| |]; [|exact IH'|exact IH'].
        destruct IH' as (He & Hf). split; [exact He|].
        unfold fields_follow in *. cbn [setting_value s_flags s_header_table_size s_enable_push
          s_max_concurrent_streams s_initial_window_size s_max_frame_size s_max_header_list_size
          s_enable_connect_protocol] in *. simp_eqb. cbv iota. exact Hf. }
      destruct (id =? 2) eqn:E2.
      { apply N.eqb_eq in E2. subst id. simp_eqb. cbv iota.
        destruct (val <=? 1) eqn:Ev; [|discriminate].
        match goal with |- context [settings_loop rest ?s0] => specialize (IH' s0) end.
        destruct (settings_loop rest _) as [s'| |]; [|exact IH'|exact IH'].
        destruct IH' as (He & Hf). split; [exact He|].
        unfold fields_follow in *. cbn [setting_value s_flags s_header_table_size s_enable_push
          s_max_concurrent_streams s_initial_window_size s_max_frame_size s_max_header_list_size
          s_enable_connect_protocol] in *. simp_eqb. cbv iota. exact Hf. }
      destruct (id =? 3) eqn:E3.
      { apply N.eqb_eq in E3. subst id. simp_eqb. cbv iota.
        match goal with |- context [settings_loop rest ?s0] => specialize (IH' s0) end.
        destruct (settings_loop rest _) as [s'| |]; [|exact IH'|exact IH'].
        destruct IH' as (He & Hf). split; [exact He|].
        unfold fields_follow in *. cbn [setting_value s_flags s_header_table_size s_enable_push
          s_max_concurrent_streams s_initial_window_size s_max_frame_size s_max_header_list_size
          s_enable_connect_protocol] in *. simp_eqb. cbv iota. exact Hf. }
      destruct (id =? 4) eqn:E4.
      { apply N.eqb_eq in E4. subst id. simp_eqb. cbv iota.
        destruct (2147483647 <? val) eqn:Ev; [apply N.ltb_lt in Ev | apply N.ltb_ge in Ev].
        - destruct (val <=? 2147483647) eqn:Ev2; [apply N.leb_le in Ev2; lia | discriminate].
        - destruct (val <=? 2147483647) eqn:Ev2; [| apply N.leb_gt in Ev2; lia].
          match goal with |- context [settings_loop rest ?s0] => specialize (IH' s0) end.
          destruct (settings_loop rest _) as [s'| |]; [|exact IH'|exact IH'].
          destruct IH' as (He & Hf). split; [exact He|].
          unfold fields_follow in *. cbn [setting_value s_flags s_header_table_size s_enable_push
            s_max_concurrent_streams s_initial_window_size s_max_frame_size s_max_header_list_size
            s_enable_connect_protocol] in *. simp_eqb. cbv iota. exact Hf. }
      destruct (id =? 5) eqn:E5.
      { apply N.eqb_eq in E5. subst id. simp_eqb. cbv iota.
        destruct ((16384 <=? val) && (val <=? 16777215)) eqn:Ev; [|discriminate].
        match goal with |- context [settings_loop rest ?s0] => specialize (IH' s0) end.
        destruct (settings_loop rest _) as [s'| |]; [|exact IH'|exact IH'].
        destruct IH' as (He & Hf). split; [exact He|].
        unfold fields_follow in *. cbn [setting_value s_flags s_header_table_size s_enable_push
          s_max_concurrent_streams s_initial_window_size s_max_frame_size s_max_header_list_size
          s_enable_connect_protocol] in *. simp_eqb. cbv iota. exact Hf. }
      destruct (id =? 6) eqn:E6.
      { apply N.eqb_eq in E6. subst id. simp_eqb. cbv iota.
        match goal with |- context [settings_loop rest ?s0] => specialize (IH' s0) end.
        destruct (settings_loop rest _) as [s'| |]; [|exact IH'|exact IH'].
        destruct IH' as (He & Hf). split; [exact He|].
        unfold fields_follow in *. cbn [setting_value s_flags s_header_table_size s_enable_push
          s_max_concurrent_streams s_initial_window_size s_max_frame_size s_max_header_list_size
          s_enable_connect_protocol] in *. simp_eqb. cbv iota. exact Hf. }
      destruct (id =? 8) eqn:E8.
      { apply N.eqb_eq in E8. subst id. simp_eqb. cbv iota.
        destruct (val <=? 1) eqn:Ev; [|discriminate].
        match goal with |- context [settings_loop rest ?s0] => specialize (IH' s0) end.
        destruct (settings_loop rest _) as [s'| |]; [|exact IH'|exact IH'].
        destruct IH' as (He & Hf). split; [exact He|].
        unfold fields_follow in *. cbn [setting_value s_flags s_header_table_size s_enable_push
          s_max_concurrent_streams s_initial_window_size s_max_frame_size s_max_header_list_size
          s_enable_connect_protocol] in *. simp_eqb. cbv iota. exact Hf. }
      (* unknown identifier: ignored on both sides *)
      specialize (IH' s).
      destruct (settings_loop rest s) as [s'| |]; [|exact IH'|exact IH'].
      destruct IH' as (He & Hf). split; [exact He|].
      unfold fields_follow in *. cbn [setting_value]. rewrite E1, E2, E3, E4, E5, E6, E8. exact Hf.
Qed.

Lemma opt_N_eqb_refl o : opt_N_eqb o o = true.
Proof. destruct o; cbn [opt_N_eqb]; [apply N.eqb_refl | reflexivity]. Qed.

Lemma agree_settings k fl sid payload :
  bytes_ok payload = true ->
  agree (lift KSettings sid (settings_load (mk_head k fl sid) payload)) (parse_payload T_SETTINGS fl sid payload) = true.
Proof.
  intros Hb. unfold parse_payload.
  change (T_SETTINGS =? T_DATA) with false. change (T_SETTINGS =? T_HEADERS) with false.
  change (T_SETTINGS =? T_PRIORITY) with false. change (T_SETTINGS =? T_RST_STREAM) with false.
  change (T_SETTINGS =? T_SETTINGS) with true. cbv iota.
  unfold settings_load. cbn [h_sid h_flag mk_head]. change olen with lenN.
  destruct (sid =? 0) eqn:Es; cbn [negb]; [|reflexivity].
  unfold settings_ACK, F_ACK. change flag with has_bit.
  assert (Hk : has_bit (keep_bit fl 1) 1 = has_bit fl 1).
  { unfold keep_bit. destruct (has_bit fl 1); reflexivity. }
  rewrite Hk. destruct (has_bit fl 1) eqn:Eack.
  - destruct (lenN payload =? 0) eqn:E0; cbn [negb]; reflexivity.
  - destruct (lenN payload mod 6 =? 0) eqn:E6; cbn [negb].
    + apply N.eqb_eq in E6.
      pose proof (settings_loop_agree (length payload) payload settings_default (Nat.le_refl _) E6) as H.
      destruct (parse_params payload) as [ps|]; [|contradiction].
      destruct (settings_loop payload settings_default) as [s'|e|]; [| |contradiction].
      * destruct H as (He & Hf). rewrite He. cbn [bind lift agree wire_matches].
        unfold fields_follow in Hf. cbn [settings_default s_flags s_header_table_size s_enable_push
          s_max_concurrent_streams s_initial_window_size s_max_frame_size s_max_header_list_size
          s_enable_connect_protocol] in Hf.
        destruct Hf as (H0 & H1 & H2 & H3 & H4 & H5 & H6 & H8).
        unfold settings_match. rewrite H0, H1, H2, H3, H4, H5, H6, H8.
        unfold S_HEADER_TABLE_SIZE, S_ENABLE_PUSH, S_MAX_CONCURRENT_STREAMS, S_INITIAL_WINDOW_SIZE,
          S_MAX_FRAME_SIZE, S_MAX_HEADER_LIST_SIZE, S_ENABLE_CONNECT_PROTOCOL.
        rewrite !opt_N_eqb_refl. reflexivity.
      * cbn [bind lift]. destruct (first_param_error ps); [reflexivity | congruence].
    + apply N.eqb_neq in E6.
      assert (Hnone : parse_params payload = None).
      { clear Hb. revert E6. generalize (Nat.le_refl (length payload)).
        generalize (length payload) at 2. intros n. revert payload.
        induction n as [|n IH]; intros p Hn Hm.
        - destruct p; [exfalso; apply Hm; reflexivity | cbn in Hn; lia].
        - destruct p as [|a [|b [|c [|d [|e [|f rest]]]]]]; try reflexivity.
          + exfalso; apply Hm; reflexivity.
          + cbn [parse_params]. rewrite IH; [reflexivity | cbn [length] in Hn; lia |].
            rewrite !lenN_cons in Hm. lia. }
      rewrite Hnone. reflexivity.
Qed.

(* ---------------------------------------------------------------------------------------- *)
(* no panics *)

Lemma strip_padding_no_panic p : strip_padding p <> Panic.
Proof.
  unfold strip_padding. destruct p as [|x r]; [rewrite lenN_nil; discriminate|].
  rewrite lenN_cons. destruct (1 + lenN r =? 0); [discriminate|].
  destruct (1 + lenN r <=? x); discriminate.
Qed.

Lemma data_no_panic h p : data_load h p <> Panic.
Proof.
  unfold data_load. destruct (h_sid h =? 0); [discriminate|].
  destruct (has_bit _ data_PADDED); [|discriminate].
  pose proof (strip_padding_no_panic p) as H. destruct (strip_padding p) as [[x y]| |]; cbn [bind]; congruence.
Qed.

Lemma dependency_no_panic src : dependency_load src <> Panic.
Proof.
  unfold dependency_load. destruct (lenN src =? 5) eqn:E; cbn [negb]; [|discriminate].
  apply N.eqb_eq in E.
  destruct src as [|a [|b [|c [|d [|w r]]]]]; try (cbn in E; lia).
  destruct (parse_sid a b c d). discriminate.
Qed.

Lemma priority_no_panic h p : priority_load h p <> Panic.
Proof.
  unfold priority_load. pose proof (dependency_no_panic p) as H.
  destruct (dependency_load p) as [d| |]; cbn [bind]; [|discriminate|congruence].
  destruct (dep_id d =? h_sid h); discriminate.
Qed.

Lemma pad_step_no_panic pad (src2 : list N) :
  (if 0 <? pad then if lenN src2 <? pad then @Err (list N) TooMuchPadding else Ok (takeN (lenN src2 - pad) src2)
   else Ok src2) <> Panic.
Proof. destruct (0 <? pad); [destruct (lenN src2 <? pad)|]; discriminate. Qed.

Lemma headers_no_panic h p : headers_load h p <> Panic.
Proof.
  unfold headers_load. destruct (h_sid h =? 0); [discriminate|].
  assert (Hcore : forall pad src1,
    ('(dep, src2) <-
       (if has_bit (h_flag h) headers_PRIORITY then
          if lenN src1 <? 5 then Err MalformedMessage else
          d <- dependency_load (takeN 5 src1) ;;
          if dep_id d =? h_sid h then Err InvalidDependencyId else Ok (Some d, dropN 5 src1)
        else Ok (None, src1)) ;;
     src3 <- (if 0 <? pad then if lenN src2 <? pad then Err TooMuchPadding
              else Ok (takeN (lenN src2 - pad) src2) else Ok src2) ;;
     Ok (FHeaders (h_sid h) (h_flag h) dep src3)) <> Panic).
  { intros pad src1.
    assert (Hfin : forall dep src2,
       (src3 <- (if 0 <? pad then if lenN src2 <? pad then Err TooMuchPadding
              else Ok (takeN (lenN src2 - pad) src2) else Ok src2) ;;
        Ok (FHeaders (h_sid h) (h_flag h) dep src3)) <> Panic).
    { intros dep src2. pose proof (pad_step_no_panic pad src2) as H.
      destruct (if 0 <? pad then _ else _); cbn [bind]; congruence. }
    destruct (has_bit (h_flag h) headers_PRIORITY).
    - destruct (lenN src1 <? 5); [discriminate|].
      pose proof (dependency_no_panic (takeN 5 src1)) as H.
      destruct (dependency_load (takeN 5 src1)) as [d| |]; cbn [bind]; [|discriminate|congruence].
      destruct (dep_id d =? h_sid h); [discriminate|]. cbn [bind]. apply Hfin.
    - cbn [bind]. apply Hfin. }
  destruct (has_bit (h_flag h) headers_PADDED).
  - destruct p as [|x r]; [discriminate|]. cbn [bind]. apply Hcore.
  - cbn [bind]. apply Hcore.
Qed.

Lemma push_promise_no_panic h p : push_promise_load h p <> Panic.
Proof.
  unfold push_promise_load. destruct (h_sid h =? 0); [discriminate|].
  assert (Hcore : forall pad src1,
    (if lenN src1 <? 4 then Err MalformedMessage else
     match src1 with
     | a :: b :: c :: d :: src2 =>
         src3 <- (if 0 <? pad then if lenN src2 <? pad then Err TooMuchPadding
                  else Ok (takeN (lenN src2 - pad) src2) else Ok src2) ;;
         Ok (FPushPromise (h_sid h) (h_flag h) (fst (parse_sid a b c d)) src3)
     | _ => Panic
     end) <> Panic).
  { intros pad src1. destruct (lenN src1 <? 4) eqn:E; [discriminate|]. apply N.ltb_ge in E.
    destruct src1 as [|a [|b [|c [|d src2]]]]; try (cbn in E; lia).
    pose proof (pad_step_no_panic pad src2) as H.
    destruct (if 0 <? pad then _ else _); cbn [bind]; congruence. }
  destruct (has_bit (h_flag h) headers_PADDED).
  - destruct p as [|x r]; [discriminate|]. cbn [bind]. apply Hcore.
  - cbn [bind]. apply Hcore.
Qed.

Lemma settings_no_panic h p : settings_load h p <> Panic.
Proof.
  unfold settings_load. destruct (negb (h_sid h =? 0)); [discriminate|].
  destruct (has_bit _ settings_ACK).
  - destruct (negb (lenN p =? 0)); discriminate.
  - destruct (lenN p mod 6 =? 0) eqn:E6; cbn [negb]; [|discriminate]. apply N.eqb_eq in E6.
    pose proof (settings_loop_agree (length p) p settings_default (Nat.le_refl _) E6) as H.
    destruct (parse_params p); [|contradiction].
    destruct (settings_loop p settings_default); cbn [bind]; [discriminate|discriminate|contradiction].
Qed.

Lemma ping_no_panic h p : ping_load h p <> Panic.
Proof.
  unfold ping_load. destruct (negb (h_sid h =? 0)); [discriminate|].
  destruct (negb (lenN p =? 8)); discriminate.
Qed.

Lemma go_away_no_panic p : go_away_load p <> Panic.
Proof.
  unfold go_away_load. destruct (lenN p <? 8) eqn:E; [discriminate|]. apply N.ltb_ge in E.
  destruct p as [|a [|b [|c [|d [|e [|f [|g [|i r]]]]]]]]; try (cbn in E; lia). discriminate.
Qed.

Lemma window_update_no_panic h p : window_update_load h p <> Panic.
Proof.
  unfold window_update_load. destruct (lenN p =? 4) eqn:E; cbn [negb]; [|discriminate]. apply N.eqb_eq in E.
  destruct p as [|a [|b [|c [|d r]]]]; try (cbn in E; lia).
  destruct (_ =? 0); discriminate.
Qed.

Lemma reset_no_panic h p : reset_load h p <> Panic.
Proof.
  unfold reset_load. destruct (lenN p =? 4) eqn:E; cbn [negb]; [|discriminate]. apply N.eqb_eq in E.
  destruct p as [|a [|b [|c [|d r]]]]; try (cbn in E; lia). discriminate.
Qed.

Lemma lift_no_panic k sid r : r <> Panic -> lift k sid r <> PPanic.
Proof. destruct r; cbn [lift]; congruence. Qed.

(* Head::parse and every `load` are total on what the length-delimited layer delivers (>= 9 octets) *)
Theorem load_frame_never_panics bs : 9 <= lenN bs -> load_frame bs <> PPanic.
Proof.
  intros H9.
  destruct bs as [|l0 [|l1 [|l2 [|k [|fl [|s0 [|s1 [|s2 [|s3 payload]]]]]]]]]; try (cbn in H9; lia).
  unfold load_frame. cbn [parse_head].
  destruct (kind_new _); cbn [h_sid]; try (apply lift_no_panic).
  - apply data_no_panic. - apply headers_no_panic.
  - destruct (_ =? 0); [discriminate|]. apply lift_no_panic, priority_no_panic.
  - apply reset_no_panic. - apply settings_no_panic. - apply push_promise_no_panic.
  - apply ping_no_panic.
  - destruct (negb _); [discriminate|]. apply lift_no_panic, go_away_no_panic.
  - apply window_update_no_panic.
  - discriminate. - discriminate.
Qed.

Theorem model_parse_never_panics max bs : model_parse max bs <> PPanic.
Proof.
  unfold model_parse. destruct bs as [|l0 [|l1 [|l2 r]]]; try discriminate.
  destruct (max <? _); [discriminate|].
  destruct (lenN (l0 :: l1 :: l2 :: r) =? _) eqn:E; [|discriminate].
  apply N.eqb_eq in E. apply load_frame_never_panics. unfold ld_length_adjustment in E. lia.
Qed.

(* ---------------------------------------------------------------------------------------- *)
(* the two parsers agree *)

Lemma kind_new_cases ty :
  (ty = 0 /\ kind_new ty = KData) \/ (ty = 1 /\ kind_new ty = KHeaders) \/ (ty = 2 /\ kind_new ty = KPriority) \/
  (ty = 3 /\ kind_new ty = KReset) \/ (ty = 4 /\ kind_new ty = KSettings) \/ (ty = 5 /\ kind_new ty = KPushPromise) \/
  (ty = 6 /\ kind_new ty = KPing) \/ (ty = 7 /\ kind_new ty = KGoAway) \/ (ty = 8 /\ kind_new ty = KWindowUpdate) \/
  (ty = 9 /\ kind_new ty = KContinuation) \/
  (kind_new ty = KUnknown /\ ty <> 5 /\ ty <> 7 /\ ty <> 3 /\ ty <> 9).
Proof.
  unfold kind_new, kind_data, kind_headers, kind_priority, kind_reset, kind_settings, kind_push_promise, kind_ping,
    kind_go_away, kind_window_update, kind_continuation.
  destruct (ty =? 0) eqn:E0; [apply N.eqb_eq in E0; tauto|].
  destruct (ty =? 1) eqn:E1; [apply N.eqb_eq in E1; tauto|].
  destruct (ty =? 2) eqn:E2; [apply N.eqb_eq in E2; tauto|].
  destruct (ty =? 3) eqn:E3; [apply N.eqb_eq in E3; tauto|].
  destruct (ty =? 4) eqn:E4; [apply N.eqb_eq in E4; tauto|].
  destruct (ty =? 5) eqn:E5; [apply N.eqb_eq in E5; tauto|].
  destruct (ty =? 6) eqn:E6; [apply N.eqb_eq in E6; tauto|].
  destruct (ty =? 7) eqn:E7; [apply N.eqb_eq in E7; tauto|].
  destruct (ty =? 8) eqn:E8; [apply N.eqb_eq in E8; tauto|].
  destruct (ty =? 9) eqn:E9; [apply N.eqb_eq in E9; tauto|].
  apply N.eqb_neq in E3, E5, E7, E9. tauto.
Qed.

(* the codec-boundary grammar is the plain grammar except for RST_STREAM / CONTINUATION on stream 0 *)
Lemma parse_payload_codec_same ty fl sid payload :
  (ty = 3 -> sid <> 0) -> (ty = 9 -> sid <> 0) ->
  parse_payload_codec ty fl sid payload = parse_payload ty fl sid payload.
Proof.
  intros H3 H9. unfold parse_payload_codec, T_RST_STREAM, T_CONTINUATION.
  destruct (ty =? 3) eqn:E3.
  - apply N.eqb_eq in E3. specialize (H3 E3). apply N.eqb_neq in H3. rewrite H3. cbn [andb].
    subst ty. reflexivity.
  - cbn [andb]. destruct (ty =? 9) eqn:E9; [|reflexivity].
    apply N.eqb_eq in E9. specialize (H9 E9). apply N.eqb_neq in H9. rewrite H9. reflexivity.
Qed.

(* C12: every octet string gets the same verdict, and on acceptance the same value, from the model
   of h2's frame loader (as decode_frame dispatches it) and from the RFC 9113 grammar at the codec
   boundary -- no exception. *)
Theorem C12_parse_agrees_with_rfc max bs :
  bytes_ok bs = true ->
  agree (model_parse max bs) (rfc_parse_frame_codec max bs) = true.
Proof.
  intros Hb.
  destruct bs as [|l0 [|l1 [|l2 r]]]; try reflexivity.
  unfold model_parse, rfc_parse_frame_codec, rfc_parse_frame_with.
  replace (l0 * 65536 + l1 * 256 + l2) with ((l0 * 256 + l1) * 256 + l2) by lia.
  set (n := (l0 * 256 + l1) * 256 + l2) in *.
  destruct (max <? n) eqn:Emax; [reflexivity|].
  unfold ld_length_adjustment. change olen with lenN.
  destruct r as [|ty [|fl [|s3 [|s2 [|s1 [|s0 payload]]]]]].
  1-6: (match goal with |- context [lenN ?l =? ?m + 9] =>
          assert (E : (lenN l =? m + 9) = false) by (apply N.eqb_neq; unfold lenN; cbn [length]; lia); rewrite E end;
        reflexivity).
  rewrite !lenN_cons.
  destruct (n =? lenN payload) eqn:En; [apply N.eqb_eq in En | apply N.eqb_neq in En].
  2:{ assert (E : (1 + (1 + (1 + (1 + (1 + (1 + (1 + (1 + (1 + lenN payload)))))))) =? n + 9) = false)
        by (apply N.eqb_neq; lia). rewrite E. reflexivity. }
  assert (E : (1 + (1 + (1 + (1 + (1 + (1 + (1 + (1 + (1 + lenN payload)))))))) =? n + 9) = true)
    by (apply N.eqb_eq; lia). rewrite E. cbn [negb]. clear E Emax.
  (* the payload *)
  apply bytes_ok_cons in Hb as (_ & Hb). apply bytes_ok_cons in Hb as (_ & Hb). apply bytes_ok_cons in Hb as (_ & Hb).
  apply bytes_ok_cons in Hb as (_ & Hb). apply bytes_ok_cons in Hb as (_ & Hb).
  apply bytes_ok_cons in Hb as (H3 & Hb). apply bytes_ok_cons in Hb as (H2 & Hb).
  apply bytes_ok_cons in Hb as (H1 & Hb). apply bytes_ok_cons in Hb as (H0 & Hb).
  unfold load_frame. cbn [parse_head]. rewrite (parse_sid_u31 s3 s2 s1 s0 H3 H2 H1 H0). cbn [fst h_sid h_kind h_flag].
  set (sid := u31_of s3 s2 s1 s0) in *.
  change {| h_kind := ty; h_flag := fl; h_sid := sid |} with (mk_head ty fl sid).
  destruct (kind_new_cases ty) as [(Et & Ek)|[(Et & Ek)|[(Et & Ek)|[(Et & Ek)|[(Et & Ek)|[(Et & Ek)|[(Et & Ek)|
     [(Et & Ek)|[(Et & Ek)|[(Et & Ek)|(Ek & N5 & N7 & N3 & N9)]]]]]]]]]]; rewrite Ek; try subst ty.
  - rewrite parse_payload_codec_same by (intros; discriminate). apply agree_data.
  - rewrite parse_payload_codec_same by (intros; discriminate). apply agree_headers, Hb.
  - rewrite parse_payload_codec_same by (intros; discriminate).
    destruct (sid =? 0) eqn:Es.
    + apply N.eqb_eq in Es. rewrite Es. reflexivity.
    + apply agree_priority; [exact Hb | apply N.eqb_neq, Es].
  - (* RST_STREAM: on stream 0 the frame is handed up unchanged (the stream layer refuses it) *)
    destruct (sid =? 0) eqn:Es.
    + apply N.eqb_eq in Es. rewrite Es. unfold parse_payload_codec.
      change ((3 =? T_RST_STREAM) && (0 =? 0)) with true. cbv iota.
      unfold reset_load. cbn [h_sid mk_head].
      destruct payload as [|a [|b [|c [|d [|e rest]]]]]; try reflexivity.
      * change (lenN [a; b; c; d] =? 4) with true. cbn [negb lift agree wire_matches].
        rewrite dec_u32_u32_of, !N.eqb_refl. reflexivity.
      * assert (E : (lenN (a :: b :: c :: d :: e :: rest) =? 4) = false).
        { apply N.eqb_neq. rewrite !lenN_cons. lia. }
        rewrite E. reflexivity.
    + apply N.eqb_neq in Es. rewrite parse_payload_codec_same by (intros; try discriminate; exact Es).
      apply agree_reset. exact Es.
  - rewrite parse_payload_codec_same by (intros; discriminate). apply agree_settings, Hb.
  - rewrite parse_payload_codec_same by (intros; discriminate). apply agree_push_promise, Hb.
  - rewrite parse_payload_codec_same by (intros; discriminate). apply agree_ping.
  - (* GOAWAY: decode_frame refuses a non-zero stream before GoAway::load *)
    rewrite parse_payload_codec_same by (intros; discriminate).
    destruct (sid =? 0) eqn:Es; cbn [negb].
    + apply N.eqb_eq in Es. rewrite Es. apply agree_goaway, Hb.
    + unfold parse_payload. change (T_GOAWAY =? T_DATA) with false. change (T_GOAWAY =? T_HEADERS) with false.
      change (T_GOAWAY =? T_PRIORITY) with false. change (T_GOAWAY =? T_RST_STREAM) with false.
      change (T_GOAWAY =? T_SETTINGS) with false. change (T_GOAWAY =? T_PUSH_PROMISE) with false.
      change (T_GOAWAY =? T_PING) with false. change (T_GOAWAY =? T_GOAWAY) with true. cbv iota.
      rewrite Es. reflexivity.
  - rewrite parse_payload_codec_same by (intros; discriminate). apply agree_window_update, Hb.
  - (* CONTINUATION: on stream 0 handed to the reassembly, which refuses it *)
    destruct (sid =? 0) eqn:Es.
    + apply N.eqb_eq in Es. rewrite Es. unfold parse_payload_codec.
      change ((9 =? T_RST_STREAM) && (0 =? 0)) with false. change ((9 =? T_CONTINUATION) && (0 =? 0)) with true.
      cbv iota. cbn [agree wire_matches]. rewrite N.eqb_refl, list_N_eqb_refl.
      change flag with has_bit. unfold continuation_END_HEADERS, F_END_HEADERS. rewrite Bool.eqb_reflx. reflexivity.
    + apply N.eqb_neq in Es. rewrite parse_payload_codec_same by (intros; try discriminate; exact Es).
      apply agree_continuation. exact Es.
  - rewrite parse_payload_codec_same by (intros; congruence). apply agree_unknown, Ek.
Qed.

(* where the codec-boundary grammar and the plain grammar differ, the plain grammar rejects and the
   frame is one of the two kinds that upper layers refuse *)
Theorem codec_boundary_only_defers max bs w :
  rfc_parse_frame_codec max bs = Accept w ->
  rfc_parse_frame max bs = Accept w \/
  (deferred_to_upper_layer w = true /\ rfc_parse_frame max bs = Reject PROTOCOL_ERROR).
Proof.
  unfold rfc_parse_frame_codec, rfc_parse_frame, rfc_parse_frame_with.
  destruct bs as [|l2 [|l1 [|l0 after]]]; try discriminate.
  destruct (max <? _); [discriminate|].
  destruct after as [|ty [|fl [|s3 [|s2 [|s1 [|s0 payload]]]]]]; try discriminate.
  destruct (negb _); [discriminate|].
  unfold parse_payload_codec.
  destruct ((ty =? T_RST_STREAM) && (u31_of s3 s2 s1 s0 =? 0)) eqn:E1.
  - apply andb_true_iff in E1 as [Et Es]. apply N.eqb_eq in Et. subst ty.
    destruct payload as [|a [|b [|c [|d [|e rest]]]]]; try discriminate.
    intros H. injection H as <-. right. split; [reflexivity|].
    unfold parse_payload. change (T_RST_STREAM =? T_DATA) with false. change (T_RST_STREAM =? T_HEADERS) with false.
    change (T_RST_STREAM =? T_PRIORITY) with false. change (T_RST_STREAM =? T_RST_STREAM) with true. cbv iota.
    rewrite Es. reflexivity.
  - destruct ((ty =? T_CONTINUATION) && (u31_of s3 s2 s1 s0 =? 0)) eqn:E2; [|auto].
    apply andb_true_iff in E2 as [Et Es]. apply N.eqb_eq in Et. subst ty.
    intros H. injection H as <-. right. split; [reflexivity|].
    unfold parse_payload. change (T_CONTINUATION =? T_DATA) with false. change (T_CONTINUATION =? T_HEADERS) with false.
    change (T_CONTINUATION =? T_PRIORITY) with false. change (T_CONTINUATION =? T_RST_STREAM) with false.
    change (T_CONTINUATION =? T_SETTINGS) with false. change (T_CONTINUATION =? T_PUSH_PROMISE) with false.
    change (T_CONTINUATION =? T_PING) with false. change (T_CONTINUATION =? T_GOAWAY) with false.
    change (T_CONTINUATION =? T_WINDOW_UPDATE) with false. change (T_CONTINUATION =? T_CONTINUATION) with true.
    cbv iota. rewrite Es. reflexivity.
Qed.

(* ---------------------------------------------------------------------------------------- *)
(* what the encoders emit is parsed back *)


(* the match of load_frame, head already parsed *)
Definition dispatch (h : head) (payload : list N) : parse_result :=
  let k := kind_new (h_kind h) in
  match k with
  | KSettings => lift k (h_sid h) (settings_load h payload)
  | KPing => lift k (h_sid h) (ping_load h payload)
  | KWindowUpdate => lift k (h_sid h) (window_update_load h payload)
  | KData => lift k (h_sid h) (data_load h payload)
  | KHeaders => lift k (h_sid h) (headers_load h payload)
  | KReset => lift k (h_sid h) (reset_load h payload)
  | KGoAway =>
      if negb (h_sid h =? 0) then PErrGoAwayStream
      else lift k (h_sid h) (go_away_load payload)
  | KPushPromise => lift k (h_sid h) (push_promise_load h payload)
  | KPriority =>
      if h_sid h =? 0 then PErrPriorityZero
      else lift k (h_sid h) (priority_load h payload)
  | KContinuation =>
      POk (LdContinuation (h_sid h) (has_bit (h_flag h) continuation_END_HEADERS) payload)
  | KUnknown => POk LdIgnored
  end.

(* parsing what Head::encode wrote *)
Lemma model_parse_encoded max k fl sid payload :
  k < 256 -> fl < 256 -> sid < 2147483648 -> lenN payload <= max -> lenN payload < 16777216 ->
  model_parse max (head_encode k fl sid (lenN payload) ++ payload) = dispatch (mk_head k fl sid) payload.
Proof.
  intros Hk Hf Hs Hm H24.
  unfold head_encode, enc_u24, enc_u32. cbn [app].
  unfold model_parse.
  set (len := lenN payload) in *.
  assert (E1 : ((len / 65536) mod 256 * 256 + (len / 256) mod 256) * 256 + len mod 256 = len) by lia.
  rewrite E1.
  destruct (max <? len) eqn:Emax; [apply N.ltb_lt in Emax; lia|].
  rewrite !lenN_cons. fold len. unfold ld_length_adjustment.
  assert (E2 : (1 + (1 + (1 + (1 + (1 + (1 + (1 + (1 + (1 + len)))))))) =? len + 9) = true) by (apply N.eqb_eq; lia).
  rewrite E2. unfold load_frame. cbn [parse_head].
  assert (E3 : fst (parse_sid ((sid / 16777216) mod 256) ((sid / 65536) mod 256) ((sid / 256) mod 256) (sid mod 256)) = sid).
  { unfold parse_sid, dec_u32, STREAM_ID_MASK. cbn [fst]. lia. }
  rewrite E3. rewrite (N.mod_small k 256 Hk), (N.mod_small fl 256 Hf). reflexivity.
Qed.

Lemma rfc_parse_encoded max k fl sid payload :
  k < 256 -> fl < 256 -> sid < 2147483648 -> lenN payload <= max -> lenN payload < 16777216 ->
  rfc_parse_frame max (head_encode k fl sid (lenN payload) ++ payload) = parse_payload k fl sid payload.
Proof.
  intros Hk Hf Hs Hm H24.
  unfold head_encode, enc_u24, enc_u32. cbn [app].
  unfold rfc_parse_frame, rfc_parse_frame_with. change olen with lenN.
  set (len := lenN payload) in *.
  assert (E1 : (len / 65536) mod 256 * 65536 + (len / 256) mod 256 * 256 + len mod 256 = len) by lia.
  rewrite E1.
  destruct (max <? len) eqn:Emax; [apply N.ltb_lt in Emax; lia|].
  rewrite N.eqb_refl. cbn [negb].
  assert (E3 : u31_of ((sid / 16777216) mod 256) ((sid / 65536) mod 256) ((sid / 256) mod 256) (sid mod 256) = sid).
  { unfold u31_of. lia. }
  rewrite E3. rewrite (N.mod_small k 256 Hk), (N.mod_small fl 256 Hf). reflexivity.
Qed.

Ltac split_andb :=
  repeat match goal with
  | H : (_ && _) = true |- _ => apply andb_true_iff in H; destruct H
  end.
Ltac boolprops :=
  repeat match goal with
  | H : (_ <? _) = true |- _ => apply N.ltb_lt in H
  | H : (_ <=? _) = true |- _ => apply N.leb_le in H
  | H : (_ =? _) = true |- _ => apply N.eqb_eq in H
  | H : negb (_ =? _) = true |- _ => apply negb_true_iff, N.eqb_neq in H
  | H : (_ || _) = true |- _ => apply orb_true_iff in H
  end.

Definition single_frame (max : N) (f : frame) : bool :=
  match f with
  | FHeaders _ _ _ block => lenN block <=? max
  | FPushPromise _ _ _ block => 4 + lenN block <=? max
  | _ => true
  end.

Lemma roundtrip_data max sid flags pad data :
  max <= FrameConsts.MAX_MAX_FRAME_SIZE -> frame_wf max (FData sid flags pad data) = true ->
  exists bs, encode max (FData sid flags pad data) = EOk bs /\
    rfc_parse_frame max bs = Accept (wire_value_of (FData sid flags pad data)) /\
    model_parse max bs = POk (LdFrame (FData sid flags pad data)).
Proof.
  intros Hmax Hwf. cbn [frame_wf] in Hwf. unfold sid_ok in Hwf. split_andb. boolprops.
  destruct pad; [discriminate|]. unfold FrameConsts.MAX_MAX_FRAME_SIZE in Hmax.
  eexists. split; [reflexivity|]. unfold data_encode, kind_data.
  assert (Hfl : flags < 256) by (unfold data_END_STREAM in *; lia).
  rewrite rfc_parse_encoded, model_parse_encoded by lia.
  split.
  - unfold parse_payload. change (0 =? T_DATA) with true. cbv iota.
    match goal with H : sid <> 0 |- _ => apply N.eqb_neq in H; rewrite H end.
    cbn [wire_value_of]. unfold data_END_STREAM in *.
    match goal with H : _ \/ _ |- _ => destruct H as [H|H]; apply N.eqb_eq in H; subst flags end; reflexivity.
  - unfold dispatch, data_load. cbn [mk_head h_kind h_sid h_flag]. change (kind_new 0) with KData. cbv iota.
    match goal with H : sid <> 0 |- _ => apply N.eqb_neq in H; rewrite H end.
    unfold data_END_STREAM in *.
    match goal with H : _ \/ _ |- _ => destruct H as [H|H]; apply N.eqb_eq in H; subst flags end; reflexivity.
Qed.

Lemma roundtrip_headers max sid flags dep block :
  max <= FrameConsts.MAX_MAX_FRAME_SIZE -> frame_wf max (FHeaders sid flags dep block) = true ->
  lenN block <= max ->
  exists bs, encode max (FHeaders sid flags dep block) = EOk bs /\
    rfc_parse_frame max bs = Accept (wire_value_of (FHeaders sid flags dep block)) /\
    model_parse max bs = POk (LdFrame (FHeaders sid flags dep block)).
Proof.
  intros Hmax Hwf Hlen. cbn [frame_wf] in Hwf. unfold sid_ok in Hwf. split_andb. boolprops.
  destruct dep; [discriminate|]. unfold FrameConsts.MAX_MAX_FRAME_SIZE in Hmax.
  assert (Hfl : flags = 4 \/ flags = 5).
  { unfold headers_END_HEADERS, headers_END_STREAM in *.
    match goal with H : _ \/ _ |- _ => destruct H as [H|H]; apply N.eqb_eq in H; lia end. }
  cbn [encode]. unfold headers_encode, header_block_encode, HEADER_LEN, kind_headers, headers_END_HEADERS.
  assert (Hb4 : has_bit flags 4 = true) by (destruct Hfl; subst flags; reflexivity). rewrite Hb4.
  destruct (max + 9 <? 9) eqn:E9; [apply N.ltb_lt in E9; lia|].
  rewrite lenN_nil.
  destruct (max + 9 - 9 <? 0) eqn:E0; [apply N.ltb_lt in E0; lia|].
  destruct (max + 9 - 9 - 0 <? lenN block) eqn:E1; [apply N.ltb_lt in E1; lia|].
  destruct (16777216 <=? 0 + lenN block) eqn:E2; [apply N.leb_le in E2; lia|].
  cbn [with_continuations app]. eexists. split; [reflexivity|].
  replace (0 + lenN block) with (lenN block) by lia.
  rewrite rfc_parse_encoded, model_parse_encoded by lia.
  match goal with H : sid <> 0 |- _ => apply N.eqb_neq in H; rename H into Hs end.
  split.
  - unfold parse_payload. change (1 =? T_DATA) with false. change (1 =? T_HEADERS) with true. cbv iota.
    rewrite Hs. cbn [wire_value_of option_map].
    destruct Hfl; subst flags; (change (flag _ F_PADDED) with false; change (flag _ F_PRIORITY) with false;
      cbn [pad_length strip_trailing]; reflexivity).
  - unfold dispatch, headers_load. cbn [mk_head h_kind h_sid h_flag]. change (kind_new 1) with KHeaders. cbv iota.
    rewrite Hs.
    destruct Hfl; subst flags; (change (has_bit _ headers_PADDED) with false;
      change (has_bit _ headers_PRIORITY) with false; cbn [bind]; change (0 <? 0) with false; cbn [bind lift];
      reflexivity).
Qed.

Lemma roundtrip_push_promise max sid flags promised block :
  4 <= max -> max <= FrameConsts.MAX_MAX_FRAME_SIZE -> frame_wf max (FPushPromise sid flags promised block) = true ->
  4 + lenN block <= max ->
  exists bs, encode max (FPushPromise sid flags promised block) = EOk bs /\
    rfc_parse_frame max bs = Accept (wire_value_of (FPushPromise sid flags promised block)) /\
    model_parse max bs = POk (LdFrame (FPushPromise sid flags promised block)).
Proof.
  intros H4 Hmax Hwf Hlen. cbn [frame_wf] in Hwf. unfold sid_ok in Hwf. split_andb. boolprops.
  unfold FrameConsts.MAX_MAX_FRAME_SIZE in Hmax. unfold headers_END_HEADERS in *. subst flags.
  cbn [encode]. unfold push_promise_encode, header_block_encode, HEADER_LEN, kind_push_promise, headers_END_HEADERS.
  change (has_bit 4 4) with true. cbv iota.
  destruct (max + 9 <? 9) eqn:E9; [apply N.ltb_lt in E9; lia|].
  change (lenN (enc_u32 promised)) with 4.
  destruct (max + 9 - 9 <? 4) eqn:E0; [apply N.ltb_lt in E0; lia|].
  destruct (max + 9 - 9 - 4 <? lenN block) eqn:E1; [apply N.ltb_lt in E1; lia|].
  destruct (16777216 <=? 4 + lenN block) eqn:E2; [apply N.leb_le in E2; lia|].
  cbn [with_continuations]. eexists. split; [reflexivity|].
  replace (4 + lenN block) with (lenN (enc_u32 promised ++ block)) by (rewrite lenN_app; reflexivity).
  assert (Hl : lenN (enc_u32 promised ++ block) = 4 + lenN block) by (rewrite lenN_app; reflexivity).
  rewrite rfc_parse_encoded, model_parse_encoded by lia.
  match goal with H : sid <> 0 |- _ => apply N.eqb_neq in H; rename H into Hs end.
  assert (Hp : u31_of ((promised / 16777216) mod 256) ((promised / 65536) mod 256) ((promised / 256) mod 256)
                      (promised mod 256) = promised) by (unfold u31_of; lia).
  split.
  - unfold parse_payload. change (5 =? T_DATA) with false. change (5 =? T_HEADERS) with false.
    change (5 =? T_PRIORITY) with false. change (5 =? T_RST_STREAM) with false. change (5 =? T_SETTINGS) with false.
    change (5 =? T_PUSH_PROMISE) with true. cbv iota. rewrite Hs.
    change (flag 4 F_PADDED) with false. cbn [pad_length]. unfold enc_u32. cbn [app strip_trailing].
    rewrite Hp. reflexivity.
  - unfold dispatch, push_promise_load. cbn [mk_head h_kind h_sid h_flag].
    change (kind_new 5) with KPushPromise. cbv iota. rewrite Hs.
    change (has_bit 4 headers_PADDED) with false. cbn [bind].
    destruct (lenN (enc_u32 promised ++ block) <? 4) eqn:E5; [apply N.ltb_lt in E5; lia|].
    unfold enc_u32. cbn [app]. change (0 <? 0) with false. cbn [bind lift].
    assert (Hp' : fst (parse_sid ((promised / 16777216) mod 256) ((promised / 65536) mod 256)
                                 ((promised / 256) mod 256) (promised mod 256)) = promised).
    { unfold parse_sid, dec_u32, STREAM_ID_MASK. cbn [fst]. lia. }
    rewrite Hp'. reflexivity.
Qed.

Lemma roundtrip_ping max ack payload :
  8 <= max -> max <= FrameConsts.MAX_MAX_FRAME_SIZE -> frame_wf max (FPing ack payload) = true ->
  exists bs, encode max (FPing ack payload) = EOk bs /\
    rfc_parse_frame max bs = Accept (wire_value_of (FPing ack payload)) /\
    model_parse max bs = POk (LdFrame (FPing ack payload)).
Proof.
  intros H8 Hmax Hwf. cbn [frame_wf] in Hwf. split_andb. boolprops.
  unfold FrameConsts.MAX_MAX_FRAME_SIZE in Hmax.
  eexists. split; [reflexivity|]. unfold ping_encode, kind_ping, ping_ACK.
  assert (Hfl : (if ack then 1 else 0) < 256) by (destruct ack; lia).
  rewrite rfc_parse_encoded, model_parse_encoded by lia.
  match goal with H : lenN payload = 8 |- _ => rename H into Hl end.
  split.
  - unfold parse_payload. change (6 =? T_DATA) with false. change (6 =? T_HEADERS) with false.
    change (6 =? T_PRIORITY) with false. change (6 =? T_RST_STREAM) with false. change (6 =? T_SETTINGS) with false.
    change (6 =? T_PUSH_PROMISE) with false. change (6 =? T_PING) with true. cbv iota.
    change olen with lenN. rewrite Hl. cbn [wire_value_of]. destruct ack; reflexivity.
  - unfold dispatch, ping_load. cbn [mk_head h_kind h_sid h_flag]. change (kind_new 6) with KPing. cbv iota.
    rewrite Hl. destruct ack; reflexivity.
Qed.

Lemma roundtrip_go_away max last code debug :
  max <= FrameConsts.MAX_MAX_FRAME_SIZE -> frame_wf max (FGoAway last code debug) = true ->
  exists bs, encode max (FGoAway last code debug) = EOk bs /\
    rfc_parse_frame max bs = Accept (wire_value_of (FGoAway last code debug)) /\
    model_parse max bs = POk (LdFrame (FGoAway last code debug)).
Proof.
  intros Hmax Hwf. cbn [frame_wf] in Hwf. unfold sid_ok, u32_ok in Hwf. split_andb. boolprops.
  unfold FrameConsts.MAX_MAX_FRAME_SIZE in Hmax.
  eexists. split; [reflexivity|]. unfold go_away_encode, kind_go_away.
  replace (8 + lenN debug) with (lenN (enc_u32 last ++ enc_u32 code ++ debug))
    by (rewrite !lenN_app; change (lenN (enc_u32 last)) with 4; change (lenN (enc_u32 code)) with 4; lia).
  assert (Hl : lenN (enc_u32 last ++ enc_u32 code ++ debug) = 8 + lenN debug)
    by (rewrite !lenN_app; change (lenN (enc_u32 last)) with 4; change (lenN (enc_u32 code)) with 4; lia).
  rewrite rfc_parse_encoded, model_parse_encoded by lia.
  assert (Hp : u31_of ((last / 16777216) mod 256) ((last / 65536) mod 256) ((last / 256) mod 256) (last mod 256) = last)
    by (unfold u31_of; lia).
  assert (Hc : u32_of ((code / 16777216) mod 256) ((code / 65536) mod 256) ((code / 256) mod 256) (code mod 256) = code)
    by (unfold u32_of; lia).
  split.
  - unfold parse_payload. change (7 =? T_DATA) with false. change (7 =? T_HEADERS) with false.
    change (7 =? T_PRIORITY) with false. change (7 =? T_RST_STREAM) with false. change (7 =? T_SETTINGS) with false.
    change (7 =? T_PUSH_PROMISE) with false. change (7 =? T_PING) with false. change (7 =? T_GOAWAY) with true.
    cbv iota. change (negb (0 =? 0)) with false. cbv iota. unfold enc_u32. cbn [app]. rewrite Hp, Hc. reflexivity.
  - unfold dispatch, go_away_load. cbn [mk_head h_kind h_sid h_flag]. change (kind_new 7) with KGoAway. cbv iota.
    change (negb (0 =? 0)) with false. cbv iota.
    destruct (lenN (enc_u32 last ++ enc_u32 code ++ debug) <? 8) eqn:E8; [apply N.ltb_lt in E8; lia|].
    unfold enc_u32. cbn [app lift].
    rewrite dec_u32_u32_of, Hc.
    assert (Hp' : fst (parse_sid ((last / 16777216) mod 256) ((last / 65536) mod 256)
                                 ((last / 256) mod 256) (last mod 256)) = last).
    { unfold parse_sid, dec_u32, STREAM_ID_MASK. cbn [fst]. lia. }
    rewrite Hp'. reflexivity.
Qed.

Lemma roundtrip_window_update max sid inc :
  4 <= max -> max <= FrameConsts.MAX_MAX_FRAME_SIZE -> frame_wf max (FWindowUpdate sid inc) = true ->
  exists bs, encode max (FWindowUpdate sid inc) = EOk bs /\
    rfc_parse_frame max bs = Accept (wire_value_of (FWindowUpdate sid inc)) /\
    model_parse max bs = POk (LdFrame (FWindowUpdate sid inc)).
Proof.
  intros H4 Hmax Hwf. cbn [frame_wf] in Hwf. unfold sid_ok in Hwf. split_andb. boolprops.
  unfold FrameConsts.MAX_MAX_FRAME_SIZE in Hmax.
  eexists. split; [reflexivity|]. unfold window_update_encode, kind_window_update.
  change (head_encode 8 0 sid 4) with (head_encode 8 0 sid (lenN (enc_u32 inc))).
  assert (Hl : lenN (enc_u32 inc) = 4) by reflexivity.
  rewrite rfc_parse_encoded, model_parse_encoded by lia.
  assert (Hp : u31_of ((inc / 16777216) mod 256) ((inc / 65536) mod 256) ((inc / 256) mod 256) (inc mod 256) = inc)
    by (unfold u31_of; lia).
  split.
  - unfold parse_payload. change (8 =? T_DATA) with false. change (8 =? T_HEADERS) with false.
    change (8 =? T_PRIORITY) with false. change (8 =? T_RST_STREAM) with false. change (8 =? T_SETTINGS) with false.
    change (8 =? T_PUSH_PROMISE) with false. change (8 =? T_PING) with false. change (8 =? T_GOAWAY) with false.
    change (8 =? T_WINDOW_UPDATE) with true. cbv iota. unfold enc_u32. rewrite Hp.
    destruct (inc =? 0) eqn:E0; [apply N.eqb_eq in E0; lia | reflexivity].
  - unfold dispatch, window_update_load. cbn [mk_head h_kind h_sid h_flag]. change (kind_new 8) with KWindowUpdate.
    cbv iota. rewrite Hl. change (negb (4 =? 4)) with false. cbv iota. unfold enc_u32.
    assert (Hd : dec_u32 ((inc / 16777216) mod 256) ((inc / 65536) mod 256) ((inc / 256) mod 256) (inc mod 256)
                 mod SIZE_INCREMENT_MASK = inc) by (unfold dec_u32, SIZE_INCREMENT_MASK; lia).
    rewrite Hd. destruct (inc =? 0) eqn:E0; [apply N.eqb_eq in E0; lia | reflexivity].
Qed.

Lemma roundtrip_reset max sid code :
  4 <= max -> max <= FrameConsts.MAX_MAX_FRAME_SIZE -> frame_wf max (FReset sid code) = true -> sid <> 0 ->
  exists bs, encode max (FReset sid code) = EOk bs /\
    rfc_parse_frame max bs = Accept (wire_value_of (FReset sid code)) /\
    model_parse max bs = POk (LdFrame (FReset sid code)).
Proof.
  intros H4 Hmax Hwf Hs. cbn [frame_wf] in Hwf. unfold sid_ok, u32_ok in Hwf. split_andb. boolprops.
  unfold FrameConsts.MAX_MAX_FRAME_SIZE in Hmax.
  eexists. split; [reflexivity|]. unfold reset_encode, kind_reset.
  change (head_encode 3 0 sid 4) with (head_encode 3 0 sid (lenN (enc_u32 code))).
  assert (Hl : lenN (enc_u32 code) = 4) by reflexivity.
  rewrite rfc_parse_encoded, model_parse_encoded by lia.
  assert (Hc : u32_of ((code / 16777216) mod 256) ((code / 65536) mod 256) ((code / 256) mod 256) (code mod 256) = code)
    by (unfold u32_of; lia).
  split.
  - unfold parse_payload. change (3 =? T_DATA) with false. change (3 =? T_HEADERS) with false.
    change (3 =? T_PRIORITY) with false. change (3 =? T_RST_STREAM) with true. cbv iota.
    apply N.eqb_neq in Hs. rewrite Hs. unfold enc_u32. rewrite Hc. reflexivity.
  - unfold dispatch, reset_load. cbn [mk_head h_kind h_sid h_flag]. change (kind_new 3) with KReset.
    cbv iota. rewrite Hl. change (negb (4 =? 4)) with false. cbv iota. unfold enc_u32.
    rewrite dec_u32_u32_of, Hc. reflexivity.
Qed.

(* ---- SETTINGS ---- *)

Lemma parse_params_encode ps :
  Forall (fun p => fst p < 65536 /\ snd p < 4294967296) ps ->
  parse_params (pairs_encode ps) = Some ps.
Proof.
  induction ps as [|[id v] ps IH]; intros H; [reflexivity|].
  inversion H as [|x l [Hi Hv] Hrest]; subst. cbn [fst snd] in *.
  cbn [pairs_encode]. unfold enc_u16, enc_u32. cbn [app parse_params]. rewrite (IH Hrest).
  assert (E1 : (id / 256) mod 256 * 256 + id mod 256 = id) by lia.
  assert (E2 : u32_of ((v / 16777216) mod 256) ((v / 65536) mod 256) ((v / 256) mod 256) (v mod 256) = v)
    by (unfold u32_of; lia).
  rewrite E1, E2. reflexivity.
Qed.

Lemma first_param_error_app a b :
  first_param_error (a ++ b) = match first_param_error a with Some e => Some e | None => first_param_error b end.
Proof.
  induction a as [|p a IH]; [reflexivity|]. cbn [app first_param_error].
  destruct (param_error p); [reflexivity | exact IH].
Qed.

(* one iteration of the loop of Settings::load on an encoded (id, value) pair *)
Lemma settings_loop_pair id v rest s :
  id < 65536 -> v < 4294967296 ->
  settings_loop (enc_u16 id ++ enc_u32 v ++ rest) s =
  settings_loop ((id / 256) :: (id mod 256) :: (v / 16777216) :: ((v / 65536) mod 256) :: ((v / 256) mod 256)
                 :: (v mod 256) :: rest) s.
Proof.
  intros Hi Hv. unfold enc_u16, enc_u32. cbn [app].
  rewrite (N.mod_small (id / 256) 256) by lia. rewrite (N.mod_small (v / 16777216) 256) by lia. reflexivity.
Qed.

Definition mk_settings fl a b c d e f g : settings :=
  {| s_flags := fl; s_header_table_size := a; s_enable_push := b; s_max_concurrent_streams := c;
     s_initial_window_size := d; s_max_frame_size := e; s_max_header_list_size := f;
     s_enable_connect_protocol := g |}.

Lemma dec_id id : id < 65536 -> dec_u16 ((id / 256) mod 256) (id mod 256) = id.
Proof. intros. unfold dec_u16. lia. Qed.
Lemma dec_val v : v < 4294967296 ->
  dec_u32 ((v / 16777216) mod 256) ((v / 65536) mod 256) ((v / 256) mod 256) (v mod 256) = v.
Proof. intros. unfold dec_u32. lia. Qed.

Ltac loop_step :=
  unfold enc_u16, enc_u32; cbn [app settings_loop];
  rewrite dec_id by lia; rewrite dec_val by lia;
  unfold setting_id_header_table_size, setting_id_enable_push, setting_id_max_concurrent_streams,
    setting_id_initial_window_size, setting_id_max_frame_size, setting_id_max_header_list_size,
    setting_id_enable_connect_protocol;
  repeat match goal with
  | |- context [N.eqb ?x ?y] =>
      lazymatch x with N0 => idtac | Npos _ => idtac end;
      lazymatch y with N0 => idtac | Npos _ => idtac end;
      let r := eval vm_compute in (N.eqb x y) in change (N.eqb x y) with r
  end; cbv iota.

Lemma settings_loop_encoded a b c d e f g :
  settings_wf (mk_settings 0 a b c d e f g) = true ->
  settings_loop (pairs_encode (settings_pairs (mk_settings 0 a b c d e f g))) settings_default
  = Ok (mk_settings 0 a b c d e f g).
Proof.
  intros Hwf. unfold settings_wf, opt_ok, u32_ok in Hwf.
  cbn [mk_settings s_flags s_header_table_size s_enable_push s_max_concurrent_streams s_initial_window_size
       s_max_frame_size s_max_header_list_size s_enable_connect_protocol] in Hwf.
  apply andb_true_iff in Hwf as [Hwf Hg]. apply andb_true_iff in Hwf as [Hwf Hf].
  apply andb_true_iff in Hwf as [Hwf He]. apply andb_true_iff in Hwf as [Hwf Hd].
  apply andb_true_iff in Hwf as [Hwf Hc]. apply andb_true_iff in Hwf as [Hwf Hb].
  apply andb_true_iff in Hwf as [_ Ha].
  unfold settings_pairs.
  cbn [mk_settings s_flags s_header_table_size s_enable_push s_max_concurrent_streams s_initial_window_size
       s_max_frame_size s_max_header_list_size s_enable_connect_protocol].
  unfold settings_default.
  (* field by field; the state after each field is the same whether it is present or not *)
  assert (H1 : forall rest, settings_loop (pairs_encode (match a with Some v => [(setting_id_header_table_size, v)] | None => [] end ++ rest))
                 (mk_settings 0 None None None None None None None)
               = settings_loop (pairs_encode rest) (mk_settings 0 a None None None None None None)).
  { intros rest. destruct a as [v|]; [|reflexivity]. apply N.ltb_lt in Ha.
    cbn [app pairs_encode]. unfold setting_id_header_table_size. loop_step. reflexivity. }
  assert (H2 : forall rest, settings_loop (pairs_encode (match b with Some v => [(setting_id_enable_push, v)] | None => [] end ++ rest))
                 (mk_settings 0 a None None None None None None)
               = settings_loop (pairs_encode rest) (mk_settings 0 a b None None None None None)).
  { intros rest. destruct b as [v|]; [|reflexivity]. pose proof Hb as Hb'. apply N.leb_le in Hb'.
    cbn [app pairs_encode]. unfold setting_id_enable_push. loop_step. rewrite Hb. reflexivity. }
  assert (H3 : forall rest, settings_loop (pairs_encode (match c with Some v => [(setting_id_max_concurrent_streams, v)] | None => [] end ++ rest))
                 (mk_settings 0 a b None None None None None)
               = settings_loop (pairs_encode rest) (mk_settings 0 a b c None None None None)).
  { intros rest. destruct c as [v|]; [|reflexivity]. apply N.ltb_lt in Hc.
    cbn [app pairs_encode]. unfold setting_id_max_concurrent_streams. loop_step. reflexivity. }
  assert (H4 : forall rest, settings_loop (pairs_encode (match d with Some v => [(setting_id_initial_window_size, v)] | None => [] end ++ rest))
                 (mk_settings 0 a b c None None None None)
               = settings_loop (pairs_encode rest) (mk_settings 0 a b c d None None None)).
  { intros rest. destruct d as [v|]; [|reflexivity]. apply N.leb_le in Hd. unfold MAX_INITIAL_WINDOW_SIZE in Hd.
    cbn [app pairs_encode]. unfold setting_id_initial_window_size. loop_step. unfold MAX_INITIAL_WINDOW_SIZE.
    destruct (2147483647 <? v) eqn:Ev; [apply N.ltb_lt in Ev; lia | reflexivity]. }
  assert (H5 : forall rest, settings_loop (pairs_encode (match e with Some v => [(setting_id_max_frame_size, v)] | None => [] end ++ rest))
                 (mk_settings 0 a b c d None None None)
               = settings_loop (pairs_encode rest) (mk_settings 0 a b c d e None None)).
  { intros rest. destruct e as [v|]; [|reflexivity]. pose proof He as He'.
    apply andb_true_iff in He' as [He1 He2]. apply N.leb_le in He1, He2.
    unfold DEFAULT_MAX_FRAME_SIZE, FrameConsts.MAX_MAX_FRAME_SIZE in He1, He2.
    cbn [app pairs_encode]. unfold setting_id_max_frame_size. loop_step. rewrite He. reflexivity. }
  assert (H6 : forall rest, settings_loop (pairs_encode (match f with Some v => [(setting_id_max_header_list_size, v)] | None => [] end ++ rest))
                 (mk_settings 0 a b c d e None None)
               = settings_loop (pairs_encode rest) (mk_settings 0 a b c d e f None)).
  { intros rest. destruct f as [v|]; [|reflexivity]. apply N.ltb_lt in Hf.
    cbn [app pairs_encode]. unfold setting_id_max_header_list_size. loop_step. reflexivity. }
  assert (H7 : settings_loop (pairs_encode (match g with Some v => [(setting_id_enable_connect_protocol, v)] | None => [] end))
                 (mk_settings 0 a b c d e f None)
               = Ok (mk_settings 0 a b c d e f g)).
  { destruct g as [v|]; [|reflexivity]. pose proof Hg as Hg'. apply N.leb_le in Hg'.
    cbn [pairs_encode]. unfold setting_id_enable_connect_protocol. rewrite app_nil_r. loop_step. rewrite Hg. reflexivity. }
  change {| s_flags := 0; s_header_table_size := None; s_enable_push := None; s_max_concurrent_streams := None;
            s_initial_window_size := None; s_max_frame_size := None; s_max_header_list_size := None;
            s_enable_connect_protocol := None |} with (mk_settings 0 None None None None None None None).
  rewrite H1, H2, H3, H4, H5, H6. exact H7.
Qed.

Definition opt_pair (id : N) (o : option N) : list (N * N) :=
  match o with Some v => [(id, v)] | None => [] end.

Lemma Forall_opt_pair (P : N * N -> Prop) id o :
  (forall v, o = Some v -> P (id, v)) -> Forall P (opt_pair id o).
Proof. intros H. destruct o as [v|]; cbn [opt_pair]; [constructor; [apply H; reflexivity | constructor] | constructor]. Qed.

Lemma fpe_opt_pair id o :
  (forall v, o = Some v -> param_error (id, v) = None) -> first_param_error (opt_pair id o) = None.
Proof.
  intros H. destruct o as [v|]; cbn [opt_pair first_param_error]; [rewrite (H v eq_refl)|]; reflexivity.
Qed.

Lemma length_opt_pair id o : (length (opt_pair id o) <= 1)%nat.
Proof. destruct o; cbn [opt_pair length]; lia. Qed.

Lemma settings_pairs_opt s :
  settings_pairs s =
  opt_pair setting_id_header_table_size (s_header_table_size s) ++
  opt_pair setting_id_enable_push (s_enable_push s) ++
  opt_pair setting_id_max_concurrent_streams (s_max_concurrent_streams s) ++
  opt_pair setting_id_initial_window_size (s_initial_window_size s) ++
  opt_pair setting_id_max_frame_size (s_max_frame_size s) ++
  opt_pair setting_id_max_header_list_size (s_max_header_list_size s) ++
  opt_pair setting_id_enable_connect_protocol (s_enable_connect_protocol s).
Proof. reflexivity. Qed.

Lemma settings_pairs_bounds s : settings_wf s = true ->
  Forall (fun p => fst p < 65536 /\ snd p < 4294967296) (settings_pairs s) /\
  first_param_error (settings_pairs s) = None /\
  N.of_nat (length (settings_pairs s)) <= 7.
Proof.
  intros Hwf. unfold settings_wf, opt_ok, u32_ok in Hwf.
  apply andb_true_iff in Hwf as [Hwf Hg]. apply andb_true_iff in Hwf as [Hwf Hf].
  apply andb_true_iff in Hwf as [Hwf He]. apply andb_true_iff in Hwf as [Hwf Hd].
  apply andb_true_iff in Hwf as [Hwf Hc]. apply andb_true_iff in Hwf as [Hwf Hb].
  apply andb_true_iff in Hwf as [_ Ha].
  rewrite settings_pairs_opt.
  unfold setting_id_header_table_size, setting_id_enable_push, setting_id_max_concurrent_streams,
    setting_id_initial_window_size, setting_id_max_frame_size, setting_id_max_header_list_size,
    setting_id_enable_connect_protocol, MAX_INITIAL_WINDOW_SIZE, DEFAULT_MAX_FRAME_SIZE, MAX_MAX_FRAME_SIZE in *.
  split; [|split].
  - apply Forall_app; split; [|apply Forall_app; split; [|apply Forall_app; split; [|apply Forall_app; split;
      [|apply Forall_app; split; [|apply Forall_app; split]]]]]; apply Forall_opt_pair; intros v Ev; cbn [fst snd].
    + rewrite Ev in Ha. apply N.ltb_lt in Ha. lia.
    + rewrite Ev in Hb. apply N.leb_le in Hb. lia.
    + rewrite Ev in Hc. apply N.ltb_lt in Hc. lia.
    + rewrite Ev in Hd. apply N.leb_le in Hd. lia.
    + rewrite Ev in He. apply andb_true_iff in He as [_ He]. apply N.leb_le in He. lia.
    + rewrite Ev in Hf. apply N.ltb_lt in Hf. lia.
    + rewrite Ev in Hg. apply N.leb_le in Hg. lia.
  - rewrite !first_param_error_app.
    rewrite (fpe_opt_pair 1) by (intros; reflexivity).
    rewrite (fpe_opt_pair 2) by (intros v Ev; rewrite Ev in Hb; cbn [param_error];
      change (2 =? S_ENABLE_PUSH) with true; cbv iota; rewrite Hb; reflexivity).
    rewrite (fpe_opt_pair 3) by (intros; reflexivity).
    rewrite (fpe_opt_pair 4) by (intros v Ev; rewrite Ev in Hd; cbn [param_error];
      change (4 =? S_ENABLE_PUSH) with false; change (4 =? S_INITIAL_WINDOW_SIZE) with true; cbv iota;
      unfold MAX_FLOW_WINDOW; rewrite Hd; reflexivity).
    rewrite (fpe_opt_pair 5) by (intros v Ev; rewrite Ev in He; cbn [param_error];
      change (5 =? S_ENABLE_PUSH) with false; change (5 =? S_INITIAL_WINDOW_SIZE) with false;
      change (5 =? S_MAX_FRAME_SIZE) with true; cbv iota;
      unfold FRAME_SIZE_LOWER_BOUND, FRAME_SIZE_UPPER_BOUND; rewrite He; reflexivity).
    rewrite (fpe_opt_pair 6) by (intros; reflexivity).
    apply fpe_opt_pair. intros v Ev. rewrite Ev in Hg. cbn [param_error].
    change (8 =? S_ENABLE_PUSH) with false. change (8 =? S_INITIAL_WINDOW_SIZE) with false.
    change (8 =? S_MAX_FRAME_SIZE) with false. change (8 =? S_ENABLE_CONNECT_PROTOCOL) with true. cbv iota.
    rewrite Hg. reflexivity.
  - rewrite !app_length.
    pose proof (length_opt_pair 1 (s_header_table_size s)). pose proof (length_opt_pair 2 (s_enable_push s)).
    pose proof (length_opt_pair 3 (s_max_concurrent_streams s)). pose proof (length_opt_pair 4 (s_initial_window_size s)).
    pose proof (length_opt_pair 5 (s_max_frame_size s)). pose proof (length_opt_pair 6 (s_max_header_list_size s)).
    pose proof (length_opt_pair 8 (s_enable_connect_protocol s)). lia.
Qed.

Lemma lenN_pairs_encode ps : lenN (pairs_encode ps) = 6 * N.of_nat (length ps).
Proof.
  induction ps as [|[id v] ps IH]; [reflexivity|].
  cbn [pairs_encode length]. rewrite !lenN_app, IH.
  change (lenN (enc_u16 id)) with 2. change (lenN (enc_u32 v)) with 4. lia.
Qed.

Lemma opt_pair_nil id o : opt_pair id o = [] -> o = None.
Proof. destruct o; [discriminate | reflexivity]. Qed.

Lemma roundtrip_settings max s :
  42 <= max -> max <= MAX_MAX_FRAME_SIZE -> frame_wf max (FSettings s) = true ->
  exists bs, encode max (FSettings s) = EOk bs /\
    rfc_parse_frame max bs = Accept (wire_value_of (FSettings s)) /\
    model_parse max bs = POk (LdFrame (FSettings s)).
Proof.
  intros H42 Hmax Hwf. cbn [frame_wf] in Hwf. unfold MAX_MAX_FRAME_SIZE in Hmax.
  pose proof (settings_pairs_bounds s Hwf) as (Hall & Hfpe & Hlen).
  eexists. split; [reflexivity|]. unfold settings_encode, kind_settings.
  rewrite <- lenN_pairs_encode.
  assert (Hl : lenN (pairs_encode (settings_pairs s)) <= 42) by (rewrite lenN_pairs_encode; lia).
  pose proof Hwf as Hwf0. unfold settings_wf in Hwf0.
  repeat (apply andb_true_iff in Hwf0 as [Hwf0 _]).
  apply orb_true_iff in Hwf0 as [Hfl|Hfl].
  - (* ordinary SETTINGS *)
    apply N.eqb_eq in Hfl.
    rewrite Hfl. rewrite rfc_parse_encoded, model_parse_encoded by lia.
    split.
    + unfold parse_payload. change (4 =? T_DATA) with false. change (4 =? T_HEADERS) with false.
      change (4 =? T_PRIORITY) with false. change (4 =? T_RST_STREAM) with false. change (4 =? T_SETTINGS) with true.
      cbv iota. change (negb (0 =? 0)) with false. change (flag 0 F_ACK) with false. cbv iota.
      rewrite (parse_params_encode _ Hall), Hfpe. cbn [wire_value_of]. rewrite Hfl. reflexivity.
    + unfold dispatch, settings_load. cbn [mk_head h_kind h_sid h_flag]. change (kind_new 4) with KSettings.
      cbv iota. change (negb (0 =? 0)) with false. cbv iota.
      change (has_bit (keep_bit 0 settings_ACK) settings_ACK) with false. cbv iota.
      rewrite lenN_pairs_encode.
      assert (E6 : (6 * N.of_nat (length (settings_pairs s))) mod 6 =? 0 = true) by (apply N.eqb_eq; lia).
      rewrite E6. cbn [negb].
      destruct s as [fl a b c d e f g]. cbn [s_flags] in Hfl. subst fl.
      change {| s_flags := 0; s_header_table_size := a; s_enable_push := b; s_max_concurrent_streams := c;
                s_initial_window_size := d; s_max_frame_size := e; s_max_header_list_size := f;
                s_enable_connect_protocol := g |} with (mk_settings 0 a b c d e f g) in *.
      rewrite (settings_loop_encoded a b c d e f g Hwf). reflexivity.
  - (* ACK: no parameters *)
    apply andb_true_iff in Hfl as [Hfl Hnil]. apply N.eqb_eq in Hfl, Hnil. unfold settings_ACK in Hfl.
    assert (Hps : settings_pairs s = []).
    { rewrite lenN_pairs_encode in Hnil. destruct (settings_pairs s); [reflexivity | cbn [length] in Hnil; lia]. }
    rewrite Hfl, Hps. cbn [pairs_encode]. rewrite rfc_parse_encoded, model_parse_encoded by (rewrite ?lenN_nil; lia).
    split.
    + cbn [wire_value_of]. rewrite Hfl, Hps. reflexivity.
    + unfold dispatch, settings_load. cbn [mk_head h_kind h_sid h_flag]. change (kind_new 4) with KSettings.
      cbv iota. change (negb (0 =? 0)) with false. cbv iota.
      change (has_bit (keep_bit 1 settings_ACK) settings_ACK) with true. cbv iota.
      change (negb (lenN [] =? 0)) with false. cbv iota. cbn [lift].
      rewrite settings_pairs_opt in Hps.
      apply app_eq_nil in Hps as [H1 Hps]. apply app_eq_nil in Hps as [H2 Hps]. apply app_eq_nil in Hps as [H3 Hps].
      apply app_eq_nil in Hps as [H4 Hps]. apply app_eq_nil in Hps as [H5 Hps]. apply app_eq_nil in Hps as [H6 H7].
      apply opt_pair_nil in H1, H2, H3, H4, H5, H6, H7.
      destruct s as [fl a b c d e f g]. cbn [s_flags s_header_table_size s_enable_push s_max_concurrent_streams
        s_initial_window_size s_max_frame_size s_max_header_list_size s_enable_connect_protocol] in *.
      subst. reflexivity.
Qed.

(* ---------------------------------------------------------------------------------------- *)
(* C12, serialise-then-parse, frames that fit into one wire frame (HEADERS / PUSH_PROMISE whose
   block needs CONTINUATION frames are treated in Proofs/ReadBufProofs.v, C12_roundtrip_stream and
   C12_roundtrip_reader).

   For every value [f] the encoder can be handed ([frame_wf]), the octets [encode] produces are
   parsed by the independent RFC parser to exactly [wire_value_of f], and by the model's own
   parser back to [f]. *)
Theorem C12_roundtrip : forall max f,
  42 <= max -> max <= MAX_MAX_FRAME_SIZE ->
  frame_wf max f = true -> single_frame max f = true ->
  exists bs,
    encode max f = EOk bs /\
    rfc_parse_frame max bs = Accept (wire_value_of f) /\
    model_parse max bs = POk (LdFrame f).
Proof.
  intros max f H42 Hmax Hwf Hsingle.
  destruct f as [sid flags pad data | sid flags dep block | sid dep | sid flags promised block | s
                 | ack payload | last code debug | sid inc | sid code].
  - exact (roundtrip_data max sid flags pad data Hmax Hwf).
  - cbn [single_frame] in Hsingle. apply N.leb_le in Hsingle.
    exact (roundtrip_headers max sid flags dep block Hmax Hwf Hsingle).
  - discriminate.
  - cbn [single_frame] in Hsingle. apply N.leb_le in Hsingle.
    exact (roundtrip_push_promise max sid flags promised block ltac:(lia) Hmax Hwf Hsingle).
  - exact (roundtrip_settings max s H42 Hmax Hwf).
  - exact (roundtrip_ping max ack payload ltac:(lia) Hmax Hwf).
  - exact (roundtrip_go_away max last code debug Hmax Hwf).
  - exact (roundtrip_window_update max sid inc ltac:(lia) Hmax Hwf).
  - assert (Hs : sid <> 0).
    { cbn [frame_wf] in Hwf. apply andb_true_iff in Hwf as [Hwf _]. apply andb_true_iff in Hwf as [_ Hwf].
      apply negb_true_iff, N.eqb_neq in Hwf. exact Hwf. }
    exact (roundtrip_reset max sid code ltac:(lia) Hmax Hwf Hs).
Qed.

(* the hypotheses are satisfiable, for each frame type *)
Example frame_wf_examples :
  forallb (fun f => frame_wf 16384 f && single_frame 16384 f)
    [ FData 1 data_END_STREAM None [104; 105];
      FHeaders 3 (headers_END_HEADERS + headers_END_STREAM) None [130; 135];
      FPushPromise 1 headers_END_HEADERS 2 [130];
      FPushPromise 1 headers_END_HEADERS 4 [];
      FSettings {| s_flags := 0; s_header_table_size := Some 4096; s_enable_push := Some 0;
                   s_max_concurrent_streams := None; s_initial_window_size := Some 65535;
                   s_max_frame_size := Some 16384; s_max_header_list_size := None;
                   s_enable_connect_protocol := Some 1 |};
      FSettings settings_ack;
      FPing true [1; 2; 3; 4; 5; 6; 7; 8];
      FGoAway 7 reason_ENHANCE_YOUR_CALM [116; 111; 111];
      FWindowUpdate 0 65535;
      FReset 5 reason_CANCEL ] = true.
Proof. vm_compute. reflexivity. Qed.

Example C12_roundtrip_example :
  encode 16384 (FData 1 data_END_STREAM None [104; 105]) = EOk [0; 0; 2; 0; 1; 0; 0; 0; 1; 104; 105] /\
  rfc_parse_frame 16384 [0; 0; 2; 0; 1; 0; 0; 0; 1; 104; 105] = Accept (WData 1 true None [104; 105]) /\
  model_parse 16384 [0; 0; 2; 0; 1; 0; 0; 0; 1; 104; 105] = POk (LdFrame (FData 1 1 None [104; 105])).
Proof. vm_compute. auto. Qed.

(* ---------------------------------------------------------------------------------------- *)
(* regressions for two repaired defects, and the two layering cases, one concrete frame each *)

(* PUSH_PROMISE, stream 1, promised stream 2, empty fragment, END_HEADERS clear: legal per RFC 9113
   6.6 (a CONTINUATION follows); accepted since "accept a PUSH_PROMISE whose first field block
   fragment is empty" *)
Example push_promise_empty_fragment_accepted :
  let bs := [0; 0; 4; 5; 0; 0; 0; 0; 1; 0; 0; 0; 2] in
  rfc_parse_frame 16384 bs = Accept (WPushPromise 1 false 2 []) /\
  model_parse 16384 bs = POk (LdFrame (FPushPromise 1 0 2 [])).
Proof. vm_compute. auto. Qed.

(* GOAWAY on stream 3: RFC 9113 6.8 PROTOCOL_ERROR; refused by decode_frame since "a GOAWAY frame
   on a non-zero stream is a connection error" *)
Example goaway_stream_id_refused :
  let bs := [0; 0; 8; 7; 0; 0; 0; 0; 3; 0; 0; 0; 5; 0; 0; 0; 0] in
  rfc_parse_frame 16384 bs = Reject PROTOCOL_ERROR /\
  model_parse 16384 bs = PErrGoAwayStream.
Proof. vm_compute. auto. Qed.

(* RST_STREAM on stream 0: the codec hands it up unchanged; proto/streams/streams.rs recv_reset
   answers PROTOCOL_ERROR (layering, see rfc_parse_frame_codec) *)
Example reset_stream_zero_is_passed_up :
  let bs := [0; 0; 4; 3; 0; 0; 0; 0; 0; 0; 0; 0; 8] in
  rfc_parse_frame 16384 bs = Reject PROTOCOL_ERROR /\
  rfc_parse_frame_codec 16384 bs = Accept (WRstStream 0 8) /\
  deferred_to_upper_layer (WRstStream 0 8) = true /\
  model_parse 16384 bs = POk (LdFrame (FReset 0 8)).
Proof. vm_compute. auto. Qed.

(* CONTINUATION on stream 0: the single-frame loader does not look at the stream id; decode_frame's
   book-keeping refuses it (Proofs/ReadBufProofs.v continuation_stream_zero_refused) *)
Example continuation_stream_zero_is_passed_to_reassembly :
  let bs := [0; 0; 1; 9; 4; 0; 0; 0; 0; 130] in
  rfc_parse_frame 16384 bs = Reject PROTOCOL_ERROR /\
  rfc_parse_frame_codec 16384 bs = Accept (WContinuation 0 true [130]) /\
  model_parse 16384 bs = POk (LdContinuation 0 true [130]).
Proof. vm_compute. auto. Qed.

(* where h2 and the RFC name different error *codes* for the same rejected frame (informational;
   the property speaks of FRAME_SIZE_ERROR only for frames above the size limit): a PING of
   7 octets is FRAME_SIZE_ERROR in RFC 9113 6.7, h2 maps every `load` failure to PROTOCOL_ERROR *)
Example error_code_latitude_ping :
  let bs := [0; 0; 7; 6; 0; 0; 0; 0; 0; 1; 2; 3; 4; 5; 6; 7] in
  rfc_parse_frame 16384 bs = Reject FRAME_SIZE_ERROR /\
  model_parse 16384 bs = PErr KPing 0 BadFrameSize.
Proof. vm_compute. auto. Qed.

(* the hypothesis of C12_parse_agrees_with_rfc is satisfiable, by accepted and by rejected frames *)
Example C12_parse_agrees_example :
  let ok := [0; 0; 5; 0; 9; 128; 0; 0; 3; 2; 104; 105; 0; 0] in      (* padded DATA, reserved bit set *)
  let bad := [0; 0; 2; 0; 8; 0; 0; 0; 3; 2; 104] in                    (* padding >= payload *)
  bytes_ok ok = true /\
  model_parse 16384 ok = POk (LdFrame (FData 3 (data_END_STREAM + data_PADDED) (Some 2) [104; 105])) /\
  rfc_parse_frame_codec 16384 ok = Accept (WData 3 true (Some 2) [104; 105]) /\
  bytes_ok bad = true /\
  model_parse 16384 bad = PErr KData 3 TooMuchPadding /\
  rfc_parse_frame_codec 16384 bad = Reject PROTOCOL_ERROR.
Proof. vm_compute. repeat split; reflexivity. Qed.
