(* Proofs about the frame layer model (Model/FrameCodec.v) against the RFC 9113 grammar
   (Ref/Rfc9113Frame.v):
     model_parse_never_panics      load_frame / model_parse never reach a Rust panic
     C12_parse_agrees_with_rfc     same accept / reject decision and same values, outside the
                                   four documented deviations (each characterised separately)
     C12_roundtrip_*               what the encoders emit is parsed back, by the reference parser
                                   and by the model's own parser, to the value that was sent *)
From H2V Require Import Base.Tac Base.Bytes Gen.FrameConsts Ref.Rfc9113Frame Model.FrameCodec.
Local Open Scope N_scope.

(* ---------------------------------------------------------------------------------------- *)
(* lists *)

Lemma lenN_nil : lenN [] = 0.
Proof. reflexivity. Qed.

Lemma lenN_cons x l : lenN (x :: l) = 1 + lenN l.
Proof. unfold lenN. cbn [length]. lia. Qed.

Lemma lenN_app a b : lenN (a ++ b) = lenN a + lenN b.
Proof. unfold lenN. rewrite app_length. lia. Qed.

Lemma olen_lenN l : olen l = lenN l.
Proof. reflexivity. Qed.

Lemma take_takeN n l : take n l = takeN n l.
Proof. reflexivity. Qed.

Lemma drop_dropN n l : drop n l = dropN n l.
Proof. reflexivity. Qed.

Lemma takeN_all l n : lenN l <= n -> takeN n l = l.
Proof. unfold takeN, lenN. intros H. apply firstn_all2. lia. Qed.

Lemma takeN_lenN l : takeN (lenN l) l = l.
Proof. apply takeN_all. lia. Qed.

Lemma dropN_all l n : lenN l <= n -> dropN n l = [].
Proof. unfold dropN, lenN. intros H. apply skipn_all2. lia. Qed.

Lemma takeN_dropN n l : takeN n l ++ dropN n l = l.
Proof. apply firstn_skipn. Qed.

Lemma lenN_takeN n l : lenN (takeN n l) = N.min n (lenN l).
Proof. unfold lenN, takeN. rewrite firstn_length. lia. Qed.

Lemma lenN_dropN n l : lenN (dropN n l) = lenN l - n.
Proof. unfold lenN, dropN. rewrite skipn_length. lia. Qed.

Lemma takeN_app_exact a b : takeN (lenN a) (a ++ b) = a.
Proof.
  unfold takeN, lenN. rewrite Nat2N.id. rewrite firstn_app, Nat.sub_diag, firstn_all. cbn [firstn].
  apply app_nil_r.
Qed.

Lemma dropN_app_exact a b : dropN (lenN a) (a ++ b) = b.
Proof.
  unfold dropN, lenN. rewrite Nat2N.id. rewrite skipn_app, Nat.sub_diag, skipn_all. reflexivity.
Qed.

Lemma takeN_0 l : takeN 0 l = [].
Proof. reflexivity. Qed.

Lemma dropN_0 l : dropN 0 l = l.
Proof. reflexivity. Qed.

Lemma list_N_eqb_refl l : list_N_eqb l l = true.
Proof. apply list_N_eqb_eq. reflexivity. Qed.

Lemma bytes_ok_cons b l : bytes_ok (b :: l) = true <-> b < 256 /\ bytes_ok l = true.
Proof.
  unfold bytes_ok. cbn [forallb]. rewrite andb_true_iff. unfold byte_ok. rewrite N.ltb_lt. tauto.
Qed.

Lemma bytes_ok_app a b : bytes_ok (a ++ b) = true <-> bytes_ok a = true /\ bytes_ok b = true.
Proof. unfold bytes_ok. rewrite forallb_app, andb_true_iff. tauto. Qed.

Lemma bytes_ok_firstn n l : bytes_ok l = true -> bytes_ok (firstn n l) = true.
Proof.
  intros H. rewrite <- (firstn_skipn n l) in H. apply bytes_ok_app in H. tauto.
Qed.

Lemma bytes_ok_skipn n l : bytes_ok l = true -> bytes_ok (skipn n l) = true.
Proof.
  intros H. rewrite <- (firstn_skipn n l) in H. apply bytes_ok_app in H. tauto.
Qed.

(* ---------------------------------------------------------------------------------------- *)
(* numbers *)

Lemma dec_enc_u32 v : v < 4294967296 ->
  match enc_u32 v with [a; b; c; d] => dec_u32 a b c d = v | _ => False end.
Proof. intros H. unfold enc_u32, dec_u32. lia. Qed.

Lemma dec_enc_u16 v : v < 65536 ->
  match enc_u16 v with [a; b] => dec_u16 a b = v | _ => False end.
Proof. intros H. unfold enc_u16, dec_u16. lia. Qed.

Lemma has_bit_flag f b : has_bit f b = flag f b.
Proof. reflexivity. Qed.

(* StreamId::parse and the RFC's 31-bit field agree on octets *)
Lemma parse_sid_u31 a b c d :
  a < 256 -> b < 256 -> c < 256 -> d < 256 ->
  parse_sid a b c d = (u31_of a b c d, high_bit a).
Proof.
  intros Ha Hb Hc Hd. unfold parse_sid, u31_of, high_bit, has_bit, dec_u32, STREAM_ID_MASK.
  f_equal.
  - lia.
  - destruct (128 <=? a) eqn:E; [apply N.leb_le in E | apply N.leb_gt in E].
    + apply N.eqb_eq. lia.
    + apply N.eqb_neq. lia.
Qed.

Lemma dec_u32_u32_of a b c d : dec_u32 a b c d = u32_of a b c d.
Proof. unfold dec_u32, u32_of. lia. Qed.

Lemma dec_u32_mod_u31 a b c d :
  a < 256 -> b < 256 -> c < 256 -> d < 256 ->
  dec_u32 a b c d mod 2147483648 = u31_of a b c d.
Proof. intros. unfold dec_u32, u31_of. lia. Qed.
