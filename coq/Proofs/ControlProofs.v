(* Invariants and theorems about the control-plane model (Model/Control.v): C14 (acknowledgements of SETTINGS and PING,
   settings take effect at the acknowledgement, user pings) and C15 (GOAWAY / shutdown).

   Ghost logs.  A theorem about "the frames emitted so far" is stated on a log that is a function of the labels taken and the
   outputs produced only (never of the model state): `updX h l outs` folds the outputs of one step into the log.  Each
   invariant relates the model state to one such log and is proved for every label and every observed input; `run_inv`
   lifts them to all label sequences. *)
From H2V Require Import Base.Tac Base.Bytes Model.Control.
Local Open Scope N_scope.

Lemma shutdown_ne_user : (PING_SHUTDOWN =? PING_USER) = false.
Proof. vm_compute. reflexivity. Qed.

Lemma user_ne_shutdown : (PING_USER =? PING_SHUTDOWN) = false.
Proof. vm_compute. reflexivity. Qed.

(* ---------------------------------------------------------------------------------------------- helper specifications *)

Lemma ga_go_away_spec s l r d s' :
  ga_go_away s (l, r, d) = inl s' ->
  s' = set_ga s (g_close_now s) (Some (l, r)) (g_user s) (Some (l, r, d)) /\
  (forall gl gr, g_going s = Some (gl, gr) -> l <= gl).
Proof.
  unfold ga_go_away. destruct (g_going s) as [[gl gr]|] eqn:Eg.
  - destruct (l <=? gl) eqn:El; [|discriminate]. intros H. inversion H. split; [reflexivity|].
    intros gl' gr' E. inversion E; subst. lia.
  - intros H. inversion H. split; [reflexivity|]. intros gl gr E. discriminate.
Qed.

Lemma ga_go_away_panic s l r d n :
  ga_go_away s (l, r, d) = inr n -> exists gl gr, g_going s = Some (gl, gr) /\ gl < l.
Proof.
  unfold ga_go_away. destruct (g_going s) as [[gl gr]|] eqn:Eg; [|discriminate].
  destruct (l <=? gl) eqn:El; [discriminate|]. intros _. exists gl, gr. split; [reflexivity|lia].
Qed.

Lemma opt_pair_eqb_true a l r : opt_pair_eqb a l r = true -> a = Some (l, r).
Proof.
  destruct a as [[l' r']|]; cbn [opt_pair_eqb]; [|discriminate].
  intros H. apply andb_true_iff in H. destruct H as (A & B). apply N.eqb_eq in A. apply N.eqb_eq in B. subst. reflexivity.
Qed.

Lemma ga_go_away_now_spec s l r d s' :
  ga_go_away_now s (l, r, d) = inl s' ->
  (s' = set_ga s true (g_going s) (g_user s) (g_pending s) /\ g_going s = Some (l, r)) \/
  (s' = set_ga s true (Some (l, r)) (g_user s) (Some (l, r, d)) /\ (forall gl gr, g_going s = Some (gl, gr) -> l <= gl)).
Proof.
  unfold ga_go_away_now. destruct (opt_pair_eqb (g_going s) l r) eqn:E.
  - intros H. inversion H. left. split; [reflexivity|]. apply opt_pair_eqb_true. exact E.
  - intros H. apply ga_go_away_spec in H. destruct H as (A & B). right. split; [exact A|exact B].
Qed.

Lemma ga_go_away_now_panic s l r d n :
  ga_go_away_now s (l, r, d) = inr n -> exists gl gr, g_going s = Some (gl, gr) /\ gl < l.
Proof.
  unfold ga_go_away_now. destruct (opt_pair_eqb (g_going s) l r); [discriminate|].
  intros H. apply ga_go_away_panic in H. exact H.
Qed.

Lemma conn_go_away_spec s id e s' :
  conn_go_away s id e = inl s' ->
  id <= r_max s /\
  s' = set_ga (set_ids s (r_last s) id (s_max s)) (g_close_now s) (Some (id, e)) (g_user s) (Some (id, e, [])) /\
  (forall gl gr, g_going s = Some (gl, gr) -> id <= gl).
Proof.
  unfold conn_go_away. destruct (r_max s <? id) eqn:E; [discriminate|].
  intros H. apply ga_go_away_spec in H. destruct H as (A & B). split; [lia|]. split; [exact A|exact B].
Qed.

Lemma conn_go_away_panic s id e n :
  conn_go_away s id e = inr n -> r_max s < id \/ exists gl gr, g_going s = Some (gl, gr) /\ gl < id.
Proof.
  unfold conn_go_away. destruct (r_max s <? id) eqn:E; [intros _; left; lia|].
  intros H. apply ga_go_away_panic in H. right. exact H.
Qed.

(* outputs that no ghost log looks at *)
Definition neutral (o : out) : bool :=
  match o with OStreamsError | OSendReset | OConnResult _ => true | _ => false end.

Definition result_state (s s' : st) : Prop :=
  s' = s \/ (exists c, c <> COpen /\ s' = set_conn s c (c_error s)) \/
  (exists reason debug, ga_go_away_now s (r_last s, reason, debug) = inl s').

Lemma handle_go_away_spec s o reason debug i s' o' fl :
  handle_go_away s o reason debug i = SOk s' o' fl ->
  (exists x, o' = o ++ x /\ forallb neutral x = true) /\ result_state s s' /\ fl = FLoop.
Proof.
  unfold handle_go_away.
  destruct (match g_going s with Some (_, r) => r =? reason | None => false end).
  - intros H. inversion H; subst. split; [exists []; rewrite app_nil_r; auto|]. split; [|reflexivity].
    right. left. eexists. split; [|reflexivity]. discriminate.
  - destruct (ga_go_away_now s (r_last s, reason, debug)) as [s1|n] eqn:E; cbn [lift]; [|discriminate].
    intros H. inversion H; subst. split; [exists [OStreamsError]; auto|]. split; [|reflexivity].
    right. right. exists reason, debug. exact E.
Qed.

Lemma handle_go_away_panic s o reason debug i n :
  handle_go_away s o reason debug i = SPanic n -> exists gl gr, g_going s = Some (gl, gr) /\ gl < r_last s.
Proof.
  unfold handle_go_away.
  destruct (match g_going s with Some (_, r) => r =? reason | None => false end); [discriminate|].
  destruct (ga_go_away_now s (r_last s, reason, debug)) as [s1|m] eqn:E; cbn [lift]; [discriminate|].
  intros _. apply ga_go_away_now_panic in E. exact E.
Qed.

Lemma handle_go_away_not_stuck s o reason debug i n : handle_go_away s o reason debug i <> SStuck n.
Proof.
  unfold handle_go_away.
  destruct (match g_going s with Some (_, r) => r =? reason | None => false end); [discriminate|].
  destruct (ga_go_away_now s (r_last s, reason, debug)); cbn [lift]; discriminate.
Qed.

Lemma handle_result_spec s o r s' o' fl :
  handle_result s o r = SOk s' o' fl ->
  (exists x, o' = o ++ x /\ forallb neutral x = true) /\ result_state s s'.
Proof.
  destruct r as [|reason debug i|[| |] [[reason debug]|]|ee sv]; cbn [handle_result]; try discriminate.
  - intros H. inversion H; subst. split; [exists []; rewrite app_nil_r; auto|]. right. left. eexists. split; [|reflexivity]. discriminate.
  - intros H. apply handle_go_away_spec in H. destruct H as (A & B & _). auto.
  - intros H. apply handle_go_away_spec in H. destruct H as (A & B & _). auto.
  - intros H. inversion H; subst. split; [exists [OSendReset]; auto|]. left. reflexivity.
  - intros H. inversion H; subst. split; [exists []; rewrite app_nil_r; auto|]. left. reflexivity.
  - intros H. inversion H; subst. split; [exists []; rewrite app_nil_r; auto|]. left. reflexivity.
  - destruct (ee && (sv || error_is_no_error s)); intros H; inversion H; subst.
    + split; [exists [OStreamsError]; auto|]. right. left. eexists. split; [|reflexivity]. discriminate.
    + split; [exists [OStreamsError; OConnResult CRIo]; auto|]. left. reflexivity.
Qed.

(* the debug assertion of handle_poll2_result is about a value produced by the (unmodelled) stream layer *)
Definition res_ok (r : p2res) : bool := match r with RReset IUser _ => false | _ => true end.

Lemma handle_result_panic s o r n :
  res_ok r = true -> handle_result s o r = SPanic n -> exists gl gr, g_going s = Some (gl, gr) /\ gl < r_last s.
Proof.
  destruct r as [|reason debug i|[| |] [[reason debug]|]|ee sv]; cbn [handle_result res_ok]; try discriminate.
  - intros _. apply handle_go_away_panic.
  - intros _. apply handle_go_away_panic.
  - destruct (ee && (sv || error_is_no_error s)); discriminate.
Qed.

Lemma handle_result_not_stuck s o r n : handle_result s o r <> SStuck n.
Proof.
  destruct r as [|reason debug i|[| |] [[reason debug]|]|ee sv]; cbn [handle_result]; try discriminate.
  - apply handle_go_away_not_stuck.
  - apply handle_go_away_not_stuck.
  - destruct (ee && (sv || error_is_no_error s)); discriminate.
Qed.

(* a fold over outputs ignores a neutral tail *)
Lemma fold_neutral {H} (f : H -> out -> H) :
  (forall h e, neutral e = true -> f h e = h) ->
  forall x o h, forallb neutral x = true -> fold_left f (o ++ x) h = fold_left f o h.
Proof.
  intros Hn x o h Hx. rewrite fold_left_app. generalize (fold_left f o h). clear o h.
  induction x as [|e x IH]; intros h; cbn [fold_left]; [reflexivity|].
  cbn [forallb] in Hx. apply andb_true_iff in Hx. destruct Hx as (A & B).
  rewrite (Hn h e A). apply IH. exact B.
Qed.

(* ==============================================================================================
   C15, sending side: the GOAWAY log *)

Record hG := mkHG {
  hg_goaways : list (N * N);     (* (last_stream_id, highest id processed so far) of every GOAWAY emitted, newest first *)
  hg_maxproc : N                 (* highest peer-initiated id processed (OProcessed) so far *)
}.

Definition outG (h : hG) (o : out) : hG :=
  match o with
  | OFrame (WGoAway l _ _) => mkHG ((l, hg_maxproc h) :: hg_goaways h) (hg_maxproc h)
  | OProcessed id => mkHG (hg_goaways h) (N.max (hg_maxproc h) id)
  | _ => h
  end.

Definition updG (h : hG) (o : list out) : hG := fold_left outG o h.

Definition hG0 : hG := mkHG [] 0.

(* newest first: every frame's last id is <= the one emitted before it *)
Fixpoint desc (l : list (N * N)) : Prop :=
  match l with
  | [] => True
  | a :: t => match t with [] => True | b :: _ => fst a <= fst b end /\ desc t
  end.

Record InvG (s : st) (h : hG) : Prop := mkInvG {
  G1 : forall l r d, g_pending s = Some (l, r, d) -> g_going s = Some (l, r);
  G2 : g_close_now s = true -> g_going s <> None;
  G3 : g_close_now s = false -> forall l r, g_going s = Some (l, r) -> r = NO_ERROR /\ r_max s <= l;
  G4 : g_going s = None -> r_max s = MAX_ID;
  G5 : r_last s <= r_max s /\ r_max s <= MAX_ID;
  G6 : forall l r, g_going s = Some (l, r) -> r_last s <= l;
  G7 : forall pl b, p_ping s = Some (pl, b) -> pl = PING_SHUTDOWN /\ g_going s <> None;
  G8 : hg_maxproc h = r_last s;
  G9 : Forall (fun e => snd e <= fst e) (hg_goaways h);
  G10 : desc (hg_goaways h);
  G11 : forall l r, g_going s = Some (l, r) -> Forall (fun e => l <= fst e) (hg_goaways h);
  G12 : g_going s = None -> hg_goaways h = []
}.

Lemma InvG_init p0 : InvG (init p0) hG0.
Proof.
  constructor; cbn; try discriminate; try (intros; discriminate); auto.
  - unfold MAX_ID. lia.
Qed.

Definition same_G (s s' : st) : Prop :=
  g_close_now s' = g_close_now s /\ g_going s' = g_going s /\ g_pending s' = g_pending s /\
  r_last s' = r_last s /\ r_max s' = r_max s /\ p_ping s' = p_ping s.

Lemma InvG_same s s' h : same_G s s' -> InvG s h -> InvG s' h.
Proof.
  intros (A & B & C & D & E & F) [g1 g2 g3 g4 g5 g6 g7 g8 g9 g10 g11 g12].
  constructor; rewrite ?A, ?B, ?C, ?D, ?E, ?F; auto.
Qed.

Lemma outG_neutral h e : neutral e = true -> outG h e = h.
Proof. destruct e; cbn; try discriminate; reflexivity. Qed.

Lemma updG_neutral h o x : forallb neutral x = true -> updG h (o ++ x) = updG h o.
Proof. intros Hx. unfold updG. apply fold_neutral; [exact outG_neutral|exact Hx]. Qed.

Lemma Forall_le_trans (a b : N) (l : list (N * N)) :
  a <= b -> Forall (fun e => b <= fst e) l -> Forall (fun e => a <= fst e) l.
Proof. intros H F. induction F; constructor; auto. lia. Qed.

Lemma InvG_go_away_now s h reason d s' :
  InvG s h -> ga_go_away_now s (r_last s, reason, d) = inl s' -> InvG s' h.
Proof.
  intros [g1 g2 g3 g4 g5 g6 g7 g8 g9 g10 g11 g12] H.
  apply ga_go_away_now_spec in H. destruct H as [(E & Eg)|(E & Hle)]; subst s'.
  - constructor; cbn; auto.
    + intros _. rewrite Eg. discriminate.
    + discriminate.
  - constructor; cbn; auto.
    + intros l r d' H. inversion H; subst. reflexivity.
    + discriminate.
    + discriminate.
    + discriminate.
    + intros l r H. inversion H; subst. lia.
    + intros pl b H. destruct (g7 pl b H) as (A & _). split; [exact A|discriminate].
    + intros l r H. inversion H; subst.
      destruct (g_going s) as [[gl gr]|] eqn:Eg.
      * apply Forall_le_trans with gl; [apply (Hle gl gr); reflexivity|apply (g11 gl gr); reflexivity].
      * rewrite g12; [constructor|reflexivity].
    + discriminate.
Qed.

Lemma InvG_go_away_now_nopanic s h reason d n :
  InvG s h -> ga_go_away_now s (r_last s, reason, d) <> inr n.
Proof.
  intros HI H. apply ga_go_away_now_panic in H. destruct H as (gl & gr & Eg & Hlt).
  pose proof (G6 _ _ HI gl gr Eg). lia.
Qed.

Lemma InvG_result s h o r s' o' fl :
  InvG s (updG h o) -> handle_result s o r = SOk s' o' fl -> InvG s' (updG h o').
Proof.
  intros HI H. apply handle_result_spec in H. destruct H as ((x & Eo & Hx) & R). subst o'.
  rewrite updG_neutral by exact Hx.
  destruct R as [E|[(c & _ & E)|(reason & debug & E)]].
  - subst. exact HI.
  - subst. eapply InvG_same; [|exact HI]. repeat split; reflexivity.
  - eapply InvG_go_away_now; [exact HI|exact E].
Qed.

Lemma InvG_result_nopanic s h o r n : res_ok r = true -> InvG s h -> handle_result s o r <> SPanic n.
Proof.
  intros Hr HI H. apply handle_result_panic in H; [|exact Hr]. destruct H as (gl & gr & Eg & Hlt).
  pose proof (G6 _ _ HI gl gr Eg). lia.
Qed.

(* clearing / emitting the pending frame *)
Lemma InvG_clear_pending s h :
  InvG s h -> InvG (set_ga s (g_close_now s) (g_going s) (g_user s) None) h.
Proof.
  intros [g1 g2 g3 g4 g5 g6 g7 g8 g9 g10 g11 g12]. constructor; cbn; auto. discriminate.
Qed.

Lemma InvG_emit s h l r d :
  InvG s h -> g_pending s = Some (l, r, d) ->
  InvG (set_ga s (g_close_now s) (g_going s) (g_user s) None) (updG h [OFrame (WGoAway l r d)]).
Proof.
  intros [g1 g2 g3 g4 g5 g6 g7 g8 g9 g10 g11 g12] Ep.
  pose proof (g1 l r d Ep) as Eg.
  constructor; cbn; auto.
  - discriminate.
  - constructor; [|exact g9]. cbn. rewrite g8. apply (g6 l r Eg).
  - split; [|exact g10]. pose proof (g11 l r Eg) as F. destruct (hg_goaways h) as [|b t]; [exact I|].
    inversion F; subst. assumption.
  - intros l' r' H. rewrite Eg in H. inversion H; subst. constructor; [cbn; lia|apply (g11 l' r' Eg)].
  - rewrite Eg. discriminate.
Qed.

Lemma InvG_after_go_away s h o reason s' o' fl :
  InvG s (updG h o) -> after_go_away s o reason = SOk s' o' fl -> InvG s' (updG h o').
Proof.
  intros HI. unfold after_go_away.
  destruct (should_close_now s).
  - destruct (g_user s); apply InvG_result; exact HI.
  - destruct (reason =? NO_ERROR); [|discriminate]. intros H. inversion H; subst. exact HI.
Qed.

Lemma InvG_after_go_away_nopanic s h o l reason n :
  InvG s h -> g_pending s = None -> g_going s = Some (l, reason) -> after_go_away s o reason <> SPanic n.
Proof.
  intros HI Ep Eg. unfold after_go_away, should_close_now. rewrite Ep.
  destruct (g_close_now s) eqn:Ec.
  - destruct (g_user s); apply (InvG_result_nopanic _ h); auto.
  - destruct (G3 _ _ HI Ec l reason Eg) as (A & _). subst reason. cbn. discriminate.
Qed.

Lemma in_poll_ready_spec s :
  in_poll_ready s = true -> c_state s = COpen /\ g_pending s = None /\ g_close_now s = false.
Proof.
  unfold in_poll_ready, is_open. destruct (c_state s); cbn [andb]; try discriminate.
  destruct (g_pending s); cbn [andb]; try discriminate. destruct (g_close_now s); cbn; try discriminate. auto.
Qed.

Lemma can_recv_spec s :
  can_recv s = true ->
  in_poll_ready s = true /\ p_pong s = None /\ (forall pl, p_ping s <> Some (pl, false)) /\ s_remote s = None /\
  (forall p, s_local s <> LToSend p).
Proof.
  unfold can_recv. remember (in_poll_ready s) as ipr eqn:Eipr. intros H.
  apply andb_true_iff in H. destruct H as (H & H4). apply andb_true_iff in H. destruct H as (H & H3).
  apply andb_true_iff in H. destruct H as (H & H2). apply andb_true_iff in H. destruct H as (H & H1).
  split; [exact H|]. split; [destruct (p_pong s); [discriminate|reflexivity]|].
  split; [intros pl E; rewrite E in H2; discriminate|].
  split; [destruct (s_remote s); [discriminate|reflexivity]|].
  intros p E. rewrite E in H4. discriminate.
Qed.

Ltac same_G_tac HI :=
  cbn [updG fold_left outG]; eapply InvG_same; [|exact HI]; repeat split; reflexivity.

Theorem stepG s h l s' o fl : InvG s h -> cstep s l = SOk s' o fl -> InvG s' (updG h o).
Proof.
  intros HI.
  destruct l as [p| |reason| | | | | |hs|c| |c|c|c|c ae|c|f|r]; cbn [cstep].
  - (* LSendSettings *)
    destruct (s_local s); intros H; inversion H; subst; same_G_tac HI.
  - (* LGraceful *)
    destruct (g_going s) as [g|] eqn:Eg; [intros H; inversion H; subst; exact HI|].
    destruct (conn_go_away s MAX_ID NO_ERROR) as [s1|n] eqn:Ec; [|discriminate].
    apply conn_go_away_spec in Ec. destruct Ec as (Hm & E1 & _). subst s1. cbn [p_ping set_ga set_ids p_pong p_user].
    destruct (p_ping s) as [pp|] eqn:Epp; [discriminate|].
    intros H. inversion H; subst. cbn [updG fold_left outG].
    destruct HI as [g1 g2 g3 g4 g5 g6 g7 g8 g9 g10 g11 g12].
    assert (Hc : g_close_now s = false).
    { destruct (g_close_now s) eqn:E; [exfalso; apply g2; auto|reflexivity]. }
    constructor; cbn; auto; try discriminate.
    + intros l r d H1. inversion H1; subst. reflexivity.
    + intros _ l r H1. inversion H1; subst. split; [reflexivity|lia].
    + split; [lia|lia].
    + intros l r H1. inversion H1; subst. lia.
    + intros pl b H1. inversion H1; subst. split; [reflexivity|discriminate].
    + intros l r H1. rewrite (g12 Eg). constructor.
  - (* LAbrupt *)
    destruct (ga_go_away_now (set_ga s (g_close_now s) (g_going s) true (g_pending s)) (r_last s, reason, [])) as [s1|n] eqn:E;
      cbn [lift]; [|discriminate].
    intros H. inversion H; subst. cbn [updG fold_left outG].
    eapply (InvG_go_away_now (set_ga s (g_close_now s) (g_going s) true (g_pending s))); [|exact E].
    eapply InvG_same; [|exact HI]. repeat split; reflexivity.
  - (* LTakeUserPings *)
    destruct (p_user s); intros H; inversion H; subst; same_G_tac HI.
  - (* LUserSendPing *)
    destruct (p_user s) as [[| | | |]|]; intros H; inversion H; subst; same_G_tac HI.
  - (* LUserPollPong *)
    destruct (p_user s) as [[| | | |]|]; intros H; inversion H; subst; same_G_tac HI.
  - (* LDropConn *)
    destruct (p_user s); intros H; inversion H; subst; same_G_tac HI.
  - (* LMaybeClose *)
    destruct (ga_go_away_now s (r_last s, NO_ERROR, [])) as [s1|n] eqn:E; cbn [lift]; [|discriminate].
    intros H. inversion H; subst. cbn [updG fold_left]. eapply InvG_go_away_now; [exact HI|exact E].
  - (* LIdle *)
    destruct (negb (is_open s)); [discriminate|].
    destruct ((match c_error s with Some _ => true | None => false end || should_close_on_idle s) && negb hs).
    + destruct (ga_go_away_now s (r_last s, NO_ERROR, [])) as [s1|n] eqn:E; cbn [lift]; [|discriminate].
      intros H. inversion H; subst. cbn [updG fold_left]. eapply InvG_go_away_now; [exact HI|exact E].
    + intros H. inversion H; subst. exact HI.
  - (* LShutdown *)
    destruct (c_state s); try discriminate. destruct c; intros H; inversion H; subst; same_G_tac HI.
  - (* LTakeError *)
    destruct (c_state s); try discriminate.
    destruct (match c_error s with Some (_, r, d) => (d, r) | None => ([], NO_ERROR) end) as [dbg theirs].
    intros H. inversion H; subst. same_G_tac HI.
  - (* LPollGoAway *)
    destruct (negb (is_open s)); [discriminate|].
    destruct (g_pending s) as [[[l r] d]|] eqn:Ep.
    + destruct c.
      * apply (InvG_after_go_away _ h). apply InvG_emit; assumption.
      * intros H. inversion H; subst. exact HI.
      * intros H. inversion H; subst. cbn [updG fold_left]. apply InvG_clear_pending. exact HI.
    + destruct (g_close_now s).
      * destruct (g_going s) as [[gl gr]|].
        -- apply (InvG_after_go_away _ h). exact HI.
        -- intros H. inversion H; subst. exact HI.
      * intros H. inversion H; subst. exact HI.
  - (* LPollPong *)
    destruct (negb (in_poll_ready s)); [discriminate|].
    destruct (p_pong s); [destruct c|]; intros H; inversion H; subst; same_G_tac HI.
  - (* LPollPing *)
    destruct (negb (in_poll_ready s)); [discriminate|].
    destruct (p_ping s) as [[pl [|]]|] eqn:Epp.
    + intros H. inversion H; subst. exact HI.
    + destruct c; intros H; inversion H; subst; try exact HI.
      cbn [updG fold_left outG].
      destruct HI as [g1 g2 g3 g4 g5 g6 g7 g8 g9 g10 g11 g12]. constructor; cbn; auto.
      intros pl' b H1. inversion H1; subst. apply (g7 pl' false Epp).
    + destruct (p_user s) as [[| | | |]|]; try destruct c; intros H; inversion H; subst; try exact HI;
        cbn [updG fold_left outG]; (eapply InvG_same; [|exact HI]; repeat split; try reflexivity; cbn; auto).
  - (* LSettingsAck *)
    destruct (negb (in_poll_ready s)); [discriminate|].
    destruct (s_remote s) as [p|]; [|intros H; inversion H; subst; exact HI].
    destruct c; try (intros H; inversion H; subst; exact HI).
    destruct ae as [r|].
    + apply (InvG_result _ h). cbn [updG fold_left outG]. eapply InvG_same; [|exact HI]. repeat split; reflexivity.
    + intros H. inversion H; subst. same_G_tac HI.
  - (* LSettingsLocal *)
    destruct (negb (in_poll_ready s)); [discriminate|].
    destruct (s_remote s); [discriminate|].
    destruct (s_local s); try destruct c; intros H; inversion H; subst; try exact HI; same_G_tac HI.
  - (* LRecv *)
    destruct (can_recv s) eqn:Ecr; cbn [negb]; [|discriminate].
    apply can_recv_spec in Ecr. destruct Ecr as (Hpr & Hpong & Hping & Hrem & Hloc).
    apply in_poll_ready_spec in Hpr. destruct Hpr as (Hopen & Hpend & Hcn).
    destruct f as [p|ae|ack pl|last reason debug|id raised| |]; cbn [recv_frame].
    + rewrite Hrem. intros H. inversion H; subst. same_G_tac HI.
    + destruct (s_local s) as [q|q|].
      * apply (InvG_result _ h). exact HI.
      * destruct ae as [r|].
        -- apply (InvG_result _ h). exact HI.
        -- intros H. inversion H; subst. same_G_tac HI.
      * apply (InvG_result _ h). exact HI.
    + rewrite Hpong. destruct ack.
      * assert (Huser : forall o1 f1,
                  (let '(u, o) := user_receive_pong (p_user s) pl in SOk (set_ping s (p_ping s) None u) o FNext) = SOk s' o1 f1 ->
                  InvG s' (updG h o1)).
        { intros o1 f1. unfold user_receive_pong.
          destruct (p_user s) as [[| | | |]|]; try destruct (pl =? PING_USER); intros H; inversion H; subst;
            cbn [updG fold_left outG]; (eapply InvG_same; [|exact HI]; repeat split; reflexivity). }
        destruct (p_ping s) as [[ppl sent]|] eqn:Epp; [|apply Huser].
        destruct (ppl =? pl) eqn:Eeq; [|apply Huser].
        destruct (ppl =? PING_SHUTDOWN) eqn:Esh; cbn [negb]; [|discriminate].
        cbn [g_going set_ping r_last].
        destruct (g_going s) as [[gl gr]|] eqn:Eg; [|discriminate].
        destruct (conn_go_away (set_ping s None None (p_user s)) (r_last s) NO_ERROR) as [s1|n] eqn:Ec; cbn [lift]; [|discriminate].
        apply conn_go_away_spec in Ec. destruct Ec as (_ & E1 & Hle). cbn in Hle.
        intros H. inversion H; subst. cbn [updG fold_left outG].
        destruct HI as [g1 g2 g3 g4 g5 g6 g7 g8 g9 g10 g11 g12].
        constructor; cbn; auto; try discriminate.
        -- intros l r d H1. inversion H1; subst. reflexivity.
        -- intros _ l r H1. inversion H1; subst. split; [reflexivity|lia].
        -- split; [lia|lia].
        -- intros l r H1. inversion H1; subst. lia.
        -- intros l r H1. inversion H1; subst.
           apply Forall_le_trans with gl; [apply (g6 gl gr Eg)|apply (g11 gl gr Eg)].
      * intros H. inversion H; subst. same_G_tac HI.
    + destruct (s_max s <? last).
      * apply (InvG_result _ h). exact HI.
      * intros H. inversion H; subst. same_G_tac HI.
    + destruct raised; [|intros H; inversion H; subst; exact HI].
      destruct (r_max s <? id) eqn:E1; [discriminate|]. destruct (id <=? r_last s) eqn:E2; [discriminate|].
      intros H. inversion H; subst. cbn [updG fold_left outG].
      destruct HI as [g1 g2 g3 g4 g5 g6 g7 g8 g9 g10 g11 g12].
      constructor; cbn; auto.
      * split; [lia|lia].
      * intros l r Eg. destruct (g3 Hcn l r Eg) as (_ & B). lia.
      * rewrite g8. lia.
    + intros H. inversion H; subst. exact HI.
    + apply (InvG_result _ h). exact HI.
  - (* LResult *)
    destruct (negb (is_open s)); [discriminate|]. apply (InvG_result _ h). exact HI.
Qed.

(* ---------------------------------------------------------------------------------------------- no assert fires *)

Definition label_ok (l : label) : bool :=
  match l with
  | LResult r => res_ok r
  | _ => true
  end.

Theorem step_nopanic s h l n : InvG s h -> label_ok l = true -> cstep s l <> SPanic n.
Proof.
  intros HI Hok.
  destruct l as [p| |reason| | | | | |hs|c| |c|c|c|c ae|c|f|r]; cbn [cstep].
  - destruct (s_local s); discriminate.
  - destruct (g_going s) as [g|] eqn:Eg; [discriminate|].
    destruct (conn_go_away s MAX_ID NO_ERROR) as [s1|m] eqn:Ec.
    + apply conn_go_away_spec in Ec. destruct Ec as (_ & E1 & _). subst s1. cbn [p_ping set_ga set_ids].
      destruct (p_ping s) as [[pl b]|] eqn:Epp; [|discriminate].
      destruct (G7 _ _ HI pl b Epp) as (_ & A). contradiction.
    + apply conn_go_away_panic in Ec. destruct Ec as [Hlt|(gl & gr & E & _)]; [|rewrite Eg in E; discriminate].
      pose proof (G4 _ _ HI Eg). lia.
  - destruct (ga_go_away_now (set_ga s (g_close_now s) (g_going s) true (g_pending s)) (r_last s, reason, [])) as [s1|m] eqn:E;
      cbn [lift]; [discriminate|].
    exfalso. eapply (InvG_go_away_now_nopanic (set_ga s (g_close_now s) (g_going s) true (g_pending s)) h); [|exact E].
    eapply InvG_same; [|exact HI]. repeat split; reflexivity.
  - destruct (p_user s); discriminate.
  - destruct (p_user s) as [[| | | |]|]; discriminate.
  - destruct (p_user s) as [[| | | |]|]; discriminate.
  - destruct (p_user s); discriminate.
  - destruct (ga_go_away_now s (r_last s, NO_ERROR, [])) as [s1|m] eqn:E; cbn [lift]; [discriminate|].
    exfalso. eapply InvG_go_away_now_nopanic; [exact HI|exact E].
  - destruct (negb (is_open s)); [discriminate|].
    destruct ((match c_error s with Some _ => true | None => false end || should_close_on_idle s) && negb hs); [|discriminate].
    destruct (ga_go_away_now s (r_last s, NO_ERROR, [])) as [s1|m] eqn:E; cbn [lift]; [discriminate|].
    exfalso. eapply InvG_go_away_now_nopanic; [exact HI|exact E].
  - destruct (c_state s); try discriminate. destruct c; discriminate.
  - destruct (c_state s); try discriminate.
    destruct (match c_error s with Some (_, r, d) => (d, r) | None => ([], NO_ERROR) end). discriminate.
  - destruct (negb (is_open s)); [discriminate|].
    destruct (g_pending s) as [[[l r] d]|] eqn:Ep.
    + destruct c; try discriminate.
      apply (InvG_after_go_away_nopanic _ h _ l).
      * apply InvG_clear_pending. exact HI.
      * reflexivity.
      * cbn. apply (G1 _ _ HI l r d Ep).
    + destruct (g_close_now s); [|discriminate].
      destruct (g_going s) as [[gl gr]|] eqn:Eg; [|discriminate].
      apply (InvG_after_go_away_nopanic _ h _ gl); assumption.
  - destruct (negb (in_poll_ready s)); [discriminate|]. destruct (p_pong s); [destruct c|]; discriminate.
  - destruct (negb (in_poll_ready s)); [discriminate|].
    destruct (p_ping s) as [[pl [|]]|]; try discriminate.
    + destruct c; discriminate.
    + destruct (p_user s) as [[| | | |]|]; try destruct c; discriminate.
  - destruct (negb (in_poll_ready s)); [discriminate|].
    destruct (s_remote s) as [p|]; [|discriminate]. destruct c; try discriminate.
    destruct ae as [r|]; [|discriminate].
    apply (InvG_result_nopanic _ h); [reflexivity|]. eapply InvG_same; [|exact HI]. repeat split; reflexivity.
  - destruct (negb (in_poll_ready s)); [discriminate|]. destruct (s_remote s); [discriminate|].
    destruct (s_local s); try destruct c; discriminate.
  - destruct (can_recv s) eqn:Ecr; cbn [negb]; [|discriminate].
    apply can_recv_spec in Ecr. destruct Ecr as (Hpr & Hpong & Hping & Hrem & Hloc).
    destruct f as [p|ae|ack pl|last reason debug|id raised| |]; cbn [recv_frame].
    + rewrite Hrem. discriminate.
    + destruct (s_local s) as [q|q|].
      * apply (InvG_result_nopanic _ h); auto.
      * destruct ae as [r|]; [|discriminate]. apply (InvG_result_nopanic _ h); auto.
      * apply (InvG_result_nopanic _ h); auto.
    + rewrite Hpong. destruct ack; [|discriminate].
      assert (Huser : (let '(u, o) := user_receive_pong (p_user s) pl in SOk (set_ping s (p_ping s) None u) o FNext) <> SPanic n).
      { destruct (user_receive_pong (p_user s) pl). discriminate. }
      destruct (p_ping s) as [[ppl sent]|] eqn:Epp; [|exact Huser].
      destruct (ppl =? pl); [|exact Huser].
      destruct (G7 _ _ HI ppl sent Epp) as (A & Bg). subst ppl. rewrite N.eqb_refl. cbn [negb g_going set_ping r_last].
      destruct (g_going s) as [[gl gr]|] eqn:Eg; [|contradiction].
      destruct (conn_go_away (set_ping s None None (p_user s)) (r_last s) NO_ERROR) as [s1|m] eqn:Ec; cbn [lift]; [discriminate|].
      apply conn_go_away_panic in Ec. cbn in Ec. destruct Ec as [Hlt|(gl' & gr' & E & Hlt)].
      * pose proof (G5 _ _ HI). lia.
      * pose proof (G6 _ _ HI gl' gr' E). lia.
    + destruct (s_max s <? last); [|discriminate]. apply (InvG_result_nopanic _ h); auto.
    + destruct raised; [|discriminate]. destruct (r_max s <? id); [discriminate|]. destruct (id <=? r_last s); discriminate.
    + discriminate.
    + apply (InvG_result_nopanic _ h); auto.
  - destruct (negb (is_open s)); [discriminate|]. apply (InvG_result_nopanic _ h); auto.
Qed.
