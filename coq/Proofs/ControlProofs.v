(* Invariants and theorems about the control-plane model (Model/Control.v): C14 (acknowledgements of SETTINGS and PING,
   settings take effect at the acknowledgement, user pings) and C15 (GOAWAY / shutdown).

   Ghost logs.  A theorem about "the frames emitted so far" is stated on a log that is a function of the labels taken and the
   outputs produced only (never of the model state): `updX h l outs` folds the outputs of one step into the log.  Each
   invariant relates the model state to one such log and is proved for every label and every observed input; `run_inv`
   lifts them to all label sequences. *)
From H2V Require Import Base.Tac Base.Bytes Model.Control.
Local Open Scope N_scope.

Lemma shutdown_ne_user : (PING_SHUTDOWN =? PING_USER) = false.
Proof. vm_compute. reflexivity. Qed.

Lemma user_ne_shutdown : (PING_USER =? PING_SHUTDOWN) = false.
Proof. vm_compute. reflexivity. Qed.

(* ---------------------------------------------------------------------------------------------- helper specifications *)

Lemma ga_go_away_spec s l r d s' :
  ga_go_away s (l, r, d) = inl s' ->
  s' = set_ga s (g_close_now s) (Some (l, r)) (g_user s) (Some (l, r, d)) /\
  (forall gl gr, g_going s = Some (gl, gr) -> l <= gl).
Proof.
  unfold ga_go_away. destruct (g_going s) as [[gl gr]|] eqn:Eg.
  - destruct (l <=? gl) eqn:El; [|discriminate]. intros H. inversion H. split; [reflexivity|].
    intros gl' gr' E. inversion E; subst. lia.
  - intros H. inversion H. split; [reflexivity|]. intros gl gr E. discriminate.
Qed.

Lemma ga_go_away_panic s l r d n :
  ga_go_away s (l, r, d) = inr n -> exists gl gr, g_going s = Some (gl, gr) /\ gl < l.
Proof.
  unfold ga_go_away. destruct (g_going s) as [[gl gr]|] eqn:Eg; [|discriminate].
  destruct (l <=? gl) eqn:El; [discriminate|]. intros _. exists gl, gr. split; [reflexivity|lia].
Qed.

Lemma opt_pair_eqb_true a l r : opt_pair_eqb a l r = true -> a = Some (l, r).
Proof.
  destruct a as [[l' r']|]; cbn [opt_pair_eqb]; [|discriminate].
  intros H. apply andb_true_iff in H. destruct H as (A & B). apply N.eqb_eq in A. apply N.eqb_eq in B. subst. reflexivity.
Qed.

Lemma ga_go_away_now_spec s l r d s' :
  ga_go_away_now s (l, r, d) = inl s' ->
  (s' = set_ga s true (g_going s) (g_user s) (g_pending s) /\ g_going s = Some (l, r)) \/
  (s' = set_ga s true (Some (l, r)) (g_user s) (Some (l, r, d)) /\ (forall gl gr, g_going s = Some (gl, gr) -> l <= gl)).
Proof.
  unfold ga_go_away_now. destruct (opt_pair_eqb (g_going s) l r) eqn:E.
  - intros H. inversion H. left. split; [reflexivity|]. apply opt_pair_eqb_true. exact E.
  - intros H. apply ga_go_away_spec in H. destruct H as (A & B). right. split; [exact A|exact B].
Qed.

Lemma ga_go_away_now_panic s l r d n :
  ga_go_away_now s (l, r, d) = inr n -> exists gl gr, g_going s = Some (gl, gr) /\ gl < l.
Proof.
  unfold ga_go_away_now. destruct (opt_pair_eqb (g_going s) l r); [discriminate|].
  intros H. apply ga_go_away_panic in H. exact H.
Qed.

Lemma conn_go_away_spec s id e s' :
  conn_go_away s id e = inl s' ->
  id <= r_max s /\
  s' = set_ga (set_ids s (r_last s) id (s_max s)) (g_close_now s) (Some (id, e)) (g_user s) (Some (id, e, [])) /\
  (forall gl gr, g_going s = Some (gl, gr) -> id <= gl).
Proof.
  unfold conn_go_away. destruct (r_max s <? id) eqn:E; [discriminate|].
  intros H. apply ga_go_away_spec in H. destruct H as (A & B). split; [lia|]. split; [exact A|exact B].
Qed.

Lemma conn_go_away_panic s id e n :
  conn_go_away s id e = inr n -> r_max s < id \/ exists gl gr, g_going s = Some (gl, gr) /\ gl < id.
Proof.
  unfold conn_go_away. destruct (r_max s <? id) eqn:E; [intros _; left; lia|].
  intros H. apply ga_go_away_panic in H. right. exact H.
Qed.

(* outputs that no ghost log looks at *)
Definition neutral (o : out) : bool :=
  match o with OStreamsError | OSendReset | OConnResult _ => true | _ => false end.

Definition result_state (s s' : st) : Prop :=
  s' = s \/ (exists c, c <> COpen /\ s' = set_conn s c (c_error s)) \/
  (exists reason debug, ga_go_away_now s (r_last s, reason, debug) = inl s').

Lemma handle_go_away_spec s o reason debug i s' o' fl :
  handle_go_away s o reason debug i = SOk s' o' fl ->
  (exists x, o' = o ++ x /\ forallb neutral x = true) /\ result_state s s' /\ fl = FLoop.
Proof.
  unfold handle_go_away.
  destruct (match g_going s with Some (_, r) => r =? reason | None => false end).
  - intros H. inversion H; subst. split; [exists []; rewrite app_nil_r; auto|]. split; [|reflexivity].
    right. left. eexists. split; [|reflexivity]. discriminate.
  - destruct (ga_go_away_now s (r_last s, reason, debug)) as [s1|n] eqn:E; cbn [lift]; [|discriminate].
    intros H. inversion H; subst. split; [exists [OStreamsError]; auto|]. split; [|reflexivity].
    right. right. exists reason, debug. exact E.
Qed.

Lemma handle_go_away_panic s o reason debug i n :
  handle_go_away s o reason debug i = SPanic n -> exists gl gr, g_going s = Some (gl, gr) /\ gl < r_last s.
Proof.
  unfold handle_go_away.
  destruct (match g_going s with Some (_, r) => r =? reason | None => false end); [discriminate|].
  destruct (ga_go_away_now s (r_last s, reason, debug)) as [s1|m] eqn:E; cbn [lift]; [discriminate|].
  intros _. apply ga_go_away_now_panic in E. exact E.
Qed.

Lemma handle_go_away_not_stuck s o reason debug i n : handle_go_away s o reason debug i <> SStuck n.
Proof.
  unfold handle_go_away.
  destruct (match g_going s with Some (_, r) => r =? reason | None => false end); [discriminate|].
  destruct (ga_go_away_now s (r_last s, reason, debug)); cbn [lift]; discriminate.
Qed.

Lemma handle_result_spec s o r s' o' fl :
  handle_result s o r = SOk s' o' fl ->
  (exists x, o' = o ++ x /\ forallb neutral x = true) /\ result_state s s'.
Proof.
  destruct r as [|reason debug i|[| |] [[reason debug]|]|ee sv]; cbn [handle_result]; try discriminate.
  - intros H. inversion H; subst. split; [exists []; rewrite app_nil_r; auto|]. right. left. eexists. split; [|reflexivity]. discriminate.
  - intros H. apply handle_go_away_spec in H. destruct H as (A & B & _). auto.
  - intros H. inversion H; subst. split; [exists []; rewrite app_nil_r; auto|]. left. reflexivity.
  - intros H. inversion H; subst. split; [exists []; rewrite app_nil_r; auto|]. left. reflexivity.
  - intros H. apply handle_go_away_spec in H. destruct H as (A & B & _). auto.
  - intros H. inversion H; subst. split; [exists [OSendReset]; auto|]. left. reflexivity.
  - intros H. inversion H; subst. split; [exists []; rewrite app_nil_r; auto|]. left. reflexivity.
  - intros H. inversion H; subst. split; [exists []; rewrite app_nil_r; auto|]. left. reflexivity.
  - destruct (ee && (sv || error_is_no_error s)); intros H; inversion H; subst.
    + split; [exists [OStreamsError]; auto|]. right. left. eexists. split; [|reflexivity]. discriminate.
    + split; [exists [OStreamsError; OConnResult CRIo]; auto|]. left. reflexivity.
Qed.

Lemma handle_result_panic s o r n :
  handle_result s o r = SPanic n -> exists gl gr, g_going s = Some (gl, gr) /\ gl < r_last s.
Proof.
  destruct r as [|reason debug i|[| |] [[reason debug]|]|ee sv]; cbn [handle_result]; try discriminate.
  - apply handle_go_away_panic.
  - apply handle_go_away_panic.
  - destruct (ee && (sv || error_is_no_error s)); discriminate.
Qed.

Lemma handle_result_not_stuck s o r n : handle_result s o r <> SStuck n.
Proof.
  destruct r as [|reason debug i|[| |] [[reason debug]|]|ee sv]; cbn [handle_result]; try discriminate.
  - apply handle_go_away_not_stuck.
  - apply handle_go_away_not_stuck.
  - destruct (ee && (sv || error_is_no_error s)); discriminate.
Qed.

(* a fold over outputs ignores a neutral tail *)
Lemma fold_neutral {H} (f : H -> out -> H) :
  (forall h e, neutral e = true -> f h e = h) ->
  forall x o h, forallb neutral x = true -> fold_left f (o ++ x) h = fold_left f o h.
Proof.
  intros Hn x o h Hx. rewrite fold_left_app. generalize (fold_left f o h). clear o h.
  induction x as [|e x IH]; intros h; cbn [fold_left]; [reflexivity|].
  cbn [forallb] in Hx. apply andb_true_iff in Hx. destruct Hx as (A & B).
  rewrite (Hn h e A). apply IH. exact B.
Qed.

(* ==============================================================================================
   C15, sending side: the GOAWAY log *)

Record hG := mkHG {
  hg_goaways : list (N * N);     (* (last_stream_id, highest id processed so far) of every GOAWAY emitted, newest first *)
  hg_maxproc : N                 (* highest peer-initiated id processed (OProcessed) so far *)
}.

Definition outG (h : hG) (o : out) : hG :=
  match o with
  | OFrame (WGoAway l _ _) => mkHG ((l, hg_maxproc h) :: hg_goaways h) (hg_maxproc h)
  | OProcessed id => mkHG (hg_goaways h) (N.max (hg_maxproc h) id)
  | _ => h
  end.

Definition updG (h : hG) (o : list out) : hG := fold_left outG o h.

Definition hG0 : hG := mkHG [] 0.

(* newest first: every frame's last id is <= the one emitted before it *)
Fixpoint desc (l : list (N * N)) : Prop :=
  match l with
  | [] => True
  | a :: t => match t with [] => True | b :: _ => fst a <= fst b end /\ desc t
  end.

Record InvG (s : st) (h : hG) : Prop := mkInvG {
  G1 : forall l r d, g_pending s = Some (l, r, d) -> g_going s = Some (l, r);
  G2 : g_close_now s = true -> g_going s <> None;
  G3 : g_close_now s = false -> forall l r, g_going s = Some (l, r) -> r = NO_ERROR /\ r_max s <= l;
  G4 : g_going s = None -> r_max s = MAX_ID;
  G5 : r_last s <= r_max s /\ r_max s <= MAX_ID;
  G6 : forall l r, g_going s = Some (l, r) -> r_last s <= l;
  G7 : forall pl b, p_ping s = Some (pl, b) -> pl = PING_SHUTDOWN /\ g_going s <> None;
  G8 : hg_maxproc h = r_last s;
  G9 : Forall (fun e => snd e <= fst e) (hg_goaways h);
  G10 : desc (hg_goaways h);
  G11 : forall l r, g_going s = Some (l, r) -> Forall (fun e => l <= fst e) (hg_goaways h);
  G12 : g_going s = None -> hg_goaways h = []
}.

Lemma InvG_init p0 : InvG (init p0) hG0.
Proof.
  constructor; cbn; try discriminate; try (intros; discriminate); auto.
  - unfold MAX_ID. lia.
Qed.

Definition same_G (s s' : st) : Prop :=
  g_close_now s' = g_close_now s /\ g_going s' = g_going s /\ g_pending s' = g_pending s /\
  r_last s' = r_last s /\ r_max s' = r_max s /\ p_ping s' = p_ping s.

Lemma InvG_same s s' h : same_G s s' -> InvG s h -> InvG s' h.
Proof.
  intros (A & B & C & D & E & F) [g1 g2 g3 g4 g5 g6 g7 g8 g9 g10 g11 g12].
  constructor; rewrite ?A, ?B, ?C, ?D, ?E, ?F; auto.
Qed.

Lemma outG_neutral h e : neutral e = true -> outG h e = h.
Proof. destruct e; cbn; try discriminate; reflexivity. Qed.

Lemma updG_neutral h o x : forallb neutral x = true -> updG h (o ++ x) = updG h o.
Proof. intros Hx. unfold updG. apply fold_neutral; [exact outG_neutral|exact Hx]. Qed.

Lemma Forall_le_trans (a b : N) (l : list (N * N)) :
  a <= b -> Forall (fun e => b <= fst e) l -> Forall (fun e => a <= fst e) l.
Proof. intros H F. induction F; constructor; auto. lia. Qed.

Lemma InvG_go_away_now s h reason d s' :
  InvG s h -> ga_go_away_now s (r_last s, reason, d) = inl s' -> InvG s' h.
Proof.
  intros [g1 g2 g3 g4 g5 g6 g7 g8 g9 g10 g11 g12] H.
  apply ga_go_away_now_spec in H. destruct H as [(E & Eg)|(E & Hle)]; subst s'.
  - constructor; cbn; auto.
    + intros _. rewrite Eg. discriminate.
    + discriminate.
  - constructor; cbn; auto.
    + intros l r d' H. inversion H; subst. reflexivity.
    + discriminate.
    + discriminate.
    + discriminate.
    + intros l r H. inversion H; subst. lia.
    + intros pl b H. destruct (g7 pl b H) as (A & _). split; [exact A|discriminate].
    + intros l r H. inversion H; subst.
      destruct (g_going s) as [[gl gr]|] eqn:Eg.
      * apply Forall_le_trans with gl; [apply (Hle gl gr); reflexivity|apply (g11 gl gr); reflexivity].
      * rewrite g12; [constructor|reflexivity].
    + discriminate.
Qed.

Lemma InvG_go_away_now_nopanic s h reason d n :
  InvG s h -> ga_go_away_now s (r_last s, reason, d) <> inr n.
Proof.
  intros HI H. apply ga_go_away_now_panic in H. destruct H as (gl & gr & Eg & Hlt).
  pose proof (G6 _ _ HI gl gr Eg). lia.
Qed.

Lemma InvG_result s h o r s' o' fl :
  InvG s (updG h o) -> handle_result s o r = SOk s' o' fl -> InvG s' (updG h o').
Proof.
  intros HI H. apply handle_result_spec in H. destruct H as ((x & Eo & Hx) & R). subst o'.
  rewrite updG_neutral by exact Hx.
  destruct R as [E|[(c & _ & E)|(reason & debug & E)]].
  - subst. exact HI.
  - subst. eapply InvG_same; [|exact HI]. repeat split; reflexivity.
  - eapply InvG_go_away_now; [exact HI|exact E].
Qed.

Lemma InvG_result_nopanic s h o r n : InvG s h -> handle_result s o r <> SPanic n.
Proof.
  intros HI H. apply handle_result_panic in H. destruct H as (gl & gr & Eg & Hlt).
  pose proof (G6 _ _ HI gl gr Eg). lia.
Qed.

(* clearing / emitting the pending frame *)
Lemma InvG_clear_pending s h :
  InvG s h -> InvG (set_ga s (g_close_now s) (g_going s) (g_user s) None) h.
Proof.
  intros [g1 g2 g3 g4 g5 g6 g7 g8 g9 g10 g11 g12]. constructor; cbn; auto. discriminate.
Qed.

Lemma InvG_emit s h l r d :
  InvG s h -> g_pending s = Some (l, r, d) ->
  InvG (set_ga s (g_close_now s) (g_going s) (g_user s) None) (updG h [OFrame (WGoAway l r d)]).
Proof.
  intros [g1 g2 g3 g4 g5 g6 g7 g8 g9 g10 g11 g12] Ep.
  pose proof (g1 l r d Ep) as Eg.
  constructor; cbn; auto.
  - discriminate.
  - constructor; [|exact g9]. cbn. rewrite g8. apply (g6 l r Eg).
  - split; [|exact g10]. pose proof (g11 l r Eg) as F. destruct (hg_goaways h) as [|b t]; [exact I|].
    inversion F; subst. assumption.
  - intros l' r' H. rewrite Eg in H. inversion H; subst. constructor; [cbn; lia|apply (g11 l' r' Eg)].
  - rewrite Eg. discriminate.
Qed.

Lemma InvG_after_go_away s h o reason s' o' fl :
  InvG s (updG h o) -> after_go_away s o reason = SOk s' o' fl -> InvG s' (updG h o').
Proof.
  intros HI. unfold after_go_away.
  destruct (should_close_now s).
  - destruct (g_user s); apply InvG_result; exact HI.
  - destruct (reason =? NO_ERROR); [|discriminate]. intros H. inversion H; subst. exact HI.
Qed.

Lemma InvG_after_go_away_nopanic s h o l reason n :
  InvG s h -> g_pending s = None -> g_going s = Some (l, reason) -> after_go_away s o reason <> SPanic n.
Proof.
  intros HI Ep Eg. unfold after_go_away, should_close_now. rewrite Ep.
  destruct (g_close_now s) eqn:Ec.
  - destruct (g_user s); apply (InvG_result_nopanic _ h); exact HI.
  - destruct (G3 _ _ HI Ec l reason Eg) as (A & _). subst reason. cbn. discriminate.
Qed.

Lemma in_poll_ready_spec s :
  in_poll_ready s = true -> c_state s = COpen /\ g_pending s = None /\ g_close_now s = false.
Proof.
  unfold in_poll_ready, is_open. destruct (c_state s); cbn [andb]; try discriminate.
  destruct (g_pending s); cbn [andb]; try discriminate. destruct (g_close_now s); cbn; try discriminate. auto.
Qed.

Lemma can_recv_spec s :
  can_recv s = true ->
  in_poll_ready s = true /\ p_pong s = None /\ (forall pl, p_ping s <> Some (pl, false)) /\ s_remote s = None /\
  (forall p, s_local s <> LToSend p).
Proof.
  unfold can_recv. remember (in_poll_ready s) as ipr eqn:Eipr. intros H.
  apply andb_true_iff in H. destruct H as (H & H4). apply andb_true_iff in H. destruct H as (H & H3).
  apply andb_true_iff in H. destruct H as (H & H2). apply andb_true_iff in H. destruct H as (H & H1).
  split; [exact H|]. split; [destruct (p_pong s); [discriminate|reflexivity]|].
  split; [intros pl E; rewrite E in H2; discriminate|].
  split; [destruct (s_remote s); [discriminate|reflexivity]|].
  intros p E. rewrite E in H4. discriminate.
Qed.

Ltac same_G_tac HI :=
  cbn [updG fold_left outG]; eapply InvG_same; [|exact HI]; repeat split; reflexivity.

Theorem stepG s h l s' o fl : InvG s h -> cstep s l = SOk s' o fl -> InvG s' (updG h o).
Proof.
  intros HI.
  destruct l as [p| |reason| | | | | |hs|c| |c|c|c|c ae|c|f|r]; cbn [cstep].
  - (* LSendSettings *)
    destruct (s_local s); intros H; inversion H; subst; same_G_tac HI.
  - (* LGraceful *)
    destruct (g_going s) as [g|] eqn:Eg; [intros H; inversion H; subst; exact HI|].
    destruct (conn_go_away s MAX_ID NO_ERROR) as [s1|n] eqn:Ec; [|discriminate].
    apply conn_go_away_spec in Ec. destruct Ec as (Hm & E1 & _). subst s1. cbn [p_ping set_ga set_ids p_pong p_user].
    destruct (p_ping s) as [pp|] eqn:Epp; [discriminate|].
    intros H. inversion H; subst. cbn [updG fold_left outG].
    destruct HI as [g1 g2 g3 g4 g5 g6 g7 g8 g9 g10 g11 g12].
    assert (Hc : g_close_now s = false).
    { destruct (g_close_now s) eqn:E; [exfalso; apply g2; auto|reflexivity]. }
    constructor; cbn; auto; try discriminate.
    + intros l r d H1. inversion H1; subst. reflexivity.
    + intros _ l r H1. inversion H1; subst. split; [reflexivity|lia].
    + split; [lia|lia].
    + intros l r H1. inversion H1; subst. lia.
    + intros pl b H1. inversion H1; subst. split; [reflexivity|discriminate].
    + intros l r H1. rewrite (g12 Eg). constructor.
  - (* LAbrupt *)
    destruct (ga_go_away_now (set_ga s (g_close_now s) (g_going s) true (g_pending s)) (r_last s, reason, [])) as [s1|n] eqn:E;
      cbn [lift]; [|discriminate].
    intros H. inversion H; subst. cbn [updG fold_left outG].
    eapply (InvG_go_away_now (set_ga s (g_close_now s) (g_going s) true (g_pending s))); [|exact E].
    eapply InvG_same; [|exact HI]. repeat split; reflexivity.
  - (* LTakeUserPings *)
    destruct (p_user s); intros H; inversion H; subst; same_G_tac HI.
  - (* LUserSendPing *)
    destruct (p_user s) as [[| | | |]|]; intros H; inversion H; subst; same_G_tac HI.
  - (* LUserPollPong *)
    destruct (p_user s) as [[| | | |]|]; intros H; inversion H; subst; same_G_tac HI.
  - (* LDropConn *)
    destruct (p_user s); intros H; inversion H; subst; same_G_tac HI.
  - (* LMaybeClose *)
    destruct (ga_go_away_now s (r_last s, NO_ERROR, [])) as [s1|n] eqn:E; cbn [lift]; [|discriminate].
    intros H. inversion H; subst. cbn [updG fold_left]. eapply InvG_go_away_now; [exact HI|exact E].
  - (* LIdle *)
    destruct (negb (is_open s)); [discriminate|].
    destruct ((match c_error s with Some _ => true | None => false end || should_close_on_idle s) && negb hs).
    + destruct (ga_go_away_now s (r_last s, NO_ERROR, [])) as [s1|n] eqn:E; cbn [lift]; [|discriminate].
      intros H. inversion H; subst. cbn [updG fold_left]. eapply InvG_go_away_now; [exact HI|exact E].
    + intros H. inversion H; subst. exact HI.
  - (* LShutdown *)
    destruct (c_state s); try discriminate. destruct c; intros H; inversion H; subst; same_G_tac HI.
  - (* LTakeError *)
    destruct (c_state s); try discriminate.
    destruct (match c_error s with Some (_, r, d) => (d, r) | None => ([], NO_ERROR) end) as [dbg theirs].
    intros H. inversion H; subst. same_G_tac HI.
  - (* LPollGoAway *)
    destruct (negb (is_open s)); [discriminate|].
    destruct (g_pending s) as [[[l r] d]|] eqn:Ep.
    + destruct c.
      * apply (InvG_after_go_away _ h). apply InvG_emit; assumption.
      * intros H. inversion H; subst. exact HI.
      * intros H. inversion H; subst. cbn [updG fold_left]. apply InvG_clear_pending. exact HI.
    + destruct (g_close_now s).
      * destruct (g_going s) as [[gl gr]|].
        -- apply (InvG_after_go_away _ h). exact HI.
        -- intros H. inversion H; subst. exact HI.
      * intros H. inversion H; subst. exact HI.
  - (* LPollPong *)
    destruct (negb (in_poll_ready s)); [discriminate|].
    destruct (p_pong s); [destruct c|]; intros H; inversion H; subst; same_G_tac HI.
  - (* LPollPing *)
    destruct (negb (in_poll_ready s)); [discriminate|].
    destruct (p_ping s) as [[pl [|]]|] eqn:Epp.
    + intros H. inversion H; subst. exact HI.
    + destruct c; intros H; inversion H; subst; try exact HI.
      cbn [updG fold_left outG].
      destruct HI as [g1 g2 g3 g4 g5 g6 g7 g8 g9 g10 g11 g12]. constructor; cbn; auto.
      intros pl' b H1. inversion H1; subst. apply (g7 pl' false Epp).
    + destruct (p_user s) as [[| | | |]|]; try destruct c; intros H; inversion H; subst; try exact HI;
        cbn [updG fold_left outG]; (eapply InvG_same; [|exact HI]; repeat split; try reflexivity; cbn; auto).
  - (* LSettingsAck *)
    destruct (negb (in_poll_ready s)); [discriminate|].
    destruct (s_remote s) as [p|]; [|intros H; inversion H; subst; exact HI].
    destruct c; try (intros H; inversion H; subst; exact HI).
    destruct ae as [r|].
    + apply (InvG_result _ h). cbn [updG fold_left outG]. eapply InvG_same; [|exact HI]. repeat split; reflexivity.
    + intros H. inversion H; subst. same_G_tac HI.
  - (* LSettingsLocal *)
    destruct (negb (in_poll_ready s)); [discriminate|].
    destruct (s_remote s); [discriminate|].
    destruct (s_local s); try destruct c; intros H; inversion H; subst; try exact HI; same_G_tac HI.
  - (* LRecv *)
    destruct (can_recv s) eqn:Ecr; cbn [negb]; [|discriminate].
    apply can_recv_spec in Ecr. destruct Ecr as (Hpr & Hpong & Hping & Hrem & Hloc).
    apply in_poll_ready_spec in Hpr. destruct Hpr as (Hopen & Hpend & Hcn).
    destruct f as [p|ae|ack pl|last reason debug|id raised| |]; cbn [recv_frame].
    + rewrite Hrem. intros H. inversion H; subst. same_G_tac HI.
    + destruct (s_local s) as [q|q|].
      * apply (InvG_result _ h). exact HI.
      * destruct ae as [r|].
        -- apply (InvG_result _ h). exact HI.
        -- intros H. inversion H; subst. same_G_tac HI.
      * apply (InvG_result _ h). exact HI.
    + rewrite Hpong. destruct ack.
      * assert (Huser : forall o1 f1,
                  (let '(u, o) := user_receive_pong (p_user s) pl in SOk (set_ping s (p_ping s) None u) o FNext) = SOk s' o1 f1 ->
                  InvG s' (updG h o1)).
        { intros o1 f1. unfold user_receive_pong.
          destruct (p_user s) as [[| | | |]|]; try destruct (pl =? PING_USER); intros H; inversion H; subst;
            cbn [updG fold_left outG]; (eapply InvG_same; [|exact HI]; repeat split; reflexivity). }
        destruct (p_ping s) as [[ppl sent]|] eqn:Epp; [|apply Huser].
        destruct (ppl =? pl) eqn:Eeq; [|apply Huser].
        destruct (ppl =? PING_SHUTDOWN) eqn:Esh; cbn [negb]; [|discriminate].
        cbn [g_going set_ping r_last].
        destruct (g_going s) as [[gl gr]|] eqn:Eg; [|discriminate].
        destruct (conn_go_away (set_ping s None None (p_user s)) (r_last s) NO_ERROR) as [s1|n] eqn:Ec; cbn [lift]; [|discriminate].
        apply conn_go_away_spec in Ec. destruct Ec as (_ & E1 & Hle). cbn in Hle.
        intros H. inversion H; subst. cbn [updG fold_left outG].
        destruct HI as [g1 g2 g3 g4 g5 g6 g7 g8 g9 g10 g11 g12].
        constructor; cbn; auto; try discriminate.
        -- intros l r d H1. inversion H1; subst. reflexivity.
        -- intros _ l r H1. inversion H1; subst. split; [reflexivity|lia].
        -- split; [lia|lia].
        -- intros l r H1. inversion H1; subst. lia.
        -- intros l r H1. inversion H1; subst.
           apply Forall_le_trans with gl; [apply (g6 gl gr Eg)|apply (g11 gl gr Eg)].
      * intros H. inversion H; subst. same_G_tac HI.
    + destruct (s_max s <? last).
      * apply (InvG_result _ h). exact HI.
      * intros H. inversion H; subst. same_G_tac HI.
    + destruct raised; [|intros H; inversion H; subst; exact HI].
      destruct (r_max s <? id) eqn:E1; [discriminate|]. destruct (id <=? r_last s) eqn:E2; [discriminate|].
      intros H. inversion H; subst. cbn [updG fold_left outG].
      destruct HI as [g1 g2 g3 g4 g5 g6 g7 g8 g9 g10 g11 g12].
      constructor; cbn; auto.
      * split; [lia|lia].
      * intros l r Eg. destruct (g3 Hcn l r Eg) as (_ & B). lia.
      * rewrite g8. lia.
    + intros H. inversion H; subst. exact HI.
    + apply (InvG_result _ h). exact HI.
  - (* LResult *)
    destruct (negb (is_open s)); [discriminate|]. apply (InvG_result _ h). exact HI.
Qed.

(* ---------------------------------------------------------------------------------------------- no assert fires *)

Theorem step_nopanic s h l n : InvG s h -> cstep s l <> SPanic n.
Proof.
  intros HI.
  destruct l as [p| |reason| | | | | |hs|c| |c|c|c|c ae|c|f|r]; cbn [cstep].
  - destruct (s_local s); discriminate.
  - destruct (g_going s) as [g|] eqn:Eg; [discriminate|].
    destruct (conn_go_away s MAX_ID NO_ERROR) as [s1|m] eqn:Ec.
    + apply conn_go_away_spec in Ec. destruct Ec as (_ & E1 & _). subst s1. cbn [p_ping set_ga set_ids].
      destruct (p_ping s) as [[pl b]|] eqn:Epp; [|discriminate].
      destruct (G7 _ _ HI pl b Epp) as (_ & A). contradiction.
    + apply conn_go_away_panic in Ec. destruct Ec as [Hlt|(gl & gr & E & _)]; [|rewrite Eg in E; discriminate].
      pose proof (G4 _ _ HI Eg). lia.
  - destruct (ga_go_away_now (set_ga s (g_close_now s) (g_going s) true (g_pending s)) (r_last s, reason, [])) as [s1|m] eqn:E;
      cbn [lift]; [discriminate|].
    exfalso. eapply (InvG_go_away_now_nopanic (set_ga s (g_close_now s) (g_going s) true (g_pending s)) h); [|exact E].
    eapply InvG_same; [|exact HI]. repeat split; reflexivity.
  - destruct (p_user s); discriminate.
  - destruct (p_user s) as [[| | | |]|]; discriminate.
  - destruct (p_user s) as [[| | | |]|]; discriminate.
  - destruct (p_user s); discriminate.
  - destruct (ga_go_away_now s (r_last s, NO_ERROR, [])) as [s1|m] eqn:E; cbn [lift]; [discriminate|].
    exfalso. eapply InvG_go_away_now_nopanic; [exact HI|exact E].
  - destruct (negb (is_open s)); [discriminate|].
    destruct ((match c_error s with Some _ => true | None => false end || should_close_on_idle s) && negb hs); [|discriminate].
    destruct (ga_go_away_now s (r_last s, NO_ERROR, [])) as [s1|m] eqn:E; cbn [lift]; [discriminate|].
    exfalso. eapply InvG_go_away_now_nopanic; [exact HI|exact E].
  - destruct (c_state s); try discriminate. destruct c; discriminate.
  - destruct (c_state s); try discriminate.
    destruct (match c_error s with Some (_, r, d) => (d, r) | None => ([], NO_ERROR) end). discriminate.
  - destruct (negb (is_open s)); [discriminate|].
    destruct (g_pending s) as [[[l r] d]|] eqn:Ep.
    + destruct c; try discriminate.
      apply (InvG_after_go_away_nopanic _ h _ l).
      * apply InvG_clear_pending. exact HI.
      * reflexivity.
      * cbn. apply (G1 _ _ HI l r d Ep).
    + destruct (g_close_now s); [|discriminate].
      destruct (g_going s) as [[gl gr]|] eqn:Eg; [|discriminate].
      apply (InvG_after_go_away_nopanic _ h _ gl); assumption.
  - destruct (negb (in_poll_ready s)); [discriminate|]. destruct (p_pong s); [destruct c|]; discriminate.
  - destruct (negb (in_poll_ready s)); [discriminate|].
    destruct (p_ping s) as [[pl [|]]|]; try discriminate.
    + destruct c; discriminate.
    + destruct (p_user s) as [[| | | |]|]; try destruct c; discriminate.
  - destruct (negb (in_poll_ready s)); [discriminate|].
    destruct (s_remote s) as [p|]; [|discriminate]. destruct c; try discriminate.
    destruct ae as [r|]; [|discriminate].
    apply (InvG_result_nopanic _ h). eapply InvG_same; [|exact HI]. repeat split; reflexivity.
  - destruct (negb (in_poll_ready s)); [discriminate|]. destruct (s_remote s); [discriminate|].
    destruct (s_local s); try destruct c; discriminate.
  - destruct (can_recv s) eqn:Ecr; cbn [negb]; [|discriminate].
    apply can_recv_spec in Ecr. destruct Ecr as (Hpr & Hpong & Hping & Hrem & Hloc).
    destruct f as [p|ae|ack pl|last reason debug|id raised| |]; cbn [recv_frame].
    + rewrite Hrem. discriminate.
    + destruct (s_local s) as [q|q|].
      * apply (InvG_result_nopanic _ h); exact HI.
      * destruct ae as [r|]; [|discriminate]. apply (InvG_result_nopanic _ h); exact HI.
      * apply (InvG_result_nopanic _ h); exact HI.
    + rewrite Hpong. destruct ack; [|discriminate].
      assert (Huser : (let '(u, o) := user_receive_pong (p_user s) pl in SOk (set_ping s (p_ping s) None u) o FNext) <> SPanic n).
      { destruct (user_receive_pong (p_user s) pl). discriminate. }
      destruct (p_ping s) as [[ppl sent]|] eqn:Epp; [|exact Huser].
      destruct (ppl =? pl); [|exact Huser].
      destruct (G7 _ _ HI ppl sent Epp) as (A & Bg). subst ppl. rewrite N.eqb_refl. cbn [negb g_going set_ping r_last].
      destruct (g_going s) as [[gl gr]|] eqn:Eg; [|contradiction].
      destruct (conn_go_away (set_ping s None None (p_user s)) (r_last s) NO_ERROR) as [s1|m] eqn:Ec; cbn [lift]; [discriminate|].
      apply conn_go_away_panic in Ec. cbn in Ec. destruct Ec as [Hlt|(gl' & gr' & E & Hlt)].
      * pose proof (G5 _ _ HI). lia.
      * pose proof (G6 _ _ HI gl' gr' E). lia.
    + destruct (s_max s <? last); [|discriminate]. apply (InvG_result_nopanic _ h); exact HI.
    + destruct raised; [|discriminate]. destruct (r_max s <? id); [discriminate|]. destruct (id <=? r_last s); discriminate.
    + discriminate.
    + apply (InvG_result_nopanic _ h); exact HI.
  - destruct (negb (is_open s)); [discriminate|]. apply (InvG_result_nopanic _ h); exact HI.
Qed.

(* ==============================================================================================
   Frame properties of a step: which labels can touch which part of the state / produce which outputs *)

(* the connection can no longer reach poll_ready / poll_next: stable *)
Definition dead (s : st) : Prop := g_close_now s = true \/ c_state s <> COpen.

Lemma dead_not_ready s : dead s -> in_poll_ready s = false.
Proof.
  unfold dead, in_poll_ready, is_open. intros [H|H].
  - rewrite H. destruct (c_state s); cbn; try reflexivity. destruct (g_pending s); reflexivity.
  - destruct (c_state s); cbn; try reflexivity. contradiction.
Qed.

Definition relS (o : out) : bool :=
  match o with OFrame WSettingsAck | OApplyRemote _ _ | OApplyRemoteFailed => true | _ => false end.
Definition relP (o : out) : bool :=
  match o with OFrame (WPing true _) | OLostPong _ => true | _ => false end.
Definition relL (o : out) : bool :=
  match o with OFrame (WSettings _) | OApplyLocal _ => true | _ => false end.
Definition relE (o : out) : bool :=
  match o with OStreamsGoAway _ _ _ => true | _ => false end.
Definition relU (o : out) : bool :=
  match o with OApi APingOk | OApi APong | OFrame (WPing false _) | OUserAck => true | _ => false end.

Definition grpS (l : label) : bool := match l with LSettingsAck _ _ | LRecv (InSettings _) => true | _ => false end.
Definition grpP (l : label) : bool := match l with LPollPong _ | LRecv (InPing false _) => true | _ => false end.
Definition grpL (l : label) : bool :=
  match l with LSendSettings _ | LSettingsLocal _ | LRecv (InSettingsAck _) => true | _ => false end.
Definition grpE (l : label) : bool := match l with LTakeError | LRecv (InGoAway _ _ _) => true | _ => false end.
Definition grpU (l : label) : bool :=
  match l with
  | LTakeUserPings | LUserSendPing | LUserPollPong | LDropConn | LPollPing _ | LRecv (InPing _ _) => true
  | _ => false
  end.

Definition none_of (r : out -> bool) (o : list out) : Prop := forallb (fun e => negb (r e)) o = true.

Lemma none_of_app r o x : none_of r o -> none_of r x -> none_of r (o ++ x).
Proof. unfold none_of. intros A B. rewrite forallb_app, A, B. reflexivity. Qed.

Lemma neutral_none_of r x :
  (forall e, neutral e = true -> r e = false) -> forallb neutral x = true -> none_of r x.
Proof.
  intros Hr. unfold none_of. induction x as [|e x IH]; cbn [forallb]; [reflexivity|].
  intros H. apply andb_true_iff in H. destruct H as (A & B). rewrite (Hr e A), (IH B). reflexivity.
Qed.

Lemma neutral_relS e : neutral e = true -> relS e = false. Proof. destruct e; cbn; try discriminate; reflexivity. Qed.
Lemma neutral_relP e : neutral e = true -> relP e = false. Proof. destruct e; cbn; try discriminate; reflexivity. Qed.
Lemma neutral_relL e : neutral e = true -> relL e = false. Proof. destruct e; cbn; try discriminate; reflexivity. Qed.
Lemma neutral_relE e : neutral e = true -> relE e = false. Proof. destruct e; cbn; try discriminate; reflexivity. Qed.
Lemma neutral_relU e : neutral e = true -> relU e = false.
Proof. destruct e as [| | | | | | | | | | | | | | |r|]; cbn; try discriminate; try reflexivity. Qed.

Definition frame (l : label) (s s' : st) (o : list out) : Prop :=
  (grpS l = false -> s_remote s' = s_remote s /\ none_of relS o) /\
  (grpP l = false -> p_pong s' = p_pong s /\ none_of relP o) /\
  (grpL l = false -> s_local s' = s_local s /\ none_of relL o) /\
  (grpE l = false -> c_error s' = c_error s /\ s_max s' = s_max s /\ none_of relE o) /\
  (grpU l = false -> p_user s' = p_user s /\ none_of relU o) /\
  (dead s -> dead s').

Lemma ga_now_fields s f s' :
  ga_go_away_now s f = inl s' ->
  s_local s' = s_local s /\ s_remote s' = s_remote s /\ s_initial s' = s_initial s /\
  p_ping s' = p_ping s /\ p_pong s' = p_pong s /\ p_user s' = p_user s /\
  c_state s' = c_state s /\ c_error s' = c_error s /\ r_last s' = r_last s /\ r_max s' = r_max s /\ s_max s' = s_max s /\
  g_close_now s' = true /\ g_user s' = g_user s.
Proof.
  destruct f as [[l r] d]. intros H. apply ga_go_away_now_spec in H.
  destruct H as [(E & _)|(E & _)]; subst s'; cbn; repeat split; reflexivity.
Qed.

Lemma result_state_fields s s' :
  result_state s s' ->
  s_local s' = s_local s /\ s_remote s' = s_remote s /\ s_initial s' = s_initial s /\
  p_ping s' = p_ping s /\ p_pong s' = p_pong s /\ p_user s' = p_user s /\
  c_error s' = c_error s /\ r_last s' = r_last s /\ r_max s' = r_max s /\ s_max s' = s_max s /\
  (dead s -> dead s').
Proof.
  intros [E|[(c & Hc & E)|(reason & debug & E)]].
  - subst. repeat split; auto.
  - subst. cbn. repeat split; auto. intros _. right. cbn. exact Hc.
  - apply ga_now_fields in E. destruct E as (A1 & A2 & A3 & A4 & A5 & A6 & A7 & A8 & A9 & A10 & A11 & A12 & A13).
    repeat split; auto. intros _. left. exact A12.
Qed.

(* after handle_go_away the connection is dead *)
Lemma handle_go_away_dead s o reason debug i s' o' fl :
  handle_go_away s o reason debug i = SOk s' o' fl -> dead s'.
Proof.
  unfold handle_go_away.
  destruct (match g_going s with Some (_, r) => r =? reason | None => false end).
  - intros H. inversion H; subst. right. cbn. discriminate.
  - destruct (ga_go_away_now s (r_last s, reason, debug)) as [s1|n] eqn:E; cbn [lift]; [|discriminate].
    intros H. inversion H; subst. apply ga_now_fields in E. left. apply E.
Qed.

Lemma frame_of_result l s0 s s' o o' r fl :
  frame l s0 s o -> handle_result s o r = SOk s' o' fl -> frame l s0 s' o'.
Proof.
  intros (FS & FP & FL & FE & FU & FD) H. apply handle_result_spec in H. destruct H as ((x & Eo & Hx) & R). subst o'.
  apply result_state_fields in R. destruct R as (A1 & A2 & A3 & A4 & A5 & A6 & A7 & A8 & A9 & A10 & A11).
  repeat split.
  - rewrite A2. apply FS. assumption.
  - apply none_of_app; [apply FS; assumption|apply neutral_none_of; [exact neutral_relS|exact Hx]].
  - rewrite A5. apply FP. assumption.
  - apply none_of_app; [apply FP; assumption|apply neutral_none_of; [exact neutral_relP|exact Hx]].
  - rewrite A1. apply FL. assumption.
  - apply none_of_app; [apply FL; assumption|apply neutral_none_of; [exact neutral_relL|exact Hx]].
  - rewrite A7. apply FE. assumption.
  - rewrite A10. apply FE. assumption.
  - apply none_of_app; [apply FE; assumption|apply neutral_none_of; [exact neutral_relE|exact Hx]].
  - rewrite A6. apply FU. assumption.
  - apply none_of_app; [apply FU; assumption|apply neutral_none_of; [exact neutral_relU|exact Hx]].
  - auto.
Qed.

Ltac frame_simple :=
  unfold frame, none_of, dead; cbn;
  repeat split; try reflexivity; try discriminate; try (intros; discriminate); auto; try congruence;
  try (intros [Hd|Hd]; [left|right]; auto; discriminate).

Lemma frame_refl l s : frame l s s [].
Proof. frame_simple. Qed.

Lemma frame_after_go_away l s0 s o reason s' o' fl :
  frame l s0 s o -> after_go_away s o reason = SOk s' o' fl -> frame l s0 s' o'.
Proof.
  intros F. unfold after_go_away. destruct (should_close_now s).
  - destruct (g_user s); apply frame_of_result; exact F.
  - destruct (reason =? NO_ERROR); [|discriminate]. intros H. inversion H; subst. exact F.
Qed.

Lemma frame_go_away_now l s f s' o :
  ga_go_away_now s f = inl s' -> none_of relS o -> none_of relP o -> none_of relL o -> none_of relE o -> none_of relU o ->
  frame l s s' o.
Proof.
  intros H. apply ga_now_fields in H. destruct H as (A1 & A2 & A3 & A4 & A5 & A6 & A7 & A8 & A9 & A10 & A11 & A12 & A13).
  intros. unfold frame. repeat split; auto. intros _. left. exact A12.
Qed.

Theorem step_frame s l s' o fl : cstep s l = SOk s' o fl -> frame l s s' o.
Proof.
  destruct l as [p| |reason| | | | | |hs|c| |c|c|c|c ae|c|f|r]; cbn [cstep].
  - destruct (s_local s); intros H; inversion H; subst; frame_simple.
  - destruct (g_going s) as [g|] eqn:Eg; [intros H; inversion H; subst; apply frame_refl|].
    destruct (conn_go_away s MAX_ID NO_ERROR) as [s1|n] eqn:Ec; [|discriminate].
    apply conn_go_away_spec in Ec. destruct Ec as (_ & E1 & _). subst s1. cbn [p_ping set_ga set_ids p_pong p_user].
    destruct (p_ping s); [discriminate|]. intros H. inversion H; subst. frame_simple.
  - destruct (ga_go_away_now (set_ga s (g_close_now s) (g_going s) true (g_pending s)) (r_last s, reason, [])) as [s1|n] eqn:E;
      cbn [lift]; [|discriminate].
    intros H. inversion H; subst. apply ga_now_fields in E. cbn in E.
    destruct E as (A1 & A2 & A3 & A4 & A5 & A6 & A7 & A8 & A9 & A10 & A11 & A12 & A13).
    unfold frame, none_of. cbn. repeat split; auto. intros _. left. exact A12.
  - destruct (p_user s); intros H; inversion H; subst; frame_simple.
  - destruct (p_user s) as [[| | | |]|]; intros H; inversion H; subst; frame_simple.
  - destruct (p_user s) as [[| | | |]|]; intros H; inversion H; subst; frame_simple.
  - destruct (p_user s); intros H; inversion H; subst; frame_simple.
  - destruct (ga_go_away_now s (r_last s, NO_ERROR, [])) as [s1|n] eqn:E; cbn [lift]; [|discriminate].
    intros H. inversion H; subst. eapply frame_go_away_now; [exact E| | | | |]; reflexivity.
  - destruct (negb (is_open s)); [discriminate|].
    destruct ((match c_error s with Some _ => true | None => false end || should_close_on_idle s) && negb hs).
    + destruct (ga_go_away_now s (r_last s, NO_ERROR, [])) as [s1|n] eqn:E; cbn [lift]; [|discriminate].
      intros H. inversion H; subst. eapply frame_go_away_now; [exact E| | | | |]; reflexivity.
    + intros H. inversion H; subst. apply frame_refl.
  - destruct (c_state s) eqn:Ecs; try discriminate. destruct c; intros H; inversion H; subst; frame_simple.
    all: try (rewrite Ecs; discriminate).
  - destruct (c_state s) eqn:Ecs; try discriminate.
    destruct (match c_error s with Some (_, r, d) => (d, r) | None => ([], NO_ERROR) end) as [dbg theirs].
    intros H. inversion H; subst. frame_simple.
  - destruct (negb (is_open s)); [discriminate|].
    destruct (g_pending s) as [[[l r] d]|] eqn:Ep.
    + destruct c.
      * apply frame_after_go_away. frame_simple.
      * intros H. inversion H; subst. apply frame_refl.
      * intros H. inversion H; subst. frame_simple.
    + destruct (g_close_now s).
      * destruct (g_going s) as [[gl gr]|].
        -- apply frame_after_go_away. apply frame_refl.
        -- intros H. inversion H; subst. apply frame_refl.
      * intros H. inversion H; subst. apply frame_refl.
  - destruct (negb (in_poll_ready s)); [discriminate|].
    destruct (p_pong s); [destruct c|]; intros H; inversion H; subst; frame_simple.
  - destruct (negb (in_poll_ready s)); [discriminate|].
    destruct (p_ping s) as [[pl [|]]|] eqn:Epp.
    + intros H. inversion H; subst. apply frame_refl.
    + destruct c; intros H; inversion H; subst; frame_simple.
    + destruct (p_user s) as [[| | | |]|]; try destruct c; intros H; inversion H; subst; frame_simple.
  - destruct (negb (in_poll_ready s)); [discriminate|].
    destruct (s_remote s) as [p|]; [|intros H; inversion H; subst; apply frame_refl].
    destruct c; try (intros H; inversion H; subst; apply frame_refl).
    destruct ae as [r|].
    + apply frame_of_result. frame_simple.
    + intros H. inversion H; subst. frame_simple.
  - destruct (negb (in_poll_ready s)); [discriminate|].
    destruct (s_remote s) eqn:Er; [discriminate|].
    destruct (s_local s); try destruct c; intros H; inversion H; subst; frame_simple.
  - destruct (can_recv s) eqn:Ecr; cbn [negb]; [|discriminate].
    destruct f as [p|ae|ack pl|last reason debug|id raised| |]; cbn [recv_frame].
    + destruct (s_remote s) eqn:Er; [discriminate|]. intros H. inversion H; subst. frame_simple.
    + destruct (s_local s) as [q|q|].
      * apply frame_of_result. apply frame_refl.
      * destruct ae as [r|].
        -- apply frame_of_result. frame_simple.
        -- intros H. inversion H; subst. frame_simple.
      * apply frame_of_result. apply frame_refl.
    + destruct (p_pong s) eqn:Epong; [discriminate|]. destruct ack.
      * assert (Huser : forall o1 f1,
                  (let '(u, o) := user_receive_pong (p_user s) pl in SOk (set_ping s (p_ping s) None u) o FNext) = SOk s' o1 f1 ->
                  frame (LRecv (InPing true pl)) s s' o1).
        { intros o1 f1. unfold user_receive_pong.
          destruct (p_user s) as [[| | | |]|]; try destruct (pl =? PING_USER); intros H; inversion H; subst; frame_simple. }
        destruct (p_ping s) as [[ppl sent]|] eqn:Epp; [|apply Huser].
        destruct (ppl =? pl) eqn:Eeq; [|apply Huser].
        destruct (negb (ppl =? PING_SHUTDOWN)); [discriminate|].
        cbn [g_going set_ping r_last].
        destruct (g_going s) as [[gl gr]|] eqn:Eg; [|discriminate].
        destruct (conn_go_away (set_ping s None None (p_user s)) (r_last s) NO_ERROR) as [s1|n] eqn:Ec; cbn [lift]; [|discriminate].
        apply conn_go_away_spec in Ec. destruct Ec as (_ & E1 & _).
        intros H. inversion H; subst. frame_simple.
      * intros H. inversion H; subst. frame_simple.
    + destruct (s_max s <? last).
      * apply frame_of_result. apply frame_refl.
      * intros H. inversion H; subst. frame_simple.
    + destruct raised; [|intros H; inversion H; subst; apply frame_refl].
      destruct (r_max s <? id); [discriminate|]. destruct (id <=? r_last s); [discriminate|].
      intros H. inversion H; subst. frame_simple.
    + intros H. inversion H; subst. apply frame_refl.
    + apply frame_of_result. frame_simple.
  - destruct (negb (is_open s)); [discriminate|]. apply frame_of_result. apply frame_refl.
Qed.

Definition opt_list {A} (o : option A) : list A := match o with Some x => [x] | None => [] end.

Lemma fold_none_of {T} (f : T -> out -> T) (r : out -> bool) :
  (forall h e, r e = false -> f h e = h) -> forall o h, none_of r o -> fold_left f o h = h.
Proof.
  intros Hf. unfold none_of. induction o as [|e o IH]; intros h; cbn [fold_left forallb]; [reflexivity|].
  intros H. apply andb_true_iff in H. destruct H as (A & B). apply negb_true_iff in A.
  rewrite (Hf h e A). apply IH. exact B.
Qed.

(* ==============================================================================================
   C14: SETTINGS received / acknowledged / applied *)

Record hS := mkHS {
  hs_taken : list sparams;       (* non-ACK SETTINGS frames taken from the codec, newest first *)
  hs_applied : list sparams;     (* OApplyRemote: parameters handed to streams.apply_remote_settings + codec, newest first *)
  hs_acks : N;                   (* SETTINGS ACK frames emitted *)
  hs_fail : N                    (* streams.apply_remote_settings failures *)
}.

Definition labS (h : hS) (l : label) : hS :=
  match l with
  | LRecv (InSettings p) => mkHS (p :: hs_taken h) (hs_applied h) (hs_acks h) (hs_fail h)
  | _ => h
  end.

Definition outS (h : hS) (o : out) : hS :=
  match o with
  | OFrame WSettingsAck => mkHS (hs_taken h) (hs_applied h) (hs_acks h + 1) (hs_fail h)
  | OApplyRemote p _ => mkHS (hs_taken h) (p :: hs_applied h) (hs_acks h) (hs_fail h)
  | OApplyRemoteFailed => mkHS (hs_taken h) (hs_applied h) (hs_acks h) (hs_fail h + 1)
  | _ => h
  end.

Definition updS (h : hS) (l : label) (o : list out) : hS := fold_left outS o (labS h l).
Definition hS0 : hS := mkHS [] [] 0 0.

Definition InvS (s : st) (h : hS) : Prop :=
  (hs_fail h = 0 /\ hs_taken h = opt_list (s_remote s) ++ hs_applied h /\ hs_acks h = N.of_nat (length (hs_applied h))) \/
  (hs_fail h = 1 /\ dead s /\
   exists p, s_remote s = Some p /\ hs_taken h = p :: hs_applied h /\ hs_acks h = N.of_nat (length (hs_applied h)) + 1).

Lemma InvS_init p0 : InvS (init p0) hS0.
Proof. left. cbn. auto. Qed.

Lemma outS_irrelevant h e : relS e = false -> outS h e = h.
Proof. destruct e as [[| | |]| | | | | | | | | | | | | | | |]; cbn; try discriminate; reflexivity. Qed.

Lemma labS_irrelevant h l : grpS l = false -> labS h l = h.
Proof. destruct l as [| | | | | | | | | | | | | | | |[| | | | | |]|]; cbn; try discriminate; reflexivity. Qed.

Theorem stepS s h l s' o fl : InvS s h -> cstep s l = SOk s' o fl -> InvS s' (updS h l o).
Proof.
  intros HI H. destruct (grpS l) eqn:Eg.
  - destruct l as [| | | | | | | | | | | | | |c ae| |[p| | | | | |]|]; try discriminate; cbn [cstep] in H.
    + (* LSettingsAck *)
      destruct (in_poll_ready s) eqn:Epr; cbn [negb] in H; [|discriminate].
      assert (Hnd : ~ dead s). { intros D. apply dead_not_ready in D. congruence. }
      destruct HI as [(F0 & T & A)|(_ & D & _)]; [|contradiction].
      destruct (s_remote s) as [p|] eqn:Er.
      * destruct c.
        -- destruct ae as [r|].
           ++ cbn [handle_result] in H. pose proof (handle_go_away_dead _ _ _ _ _ _ _ _ H) as Hd.
              apply handle_go_away_spec in H. destruct H as ((x & Eo & Hx) & R & _). subst o.
              apply result_state_fields in R. destruct R as (_ & A2 & _). cbn in A2.
              right. unfold updS. cbn [labS]. rewrite (fold_neutral outS); [|intros; apply outS_irrelevant; apply neutral_relS; assumption|exact Hx].
              cbn. rewrite F0. split; [reflexivity|]. split; [exact Hd|]. exists p. split; [exact A2|].
              split; [rewrite T; reflexivity|rewrite A; reflexivity].
           ++ inversion H; subst. left. cbn. split; [exact F0|]. split; [rewrite T; reflexivity|]. rewrite A. lia.
        -- inversion H; subst. left. cbn. rewrite Er. auto.
        -- inversion H; subst. left. cbn. rewrite Er. auto.
      * inversion H; subst. left. cbn. rewrite Er. auto.
    + (* LRecv (InSettings p) *)
      destruct (can_recv s) eqn:Ecr; cbn [negb] in H; [|discriminate].
      apply can_recv_spec in Ecr. destruct Ecr as (Hpr & _ & _ & Hrem & _).
      assert (Hnd : ~ dead s). { intros D. apply dead_not_ready in D. congruence. }
      destruct HI as [(F0 & T & A)|(_ & D & _)]; [|contradiction].
      cbn [recv_frame] in H. rewrite Hrem in H. inversion H; subst. left. cbn. rewrite Hrem in T. cbn in T.
      split; [exact F0|]. split; [rewrite T; reflexivity|exact A].
  - pose proof (step_frame _ _ _ _ _ H) as (FS & _ & _ & _ & _ & FD). destruct (FS Eg) as (Er & Hn).
    unfold updS. rewrite labS_irrelevant by exact Eg. rewrite (fold_none_of outS relS outS_irrelevant) by exact Hn.
    destruct HI as [(F0 & T & A)|(F1 & D & p & Ep & T & A)].
    + left. rewrite Er. auto.
    + right. split; [exact F1|]. split; [auto|]. exists p. rewrite Er. auto.
Qed.

(* ==============================================================================================
   C14: PING received / answered *)

Record hP := mkHP {
  hp_taken : list N;                 (* payloads of the non-ACK PINGs taken from the codec, newest first *)
  hp_answered : list (N * bool)      (* (payload, true) for every PONG emitted, (payload, false) for a PONG lost to an I/O error *)
}.

Definition labP (h : hP) (l : label) : hP :=
  match l with LRecv (InPing false pl) => mkHP (pl :: hp_taken h) (hp_answered h) | _ => h end.

Definition outP (h : hP) (o : out) : hP :=
  match o with
  | OFrame (WPing true pl) => mkHP (hp_taken h) ((pl, true) :: hp_answered h)
  | OLostPong pl => mkHP (hp_taken h) ((pl, false) :: hp_answered h)
  | _ => h
  end.

Definition updP (h : hP) (l : label) (o : list out) : hP := fold_left outP o (labP h l).
Definition hP0 : hP := mkHP [] [].

Definition InvP (s : st) (h : hP) : Prop := hp_taken h = opt_list (p_pong s) ++ map fst (hp_answered h).

Lemma InvP_init p0 : InvP (init p0) hP0.
Proof. reflexivity. Qed.

Lemma outP_irrelevant h e : relP e = false -> outP h e = h.
Proof. destruct e as [[| |[|] |]| | | | | | | | | | | | | | | |]; cbn; try discriminate; reflexivity. Qed.

Lemma labP_irrelevant h l : grpP l = false -> labP h l = h.
Proof. destruct l as [| | | | | | | | | | | | | | | |[| |[|]| | | |]|]; cbn; try discriminate; reflexivity. Qed.

Theorem stepP s h l s' o fl : InvP s h -> cstep s l = SOk s' o fl -> InvP s' (updP h l o).
Proof.
  unfold InvP. intros HI H. destruct (grpP l) eqn:Eg.
  - destruct l as [| | | | | | | | | | | |c| | | |[| |[|] pl| | | |]|]; try discriminate; cbn [cstep] in H.
    + destruct (negb (in_poll_ready s)); [discriminate|].
      destruct (p_pong s) as [pl|] eqn:Ep; [destruct c|]; inversion H; subst; cbn; rewrite ?Ep; rewrite HI; reflexivity.
    + destruct (can_recv s) eqn:Ecr; cbn [negb] in H; [|discriminate].
      apply can_recv_spec in Ecr. destruct Ecr as (_ & Hpong & _).
      cbn [recv_frame] in H. rewrite Hpong in H. inversion H; subst. cbn. rewrite HI, Hpong. reflexivity.
  - pose proof (step_frame _ _ _ _ _ H) as (_ & FP & _). destruct (FP Eg) as (Er & Hn).
    unfold updP. rewrite labP_irrelevant by exact Eg. rewrite (fold_none_of outP relP outP_irrelevant) by exact Hn.
    rewrite Er. exact HI.
Qed.

(* ==============================================================================================
   C14: local SETTINGS sent / applied *)

Record hL := mkHL {
  hl_sent : list sparams;        (* SETTINGS frames sent (the handshake's first), newest first *)
  hl_applied : list sparams      (* OApplyLocal: applied to the receive side of codec and streams, newest first *)
}.

Definition outL (h : hL) (o : out) : hL :=
  match o with
  | OFrame (WSettings p) => mkHL (p :: hl_sent h) (hl_applied h)
  | OApplyLocal p => mkHL (hl_sent h) (p :: hl_applied h)
  | _ => h
  end.

Definition updL (h : hL) (o : list out) : hL := fold_left outL o h.
Definition hL0 (p0 : sparams) : hL := mkHL [p0] [].

Definition InvL (s : st) (h : hL) : Prop :=
  match s_local s with
  | LWaitingAck p => hl_sent h = p :: hl_applied h
  | _ => hl_sent h = hl_applied h
  end.

Lemma InvL_init p0 : InvL (init p0) (hL0 p0).
Proof. reflexivity. Qed.

Lemma outL_irrelevant h e : relL e = false -> outL h e = h.
Proof. destruct e as [[| | |]| | | | | | | | | | | | | | | |]; cbn; try discriminate; reflexivity. Qed.

Lemma InvL_result s h o r s' o' fl :
  InvL s (updL h o) -> handle_result s o r = SOk s' o' fl -> InvL s' (updL h o').
Proof.
  intros HI H. apply handle_result_spec in H. destruct H as ((x & Eo & Hx) & R). subst o'.
  apply result_state_fields in R. destruct R as (A1 & _).
  unfold updL. rewrite (fold_neutral outL); [|intros; apply outL_irrelevant; apply neutral_relL; assumption|exact Hx].
  unfold InvL. rewrite A1. exact HI.
Qed.

Theorem stepL s h l s' o fl : InvL s h -> cstep s l = SOk s' o fl -> InvL s' (updL h o).
Proof.
  intros HI H. destruct (grpL l) eqn:Eg.
  - destruct l as [p| | | | | | | | | | | | | | |c|[|ae| | | | |]|]; try discriminate; cbn [cstep] in H.
    + unfold InvL in *. destruct (s_local s) eqn:El; inversion H; subst; cbn; rewrite ?El; auto.
    + destruct (negb (in_poll_ready s)); [discriminate|]. destruct (s_remote s); [discriminate|].
      unfold InvL in *. destruct (s_local s) as [p|p|] eqn:El; try destruct c; inversion H; subst; cbn; rewrite ?El; auto.
      rewrite HI. reflexivity.
    + destruct (negb (can_recv s)); [discriminate|]. cbn [recv_frame] in H.
      destruct (s_local s) as [p|p|] eqn:El.
      * refine (InvL_result _ h [] _ _ _ _ _ H). exact HI.
      * destruct ae as [r|].
        -- refine (InvL_result _ h [OApplyLocalFailed] _ _ _ _ _ H). exact HI.
        -- inversion H; subst. unfold InvL in *. rewrite El in HI. cbn. rewrite HI. reflexivity.
      * refine (InvL_result _ h [] _ _ _ _ _ H). exact HI.
  - pose proof (step_frame _ _ _ _ _ H) as (_ & _ & FL & _). destruct (FL Eg) as (Er & Hn).
    unfold updL. rewrite (fold_none_of outL relL outL_irrelevant) by exact Hn.
    unfold InvL in *. rewrite Er. exact HI.
Qed.

(* ==============================================================================================
   C15, receiving side: the peer's GOAWAY frames *)

Definition outE (h : list gframe) (o : out) : list gframe :=
  match o with OStreamsGoAway l r d => (l, r, d) :: h | _ => h end.

Definition updE (h : list gframe) (o : list out) : list gframe := fold_left outE o h.

Definition head_last (h : list gframe) : N := match h with (l, _, _) :: _ => l | [] => MAX_ID end.

Fixpoint descE (h : list gframe) : Prop :=
  match h with
  | [] => True
  | (l, _, _) :: t => l <= head_last t /\ descE t
  end.

Definition InvE (s : st) (h : list gframe) : Prop :=
  (forall l r d, c_error s = Some (l, r, d) -> hd_error h = Some (l, r, d)) /\ s_max s = head_last h /\ descE h.

Lemma InvE_init p0 : InvE (init p0) [].
Proof. unfold InvE. cbn. repeat split; auto; intros; discriminate. Qed.

Lemma outE_irrelevant h e : relE e = false -> outE h e = h.
Proof. destruct e; cbn; try discriminate; reflexivity. Qed.

Lemma InvE_result s h o r s' o' fl :
  InvE s (updE h o) -> handle_result s o r = SOk s' o' fl -> InvE s' (updE h o').
Proof.
  intros HI H. apply handle_result_spec in H. destruct H as ((x & Eo & Hx) & R). subst o'.
  apply result_state_fields in R. destruct R as (_ & _ & _ & _ & _ & _ & A7 & _ & _ & A10 & _).
  unfold updE. rewrite (fold_neutral outE); [|intros; apply outE_irrelevant; apply neutral_relE; assumption|exact Hx].
  unfold InvE. rewrite A7, A10. exact HI.
Qed.

Theorem stepE s h l s' o fl : InvE s h -> cstep s l = SOk s' o fl -> InvE s' (updE h o).
Proof.
  intros HI H. destruct (grpE l) eqn:Eg.
  - destruct l as [| | | | | | | | | | | | | | | |[| | |last reason debug| | |]|]; try discriminate; cbn [cstep] in H.
    + destruct (c_state s); try discriminate.
      destruct (match c_error s with Some (_, r, d) => (d, r) | None => ([], NO_ERROR) end) as [dbg theirs].
      inversion H; subst. destruct HI as (A & B & C). unfold InvE. cbn. repeat split; auto. intros; discriminate.
    + destruct (negb (can_recv s)); [discriminate|]. cbn [recv_frame] in H.
      destruct (s_max s <? last) eqn:E.
      * refine (InvE_result _ h [] _ _ _ _ _ H). exact HI.
      * inversion H; subst. destruct HI as (A & B & C). unfold InvE. cbn. repeat split; auto.
        all: try (intros l r d H1; inversion H1; subst; reflexivity).
        rewrite <- B. lia.
  - pose proof (step_frame _ _ _ _ _ H) as (_ & _ & _ & FE & _). destruct (FE Eg) as (E1 & E2 & Hn).
    unfold updE. rewrite (fold_none_of outE relE outE_irrelevant) by exact Hn.
    unfold InvE in *. rewrite E1, E2. exact HI.
Qed.

(* ==============================================================================================
   C14: user pings *)

Record hU := mkHU {
  hu_ok : N;        (* successful send_ping calls *)
  hu_ping : N;      (* PING(USER) frames emitted *)
  hu_ack : N;       (* acknowledgements of a user ping accepted (PENDING_PONG -> RECEIVED_PONG) *)
  hu_pong : N       (* pongs delivered by poll_pong *)
}.

Definition outU (h : hU) (o : out) : hU :=
  match o with
  | OApi APingOk => mkHU (hu_ok h + 1) (hu_ping h) (hu_ack h) (hu_pong h)
  | OFrame (WPing false pl) => if pl =? PING_USER then mkHU (hu_ok h) (hu_ping h + 1) (hu_ack h) (hu_pong h) else h
  | OUserAck => mkHU (hu_ok h) (hu_ping h) (hu_ack h + 1) (hu_pong h)
  | OApi APong => mkHU (hu_ok h) (hu_ping h) (hu_ack h) (hu_pong h + 1)
  | _ => h
  end.

Definition updU (h : hU) (o : list out) : hU := fold_left outU o h.
Definition hU0 : hU := mkHU 0 0 0 0.

Definition InvU (s : st) (h : hU) : Prop :=
  match p_user s with
  | None => hu_ok h = 0 /\ hu_ping h = 0 /\ hu_ack h = 0 /\ hu_pong h = 0
  | Some UEmpty => hu_ok h = hu_ping h /\ hu_ping h = hu_ack h /\ hu_ack h = hu_pong h
  | Some UPendingPing => hu_ok h = hu_ping h + 1 /\ hu_ping h = hu_ack h /\ hu_ack h = hu_pong h
  | Some UPendingPong => hu_ok h = hu_ping h /\ hu_ping h = hu_ack h + 1 /\ hu_ack h = hu_pong h
  | Some UReceivedPong => hu_ok h = hu_ping h /\ hu_ping h = hu_ack h /\ hu_ack h = hu_pong h + 1
  | Some UClosed => hu_pong h <= hu_ack h /\ hu_ack h <= hu_ping h /\ hu_ping h <= hu_ok h /\ hu_ok h <= hu_pong h + 1
  end.

Lemma InvU_init p0 : InvU (init p0) hU0.
Proof. cbn. auto. Qed.

Lemma outU_irrelevant h e : relU e = false -> outU h e = h.
Proof.
  destruct e as [[| |[|] |]| | | | | | | | | | | | | | |[| | | | | | |]|]; cbn; try discriminate; reflexivity.
Qed.

Theorem stepU s hg h l s' o fl : InvG s hg -> InvU s h -> cstep s l = SOk s' o fl -> InvU s' (updU h o).
Proof.
  intros HG HI H. destruct (grpU l) eqn:Eg.
  - unfold InvU in *.
    destruct l as [| | | | | | | | | | | | |c| | |[| |ack pl| | | |]|]; try discriminate; cbn [cstep] in H.
    + destruct (p_user s) eqn:Eu; inversion H; subst; cbn; rewrite ?Eu; auto; try lia.
    + destruct (p_user s) as [[| | | |]|] eqn:Eu; inversion H; subst; cbn; rewrite ?Eu; auto; try lia.
    + destruct (p_user s) as [[| | | |]|] eqn:Eu; inversion H; subst; cbn; rewrite ?Eu; auto; try lia.
    + destruct (p_user s) as [[| | | |]|] eqn:Eu; inversion H; subst; cbn; rewrite ?Eu; auto; try lia.
    + destruct (negb (in_poll_ready s)); [discriminate|].
      destruct (p_ping s) as [[pl [|]]|] eqn:Epp.
      * inversion H; subst. exact HI.
      * destruct (G7 _ _ HG pl false Epp) as (A & _). subst pl.
        destruct c; inversion H; subst; cbn; auto; try (rewrite shutdown_ne_user; exact HI).
      * destruct (p_user s) as [[| | | |]|] eqn:Eu; try destruct c; inversion H; subst; cbn; rewrite ?Eu; auto; try (rewrite N.eqb_refl; cbn; lia).
    + destruct (negb (can_recv s)); [discriminate|]. cbn [recv_frame] in H.
      destruct (p_pong s); [discriminate|]. destruct ack; [|inversion H; subst; exact HI].
      assert (Huser : forall o1 f1,
                (let '(u, o) := user_receive_pong (p_user s) pl in SOk (set_ping s (p_ping s) None u) o FNext) = SOk s' o1 f1 ->
                match p_user s' with
                | None => hu_ok (updU h o1) = 0 /\ hu_ping (updU h o1) = 0 /\ hu_ack (updU h o1) = 0 /\ hu_pong (updU h o1) = 0
                | Some UEmpty => hu_ok (updU h o1) = hu_ping (updU h o1) /\ hu_ping (updU h o1) = hu_ack (updU h o1) /\ hu_ack (updU h o1) = hu_pong (updU h o1)
                | Some UPendingPing => hu_ok (updU h o1) = hu_ping (updU h o1) + 1 /\ hu_ping (updU h o1) = hu_ack (updU h o1) /\ hu_ack (updU h o1) = hu_pong (updU h o1)
                | Some UPendingPong => hu_ok (updU h o1) = hu_ping (updU h o1) /\ hu_ping (updU h o1) = hu_ack (updU h o1) + 1 /\ hu_ack (updU h o1) = hu_pong (updU h o1)
                | Some UReceivedPong => hu_ok (updU h o1) = hu_ping (updU h o1) /\ hu_ping (updU h o1) = hu_ack (updU h o1) /\ hu_ack (updU h o1) = hu_pong (updU h o1) + 1
                | Some UClosed => hu_pong (updU h o1) <= hu_ack (updU h o1) /\ hu_ack (updU h o1) <= hu_ping (updU h o1) /\ hu_ping (updU h o1) <= hu_ok (updU h o1) /\ hu_ok (updU h o1) <= hu_pong (updU h o1) + 1
                end).
      { intros o1 f1. unfold user_receive_pong.
        destruct (p_user s) as [[| | | |]|] eqn:Eu; try destruct (pl =? PING_USER); intros H1; inversion H1; subst; cbn; rewrite ?Eu; auto; try lia. }
      destruct (p_ping s) as [[ppl sent]|] eqn:Epp; [|apply (Huser _ _ H)].
      destruct (ppl =? pl) eqn:Eeq; [|apply (Huser _ _ H)].
      destruct (negb (ppl =? PING_SHUTDOWN)); [discriminate|].
      cbn [g_going set_ping r_last] in H.
      destruct (g_going s) as [[gl gr]|] eqn:Egg; [|discriminate].
      destruct (conn_go_away (set_ping s None None (p_user s)) (r_last s) NO_ERROR) as [s1|n] eqn:Ec; cbn [lift] in H; [|discriminate].
      apply conn_go_away_spec in Ec. destruct Ec as (_ & E1 & _).
      inversion H; subst. cbn. exact HI.
  - pose proof (step_frame _ _ _ _ _ H) as (_ & _ & _ & _ & FU & _). destruct (FU Eg) as (E1 & Hn).
    unfold updU. rewrite (fold_none_of outU relU outU_irrelevant) by exact Hn.
    unfold InvU in *. rewrite E1. exact HI.
Qed.

(* ==============================================================================================
   All label sequences *)

Record hist := mkHist { hG_ : hG; hS_ : hS; hP_ : hP; hL_ : hL; hE_ : list gframe; hU_ : hU }.

Definition upd (h : hist) (l : label) (o : list out) : hist :=
  mkHist (updG (hG_ h) o) (updS (hS_ h) l o) (updP (hP_ h) l o) (updL (hL_ h) o) (updE (hE_ h) o) (updU (hU_ h) o).

Definition hist0 (p0 : sparams) : hist := mkHist hG0 hS0 hP0 (hL0 p0) [] hU0.

Fixpoint upd_trace (h : hist) (tr : list (label * list out * flow)) : hist :=
  match tr with
  | [] => h
  | (l, o, _) :: t => upd_trace (upd h l o) t
  end.

Definition Inv (s : st) (h : hist) : Prop :=
  InvG s (hG_ h) /\ InvS s (hS_ h) /\ InvP s (hP_ h) /\ InvL s (hL_ h) /\ InvE s (hE_ h) /\ InvU s (hU_ h).

Lemma Inv_init p0 : Inv (init p0) (hist0 p0).
Proof.
  unfold Inv, hist0. cbn [hG_ hS_ hP_ hL_ hE_ hU_].
  split; [apply InvG_init|]. split; [apply InvS_init|]. split; [apply InvP_init|]. split; [apply InvL_init|].
  split; [apply InvE_init|apply InvU_init].
Qed.

Theorem step_inv s h l s' o fl : Inv s h -> cstep s l = SOk s' o fl -> Inv s' (upd h l o).
Proof.
  intros (A & B & C & D & E & F) H. unfold Inv, upd. cbn [hG_ hS_ hP_ hL_ hE_ hU_].
  split; [eapply stepG; eauto|]. split; [eapply stepS; eauto|]. split; [eapply stepP; eauto|].
  split; [eapply stepL; eauto|]. split; [eapply stepE; eauto|eapply stepU; eauto].
Qed.

Theorem run_inv ls : forall s h s' tr, Inv s h -> crun s ls = inl (s', tr) -> Inv s' (upd_trace h tr).
Proof.
  induction ls as [|l ls IH]; intros s h s' tr HI H; cbn [crun] in H.
  - inversion H; subst. exact HI.
  - destruct (cstep s l) as [s1 o1 f1|n|n] eqn:E; try discriminate.
    destruct (crun s1 ls) as [[s2 tr2]|[k r]] eqn:E2; [|discriminate].
    inversion H; subst. cbn [upd_trace]. eapply IH; [|exact E2]. eapply step_inv; eauto.
Qed.

(* no assert!/assert_eq!/debug_assert_eq! of settings.rs, ping_pong.rs, go_away.rs, connection.rs (and Recv::go_away) fires *)
Theorem run_nopanic ls : forall s h, Inv s h ->
  match crun s ls with inr (_, SPanic _) => False | _ => True end.
Proof.
  induction ls as [|l ls IH]; intros s h HI; cbn [crun]; [exact I|].
  destruct (cstep s l) as [s1 o1 f1|n|n] eqn:E.
  - pose proof (step_inv _ _ _ _ _ _ HI E) as HI1. specialize (IH s1 _ HI1).
    destruct (crun s1 ls) as [[s2 tr2]|[k r]]; [exact I|]. destruct r; auto.
  - exact I.
  - destruct HI as (A & _). exact (step_nopanic _ _ _ _ A E).
Qed.

(* ==============================================================================================
   C14 *)

(* Every SETTINGS and every PING taken from the codec is answered exactly once, in order; at most one acknowledgement of each
   kind is owed (the `option`), and it is owed exactly while `remote` / `pending_pong` is set.
   #taken SETTINGS = #ACKs emitted + (1 if one is owed); taken PINGs = [owed one] ++ answered ones, newest first, payload by payload. *)
Definition owedS (s : st) (h : hS) : N :=
  match s_remote s with Some _ => if hs_fail h =? 0 then 1 else 0 | None => 0 end.

Theorem C14_ack_exactly_once p0 ls s tr :
  crun (init p0) ls = inl (s, tr) ->
  let h := upd_trace (hist0 p0) tr in
  N.of_nat (length (hs_taken (hS_ h))) = hs_acks (hS_ h) + owedS s (hS_ h) /\
  hp_taken (hP_ h) = opt_list (p_pong s) ++ map fst (hp_answered (hP_ h)) /\
  (can_recv s = true -> s_remote s = None /\ p_pong s = None).
Proof.
  intros H h. pose proof (run_inv _ _ _ _ _ (Inv_init p0) H) as (_ & HS & HP & _). fold h in HS, HP.
  split; [|split].
  - unfold owedS. destruct HS as [(F0 & T & A)|(F1 & D & p & Ep & T & A)].
    + rewrite T, A, F0. change (0 =? 0) with true. destruct (s_remote s); cbn [opt_list app length]; lia.
    + rewrite T, A, F1, Ep. change (1 =? 0) with false. cbn [length]. lia.
  - exact HP.
  - intros Hc. apply can_recv_spec in Hc. destruct Hc as (_ & A & _ & B & _). auto.
Qed.

(* a SETTINGS ACK while local is ToSend or Synced: connection error PROTOCOL_ERROR (a GOAWAY(last_processed_id,
   PROTOCOL_ERROR) becomes pending, the connection closes once it is written) and nothing else changes *)
Lemma handle_go_away_fresh s h o reason d i :
  InvG s h -> g_close_now s = false -> reason <> NO_ERROR ->
  handle_go_away s o reason d i =
  SOk (set_ga s true (Some (r_last s, reason)) (g_user s) (Some (r_last s, reason, d))) (o ++ [OStreamsError]) FLoop.
Proof.
  intros HI Hc Hr. unfold handle_go_away.
  assert (E1 : match g_going s with Some (_, r) => r =? reason | None => false end = false).
  { destruct (g_going s) as [[gl gr]|] eqn:Eg; [|reflexivity].
    destruct (G3 _ _ HI Hc gl gr Eg) as (A & _). subst gr. apply N.eqb_neq. auto. }
  rewrite E1. unfold ga_go_away_now.
  assert (E2 : opt_pair_eqb (g_going s) (r_last s) reason = false).
  { destruct (g_going s) as [[gl gr]|] eqn:Eg; [|reflexivity]. cbn [opt_pair_eqb].
    destruct (G3 _ _ HI Hc gl gr Eg) as (A & _). subst gr.
    destruct (gl =? r_last s); cbn [andb]; [|reflexivity]. apply N.eqb_neq. auto. }
  rewrite E2. unfold ga_go_away. cbn [g_going set_ga].
  destruct (g_going s) as [[gl gr]|] eqn:Eg; cbn [lift].
  - pose proof (G6 _ _ HI gl gr Eg) as Hle. destruct (r_last s <=? gl) eqn:El; [|lia]. cbn [lift]. reflexivity.
  - reflexivity.
Qed.

Theorem C14_stray_ack s h ae :
  InvG s h -> can_recv s = true -> (forall p, s_local s <> LWaitingAck p) ->
  cstep s (LRecv (InSettingsAck ae)) =
  SOk (set_ga s true (Some (r_last s, PROTOCOL_ERROR)) (g_user s) (Some (r_last s, PROTOCOL_ERROR, []))) [OStreamsError] FLoop.
Proof.
  intros HI Hc Hl. cbn [cstep]. rewrite Hc. cbn [negb recv_frame].
  apply can_recv_spec in Hc. destruct Hc as (Hpr & _). apply in_poll_ready_spec in Hpr. destruct Hpr as (_ & _ & Hcn).
  destruct (s_local s) as [p|p|] eqn:El; [|exfalso; apply (Hl p); reflexivity|]; cbn [handle_result];
    rewrite (handle_go_away_fresh _ h); auto; discriminate.
Qed.

(* the label that emits the SETTINGS ACK is the label that applies the settings: any step whose outputs contain the ACK is a
   step of Settings::poll_send on the pending frame, and its outputs are exactly [ACK; apply p] (or [ACK; apply failed; ...]) *)
Theorem C14_remote_apply_at_ack_step s l s' o fl :
  cstep s l = SOk s' o fl -> In (OFrame WSettingsAck) o ->
  exists c ae p, l = LSettingsAck c ae /\ s_remote s = Some p /\
    ((ae = None /\ o = [OFrame WSettingsAck; OApplyRemote p (negb (s_initial s))] /\ s_remote s' = None) \/
     (exists r x, ae = Some r /\ o = [OFrame WSettingsAck; OApplyRemoteFailed] ++ x /\ forallb neutral x = true /\ dead s')).
Proof.
  intros H Hin. destruct (grpS l) eqn:Eg.
  - destruct l as [| | | | | | | | | | | | | |c ae| |[p| | | | | |]|]; try discriminate; cbn [cstep] in H.
    + destruct (negb (in_poll_ready s)); [discriminate|].
      destruct (s_remote s) as [p|] eqn:Er; [|inversion H; subst; destruct Hin].
      destruct c; try (inversion H; subst; destruct Hin; fail).
      exists Ready, ae, p. split; [reflexivity|]. split; [reflexivity|].
      destruct ae as [r|].
      * right. cbn [handle_result] in H. pose proof (handle_go_away_dead _ _ _ _ _ _ _ _ H) as Hd.
        apply handle_go_away_spec in H. destruct H as ((x & Eo & Hx) & _). exists r, x. auto.
      * left. inversion H; subst. auto.
    + destruct (negb (can_recv s)); [discriminate|]. cbn [recv_frame] in H.
      destruct (s_remote s); [discriminate|]. inversion H; subst. destruct Hin.
  - pose proof (step_frame _ _ _ _ _ H) as (FS & _). destruct (FS Eg) as (_ & Hn).
    exfalso. unfold none_of in Hn. rewrite forallb_forall in Hn. specialize (Hn _ Hin). discriminate.
Qed.

(* between the take of a SETTINGS frame and its acknowledgement nothing of it is applied, after it all of it is:
   as long as no apply failed, applied = taken minus the pending one, and #ACK = #applied *)
Theorem C14_remote_apply_at_ack p0 ls s tr :
  crun (init p0) ls = inl (s, tr) ->
  let h := hS_ (upd_trace (hist0 p0) tr) in
  hs_fail h = 0 -> hs_taken h = opt_list (s_remote s) ++ hs_applied h /\ hs_acks h = N.of_nat (length (hs_applied h)).
Proof.
  intros H h F. pose proof (run_inv _ _ _ _ _ (Inv_init p0) H) as (_ & HS & _). fold h in HS.
  destruct HS as [(_ & T & A)|(F1 & _)]; [auto|]. rewrite F in F1. discriminate.
Qed.

(* local settings: sent frames = applied ones, plus the one in flight while WaitingAck; they are applied exactly at the
   label that takes the peer's ACK *)
Theorem C14_local_after_ack p0 ls s tr :
  crun (init p0) ls = inl (s, tr) ->
  let h := hL_ (upd_trace (hist0 p0) tr) in
  match s_local s with
  | LWaitingAck p => hl_sent h = p :: hl_applied h
  | _ => hl_sent h = hl_applied h
  end.
Proof. intros H h. pose proof (run_inv _ _ _ _ _ (Inv_init p0) H) as (_ & _ & _ & HL & _). exact HL. Qed.

Theorem C14_local_apply_step s p :
  can_recv s = true -> s_local s = LWaitingAck p ->
  cstep s (LRecv (InSettingsAck None)) = SOk (set_settings s LSynced (s_remote s) (s_initial s)) [OApplyLocal p] FNext.
Proof. intros Hc El. cbn [cstep]. rewrite Hc. cbn [negb recv_frame]. rewrite El. reflexivity. Qed.

Theorem C14_send_settings_refused s p :
  s_local s <> LSynced -> cstep s (LSendSettings p) = SOk s [OApi AErrSettingsPending] FNext.
Proof. intros H. cbn [cstep]. destruct (s_local s); try reflexivity. contradiction. Qed.

Theorem C14_send_settings_accepted s p :
  s_local s = LSynced -> cstep s (LSendSettings p) = SOk (set_settings s (LToSend p) (s_remote s) (s_initial s)) [OApi AOk] FNext.
Proof. intros H. cbn [cstep]. rewrite H. reflexivity. Qed.

(* user pings: the counters of successful send_ping calls, PING(USER) frames emitted, acknowledgements accepted and pongs
   delivered differ by at most one, according to the state of the cell *)
Theorem C14_user_ping p0 ls s tr :
  crun (init p0) ls = inl (s, tr) ->
  let h := hU_ (upd_trace (hist0 p0) tr) in
  InvU s h /\
  hu_pong h <= hu_ack h /\ hu_ack h <= hu_ping h /\ hu_ping h <= hu_ok h /\ hu_ok h <= hu_pong h + 1.
Proof.
  intros H h. pose proof (run_inv _ _ _ _ _ (Inv_init p0) H) as (_ & _ & _ & _ & _ & HU). fold h in HU.
  split; [exact HU|]. unfold InvU in HU. destruct (p_user s) as [[| | | |]|]; lia.
Qed.

Theorem C14_user_ping_refused s u :
  p_user s = Some u -> u <> UEmpty ->
  exists r, cstep s LUserSendPing = SOk s [OApi r] FNext /\ (r = AErrPingPending \/ (u = UClosed /\ r = AErrBrokenPipe)).
Proof.
  intros E Hu. cbn [cstep]. rewrite E. destruct u; try contradiction; eexists; split; try reflexivity; auto.
Qed.

Theorem C14_user_closed_absorbing s l s' o fl :
  p_user s = Some UClosed -> cstep s l = SOk s' o fl ->
  p_user s' = Some UClosed /\
  (l = LUserSendPing -> o = [OApi AErrBrokenPipe]) /\ (l = LUserPollPong -> o = [OReg WPongTask; OApi AErrBrokenPipe]).
Proof.
  intros E H. destruct (grpU l) eqn:Eg.
  - destruct l as [| | | | | | | | | | | | |c| | |[| |ack pl| | | |]|]; try discriminate; cbn [cstep] in H; rewrite ?E in H.
    + inversion H; subst. repeat split; auto; discriminate.
    + inversion H; subst. repeat split; auto; discriminate.
    + inversion H; subst. repeat split; auto; discriminate.
    + inversion H; subst. repeat split; auto; discriminate.
    + destruct (negb (in_poll_ready s)); [discriminate H|].
      destruct (p_ping s) as [[pl [|]]|]; try destruct c; inversion H; subst; cbn; repeat split; auto; discriminate.
    + destruct (negb (can_recv s)); [discriminate H|]. cbn [recv_frame] in H.
      destruct (p_pong s); [discriminate H|].
      split; [|split; discriminate].
      destruct ack; [|inversion H; subst; exact E].
      unfold user_receive_pong in H. rewrite E in H.
      destruct (p_ping s) as [[ppl sent]|] eqn:Epp; [|inversion H; subst; reflexivity].
      destruct (ppl =? pl); [|inversion H; subst; reflexivity].
      destruct (negb (ppl =? PING_SHUTDOWN)); [discriminate H|].
      cbn [g_going set_ping r_last] in H. destruct (g_going s) as [[gl gr]|]; [|discriminate H].
      match type of H with context [conn_go_away ?x ?a ?b] => destruct (conn_go_away x a b) as [s1|n] eqn:Ec end;
        cbn [lift] in H; [|discriminate H].
      apply conn_go_away_spec in Ec. destruct Ec as (_ & E1 & _). inversion H; subst. cbn. reflexivity.
  - pose proof (step_frame _ _ _ _ _ H) as (_ & _ & _ & _ & FU & _). destruct (FU Eg) as (E1 & _).
    rewrite E1. split; [exact E|]. split; intros El; subst l; discriminate.
Qed.

(* the lock-free cell at the granularity of its atomic operations: whenever the connection task sits between its load (which
   saw PENDING_PING) and its store, the cell still holds PENDING_PING, whatever the user's handle did in between: the store
   never overwrites a RECEIVED_PONG, an EMPTY or a CLOSED, and load+store act as one atomic step *)
Definition FInv (f : fcell) : Prop := f_mid f = true -> f_cell f = UPendingPing.

Lemma fstep_inv f o f' : FInv f -> fstep f o = Some f' -> FInv f'.
Proof.
  unfold FInv. destruct f as [c m]. destruct o; cbn [fstep f_mid f_cell]; destruct m; intros HI H; inversion H; subst; cbn;
    try discriminate; auto.
  - destruct c; cbn; auto; discriminate.
  - intros _. rewrite (HI eq_refl). reflexivity.
  - intros _. rewrite (HI eq_refl). reflexivity.
Qed.

Theorem C14_user_cell_interleavings os : forall f f', FInv f -> frun f os = Some f' -> FInv f'.
Proof.
  induction os as [|o os IH]; intros f f' HI H; cbn [frun] in H.
  - inversion H; subst. exact HI.
  - destruct (fstep f o) as [f1|] eqn:E; [|discriminate]. eapply IH; [|exact H]. eapply fstep_inv; eauto.
Qed.

(* consequently: any sequence of user operations between load and store leaves the cell unchanged *)
Theorem C14_user_cell_atomic us :
  forallb (fun o => match o with FUserSend | FUserPoll => true | _ => false end) us = true ->
  frun (mkF UPendingPing true) us = Some (mkF UPendingPing true).
Proof.
  induction us as [|o us IH]; cbn [forallb frun]; [reflexivity|].
  intros H. apply andb_true_iff in H. destruct H as (A & B). destruct o; try discriminate; cbn; apply IH; exact B.
Qed.

(* ---------------------------------------------------------------------------------------------- the poll2 order
   The Stuck guards of the model are what the preceding calls of the same loop iteration establish. *)
Theorem poll2_order s h c1 c2 c3 c4 ae c5 s1 o1 s2 o2 s3 o3 s4 o4 s5 o5 :
  InvG s h ->
  cstep s (LPollGoAway c1) = SOk s1 o1 FNext ->
  in_poll_ready s1 = true /\
  (cstep s1 (LPollPong c2) = SOk s2 o2 FNext ->
   in_poll_ready s2 = true /\ p_pong s2 = None /\
   (cstep s2 (LPollPing c3) = SOk s3 o3 FNext ->
    in_poll_ready s3 = true /\ p_pong s3 = None /\ (forall pl, p_ping s3 <> Some (pl, false)) /\
    (cstep s3 (LSettingsAck c4 ae) = SOk s4 o4 FNext ->
     in_poll_ready s4 = true /\ p_pong s4 = None /\ (forall pl, p_ping s4 <> Some (pl, false)) /\ s_remote s4 = None /\
     (cstep s4 (LSettingsLocal c5) = SOk s5 o5 FNext -> can_recv s5 = true)))).
Proof.
  intros HI H1.
  assert (R1 : in_poll_ready s1 = true).
  { cbn [cstep] in H1. destruct (is_open s) eqn:Eo; cbn [negb] in H1; [|discriminate].
    unfold after_go_away in H1.
    destruct (g_pending s) as [[[l r] d]|] eqn:Ep.
    - destruct c1; try discriminate.
      unfold should_close_now in H1. cbn [g_pending set_ga g_close_now g_user] in H1.
      destruct (g_close_now s) eqn:Ec.
      + destruct (g_user s); [cbn [handle_result] in H1; discriminate|].
        cbn [handle_result] in H1. apply handle_go_away_spec in H1. destruct H1 as (_ & _ & F). discriminate.
      + destruct (r =? NO_ERROR); [|discriminate]. inversion H1; subst.
        unfold in_poll_ready, is_open in *. cbn. destruct (c_state s); try discriminate. reflexivity.
    - destruct (g_close_now s) eqn:Ec.
      + destruct (g_going s) as [[gl gr]|] eqn:Eg.
        * unfold should_close_now in H1. rewrite Ep, Ec in H1.
          destruct (g_user s); [cbn [handle_result] in H1; discriminate|].
          cbn [handle_result] in H1. apply handle_go_away_spec in H1. destruct H1 as (_ & _ & F). discriminate.
        * exfalso. apply (G2 _ _ HI Ec). exact Eg.
      + inversion H1; subst. unfold in_poll_ready. rewrite Eo, Ep, Ec. reflexivity. }
  split; [exact R1|]. intros H2.
  assert (R2 : in_poll_ready s2 = true /\ p_pong s2 = None).
  { cbn [cstep] in H2. rewrite R1 in H2. cbn [negb] in H2.
    destruct (p_pong s1) as [pl|] eqn:Ep; [destruct c2; try discriminate|]; inversion H2; subst; split; auto. }
  destruct R2 as (R2 & P2). split; [exact R2|]. split; [exact P2|]. intros H3.
  assert (R3 : in_poll_ready s3 = true /\ p_pong s3 = None /\ (forall pl, p_ping s3 <> Some (pl, false))).
  { cbn [cstep] in H3. rewrite R2 in H3. cbn [negb] in H3.
    destruct (p_ping s2) as [[pl [|]]|] eqn:Epp.
    - inversion H3; subst. repeat split; auto. intros pl' E. rewrite Epp in E. discriminate.
    - destruct c3; try discriminate. inversion H3; subst. repeat split; auto. cbn. intros pl' E. discriminate.
    - destruct (p_user s2) as [[| | | |]|]; try destruct c3; try discriminate; inversion H3; subst; repeat split; auto;
        cbn; intros pl' E; try discriminate; rewrite Epp in E; discriminate. }
  destruct R3 as (R3 & P3 & Q3). split; [exact R3|]. split; [exact P3|]. split; [exact Q3|]. intros H4.
  assert (R4 : in_poll_ready s4 = true /\ p_pong s4 = None /\ (forall pl, p_ping s4 <> Some (pl, false)) /\ s_remote s4 = None).
  { cbn [cstep] in H4. rewrite R3 in H4. cbn [negb] in H4.
    destruct (s_remote s3) as [p|] eqn:Er.
    - destruct c4; try discriminate. destruct ae as [r|].
      + cbn [handle_result] in H4. apply handle_go_away_spec in H4. destruct H4 as (_ & _ & F). discriminate.
      + inversion H4; subst. repeat split; auto.
    - inversion H4; subst. repeat split; auto. }
  destruct R4 as (R4 & P4 & Q4 & S4). split; [exact R4|]. split; [exact P4|]. split; [exact Q4|]. split; [exact S4|]. intros H5.
  cbn [cstep] in H5. rewrite R4, S4 in H5. cbn [negb] in H5.
  assert (X : forall s', in_poll_ready s' = true -> p_pong s' = None -> (forall pl, p_ping s' <> Some (pl, false)) ->
              s_remote s' = None -> (forall p, s_local s' <> LToSend p) -> can_recv s' = true).
  { intros s' A B C D E. unfold can_recv. rewrite A, B, D. cbn [andb].
    destruct (p_ping s') as [[pl [|]]|] eqn:Epp; cbn [andb]; try (exfalso; apply (C pl); reflexivity);
      destruct (s_local s') eqn:El; try reflexivity; exfalso; eapply E; reflexivity. }
  destruct (s_local s4) as [p|p|] eqn:El.
  - destruct c5; try discriminate. inversion H5; subst. apply X; auto. cbn. intros p' E. discriminate.
  - inversion H5; subst. apply X; auto. intros p' E. rewrite El in E. discriminate.
  - inversion H5; subst. apply X; auto. intros p' E. rewrite El in E. discriminate.
Qed.

(* ==============================================================================================
   C15 *)

(* newest first: the last_stream_ids of the GOAWAY frames emitted never increase, and each is >= every peer-initiated stream
   processed (last_processed_id raised, i.e. handed towards the accept queue) before its emission *)
Theorem C15_monotone p0 ls s tr :
  crun (init p0) ls = inl (s, tr) ->
  let h := hG_ (upd_trace (hist0 p0) tr) in
  desc (hg_goaways h) /\ Forall (fun e => snd e <= fst e) (hg_goaways h) /\ hg_maxproc h = r_last s /\ r_last s <= r_max s.
Proof.
  intros H h. pose proof (run_inv _ _ _ _ _ (Inv_init p0) H) as (HG & _). fold h in HG.
  split; [apply (G10 _ _ HG)|]. split; [apply (G9 _ _ HG)|]. split; [apply (G8 _ _ HG)|apply (G5 _ _ HG)].
Qed.

Theorem C15_no_assert p0 ls :
  match crun (init p0) ls with inr (_, SPanic _) => False | _ => True end.
Proof. exact (run_nopanic ls _ _ (Inv_init p0)). Qed.

(* HEADERS above Recv::max_stream_id never raise last_processed_id (a guard of the model that the lock-step checks), and
   go_away(id) lowers max_stream_id in the same label (C15_shutdown_pong below) *)
Theorem C15_headers_above_max_ignored s id :
  can_recv s = true -> r_max s < id -> cstep s (LRecv (InHeaders id true)) = SStuck 11.
Proof.
  intros Hc Hlt. cbn [cstep]. rewrite Hc. cbn [negb recv_frame]. destruct (r_max s <? id) eqn:E; [reflexivity|lia].
Qed.

(* receiving GOAWAY *)
Theorem C15_recv_goaway_accept s last reason debug :
  can_recv s = true -> last <= s_max s ->
  cstep s (LRecv (InGoAway last reason debug)) =
  SOk (set_conn (set_ids s (r_last s) (r_max s) last) (c_state s) (Some (last, reason, debug)))
      [OStreamsGoAway last reason debug] FNext.
Proof.
  intros Hc Hle. cbn [cstep]. rewrite Hc. cbn [negb recv_frame]. destruct (s_max s <? last) eqn:E; [lia|reflexivity].
Qed.

Theorem C15_recv_goaway_increase s h last reason debug :
  InvG s h -> can_recv s = true -> s_max s < last ->
  cstep s (LRecv (InGoAway last reason debug)) =
  SOk (set_ga s true (Some (r_last s, PROTOCOL_ERROR)) (g_user s) (Some (r_last s, PROTOCOL_ERROR, []))) [OStreamsError] FLoop.
Proof.
  intros HI Hc Hlt. cbn [cstep]. rewrite Hc. cbn [negb recv_frame]. destruct (s_max s <? last) eqn:E; [|lia].
  apply can_recv_spec in Hc. destruct Hc as (Hpr & _). apply in_poll_ready_spec in Hpr. destruct Hpr as (_ & _ & Hcn).
  cbn [handle_result]. rewrite (handle_go_away_fresh _ h); auto. discriminate.
Qed.

Theorem C15_recv_goaways p0 ls s tr :
  crun (init p0) ls = inl (s, tr) ->
  let h := hE_ (upd_trace (hist0 p0) tr) in
  s_max s = head_last h /\ descE h /\ (forall l r d, c_error s = Some (l, r, d) -> hd_error h = Some (l, r, d)).
Proof.
  intros H h. pose proof (run_inv _ _ _ _ _ (Inv_init p0) H) as (_ & _ & _ & _ & (A & B & C) & _). auto.
Qed.

(* the connection's result *)
Definition conn_result (ours : N) (i : initiator) (e : option gframe) : connres :=
  let own := if ours =? NO_ERROR then CROk else CRGoAway [] ours i in
  match e with
  | Some (_, r, d) => if r =? NO_ERROR then own else CRGoAway d r IRemote
  | None => own
  end.

Theorem C15_take_error s ours i :
  c_state s = CClosed ours i ->
  cstep s LTakeError = SOk (set_conn s (CClosed ours i) None) [OConnResult (conn_result ours i (c_error s))] FReturn.
Proof.
  intros E. cbn [cstep]. rewrite E. unfold conn_result. destruct (c_error s) as [[[l r] d]|]; reflexivity.
Qed.

(* graceful shutdown *)
Theorem C15_graceful_start s h :
  InvG s h -> g_going s = None ->
  cstep s LGraceful =
  SOk (set_ping (set_ga (set_ids s (r_last s) MAX_ID (s_max s)) (g_close_now s) (Some (MAX_ID, NO_ERROR)) (g_user s)
                        (Some (MAX_ID, NO_ERROR, [])))
                (Some (PING_SHUTDOWN, false)) (p_pong s) (p_user s))
      [ORecvMax MAX_ID] FNext.
Proof.
  intros HI Eg. cbn [cstep]. rewrite Eg. unfold conn_go_away. rewrite (G4 _ _ HI Eg).
  change (MAX_ID <? MAX_ID) with false. cbn iota. unfold ga_go_away. cbn [g_going set_ids]. rewrite Eg.
  cbn [p_ping set_ga set_ids p_pong p_user g_close_now g_user].
  destruct (p_ping s) as [[pl b]|] eqn:Epp; [|reflexivity].
  destruct (G7 _ _ HI pl b Epp) as (_ & A). contradiction.
Qed.

Theorem C15_graceful_twice s : g_going s <> None -> cstep s LGraceful = SOk s [] FNext.
Proof. intros H. cbn [cstep]. destruct (g_going s); [reflexivity|contradiction]. Qed.

Theorem C15_goaway_emit s l d :
  is_open s = true -> g_pending s = Some (l, NO_ERROR, d) -> g_close_now s = false ->
  cstep s (LPollGoAway Ready) = SOk (set_ga s false (g_going s) (g_user s) None) [OFrame (WGoAway l NO_ERROR d)] FNext.
Proof.
  intros Ho Ep Ec. cbn [cstep]. rewrite Ho, Ep, Ec. cbn [negb]. unfold after_go_away, should_close_now. cbn. reflexivity.
Qed.

Theorem C15_shutdown_ping_emit s pl :
  in_poll_ready s = true -> p_ping s = Some (pl, false) ->
  cstep s (LPollPing Ready) = SOk (set_ping s (Some (pl, true)) (p_pong s) (p_user s)) [OFrame (WPing false pl)] FNext.
Proof. intros Hr Ep. cbn [cstep]. rewrite Hr, Ep. reflexivity. Qed.

Theorem C15_shutdown_pong s h b :
  InvG s h -> can_recv s = true -> p_ping s = Some (PING_SHUTDOWN, b) ->
  cstep s (LRecv (InPing true PING_SHUTDOWN)) =
  SOk (set_ga (set_ids (set_ping s None None (p_user s)) (r_last s) (r_last s) (s_max s)) false (Some (r_last s, NO_ERROR))
              (g_user s) (Some (r_last s, NO_ERROR, [])))
      [ORecvMax (r_last s)] FNext.
Proof.
  intros HI Hc Ep. cbn [cstep]. rewrite Hc. cbn [negb recv_frame].
  apply can_recv_spec in Hc. destruct Hc as (Hpr & Hpong & _). apply in_poll_ready_spec in Hpr. destruct Hpr as (_ & _ & Hcn).
  rewrite Hpong, Ep. rewrite N.eqb_refl. cbn [negb g_going set_ping r_last].
  destruct (G7 _ _ HI _ _ Ep) as (_ & Hg).
  destruct (g_going s) as [[gl gr]|] eqn:Eg; [|contradiction].
  unfold conn_go_away. cbn [r_max set_ping r_last s_max].
  destruct (G5 _ _ HI) as (A & _). destruct (r_max s <? r_last s) eqn:E1; [lia|].
  unfold ga_go_away. cbn [g_going set_ids set_ping]. rewrite Eg.
  pose proof (G6 _ _ HI gl gr Eg). destruct (r_last s <=? gl) eqn:E2; [|lia].
  cbn [lift g_close_now set_ids set_ping g_user]. rewrite Hcn. reflexivity.
Qed.

(* known finding KF-C15-1: GoAway::should_close_on_idle recognises the final GOAWAY of a graceful shutdown by
   `last_processed_id != StreamId::MAX`; the theorem therefore carries the hypothesis l <> MAX_ID ... *)
Theorem C15_idle_close_except_known s l r :
  is_open s = true -> g_close_now s = false -> g_going s = Some (l, r) -> l <> MAX_ID ->
  cstep s (LIdle false) = lift (ga_go_away_now s (r_last s, NO_ERROR, [])) [] FNext.
Proof.
  intros Ho Ec Eg Hl. cbn [cstep]. rewrite Ho. cbn [negb]. unfold should_close_on_idle. rewrite Ec, Eg.
  destruct (l =? MAX_ID) eqn:E; [apply N.eqb_eq in E; contradiction|]. cbn [negb andb orb].
  destruct (c_error s); reflexivity.
Qed.

(* ... and without it the statement is false: when the final GOAWAY names stream 2^31-1 (the peer's processed stream has the
   maximal id) the idle branch never starts the close, whether or not streams are left: Connection::poll returns Pending *)
Theorem C15_idle_close_known_refuted s r hs :
  is_open s = true -> g_close_now s = false -> g_going s = Some (MAX_ID, r) -> c_error s = None ->
  cstep s (LIdle hs) = SOk s [] FPending.
Proof.
  intros Ho Ec Eg Ee. cbn [cstep]. rewrite Ho. cbn [negb]. unfold should_close_on_idle. rewrite Ec, Eg, Ee.
  rewrite N.eqb_refl. reflexivity.
Qed.


Theorem C15_close_now_closes s h l r :
  InvG s h -> is_open s = true -> g_close_now s = true -> g_user s = false -> g_going s = Some (l, r) ->
  exists o, cstep s (LPollGoAway Ready) =
            SOk (set_conn (set_ga s true (Some (l, r)) false None) (CClosing r ILibrary) (c_error s)) o FLoop /\
            (o = [] \/ exists d, g_pending s = Some (l, r, d) /\ o = [OFrame (WGoAway l r d)]).
Proof.
  intros HI Ho Ec Eu Eg. cbn [cstep]. rewrite Ho. cbn [negb].
  destruct (g_pending s) as [[[pl pr] pd]|] eqn:Ep.
  - pose proof (G1 _ _ HI pl pr pd Ep) as E. rewrite Eg in E. inversion E; subst pl pr.
    unfold after_go_away, should_close_now. cbn [g_pending set_ga g_close_now g_user]. rewrite Ec, Eu.
    cbn [handle_result]. unfold handle_go_away. cbn [g_going set_ga]. rewrite Eg, N.eqb_refl.
    eexists. split; [reflexivity|]. right. exists pd. auto.
  - rewrite Ec, Eg. unfold after_go_away, should_close_now. rewrite Ep, Ec, Eu.
    cbn [handle_result]. unfold handle_go_away. rewrite Eg, N.eqb_refl.
    exists []. split; [|left; reflexivity]. unfold set_conn, set_ga. cbn. rewrite Ec, Eg, Eu, Ep. destruct s; reflexivity.
Qed.

Theorem C15_closing_closed s r i :
  c_state s = CClosing r i -> cstep s (LShutdown Ready) = SOk (set_conn s (CClosed r i) (c_error s)) [] FNext.
Proof. intros E. cbn [cstep]. rewrite E. reflexivity. Qed.

(* ==============================================================================================
   Examples (non-vacuity) *)

Definition frames_of (tr : list (label * list out * flow)) : list wframe :=
  flat_map (fun x => flat_map (fun o => match o with OFrame f => [f] | _ => [] end) (snd (fst x))) tr.

Definition results_of (tr : list (label * list out * flow)) : list connres :=
  flat_map (fun x => flat_map (fun o => match o with OConnResult r => [r] | _ => [] end) (snd (fst x))) tr.

Definition no_params : sparams := mkSP None None None None None None None.
Definition some_params : sparams := mkSP None None (Some 100) (Some 1000) (Some 16384) None None.

(* a server: takes the peer's SETTINGS while its acknowledgement is blocked once, a PING, a request on stream 1; a user ping
   round trip; graceful shutdown with the write side blocked once; request 3 arrives before the shutdown PONG; the final GOAWAY
   names stream 3; idle -> GOAWAY already sent with that id -> Closing -> Closed -> Ok *)
Definition demo_labels : list label :=
  [ LPollGoAway Ready; LPollPong Ready; LPollPing Ready; LSettingsAck Ready None; LSettingsLocal Ready;
    LRecv (InSettings some_params);
    LPollGoAway Ready; LPollPong Ready; LPollPing Ready; LSettingsAck NotReady None;
    LPollGoAway Ready; LPollPong Ready; LPollPing Ready; LSettingsAck Ready None; LSettingsLocal Ready;
    LRecv (InPing false 77);
    LPollGoAway Ready; LPollPong NotReady;
    LPollGoAway Ready; LPollPong Ready; LPollPing Ready; LSettingsAck Ready None; LSettingsLocal Ready;
    LRecv (InHeaders 1 true);
    LTakeUserPings; LUserSendPing; LUserSendPing;
    LPollGoAway Ready; LPollPong Ready; LPollPing Ready; LSettingsAck Ready None; LSettingsLocal Ready;
    LRecv (InPing true PING_USER); LUserPollPong; LUserPollPong;
    LGraceful; LGraceful;
    LPollGoAway NotReady;
    LPollGoAway Ready; LPollPong Ready; LPollPing Ready; LSettingsAck Ready None; LSettingsLocal Ready;
    LRecv (InHeaders 3 true);
    LPollGoAway Ready; LPollPong Ready; LPollPing Ready; LSettingsAck Ready None; LSettingsLocal Ready;
    LRecv (InPing true PING_SHUTDOWN);
    LPollGoAway Ready; LPollPong Ready; LPollPing Ready; LSettingsAck Ready None; LSettingsLocal Ready;
    LRecv (InHeaders 5 false);
    LPollGoAway Ready; LPollPong Ready; LPollPing Ready; LSettingsAck Ready None; LSettingsLocal Ready;
    LIdle false;
    LPollGoAway Ready; LShutdown Ready; LTakeError ].

Example demo_control :
  match crun (init no_params) demo_labels with
  | inl (s, tr) =>
    frames_of tr = [ WSettingsAck; WPing true 77; WPing false PING_USER; WGoAway MAX_ID NO_ERROR []; WPing false PING_SHUTDOWN;
                     WGoAway 3 NO_ERROR [] ] /\
    results_of tr = [CROk] /\ c_state s = CClosed NO_ERROR ILibrary /\ r_last s = 3 /\ r_max s = 3
  | inr _ => False
  end.
Proof. vm_compute. repeat split; reflexivity. Qed.

(* the peer's GOAWAY with an error code and debug data is what the connection reports; a later GOAWAY with a larger id and a
   stray SETTINGS ACK are connection errors PROTOCOL_ERROR *)
Definition demo_labels2 : list label :=
  [ LPollGoAway Ready; LPollPong Ready; LPollPing Ready; LSettingsAck Ready None; LSettingsLocal Ready;
    LRecv (InSettingsAck None);
    LPollGoAway Ready; LPollPong Ready; LPollPing Ready; LSettingsAck Ready None; LSettingsLocal Ready;
    LRecv (InGoAway 7 2 [100; 98; 103]);
    LPollGoAway Ready; LPollPong Ready; LPollPing Ready; LSettingsAck Ready None; LSettingsLocal Ready;
    LRecv (InGoAway 9 0 []);
    LPollGoAway Ready; LShutdown Ready; LTakeError ].

Example demo_control2 :
  match crun (init no_params) demo_labels2 with
  | inl (s, tr) =>
    frames_of tr = [WGoAway 0 PROTOCOL_ERROR []] /\ results_of tr = [CRGoAway [100; 98; 103] 2 IRemote] /\ s_max s = 7
  | inr _ => False
  end.
Proof. vm_compute. repeat split; reflexivity. Qed.

Example demo_stray_ack :
  match crun (init no_params) [LPollGoAway Ready; LPollPong Ready; LPollPing Ready; LSettingsAck Ready None; LSettingsLocal Ready;
                               LRecv (InSettingsAck None); LPollGoAway Ready; LPollPong Ready; LPollPing Ready;
                               LSettingsAck Ready None; LSettingsLocal Ready; LRecv (InSettingsAck None);
                               LPollGoAway Ready; LShutdown Ready; LTakeError] with
  | inl (s, tr) => frames_of tr = [WGoAway 0 PROTOCOL_ERROR []] /\ results_of tr = [CRGoAway [] PROTOCOL_ERROR ILibrary]
  | inr _ => False
  end.
Proof. vm_compute. repeat split; reflexivity. Qed.

(* taking a frame while an acknowledgement is owed is impossible (Stuck), and the Rust assert behind it would fire otherwise *)
Example demo_order :
  crun (init no_params) [LPollGoAway Ready; LPollPong Ready; LPollPing Ready; LSettingsAck Ready None; LSettingsLocal Ready;
                         LRecv (InPing false 5); LRecv (InPing false 6)] = inr (6, SStuck 39).
Proof. vm_compute. reflexivity. Qed.

Example demo_user_cell :
  frun (mkF UEmpty false) [FUserSend; FLoad; FUserSend; FUserPoll; FStore; FReceivePong; FUserPoll; FDrop; FUserSend]
  = Some (mkF UClosed false).
Proof. vm_compute. reflexivity. Qed.

(* the same on a complete run: request 2^31-1, graceful shutdown, PONG, final GOAWAY(2^31-1), all streams done: still Pending *)
Example demo_known_refuted :
  match crun (init no_params)
             [ LPollGoAway Ready; LPollPong Ready; LPollPing Ready; LSettingsAck Ready None; LSettingsLocal Ready;
               LRecv (InHeaders MAX_ID true); LGraceful;
               LPollGoAway Ready; LPollPong Ready; LPollPing Ready; LSettingsAck Ready None; LSettingsLocal Ready;
               LRecv (InPing true PING_SHUTDOWN);
               LPollGoAway Ready; LPollPong Ready; LPollPing Ready; LSettingsAck Ready None; LSettingsLocal Ready;
               LIdle false ] with
  | inl (s, tr) =>
    frames_of tr = [WGoAway MAX_ID NO_ERROR []; WPing false PING_SHUTDOWN; WGoAway MAX_ID NO_ERROR []] /\
    c_state s = COpen /\ g_close_now s = false /\ snd (last tr (LIdle false, [], FNext)) = FPending
  | inr _ => False
  end.
Proof. vm_compute. repeat split; reflexivity. Qed.
