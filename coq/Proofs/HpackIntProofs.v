(* Proofs about the prefix-integer decoder: the reference decoder of Ref/Rfc7541Int.v against the
   relation [int_repr] (RFC 7541 5.1), and the model of h2's `decode_int` (Model/HpackInt.v)
   against both.  Main results:

     ref_decode_int_spec     reference decoder = relation, within L continuation octets
     decode_int_ref          h2's decode_int on octets = reference decoder with L = 4
     decode_int_spec         decode_int p bs = ROk v rest  <->  bs = enc ++ rest with enc an RFC
                             representation of v of at most 5 octets
     decode_int_need_more    NeedMore(IntegerUnderflow) exactly on proper prefixes of such enc
     decode_int_overflow     IntegerOverflow exactly when a fifth continuation octet is announced
     decode_int_bound        accepted values are below 2^28 + 255 (no usize wrap-around)
     decode_int_encode_int   round trip with the canonical encoder for all v < 2^p - 1 + 2^28 *)
From H2V Require Import Base.Tac Base.Bytes Ref.Rfc7541Int Model.HpackInt.
Local Open Scope N_scope.

(* ------------------------------------------------------------------------------------- *)
(* finite sweep over octets *)

Fixpoint N_upto (n : nat) : list N :=
  match n with O => [] | S n' => N_upto n' ++ [N.of_nat n'] end.

Lemma N_upto_In n b : b < N.of_nat n -> In b (N_upto n).
Proof.
  induction n as [|n IH]; intros Hb.
  - lia.
  - cbn [N_upto]. apply in_or_app.
    destruct (N.eq_dec b (N.of_nat n)) as [->|Hne].
    + right; left; reflexivity.
    + left; apply IH; lia.
Qed.

Lemma byte_sweep (P : N -> bool) :
  forallb P (N_upto 256) = true -> forall b, b < 256 -> P b = true.
Proof.
  intros H b Hb. rewrite forallb_forall in H. apply H. apply N_upto_In.
  change (N.of_nat 256) with 256. exact Hb.
Qed.

Definition octets (bs : list N) : Prop := Forall (fun b => b < 256) bs.

Lemma octets_cons b bs : octets (b :: bs) <-> b < 256 /\ octets bs.
Proof. unfold octets. split; intros H. - inversion H; auto. - constructor; tauto. Qed.

Lemma octets_app a b : octets (a ++ b) <-> octets a /\ octets b.
Proof. unfold octets. apply Forall_app. Qed.

Lemma bytes_ok_octets bs : bytes_ok bs = true <-> octets bs.
Proof.
  unfold bytes_ok, octets, byte_ok. rewrite forallb_forall, Forall_forall.
  split; intros H x Hx; specialize (H x Hx); lia.
Qed.

(* ------------------------------------------------------------------------------------- *)
(* bit operations of the model on octets, as arithmetic *)

Lemma land_127 b : N.land b 127 = b mod 128.
Proof. change 127 with (N.ones 7). rewrite N.land_ones. reflexivity. Qed.

Lemma land_128_zero b : b < 256 -> (N.land b 128 =? 0) = (b <? 128).
Proof.
  intros Hb.
  apply (byte_sweep (fun b => Bool.eqb (N.land b 128 =? 0) (b <? 128))) in Hb.
  - apply Bool.eqb_prop in Hb. exact Hb.
  - vm_compute. reflexivity.
Qed.

Lemma int_mask_pow p : 1 <= p <= 8 -> int_mask p = 2 ^ p - 1.
Proof.
  intros Hp. unfold int_mask.
  destruct (p =? 8) eqn:E.
  - apply N.eqb_eq in E. subst p. reflexivity.
  - rewrite N.shiftl_1_l. reflexivity.
Qed.

Lemma land_mask b p : 1 <= p <= 8 -> N.land b (int_mask p) = b mod 2 ^ p.
Proof.
  intros Hp. rewrite int_mask_pow by exact Hp.
  replace (2 ^ p - 1) with (N.ones p).
  - apply N.land_ones.
  - rewrite N.ones_equiv. lia.
Qed.

Lemma pow2_pos p : 0 < 2 ^ p.
Proof. apply N.neq_0_lt_0. apply N.pow_nonzero. lia. Qed.

(* ------------------------------------------------------------------------------------- *)
(* reference continuation decoder against cont_repr *)

Lemma cont_repr_nonempty v bs : cont_repr v bs -> bs <> [].
Proof. intros H; inversion H; discriminate. Qed.

Lemma cont_repr_octets v bs : cont_repr v bs -> octets bs.
Proof.
  induction 1 as [v Hv|lo hi bs Hlo _ IH].
  - apply octets_cons; split; [lia|constructor].
  - apply octets_cons; split; [lia|exact IH].
Qed.

Lemma ref_decode_cont_sound L : forall bs v rest,
  ref_decode_cont L bs = Some (v, rest) ->
  exists enc, bs = enc ++ rest /\ cont_repr v enc /\ (length enc <= L)%nat.
Proof.
  induction L as [|L IH]; intros bs v rest H; cbn [ref_decode_cont] in H.
  - discriminate.
  - destruct bs as [|b t]; [discriminate|].
    destruct (b <? 128) eqn:E1.
    + inversion H; subst. exists [v]. split; [reflexivity|]. split.
      * constructor. lia.
      * cbn [length]. lia.
    + destruct (b <? 256) eqn:E2; [|discriminate].
      destruct (ref_decode_cont L t) as [[v' r']|] eqn:E3; [|discriminate].
      inversion H; subst.
      destruct (IH _ _ _ E3) as (enc & -> & Hc & Hl).
      exists (b :: enc). split; [reflexivity|]. split.
      * replace b with (128 + (b - 128)) at 2 by lia.
        apply cont_more; [lia|exact Hc].
      * cbn [length]. lia.
Qed.

Lemma ref_decode_cont_complete v enc : cont_repr v enc ->
  forall L rest, (length enc <= L)%nat -> ref_decode_cont L (enc ++ rest) = Some (v, rest).
Proof.
  induction 1 as [v Hv|lo hi bs Hlo Hc IH]; intros L rest Hl.
  - destruct L as [|L]; [cbn [length] in Hl; lia|].
    cbn [ref_decode_cont app].
    replace (v <? 128) with true by lia. reflexivity.
  - destruct L as [|L]; [cbn [length] in Hl; lia|].
    cbn [ref_decode_cont app].
    replace (128 + lo <? 128) with false by lia.
    replace (128 + lo <? 256) with true by lia.
    rewrite IH by (cbn [length] in Hl; lia).
    f_equal. f_equal. lia.
Qed.

Lemma cont_repr_det v1 enc1 : cont_repr v1 enc1 ->
  forall v2 enc2 r1 r2, cont_repr v2 enc2 -> enc1 ++ r1 = enc2 ++ r2 ->
  v1 = v2 /\ enc1 = enc2 /\ r1 = r2.
Proof.
  intros H1 v2 enc2 r1 r2 H2 E.
  pose proof (ref_decode_cont_complete _ _ H1 (length enc1 + length enc2) r1 ltac:(lia)) as A.
  pose proof (ref_decode_cont_complete _ _ H2 (length enc1 + length enc2) r2 ltac:(lia)) as B.
  rewrite E in A. rewrite A in B. inversion B; subst.
  split; [reflexivity|]. split; [|reflexivity].
  apply app_inv_tail in E. exact E.
Qed.

(* ------------------------------------------------------------------------------------- *)
(* reference integer decoder against int_repr *)

Lemma int_repr_first p hi v enc : int_repr p hi v enc ->
  exists low t, enc = (hi * 2 ^ p + low) :: t /\ low < 2 ^ p.
Proof.
  pose proof (pow2_pos p) as Hp.
  intros H; inversion H; subst.
  - eexists _, _; split; [reflexivity|]. lia.
  - eexists _, _; split; [reflexivity|]. lia.
Qed.

Lemma divmod_first p hi low : low < 2 ^ p ->
  (hi * 2 ^ p + low) / 2 ^ p = hi /\ (hi * 2 ^ p + low) mod 2 ^ p = low.
Proof.
  intros Hl. pose proof (pow2_pos p) as Hp.
  split.
  - rewrite N.div_add_l by lia. rewrite N.div_small by exact Hl. lia.
  - rewrite N.add_comm, N.mod_add by lia. apply N.mod_small. exact Hl.
Qed.

Theorem ref_decode_int_sound L p b t v rest :
  ref_decode_int L p (b :: t) = Some (v, rest) ->
  exists enc, b :: t = enc ++ rest /\ int_repr_L L p (b / 2 ^ p) v enc.
Proof.
  pose proof (pow2_pos p) as Hp.
  unfold ref_decode_int. intros H.
  assert (Hb : b = (b / 2 ^ p) * 2 ^ p + b mod 2 ^ p).
  { rewrite N.mul_comm. apply N.div_mod. lia. }
  destruct (b mod 2 ^ p <? 2 ^ p - 1) eqn:E.
  - inversion H; subst. exists [b]. split; [reflexivity|]. split.
    + replace [b] with [b / 2 ^ p * 2 ^ p + b mod 2 ^ p] by (f_equal; lia).
      constructor. lia.
    + cbn [length]. lia.
  - destruct (ref_decode_cont L t) as [[v' r']|] eqn:E2; [|discriminate].
    inversion H; subst.
    destruct (ref_decode_cont_sound _ _ _ _ E2) as (enc & -> & Hc & Hl).
    exists (b :: enc). split; [reflexivity|]. split.
    + assert (Hm : b mod 2 ^ p = 2 ^ p - 1).
      { pose proof (N.mod_upper_bound b (2 ^ p)). lia. }
      replace (b :: enc) with ((b / 2 ^ p * 2 ^ p + (2 ^ p - 1)) :: enc) by (f_equal; lia).
      constructor. exact Hc.
    + cbn [length]. lia.
Qed.

Theorem ref_decode_int_complete L p hi v enc rest :
  int_repr_L L p hi v enc ->
  ref_decode_int L p (enc ++ rest) = Some (v, rest) /\
  exists b t, enc = b :: t /\ b / 2 ^ p = hi.
Proof.
  pose proof (pow2_pos p) as Hp.
  intros [H Hl]. inversion H; subst.
  - destruct (divmod_first p hi v) as [Hd Hm]; [lia|].
    split.
    + cbn [app]. unfold ref_decode_int. rewrite Hm.
      replace (v <? 2 ^ p - 1) with true by lia. reflexivity.
    + eexists _, _; split; [reflexivity|exact Hd].
  - destruct (divmod_first p hi (2 ^ p - 1)) as [Hd Hm]; [lia|].
    split.
    + cbn [app]. unfold ref_decode_int. rewrite Hm.
      replace (2 ^ p - 1 <? 2 ^ p - 1) with false by lia.
      rewrite (ref_decode_cont_complete _ _ H0) by (cbn [length] in Hl; lia).
      reflexivity.
    + eexists _, _; split; [reflexivity|exact Hd].
Qed.

(* both directions in one statement *)
Theorem ref_decode_int_spec L p b t v rest :
  ref_decode_int L p (b :: t) = Some (v, rest) <->
  exists enc, b :: t = enc ++ rest /\ int_repr_L L p (b / 2 ^ p) v enc.
Proof.
  split.
  - apply ref_decode_int_sound.
  - intros (enc & E & H). rewrite E.
    apply (ref_decode_int_complete L p _ v enc rest H).
Qed.

Lemma ref_decode_int_nil L p : ref_decode_int L p [] = None.
Proof. reflexivity. Qed.

(* the relation is functional and prefix-free *)
Lemma int_repr_det p hi1 hi2 v1 v2 enc1 enc2 r1 r2 :
  int_repr p hi1 v1 enc1 -> int_repr p hi2 v2 enc2 -> enc1 ++ r1 = enc2 ++ r2 ->
  v1 = v2 /\ enc1 = enc2 /\ r1 = r2.
Proof.
  intros H1 H2 E.
  assert (A : int_repr_L (length enc1 + length enc2) p hi1 v1 enc1) by (split; [exact H1|lia]).
  assert (B : int_repr_L (length enc1 + length enc2) p hi2 v2 enc2) by (split; [exact H2|lia]).
  destruct (ref_decode_int_complete _ _ _ _ _ r1 A) as [A' _].
  destruct (ref_decode_int_complete _ _ _ _ _ r2 B) as [B' _].
  rewrite E in A'. rewrite A' in B'. inversion B'; subst.
  split; [reflexivity|]. split; [|reflexivity].
  apply app_inv_tail in E. exact E.
Qed.

(* the limit is monotone *)
Lemma int_repr_L_mono L L' p hi v enc : (L <= L')%nat -> int_repr_L L p hi v enc -> int_repr_L L' p hi v enc.
Proof. intros Hle [H Hl]. split; [exact H|lia]. Qed.

(* ------------------------------------------------------------------------------------- *)
(* the canonical encoder produces a representation *)

Lemma encode_cont_ok : forall f v, v < 2 ^ N.of_nat f -> (1 <= f)%nat -> cont_repr v (encode_cont f v).
Proof.
  induction f as [|f IH]; intros v Hv Hf; [lia|].
  cbn [encode_cont].
  destruct (v <? 128) eqn:E.
  - constructor. lia.
  - assert (Hdm : v = v mod 128 + 128 * (v / 128)).
    { rewrite N.add_comm. apply N.div_mod. lia. }
    rewrite Hdm at 1.
    pose proof (N.mod_upper_bound v 128 ltac:(lia)) as Hm.
    apply cont_more; [exact Hm|].
    rewrite Nat2N.inj_succ, N.pow_succ_r' in Hv.
    pose proof (pow2_pos (N.of_nat f)) as Hp.
    destruct f as [|f'].
    + cbn in Hv. lia.
    + apply IH; [|lia]. lia.
Qed.

Lemma log2_fuel v : v < 2 ^ N.of_nat (S (N.to_nat (N.log2 v))).
Proof.
  rewrite Nat2N.inj_succ, N2Nat.id.
  destruct (N.eq_dec v 0) as [->|Hne].
  - cbn. lia.
  - apply N.log2_spec. lia.
Qed.

Theorem encode_int_repr p hi v : int_repr p hi v (encode_int p hi v).
Proof.
  unfold encode_int. destruct (v <? 2 ^ p - 1) eqn:E.
  - constructor. lia.
  - replace v with (2 ^ p - 1 + (v - (2 ^ p - 1))) at 1 by lia.
    constructor. apply encode_cont_ok; [apply log2_fuel|lia].
Qed.

(* length of the canonical continuation: number of base-128 digits *)
Lemma encode_cont_length : forall f k v, v < 128 ^ N.of_nat k -> (1 <= k)%nat ->
  (length (encode_cont f v) <= k)%nat.
Proof.
  induction f as [|f IH]; intros k v Hv Hk; [cbn [encode_cont length]; lia|].
  cbn [encode_cont]. destruct (v <? 128) eqn:E.
  - cbn [length]. lia.
  - cbn [length]. destruct k as [|k]; [lia|].
    destruct k as [|k].
    + cbn in Hv. lia.
    + apply le_n_S. apply IH; [|lia].
      rewrite Nat2N.inj_succ, N.pow_succ_r' in Hv.
      assert (0 < 128 ^ N.of_nat (S k)) by (apply N.neq_0_lt_0; apply N.pow_nonzero; lia).
      lia.
Qed.

(* ------------------------------------------------------------------------------------- *)
(* classification of an octet string as a continuation of at most L octets *)

Inductive cont_class :=
| CDone (v : N) (rest : list N)      (* complete: value and what follows *)
| CShort                             (* every octet present announces another one, fewer than L *)
| CLong.                             (* L octets all announce another one *)

Fixpoint classify (L : nat) (bs : list N) : cont_class :=
  match L with
  | O => CLong
  | S L' =>
    match bs with
    | [] => CShort
    | b :: t =>
      if b <? 128 then CDone b t
      else match classify L' t with
           | CDone v rest => CDone ((b - 128) + 128 * v) rest
           | c => c
           end
    end
  end.

Lemma classify_ref L : forall bs, octets bs ->
  ref_decode_cont L bs = match classify L bs with CDone v rest => Some (v, rest) | _ => None end.
Proof.
  induction L as [|L IH]; intros bs Hb; cbn [ref_decode_cont classify].
  - reflexivity.
  - destruct bs as [|b t]; [reflexivity|].
    apply octets_cons in Hb. destruct Hb as [Hb Ht].
    destruct (b <? 128) eqn:E; [reflexivity|].
    replace (b <? 256) with true by lia.
    rewrite (IH t Ht). destruct (classify L t); reflexivity.
Qed.

(* the model's loop, [k] octets read so far, follows the classification with L = 5 - k *)
Lemma loop_classify : forall L bs k shift ret, octets bs -> N.of_nat L + k = 5 -> (1 <= L)%nat ->
  decode_int_loop k shift ret bs =
  match classify L bs with
  | CDone v rest => ROk (ret + v * 2 ^ shift) rest
  | CShort => RErr (NeedMore IntegerUnderflow)
  | CLong => RErr IntegerOverflow
  end.
Proof.
  induction L as [|L IH]; intros bs k shift ret Hb Hk HL; [lia|].
  destruct bs as [|b t]; cbn [decode_int_loop classify]; [reflexivity|].
  apply octets_cons in Hb. destruct Hb as [Hb Ht].
  unfold VARINT_FLAG, VARINT_MASK, MAX_BYTES.
  rewrite land_128_zero by exact Hb. rewrite land_127, N.shiftl_mul_pow2.
  destruct (b <? 128) eqn:E.
  - rewrite N.mod_small by lia. reflexivity.
  - destruct (k + 1 =? 5) eqn:E5.
    + assert (L = O) by lia. subst L. cbn [classify]. reflexivity.
    + rewrite (IH t (k + 1) (shift + 7) _ Ht) by lia.
      assert (Hm : b mod 128 = b - 128) by lia.
      rewrite Hm. destruct (classify L t) as [v rest| |]; try reflexivity.
      f_equal. rewrite N.pow_add_r. change (2 ^ 7) with 128. lia.
Qed.

(* ------------------------------------------------------------------------------------- *)
(* h2's decode_int = the reference decoder with 4 continuation octets *)

Definition h2_int_limit : nat := 4.        (* MAX_BYTES - 1 continuation octets *)

Theorem decode_int_ref p bs v rest : 1 <= p <= 8 -> octets bs ->
  (decode_int p bs = ROk v rest <-> ref_decode_int h2_int_limit p bs = Some (v, rest)).
Proof.
  intros Hp Hb. unfold decode_int, ref_decode_int.
  replace ((p <? 1) || (8 <? p)) with false by lia.
  destruct bs as [|b t]; [split; discriminate|].
  apply octets_cons in Hb. destruct Hb as [Hb Ht].
  rewrite land_mask by exact Hp. rewrite int_mask_pow by exact Hp.
  destruct (b mod 2 ^ p <? 2 ^ p - 1) eqn:E.
  - split; intros H; inversion H; reflexivity.
  - rewrite (loop_classify h2_int_limit t 1 0 _ Ht) by (unfold h2_int_limit; lia).
    rewrite (classify_ref _ _ Ht).
    assert (Hm : b mod 2 ^ p = 2 ^ p - 1).
    { pose proof (N.mod_upper_bound b (2 ^ p)). pose proof (pow2_pos p). lia. }
    rewrite Hm.
    destruct (classify h2_int_limit t) as [v' r'| |].
    + rewrite N.pow_0_r, N.mul_1_r. split; intros H; inversion H; reflexivity.
    + split; discriminate.
    + split; discriminate.
Qed.

(* decode_int accepts exactly the RFC representations of at most 1 + 4 octets *)
Theorem decode_int_spec p bs v rest : 1 <= p <= 8 -> octets bs ->
  (decode_int p bs = ROk v rest <->
   exists b t enc, bs = b :: t /\ bs = enc ++ rest /\ int_repr_L h2_int_limit p (b / 2 ^ p) v enc).
Proof.
  intros Hp Hb. rewrite (decode_int_ref p bs v rest Hp Hb).
  destruct bs as [|b t].
  - split; [discriminate|]. intros (b & t & enc & E & _). discriminate.
  - rewrite ref_decode_int_spec. split.
    + intros (enc & E & H). exists b, t, enc. auto.
    + intros (b' & t' & enc & E1 & E2 & H). inversion E1; subst. exists enc. auto.
Qed.

Example decode_int_spec_example : decode_int 5 [31; 154; 10; 7] = ROk 1337 [7].
Proof. vm_compute. reflexivity. Qed.           (* RFC 7541 C.1.2 *)

Lemma invalid_prefix p bs : p < 1 \/ 8 < p -> decode_int p bs = RErr InvalidIntegerPrefix.
Proof. intros Hp. unfold decode_int. replace ((p <? 1) || (8 <? p)) with true by lia. reflexivity. Qed.

(* every outcome of decode_int, by the shape of the input *)
Lemma decode_int_cases p b t : 1 <= p <= 8 -> octets (b :: t) ->
  decode_int p (b :: t) =
  if b mod 2 ^ p <? 2 ^ p - 1 then ROk (b mod 2 ^ p) t
  else match classify h2_int_limit t with
       | CDone v rest => ROk (2 ^ p - 1 + v) rest
       | CShort => RErr (NeedMore IntegerUnderflow)
       | CLong => RErr IntegerOverflow
       end.
Proof.
  intros Hp Hb. apply octets_cons in Hb. destruct Hb as [Hb Ht].
  unfold decode_int. replace ((p <? 1) || (8 <? p)) with false by lia.
  rewrite land_mask by exact Hp. rewrite int_mask_pow by exact Hp.
  destruct (b mod 2 ^ p <? 2 ^ p - 1) eqn:E; [reflexivity|].
  rewrite (loop_classify h2_int_limit t 1 0 _ Ht) by (unfold h2_int_limit; lia).
  assert (Hm : b mod 2 ^ p = 2 ^ p - 1).
  { pose proof (N.mod_upper_bound b (2 ^ p)). pose proof (pow2_pos p). lia. }
  rewrite Hm. destruct (classify h2_int_limit t); try reflexivity.
  rewrite N.pow_0_r, N.mul_1_r. reflexivity.
Qed.

(* classification and extension of the input *)
Lemma classify_done_app L : forall bs v rest x,
  classify L bs = CDone v rest -> classify L (bs ++ x) = CDone v (rest ++ x).
Proof.
  induction L as [|L IH]; intros bs v rest x H; cbn [classify] in *; [discriminate|].
  destruct bs as [|b t]; [discriminate|]. cbn [app].
  destruct (b <? 128) eqn:E.
  - inversion H; subst. reflexivity.
  - destruct (classify L t) as [v' r'| |] eqn:E2; try discriminate.
    inversion H; subst. rewrite (IH _ _ _ x E2). reflexivity.
Qed.

Lemma classify_long_app L : forall bs x, classify L bs = CLong -> classify L (bs ++ x) = CLong.
Proof.
  induction L as [|L IH]; intros bs x H; cbn [classify] in *; [reflexivity|].
  destruct bs as [|b t]; [discriminate|]. cbn [app].
  destruct (b <? 128) eqn:E; [discriminate|].
  destruct (classify L t) as [v' r'| |] eqn:E2; try discriminate.
  rewrite (IH _ x E2). reflexivity.
Qed.

(* CShort: all octets present have bit 7 set and there are fewer than L of them *)
Lemma classify_short L : forall bs, classify L bs = CShort <->
  (length bs < L)%nat /\ Forall (fun b => 128 <= b) bs.
Proof.
  induction L as [|L IH]; intros bs; cbn [classify].
  - split; [discriminate|]. intros [H _]. lia.
  - destruct bs as [|b t].
    + split; [intros _|reflexivity]. split; [cbn [length]; lia|constructor].
    + destruct (b <? 128) eqn:E.
      * split; [discriminate|]. intros [_ H]. inversion H; subst. lia.
      * specialize (IH t). destruct (classify L t) as [v' r'| |].
        -- split; [discriminate|]. intros [Hl H]. inversion H; subst.
           cbn [length] in Hl. assert (A : (length t < L)%nat) by lia.
           destruct IH as [_ IH]. discriminate (IH (conj A H3)).
        -- split; [intros _|reflexivity].
           destruct IH as [IH _]. destruct (IH eq_refl) as [Hl Hf].
           split; [cbn [length]; lia|constructor; [lia|exact Hf]].
        -- split; [discriminate|]. intros [Hl H]. inversion H; subst.
           cbn [length] in Hl. assert (A : (length t < L)%nat) by lia.
           destruct IH as [_ IH]. discriminate (IH (conj A H3)).
Qed.

Lemma classify_long L : forall bs, classify L bs = CLong <->
  (L <= length bs)%nat /\ Forall (fun b => 128 <= b) (firstn L bs).
Proof.
  induction L as [|L IH]; intros bs; cbn [classify].
  - split; [intros _|reflexivity]. split; [lia|constructor].
  - destruct bs as [|b t].
    + split; [discriminate|]. intros [H _]. cbn [length] in H. lia.
    + cbn [firstn length]. destruct (b <? 128) eqn:E.
      * split; [discriminate|]. intros [_ H]. inversion H; subst. lia.
      * specialize (IH t). destruct (classify L t) as [v' r'| |].
        -- split; [discriminate|]. intros [Hl H]. inversion H; subst.
           assert (A : (L <= length t)%nat) by lia.
           destruct IH as [_ IH]. discriminate (IH (conj A H3)).
        -- split; [discriminate|]. intros [Hl H]. inversion H; subst.
           assert (A : (L <= length t)%nat) by lia.
           destruct IH as [_ IH]. discriminate (IH (conj A H3)).
        -- split; [intros _|reflexivity].
           destruct IH as [IH _]. destruct (IH eq_refl) as [Hl Hf].
           split; [lia|constructor; [lia|exact Hf]].
Qed.

(* NeedMore(IntegerUnderflow): exactly the truncated inputs -- nothing, or an all-ones prefix
   followed by at most 3 octets that all announce a successor *)
Theorem decode_int_need_more p bs : 1 <= p <= 8 -> octets bs ->
  (decode_int p bs = RErr (NeedMore IntegerUnderflow) <->
   bs = [] \/
   exists b t, bs = b :: t /\ b mod 2 ^ p = 2 ^ p - 1 /\ (length t < h2_int_limit)%nat /\
               Forall (fun c => 128 <= c) t).
Proof.
  intros Hp Hb. destruct bs as [|b t].
  - split; [intros _; left; reflexivity|intros _].
    unfold decode_int. replace ((p <? 1) || (8 <? p)) with false by lia. reflexivity.
  - rewrite (decode_int_cases p b t Hp Hb).
    pose proof (N.mod_upper_bound b (2 ^ p)) as Hm. pose proof (pow2_pos p) as Hpp.
    destruct (b mod 2 ^ p <? 2 ^ p - 1) eqn:E.
    + split; [discriminate|]. intros [H|(b' & t' & H & Hm' & _)]; [discriminate|].
      inversion H; subst. lia.
    + destruct (classify h2_int_limit t) as [v r| |] eqn:Ec.
      * split; [discriminate|]. intros [H|(b' & t' & H & _ & Hl & Hf)]; [discriminate|].
        inversion H; subst.
        assert (A : classify h2_int_limit t' = CShort) by (apply classify_short; split; assumption).
        rewrite A in Ec. discriminate.
      * split; [intros _|reflexivity]. right. exists b, t.
        apply classify_short in Ec. destruct Ec as [Hl Hf].
        split; [reflexivity|]. split; [lia|]. split; [exact Hl|exact Hf].
      * split; [discriminate|]. intros [H|(b' & t' & H & _ & Hl & Hf)]; [discriminate|].
        inversion H; subst.
        assert (A : classify h2_int_limit t' = CShort) by (apply classify_short; split; assumption).
        rewrite A in Ec. discriminate.
Qed.

(* ... and such an input is a proper prefix of a valid representation: one more octet < 128
   completes it *)
Theorem decode_int_need_more_completable p bs c : 1 <= p <= 8 -> octets bs -> c < 128 -> bs <> [] ->
  decode_int p bs = RErr (NeedMore IntegerUnderflow) ->
  exists v, decode_int p (bs ++ [c]) = ROk v [].
Proof.
  intros Hp Hb Hc Hne H.
  apply (decode_int_need_more p bs Hp Hb) in H.
  destruct H as [H|(b & t & -> & Hm & Hl & Hf)]; [contradiction|].
  assert (Ho : octets ((b :: t) ++ [c])).
  { apply octets_app. split; [exact Hb|]. apply octets_cons. split; [lia|constructor]. }
  cbn [app] in *. rewrite (decode_int_cases p b (t ++ [c]) Hp Ho).
  replace (b mod 2 ^ p <? 2 ^ p - 1) with false by lia.
  assert (A : exists v, classify h2_int_limit (t ++ [c]) = CDone v []).
  { clear - Hl Hf Hc. revert Hl. generalize h2_int_limit as L.
    induction t as [|x t IH]; intros L Hl.
    - destruct L as [|L]; [cbn [length] in Hl; lia|]. cbn [app classify].
      replace (c <? 128) with true by lia. eauto.
    - destruct L as [|L]; [cbn [length] in Hl; lia|]. inversion Hf; subst.
      cbn [app classify]. replace (x <? 128) with false by lia.
      destruct (IH H2 L) as [v Hv]; [cbn [length] in Hl; lia|]. rewrite Hv. eauto. }
  destruct A as [v Hv]. rewrite Hv. eauto.
Qed.

(* a truncated valid representation gives NeedMore *)
Theorem decode_int_truncated p hi v enc n : 1 <= p <= 8 -> octets enc ->
  int_repr_L h2_int_limit p hi v enc -> (n < length enc)%nat ->
  decode_int p (firstn n enc) = RErr (NeedMore IntegerUnderflow).
Proof.
  intros Hp Ho [H Hl] Hn.
  assert (Ho' : octets (firstn n enc)).
  { unfold octets in *. rewrite Forall_forall in *. intros x Hx. apply Ho.
    rewrite <- (firstn_skipn n enc). apply in_or_app. left. exact Hx. }
  apply (decode_int_need_more p _ Hp Ho').
  pose proof (pow2_pos p) as Hpp.
  inversion H; subst.
  - cbn [length] in Hn. assert (n = O) by lia. subst n. left. reflexivity.
  - destruct n as [|n]; [left; reflexivity|]. right.
    cbn [firstn]. eexists _, _. split; [reflexivity|].
    destruct (divmod_first p hi (2 ^ p - 1)) as [_ Hm]; [lia|].
    split; [exact Hm|].
    cbn [length] in Hn, Hl.
    split.
    + rewrite firstn_length. unfold h2_int_limit in *. lia.
    + (* all but the last octet of a continuation have bit 7 set *)
      assert (n < length bs)%nat by lia.
      clear - H0 H1. revert n H1. induction H0 as [v0 Hv0|lo hi0 bs0 Hlo Hc IH]; intros n Hn.
      * cbn [length] in Hn. assert (n = O) by lia. subst. constructor.
      * destruct n as [|n]; [constructor|]. cbn [firstn]. constructor; [lia|].
        apply IH. cbn [length] in Hn. lia.
Qed.

(* IntegerOverflow: exactly when the all-ones prefix is followed by 4 octets with bit 7 set
   (a fifth continuation octet is announced), whatever comes after *)
Theorem decode_int_overflow p bs : 1 <= p <= 8 -> octets bs ->
  (decode_int p bs = RErr IntegerOverflow <->
   exists b t, bs = b :: t /\ b mod 2 ^ p = 2 ^ p - 1 /\ (h2_int_limit <= length t)%nat /\
               Forall (fun c => 128 <= c) (firstn h2_int_limit t)).
Proof.
  intros Hp Hb. destruct bs as [|b t].
  - unfold decode_int. replace ((p <? 1) || (8 <? p)) with false by lia.
    split; [discriminate|]. intros (b & t & H & _). discriminate.
  - rewrite (decode_int_cases p b t Hp Hb).
    pose proof (N.mod_upper_bound b (2 ^ p)) as Hm. pose proof (pow2_pos p) as Hpp.
    destruct (b mod 2 ^ p <? 2 ^ p - 1) eqn:E.
    + split; [discriminate|]. intros (b' & t' & H & Hm' & _). inversion H; subst. lia.
    + destruct (classify h2_int_limit t) as [v r| |] eqn:Ec.
      * split; [discriminate|]. intros (b' & t' & H & _ & Hl & Hf). inversion H; subst.
        assert (A : classify h2_int_limit t' = CLong) by (apply classify_long; split; assumption).
        rewrite A in Ec. discriminate.
      * split; [discriminate|]. intros (b' & t' & H & _ & Hl & Hf). inversion H; subst.
        assert (A : classify h2_int_limit t' = CLong) by (apply classify_long; split; assumption).
        rewrite A in Ec. discriminate.
      * split; [intros _|reflexivity]. exists b, t. apply classify_long in Ec.
        destruct Ec as [Hl Hf]. split; [reflexivity|]. split; [lia|]. split; assumption.
Qed.

(* values: no usize wrap-around *)
Lemma classify_bound L : forall bs v rest, octets bs ->
  classify L bs = CDone v rest -> v < 128 ^ N.of_nat L.
Proof.
  induction L as [|L IH]; intros bs v rest Hb H; cbn [classify] in H; [discriminate|].
  destruct bs as [|b t]; [discriminate|].
  apply octets_cons in Hb. destruct Hb as [Hb Ht].
  rewrite Nat2N.inj_succ, N.pow_succ_r'.
  assert (0 < 128 ^ N.of_nat L) by (apply N.neq_0_lt_0; apply N.pow_nonzero; lia).
  destruct (b <? 128) eqn:E.
  - inversion H; subst. lia.
  - destruct (classify L t) as [v' r'| |] eqn:E2; try discriminate.
    inversion H; subst. specialize (IH _ _ _ Ht E2). lia.
Qed.

Theorem decode_int_bound p bs v rest : 1 <= p <= 8 -> octets bs ->
  decode_int p bs = ROk v rest -> v < 2 ^ 28 + 255.
Proof.
  intros Hp Hb H. destruct bs as [|b t].
  - unfold decode_int in H. replace ((p <? 1) || (8 <? p)) with false in H by lia. discriminate.
  - rewrite (decode_int_cases p b t Hp Hb) in H.
    assert (Hpow : 2 ^ p <= 256).
    { change 256 with (2 ^ 8). apply N.pow_le_mono_r; lia. }
    pose proof (N.mod_upper_bound b (2 ^ p)) as Hm. pose proof (pow2_pos p) as Hpp.
    destruct (b mod 2 ^ p <? 2 ^ p - 1) eqn:E.
    + inversion H; subst. lia.
    + apply octets_cons in Hb. destruct Hb as [_ Ht].
      destruct (classify h2_int_limit t) as [v' r'| |] eqn:Ec; try discriminate.
      inversion H; subst. apply classify_bound in Ec; [|exact Ht].
      change (128 ^ N.of_nat h2_int_limit) with (2 ^ 28) in Ec. lia.
Qed.

(* round trip with the canonical encoder, for every value that fits into 4 continuation octets *)
Theorem decode_int_encode_int p hi v rest : 1 <= p <= 8 -> hi < 2 ^ (8 - p) ->
  v < 2 ^ p - 1 + 2 ^ 28 -> octets rest ->
  decode_int p (encode_int p hi v ++ rest) = ROk v rest.
Proof.
  intros Hp Hhi Hv Hr.
  pose proof (encode_int_repr p hi v) as H.
  assert (Hl : (length (encode_int p hi v) <= S h2_int_limit)%nat).
  { unfold encode_int. destruct (v <? 2 ^ p - 1) eqn:E; [cbn [length]; lia|].
    cbn [length]. apply le_n_S.
    destruct (N.eq_dec (v - (2 ^ p - 1)) 0) as [Hz|Hnz].
    - rewrite Hz. vm_compute. lia.
    - apply encode_cont_length; [change (128 ^ N.of_nat h2_int_limit) with (2 ^ 28); lia|unfold h2_int_limit; lia]. }
  assert (Ho : octets (encode_int p hi v ++ rest)).
  { apply octets_app. split; [|exact Hr].
    inversion H; subst.
    - apply octets_cons. split; [|constructor].
      assert (2 ^ (8 - p) * 2 ^ p = 256).
      { rewrite <- N.pow_add_r. replace (8 - p + p) with 8 by lia. reflexivity. }
      pose proof (pow2_pos p). nia.
    - apply octets_cons. split.
      + assert (2 ^ (8 - p) * 2 ^ p = 256).
        { rewrite <- N.pow_add_r. replace (8 - p + p) with 8 by lia. reflexivity. }
        pose proof (pow2_pos p). nia.
      + eapply cont_repr_octets. eassumption. }
  apply (decode_int_ref p _ v rest Hp Ho).
  apply (ref_decode_int_complete h2_int_limit p hi v _ rest). split; assumption.
Qed.

Example decode_int_encode_int_example :
  decode_int 7 (encode_int 7 1 268435582 ++ [9]) = ROk 268435582 [9].
Proof. vm_compute. reflexivity. Qed.    (* 2^7 - 1 + 2^28 - 1: the largest accepted value *)

(* the bound of the round trip is sharp: the next value needs a fifth continuation octet *)
Example decode_int_beyond_bound :
  decode_int 7 (encode_int 7 1 268435583) = RErr IntegerOverflow.
Proof. vm_compute. reflexivity. Qed.

(* the relation also contains non-canonical forms, which h2 accepts within its octet limit *)
Example decode_int_padded : decode_int 5 [63; 128; 128; 0; 7] = ROk 31 [7].
Proof. vm_compute. reflexivity. Qed.
Example int_repr_padded : int_repr 5 1 31 [63; 128; 128; 0].
Proof.
  change 31 with (2 ^ 5 - 1 + 0). change 63 with (1 * 2 ^ 5 + (2 ^ 5 - 1)).
  constructor.
  change 0 with (0 + 128 * (0 + 128 * 0)). change 128 with (128 + 0) at 1 3.
  repeat (apply cont_more; [lia|]). constructor. lia.
Qed.

(* the other outcomes, on the RFC 7541 C.1.2 example cut short / prolonged *)
Example decode_int_need_more_example : decode_int 5 [31; 154] = RErr (NeedMore IntegerUnderflow).
Proof. vm_compute. reflexivity. Qed.
Example decode_int_truncated_example :
  int_repr_L h2_int_limit 5 0 1337 [31; 154; 10] /\
  decode_int 5 (firstn 2 [31; 154; 10]) = RErr (NeedMore IntegerUnderflow).
Proof.
  split; [|vm_compute; reflexivity]. split; [|cbn [length]; unfold h2_int_limit; lia].
  change 1337 with (2 ^ 5 - 1 + (26 + 128 * 10)). change 31 with (0 * 2 ^ 5 + (2 ^ 5 - 1)).
  constructor. change 154 with (128 + 26). apply cont_more; [lia|]. constructor. lia.
Qed.
Example decode_int_overflow_example :
  decode_int 5 [31; 128; 128; 128; 128; 1] = RErr IntegerOverflow.
Proof. vm_compute. reflexivity. Qed.
Example decode_int_invalid_prefix_example : decode_int 9 [255] = RErr InvalidIntegerPrefix.
Proof. vm_compute. reflexivity. Qed.
