(* Proofs about the HPACK header-block decoder (property C11, main part).

   Part A  static table: generated = RFC, index_static consistent with get_static
   Part B  the executable reference decoder of Ref/Rfc7541Block.v is sound and complete for the
           declarative relation [block_decodes]
   Part C  the model of h2's decoder (Model/HpackDec.v) against the reference:
           hpack_decode_sound, hpack_decode_complete_modulo_validation
   Part D  dynamic table invariants over every history: hpack_table_bounded
   Part E  feeding a block in fragments: hpack_chunking (and exactly when it fails)
   Part F  examples (RFC 7541 Appendix C) and the reproduced deviations as Examples

   Throughout, [hd] is an arbitrary Huffman string decoder and the integer limit is h2's
   (4 continuation octets, [h2_int_limit]). *)
From Coq Require Import String.
From H2V Require Import Base.Tac Base.Bytes Gen.StaticTable.
From H2V Require Import Ref.Rfc7541Static Ref.Rfc7541Int Ref.Rfc7541Block.
From H2V Require Import Model.HttpTokens Model.HpackInt Model.HpackDec Proofs.HpackIntProofs.
Local Open Scope N_scope.

Notation rfield := (list N * list N)%type (only parsing).
Notation rlenN := Rfc7541Block.lenN.

(* ===================================================================================== *)
(* Part A: the static table                                                               *)

Theorem gen_static_is_rfc :
  map snd static_get = rfc_static /\
  map fst static_get = map N.of_nat (seq 1 61) /\
  get_static_last = rfc_static_len /\
  get_dyn_base = rfc_static_len + 1 /\
  dyn_offset = rfc_static_len + 1.
Proof. repeat split; vm_compute; reflexivity. Qed.

(* index_static (encoder side) against get_static: an exact hit names the entry with that name
   and value, a name-only hit names the FIRST entry with that name *)
Fixpoint first_index_of (name : list N) (l : list (N * (list N * list N))) : option N :=
  match l with
  | [] => None
  | (i, (n, _)) :: l' => if list_N_eqb n name then Some i else first_index_of name l'
  end.

Definition static_index_entry_ok (e : list N * option (list N) * N * bool) : bool :=
  let '(name, ov, idx, exact) := e in
  match get_static idx with
  | None => false
  | Some (n, v) =>
    list_N_eqb n name &&
    match ov with
    | Some v' => exact && list_N_eqb v v'
    | None => negb exact &&
              match first_index_of name static_get with Some i => i =? idx | None => false end
    end
  end.

(* every static entry is reachable through index_static: by name, and by value when it has one *)
Definition static_get_entry_covered (e : N * (list N * list N)) : bool :=
  let '(i, (n, v)) := e in
  existsb (fun x => let '(name, ov, _, _) := x in
                    list_N_eqb name n && match ov with None => true | Some _ => false end)
          static_index &&
  match v with
  | [] => true
  | _ :: _ => existsb (fun x => let '(name, ov, idx, exact) := x in
                                list_N_eqb name n && (idx =? i) && exact &&
                                match ov with Some v' => list_N_eqb v' v | None => false end)
                      static_index
  end.

Theorem static_index_inverse :
  forallb static_index_entry_ok static_index = true /\
  forallb static_get_entry_covered static_get = true.
Proof. split; vm_compute; reflexivity. Qed.

(* the same, unfolded for one entry *)
Corollary static_index_inverse_entry name ov idx exact :
  In (name, ov, idx, exact) static_index ->
  exists v, get_static idx = Some (name, v) /\
            match ov with Some v' => exact = true /\ v = v' | None => exact = false end.
Proof.
  intros HIn. destruct static_index_inverse as [H _].
  rewrite forallb_forall in H. specialize (H _ HIn).
  change (static_index_entry_ok (name, ov, idx, exact)) with
    (match get_static idx with
     | None => false
     | Some (n, v) =>
       list_N_eqb n name &&
       match ov with
       | Some v' => exact && list_N_eqb v v'
       | None => negb exact &&
                 match first_index_of name static_get with Some i => i =? idx | None => false end
       end
     end) in H.
  destruct (get_static idx) as [[n v]|]; [|discriminate].
  apply andb_true_iff in H. destruct H as [Hn H]. apply list_N_eqb_eq in Hn. subst n.
  exists v. split; [reflexivity|]. destruct ov as [v'|].
  - apply andb_true_iff in H. destruct H as [He Hv]. apply list_N_eqb_eq in Hv. auto.
  - apply andb_true_iff in H. destruct H as [He _]. destruct exact; [discriminate|reflexivity].
Qed.

(* get_static on its domain is the RFC table *)
Definition opt_field_eqb (a b : option (list N * list N)) : bool :=
  match a, b with
  | Some x, Some y => list_N_eqb (fst x) (fst y) && list_N_eqb (snd x) (snd y)
  | None, None => true
  | _, _ => false
  end.

Lemma opt_field_eqb_eq a b : opt_field_eqb a b = true -> a = b.
Proof.
  destruct a as [[a1 a2]|], b as [[b1 b2]|]; cbn [opt_field_eqb fst snd]; try discriminate; auto.
  intros H. apply andb_true_iff in H. destruct H as [H1 H2].
  apply list_N_eqb_eq in H1, H2. subst. reflexivity.
Qed.

Lemma get_static_rfc i : 1 <= i <= 61 -> get_static i = nthN rfc_static (i - 1).
Proof.
  intros Hi.
  assert (H : forallb (fun i => (i =? 0) || opt_field_eqb (get_static i) (nthN rfc_static (i - 1)))
                      (N_upto 62) = true) by (vm_compute; reflexivity).
  rewrite forallb_forall in H. specialize (H i (N_upto_In 62 i ltac:(lia))).
  apply orb_true_iff in H. destruct H as [H|H]; [lia|]. apply opt_field_eqb_eq. exact H.
Qed.

Lemma get_static_some i : 1 <= i <= 61 -> exists f, get_static i = Some f.
Proof.
  intros Hi.
  assert (H : forallb (fun i => (i =? 0) || match get_static i with Some _ => true | None => false end)
                      (N_upto 62) = true) by (vm_compute; reflexivity).
  rewrite forallb_forall in H. specialize (H i (N_upto_In 62 i ltac:(lia))).
  apply orb_true_iff in H. destruct H as [H|H]; [lia|].
  destruct (get_static i) as [f|]; [eauto|discriminate].
Qed.

(* ===================================================================================== *)
(* Part B: reference decoder = relation                                                    *)

Lemma split_at_spec : forall l n a b,
  split_at n l = Some (a, b) <-> l = a ++ b /\ rlenN a = n.
Proof.
  unfold Rfc7541Block.lenN.
  induction l as [|x l IH]; intros n a b; cbn [split_at].
  - destruct (n =? 0) eqn:E.
    + split.
      * intros H; inversion H. split; [reflexivity|cbn [length]; lia].
      * intros [H1 H2]. symmetry in H1. apply app_eq_nil in H1. destruct H1 as [-> ->]. reflexivity.
    + split; [discriminate|]. intros [H1 H2]. symmetry in H1. apply app_eq_nil in H1.
      destruct H1 as [-> ->]. cbn [length] in H2. lia.
  - destruct (n =? 0) eqn:E.
    + split.
      * intros H; inversion H. split; [reflexivity|cbn [length]; lia].
      * intros [H1 H2]. destruct a as [|y a].
        -- cbn [app] in H1. rewrite H1. reflexivity.
        -- cbn [length] in H2. lia.
    + specialize (IH (n - 1)).
      destruct (split_at (n - 1) l) as [[a' b']|] eqn:E2.
      * split.
        -- intros H; inversion H as [[Ha Hb]]. clear H. rewrite <- Hb.
           destruct (IH a' b') as [IH1 _].
           destruct (IH1 eq_refl) as [Hl1 Hl2]. rewrite Hl1.
           split; [reflexivity|cbn [length]; lia].
        -- intros [H1 H2]. destruct a as [|y a]; [cbn [length] in H2; lia|].
           cbn [app] in H1. inversion H1 as [[Hx Hl]].
           destruct (IH a b) as [_ IH2].
           assert (A : Some (a', b') = Some (a, b)).
           { apply IH2. split; [exact Hl|cbn [length] in H2; lia]. }
           inversion A. reflexivity.
      * split; [discriminate|]. intros [H1 H2].
        destruct a as [|y a]; [cbn [length] in H2; lia|].
        cbn [app] in H1. inversion H1 as [[Hx Hl]].
        destruct (IH a b) as [_ IH2].
        assert (A : None = Some (a, b)).
        { apply IH2. split; [exact Hl|cbn [length] in H2; lia]. }
        discriminate A.
Qed.

Lemma split_at_app a b : split_at (rlenN a) (a ++ b) = Some (a, b).
Proof. apply split_at_spec. split; reflexivity. Qed.

Lemma int_repr_nonempty p hi v enc : int_repr p hi v enc -> (1 <= length enc)%nat.
Proof. intros H; inversion H; cbn [length]; lia. Qed.

Lemma int_repr_L_nonempty L p hi v enc : int_repr_L L p hi v enc -> (1 <= length enc)%nat.
Proof. intros [H _]. eapply int_repr_nonempty; eassumption. Qed.

(* first octet of a representation with a given prefix/pattern *)
Lemma int_repr_L_first L p hi v enc : int_repr_L L p hi v enc ->
  exists b t, enc = b :: t /\ b / 2 ^ p = hi /\ b = hi * 2 ^ p + b mod 2 ^ p /\ b mod 2 ^ p < 2 ^ p.
Proof.
  intros [H _]. destruct (int_repr_first _ _ _ _ H) as (low & t & -> & Hl).
  destruct (divmod_first p hi low Hl) as [Hd Hm].
  eexists _, _. split; [reflexivity|]. rewrite Hd, Hm. repeat split; auto.
Qed.

(* ---- strings ---- *)
Lemma ref_string_sound hd L bs s rest :
  ref_string hd L bs = Some (s, rest) -> exists enc, bs = enc ++ rest /\ string_lit hd L enc s.
Proof.
  unfold ref_string. destruct bs as [|b t]; [discriminate|].
  destruct (ref_decode_int L 7 (b :: t)) as [[len r1]|] eqn:E1; [|discriminate].
  destruct (split_at len r1) as [[raw r2]|] eqn:E2; [|discriminate].
  apply ref_decode_int_sound in E1. destruct E1 as (enc & Eb & Hi).
  apply split_at_spec in E2. destruct E2 as [-> Hl].
  change (2 ^ 7) with 128 in Hi.
  destruct (b / 128 =? 0) eqn:E3.
  - intros H; inversion H; subst. apply N.eqb_eq in E3. rewrite E3 in Hi.
    exists (enc ++ s). split; [rewrite Eb, app_assoc; reflexivity|].
    apply str_raw. exact Hi.
  - destruct (b / 128 =? 1) eqn:E4; [|discriminate].
    destruct (hd raw) as [s'|] eqn:E5; [|discriminate].
    intros H; inversion H; subst. apply N.eqb_eq in E4. rewrite E4 in Hi.
    exists (enc ++ raw). split; [rewrite Eb, app_assoc; reflexivity|].
    eapply str_huff; eassumption.
Qed.

Lemma ref_string_complete hd L enc s rest :
  string_lit hd L enc s -> ref_string hd L (enc ++ rest) = Some (s, rest).
Proof.
  intros H. inversion H as [e1 s' Hi|e1 raw s' Hi Hh]; subst.
  - destruct (int_repr_L_first _ _ _ _ _ Hi) as (b & t & -> & Hd & _).
    destruct (ref_decode_int_complete L 7 0 _ _ (s ++ rest) Hi) as [Hr _].
    rewrite <- app_assoc. cbn [app] in *. unfold ref_string. rewrite Hr.
    rewrite split_at_app. change (2 ^ 7) with 128 in Hd. rewrite Hd. reflexivity.
  - destruct (int_repr_L_first _ _ _ _ _ Hi) as (b & t & -> & Hd & _).
    destruct (ref_decode_int_complete L 7 1 _ _ (raw ++ rest) Hi) as [Hr _].
    rewrite <- app_assoc. cbn [app] in *. unfold ref_string. rewrite Hr.
    rewrite split_at_app. change (2 ^ 7) with 128 in Hd. rewrite Hd.
    cbn [N.eqb]. rewrite Hh. reflexivity.
Qed.

Lemma string_lit_nonempty hd L enc s : string_lit hd L enc s -> (1 <= length enc)%nat.
Proof.
  intros H; inversion H as [e1 s' Hi|e1 raw s' Hi Hh]; subst;
    apply int_repr_L_nonempty in Hi; rewrite app_length; lia.
Qed.

(* ---- literal names ---- *)
Lemma ref_lit_name_sound hd L dyn p b t n rest :
  ref_lit_name hd L dyn p (b :: t) = Some (n, rest) ->
  exists enc, b :: t = enc ++ rest /\ lit_name hd L dyn p (b / 2 ^ p) enc n.
Proof.
  unfold ref_lit_name.
  destruct (ref_decode_int L p (b :: t)) as [[i r1]|] eqn:E1; [|discriminate].
  apply ref_decode_int_sound in E1. destruct E1 as (enc & Eb & Hi).
  destruct (i =? 0) eqn:E2.
  - apply N.eqb_eq in E2. subst i. intros H.
    apply ref_string_sound in H. destruct H as (senc & -> & Hs).
    exists (enc ++ senc). split; [rewrite Eb, app_assoc; reflexivity|].
    apply ln_new; assumption.
  - destruct (lookup dyn i) as [[n' v0]|] eqn:E3; [|discriminate].
    intros H; inversion H; subst. exists enc. split; [exact Eb|].
    eapply ln_indexed; [exact Hi|lia|exact E3].
Qed.

Lemma ref_lit_name_complete hd L dyn p hi enc n rest :
  lit_name hd L dyn p hi enc n ->
  ref_lit_name hd L dyn p (enc ++ rest) = Some (n, rest) /\
  exists b t, enc = b :: t /\ b / 2 ^ p = hi /\ b = hi * 2 ^ p + b mod 2 ^ p /\ b mod 2 ^ p < 2 ^ p.
Proof.
  intros H. inversion H as [e i n' v0 Hi Hnz Hl|e nenc n' Hi Hs]; subst.
  - destruct (ref_decode_int_complete L p hi _ _ rest Hi) as [Hr _].
    split; [|eapply int_repr_L_first; eassumption].
    unfold ref_lit_name. rewrite Hr. replace (i =? 0) with false by lia. rewrite Hl. reflexivity.
  - destruct (ref_decode_int_complete L p hi _ _ (nenc ++ rest) Hi) as [Hr _].
    split.
    + unfold ref_lit_name. rewrite <- app_assoc, Hr. cbn [N.eqb].
      apply ref_string_complete. exact Hs.
    + destruct (int_repr_L_first _ _ _ _ _ Hi) as (b & t & -> & Hrest).
      exists b, (t ++ nenc). split; [reflexivity|exact Hrest].
Qed.

Lemma ref_literal_sound hd L dyn p b t f rest :
  ref_literal hd L dyn p (b :: t) = Some (f, rest) ->
  exists nenc venc, b :: t = (nenc ++ venc) ++ rest /\
    lit_name hd L dyn p (b / 2 ^ p) nenc (fst f) /\ string_lit hd L venc (snd f).
Proof.
  unfold ref_literal.
  destruct (ref_lit_name hd L dyn p (b :: t)) as [[n r1]|] eqn:E1; [|discriminate].
  destruct (ref_string hd L r1) as [[v r2]|] eqn:E2; [|discriminate].
  intros H; inversion H; subst. cbn [fst snd].
  apply ref_lit_name_sound in E1. destruct E1 as (nenc & Eb & Hn).
  apply ref_string_sound in E2. destruct E2 as (venc & -> & Hv).
  exists nenc, venc. split; [rewrite Eb, app_assoc; reflexivity|]. split; assumption.
Qed.

Lemma ref_literal_complete hd L dyn p hi nenc n venc v rest :
  lit_name hd L dyn p hi nenc n -> string_lit hd L venc v ->
  ref_literal hd L dyn p ((nenc ++ venc) ++ rest) = Some ((n, v), rest).
Proof.
  intros Hn Hv. unfold ref_literal.
  destruct (ref_lit_name_complete hd L dyn p hi nenc n (venc ++ rest) Hn) as [Hr _].
  rewrite <- app_assoc, Hr. rewrite (ref_string_complete hd L venc v rest Hv). reflexivity.
Qed.

(* ---- one header field representation ---- *)
Theorem ref_field_step_sound hd L max dyn bs f dyn1 rest :
  ref_field_step hd L max dyn bs = Some (f, dyn1, rest) ->
  exists enc, bs = enc ++ rest /\ field_repr hd L max dyn enc f dyn1.
Proof.
  unfold ref_field_step. destruct bs as [|b t]; [discriminate|].
  destruct (b / 128 =? 1) eqn:E1.
  - destruct (ref_decode_int L 7 (b :: t)) as [[i r1]|] eqn:E2; [|discriminate].
    destruct (lookup dyn i) as [f'|] eqn:E3; [|discriminate].
    intros H; inversion H; subst.
    apply ref_decode_int_sound in E2. destruct E2 as (enc & Eb & Hi).
    change (2 ^ 7) with 128 in Hi. apply N.eqb_eq in E1. rewrite E1 in Hi.
    exists enc. split; [exact Eb|]. eapply fr_indexed; eassumption.
  - destruct (b / 64 =? 1) eqn:E2.
    + destruct (ref_literal hd L dyn 6 (b :: t)) as [[f' r1]|] eqn:E3; [|discriminate].
      intros H; inversion H; subst.
      apply ref_literal_sound in E3. destruct E3 as (nenc & venc & Eb & Hn & Hv).
      change (2 ^ 6) with 64 in Hn. apply N.eqb_eq in E2. rewrite E2 in Hn.
      exists (nenc ++ venc). split; [exact Eb|].
      destruct f as [n v]. cbn [fst snd] in *. apply fr_incremental; assumption.
    + destruct ((b / 16 =? 0) || (b / 16 =? 1)) eqn:E3; [|discriminate].
      destruct (ref_literal hd L dyn 4 (b :: t)) as [[f' r1]|] eqn:E4; [|discriminate].
      intros H; inversion H; subst.
      apply ref_literal_sound in E4. destruct E4 as (nenc & venc & Eb & Hn & Hv).
      change (2 ^ 4) with 16 in Hn.
      exists (nenc ++ venc). split; [exact Eb|].
      destruct f as [n v]. cbn [fst snd] in *.
      apply orb_true_iff in E3. destruct E3 as [E3|E3]; apply N.eqb_eq in E3; rewrite E3 in Hn.
      * apply fr_without; assumption.
      * apply fr_never; assumption.
Qed.

Theorem ref_field_step_complete hd L max dyn enc f dyn1 rest :
  field_repr hd L max dyn enc f dyn1 ->
  ref_field_step hd L max dyn (enc ++ rest) = Some (f, dyn1, rest) /\
  exists b t, enc = b :: t /\ b / 32 <> 1.
Proof.
  intros H. inversion H as [e i f' Hi Hl|nenc n venc v Hn Hv|nenc n venc v Hn Hv|nenc n venc v Hn Hv]; subst.
  - destruct (ref_decode_int_complete L 7 1 _ _ rest Hi) as [Hr _].
    destruct (int_repr_L_first _ _ _ _ _ Hi) as (b & t & -> & Hd & Hb & Hm).
    change (2 ^ 7) with 128 in *.
    split; [|exists b, t; split; [reflexivity|lia]].
    cbn [app] in *. unfold ref_field_step. rewrite Hd. cbn [N.eqb]. rewrite Hr, Hl. reflexivity.
  - destruct (ref_lit_name_complete hd L _ 6 1 nenc n (venc ++ rest) Hn) as [_ (b & t & -> & Hd & Hb & Hm)].
    change (2 ^ 6) with 64 in *.
    split; [|exists b, (t ++ venc); split; [reflexivity|lia]].
    pose proof (ref_literal_complete hd L _ 6 1 _ n venc v rest Hn Hv) as Hr.
    cbn [app] in *. unfold ref_field_step.
    replace (b / 128 =? 1) with false by lia. rewrite Hd. cbn [N.eqb]. rewrite Hr. reflexivity.
  - destruct (ref_lit_name_complete hd L _ 4 0 nenc n (venc ++ rest) Hn) as [_ (b & t & -> & Hd & Hb & Hm)].
    change (2 ^ 4) with 16 in *.
    split; [|exists b, (t ++ venc); split; [reflexivity|lia]].
    pose proof (ref_literal_complete hd L _ 4 0 _ n venc v rest Hn Hv) as Hr.
    cbn [app] in *. unfold ref_field_step.
    replace (b / 128 =? 1) with false by lia. replace (b / 64 =? 1) with false by lia.
    rewrite Hd. cbn [N.eqb orb]. rewrite Hr. reflexivity.
  - destruct (ref_lit_name_complete hd L _ 4 1 nenc n (venc ++ rest) Hn) as [_ (b & t & -> & Hd & Hb & Hm)].
    change (2 ^ 4) with 16 in *.
    split; [|exists b, (t ++ venc); split; [reflexivity|lia]].
    pose proof (ref_literal_complete hd L _ 4 1 _ n venc v rest Hn Hv) as Hr.
    cbn [app] in *. unfold ref_field_step.
    replace (b / 128 =? 1) with false by lia. replace (b / 64 =? 1) with false by lia.
    rewrite Hd. cbn [N.eqb orb]. rewrite Hr. reflexivity.
Qed.

Lemma field_repr_nonempty hd L max dyn enc f dyn1 :
  field_repr hd L max dyn enc f dyn1 -> (1 <= length enc)%nat.
Proof.
  intros H. destruct (ref_field_step_complete hd L max dyn enc f dyn1 [] H) as [_ (b & t & -> & _)].
  cbn [length]. lia.
Qed.

(* ---- size update ---- *)
Theorem ref_update_step_sound L limit bs n rest :
  ref_update_step L limit bs = Some (n, rest) ->
  exists enc, bs = enc ++ rest /\ size_update_repr L limit enc n.
Proof.
  unfold ref_update_step. destruct bs as [|b t]; [discriminate|].
  destruct (b / 32 =? 1) eqn:E1; [|discriminate].
  destruct (ref_decode_int L 5 (b :: t)) as [[n' r1]|] eqn:E2; [|discriminate].
  destruct (n' <=? limit) eqn:E3; [|discriminate].
  intros H; inversion H; subst.
  apply ref_decode_int_sound in E2. destruct E2 as (enc & Eb & Hi).
  change (2 ^ 5) with 32 in Hi. apply N.eqb_eq in E1. rewrite E1 in Hi.
  exists enc. split; [exact Eb|]. constructor; [exact Hi|lia].
Qed.

Theorem ref_update_step_complete L limit enc n rest :
  size_update_repr L limit enc n ->
  ref_update_step L limit (enc ++ rest) = Some (n, rest) /\ (1 <= length enc)%nat.
Proof.
  intros H. inversion H as [e n' Hi Hle]; subst.
  destruct (ref_decode_int_complete L 5 1 _ _ rest Hi) as [Hr _].
  destruct (int_repr_L_first _ _ _ _ _ Hi) as (b & t & -> & Hd & _).
  change (2 ^ 5) with 32 in *. split; [|cbn [length]; lia].
  cbn [app] in *. unfold ref_update_step. rewrite Hd. cbn [N.eqb]. rewrite Hr.
  replace (n <=? limit) with true by lia. reflexivity.
Qed.

(* ---- sequences ---- *)
Lemma ref_fields_sound hd L max : forall fuel dyn bs fs dyn',
  ref_fields hd L max fuel dyn bs = Some (fs, dyn') -> fields_decode hd L max dyn bs fs dyn'.
Proof.
  induction fuel as [|fuel IH]; intros dyn bs fs dyn' H; cbn [ref_fields] in H.
  - destruct bs; [inversion H; constructor|discriminate].
  - destruct bs as [|b t]; [inversion H; constructor|].
    destruct (ref_field_step hd L max dyn (b :: t)) as [[[f dyn1] rest]|] eqn:E1; [|discriminate].
    destruct (ref_fields hd L max fuel dyn1 rest) as [[fs' dyn2]|] eqn:E2; [|discriminate].
    inversion H; subst.
    apply ref_field_step_sound in E1. destruct E1 as (enc & -> & Hf).
    eapply fd_cons; [exact Hf|]. apply IH. exact E2.
Qed.

Lemma ref_fields_complete hd L max dyn bs fs dyn' :
  fields_decode hd L max dyn bs fs dyn' ->
  forall fuel, (length bs <= fuel)%nat -> ref_fields hd L max fuel dyn bs = Some (fs, dyn').
Proof.
  induction 1 as [dyn|dyn enc f dyn1 bs fs dyn' Hf _ IH]; intros fuel Hl.
  - destruct fuel; reflexivity.
  - pose proof (field_repr_nonempty _ _ _ _ _ _ _ Hf) as Hne.
    destruct (ref_field_step_complete hd L max dyn enc f dyn1 bs Hf) as [Hs _].
    rewrite app_length in Hl. destruct fuel as [|fuel]; [lia|].
    cbn [ref_fields]. destruct (enc ++ bs) as [|b t] eqn:E.
    + apply app_eq_nil in E. destruct E; subst. cbn [length] in Hne. lia.
    + rewrite Hs. rewrite IH by lia. reflexivity.
Qed.

Lemma fields_decode_no_update hd L max dyn bs fs dyn' limit :
  fields_decode hd L max dyn bs fs dyn' -> ref_update_step L limit bs = None.
Proof.
  intros H. inversion H as [|dyn0 enc f dyn1 bs' fs' dyn2 Hf _]; subst; [reflexivity|].
  destruct (ref_field_step_complete hd L max dyn enc f dyn1 bs' Hf) as [_ (b & t & -> & Hb)].
  cbn [app]. unfold ref_update_step. replace (b / 32 =? 1) with false by lia. reflexivity.
Qed.

Lemma ref_block_sound hd L limit : forall fuel dyn max bs fs dyn' max',
  ref_block hd L limit fuel dyn max bs = Some (fs, dyn', max') ->
  exists b1 b2 dyn1, bs = b1 ++ b2 /\ updates_decode L limit dyn max b1 dyn1 max' /\
                     fields_decode hd L max' dyn1 b2 fs dyn'.
Proof.
  induction fuel as [|fuel IH]; intros dyn max bs fs dyn' max' H; cbn [ref_block] in H; [discriminate|].
  destruct (ref_update_step L limit bs) as [[n rest]|] eqn:E1.
  - apply ref_update_step_sound in E1. destruct E1 as (enc & -> & Hu).
    apply IH in H. destruct H as (b1 & b2 & dyn1 & -> & Hud & Hfd).
    exists (enc ++ b1), b2, dyn1. split; [rewrite app_assoc; reflexivity|]. split; [|exact Hfd].
    eapply ud_cons; eassumption.
  - destruct (ref_fields hd L max (S fuel) dyn bs) as [[fs' dyn2]|] eqn:E2; [|discriminate].
    inversion H; subst. exists [], bs, dyn. split; [reflexivity|]. split; [constructor|].
    apply ref_fields_sound in E2. exact E2.
Qed.

Lemma ref_block_complete hd L limit dyn max b1 dyn1 max1 :
  updates_decode L limit dyn max b1 dyn1 max1 ->
  forall b2 fs dyn' fuel, fields_decode hd L max1 dyn1 b2 fs dyn' ->
  (length (b1 ++ b2) < fuel)%nat ->
  ref_block hd L limit fuel dyn max (b1 ++ b2) = Some (fs, dyn', max1).
Proof.
  induction 1 as [dyn max|dyn max enc n bs dyn1 max1 Hu _ IH]; intros b2 fs dyn' fuel Hfd Hl.
  - cbn [app] in *. destruct fuel as [|fuel]; [lia|]. cbn [ref_block].
    rewrite (fields_decode_no_update _ _ _ _ _ _ _ limit Hfd).
    rewrite (ref_fields_complete _ _ _ _ _ _ _ Hfd) by lia. reflexivity.
  - destruct (ref_update_step_complete L limit enc n (bs ++ b2) Hu) as [Hs Hne].
    rewrite <- app_assoc in *. rewrite app_length in Hl.
    destruct fuel as [|fuel]; [lia|]. cbn [ref_block]. rewrite Hs.
    apply IH; [exact Hfd|lia].
Qed.

(* the executable reference decoder decides the relation *)
Theorem ref_decode_block_sound hd L rs bs fs rs' :
  ref_decode_block hd L rs bs = Some (fs, rs') -> block_decodes hd L rs bs fs rs'.
Proof.
  unfold ref_decode_block.
  destruct (ref_block hd L (r_limit rs) (S (length bs)) (r_dyn rs) (r_max rs) bs)
    as [[[fs' dyn'] max']|] eqn:E; [|discriminate].
  intros H; inversion H; subst. apply ref_block_sound in E.
  destruct E as (b1 & b2 & dyn1 & -> & Hu & Hf).
  exists b1, b2, dyn1, max'. cbn [r_dyn r_max r_limit]. auto.
Qed.

Theorem ref_decode_block_complete hd L rs bs fs rs' :
  block_decodes hd L rs bs fs rs' -> ref_decode_block hd L rs bs = Some (fs, rs').
Proof.
  intros (b1 & b2 & dyn1 & max1 & -> & Hu & Hf & Hm & Hlim).
  unfold ref_decode_block.
  rewrite (ref_block_complete hd L _ _ _ _ _ _ Hu b2 fs (r_dyn rs') _ Hf) by lia.
  destruct rs' as [d m l]. cbn [r_dyn r_max r_limit] in *. subst. reflexivity.
Qed.

Theorem ref_decode_block_spec hd L rs bs fs rs' :
  ref_decode_block hd L rs bs = Some (fs, rs') <-> block_decodes hd L rs bs fs rs'.
Proof. split; [apply ref_decode_block_sound|apply ref_decode_block_complete]. Qed.

(* so the relation is functional: a block has at most one decoding *)
Corollary block_decodes_functional hd L rs bs fs1 rs1 fs2 rs2 :
  block_decodes hd L rs bs fs1 rs1 -> block_decodes hd L rs bs fs2 rs2 -> fs1 = fs2 /\ rs1 = rs2.
Proof.
  intros H1 H2. apply ref_decode_block_complete in H1, H2. rewrite H1 in H2.
  inversion H2; auto.
Qed.

Lemma ref_reduction_signalled_spec L rs bs :
  ref_reduction_signalled L rs bs = true <-> reduction_signalled L rs bs.
Proof.
  unfold ref_reduction_signalled, reduction_signalled. rewrite orb_true_iff. split.
  - intros [H|H]; [left; lia|right].
    destruct (ref_update_step L (r_limit rs) bs) as [[n rest]|] eqn:E; [|discriminate].
    apply ref_update_step_sound in E. destruct E as (enc & -> & Hu). eauto.
  - intros [H|(enc & n & rest & -> & Hu)]; [left; lia|right].
    destruct (ref_update_step_complete L (r_limit rs) enc n rest Hu) as [-> _]. reflexivity.
Qed.

Theorem rfc_ref_decode_block_spec hd L rs bs fs rs' :
  rfc_ref_decode_block hd L rs bs = Some (fs, rs') <-> rfc_block_decodes hd L rs bs fs rs'.
Proof.
  unfold rfc_ref_decode_block, rfc_block_decodes.
  rewrite <- ref_decode_block_spec, <- ref_reduction_signalled_spec.
  destruct (ref_reduction_signalled L rs bs); split.
  - intros H; auto.
  - intros [H _]; exact H.
  - discriminate.
  - intros [_ H]; discriminate.
Qed.

(* ===================================================================================== *)
(* Part C: the model of h2's decoder against the reference                                 *)

Notation ent d := (t_entries (d_table d)).
Notation tmax d := (t_max (d_table d)).

(* ---- the helper functions of the model are those of the reference ---- *)
Lemma split_n_at : forall l n, split_n n l = split_at n l.
Proof.
  (* the two fixpoints have the same body *)
  intros l n. reflexivity.
Qed.

Lemma nth_N_nthN {A} : forall (l : list A) n, nth_N l n = nthN l n.
Proof.
  intros l n. reflexivity.
Qed.

Definition rd_opt {A} (r : rd A) : option (A * list N) :=
  match r with ROk v rest => Some (v, rest) | RErr _ => None end.

Lemma decode_int_opt p bs : 1 <= p <= 8 -> octets bs ->
  rd_opt (decode_int p bs) = ref_decode_int h2_int_limit p bs.
Proof.
  intros Hp Hb. destruct (decode_int p bs) as [v rest|e] eqn:E; cbn [rd_opt].
  - symmetry. apply (decode_int_ref p bs v rest Hp Hb). exact E.
  - destruct (ref_decode_int h2_int_limit p bs) as [[v rest]|] eqn:E2; [|reflexivity].
    apply (decode_int_ref p bs v rest Hp Hb) in E2. rewrite E2 in E. discriminate.
Qed.

(* consumed octets: a non-empty prefix *)
Lemma decode_int_loop_suffix : forall bs k s r v rest,
  decode_int_loop k s r bs = ROk v rest -> exists pre, bs = pre ++ rest /\ pre <> [].
Proof.
  induction bs as [|b t IH]; intros k s r v rest H; cbn [decode_int_loop] in H; [discriminate|].
  destruct (N.land b VARINT_FLAG =? 0).
  - inversion H; subst. exists [b]. split; [reflexivity|discriminate].
  - destruct (k + 1 =? MAX_BYTES); [discriminate|].
    apply IH in H. destruct H as (pre & -> & _). exists (b :: pre). split; [reflexivity|discriminate].
Qed.

Lemma decode_int_suffix p bs v rest :
  decode_int p bs = ROk v rest -> exists pre, bs = pre ++ rest /\ pre <> [].
Proof.
  unfold decode_int. destruct ((p <? 1) || (8 <? p)); [discriminate|].
  destruct bs as [|b t]; [discriminate|].
  destruct (N.land b (int_mask p) <? int_mask p).
  - intros H; inversion H; subst. exists [b]. split; [reflexivity|discriminate].
  - intros H. apply decode_int_loop_suffix in H. destruct H as (pre & -> & _).
    exists (b :: pre). split; [reflexivity|discriminate].
Qed.

Lemma suffix_octets pre rest : octets (pre ++ rest) -> pre <> [] ->
  octets rest /\ (length rest < length (pre ++ rest))%nat.
Proof.
  intros Ho Hne. apply octets_app in Ho. destruct Ho as [_ Ho]. split; [exact Ho|].
  rewrite app_length. destruct pre; [contradiction|cbn [length]; lia].
Qed.

(* ---- strings ---- *)
Definition str_opt (r : rd (bool * list N)) : option (list N * list N) :=
  match r with ROk (_, s) rest => Some (s, rest) | RErr _ => None end.

Lemma huff_flag_octet b : b < 256 -> (N.land b 128 =? 128) = (128 <=? b).
Proof.
  intros Hb.
  apply (byte_sweep (fun b => Bool.eqb (N.land b 128 =? 128) (128 <=? b))) in Hb.
  - apply Bool.eqb_prop in Hb. exact Hb.
  - vm_compute. reflexivity.
Qed.

Lemma try_decode_string_ref hd bs : octets bs ->
  str_opt (try_decode_string hd bs) = ref_string hd h2_int_limit bs.
Proof.
  intros Hb. unfold try_decode_string, ref_string. destruct bs as [|b t]; [reflexivity|].
  pose proof (decode_int_opt 7 (b :: t) ltac:(lia) Hb) as Hi.
  apply octets_cons in Hb. destruct Hb as [Hb _].
  rewrite (huff_flag_octet b Hb).
  destruct (decode_int 7 (b :: t)) as [len r1|e]; cbn [rd_opt] in Hi; rewrite <- Hi; [|reflexivity].
  rewrite split_n_at. destruct (split_at len r1) as [[raw r2]|]; [|reflexivity].
  destruct (128 <=? b) eqn:E.
  - replace (b / 128 =? 0) with false by lia. replace (b / 128 =? 1) with true by lia.
    destruct (hd raw); reflexivity.
  - replace (b / 128 =? 0) with true by lia. reflexivity.
Qed.

Lemma try_decode_string_suffix hd bs h s rest :
  try_decode_string hd bs = ROk (h, s) rest -> exists pre, bs = pre ++ rest /\ pre <> [].
Proof.
  unfold try_decode_string. destruct bs as [|b t]; [discriminate|].
  destruct (decode_int 7 (b :: t)) as [len r1|e] eqn:E1; [|discriminate].
  rewrite split_n_at. destruct (split_at len r1) as [[raw r2]|] eqn:E2; [|discriminate].
  apply decode_int_suffix in E1. destruct E1 as (pre & E1 & Hne).
  apply split_at_spec in E2. destruct E2 as [-> _].
  intros H. assert (r2 = rest).
  { destruct (N.land b 128 =? 128); [destruct (hd raw); [|discriminate]|]; inversion H; reflexivity. }
  subst r2. exists (pre ++ raw). split.
  - rewrite E1, app_assoc. reflexivity.
  - destruct pre; [contradiction|discriminate].
Qed.

(* ---- table lookups ---- *)
Definition tres_opt (r : tres) : option field :=
  match r with TOk f => Some f | _ => None end.

Lemma table_get_lookup t i :
  tres_opt (table_get t i) = lookup (t_entries t) i /\ table_get t i <> TPanic.
Proof.
  unfold table_get, lookup.
  change get_static_last with 61. change get_dyn_base with 62. change rfc_static_len with 61.
  destruct (i =? 0) eqn:E0; [split; [reflexivity|discriminate]|].
  destruct (i <=? 61) eqn:E1.
  - destruct (get_static_some i ltac:(lia)) as [f Hf].
    rewrite <- (get_static_rfc i ltac:(lia)). rewrite Hf. split; [reflexivity|discriminate].
  - rewrite nth_N_nthN. replace (i - 61 - 1) with (i - 62) by lia.
    destruct (nthN (t_entries t) (i - 62)); split; try reflexivity; discriminate.
Qed.

(* ---- Header::new / into_entry / Header::len ---- *)
Definition field_valid (f : field) : bool :=
  match header_new (fst f) (snd f) with HOk _ => true | HErr _ => false end.

Lemma guard_ok b e f f' : guard b e f = HOk f' -> b = true /\ f' = f.
Proof. unfold guard. destruct b; [intros H; inversion H; auto|discriminate]. Qed.

Lemma header_new_pair n v f : header_new n v = HOk f -> f = (n, v).
Proof.
  unfold header_new. destruct n as [|c rest]; [discriminate|].
  repeat match goal with
         | |- (if ?c then _ else _) = _ -> _ => destruct c
         end;
    try discriminate; intros H; apply guard_ok in H; destruct H; assumption.
Qed.

Lemma kind_of_inv n :
  match kind_of n with
  | KAuthority => n = n_authority | KMethod => n = n_method | KScheme => n = n_scheme
  | KPath => n = n_path | KProtocol => n = n_protocol | KStatus => n = n_status
  | KField => True
  end.
Proof.
  unfold kind_of.
  destruct (list_N_eqb n n_authority) eqn:E1; [apply list_N_eqb_eq; exact E1|].
  destruct (list_N_eqb n n_method) eqn:E2; [apply list_N_eqb_eq; exact E2|].
  destruct (list_N_eqb n n_scheme) eqn:E3; [apply list_N_eqb_eq; exact E3|].
  destruct (list_N_eqb n n_path) eqn:E4; [apply list_N_eqb_eq; exact E4|].
  destruct (list_N_eqb n n_protocol) eqn:E5; [apply list_N_eqb_eq; exact E5|].
  destruct (list_N_eqb n n_status) eqn:E6; [apply list_N_eqb_eq; exact E6|].
  exact I.
Qed.

Lemma kind_of_noncolon c rest : c <> 58 -> kind_of (c :: rest) = KField.
Proof.
  intros Hc.
  assert (A : forall x, list_N_eqb (c :: rest) (58 :: x) = false).
  { intros x. cbn [list_N_eqb]. replace (c =? 58) with false by lia. reflexivity. }
  unfold kind_of.
  change n_authority with (58 :: bstr "authority"). rewrite A.
  change n_method with (58 :: bstr "method"). rewrite A.
  change n_scheme with (58 :: bstr "scheme"). rewrite A.
  change n_path with (58 :: bstr "path"). rewrite A.
  change n_protocol with (58 :: bstr "protocol"). rewrite A.
  change n_status with (58 :: bstr "status"). rewrite A.
  reflexivity.
Qed.

Lemma status_ok_len v : status_ok v = true -> lenN v = 3.
Proof.
  unfold status_ok. destruct v as [|a [|b [|c [|x v]]]]; try discriminate. reflexivity.
Qed.

Definition entry_ok (f : field) : Prop := kind_of (fst f) = KStatus -> lenN (snd f) = 3.

Lemma header_new_status v : header_new n_status v = guard (status_ok v) InvalidUtf8 (n_status, v).
Proof. reflexivity. Qed.

Lemma header_new_ok n v f : header_new n v = HOk f -> f = (n, v) /\ entry_ok f.
Proof.
  intros H. pose proof (header_new_pair _ _ _ H) as Hf. split; [exact Hf|].
  subst f. unfold entry_ok. cbn [fst snd]. intros K.
  pose proof (kind_of_inv n) as Hn. rewrite K in Hn. subst n.
  rewrite header_new_status in H. apply guard_ok in H. destruct H as [H _].
  apply status_ok_len. exact H.
Qed.

Lemma into_entry_ok n v f : into_entry n v = HOk f -> f = (n, v) /\ entry_ok f.
Proof.
  unfold into_entry, entry_ok. destruct (kind_of n) eqn:K; intros H; apply guard_ok in H;
    destruct H as [H ->]; (split; [reflexivity|]); cbn [fst snd]; intros K'; try congruence.
  apply status_ok_len. exact H.
Qed.

(* what Header::new accepts, into_entry accepts as well (the name of a table entry keeps its
   variant) *)
Lemma header_new_into_entry n v f : header_new n v = HOk f -> into_entry n v = HOk f.
Proof.
  intros H. pose proof (header_new_pair _ _ _ H) as Hf. subst f.
  unfold header_new in H. destruct n as [|c rest]; [discriminate|].
  destruct (c =? 58) eqn:Ec.
  - apply N.eqb_eq in Ec. subst c.
    repeat match type of H with
           | (if list_N_eqb rest ?x then _ else _) = _ =>
             let E := fresh "E" in destruct (list_N_eqb rest x) eqn:E;
             [apply list_N_eqb_eq in E; subst rest|]
           end; try discriminate;
      apply guard_ok in H; destruct H as [H _];
      unfold into_entry;
      match goal with |- match kind_of ?n with _ => _ end = _ =>
        let k := eval vm_compute in (kind_of n) in change (kind_of n) with k end;
      cbv iota; unfold guard; rewrite H; reflexivity.
  - assert (Hc : c <> 58) by lia.
    destruct (name_ok (c :: rest)); [|discriminate].
    apply guard_ok in H. destruct H as [H _].
    unfold into_entry. rewrite (kind_of_noncolon c rest Hc). unfold guard. rewrite H. reflexivity.
Qed.

Lemma hlen_entry_size f : entry_ok f -> hlen f = entry_size f.
Proof.
  unfold entry_ok, hlen, entry_size, HpackDec.lenN, Rfc7541Block.lenN.
  destruct f as [n v]. cbn [fst snd]. intros Hok.
  pose proof (kind_of_inv n) as Hn.
  destruct (kind_of n); try (subst n; reflexivity).
  - reflexivity.
  - subst n. rewrite (Hok eq_refl). reflexivity.
Qed.

Lemma entry_size_pos (f : rfield) : 32 <= entry_size f.
Proof. unfold entry_size. lia. Qed.

(* ---- eviction: popping from the back = keeping the longest prefix that fits ---- *)
Lemma table_size_app a b : table_size (a ++ b) = table_size a + table_size b.
Proof. induction a as [|x a IH]; cbn [app table_size]; [lia|rewrite IH; lia]. Qed.

Lemma table_size_rev l : table_size (rev l) = table_size l.
Proof.
  induction l as [|x l IH]; cbn [rev table_size]; [reflexivity|].
  rewrite table_size_app, IH. cbn [table_size]. lia.
Qed.

Lemma kp_all : forall l B, table_size l <= B -> keep_prefix B l = l.
Proof.
  induction l as [|x l IH]; intros B H; cbn [keep_prefix table_size] in *; [reflexivity|].
  replace (entry_size x <=? B) with true by lia. rewrite IH by lia. reflexivity.
Qed.

Lemma kp_fits : forall l B, table_size (keep_prefix B l) <= B.
Proof.
  induction l as [|x l IH]; intros B; cbn [keep_prefix table_size]; [lia|].
  destruct (entry_size x <=? B) eqn:E; cbn [table_size]; [|lia].
  specialize (IH (B - entry_size x)). lia.
Qed.

Lemma kp_drop_last : forall l B x, B < table_size (l ++ [x]) ->
  keep_prefix B (l ++ [x]) = keep_prefix B l.
Proof.
  induction l as [|y l IH]; intros B x H; cbn [app keep_prefix table_size] in *.
  - replace (entry_size x <=? B) with false by lia. reflexivity.
  - destruct (entry_size y <=? B) eqn:E; [|reflexivity].
    rewrite IH by lia. reflexivity.
Qed.

Lemma kp_Forall (P : rfield -> Prop) : forall l B, Forall P l -> Forall P (keep_prefix B l).
Proof.
  induction l as [|x l IH]; intros B H; cbn [keep_prefix]; [constructor|].
  inversion H; subst. destruct (entry_size x <=? B); [constructor; auto|constructor].
Qed.

(* keep_prefix is the eviction of 4.3: what survives is a prefix, it fits, and evicting stopped
   as soon as it fitted (the next older entry would not fit any more) *)
Lemma keep_prefix_spec : forall l B,
  exists dropped, l = keep_prefix B l ++ dropped /\ table_size (keep_prefix B l) <= B /\
                  match dropped with [] => True | x :: _ => B < table_size (keep_prefix B l) + entry_size x end.
Proof.
  induction l as [|x l IH]; intros B; cbn [keep_prefix].
  - exists []. cbn [app table_size]. split; [reflexivity|]. split; [lia|exact I].
  - destruct (entry_size x <=? B) eqn:E.
    + destruct (IH (B - entry_size x)) as (dr & Hl & Hf & Hd).
      exists dr. cbn [app table_size]. split; [rewrite <- Hl; reflexivity|]. split; [lia|].
      destruct dr; [exact I|lia].
    + exists (x :: l). cbn [app table_size]. split; [reflexivity|]. split; lia.
Qed.

Lemma reserve_back_spec : forall old need max,
  Forall entry_ok old ->
  exists r, reserve_back old (table_size old) need max = (r, table_size r) /\
            rev r = keep_prefix (max - need) (rev old).
Proof.
  induction old as [|last more IH]; intros need max Hok; cbn [reserve_back].
  - exists []. split; [destruct (table_size [] + need <=? max); reflexivity|reflexivity].
  - inversion Hok as [|x l Hl Hm]; subst.
    destruct (table_size (last :: more) + need <=? max) eqn:E.
    + exists (last :: more). split; [reflexivity|].
      symmetry. apply kp_all. rewrite table_size_rev. lia.
    + rewrite (hlen_entry_size last Hl).
      replace (table_size (last :: more) - entry_size last) with (table_size more)
        by (cbn [table_size]; lia).
      destruct (IH need max Hm) as (r & Hr & Hrev). exists r. split; [exact Hr|].
      cbn [rev]. rewrite kp_drop_last; [exact Hrev|].
      rewrite table_size_app, table_size_rev. cbn [table_size] in *.
      pose proof (entry_size_pos last). lia.
Qed.

Lemma consolidate_back_spec : forall old max,
  Forall entry_ok old ->
  exists r, consolidate_back old (table_size old) max = Some (r, table_size r) /\
            rev r = keep_prefix max (rev old).
Proof.
  induction old as [|last more IH]; intros max Hok; cbn [consolidate_back].
  - exists []. cbn [table_size]. replace (0 <=? max) with true by lia. split; reflexivity.
  - inversion Hok as [|x l Hl Hm]; subst.
    destruct (table_size (last :: more) <=? max) eqn:E.
    + exists (last :: more). split; [reflexivity|].
      symmetry. apply kp_all. rewrite table_size_rev. lia.
    + rewrite (hlen_entry_size last Hl).
      replace (table_size (last :: more) - entry_size last) with (table_size more)
        by (cbn [table_size]; lia).
      destruct (IH max Hm) as (r & Hr & Hrev). exists r. split; [exact Hr|].
      cbn [rev]. rewrite kp_drop_last; [exact Hrev|].
      rewrite table_size_app, table_size_rev. cbn [table_size] in *. lia.
Qed.

(* ---- well-formed tables ---- *)
Definition wf_table (t : table) : Prop :=
  Forall entry_ok (t_entries t) /\ t_size t = table_size (t_entries t) /\ t_size t <= t_max t.

Definition wf (d : decoder) : Prop := wf_table (d_table d).

Lemma Forall_rev_iff {A} (P : A -> Prop) l : Forall P (rev l) <-> Forall P l.
Proof.
  rewrite !Forall_forall. split; intros H x Hx; apply H; [apply in_rev in Hx|apply in_rev]; exact Hx.
Qed.

Lemma rev_eq_inv {A} (a b : list A) : rev a = b -> a = rev b.
Proof. intros <-. rewrite rev_involutive. reflexivity. Qed.

Lemma table_insert_spec t f : wf_table t -> entry_ok f ->
  table_insert t f =
    mk_table (add_entry (t_max t) f (t_entries t)) (table_size (add_entry (t_max t) f (t_entries t))) (t_max t) /\
  wf_table (table_insert t f).
Proof.
  intros (Hok & Hs & Hle) Hf.
  assert (E : table_insert t f =
    mk_table (add_entry (t_max t) f (t_entries t)) (table_size (add_entry (t_max t) f (t_entries t))) (t_max t)).
  { unfold table_insert, table_reserve. rewrite Hs.
    destruct (reserve_back_spec (rev (t_entries t)) (hlen f) (t_max t)) as (r & Hr & Hrev).
    { apply Forall_rev_iff. exact Hok. }
    rewrite table_size_rev in Hr. rewrite Hr. cbn [t_size t_max t_entries].
    rewrite rev_involutive in Hrev. rewrite Hrev.
    rewrite <- (table_size_rev r), Hrev.
    rewrite (hlen_entry_size f Hf). unfold add_entry.
    pose proof (kp_fits (t_entries t) (t_max t - entry_size f)) as Hfit.
    destruct (entry_size f <=? t_max t) eqn:Efit.
    - replace (table_size (keep_prefix (t_max t - entry_size f) (t_entries t)) + entry_size f <=? t_max t)
        with true by lia.
      cbn [table_size]. f_equal. lia.
    - replace (t_max t - entry_size f) with 0 in * by lia.
      assert (Hk : keep_prefix 0 (t_entries t) = []).
      { destruct (t_entries t) as [|x l]; [reflexivity|]. cbn [keep_prefix].
        pose proof (entry_size_pos x). replace (entry_size x <=? 0) with false by lia. reflexivity. }
      rewrite Hk. cbn [table_size].
      replace (0 + entry_size f <=? t_max t) with false by lia. reflexivity. }
  split; [exact E|]. rewrite E. unfold wf_table. cbn [t_entries t_size t_max].
  split; [|split; [reflexivity|]].
  - unfold add_entry. destruct (entry_size f <=? t_max t); [|constructor].
    constructor; [exact Hf|]. apply kp_Forall. exact Hok.
  - unfold add_entry. destruct (entry_size f <=? t_max t) eqn:Efit; cbn [table_size]; [|lia].
    pose proof (kp_fits (t_entries t) (t_max t - entry_size f)). lia.
Qed.

Lemma table_set_max_size_spec t n : wf_table t ->
  table_set_max_size t n =
    Some (mk_table (evict_to n (t_entries t)) (table_size (evict_to n (t_entries t))) n) /\
  wf_table (mk_table (evict_to n (t_entries t)) (table_size (evict_to n (t_entries t))) n).
Proof.
  intros (Hok & Hs & Hle). split.
  - unfold table_set_max_size. rewrite Hs.
    destruct (consolidate_back_spec (rev (t_entries t)) n) as (r & Hr & Hrev).
    { apply Forall_rev_iff. exact Hok. }
    rewrite table_size_rev in Hr. rewrite Hr.
    rewrite rev_involutive in Hrev. unfold evict_to.
    rewrite <- (table_size_rev r), Hrev. reflexivity.
  - unfold wf_table, evict_to. cbn [t_entries t_size t_max].
    split; [apply kp_Forall; exact Hok|]. split; [reflexivity|apply kp_fits].
Qed.

Lemma wf_table_new n : wf_table (table_new n).
Proof. unfold wf_table, table_new. cbn [t_entries t_size t_max table_size]. split; [constructor|]. split; [reflexivity|lia]. Qed.

(* ---- repr_load on octets ---- *)
Definition repr_eqb (a b : repr) : bool :=
  match a, b with
  | Indexed, Indexed | LiteralWithIndexing, LiteralWithIndexing
  | LiteralWithoutIndexing, LiteralWithoutIndexing | LiteralNeverIndexed, LiteralNeverIndexed
  | SizeUpdate, SizeUpdate => true
  | _, _ => false
  end.

Definition repr_of_octet (b : N) : repr :=
  if 128 <=? b then Indexed
  else if 64 <=? b then LiteralWithIndexing
  else if 32 <=? b then SizeUpdate
  else if 16 <=? b then LiteralNeverIndexed
  else LiteralWithoutIndexing.

Lemma repr_load_octet b : b < 256 -> repr_load b = inl (repr_of_octet b).
Proof.
  intros Hb.
  apply (byte_sweep (fun b => match repr_load b with inl r => repr_eqb r (repr_of_octet b) | inr _ => false end)) in Hb.
  - destruct (repr_load b) as [r|e]; [|discriminate].
    f_equal. destruct r, (repr_of_octet b); try discriminate; reflexivity.
  - vm_compute. reflexivity.
Qed.

(* "InvalidRepresentation" cannot arise from an octet *)
Corollary repr_load_total b e : b < 256 -> repr_load b <> inr e.
Proof. intros Hb. rewrite (repr_load_octet b Hb). discriminate. Qed.

(* ---- literal representations ---- *)
Lemma decode_literal_inv hd t bs index f rest :
  decode_literal hd t bs index = LOk f rest ->
  entry_ok f /\ exists pre, bs = pre ++ rest /\ pre <> [].
Proof.
  unfold decode_literal.
  destruct (decode_int (if index then 6 else 4) bs) as [idx r0|e] eqn:E0; [|discriminate].
  apply decode_int_suffix in E0. destruct E0 as (pre0 & -> & Hne0).
  destruct (idx =? 0).
  - destruct (try_decode_string hd r0) as [[nh name] r1|e] eqn:E1; [|discriminate].
    destruct (try_decode_string hd r1) as [[vh value] r2|e] eqn:E2; [|discriminate].
    destruct (header_new name value) as [f'|e] eqn:E3; [|discriminate].
    intros H; inversion H; subst. apply header_new_ok in E3. destruct E3 as [_ Hok].
    split; [exact Hok|].
    apply try_decode_string_suffix in E1, E2.
    destruct E1 as (pre1 & -> & _). destruct E2 as (pre2 & -> & _).
    exists (pre0 ++ pre1 ++ pre2). split; [rewrite <- !app_assoc; reflexivity|].
    destruct pre0; [contradiction|discriminate].
  - destruct (table_get t idx) as [e| |]; try discriminate.
    destruct (try_decode_string hd r0) as [[vh value] r1|err] eqn:E1; [|discriminate].
    destruct (into_entry (fst e) value) as [f'|err] eqn:E3; [|discriminate].
    intros H; inversion H; subst. apply into_entry_ok in E3. destruct E3 as [_ Hok].
    split; [exact Hok|].
    apply try_decode_string_suffix in E1. destruct E1 as (pre1 & -> & _).
    exists (pre0 ++ pre1). split; [rewrite <- app_assoc; reflexivity|].
    destruct pre0; [contradiction|discriminate].
Qed.

Lemma decode_literal_sound hd t bs index f rest :
  octets bs -> decode_literal hd t bs index = LOk f rest ->
  ref_literal hd h2_int_limit (t_entries t) (if index then 6 else 4) bs = Some (f, rest).
Proof.
  intros Hb. unfold decode_literal, ref_literal, ref_lit_name.
  assert (Hp : 1 <= (if index then 6 else 4) <= 8) by (destruct index; lia).
  pose proof (decode_int_opt _ bs Hp Hb) as Hi.
  destruct (decode_int (if index then 6 else 4) bs) as [idx r0|e] eqn:E0; [|discriminate].
  cbn [rd_opt] in Hi. rewrite <- Hi.
  apply decode_int_suffix in E0. destruct E0 as (pre0 & -> & Hne0).
  destruct (suffix_octets _ _ Hb Hne0) as [Ho0 _].
  destruct (idx =? 0) eqn:Ez.
  - pose proof (try_decode_string_ref hd r0 Ho0) as Hs1.
    destruct (try_decode_string hd r0) as [[nh name] r1|e] eqn:E1; [|discriminate].
    cbn [str_opt] in Hs1. rewrite <- Hs1.
    apply try_decode_string_suffix in E1. destruct E1 as (pre1 & -> & Hne1).
    destruct (suffix_octets _ _ Ho0 Hne1) as [Ho1 _].
    pose proof (try_decode_string_ref hd r1 Ho1) as Hs2.
    destruct (try_decode_string hd r1) as [[vh value] r2|e] eqn:E2; [|discriminate].
    cbn [str_opt] in Hs2. rewrite <- Hs2.
    destruct (header_new name value) as [f'|e] eqn:E3; [|discriminate].
    intros H; inversion H; subst. apply header_new_pair in E3. subst f. reflexivity.
  - destruct (table_get_lookup t idx) as [Hl _].
    destruct (table_get t idx) as [e| |] eqn:E1; try discriminate.
    cbn [tres_opt] in Hl. rewrite <- Hl. destruct e as [n v0].
    pose proof (try_decode_string_ref hd r0 Ho0) as Hs1.
    destruct (try_decode_string hd r0) as [[vh value] r1|err] eqn:E2; [|discriminate].
    cbn [str_opt] in Hs1. rewrite <- Hs1. cbn [fst].
    destruct (into_entry n value) as [f'|err] eqn:E3; [|discriminate].
    intros H; inversion H; subst. apply into_entry_ok in E3. destruct E3 as [-> _]. reflexivity.
Qed.

Lemma decode_literal_complete hd t bs (index : bool) f rest :
  octets bs ->
  ref_literal hd h2_int_limit (t_entries t) (if index then 6 else 4) bs = Some (f, rest) ->
  field_valid f = true ->
  decode_literal hd t bs index = LOk f rest.
Proof.
  intros Hb. unfold decode_literal, ref_literal, ref_lit_name.
  assert (Hp : 1 <= (if index then 6 else 4) <= 8) by (destruct index; lia).
  pose proof (decode_int_opt _ bs Hp Hb) as Hi. rewrite <- Hi.
  destruct (decode_int (if index then 6 else 4) bs) as [idx r0|e] eqn:E0; cbn [rd_opt]; [|discriminate].
  apply decode_int_suffix in E0. destruct E0 as (pre0 & -> & Hne0).
  destruct (suffix_octets _ _ Hb Hne0) as [Ho0 _].
  destruct (idx =? 0) eqn:Ez.
  - rewrite <- (try_decode_string_ref hd r0 Ho0).
    destruct (try_decode_string hd r0) as [[nh name] r1|e] eqn:E1; cbn [str_opt]; [|discriminate].
    apply try_decode_string_suffix in E1. destruct E1 as (pre1 & -> & Hne1).
    destruct (suffix_octets _ _ Ho0 Hne1) as [Ho1 _].
    rewrite <- (try_decode_string_ref hd r1 Ho1).
    destruct (try_decode_string hd r1) as [[vh value] r2|e] eqn:E2; cbn [str_opt]; [|discriminate].
    intros H Hv; inversion H; subst. unfold field_valid in Hv. cbn [fst snd] in Hv.
    destruct (header_new name value) as [f'|e] eqn:E3; [|discriminate].
    apply header_new_pair in E3. subst f'. reflexivity.
  - destruct (table_get_lookup t idx) as [Hl Hnp]. rewrite <- Hl.
    destruct (table_get t idx) as [e| |] eqn:E1; cbn [tres_opt]; try discriminate.
    destruct e as [n v0]. cbn [fst].
    rewrite <- (try_decode_string_ref hd r0 Ho0).
    destruct (try_decode_string hd r0) as [[vh value] r1|err] eqn:E2; cbn [str_opt]; [|discriminate].
    intros H Hv; inversion H; subst. unfold field_valid in Hv. cbn [fst snd] in Hv.
    destruct (header_new n value) as [f'|err] eqn:E3; [|discriminate].
    pose proof (header_new_pair _ _ _ E3). subst f'.
    rewrite (header_new_into_entry _ _ _ E3). reflexivity.
Qed.

(* ---- one step of the decode loop ---- *)
Definition abs (d : decoder) : rstate := mk_rstate (ent d) (tmax d) (d_last_max d).

(* invariants of a step, for arbitrary input (also used by Part D and E) *)
Lemma step_field_inv hd cr d ty bs f d' rest : wf d ->
  decode_step hd cr d ty bs = SField f d' rest ->
  wf d' /\ tmax d' = tmax d /\ d_last_max d' = d_last_max d /\ d_queued d' = d_queued d /\
  exists pre, bs = pre ++ rest /\ pre <> [].
Proof.
  intros Hwf. unfold decode_step.
  destruct (repr_load ty) as [[| | | |]|e]; try discriminate.
  - destruct (decode_int 7 bs) as [idx r|e] eqn:E0; [|discriminate].
    destruct (table_get (d_table d) idx); try discriminate.
    intros H; inversion H; subst. apply decode_int_suffix in E0. auto.
  - destruct (decode_literal hd (d_table d) bs true) as [f' r|e l q|] eqn:E0; try discriminate.
    intros H; inversion H; subst. apply decode_literal_inv in E0. destruct E0 as [Hok Hs].
    destruct (table_insert_spec (d_table d) f Hwf Hok) as [E Hw].
    unfold wf, with_table. cbn [d_table d_last_max d_queued].
    split; [exact Hw|]. rewrite E. cbn [t_max]. auto.
  - destruct (decode_literal hd (d_table d) bs false) as [f' r|e l q|] eqn:E0; try discriminate.
    intros H; inversion H; subst. apply decode_literal_inv in E0. destruct E0 as [_ Hs]. auto.
  - destruct (decode_literal hd (d_table d) bs false) as [f' r|e l q|] eqn:E0; try discriminate.
    intros H; inversion H; subst. apply decode_literal_inv in E0. destruct E0 as [_ Hs]. auto.
  - destruct (negb cr); [discriminate|].
    destruct (decode_int 5 bs) as [n r|e]; [|discriminate].
    destruct (d_last_max d <? n); [discriminate|].
    destruct (table_set_max_size (d_table d) n); discriminate.
Qed.

Lemma step_update_inv hd cr d ty bs d' rest : wf d ->
  decode_step hd cr d ty bs = SUpdate d' rest ->
  cr = true /\ repr_load ty = inl SizeUpdate /\
  exists n, decode_int 5 bs = ROk n rest /\ n <= d_last_max d /\
            ent d' = evict_to n (ent d) /\ tmax d' = n /\ wf d' /\
            d_last_max d' = d_last_max d /\ d_queued d' = d_queued d /\
            exists pre, bs = pre ++ rest /\ pre <> [].
Proof.
  intros Hwf. unfold decode_step.
  destruct (repr_load ty) as [[| | | |]|e]; try discriminate.
  - destruct (decode_int 7 bs) as [idx r|e]; [|discriminate].
    destruct (table_get (d_table d) idx); discriminate.
  - destruct (decode_literal hd (d_table d) bs true); discriminate.
  - destruct (decode_literal hd (d_table d) bs false); discriminate.
  - destruct (decode_literal hd (d_table d) bs false); discriminate.
  - destruct cr; cbn [negb]; [|discriminate].
    destruct (decode_int 5 bs) as [n r|e] eqn:E0; [|discriminate].
    destruct (d_last_max d <? n) eqn:E1; [discriminate|].
    destruct (table_set_max_size_spec (d_table d) n Hwf) as [E Hw]. rewrite E.
    intros H; inversion H; subst. split; [reflexivity|]. split; [reflexivity|].
    exists n. unfold wf, with_table. cbn [d_table d_last_max d_queued t_entries t_max].
    pose proof (decode_int_suffix _ _ _ _ E0) as Hs.
    split; [reflexivity|]. split; [lia|]. split; [reflexivity|]. split; [reflexivity|].
    split; [exact Hw|]. split; [reflexivity|]. split; [reflexivity|exact Hs].
Qed.

Lemma step_no_panic hd cr d ty bs : wf d -> decode_step hd cr d ty bs <> SPanic.
Proof.
  intros Hwf. unfold decode_step.
  destruct (repr_load ty) as [[| | | |]|e]; try discriminate.
  - destruct (decode_int 7 bs) as [idx r|e]; [|discriminate].
    destruct (table_get_lookup (d_table d) idx) as [_ Hnp].
    destruct (table_get (d_table d) idx); try discriminate. contradiction.
  - assert (A : decode_literal hd (d_table d) bs true <> LPanic).
    { unfold decode_literal. destruct (decode_int 6 bs) as [idx r0|e]; [|discriminate].
      destruct (idx =? 0).
      - destruct (try_decode_string hd r0) as [[nh name] r1|e]; [|discriminate].
        destruct (try_decode_string hd r1) as [[vh value] r2|e]; [|discriminate].
        destruct (header_new name value); discriminate.
      - destruct (table_get_lookup (d_table d) idx) as [_ Hnp].
        destruct (table_get (d_table d) idx); try discriminate; [|contradiction].
        destruct (try_decode_string hd r0) as [[vh value] r1|e]; [|discriminate].
        destruct (into_entry (fst f) value); discriminate. }
    destruct (decode_literal hd (d_table d) bs true); try discriminate. contradiction.
  - assert (A : decode_literal hd (d_table d) bs false <> LPanic).
    { unfold decode_literal. destruct (decode_int 4 bs) as [idx r0|e]; [|discriminate].
      destruct (idx =? 0).
      - destruct (try_decode_string hd r0) as [[nh name] r1|e]; [|discriminate].
        destruct (try_decode_string hd r1) as [[vh value] r2|e]; [|discriminate].
        destruct (header_new name value); discriminate.
      - destruct (table_get_lookup (d_table d) idx) as [_ Hnp].
        destruct (table_get (d_table d) idx); try discriminate; [|contradiction].
        destruct (try_decode_string hd r0) as [[vh value] r1|e]; [|discriminate].
        destruct (into_entry (fst f) value); discriminate. }
    destruct (decode_literal hd (d_table d) bs false); try discriminate. contradiction.
  - assert (A : decode_literal hd (d_table d) bs false <> LPanic).
    { unfold decode_literal. destruct (decode_int 4 bs) as [idx r0|e]; [|discriminate].
      destruct (idx =? 0).
      - destruct (try_decode_string hd r0) as [[nh name] r1|e]; [|discriminate].
        destruct (try_decode_string hd r1) as [[vh value] r2|e]; [|discriminate].
        destruct (header_new name value); discriminate.
      - destruct (table_get_lookup (d_table d) idx) as [_ Hnp].
        destruct (table_get (d_table d) idx); try discriminate; [|contradiction].
        destruct (try_decode_string hd r0) as [[vh value] r1|e]; [|discriminate].
        destruct (into_entry (fst f) value); discriminate. }
    destruct (decode_literal hd (d_table d) bs false); try discriminate. contradiction.
  - destruct (negb cr); [discriminate|].
    destruct (decode_int 5 bs) as [n r|e]; [|discriminate].
    destruct (d_last_max d <? n); [discriminate|].
    destruct (table_set_max_size_spec (d_table d) n Hwf) as [E _]. rewrite E. discriminate.
Qed.

(* a step that emits a header is a header field representation of the RFC *)
Lemma step_field_sound hd cr d ty t f d' rest : wf d -> octets (ty :: t) ->
  decode_step hd cr d ty (ty :: t) = SField f d' rest ->
  ref_field_step hd h2_int_limit (tmax d) (ent d) (ty :: t) = Some (f, ent d', rest) /\
  ref_update_step h2_int_limit (d_last_max d) (ty :: t) = None.
Proof.
  intros Hwf Hb. pose proof Hb as Hb'. apply octets_cons in Hb'. destruct Hb' as [Hty _].
  unfold decode_step, ref_field_step, ref_update_step.
  rewrite (repr_load_octet ty Hty). unfold repr_of_octet.
  destruct (128 <=? ty) eqn:E128.
  { (* indexed *)
    replace (ty / 128 =? 1) with true by lia. replace (ty / 32 =? 1) with false by lia.
    pose proof (decode_int_opt 7 (ty :: t) ltac:(lia) Hb) as Hi.
    destruct (decode_int 7 (ty :: t)) as [idx r|e]; [|discriminate].
    cbn [rd_opt] in Hi. rewrite <- Hi.
    destruct (table_get_lookup (d_table d) idx) as [Hl _].
    destruct (table_get (d_table d) idx) as [f'| |]; try discriminate.
    cbn [tres_opt] in Hl. rewrite <- Hl. intros H; inversion H; subst. auto. }
  replace (ty / 128 =? 1) with false by lia.
  destruct (64 <=? ty) eqn:E64.
  { (* literal with incremental indexing *)
    replace (ty / 64 =? 1) with true by lia. replace (ty / 32 =? 1) with false by lia.
    destruct (decode_literal hd (d_table d) (ty :: t) true) as [f' r|e l q|] eqn:E0; try discriminate.
    intros H; inversion H; subst.
    pose proof (decode_literal_sound _ _ _ _ _ _ Hb E0) as Hr. cbv iota in Hr. rewrite Hr.
    apply decode_literal_inv in E0. destruct E0 as [Hok _].
    destruct (table_insert_spec (d_table d) f Hwf Hok) as [E _].
    unfold with_table. cbn [d_table]. rewrite E. cbn [t_entries]. auto. }
  replace (ty / 64 =? 1) with false by lia.
  destruct (32 <=? ty) eqn:E32.
  { (* size update: never a header *)
    destruct (negb cr); [discriminate|].
    destruct (decode_int 5 (ty :: t)) as [n r|e]; [|discriminate].
    destruct (d_last_max d <? n); [discriminate|].
    destruct (table_set_max_size (d_table d) n); discriminate. }
  replace (ty / 32 =? 1) with false by lia.
  destruct (16 <=? ty) eqn:E16.
  { replace (ty / 16 =? 0) with false by lia. replace (ty / 16 =? 1) with true by lia. cbn [orb].
    destruct (decode_literal hd (d_table d) (ty :: t) false) as [f' r|e l q|] eqn:E0; try discriminate.
    intros H; inversion H; subst.
    pose proof (decode_literal_sound _ _ _ _ _ _ Hb E0) as Hr. cbv iota in Hr. rewrite Hr. auto. }
  replace (ty / 16 =? 0) with true by lia. cbn [orb].
  destruct (decode_literal hd (d_table d) (ty :: t) false) as [f' r|e l q|] eqn:E0; try discriminate.
  intros H; inversion H; subst.
  pose proof (decode_literal_sound _ _ _ _ _ _ Hb E0) as Hr. cbv iota in Hr. rewrite Hr. auto.
Qed.

Lemma step_update_sound hd cr d ty t d' rest : wf d -> octets (ty :: t) ->
  decode_step hd cr d ty (ty :: t) = SUpdate d' rest ->
  exists n, ref_update_step h2_int_limit (d_last_max d) (ty :: t) = Some (n, rest) /\
            ent d' = evict_to n (ent d) /\ tmax d' = n.
Proof.
  intros Hwf Hb H. pose proof Hb as Hb'. apply octets_cons in Hb'. destruct Hb' as [Hty _].
  destruct (step_update_inv _ _ _ _ _ _ _ Hwf H) as (_ & Hload & n & Hi & Hle & He & Hm & _).
  exists n. split; [|auto].
  rewrite (repr_load_octet ty Hty) in Hload. unfold repr_of_octet in Hload.
  unfold ref_update_step.
  destruct (128 <=? ty) eqn:E128; [discriminate|].
  destruct (64 <=? ty) eqn:E64; [discriminate|].
  destruct (32 <=? ty) eqn:E32; [|destruct (16 <=? ty); discriminate].
  replace (ty / 32 =? 1) with true by lia.
  pose proof (decode_int_opt 5 (ty :: t) ltac:(lia) Hb) as Ho. rewrite Hi in Ho.
  cbn [rd_opt] in Ho. rewrite <- Ho. replace (n <=? d_last_max d) with true by lia. reflexivity.
Qed.

(* conversely *)
Lemma step_field_complete hd cr d ty t f dyn1 rest : wf d -> octets (ty :: t) ->
  ref_field_step hd h2_int_limit (tmax d) (ent d) (ty :: t) = Some (f, dyn1, rest) ->
  field_valid f = true ->
  exists d', decode_step hd cr d ty (ty :: t) = SField f d' rest /\ ent d' = dyn1.
Proof.
  intros Hwf Hb. pose proof Hb as Hb'. apply octets_cons in Hb'. destruct Hb' as [Hty _].
  unfold decode_step, ref_field_step.
  rewrite (repr_load_octet ty Hty). unfold repr_of_octet.
  destruct (128 <=? ty) eqn:E128.
  { replace (ty / 128 =? 1) with true by lia.
    rewrite <- (decode_int_opt 7 (ty :: t) ltac:(lia) Hb).
    destruct (decode_int 7 (ty :: t)) as [idx r|e]; cbn [rd_opt]; [|discriminate].
    destruct (table_get_lookup (d_table d) idx) as [Hl _]. rewrite <- Hl.
    destruct (table_get (d_table d) idx) as [f'| |]; cbn [tres_opt]; try discriminate.
    intros H _; inversion H; subst. eauto. }
  replace (ty / 128 =? 1) with false by lia.
  destruct (64 <=? ty) eqn:E64.
  { replace (ty / 64 =? 1) with true by lia.
    destruct (ref_literal hd h2_int_limit (ent d) 6 (ty :: t)) as [[f' r]|] eqn:E0; [|discriminate].
    intros H Hv; inversion H; subst.
    rewrite (decode_literal_complete hd (d_table d) (ty :: t) true f rest Hb E0 Hv).
    eexists. split; [reflexivity|].
    pose proof (decode_literal_complete hd (d_table d) (ty :: t) true f rest Hb E0 Hv) as E1.
    apply decode_literal_inv in E1. destruct E1 as [Hok _].
    destruct (table_insert_spec (d_table d) f Hwf Hok) as [E _].
    unfold with_table. cbn [d_table]. rewrite E. reflexivity. }
  replace (ty / 64 =? 1) with false by lia.
  destruct (32 <=? ty) eqn:E32.
  { replace (ty / 16 =? 0) with false by lia. replace (ty / 16 =? 1) with false by lia.
    cbn [orb]. discriminate. }
  destruct (16 <=? ty) eqn:E16.
  { replace (ty / 16 =? 0) with false by lia. replace (ty / 16 =? 1) with true by lia. cbn [orb].
    destruct (ref_literal hd h2_int_limit (ent d) 4 (ty :: t)) as [[f' r]|] eqn:E0; [|discriminate].
    intros H Hv; inversion H; subst.
    rewrite (decode_literal_complete hd (d_table d) (ty :: t) false f rest Hb E0 Hv). eauto. }
  replace (ty / 16 =? 0) with true by lia. cbn [orb].
  destruct (ref_literal hd h2_int_limit (ent d) 4 (ty :: t)) as [[f' r]|] eqn:E0; [|discriminate].
  intros H Hv; inversion H; subst.
  rewrite (decode_literal_complete hd (d_table d) (ty :: t) false f rest Hb E0 Hv). eauto.
Qed.

Lemma step_update_complete hd d ty t n rest : wf d -> octets (ty :: t) ->
  ref_update_step h2_int_limit (d_last_max d) (ty :: t) = Some (n, rest) ->
  exists d', decode_step hd true d ty (ty :: t) = SUpdate d' rest /\
             ent d' = evict_to n (ent d) /\ tmax d' = n.
Proof.
  intros Hwf Hb. pose proof Hb as Hb'. apply octets_cons in Hb'. destruct Hb' as [Hty _].
  unfold decode_step, ref_update_step.
  rewrite (repr_load_octet ty Hty). unfold repr_of_octet.
  destruct (ty / 32 =? 1) eqn:E; [|discriminate].
  replace (128 <=? ty) with false by lia. replace (64 <=? ty) with false by lia.
  replace (32 <=? ty) with true by lia. cbn [negb].
  rewrite <- (decode_int_opt 5 (ty :: t) ltac:(lia) Hb).
  destruct (decode_int 5 (ty :: t)) as [n' r|e]; cbn [rd_opt]; [|discriminate].
  destruct (n' <=? d_last_max d) eqn:E2; [|discriminate].
  intros H; inversion H; subst.
  replace (d_last_max d <? n) with false by lia.
  destruct (table_set_max_size_spec (d_table d) n Hwf) as [Es _]. rewrite Es.
  eexists. split; [reflexivity|]. unfold with_table. cbn [d_table t_entries t_max]. auto.
Qed.

(* ---- the loop ---- *)
Lemma prepend_fields fs r : r_fields (prepend fs r) = fs ++ r_fields r.
Proof. reflexivity. Qed.

(* soundness of a run that has left the "size updates allowed" phase *)
Lemma loop_fields_sound hd : forall fuel d bs,
  wf d -> octets bs -> (length bs < fuel)%nat ->
  r_verdict (decode_loop hd fuel false d bs) = VOk ->
  let R := decode_loop hd fuel false d bs in
  ref_fields hd h2_int_limit (tmax d) fuel (ent d) bs = Some (r_fields R, ent (r_dec R)) /\
  tmax (r_dec R) = tmax d /\ d_last_max (r_dec R) = d_last_max d.
Proof.
  induction fuel as [|fuel IH]; intros d bs Hwf Hb Hl; [lia|].
  destruct bs as [|ty t]; cbn [decode_loop ref_fields].
  - intros _. cbn [r_fields r_dec]. auto.
  - destruct (decode_step hd false d ty (ty :: t)) as [f d' rest|d' rest|e l q|] eqn:E.
    + destruct (step_field_inv _ _ _ _ _ _ _ _ Hwf E) as (Hwf' & Hm & Hlm & _ & pre & Epre & Hne).
      destruct (step_field_sound _ _ _ _ _ _ _ _ Hwf Hb E) as [Hr _].
      assert (Ho : octets rest /\ (length rest < length (ty :: t))%nat).
      { rewrite Epre in Hb |- *. apply suffix_octets; assumption. }
      destruct Ho as [Ho Hlr]. cbn [length] in Hl, Hlr.
      cbn [r_verdict prepend]. intros Hv.
      destruct (IH d' rest Hwf' Ho ltac:(lia) Hv) as (Hrf & Hm' & Hl').
      rewrite Hr. rewrite <- Hm. rewrite Hrf. cbn [r_fields r_dec prepend app].
      split; [reflexivity|]. split; congruence.
    + apply step_update_inv in E; [|exact Hwf]. destruct E as [E _]. discriminate.
    + cbn [r_verdict]. discriminate.
    + cbn [r_verdict]. discriminate.
Qed.

Lemma loop_block_sound hd : forall fuel d bs,
  wf d -> octets bs -> (length bs < fuel)%nat ->
  r_verdict (decode_loop hd fuel true d bs) = VOk ->
  let R := decode_loop hd fuel true d bs in
  ref_block hd h2_int_limit (d_last_max d) fuel (ent d) (tmax d) bs =
    Some (r_fields R, ent (r_dec R), tmax (r_dec R)) /\
  d_last_max (r_dec R) = d_last_max d.
Proof.
  induction fuel as [|fuel IH]; intros d bs Hwf Hb Hl; [lia|].
  destruct bs as [|ty t]; cbn [decode_loop ref_block].
  - intros _. cbn [r_fields r_dec ref_update_step ref_fields]. auto.
  - destruct (decode_step hd true d ty (ty :: t)) as [f d' rest|d' rest|e l q|] eqn:E.
    + destruct (step_field_inv _ _ _ _ _ _ _ _ Hwf E) as (Hwf' & Hm & Hlm & _ & pre & Epre & Hne).
      destruct (step_field_sound _ _ _ _ _ _ _ _ Hwf Hb E) as [Hr Hnu].
      assert (Ho : octets rest /\ (length rest < length (ty :: t))%nat).
      { rewrite Epre in Hb |- *. apply suffix_octets; assumption. }
      destruct Ho as [Ho Hlr]. cbn [length] in Hl, Hlr.
      cbn [r_verdict prepend]. intros Hv.
      destruct (loop_fields_sound hd fuel d' rest Hwf' Ho ltac:(lia) Hv) as (Hrf & Hm' & Hl').
      rewrite Hnu. cbn [ref_fields]. rewrite Hr. rewrite <- Hm. rewrite Hrf.
      cbn [r_fields r_dec prepend app]. split; [|congruence].
      rewrite Hm'. reflexivity.
    + destruct (step_update_inv _ _ _ _ _ _ _ Hwf E) as (_ & _ & n & _ & _ & _ & _ & Hwf' & Hlm & _ & pre & Epre & Hne).
      destruct (step_update_sound _ _ _ _ _ _ _ Hwf Hb E) as (n' & Hr & He & Hm).
      assert (Ho : octets rest /\ (length rest < length (ty :: t))%nat).
      { rewrite Epre in Hb |- *. apply suffix_octets; assumption. }
      destruct Ho as [Ho Hlr]. cbn [length] in Hl, Hlr.
      intros Hv. destruct (IH d' rest Hwf' Ho ltac:(lia) Hv) as (Hrb & Hl').
      rewrite Hr. rewrite <- He, <- Hm, <- Hlm. rewrite Hrb. split; [reflexivity|congruence].
    + cbn [r_verdict]. discriminate.
    + cbn [r_verdict]. discriminate.
Qed.

(* take_queued only touches the ceiling *)
Lemma take_queued_table d : d_table (take_queued d) = d_table d.
Proof. unfold take_queued. destruct (d_queued d); reflexivity. Qed.

Lemma take_queued_wf d : wf d -> wf (take_queued d).
Proof. unfold wf. rewrite take_queued_table. auto. Qed.

(* ------------------------------------------------------------------------------------- *)
(* MAIN THEOREM 1: whatever the model accepts, RFC 7541 assigns exactly that header list and
   that dynamic table to the block.  (No validation hypothesis: validation only rejects.) *)
Theorem hpack_decode_sound hd d bs :
  wf d -> octets bs ->
  r_verdict (decode hd d bs) = VOk ->
  block_decodes hd h2_int_limit (abs (take_queued d)) bs
                (r_fields (decode hd d bs)) (abs (r_dec (decode hd d bs))).
Proof.
  intros Hwf Hb Hv. apply ref_decode_block_sound.
  unfold decode in *. unfold ref_decode_block, abs. cbn [r_dyn r_max r_limit].
  destruct (loop_block_sound hd (S (length bs)) (take_queued d) bs
              (take_queued_wf d Hwf) Hb ltac:(lia) Hv) as [Hr Hl].
  rewrite Hr. rewrite Hl. reflexivity.
Qed.

(* ... and also the 4.2 clause (a lowered limit has to be followed by a size update), EXCEPT for
   the known finding KF-C11-3: h2 does not check that the peer sends the size update it owes.
   [required_update_pending d]: the ceiling in force for the next block is below the table's
   maximum. *)
Definition required_update_pending (d : decoder) : Prop :=
  d_last_max (take_queued d) < tmax d.

Corollary hpack_decode_sound_rfc_except_known hd d bs :
  wf d -> octets bs ->
  ~ required_update_pending d ->
  r_verdict (decode hd d bs) = VOk ->
  rfc_block_decodes hd h2_int_limit (abs (take_queued d)) bs
                    (r_fields (decode hd d bs)) (abs (r_dec (decode hd d bs))).
Proof.
  intros Hwf Hb Hle Hv. split; [apply hpack_decode_sound; assumption|].
  left. unfold abs. cbn [r_max r_limit]. rewrite take_queued_table.
  unfold required_update_pending in Hle. lia.
Qed.

(* the integer limit of the statement is the strongest one: more octets only accept more *)
Lemma string_lit_mono hd L L' enc s : (L <= L')%nat -> string_lit hd L enc s -> string_lit hd L' enc s.
Proof.
  intros Hle H. inversion H; subst.
  - apply str_raw. eapply int_repr_L_mono; eassumption.
  - eapply str_huff; [eapply int_repr_L_mono; eassumption|assumption].
Qed.

Lemma lit_name_mono hd L L' dyn p hi enc n : (L <= L')%nat ->
  lit_name hd L dyn p hi enc n -> lit_name hd L' dyn p hi enc n.
Proof.
  intros Hle H. inversion H; subst.
  - eapply ln_indexed; [eapply int_repr_L_mono; eassumption|assumption|eassumption].
  - apply ln_new; [eapply int_repr_L_mono; eassumption|eapply string_lit_mono; eassumption].
Qed.

Lemma field_repr_mono hd L L' max dyn enc f dyn1 : (L <= L')%nat ->
  field_repr hd L max dyn enc f dyn1 -> field_repr hd L' max dyn enc f dyn1.
Proof.
  intros Hle H. inversion H; subst.
  - eapply fr_indexed; [eapply int_repr_L_mono; eassumption|assumption].
  - apply fr_incremental; [eapply lit_name_mono|eapply string_lit_mono]; eassumption.
  - apply fr_without; [eapply lit_name_mono|eapply string_lit_mono]; eassumption.
  - apply fr_never; [eapply lit_name_mono|eapply string_lit_mono]; eassumption.
Qed.

Lemma block_decodes_mono hd L L' rs bs fs rs' : (L <= L')%nat ->
  block_decodes hd L rs bs fs rs' -> block_decodes hd L' rs bs fs rs'.
Proof.
  intros Hle (b1 & b2 & dyn1 & max1 & -> & Hu & Hf & Hm & Hl).
  exists b1, b2, dyn1, max1. split; [reflexivity|]. split; [|split; [|auto]].
  - clear - Hle Hu. induction Hu as [|dyn max enc n bs dyn' max' Hs _ IH]; [constructor|].
    eapply ud_cons; [|exact IH]. inversion Hs; subst. constructor; [eapply int_repr_L_mono; eassumption|assumption].
  - clear - Hle Hf. induction Hf as [|dyn enc f dyn1' bs fs dyn' Hr _ IH]; [constructor|].
    eapply fd_cons; [eapply field_repr_mono; eassumption|exact IH].
Qed.

Corollary hpack_decode_sound_any_limit hd d bs L :
  wf d -> octets bs -> (h2_int_limit <= L)%nat ->
  r_verdict (decode hd d bs) = VOk ->
  block_decodes hd L (abs (take_queued d)) bs
                (r_fields (decode hd d bs)) (abs (r_dec (decode hd d bs))).
Proof.
  intros Hwf Hb HL Hv. eapply block_decodes_mono; [exact HL|]. apply hpack_decode_sound; assumption.
Qed.

(* the hypotheses are satisfiable and the conclusion is not vacuous: RFC 7541 C.2.1 *)
Example hpack_decode_sound_example hd :
  let bs := [64; 10; 99; 117; 115; 116; 111; 109; 45; 107; 101; 121;
             13; 99; 117; 115; 116; 111; 109; 45; 104; 101; 97; 100; 101; 114] in
  let d := decoder_new 4096 in
  wf d /\ octets bs /\ r_verdict (decode hd d bs) = VOk /\
  r_fields (decode hd d bs) = [(bstr "custom-key", bstr "custom-header")] /\
  t_size (d_table (r_dec (decode hd d bs))) = 55.
Proof.
  cbv zeta. split; [apply wf_table_new|]. split; [apply bytes_ok_octets; vm_compute; reflexivity|].
  vm_compute. auto.
Qed.

(* ---- completeness ---- *)
Lemma loop_fields_complete hd : forall rfuel d bs fs dyn',
  wf d -> octets bs ->
  ref_fields hd h2_int_limit (tmax d) rfuel (ent d) bs = Some (fs, dyn') ->
  forallb field_valid fs = true ->
  forall fuel, (length bs < fuel)%nat ->
  let R := decode_loop hd fuel false d bs in
  r_verdict R = VOk /\ r_fields R = fs /\ ent (r_dec R) = dyn' /\ tmax (r_dec R) = tmax d /\
  d_last_max (r_dec R) = d_last_max d.
Proof.
  induction rfuel as [|rfuel IH]; intros d bs fs dyn' Hwf Hb Hr Hv fuel Hl.
  - cbn [ref_fields] in Hr. destruct bs as [|ty t]; [|discriminate]. inversion Hr; subst.
    destruct fuel; cbn [decode_loop r_verdict r_fields r_dec]; auto.
  - destruct bs as [|ty t]; cbn [ref_fields] in Hr.
    + inversion Hr; subst. destruct fuel; cbn [decode_loop r_verdict r_fields r_dec]; auto.
    + destruct (ref_field_step hd h2_int_limit (tmax d) (ent d) (ty :: t)) as [[[f dyn1] rest]|] eqn:E1; [|discriminate].
      destruct (ref_fields hd h2_int_limit (tmax d) rfuel dyn1 rest) as [[fs' dyn2]|] eqn:E2; [|discriminate].
      inversion Hr; subst. cbn [forallb] in Hv. apply andb_true_iff in Hv. destruct Hv as [Hvf Hvs].
      destruct (step_field_complete hd false d ty t f dyn1 rest Hwf Hb E1 Hvf) as (d' & Es & He).
      destruct (step_field_inv _ _ _ _ _ _ _ _ Hwf Es) as (Hwf' & Hm & Hlm & _ & pre & Epre & Hne).
      assert (Ho : octets rest /\ (length rest < length (ty :: t))%nat).
      { rewrite Epre in Hb |- *. apply suffix_octets; assumption. }
      destruct Ho as [Ho Hlr]. cbn [length] in Hl, Hlr.
      destruct fuel as [|fuel]; [lia|]. cbn [decode_loop]. rewrite Es.
      rewrite <- Hm, <- He in E2.
      destruct (IH d' rest fs' dyn' Hwf' Ho E2 Hvs fuel ltac:(lia)) as (A & B & C & D & E).
      cbn [prepend r_verdict r_fields r_dec app]. rewrite B.
      split; [exact A|]. split; [reflexivity|]. split; [exact C|]. split; congruence.
Qed.

Lemma loop_block_complete hd : forall rfuel d bs fs dyn' max',
  wf d -> octets bs ->
  ref_block hd h2_int_limit (d_last_max d) rfuel (ent d) (tmax d) bs = Some (fs, dyn', max') ->
  forallb field_valid fs = true ->
  forall fuel, (length bs < fuel)%nat ->
  let R := decode_loop hd fuel true d bs in
  r_verdict R = VOk /\ r_fields R = fs /\ ent (r_dec R) = dyn' /\ tmax (r_dec R) = max' /\
  d_last_max (r_dec R) = d_last_max d.
Proof.
  induction rfuel as [|rfuel IH]; intros d bs fs dyn' max' Hwf Hb Hr Hv fuel Hl;
    cbn [ref_block] in Hr; [discriminate|].
  destruct (ref_update_step h2_int_limit (d_last_max d) bs) as [[n rest]|] eqn:E1.
  - destruct bs as [|ty t]; [discriminate|].
    destruct (step_update_complete hd d ty t n rest Hwf Hb E1) as (d' & Es & He & Hm).
    destruct (step_update_inv _ _ _ _ _ _ _ Hwf Es) as (_ & _ & n' & _ & _ & _ & _ & Hwf' & Hlm & _ & pre & Epre & Hne).
    assert (Ho : octets rest /\ (length rest < length (ty :: t))%nat).
    { rewrite Epre in Hb |- *. apply suffix_octets; assumption. }
    destruct Ho as [Ho Hlr]. cbn [length] in Hl, Hlr.
    destruct fuel as [|fuel]; [lia|]. cbn [decode_loop]. rewrite Es.
    rewrite <- He, <- Hm, <- Hlm in Hr.
    destruct (IH d' rest fs dyn' max' Hwf' Ho Hr Hv fuel ltac:(lia)) as (A & B & C & D & E).
    split; [exact A|]. split; [exact B|]. split; [exact C|]. split; congruence.
  - destruct (ref_fields hd h2_int_limit (tmax d) (S rfuel) (ent d) bs) as [[fs' dyn2]|] eqn:E2; [|discriminate].
    inversion Hr; subst.
    (* the first representation is not a size update, so the run does not depend on can_resize *)
    destruct bs as [|ty t].
    + destruct fuel; cbn [decode_loop r_verdict r_fields r_dec] in *;
        cbn [ref_fields] in E2; inversion E2; subst; auto.
    + cbn [ref_fields] in E2.
      destruct (ref_field_step hd h2_int_limit (tmax d) (ent d) (ty :: t)) as [[[f dyn1] rest]|] eqn:E3; [|discriminate].
      destruct (ref_fields hd h2_int_limit (tmax d) rfuel dyn1 rest) as [[fs'' dyn3]|] eqn:E4; [|discriminate].
      inversion E2; subst. cbn [forallb] in Hv. apply andb_true_iff in Hv. destruct Hv as [Hvf Hvs].
      destruct (step_field_complete hd true d ty t f dyn1 rest Hwf Hb E3 Hvf) as (d' & Es & He).
      destruct (step_field_inv _ _ _ _ _ _ _ _ Hwf Es) as (Hwf' & Hm & Hlm & _ & pre & Epre & Hne).
      assert (Ho : octets rest /\ (length rest < length (ty :: t))%nat).
      { rewrite Epre in Hb |- *. apply suffix_octets; assumption. }
      destruct Ho as [Ho Hlr]. cbn [length] in Hl, Hlr.
      destruct fuel as [|fuel]; [lia|]. cbn [decode_loop]. rewrite Es.
      rewrite <- Hm, <- He in E4.
      destruct (loop_fields_complete hd rfuel d' rest fs'' dyn' Hwf' Ho E4 Hvs fuel ltac:(lia)) as (A & B & C & D & E).
      cbn [prepend r_verdict r_fields r_dec app]. rewrite B.
      split; [exact A|]. split; [reflexivity|]. split; [exact C|]. split; congruence.
Qed.

(* MAIN THEOREM 2: every block the RFC accepts (with h2's integer limit) whose headers pass the
   http-crate validation is accepted by the model, with the same headers and the same table. *)
Theorem hpack_decode_complete_modulo_validation hd d bs fs rs' :
  wf d -> octets bs ->
  block_decodes hd h2_int_limit (abs (take_queued d)) bs fs rs' ->
  forallb field_valid fs = true ->
  r_verdict (decode hd d bs) = VOk /\
  r_fields (decode hd d bs) = fs /\
  abs (r_dec (decode hd d bs)) = rs'.
Proof.
  intros Hwf Hb Hbd Hv. apply ref_decode_block_complete in Hbd.
  unfold ref_decode_block, abs in Hbd. cbn [r_dyn r_max r_limit] in Hbd.
  destruct (ref_block hd h2_int_limit (d_last_max (take_queued d)) (S (length bs))
              (ent (take_queued d)) (tmax (take_queued d)) bs) as [[[fs' dyn'] max']|] eqn:E; [|discriminate].
  inversion Hbd; subst.
  destruct (loop_block_complete hd _ (take_queued d) bs fs dyn' max' (take_queued_wf d Hwf) Hb E Hv
              (S (length bs)) ltac:(lia)) as (A & B & C & D & F).
  unfold decode. split; [exact A|]. split; [exact B|].
  unfold abs. rewrite C, D, F. reflexivity.
Qed.

Example hpack_decode_complete_example hd :
  (* RFC 7541 C.2.4: indexed header field :method GET *)
  let d := decoder_new 4096 in
  wf d /\ octets [130] /\
  block_decodes hd h2_int_limit (abs (take_queued d)) [130] [(bstr ":method", bstr "GET")] (abs d) /\
  forallb field_valid [(bstr ":method", bstr "GET")] = true.
Proof.
  cbv zeta. split; [apply wf_table_new|]. split; [apply bytes_ok_octets; vm_compute; reflexivity|].
  split; [|vm_compute; reflexivity].
  apply ref_decode_block_sound. vm_compute. reflexivity.
Qed.

(* Validation is the only reason for the model to reject what the RFC accepts: a block rejected by
   the model but accepted by the reference has a header that fails http-crate validation. *)
Corollary hpack_reject_only_for_validation hd d bs fs rs' :
  wf d -> octets bs ->
  block_decodes hd h2_int_limit (abs (take_queued d)) bs fs rs' ->
  r_verdict (decode hd d bs) <> VOk ->
  forallb field_valid fs = false.
Proof.
  intros Hwf Hb Hbd Hv. destruct (forallb field_valid fs) eqn:E; [|reflexivity].
  destruct (hpack_decode_complete_modulo_validation hd d bs fs rs' Hwf Hb Hbd E) as [A _].
  contradiction.
Qed.

(* ===================================================================================== *)
(* Part D: invariants of the dynamic table over every history                             *)

(* every outcome of the loop (accepting or not) leaves a well-formed decoder: the size field is
   the RFC size of the entries and within max_size; the ceiling is untouched; max_size only
   changes through accepted size updates, which are within the ceiling; consolidate's panic is
   unreachable *)
Lemma decode_loop_inv hd : forall fuel cr d bs, wf d ->
  let R := decode_loop hd fuel cr d bs in
  wf (r_dec R) /\ d_last_max (r_dec R) = d_last_max d /\ d_queued (r_dec R) = d_queued d /\
  (tmax (r_dec R) = tmax d \/ tmax (r_dec R) <= d_last_max d) /\ r_verdict R <> VPanic.
Proof.
  assert (Triv : forall (d : decoder) v l, wf d -> v <> VPanic ->
            let R := mk_dresult [] v d l QNone in
            wf (r_dec R) /\ d_last_max (r_dec R) = d_last_max d /\ d_queued (r_dec R) = d_queued d /\
            (tmax (r_dec R) = tmax d \/ tmax (r_dec R) <= d_last_max d) /\ r_verdict R <> VPanic).
  { intros d v l Hwf Hv. cbn [r_dec r_verdict]. split; [exact Hwf|]. split; [reflexivity|].
    split; [reflexivity|]. split; [left; reflexivity|exact Hv]. }
  induction fuel as [|fuel IH]; intros cr d bs Hwf; destruct bs as [|ty t]; cbn [decode_loop];
    try (apply Triv; [exact Hwf|discriminate]).
  destruct (decode_step hd cr d ty (ty :: t)) as [f d' rest|d' rest|e l q|] eqn:E.
  - destruct (step_field_inv _ _ _ _ _ _ _ _ Hwf E) as (Hwf' & Hm & Hlm & Hq & _).
    destruct (IH false d' rest Hwf') as (A & B & C & D & F).
    cbn [prepend r_dec r_verdict]. rewrite <- Hm, <- Hlm, <- Hq. auto.
  - destruct (step_update_inv _ _ _ _ _ _ _ Hwf E) as (_ & _ & n & _ & Hle & _ & Hm & Hwf' & Hlm & Hq & _).
    destruct (IH cr d' rest Hwf') as (A & B & C & D & F).
    split; [exact A|]. split; [congruence|]. split; [congruence|]. split; [|exact F].
    right. destruct D as [D|D]; lia.
  - cbn [r_dec r_verdict]. split; [exact Hwf|]. split; [reflexivity|]. split; [reflexivity|].
    split; [left; reflexivity|discriminate].
  - exfalso. exact (step_no_panic hd cr d ty (ty :: t) Hwf E).
Qed.

Definition last_limit_of (d : decoder) : N := d_last_max (take_queued d).

Lemma decode_inv hd d bs : wf d ->
  let R := decode hd d bs in
  wf (r_dec R) /\ d_queued (r_dec R) = None /\ d_last_max (r_dec R) = last_limit_of d /\
  (tmax (r_dec R) = tmax d \/ tmax (r_dec R) <= last_limit_of d) /\ r_verdict R <> VPanic.
Proof.
  intros Hwf. unfold decode, last_limit_of.
  destruct (decode_loop_inv hd (S (length bs)) true (take_queued d) bs (take_queued_wf d Hwf))
    as (A & B & C & D & F).
  rewrite take_queued_table in D.
  split; [exact A|]. split; [|auto].
  rewrite C. unfold take_queued. destruct (d_queued d) eqn:Eq; [reflexivity|exact Eq].
Qed.

Lemma take_queued_none d : d_queued d = None -> take_queued d = d.
Proof. unfold take_queued. intros ->. reflexivity. Qed.

Lemma decode_chunks_from_inv hd : forall frags d carry, wf d ->
  let R := decode_chunks_from hd d carry frags in
  wf (r_dec R) /\ d_queued (r_dec R) = None /\ d_last_max (r_dec R) = last_limit_of d /\
  (tmax (r_dec R) = tmax d \/ tmax (r_dec R) <= last_limit_of d) /\ r_verdict R <> VPanic.
Proof.
  induction frags as [|f more IH]; intros d carry Hwf; cbn [decode_chunks_from].
  - apply decode_inv. exact Hwf.
  - pose proof (decode_inv hd d (carry ++ f) Hwf) as H1. cbv zeta in H1.
    destruct more as [|g more']; [exact H1|].
    destruct H1 as (A & B & C & D & F).
    assert (K : forall R', R' = decode_chunks_from hd (r_dec (decode hd d (carry ++ f)))
                                  (r_left (decode hd d (carry ++ f))) (g :: more') ->
                wf (r_dec R') /\ d_queued (r_dec R') = None /\ d_last_max (r_dec R') = last_limit_of d /\
                (tmax (r_dec R') = tmax d \/ tmax (r_dec R') <= last_limit_of d) /\ r_verdict R' <> VPanic).
    { intros R' ->. destruct (IH (r_dec (decode hd d (carry ++ f))) (r_left (decode hd d (carry ++ f))) A)
        as (A' & B' & C' & D' & F').
      assert (Hll : last_limit_of (r_dec (decode hd d (carry ++ f))) = last_limit_of d).
      { unfold last_limit_of at 1. rewrite (take_queued_none _ B). exact C. }
      rewrite Hll in C', D'. split; [exact A'|]. split; [exact B'|]. split; [exact C'|].
      split; [|exact F']. destruct D as [D|D], D' as [D'|D']; try (right; lia). left. congruence. }
    destruct (r_verdict (decode hd d (carry ++ f))) as [|e| |] eqn:Ev.
    + cbn [prepend r_dec r_verdict]. apply K. reflexivity.
    + destruct e; try (split; [exact A|]; split; [exact B|]; split; [exact C|]; split; [exact D|];
                       rewrite Ev; discriminate).
      cbn [prepend r_dec r_verdict]. apply K. reflexivity.
    + contradiction.
    + split; [exact A|]. split; [exact B|]. split; [exact C|]. split; [exact D|]. rewrite Ev. discriminate.
Qed.

(* histories: settings acknowledgements (queue_size_update) and header blocks in fragments *)
Inductive event := EQueue (n : N) | EBlock (frags : list (list N)).

Definition apply_event (hd : list N -> option (list N)) (d : decoder) (e : event) : decoder :=
  match e with
  | EQueue n => queue_size_update d n
  | EBlock frags => r_dec (decode_chunks hd d frags)
  end.

Definition run_events (hd : list N -> option (list N)) (d : decoder) (evs : list event) : decoder :=
  fold_left (apply_event hd) evs d.

(* the largest table size ever advertised *)
Fixpoint max_limit (acc : N) (evs : list event) : N :=
  match evs with
  | [] => acc
  | EQueue n :: r => max_limit (N.max acc n) r
  | EBlock _ :: r => max_limit acc r
  end.

Definition hist_inv (d : decoder) (hw : N) : Prop :=
  wf d /\ tmax d <= hw /\ d_last_max d <= hw /\
  match d_queued d with Some q => q <= hw | None => True end.

Lemma run_events_inv hd : forall evs d hw, hist_inv d hw -> hist_inv (run_events hd d evs) (max_limit hw evs).
Proof.
  induction evs as [|e evs IH]; intros d hw H; [exact H|].
  cbn [run_events fold_left]. change (fold_left (apply_event hd) evs ?x) with (run_events hd x evs).
  destruct H as (Hwf & Hm & Hl & Hq).
  destruct e as [n|frags]; cbn [max_limit apply_event]; apply IH.
  - unfold hist_inv, queue_size_update, wf. cbn [d_table d_last_max d_queued].
    split; [exact Hwf|]. split; [lia|]. split; [lia|].
    destruct (d_queued d); lia.
  - destruct (decode_chunks_from_inv hd frags d [] Hwf) as (A & B & C & D & _).
    fold (decode_chunks hd d frags) in A, B, C, D.
    assert (Hll : last_limit_of d <= hw).
    { unfold last_limit_of, take_queued. destruct (d_queued d); cbn [d_last_max]; lia. }
    unfold hist_inv. rewrite B. split; [exact A|]. split; [|split; [lia|exact I]].
    destruct D as [D|D]; lia.
Qed.

(* MAIN THEOREM 3.  After every history (any blocks, valid or not, in any fragments, any number
   of settings changes) the decoder's size field is exactly the RFC 7541 4.1 size of its
   entries, it is within max_size, and max_size is within the largest table size the local
   side ever advertised. *)
Theorem hpack_table_bounded hd size evs :
  let d := run_events hd (decoder_new size) evs in
  t_size (d_table d) = table_size (ent d) /\
  t_size (d_table d) <= tmax d /\
  tmax d <= max_limit size evs.
Proof.
  cbv zeta.
  destruct (run_events_inv hd evs (decoder_new size) size) as ((_ & Hs & Hle) & Hm & _).
  - unfold hist_inv, wf, decoder_new. cbn [d_table d_last_max d_queued table_new t_max].
    split; [apply wf_table_new|]. split; [lia|]. split; [lia|exact I].
  - auto.
Qed.

(* every decoder state that a history can reach satisfies the hypothesis [wf] of the soundness and
   completeness theorems *)
Theorem reachable_wf hd size evs : wf (run_events hd (decoder_new size) evs).
Proof.
  destruct (run_events_inv hd evs (decoder_new size) size) as (Hwf & _); [|exact Hwf].
  unfold hist_inv, wf, decoder_new. cbn [d_table d_last_max d_queued table_new t_max].
  split; [apply wf_table_new|]. split; [lia|]. split; [lia|exact I].
Qed.

(* Stronger bound by the limit currently in force, EXCEPT for the known finding KF-C11-3 (a
   lowered limit that the peer does not follow with a size update is not enforced). *)
Theorem hpack_table_within_limit_except_known hd d frags :
  wf d -> ~ required_update_pending d ->
  let d' := r_dec (decode_chunks hd d frags) in
  t_size (d_table d') <= tmax d' /\ tmax d' <= d_last_max d'.
Proof.
  intros Hwf Hle. cbv zeta. unfold required_update_pending in Hle.
  destruct (decode_chunks_from_inv hd frags d [] Hwf) as ((_ & _ & A) & _ & C & D & _).
  fold (decode_chunks hd d frags) in A, C, D. unfold last_limit_of in *.
  split; [exact A|]. destruct D as [D|D]; lia.
Qed.

Example hpack_table_within_limit_example :
  wf (decoder_new 4096) /\ ~ required_update_pending (decoder_new 4096).
Proof. split; [apply wf_table_new|]. unfold required_update_pending. vm_compute. discriminate. Qed.

(* ===================================================================================== *)
(* Part E: feeding a block in fragments                                                   *)
(* No hypothesis on the decoder state or on the octets in this part.                      *)

Definition qnone (q : quirk) : bool := match q with QNone => true | _ => false end.

(* ---- extending the input does not change what was decoded from a complete prefix ---- *)
Definition stable_rd {A} (r r' : rd A) (x : list N) : Prop :=
  match r with
  | ROk v rest => r' = ROk v (rest ++ x)
  | RErr e => if is_need_more e then True else r' = RErr e
  end.

Ltac stab_fin :=
  cbn [qnone andb]; rewrite ?andb_true_r, ?andb_false_r; cbv iota; try reflexivity;
  try (match goal with |- context [is_need_more ?e] => destruct (is_need_more e) end;
       cbv iota; reflexivity).
Ltac stab := try unfold stable_rd; stab_fin.
Lemma decode_int_loop_stable : forall bs k s r x,
  stable_rd (decode_int_loop k s r bs) (decode_int_loop k s r (bs ++ x)) x.
Proof.
  induction bs as [|b t IH]; intros k s r x; cbn [decode_int_loop app].
  - exact I.
  - destruct (N.land b VARINT_FLAG =? 0); [stab|].
    destruct (k + 1 =? MAX_BYTES); [stab|]. apply IH.
Qed.

Lemma decode_int_stable p bs x : stable_rd (decode_int p bs) (decode_int p (bs ++ x)) x.
Proof.
  unfold decode_int. destruct ((p <? 1) || (8 <? p)); [stab|].
  destruct bs as [|b t]; cbn [app]; [exact I|].
  destruct (N.land b (int_mask p) <? int_mask p); [stab|]. apply decode_int_loop_stable.
Qed.

Lemma split_at_stable n l a b x : split_at n l = Some (a, b) -> split_at n (l ++ x) = Some (a, b ++ x).
Proof.
  intros H. apply split_at_spec in H. destruct H as [-> Hl]. apply split_at_spec.
  split; [rewrite app_assoc; stab|exact Hl].
Qed.

Lemma try_decode_string_stable hd bs x :
  stable_rd (try_decode_string hd bs) (try_decode_string hd (bs ++ x)) x.
Proof.
  unfold try_decode_string. destruct bs as [|b t]; [exact I|]. cbn [app].
  change (b :: t ++ x) with ((b :: t) ++ x).
  pose proof (decode_int_stable 7 (b :: t) x) as Hi.
  destruct (decode_int 7 (b :: t)) as [len r1|e]; cbn [stable_rd] in Hi.
  - rewrite Hi. cbv iota.
    change (split_n len r1) with (split_at len r1).
    change (split_n len (r1 ++ x)) with (split_at len (r1 ++ x)).
    destruct (split_at len r1) as [[raw r2]|] eqn:E2; [|exact I].
    rewrite (split_at_stable _ _ _ _ x E2).
    destruct (N.land b 128 =? 128); [|stab].
    destruct (hd raw); stab.
  - cbn [stable_rd]. destruct (is_need_more e); [exact I|]. rewrite Hi. stab.
Qed.

Lemma header_new_err_hard n v e : header_new n v = HErr e -> is_need_more e = false.
Proof.
  unfold header_new. destruct n as [|c r]; [intros H; inversion H; reflexivity|].
  repeat match goal with
         | |- (if ?c then _ else _) = _ -> _ => destruct c
         end;
    unfold guard;
    repeat match goal with
           | |- (if ?c then _ else _) = _ -> _ => destruct c
           end; intros H; inversion H; reflexivity.
Qed.

Lemma into_entry_err_hard n v e : into_entry n v = HErr e -> is_need_more e = false.
Proof.
  unfold into_entry, guard. destruct (kind_of n);
    match goal with |- (if ?c then _ else _) = _ -> _ => destruct c end;
    intros H; inversion H; reflexivity.
Qed.

Definition stable_l (r r' : lres) (bs x : list N) : Prop :=
  match r with
  | LOk f rest => r' = LOk f (rest ++ x)
  | LErr e l q => if is_need_more e && qnone q then l = bs else r' = LErr e (l ++ x) q
  | LPanic => r' = LPanic
  end.

Ltac stab ::= try unfold stable_l; try unfold stable_rd; stab_fin.

Lemma decode_literal_stable hd t bs index x :
  stable_l (decode_literal hd t bs index) (decode_literal hd t (bs ++ x) index) bs x.
Proof.
  unfold decode_literal.
  pose proof (decode_int_stable (if index then 6 else 4) bs x) as Hi.
  destruct (decode_int (if index then 6 else 4) bs) as [idx r0|e]; cbn [stable_rd] in Hi.
  2:{ cbn [stable_l qnone]. rewrite andb_true_r. destruct (is_need_more e); [stab|].
      rewrite Hi. stab. }
  rewrite Hi. destruct (idx =? 0).
  - pose proof (try_decode_string_stable hd r0 x) as H1.
    destruct (try_decode_string hd r0) as [[nh name] r1|e]; cbn [stable_rd] in H1.
    2:{ cbn [stable_l qnone]. rewrite andb_true_r. destruct (is_need_more e); [stab|].
        rewrite H1. stab. }
    rewrite H1.
    pose proof (try_decode_string_stable hd r1 x) as H2.
    destruct (try_decode_string hd r1) as [[vh value] r2|e]; cbn [stable_rd] in H2.
    2:{ cbn [stable_l qnone]. rewrite andb_true_r. destruct (is_need_more e); [stab|].
        rewrite H2. stab. }
    rewrite H2.
    destruct (header_new name value) as [f|e] eqn:E3; [stab|].
    cbn [stable_l].
    assert (Hl : (if vh then if nh then bs ++ x else r1 ++ x else r2 ++ x) =
                 (if vh then if nh then bs else r1 else r2) ++ x) by (destruct vh, nh; stab).
    rewrite Hl. rewrite (header_new_err_hard _ _ _ E3). stab.
  - destruct (table_get t idx) as [e|e|]; [|stab|stab].
    pose proof (try_decode_string_stable hd r0 x) as H1.
    destruct (try_decode_string hd r0) as [[vh value] r1|err]; cbn [stable_rd] in H1.
    2:{ cbn [stable_l qnone]. rewrite andb_true_r. destruct (is_need_more err); [stab|].
        rewrite H1. stab. }
    rewrite H1.
    destruct (into_entry (fst e) value) as [f|err] eqn:E3; [stab|].
    cbn [stable_l]. rewrite (into_entry_err_hard _ _ _ E3). cbn [andb].
    destruct vh; stab.
Qed.

Definition stable_s (r r' : step_res) (bs x : list N) : Prop :=
  match r with
  | SField f d' rest => r' = SField f d' (rest ++ x)
  | SUpdate d' rest => r' = SUpdate d' (rest ++ x)
  | SErr e l q => if is_need_more e && qnone q then l = bs else r' = SErr e (l ++ x) q
  | SPanic => r' = SPanic
  end.

Ltac stab ::= try unfold stable_s; try unfold stable_l; try unfold stable_rd; stab_fin.

Lemma decode_step_stable hd cr d ty bs x :
  stable_s (decode_step hd cr d ty bs) (decode_step hd cr d ty (bs ++ x)) bs x.
Proof.
  unfold decode_step.
  destruct (repr_load ty) as [[| | | |]|e]; [| | | | |stab].
  - pose proof (decode_int_stable 7 bs x) as Hi.
    destruct (decode_int 7 bs) as [idx r|e]; cbn [stable_rd] in Hi.
    + rewrite Hi. destruct (table_get (d_table d) idx); stab.
    + cbn [stable_s qnone]. rewrite andb_true_r. destruct (is_need_more e); [stab|].
      rewrite Hi. stab.
  - pose proof (decode_literal_stable hd (d_table d) bs true x) as Hl.
    destruct (decode_literal hd (d_table d) bs true) as [f r|e l q|]; cbn [stable_l] in Hl.
    + rewrite Hl. stab.
    + cbn [stable_s]. destruct (is_need_more e && qnone q); [exact Hl|]. rewrite Hl. stab.
    + rewrite Hl. stab.
  - pose proof (decode_literal_stable hd (d_table d) bs false x) as Hl.
    destruct (decode_literal hd (d_table d) bs false) as [f r|e l q|]; cbn [stable_l] in Hl.
    + rewrite Hl. stab.
    + cbn [stable_s]. destruct (is_need_more e && qnone q); [exact Hl|]. rewrite Hl. stab.
    + rewrite Hl. stab.
  - pose proof (decode_literal_stable hd (d_table d) bs false x) as Hl.
    destruct (decode_literal hd (d_table d) bs false) as [f r|e l q|]; cbn [stable_l] in Hl.
    + rewrite Hl. stab.
    + cbn [stable_s]. destruct (is_need_more e && qnone q); [exact Hl|]. rewrite Hl. stab.
    + rewrite Hl. stab.
  - destruct (negb cr); [stab|].
    pose proof (decode_int_stable 5 bs x) as Hi.
    destruct (decode_int 5 bs) as [n r|e]; cbn [stable_rd] in Hi.
    + rewrite Hi. destruct (d_last_max d <? n); [stab|].
      destruct (table_set_max_size (d_table d) n); stab.
    + cbn [stable_s qnone]. rewrite andb_true_r. destruct (is_need_more e); [stab|].
      rewrite Hi. stab.
Qed.

(* ---- progress without hypotheses, fuel irrelevance ---- *)
Lemma step_suffix hd cr d ty bs :
  match decode_step hd cr d ty bs with
  | SField _ _ rest | SUpdate _ rest => exists pre, bs = pre ++ rest /\ pre <> []
  | _ => True
  end.
Proof.
  unfold decode_step.
  destruct (repr_load ty) as [[| | | |]|e]; [| | | | |exact I].
  - destruct (decode_int 7 bs) as [idx r|e] eqn:E0; [|exact I].
    destruct (table_get (d_table d) idx); try exact I. apply decode_int_suffix in E0. exact E0.
  - destruct (decode_literal hd (d_table d) bs true) as [f r|e l q|] eqn:E0; try exact I.
    apply decode_literal_inv in E0. apply E0.
  - destruct (decode_literal hd (d_table d) bs false) as [f r|e l q|] eqn:E0; try exact I.
    apply decode_literal_inv in E0. apply E0.
  - destruct (decode_literal hd (d_table d) bs false) as [f r|e l q|] eqn:E0; try exact I.
    apply decode_literal_inv in E0. apply E0.
  - destruct (negb cr); [exact I|].
    destruct (decode_int 5 bs) as [n r|e] eqn:E0; [|exact I].
    destruct (d_last_max d <? n); [exact I|].
    destruct (table_set_max_size (d_table d) n); [|exact I]. apply decode_int_suffix in E0. exact E0.
Qed.

Lemma suffix_shorter {A} (pre rest : list A) : pre <> [] -> (length rest < length (pre ++ rest))%nat.
Proof. intros H. rewrite app_length. destruct pre; [contradiction|cbn [length]; lia]. Qed.

Lemma loop_fuel hd : forall f1 f2 cr d bs, (length bs < f1)%nat -> (length bs < f2)%nat ->
  decode_loop hd f1 cr d bs = decode_loop hd f2 cr d bs.
Proof.
  induction f1 as [|f1 IH]; intros f2 cr d bs H1 H2; [lia|].
  destruct f2 as [|f2]; [lia|].
  destruct bs as [|ty t]; cbn [decode_loop]; [reflexivity|].
  pose proof (step_suffix hd cr d ty (ty :: t)) as Hs.
  destruct (decode_step hd cr d ty (ty :: t)) as [f d' rest|d' rest|e l q|]; try reflexivity.
  - destruct Hs as (pre & E & Hne). pose proof (suffix_shorter pre rest Hne) as Hl.
    rewrite <- E in Hl. cbn [length] in *. rewrite (IH f2 false d' rest) by lia. reflexivity.
  - destruct Hs as (pre & E & Hne). pose proof (suffix_shorter pre rest Hne) as Hl.
    rewrite <- E in Hl. cbn [length] in *. apply IH; lia.
Qed.

(* the loop with exactly the fuel that [decode] gives it *)
Definition decode_run (hd : list N -> option (list N)) (cr : bool) (d : decoder) (bs : list N)
  : dresult := decode_loop hd (S (length bs)) cr d bs.

Lemma decode_is_run hd d bs : decode hd d bs = decode_run hd true (take_queued d) bs.
Proof. reflexivity. Qed.

(* MAIN THEOREM 0 (totality): the fuel given by [decode] is never exhausted *)
Lemma decode_loop_no_fuel hd : forall fuel cr d bs, (length bs < fuel)%nat ->
  r_verdict (decode_loop hd fuel cr d bs) <> VFuel.
Proof.
  induction fuel as [|fuel IH]; intros cr d bs Hl; [lia|].
  destruct bs as [|ty t]; cbn [decode_loop]; [discriminate|].
  pose proof (step_suffix hd cr d ty (ty :: t)) as Hs.
  destruct (decode_step hd cr d ty (ty :: t)) as [f d' rest|d' rest|e l q|]; try discriminate.
  - destruct Hs as (pre & E & Hne). pose proof (suffix_shorter pre rest Hne) as Hl'.
    rewrite <- E in Hl'. cbn [length] in *. cbn [prepend r_verdict]. apply IH. lia.
  - destruct Hs as (pre & E & Hne). pose proof (suffix_shorter pre rest Hne) as Hl'.
    rewrite <- E in Hl'. cbn [length] in *. apply IH. lia.
Qed.

Theorem decode_no_fuel hd d bs : r_verdict (decode hd d bs) <> VFuel.
Proof. unfold decode. apply decode_loop_no_fuel. lia. Qed.

Lemma run_nil hd cr d : decode_run hd cr d [] = mk_dresult [] VOk d [] QNone.
Proof. reflexivity. Qed.

Lemma decode_loop_S hd fuel cr d ty t :
  decode_loop hd (S fuel) cr d (ty :: t) =
  match decode_step hd cr d ty (ty :: t) with
  | SField f d' rest => prepend [f] (decode_loop hd fuel false d' rest)
  | SUpdate d' rest => decode_loop hd fuel cr d' rest
  | SErr e l q => mk_dresult [] (VErr e) d l q
  | SPanic => mk_dresult [] VPanic d (ty :: t) QNone
  end.
Proof. reflexivity. Qed.

Lemma run_cons hd cr d ty t :
  decode_run hd cr d (ty :: t) =
  match decode_step hd cr d ty (ty :: t) with
  | SField f d' rest => prepend [f] (decode_run hd false d' rest)
  | SUpdate d' rest => decode_run hd cr d' rest
  | SErr e l q => mk_dresult [] (VErr e) d l q
  | SPanic => mk_dresult [] VPanic d (ty :: t) QNone
  end.
Proof.
  unfold decode_run at 1. change (length (ty :: t)) with (S (length t)). rewrite decode_loop_S.
  pose proof (step_suffix hd cr d ty (ty :: t)) as Hs.
  destruct (decode_step hd cr d ty (ty :: t)) as [f d' rest|d' rest|e l q|]; try reflexivity.
  - destruct Hs as (pre & E & Hne). pose proof (suffix_shorter pre rest Hne) as Hl.
    rewrite <- E in Hl. cbn [length] in Hl. unfold decode_run.
    rewrite (loop_fuel hd (S (length t)) (S (length rest)) false d' rest) by lia. reflexivity.
  - destruct Hs as (pre & E & Hne). pose proof (suffix_shorter pre rest Hne) as Hl.
    rewrite <- E in Hl. cbn [length] in Hl. unfold decode_run.
    apply loop_fuel; lia.
Qed.

(* ---- a run on b1 ++ x in terms of the run on b1 ---- *)
Definition cr_after (cr : bool) (fs : list field) : bool :=
  match fs with [] => cr | _ :: _ => false end.

(* the caller continues after Ok, and after a NeedMore that stems from missing input *)
Definition resumable (R : dresult) : bool :=
  match r_verdict R with
  | VOk => true
  | VErr e => is_need_more e && qnone (r_quirk R)
  | _ => false
  end.

Definition set_left (R : dresult) (l : list N) : dresult :=
  mk_dresult (r_fields R) (r_verdict R) (r_dec R) l (r_quirk R).

Lemma prepend_nil r : prepend [] r = r.
Proof. destruct r; reflexivity. Qed.

Lemma prepend_prepend a b r : prepend a (prepend b r) = prepend (a ++ b) r.
Proof. unfold prepend. cbn [r_fields r_verdict r_dec r_left r_quirk]. rewrite app_assoc. reflexivity. Qed.

Lemma run_app hd : forall n b1, (length b1 <= n)%nat -> forall cr d x,
  decode_run hd cr d (b1 ++ x) =
  let R1 := decode_run hd cr d b1 in
  if resumable R1
  then prepend (r_fields R1) (decode_run hd (cr_after cr (r_fields R1)) (r_dec R1) (r_left R1 ++ x))
  else set_left R1 (r_left R1 ++ x).
Proof.
  induction n as [|n IH]; intros b1 Hl cr d x; cbv zeta.
  - destruct b1; [|cbn [length] in Hl; lia]. rewrite run_nil. cbn [resumable r_verdict r_fields r_dec r_left cr_after app].
    rewrite prepend_nil. reflexivity.
  - destruct b1 as [|ty t].
    + rewrite run_nil. cbn [resumable r_verdict r_fields r_dec r_left cr_after app].
      rewrite prepend_nil. reflexivity.
    + cbn [app]. rewrite !run_cons. change (ty :: t ++ x) with ((ty :: t) ++ x).
      pose proof (decode_step_stable hd cr d ty (ty :: t) x) as Hst.
      pose proof (step_suffix hd cr d ty (ty :: t)) as Hs.
      destruct (decode_step hd cr d ty (ty :: t)) as [f d' rest|d' rest|e l q|]; cbn [stable_s] in Hst.
      * rewrite Hst. destruct Hs as (pre & E & Hne). pose proof (suffix_shorter pre rest Hne) as Hlr.
        rewrite <- E in Hlr. cbn [length] in Hl, Hlr.
        rewrite (IH rest ltac:(lia) false d' x). cbv zeta.
        set (R1 := decode_run hd false d' rest).
        assert (Hres : resumable (prepend [f] R1) = resumable R1) by reflexivity.
        rewrite Hres. destruct (resumable R1).
        -- rewrite prepend_prepend. cbn [prepend r_fields r_dec r_left app cr_after].
           assert (Hc : cr_after false (r_fields R1) = false) by (destruct (r_fields R1); reflexivity).
           rewrite Hc. reflexivity.
        -- reflexivity.
      * rewrite Hst. destruct Hs as (pre & E & Hne). pose proof (suffix_shorter pre rest Hne) as Hlr.
        rewrite <- E in Hlr. cbn [length] in Hl, Hlr.
        apply (IH rest ltac:(lia) cr d' x).
      * cbn [resumable r_verdict r_quirk r_fields r_dec r_left cr_after].
        destruct (is_need_more e && qnone q).
        -- subst l. rewrite prepend_nil. change ((ty :: t) ++ x) with (ty :: (t ++ x)).
           rewrite run_cons. reflexivity.
        -- rewrite Hst. reflexivity.
      * rewrite Hst. reflexivity.
Qed.

(* ---- can_resize only matters when a size update is met after a header ---- *)
Lemma step_false_no_update hd d ty bs d' rest : decode_step hd false d ty bs <> SUpdate d' rest.
Proof.
  unfold decode_step. destruct (repr_load ty) as [[| | | |]|e]; try discriminate.
  - destruct (decode_int 7 bs); [|discriminate]. destruct (table_get (d_table d) v); discriminate.
  - destruct (decode_literal hd (d_table d) bs true); discriminate.
  - destruct (decode_literal hd (d_table d) bs false); discriminate.
  - destruct (decode_literal hd (d_table d) bs false); discriminate.
Qed.

Lemma run_cr hd d bs :
  r_quirk (decode_run hd false d bs) <> QMisplacedUpdate ->
  decode_run hd true d bs = decode_run hd false d bs.
Proof.
  destruct bs as [|ty t]; [reflexivity|]. rewrite !run_cons.
  pose proof (step_false_no_update hd d ty (ty :: t)) as Hnu.
  unfold decode_step in *.
  destruct (repr_load ty) as [[| | | |]|e]; try reflexivity.
  - destruct (decode_int 7 (ty :: t)); [|reflexivity].
    destruct (table_get (d_table d) v); reflexivity.
  - destruct (decode_literal hd (d_table d) (ty :: t) true); reflexivity.
  - destruct (decode_literal hd (d_table d) (ty :: t) false); reflexivity.
  - destruct (decode_literal hd (d_table d) (ty :: t) false); reflexivity.
  - cbn [negb r_quirk]. intros H. contradiction H. reflexivity.
Qed.

(* the queued update is consumed by the first call *)
Lemma run_queued hd : forall n bs, (length bs <= n)%nat -> forall cr d,
  d_queued (r_dec (decode_run hd cr d bs)) = d_queued d.
Proof.
  induction n as [|n IH]; intros bs Hl cr d.
  - destruct bs; [reflexivity|cbn [length] in Hl; lia].
  - destruct bs as [|ty t]; [reflexivity|]. rewrite run_cons.
    pose proof (step_suffix hd cr d ty (ty :: t)) as Hs.
    assert (Hq : match decode_step hd cr d ty (ty :: t) with
                 | SField _ d' _ | SUpdate d' _ => d_queued d' = d_queued d | _ => True end).
    { unfold decode_step. destruct (repr_load ty) as [[| | | |]|e]; try exact I.
      - destruct (decode_int 7 (ty :: t)); [|exact I]. destruct (table_get (d_table d) v); try exact I. reflexivity.
      - destruct (decode_literal hd (d_table d) (ty :: t) true); try exact I. reflexivity.
      - destruct (decode_literal hd (d_table d) (ty :: t) false); try exact I. reflexivity.
      - destruct (decode_literal hd (d_table d) (ty :: t) false); try exact I. reflexivity.
      - destruct (negb cr); [exact I|]. destruct (decode_int 5 (ty :: t)); [|exact I].
        destruct (d_last_max d <? v); [exact I|].
        destruct (table_set_max_size (d_table d) v); [reflexivity|exact I]. }
    destruct (decode_step hd cr d ty (ty :: t)) as [f d' rest|d' rest|e l q|]; try reflexivity.
    + destruct Hs as (pre & E & Hne). pose proof (suffix_shorter pre rest Hne) as Hlr.
      rewrite <- E in Hlr. cbn [length] in Hl, Hlr.
      cbn [prepend r_dec]. rewrite (IH rest ltac:(lia) false d'). exact Hq.
    + destruct Hs as (pre & E & Hne). pose proof (suffix_shorter pre rest Hne) as Hlr.
      rewrite <- E in Hlr. cbn [length] in Hl, Hlr.
      rewrite (IH rest ltac:(lia) cr d'). exact Hq.
Qed.

Lemma take_queued_queued d : d_queued (take_queued d) = None.
Proof. unfold take_queued. destruct (d_queued d) eqn:E; [reflexivity|exact E]. Qed.

Lemma decode_queued hd d bs : d_queued (r_dec (decode hd d bs)) = None.
Proof.
  rewrite decode_is_run. rewrite (run_queued hd (length bs) bs (le_n _)). apply take_queued_queued.
Qed.

(* ---- the theorem ---- *)
Definition same_result (A B : dresult) : Prop :=
  r_fields A = r_fields B /\ r_verdict A = r_verdict B /\ r_dec A = r_dec B.

Lemma same_result_refl A : same_result A A.
Proof. unfold same_result. auto. Qed.

Lemma same_result_prepend fs A B : same_result A B -> same_result (prepend fs A) (prepend fs B).
Proof. unfold same_result, prepend. cbn [r_fields r_verdict r_dec]. intros (-> & -> & ->). auto. Qed.

Lemma chunks_from_whole hd : forall frags d carry, frags <> [] ->
  r_quirk (decode hd d (carry ++ concat frags)) = QNone ->
  same_result (decode_chunks_from hd d carry frags) (decode hd d (carry ++ concat frags)).
Proof.
  induction frags as [|f more IH]; intros d carry Hne Hq; [contradiction|].
  cbn [decode_chunks_from]. destruct more as [|g more'].
  - cbn [concat]. rewrite app_nil_r. apply same_result_refl.
  - set (C := concat (g :: more')). change (concat (f :: g :: more')) with (f ++ C) in *.
    rewrite app_assoc in *. rewrite (decode_is_run hd d ((carry ++ f) ++ C)) in *.
    rewrite (run_app hd (length (carry ++ f)) (carry ++ f) (le_n _) true (take_queued d) C) in *.
    cbv zeta in *. rewrite <- (decode_is_run hd d (carry ++ f)) in *.
    set (R1 := decode hd d (carry ++ f)) in *.
    destruct (resumable R1) eqn:Eres.
    + (* the caller continues *)
      assert (Hcont : match r_verdict R1 with VOk => True | VErr (NeedMore _) => True | _ => False end).
      { unfold resumable in Eres. destruct (r_verdict R1) as [|e| |]; try discriminate; [exact I|].
        destruct e; try discriminate. exact I. }
      cbn [prepend r_quirk] in Hq.
      set (D := r_dec R1) in *. set (T := r_left R1 ++ C) in *.
      assert (HD : take_queued D = D).
      { apply take_queued_none. subst D R1. apply decode_queued. }
      assert (Hrun : decode_run hd true D T = decode_run hd (cr_after true (r_fields R1)) D T).
      { destruct (cr_after true (r_fields R1)); [reflexivity|]. apply run_cr. rewrite Hq. discriminate. }
      assert (Hrec : same_result (decode_chunks_from hd D (r_left R1) (g :: more'))
                                 (decode_run hd (cr_after true (r_fields R1)) D T)).
      { assert (Hdec : decode hd D T = decode_run hd (cr_after true (r_fields R1)) D T).
        { rewrite decode_is_run, HD. exact Hrun. }
        rewrite <- Hdec. apply IH; [discriminate|]. fold C. fold T. rewrite Hdec. exact Hq. }
      destruct (r_verdict R1) as [|e| |]; try contradiction.
      * apply same_result_prepend. exact Hrec.
      * destruct e; try contradiction. apply same_result_prepend. exact Hrec.
    + (* a hard error in a fragment that is not the last: nothing more is fed *)
      cbn [set_left r_quirk] in Hq.
      assert (Hsame : same_result R1 (set_left R1 (r_left R1 ++ C))).
      { unfold same_result, set_left. cbn [r_fields r_verdict r_dec]. auto. }
      unfold resumable in Eres. destruct (r_verdict R1) as [|e| |] eqn:Ev.
      * discriminate Eres.
      * rewrite Hq in Eres. cbn [qnone] in Eres. rewrite andb_true_r in Eres.
        destruct e; try discriminate Eres; exact Hsame.
      * exact Hsame.
      * exact Hsame.
Qed.

(* MAIN THEOREM 4.  A header block delivered in any number of fragments, cut anywhere, decoded the
   way framed_read.rs does it (keep what `take` left in the BytesMut, append the next payload,
   call decode again after Ok or NeedMore; NeedMore on the last fragment is final), yields the
   same headers, the same verdict (error class) and the same decoder state (dynamic table,
   ceiling) as decoding the whole block at once -- EXCEPT for the known finding KF-C11-1: the
   whole-block run meets a size update after a header field ([size_update_after_field], ghost
   component [r_quirk] = QMisplacedUpdate; visible verdict InvalidMaxDynamicSize).  There the
   fragmented run can really differ (known_1_refuted below): `can_resize` is a local of
   Decoder::decode and is true again on every call.
   No hypothesis on the decoder state, the octets or [hd]. *)
Definition size_update_after_field (hd : list N -> option (list N)) (d : decoder) (bs : list N)
  : Prop := r_quirk (decode hd d bs) = QMisplacedUpdate.

Lemma quirk_cases q : q = QNone \/ q = QMisplacedUpdate.
Proof. destruct q; auto. Qed.

Theorem hpack_chunking_except_known hd d frags :
  frags <> [] ->
  ~ size_update_after_field hd d (concat frags) ->
  same_result (decode_chunks hd d frags) (decode hd d (concat frags)).
Proof.
  intros Hne Hq. apply (chunks_from_whole hd frags d [] Hne).
  destruct (quirk_cases (r_quirk (decode hd d ([] ++ concat frags)))) as [H|H]; [exact H|].
  contradiction.
Qed.

(* the exception in terms of the visible verdict *)
Lemma run_quirk_verdict hd : forall n bs, (length bs <= n)%nat -> forall cr d,
  r_quirk (decode_run hd cr d bs) = QMisplacedUpdate ->
  r_verdict (decode_run hd cr d bs) = VErr InvalidMaxDynamicSize.
Proof.
  induction n as [|n IH]; intros bs Hl cr d.
  - destruct bs; [discriminate|cbn [length] in Hl; lia].
  - destruct bs as [|ty t]; [discriminate|]. rewrite run_cons.
    pose proof (step_suffix hd cr d ty (ty :: t)) as Hs.
    assert (Hq : match decode_step hd cr d ty (ty :: t) with
                 | SErr e _ QMisplacedUpdate => e = InvalidMaxDynamicSize
                 | _ => True end).
    { unfold decode_step. destruct (repr_load ty) as [[| | | |]|e]; try exact I.
      - destruct (decode_int 7 (ty :: t)); [|exact I]. destruct (table_get (d_table d) v); exact I.
      - assert (A : match decode_literal hd (d_table d) (ty :: t) true with
                    | LErr e _ QMisplacedUpdate => False | _ => True end).
        { unfold decode_literal. destruct (decode_int 6 (ty :: t)); [|exact I]. destruct (v =? 0).
          - destruct (try_decode_string hd rest) as [[nh name] r1|]; [|exact I].
            destruct (try_decode_string hd r1) as [[vh value] r2|]; [|exact I].
            destruct (header_new name value); exact I.
          - destruct (table_get (d_table d) v); try exact I.
            destruct (try_decode_string hd rest) as [[vh value] r1|]; [|exact I].
            destruct (into_entry (fst f) value); exact I. }
        destruct (decode_literal hd (d_table d) (ty :: t) true) as [f r|e l q|]; try exact I.
        destruct q; [exact I|contradiction].
      - assert (A : match decode_literal hd (d_table d) (ty :: t) false with
                    | LErr e _ QMisplacedUpdate => False | _ => True end).
        { unfold decode_literal. destruct (decode_int 4 (ty :: t)); [|exact I]. destruct (v =? 0).
          - destruct (try_decode_string hd rest) as [[nh name] r1|]; [|exact I].
            destruct (try_decode_string hd r1) as [[vh value] r2|]; [|exact I].
            destruct (header_new name value); exact I.
          - destruct (table_get (d_table d) v); try exact I.
            destruct (try_decode_string hd rest) as [[vh value] r1|]; [|exact I].
            destruct (into_entry (fst f) value); exact I. }
        destruct (decode_literal hd (d_table d) (ty :: t) false) as [f r|e l q|]; try exact I.
        destruct q; [exact I|contradiction].
      - assert (A : match decode_literal hd (d_table d) (ty :: t) false with
                    | LErr e _ QMisplacedUpdate => False | _ => True end).
        { unfold decode_literal. destruct (decode_int 4 (ty :: t)); [|exact I]. destruct (v =? 0).
          - destruct (try_decode_string hd rest) as [[nh name] r1|]; [|exact I].
            destruct (try_decode_string hd r1) as [[vh value] r2|]; [|exact I].
            destruct (header_new name value); exact I.
          - destruct (table_get (d_table d) v); try exact I.
            destruct (try_decode_string hd rest) as [[vh value] r1|]; [|exact I].
            destruct (into_entry (fst f) value); exact I. }
        destruct (decode_literal hd (d_table d) (ty :: t) false) as [f r|e l q|]; try exact I.
        destruct q; [exact I|contradiction].
      - destruct (negb cr); [reflexivity|]. destruct (decode_int 5 (ty :: t)); [|exact I].
        destruct (d_last_max d <? v); [exact I|].
        destruct (table_set_max_size (d_table d) v); exact I. }
    destruct (decode_step hd cr d ty (ty :: t)) as [f d' rest|d' rest|e l q|]; try discriminate.
    + destruct Hs as (pre & E & Hne). pose proof (suffix_shorter pre rest Hne) as Hlr.
      rewrite <- E in Hlr. cbn [length] in Hl, Hlr.
      cbn [prepend r_quirk r_verdict]. apply (IH rest ltac:(lia) false d').
    + destruct Hs as (pre & E & Hne). pose proof (suffix_shorter pre rest Hne) as Hlr.
      rewrite <- E in Hlr. cbn [length] in Hl, Hlr.
      apply (IH rest ltac:(lia) cr d').
    + cbn [r_quirk r_verdict]. intros ->. rewrite Hq. reflexivity.
Qed.

(* In particular: every block that decodes successfully as a whole decodes identically in every
   fragmentation, and so does every block that fails with any error class other than
   InvalidMaxDynamicSize. *)
Corollary hpack_chunking_by_verdict hd d frags :
  frags <> [] ->
  r_verdict (decode hd d (concat frags)) <> VErr InvalidMaxDynamicSize ->
  same_result (decode_chunks hd d frags) (decode hd d (concat frags)).
Proof.
  intros Hne H1. apply hpack_chunking_except_known; [exact Hne|].
  unfold size_update_after_field. intros Hq. apply H1.
  rewrite decode_is_run in *.
  exact (run_quirk_verdict hd (length (concat frags)) (concat frags) (le_n _) true (take_queued d) Hq).
Qed.

Corollary hpack_chunking_ok hd d frags :
  frags <> [] ->
  r_verdict (decode hd d (concat frags)) = VOk ->
  same_result (decode_chunks hd d frags) (decode hd d (concat frags)).
Proof.
  intros Hne Hv. apply hpack_chunking_by_verdict; [exact Hne|]; rewrite Hv; discriminate.
Qed.

Example hpack_chunking_example hd :
  (* RFC 7541 C.2.1 cut in three places, one of them inside the name string *)
  let frags := [[64; 10; 99; 117]; [115; 116; 111; 109; 45; 107; 101; 121; 13; 99]; [];
                [117; 115; 116; 111; 109; 45; 104; 101; 97; 100; 101; 114]] in
  frags <> [] /\ ~ size_update_after_field hd (decoder_new 4096) (concat frags) /\
  r_fields (decode_chunks hd (decoder_new 4096) frags) = [(bstr "custom-key", bstr "custom-header")].
Proof.
  cbv zeta. split; [discriminate|].
  split; [unfold size_update_after_field; vm_compute; discriminate|vm_compute; reflexivity].
Qed.

(* ===================================================================================== *)
(* Part F: examples                                                                       *)

(* ---- RFC 7541 Appendix C.3: requests without Huffman coding, one decoder ---- *)
Definition c3_1 : list N := [130; 134; 132; 65; 15; 119; 119; 119; 46; 101; 120; 97; 109; 112; 108; 101; 46; 99; 111; 109].
Definition c3_2 : list N := [130; 134; 132; 190; 88; 8; 110; 111; 45; 99; 97; 99; 104; 101].
Definition c3_3 : list N := [130; 135; 133; 191; 64; 10; 99; 117; 115; 116; 111; 109; 45; 107; 101; 121;
                             12; 99; 117; 115; 116; 111; 109; 45; 118; 97; 108; 117; 101].

Definition fstr (n v : string) : list N * list N := (bstr n, bstr v).

Example rfc7541_C_3 hd :
  let r1 := decode hd (decoder_new 4096) c3_1 in
  let r2 := decode hd (r_dec r1) c3_2 in
  let r3 := decode hd (r_dec r2) c3_3 in
  (r_verdict r1, r_fields r1, t_size (d_table (r_dec r1))) =
    (VOk, [fstr ":method" "GET"; fstr ":scheme" "http"; fstr ":path" "/";
           fstr ":authority" "www.example.com"], 57) /\
  (r_verdict r2, r_fields r2, t_size (d_table (r_dec r2))) =
    (VOk, [fstr ":method" "GET"; fstr ":scheme" "http"; fstr ":path" "/";
           fstr ":authority" "www.example.com"; fstr "cache-control" "no-cache"], 110) /\
  (r_verdict r3, r_fields r3, t_size (d_table (r_dec r3))) =
    (VOk, [fstr ":method" "GET"; fstr ":scheme" "https"; fstr ":path" "/index.html";
           fstr ":authority" "www.example.com"; fstr "custom-key" "custom-value"], 164) /\
  ent (r_dec r3) = [fstr "custom-key" "custom-value"; fstr "cache-control" "no-cache";
                    fstr ":authority" "www.example.com"].
Proof. vm_compute. auto. Qed.

(* ... the reference decoder says the same *)
Example rfc7541_C_3_reference hd :
  match ref_decode_block hd h2_int_limit (rstate_init 4096) c3_1 with
  | Some (fs1, rs1) =>
    match ref_decode_block hd h2_int_limit rs1 c3_2 with
    | Some (fs2, rs2) =>
      match ref_decode_block hd h2_int_limit rs2 c3_3 with
      | Some (fs3, rs3) => table_size (r_dyn rs3) = 164 /\ length fs1 = 4%nat /\ length fs2 = 5%nat /\
                           fs3 = r_fields (decode hd (r_dec (decode hd (r_dec (decode hd (decoder_new 4096) c3_1)) c3_2)) c3_3)
      | None => False
      end
    | None => False
    end
  | None => False
  end.
Proof. vm_compute. auto. Qed.

(* ---- C.5: responses, SETTINGS_HEADER_TABLE_SIZE = 256, evictions ---- *)
Definition c5_1 : list N :=
  [72; 3; 51; 48; 50; 88; 7; 112; 114; 105; 118; 97; 116; 101; 97; 29; 77; 111; 110; 44; 32; 50; 49; 32;
   79; 99; 116; 32; 50; 48; 49; 51; 32; 50; 48; 58; 49; 51; 58; 50; 49; 32; 71; 77; 84; 110; 23; 104; 116;
   116; 112; 115; 58; 47; 47; 119; 119; 119; 46; 101; 120; 97; 109; 112; 108; 101; 46; 99; 111; 109].
Definition c5_2 : list N := [72; 3; 51; 48; 55; 193; 192; 191].
Definition c5_3 : list N :=
  [136; 193; 97; 29; 77; 111; 110; 44; 32; 50; 49; 32; 79; 99; 116; 32; 50; 48; 49; 51; 32; 50; 48; 58; 49;
   51; 58; 50; 50; 32; 71; 77; 84; 192; 90; 4; 103; 122; 105; 112; 119; 56; 102; 111; 111; 61; 65; 83; 68;
   74; 75; 72; 81; 75; 66; 90; 88; 79; 81; 87; 69; 79; 80; 73; 85; 65; 88; 81; 87; 69; 79; 73; 85; 59; 32;
   109; 97; 120; 45; 97; 103; 101; 61; 51; 54; 48; 48; 59; 32; 118; 101; 114; 115; 105; 111; 110; 61; 49].

Example rfc7541_C_5 hd :
  let r1 := decode hd (decoder_new 256) c5_1 in
  let r2 := decode hd (r_dec r1) c5_2 in
  let r3 := decode hd (r_dec r2) c5_3 in
  (r_verdict r1, r_fields r1, t_size (d_table (r_dec r1))) =
    (VOk, [fstr ":status" "302"; fstr "cache-control" "private";
           fstr "date" "Mon, 21 Oct 2013 20:13:21 GMT"; fstr "location" "https://www.example.com"], 222) /\
  (r_verdict r2, r_fields r2, t_size (d_table (r_dec r2))) =
    (VOk, [fstr ":status" "307"; fstr "cache-control" "private";
           fstr "date" "Mon, 21 Oct 2013 20:13:21 GMT"; fstr "location" "https://www.example.com"], 222) /\
  (r_verdict r3, r_fields r3, t_size (d_table (r_dec r3))) =
    (VOk, [fstr ":status" "200"; fstr "cache-control" "private";
           fstr "date" "Mon, 21 Oct 2013 20:13:22 GMT"; fstr "location" "https://www.example.com";
           fstr "content-encoding" "gzip";
           fstr "set-cookie" "foo=ASDJKHQKBZXOQWEOPIUAXQWEOIU; max-age=3600; version=1"], 215) /\
  ent (r_dec r3) =
    [fstr "set-cookie" "foo=ASDJKHQKBZXOQWEOPIUAXQWEOIU; max-age=3600; version=1";
     fstr "content-encoding" "gzip"; fstr "date" "Mon, 21 Oct 2013 20:13:22 GMT"].
Proof. vm_compute. auto. Qed.

(* ---- C.4: the requests of C.3 with Huffman coded strings; [hd] given as the three facts the
   example needs about the Huffman code ---- *)
Definition c4_hd : list N -> option (list N) :=
  hd_of_table [([241; 227; 194; 229; 242; 58; 107; 160; 171; 144; 244; 255], Some (bstr "www.example.com"));
               ([168; 235; 16; 100; 156; 191], Some (bstr "no-cache"));
               ([37; 168; 73; 233; 91; 169; 125; 127], Some (bstr "custom-key"));
               ([37; 168; 73; 233; 91; 184; 232; 180; 191], Some (bstr "custom-value"))].
Definition c4_1 : list N := [130; 134; 132; 65; 140; 241; 227; 194; 229; 242; 58; 107; 160; 171; 144; 244; 255].
Definition c4_2 : list N := [130; 134; 132; 190; 88; 134; 168; 235; 16; 100; 156; 191].
Definition c4_3 : list N := [130; 135; 133; 191; 64; 136; 37; 168; 73; 233; 91; 169; 125; 127;
                             137; 37; 168; 73; 233; 91; 184; 232; 180; 191].

Example rfc7541_C_4 :
  let r1 := decode c4_hd (decoder_new 4096) c4_1 in
  let r2 := decode c4_hd (r_dec r1) c4_2 in
  let r3 := decode c4_hd (r_dec r2) c4_3 in
  (r_verdict r1, t_size (d_table (r_dec r1))) = (VOk, 57) /\
  (r_verdict r2, t_size (d_table (r_dec r2))) = (VOk, 110) /\
  (r_verdict r3, r_fields r3, t_size (d_table (r_dec r3))) =
    (VOk, [fstr ":method" "GET"; fstr ":scheme" "https"; fstr ":path" "/index.html";
           fstr ":authority" "www.example.com"; fstr "custom-key" "custom-value"], 164).
Proof. vm_compute. auto. Qed.

(* ---- error classes ---- *)
Example err_index_zero hd : r_verdict (decode hd (decoder_new 4096) [128]) = VErr InvalidTableIndex.
Proof. reflexivity. Qed.
Example err_index_beyond hd : r_verdict (decode hd (decoder_new 4096) [190]) = VErr InvalidTableIndex.
Proof. reflexivity. Qed.
Example err_update_oversize hd :
  r_verdict (decode hd (decoder_new 4096) [63; 226; 31]) = VErr InvalidMaxDynamicSize.   (* 4097 *)
Proof. vm_compute. reflexivity. Qed.
Example err_update_misplaced hd :
  r_verdict (decode hd (decoder_new 4096) [130; 32]) = VErr InvalidMaxDynamicSize.
Proof. vm_compute. reflexivity. Qed.
Example err_int_overflow hd :
  r_verdict (decode hd (decoder_new 4096) [255; 128; 128; 128; 128; 0]) = VErr IntegerOverflow.
Proof. vm_compute. reflexivity. Qed.
Example err_huffman (hd : list N -> option (list N)) : hd [255] = None ->
  r_verdict (decode hd (decoder_new 4096) [0; 129; 255; 0]) = VErr InvalidHuffmanCode.
Proof.
  intros H. unfold decode. cbn [length take_queued decoder_new d_queued].
  rewrite decode_loop_S. unfold decode_step.
  change (repr_load 0) with (@inl repr dec_err LiteralWithoutIndexing). cbv iota.
  unfold decode_literal. change (decode_int 4 [0; 129; 255; 0]) with (@ROk N 0 [129; 255; 0]).
  cbv iota. change (0 =? 0) with true. cbv iota. unfold try_decode_string.
  change (decode_int 7 [129; 255; 0]) with (@ROk N 1 [255; 0]). cbv iota.
  change (split_n 1 [255; 0]) with (Some ([255], [0])). cbv iota.
  change (N.land 129 128 =? 128) with true. cbv iota. rewrite H. reflexivity.
Qed.
Example err_truncated hd :
  r_verdict (decode hd (decoder_new 4096) [64; 10; 99; 117]) = VErr (NeedMore StringUnderflow) /\
  r_left (decode hd (decoder_new 4096) [130; 64; 10; 99; 117]) = [64; 10; 99; 117].
Proof. vm_compute. auto. Qed.
Example oversize_entry_empties_table hd :
  (* table of 64 octets holding one entry; an entry of 32+1+40 octets does not fit: not an error,
     the table is emptied (RFC 7541 4.4) *)
  let r1 := decode hd (decoder_new 64) [64; 1; 97; 1; 98] in
  let r2 := decode hd (r_dec r1) ([64; 1; 99; 40] ++ repeat 100 40) in
  (r_verdict r1, t_size (d_table (r_dec r1))) = (VOk, 34) /\
  (r_verdict r2, length (r_fields r2), t_size (d_table (r_dec r2)), ent (r_dec r2)) = (VOk, 1%nat, 0, []).
Proof. vm_compute. auto. Qed.

(* ---- the known findings, as facts about the model (reproduced on the real decoder by the
   harness: corpus/hpackdec/cases.jsonl) ---- *)

(* KF-C11-1.  `can_resize` is a local of Decoder::decode: it is true again when decoding resumes
   with the next CONTINUATION fragment.  Whole block: error.  Same block in two fragments:
   accepted, and the table maximum is set to 0 in the middle of the block. *)
Example chunking_differs_misplaced_update hd :
  let d := decoder_new 4096 in
  r_verdict (decode hd d (concat [[130]; [32]])) = VErr InvalidMaxDynamicSize /\
  size_update_after_field hd d (concat [[130]; [32]]) /\
  r_verdict (decode_chunks hd d [[130]; [32]]) = VOk /\
  tmax (r_dec (decode_chunks hd d [[130]; [32]])) = 0 /\
  ref_decode_block hd h2_int_limit (abs d) [130; 32] = None.
Proof. unfold size_update_after_field. vm_compute. auto. Qed.

(* the unconditional chunking statement is false *)
Theorem known_1_refuted :
  ~ (forall (hd : list N -> option (list N)) d frags, frags <> [] ->
       same_result (decode_chunks hd d frags) (decode hd d (concat frags))).
Proof.
  intros H. specialize (H (fun _ => None) (decoder_new 4096) [[130]; [32]] ltac:(discriminate)).
  destruct H as (_ & Hv & _). vm_compute in Hv. discriminate.
Qed.

(* KF-C11-3.  A lowered SETTINGS_HEADER_TABLE_SIZE is only a ceiling for later size updates: when
   the peer does not send the size update RFC 7541 4.2 requires, the block is accepted and the
   table keeps more than the advertised limit. *)
Example limit_reduction_not_enforced hd :
  let d1 := r_dec (decode hd (decoder_new 4096)
                     [64; 10; 99; 117; 115; 116; 111; 109; 45; 107; 101; 121;
                      13; 99; 117; 115; 116; 111; 109; 45; 104; 101; 97; 100; 101; 114]) in
  let d2 := queue_size_update d1 0 in
  let r := decode hd d2 [130] in
  required_update_pending d2 /\
  r_verdict r = VOk /\ d_last_max (r_dec r) = 0 /\ t_size (d_table (r_dec r)) = 55 /\
  tmax (r_dec r) = 4096 /\
  ref_decode_block hd h2_int_limit (abs (take_queued d2)) [130] <> None /\
  rfc_ref_decode_block hd h2_int_limit (abs (take_queued d2)) [130] = None.
Proof. unfold required_update_pending. vm_compute. repeat split; auto; discriminate. Qed.

(* the statements without the exception are false: the table can exceed the limit in force, and
   a block is accepted that the RFC (with 4.2) rejects *)
Definition known_3_history : list event :=
  [EBlock [[64; 10; 99; 117; 115; 116; 111; 109; 45; 107; 101; 121;
            13; 99; 117; 115; 116; 111; 109; 45; 104; 101; 97; 100; 101; 114]];
   EQueue 0; EBlock [[130]]].

Theorem known_3_refuted :
  ~ (forall (hd : list N -> option (list N)) size evs,
       let d := run_events hd (decoder_new size) evs in
       t_size (d_table d) <= d_last_max d) /\
  ~ (forall (hd : list N -> option (list N)) d bs, wf d -> octets bs ->
       r_verdict (decode hd d bs) = VOk ->
       rfc_block_decodes hd h2_int_limit (abs (take_queued d)) bs
                         (r_fields (decode hd d bs)) (abs (r_dec (decode hd d bs)))).
Proof.
  split.
  - intros H. specialize (H (fun _ => None) 4096 known_3_history). vm_compute in H.
    apply H. reflexivity.
  - intros H.
    set (hd := fun _ : list N => @None (list N)).
    set (d2 := queue_size_update
                 (r_dec (decode hd (decoder_new 4096)
                           [64; 10; 99; 117; 115; 116; 111; 109; 45; 107; 101; 121;
                            13; 99; 117; 115; 116; 111; 109; 45; 104; 101; 97; 100; 101; 114])) 0).
    assert (Hwf : wf d2).
    { unfold d2, queue_size_update, wf. cbn [d_table].
      apply (decode_inv hd (decoder_new 4096) _ (wf_table_new 4096)). }
    specialize (H hd d2 [130] Hwf ltac:(apply bytes_ok_octets; reflexivity) ltac:(vm_compute; reflexivity)).
    apply rfc_ref_decode_block_spec in H. vm_compute in H. discriminate.
Qed.

(* an empty literal name is a hard error whole and in fragments (h2 commit a9c11d7; before, the
   fragmented block was accepted with the header dropped) *)
Example empty_name_is_hard_error hd :
  let d := decoder_new 4096 in
  r_verdict (decode hd d [0; 0; 1; 97; 130]) = VErr InvalidUtf8 /\
  r_verdict (decode_chunks hd d [[0; 0; 1; 97]; [130]]) = VErr InvalidUtf8 /\
  r_fields (decode_chunks hd d [[0; 0; 1; 97]; [130]]) = [].
Proof. vm_compute. auto. Qed.
