(* The invariant of the store model and its preservation by every label. *)
From H2V Require Import Base.Tac Model.Counts Model.Store Proofs.CountsProofs Proofs.StoreLists.
Local Open Scope N_scope.

Definition ids_ok (sl : list (N * rec)) (ids : list (N * N)) : Prop :=
  forall id idx, alook id ids = Some idx -> exists r, alook idx sl = Some r /\ r_id r = id.
Definition h_res (sl : list (N * rec)) (hs : list (key * N)) : Prop :=
  forall k s, In (k, s) hs -> exists r, alook (fst k) sl = Some r /\ r_id r = snd k /\ r_serial r = s.
Definition h_cnt (sl : list (N * rec)) (hs : list (key * N)) : Prop :=
  forall idx r, alook idx sl = Some r -> r_ref r = hcount (idx, r_id r) hs.
Definition q_res (sl : list (N * rec)) (q : list (qid * key)) : Prop :=
  forall x k, In (x, k) q -> exists r, alook (fst k) sl = Some r /\ r_id r = snd k.
Definition q_cnt (sl : list (N * rec)) (q : list (qid * key)) : Prop :=
  forall idx r f, alook idx sl = Some r -> qcount f (idx, r_id r) q = b2n (r_fl r f).
Definition reason_ok (sl : list (N * rec)) : Prop :=
  forall idx r, alook idx sl = Some r -> has_reason r = true \/ r_owed r = true.

Record SInv (st : sstate) : Prop := mkSInv {
  I_slab : NoDup (map fst (slab st));
  I_ids : ids_ok (slab st) (ids st);
  I_hres : h_res (slab st) (handles st);
  I_hcnt : h_cnt (slab st) (handles st);
  I_refs : refs st = nstreams st + N.of_nat (length (handles st));
  I_qres : q_res (slab st) (qs st);
  I_qcnt : q_cnt (slab st) (qs st);
  I_cs : CInv (cs st);
  I_reason : reason_ok (slab st)
}.


Lemma ids_ok_upd sl ids i r r' :
  alook i sl = Some r -> r_id r' = r_id r -> ids_ok sl ids -> ids_ok (aset i r' sl) ids.
Proof.
  intros Hl Hid H id idx Hi. destruct (H id idx Hi) as (r0 & A & B).
  rewrite alook_aset. destruct (i =? idx) eqn:E.
  - apply N.eqb_eq in E. subst idx. exists r'. split; [reflexivity|]. rewrite Hl in A. inversion A; subst. congruence.
  - exists r0. auto.
Qed.

Lemma h_res_upd sl hs i r r' :
  alook i sl = Some r -> r_id r' = r_id r -> r_serial r' = r_serial r -> h_res sl hs -> h_res (aset i r' sl) hs.
Proof.
  intros Hl Hid Hs H k s Hi. destruct (H k s Hi) as (r0 & A & B & C).
  rewrite alook_aset. destruct (i =? fst k) eqn:E.
  - apply N.eqb_eq in E. subst i. exists r'. rewrite Hl in A. inversion A; subst. repeat split; congruence.
  - exists r0. auto.
Qed.

Lemma q_res_upd sl q i r r' :
  alook i sl = Some r -> r_id r' = r_id r -> q_res sl q -> q_res (aset i r' sl) q.
Proof.
  intros Hl Hid H x k Hi. destruct (H x k Hi) as (r0 & A & B).
  rewrite alook_aset. destruct (i =? fst k) eqn:E.
  - apply N.eqb_eq in E. subst i. exists r'. rewrite Hl in A. inversion A; subst. split; congruence.
  - exists r0. auto.
Qed.

Lemma h_cnt_upd sl hs hs' i r r' :
  alook i sl = Some r -> r_id r' = r_id r -> h_cnt sl hs ->
  r_ref r' = hcount (i, r_id r) hs' ->
  (forall k, fst k <> i -> hcount k hs' = hcount k hs) ->
  h_cnt (aset i r' sl) hs'.
Proof.
  intros Hl Hid H Hr Ho idx r0. rewrite alook_aset. destruct (i =? idx) eqn:E.
  - apply N.eqb_eq in E. subst idx. intros A. inversion A; subst. rewrite Hid. exact Hr.
  - intros A. rewrite Ho; [apply H; exact A|]. cbn [fst]. apply N.eqb_neq in E. congruence.
Qed.

Lemma q_cnt_upd sl q q' i r r' :
  alook i sl = Some r -> r_id r' = r_id r -> q_cnt sl q ->
  (forall f, qcount f (i, r_id r) q' = b2n (r_fl r' f)) ->
  (forall f k, fst k <> i -> qcount f k q' = qcount f k q) ->
  q_cnt (aset i r' sl) q'.
Proof.
  intros Hl Hid H Hr Ho idx r0 f. rewrite alook_aset. destruct (i =? idx) eqn:E.
  - apply N.eqb_eq in E. subst idx. intros A. inversion A; subst. rewrite Hid. apply Hr.
  - intros A. rewrite Ho; [apply H; exact A|]. cbn [fst]. apply N.eqb_neq in E. congruence.
Qed.

Lemma reason_upd sl i r' :
  reason_ok sl -> (has_reason r' = true \/ r_owed r' = true) -> reason_ok (aset i r' sl).
Proof.
  intros H Hr idx r0. rewrite alook_aset. destruct (i =? idx).
  - intros A. inversion A; subst. exact Hr.
  - apply H.
Qed.

(* ---- removal of a slot ---- *)
Lemma alook_adel_some {A} i idx (sl : list (N * A)) v : alook idx (adel i sl) = Some v -> idx <> i /\ alook idx sl = Some v.
Proof.
  rewrite alook_adel. destruct (i =? idx) eqn:E; [discriminate|]. apply N.eqb_neq in E. intros H. split; [congruence|exact H].
Qed.

Lemma h_res_del sl hs i : h_res sl hs -> (forall k s, In (k, s) hs -> fst k <> i) -> h_res (adel i sl) hs.
Proof.
  intros H Hn k s Hi. destruct (H k s Hi) as (r0 & A & B). exists r0. split; [|exact B].
  rewrite alook_adel_other; [exact A|]. intros E. apply (Hn k s Hi). congruence.
Qed.

Lemma q_res_del sl q i : q_res sl q -> (forall x k, In (x, k) q -> fst k <> i) -> q_res (adel i sl) q.
Proof.
  intros H Hn x k Hi. destruct (H x k Hi) as (r0 & A & B). exists r0. split; [|exact B].
  rewrite alook_adel_other; [exact A|]. intros E. apply (Hn x k Hi). congruence.
Qed.

Lemma h_cnt_del sl hs i : h_cnt sl hs -> h_cnt (adel i sl) hs.
Proof. intros H idx r A. apply alook_adel_some in A. apply H. apply A. Qed.

Lemma q_cnt_del sl q i : q_cnt sl q -> q_cnt (adel i sl) q.
Proof. intros H idx r f A. apply alook_adel_some in A. apply H. apply A. Qed.

Lemma reason_del sl i : reason_ok sl -> reason_ok (adel i sl).
Proof. intros H idx r A. apply alook_adel_some in A. apply (H idx). apply A. Qed.

Lemma ids_ok_del sl ids ids' i :
  ids_ok sl ids ->
  (forall id idx, alook id ids' = Some idx -> alook id ids = Some idx /\ idx <> i) ->
  ids_ok (adel i sl) ids'.
Proof.
  intros H Hs id idx Hi. destruct (Hs id idx Hi) as (A & B). destruct (H id idx A) as (r0 & C & D).
  exists r0. split; [|exact D]. rewrite alook_adel_other; [exact C|congruence].
Qed.

(* a record without handles / queue flags is referenced by no handle / queue entry *)
Lemma no_handle_at sl hs i r :
  h_res sl hs -> h_cnt sl hs -> alook i sl = Some r -> r_ref r = 0 -> forall k s, In (k, s) hs -> fst k <> i.
Proof.
  intros Hr Hc Hl H0 k s Hi E. destruct (Hr k s Hi) as (r0 & A & B & _).
  rewrite E, Hl in A. inversion A; subst r0.
  assert (K : k = (i, r_id r)) by (destruct k; cbn [fst snd] in *; congruence).
  rewrite (Hc i r Hl) in H0. subst k. exact (hcount_zero_notin _ s _ H0 Hi).
Qed.

Lemma any_flag_false r : any_flag r = false -> forall f, r_fl r f = false.
Proof.
  unfold any_flag, all_fids. cbn [existsb]. intros H f.
  repeat (apply orb_false_iff in H; destruct H as (? & H)). destruct f; assumption.
Qed.

Lemma no_queue_at sl q i r :
  q_res sl q -> q_cnt sl q -> alook i sl = Some r -> no_flags r = true -> forall x k, In (x, k) q -> fst k <> i.
Proof.
  intros Hr Hc Hl H0 x k Hi E. destruct (Hr x k Hi) as (r0 & A & B).
  rewrite E, Hl in A. inversion A; subst r0.
  assert (K : k = (i, r_id r)) by (destruct k; cbn [fst snd] in *; congruence).
  unfold no_flags in H0. apply negb_true_iff in H0.
  pose proof (Hc i r (flag_of x) Hl) as Q. rewrite (any_flag_false r H0) in Q. cbn [b2n] in Q.
  subst k. exact (qcount_zero_notin _ _ x _ Q eq_refl Hi).
Qed.

Lemma hcount_none hs k : (forall k' s, In (k', s) hs -> k' <> k) -> hcount k hs = 0.
Proof.
  induction hs as [|[k' s] hs IH]; cbn [hcount]; [reflexivity|]. intros H.
  destruct (key_eqb k k') eqn:E.
  - apply key_eqb_eq in E. subst. exfalso. apply (H k' s); [left; reflexivity|reflexivity].
  - rewrite IH; [lia|]. intros k2 s2 Hi. apply (H k2 s2). right. exact Hi.
Qed.

Lemma qcount_none q f k : (forall x k', In (x, k') q -> k' <> k) -> qcount f k q = 0.
Proof.
  induction q as [|[x k'] q IH]; cbn [qcount]; [reflexivity|]. intros H.
  destruct (key_eqb k k') eqn:E.
  - apply key_eqb_eq in E. subst. exfalso. apply (H x k'); [left; reflexivity|reflexivity].
  - rewrite andb_false_r. rewrite IH; [lia|]. intros x2 k2 Hi. apply (H x2). right. exact Hi.
Qed.

Lemma resolve_spec st k r : resolve st k = Some r <-> alook (fst k) (slab st) = Some r /\ r_id r = snd k.
Proof.
  unfold resolve. destruct (alook (fst k) (slab st)) as [r0|]; [|split; [discriminate|intros (H & _); discriminate]].
  destruct (r_id r0 =? snd k) eqn:E.
  - apply N.eqb_eq in E. split; [intros H; inversion H; subst; auto|intros (H & _); exact H].
  - apply N.eqb_neq in E. split; [discriminate|intros (H & H2); inversion H; subst; congruence].
Qed.

Lemma resolve_key st k r : resolve st k = Some r -> k = (fst k, r_id r).
Proof. intros H. apply resolve_spec in H. destruct H as (_ & H). destruct k; cbn [fst snd] in *. congruence. Qed.

Lemma existsb_false {A} (f : A -> bool) l : existsb f l = false -> forall x, In x l -> f x = false.
Proof.
  induction l as [|y l IH]; cbn [existsb In]; [intros _ x []|].
  intros H x [H1|H1]; apply orb_false_iff in H; destruct H as (H2 & H3); [subst; exact H2|apply IH; assumption].
Qed.
