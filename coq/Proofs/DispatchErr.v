(* C09 at the dispatch layer: a stream error is answered by a reset of that stream (inside the section, or by the
   connection through Inner::send_reset). *)
From H2V Require Import Base.Tac Base.Bytes Model.StreamState Ref.Rfc9113Stream Proofs.StreamStateProofs
  Model.Dispatch Proofs.DispatchRecv.
Local Open Scope N_scope.

(* ---------------------------------------------------------------------------------------------
   a stream error is answered by a reset of that stream *)

Fixpoint queued_reset (o : list out) : option (N * N) :=
  match o with
  | [] => None
  | OQueue sid (QReset c) :: _ => Some (sid, c)
  | _ :: o' => queued_reset o'
  end.

Ltac contra :=
  exfalso;
  repeat match goal with H : context [_ && false] |- _ => rewrite andb_false_r in H end;
  congruence.

Definition frame_ends (l : label) : bool :=
  match l with LRecvHeaders _ eos _ _ _ => eos | LRecvData _ eos _ => eos | _ => false end.

Ltac t3get :=
  first [ rewrite ?kget_put_same, ?kget_insert_same, ?sget_sset_same; reflexivity
        | eassumption ].

Ltac t3core st k r Hi :=
  try match goal with
      | |- context [drop_promises (put ?s ?kk ?r2) ?o ?q] =>
        let Hd := fresh "Hd" in destruct (drop_put_same s kk r2 o q) as [Hd|Hd]
      end;
  (eexists; split;
  [ t3get
  | split;
    [ cbn; auto; fail
    | first [ left; cbn; congruence
            | right; exists r; split; [eapply iget_kget; eauto | left; assumption]
            | right; exists r; split;
              [ eapply iget_kget; eauto
              | right; rewrite ?andb_true_r in *;
                repeat match goal with
                       | H : s_q _ = _ |- _ => rewrite H
                       | H : s_infl _ = _ |- _ => rewrite H
                       end; cbn; auto; fail ] ] ] ]).

Ltac t3leaf st k r Hi :=
  first [ contra | t3core st k r Hi
        | (destruct (s_state r) as [| | |lo re|p|p|c] eqn:Es;
           [ | | | destruct lo, re | destruct p | destruct p | ];
           repeat match goal with b : bool |- _ => destruct b end; cbn in *; try congruence;
           repeat match goal with H : (_, _) = (_, _) |- _ => inversion H; clear H; subst end;
           cbn in *; try congruence; first [contra | t3core st k r Hi]) ].

(* a stream error handled inside the section: the record ends up reset, and a RST_STREAM is queued unless the stream
   had been reset before or was closed with nothing left to send *)
Theorem recv_stream_error_resets st l sid t st' outs :
  recv_frame l = Some (sid, t) -> step st l = Ok st' outs ->
  refused_in outs = true -> result_of outs = ROk ->
  exists r', kget st' (touched st l) = Some r' /\ is_reset (s_state r') = true /\
    (queued_reset outs <> None \/
     exists r, kget st (touched st l) = Some r /\
               (is_reset (s_state r) = true \/
                (s_q r = [] /\ s_infl r = None /\ (is_closed (s_state r) = true \/ frame_ends l = true)))).
Proof.
  intros Hl Hs Hr Hres.
  destruct l; cbn [recv_frame] in Hl; try discriminate; inversion Hl; subst; clear Hl; cbn [step touched] in *.
  - unfold step_recv_headers in Hs. destruct (sid =? 0); [discriminate|].
    destruct (c_recv_max st <? sid); [use_res1 Hs; discriminate|].
    destruct (iget st sid) as [[k r]|] eqn:Hi.
    + unf. cbn [s_popen s_state set_state] in Hs. peel Hs; use_res1 Hs; try discriminate; t3leaf st k r Hi.
    + unf. unfold recv_open_id, drop_promises in Hs. cbn [new_rec s_popen s_state set_state s_q fail_promised fold_left] in Hs.
      peel Hs; try use_res1 Hs; try discriminate;
      try (eexists; split; [rewrite ?kget_put_same; reflexivity | split; [cbn; auto; fail | left; cbn; congruence]]);
      (exfalso; cbn in *;
       repeat match goal with H : (_, _) = (_, _) |- _ => inversion H; clear H; subst end;
       repeat match goal with b : bool |- _ => destruct b end; cbn in *; congruence).
  - unf. destruct (sid =? 0); [discriminate|].
    destruct (iget st sid) as [[k r]|] eqn:Hi; peel Hs; use_res1 Hs; try discriminate; t3leaf st k r Hi.
  - unf. destruct (iget st sid) as [[k r]|] eqn:Hi; peel Hs; use_res1 Hs; try discriminate.
  - unf. destruct (sid =? 0); [discriminate|].
    destruct (iget st sid) as [[k r]|] eqn:Hi; peel Hs; use_res1 Hs; try discriminate; t3leaf st k r Hi.
  - unf. unfold recv_open_id in Hs. cbn [new_rec s_state reserve_remote set_state] in Hs.
    peel Hs; try use_res1 Hs; try discriminate;
    (eexists; split; [rewrite ?kget_insert_same; reflexivity | split; [cbn; auto; fail | left; cbn; congruence]]).
  - use_res1 Hs. discriminate.
Qed.

Lemma iget_ids st sid k r : iget st sid = Some (k, r) -> sget sid (c_ids st) = Some k.
Proof.
  unfold iget. destruct (sget sid (c_ids st)); [|discriminate]. destruct (kget st n); [|discriminate].
  intros H; inversion H; auto.
Qed.

Lemma iget_put st sid k r r1 : iget st sid = Some (k, r) -> iget (put st k r1) sid = Some (k, r1).
Proof.
  intros H. unfold iget. rewrite ids_put, (iget_ids _ _ _ _ H), kget_put_same. reflexivity.
Qed.

Lemma iget_insert st k r : iget (insert st k r) (s_id r) = Some (k, r).
Proof.
  unfold iget, insert. cbn [c_ids with_ids]. rewrite sget_sset_same.
  unfold kget. cbn [c_slab with_ids put with_slab]. rewrite sget_sset_same. reflexivity.
Qed.

Lemma ids_fail_promised q : forall st, c_ids (fail_promised st q) = c_ids st.
Proof.
  induction q as [|f q IH]; intros st; cbn [fail_promised fold_left]; auto.
  change (c_ids (fail_promised (fail_promised_one st f) q) = c_ids st). rewrite IH.
  destruct f; cbn [fail_promised_one]; auto. destruct (iget st promised) as [[ck c]|]; auto.
Qed.

Lemma ids_drop_promises st o q : c_ids (drop_promises st o q) = c_ids st.
Proof. unfold drop_promises. destruct (has_cleared o); auto. apply ids_fail_promised. Qed.

Lemma iget_drop_put st sid k r r1 o q :
  iget st sid = Some (k, r) ->
  iget (drop_promises (put st k r1) o q) sid = Some (k, r1) \/
  iget (drop_promises (put st k r1) o q) sid = Some (k, failed_promise r1).
Proof.
  intros H. unfold iget. rewrite ids_drop_promises, ids_put, (iget_ids _ _ _ _ H).
  destruct (drop_put_same st k r1 o q) as [Hd|Hd]; rewrite Hd; auto.
Qed.

(* the reset the connection owes for a stream error handed up to it *)
Theorem poll2_reset_resets st sid code quota can nk st' outs :
  step st (LPoll2Reset sid code quota can nk) = Ok st' outs ->
  (quota = false /\ result_of outs = RErr too_many_internal_resets /\ queued_reset outs = None)
  \/ (quota = true /\ result_of outs = ROk /\
      exists k r', iget st' sid = Some (k, r') /\ is_reset (s_state r') = true /\
        (queued_reset outs = Some (sid, code) \/
         exists r, iget st sid = Some (k, r) /\ (is_reset (s_state r) = true \/ closed_full r = true))).
Proof.
  cbn [step]. unfold step_poll2_reset, actions_send_reset. intros Hs.
  destruct (sid =? 0); [discriminate|].
  destruct (iget st sid) as [[k r]|] eqn:Hi.
  - destruct quota; cbn [negb] in Hs.
    + right. split; auto. unfold send_reset_core, enqueue_reset_expiration, queue_frame, clear_queue, res1 in Hs.
      peel Hs; use_res1 Hs; (split; [reflexivity|]); exists k;
        match goal with
        | |- context [drop_promises (put ?s ?kk ?r2) ?oo ?qq] =>
          let Hd := fresh "Hd" in destruct (iget_drop_put s sid kk r r2 oo qq Hi) as [Hd|Hd]
        end;
        (eexists; (split; [exact Hd|]); (split; [cbn; auto; fail|]);
        first [ left; reflexivity
              | right; exists r; split; auto; left; assumption
              | right; exists r; split; auto; right; unfold closed_full;
                repeat match goal with
                       | H : s_q _ = _ |- _ => rewrite H
                       | H : s_infl _ = _ |- _ => rewrite H
                       end; assumption
              | exfalso; repeat match goal with H : context [_ && false] |- _ => rewrite andb_false_r in H end; congruence ]).
    + left. use_res1 Hs. auto.
  - destruct (kget _ nk); [discriminate|]. destruct quota; cbn [negb] in Hs.
    + right. split; auto. unfold send_reset_core, enqueue_reset_expiration, queue_frame, clear_queue, res1 in Hs.
      cbn [new_rec s_state is_reset is_closed s_popen set_state andb] in Hs.
      peel Hs; use_res1 Hs; (split; [reflexivity|]); exists nk; eexists;
        (split; [ match goal with |- iget (insert ?s ?k ?r) _ = _ => exact (iget_insert s k r) end |]);
        (split; [cbn; auto; fail | left; reflexivity]).
    + left. use_res1 Hs. auto.
Qed.
