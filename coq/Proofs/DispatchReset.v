(* C17 at the dispatch layer: explicit resets, last-handle drops, what leaves the queue afterwards, and how a peer's
   RST_STREAM / GOAWAY / a connection error reaches the handles.  One step from ANY state, all observed inputs. *)
From H2V Require Import Base.Tac Base.Bytes Model.StreamState Ref.Rfc9113Stream Proofs.StreamStateProofs
  Model.Dispatch Proofs.DispatchRecv.
Local Open Scope N_scope.

Fixpoint queued_all (o : list out) : list (N * qframe) :=
  match o with
  | [] => []
  | OQueue sid f :: o' => (sid, f) :: queued_all o'
  | _ :: o' => queued_all o'
  end.

(* ---------------------------------------------------------------------------------------------
   an explicit reset (SendStream::send_reset, SendResponse::send_reset) *)

Lemma no_push_tl q : no_push q = true -> no_push (tl q) = true.
Proof. destruct q as [|f q]; auto. destruct f; cbn; auto; discriminate. Qed.
Lemma no_push_reset_drops r : no_push (s_q r) = true -> no_push (reset_drops r) = true.
Proof. unfold reset_drops. destruct (s_popen r); auto. apply no_push_tl. Qed.

(* (no_push: the stream's queue holds no unsent PUSH_PROMISE - every stream of a client, every pushed stream; when it
   does, the promised streams are failed together with the dropped promises, see explicit_reset_confined) *)
Theorem explicit_reset st k code can st' outs r :
  kget st k = Some r -> no_push (s_q r) = true -> step st (LSendReset k code can) = Ok st' outs ->
  (forall k', k' <> k -> kget st' k' = kget st k') /\ c_ids st' = c_ids st /\ has_emit outs = false /\
  exists r', kget st' k = Some r' /\ s_id r' = s_id r /\
  (* already reset (by either side, or scheduled): nothing more *)
  (is_reset (s_state r) = true ->
     queued_all outs = [] /\ s_state r' = s_state r /\ s_q r' = s_q r /\ s_infl r' = s_infl r) /\
  (is_reset (s_state r) = false ->
     s_state r' = Closed (CError (EReset (s_id r) code User)) /\
     (* closed cleanly and flushed: no RST_STREAM *)
     (closed_full r = true -> queued_all outs = [] /\ s_q r' = []) /\
     (* otherwise exactly one RST_STREAM with the caller's code: after the HEADERS (the first queued frame) of a
        stream not opened yet, else alone; everything else that stream had queued is discarded *)
     (closed_full r = false ->
        queued_all outs = [(s_id r, QReset code)] /\ s_infl r' = None /\
        s_q r' = (if s_popen r then firstn 1 (s_q r) ++ [QReset code] else [QReset code]))).
Proof.
  intros Hk Hnp Hs. cbn [step] in Hs. unfold step_send_reset, actions_send_reset in Hs. rewrite Hk in Hs.
  destruct (send_reset_core (s_id r) code User r) as [r1 o1] eqn:Ec.
  rewrite drop_promises_no_push in Hs by (apply no_push_reset_drops; auto). use_res1 Hs.
  split; [intros; apply kget_put_other; auto|]. split; [reflexivity|].
  unfold send_reset_core in Ec. unfold closed_full.
  destruct (is_reset (s_state r)) eqn:Er.
  - inversion Ec; subst. split; [reflexivity|]. eexists; split; [apply kget_put_same|].
    unfold enqueue_reset_expiration. split; [destruct (negb _ || _); [|destruct can]; reflexivity|].
    split; [|discriminate]. intros _. destruct (negb _ || _); [|destruct can]; cbn; auto.
  - destruct (is_closed (s_state r) && _ && _) eqn:Ecl.
    + inversion Ec; subst. split; [reflexivity|]. eexists; split; [apply kget_put_same|].
      unfold enqueue_reset_expiration. cbn [set_state s_state s_rexp is_local_error error_is_local initiator_is_local negb orb].
      split; [destruct (s_rexp r); [|destruct can]; reflexivity|].
      split; [discriminate|]. intros _. split; [destruct (s_rexp r); [|destruct can]; reflexivity|].
      split; [|discriminate]. intros _. split; [reflexivity|].
      apply andb_true_iff in Ecl. destruct Ecl as [Ecl _]. apply andb_true_iff in Ecl. destruct Ecl as [_ Eq].
      destruct (s_rexp r); [|destruct can]; cbn [set_rexp set_state s_q]; destruct (s_q r); try discriminate; reflexivity.
    + cbn [set_state s_popen] in Ec. destruct (s_popen r) eqn:Ep; cbn in Ec; inversion Ec; subst; clear Ec;
        (split; [reflexivity|]); (eexists; split; [apply kget_put_same|]);
        unfold enqueue_reset_expiration; cbn;
        (split; [destruct (s_rexp r); [|destruct can]; reflexivity|]);
        (split; [discriminate|]); intros _;
        (split; [destruct (s_rexp r); [|destruct can]; reflexivity|]);
        (split; [discriminate|]); intros _;
        destruct (s_rexp r); [|destruct can| |destruct can]; cbn; auto.
Qed.

(* ---------------------------------------------------------------------------------------------
   the last handle is dropped *)

Definition drop_reason (ro : role) (s : state) : N :=
  if is_server ro && is_send_closed s && is_recv_streaming s then NO_ERROR else CANCEL.

Theorem last_drop st k can st' outs r :
  kget st k = Some r -> step st (LDropLast k can []) = Ok st' outs ->
  outs = [] /\ (forall k', k' <> k -> kget st' k' = kget st k') /\ c_ids st' = c_ids st /\
  exists r', kget st' k = Some r' /\ s_id r' = s_id r /\ s_q r' = s_q r /\ s_infl r' = s_infl r /\
  (* finished (cleanly or not): nothing *)
  (is_closed (s_state r) = true -> s_state r' = s_state r) /\
  (* not finished: a reset is scheduled, CANCEL - or NO_ERROR for a server that had completed its response while the
     request body was still arriving *)
  (is_closed (s_state r) = false -> s_state r' = Closed (ScheduledLibraryReset (drop_reason (c_role st) (s_state r)))).
Proof.
  intros Hk Hs. cbn [step] in Hs. unfold step_drop_last in Hs. rewrite Hk in Hs. cbn [cancel_kids] in Hs.
  inversion Hs; subst; clear Hs. split; [reflexivity|].
  split; [intros; unfold kget; cbn; apply sget_sset_other; auto|]. split; [reflexivity|].
  eexists. split; [unfold kget; cbn; apply sget_sset_same|].
  unfold maybe_cancel, schedule_implicit_reset, drop_reason. destruct (is_closed (s_state r)) eqn:Ec.
  - repeat split; auto. discriminate.
  - unfold enqueue_reset_expiration. cbn [set_state s_state s_rexp is_local_error negb orb].
    destruct (s_rexp r); [|destruct can]; cbn; repeat split; auto; discriminate.
Qed.

(* ---------------------------------------------------------------------------------------------
   what leaves the queue of a record whose reset is scheduled or queued *)

(* pop_frame on a record with a scheduled reset: queued HEADERS (and PUSH_PROMISE) still go out in order; the first
   DATA frame is not sent - the rest of the queue is discarded (unless the code is NO_ERROR: the response is completed
   first); with an empty queue exactly the RST_STREAM with the scheduled code goes out and the record becomes an
   ordinary library reset: nothing follows it *)
Theorem pop_scheduled st k o st' outs r reason :
  kget st k = Some r -> no_push (s_q r) = true -> get_scheduled_reset (s_state r) = Some reason ->
  step st (LPop k o) = Ok st' outs ->
  match s_q r with
  | [] => outs = [OEmit (WFrame (s_id r) (QReset reason))] /\
          exists r', kget st' k = Some r' /\ s_state r' = Closed (CError (EReset (s_id r) reason Library)) /\ s_q r' = []
  | QData eos :: q' =>
    if reason =? NO_ERROR
    then has_app outs = false
    else outs = [OCleared (s_id r)] /\ exists r', kget st' k = Some r' /\ s_q r' = [] /\ s_state r' = s_state r
  | QPush p :: q' => outs = [] \/ outs = [OEmit (WFrame (s_id r) (QPush p))]
  | f :: q' => outs = [OEmit (WFrame (s_id r) f)] /\ exists r', kget st' k = Some r' /\ s_q r' = q' /\ s_state r' = s_state r
  end.
Proof.
  intros Hk Hnp Hr Hs. cbn [step] in Hs. unfold step_pop in Hs. rewrite Hk in Hs.
  unfold clear_queue in Hs. rewrite drop_promises_no_push in Hs by auto.
  destruct (s_popen r || s_ppush r); [discriminate|].
  destruct (s_q r) as [|f q'] eqn:Eq.
  - rewrite Hr in Hs. inversion Hs; subst. split; [reflexivity|]. eexists. split; [apply kget_put_same|]. cbn. auto.
  - destruct f.
    + inversion Hs; subst. split; auto. eexists. split; [apply kget_put_same|]. cbn. auto.
    + inversion Hs; subst. split; auto. eexists. split; [apply kget_put_same|]. cbn. auto.
    + rewrite Hr in Hs. destruct (reason =? NO_ERROR); cbn [negb] in Hs.
      * destruct (s_infl r); [discriminate|]. destruct (pp_blocked o); [inversion Hs; reflexivity|].
        destruct (pp_partial o); inversion Hs; reflexivity.
      * inversion Hs; subst. split; auto. eexists. split; [apply kget_put_same|]. cbn. auto.
    + destruct (iget _ promised) as [[ck c]|]; inversion Hs; auto.
    + inversion Hs; subst. split; auto. eexists. split; [apply kget_put_same|]. cbn. auto.
Qed.

(* a record that is reset (and has no reset scheduled) emits a RST_STREAM only if one is in its queue *)
Theorem pop_reset_only_queued st k o st' outs r code :
  kget st k = Some r -> get_scheduled_reset (s_state r) = None ->
  step st (LPop k o) = Ok st' outs ->
  In (OEmit (WFrame (s_id r) (QReset code))) outs -> exists q', s_q r = QReset code :: q'.
Proof.
  intros Hk Hr Hs Hin. cbn [step] in Hs. unfold step_pop in Hs. rewrite Hk in Hs.
  destruct (s_popen r || s_ppush r); [discriminate|].
  destruct (s_q r) as [|f q'] eqn:Eq.
  - rewrite Hr in Hs. inversion Hs; subst. destruct Hin.
  - destruct f.
    + inversion Hs; subst. destruct Hin as [H|[]]; discriminate.
    + inversion Hs; subst. destruct Hin as [H|[]]; discriminate.
    + rewrite Hr in Hs. destruct (s_infl r); [discriminate|]. destruct (pp_blocked o); [inversion Hs; subst; destruct Hin|].
      destruct (pp_partial o); inversion Hs; subst; destruct Hin as [H|[]]; discriminate.
    + destruct (iget _ promised) as [[ck c]|]; inversion Hs; subst; try destruct Hin as [H|[]]; try discriminate.
      destruct Hin.
    + inversion Hs; subst. destruct Hin as [H|[]]. inversion H; subst. eauto.
Qed.

(* ---------------------------------------------------------------------------------------------
   the peer's RST_STREAM, GOAWAY, a connection error: what the handles are told *)

Theorem peer_reset_reaches_handles st sid code o st' outs k r :
  iget st sid = Some (k, r) -> no_push (s_q r) = true ->
  step st (LRecvReset sid code o) = Ok st' outs -> result_of outs = ROk ->
  let s' := fst (recv_reset sid code (r_queued o) (s_state r)) in
  (exists r', kget st' k = Some r' /\ s_state r' = s' /\ s_q r' = [] /\ s_infl r' = None /\ s_id r' = s_id r) /\
  (forall k', k' <> k -> kget st' k' = kget st k') /\
  step st' (LPollRecv k) = Ok st' [OSurface (s_id r) (ensure_recv_open s')] /\
  (forall m, step st' (LPollReset k m) = Ok st' [OSurface (s_id r) (ensure_reason m s')]).
Proof.
  intros Hi Hnp Hs Hres. cbn [step] in Hs. unfold step_recv_reset, clear_queue in Hs. rewrite Hi in Hs.
  rewrite drop_promises_no_push in Hs by auto.
  destruct (sid =? 0); [use_res1 Hs; discriminate|].
  destruct ((c_recv_max st <? sid) && _); [use_res1 Hs; discriminate|].
  destruct (s_popen r && negb (is_server (c_role st))); [use_res1 Hs; discriminate|].
  destruct (negb (r_quota o)); [use_res1 Hs; discriminate|].
  use_res1 Hs. cbn zeta.
  split; [eexists; split; [apply kget_put_same|]; cbn; auto|].
  split; [intros; apply kget_put_other; auto|].
  split; [cbn [step]; unfold step_poll_recv; rewrite kget_put_same; reflexivity|].
  intros m. cbn [step]. unfold step_poll_reset. rewrite kget_put_same. reflexivity.
Qed.

Lemma map_linked_get st f k r :
  kget st k = Some r -> sget k (map_linked st f) = Some (if is_linked st k then f k r else r).
Proof.
  unfold kget, map_linked. generalize (is_linked st) as lk. intros lk.
  induction (c_slab st) as [|[k' x] l IH]; cbn [sget map fst snd]; [discriminate|].
  destruct (k' =? k) eqn:E.
  - apply N.eqb_eq in E; subst k'. intros H; inversion H; subst. destruct (lk k); cbn [sget fst]; rewrite N.eqb_refl; reflexivity.
  - intros H. destruct (lk k'); cbn [sget fst]; rewrite E; auto.
Qed.

Lemma fail_keys_other failed : forall st k, ~ In k failed -> kget (fail_keys st failed) k = kget st k.
Proof.
  induction failed as [|f failed IH]; intros st k Hn; cbn [fail_keys fold_left]; auto.
  change (kget (fail_keys (match kget st f with Some c => put st f (failed_promise c) | None => st end) failed) k = kget st k).
  rewrite IH by (intros H; apply Hn; right; auto).
  destruct (kget st f); auto. apply kget_put_other. intros ->. apply Hn; left; auto.
Qed.

Lemma conn_error_fail_keys st failed : c_conn_error (fail_keys st failed) = c_conn_error st.
Proof.
  revert st. induction failed as [|f failed IH]; intros st; cbn [fail_keys fold_left]; auto.
  change (c_conn_error (fail_keys (match kget st f with Some c => put st f (failed_promise c) | None => st end) failed) = c_conn_error st).
  rewrite IH. destruct (kget st f); reflexivity.
Qed.

(* a connection error (the peer's GOAWAY with its code and debug data, our own GOAWAY, an I/O error) reaches every
   linked record: the state machine's handle_error, that stream's queue discarded - except the promised records that
   are failed together with a PUSH_PROMISE dropped from a parent's queue (`failed`, repair cc6ac6c) *)
Theorem conn_error_reaches_handles st e failed st' outs k r :
  step st (LHandleError e failed) = Ok st' outs -> kget st k = Some r -> is_linked st k = true ->
  ~ In k failed ->
  let s' := fst (handle_error e (s_state r)) in
  (exists r', kget st' k = Some r' /\ s_state r' = s' /\ s_q r' = [] /\ s_infl r' = None) /\
  c_conn_error st' = Some e /\
  step st' (LPollRecv k) = Ok st' [OSurface (s_id r) (ensure_recv_open s')] /\
  (forall m, step st' (LPollReset k m) = Ok st' [OSurface (s_id r) (ensure_reason m s')]).
Proof.
  intros Hs Hk Hl Hnp. cbn [step] in Hs. unfold step_handle_error in Hs.
  destruct (negb (failed_ok st failed)); [discriminate|]. use_res1 Hs. cbn zeta.
  assert (Hg : kget (fail_keys (with_conn_error (with_slab st (map_linked st (fun _ r0 => fail_rec e r0))) (Some e)) failed) k
               = Some (fail_rec e r)).
  { rewrite fail_keys_other by auto.
    unfold kget. cbn [c_slab with_conn_error with_slab]. rewrite (map_linked_get st _ k r Hk), Hl. reflexivity. }
  split; [eexists; split; [exact Hg|]; cbn; auto|]. split; [rewrite conn_error_fail_keys; reflexivity|].
  split; [cbn [step]; unfold step_poll_recv; rewrite Hg; reflexivity|].
  intros m. cbn [step]. unfold step_poll_reset. rewrite Hg. reflexivity.
Qed.

(* the peer's GOAWAY(last, code, debug): every linked stream of ours above `last` is failed with exactly that error;
   the others are untouched *)
Theorem go_away_reaches_handles st last code debug st' outs k r :
  step st (LRecvGoAway last code debug) = Ok st' outs -> result_of outs = ROk ->
  kget st k = Some r -> is_linked st k = true ->
  let e := EGoAway debug code Remote in
  exists r', kget st' k = Some r' /\
    (if (last <? s_id r) && is_local_init (c_role st) (s_id r)
     then s_state r' = fst (handle_error e (s_state r)) /\ s_q r' = [] /\ s_infl r' = None
     else r' = r) /\
  c_conn_error st' = Some e.
Proof.
  intros Hs Hres Hk Hl. cbn [step] in Hs. unfold step_recv_go_away in Hs.
  destruct (c_send_max st <? last); [use_res1 Hs; discriminate|]. use_res1 Hs. cbn zeta.
  eexists. split.
  - unfold kget. cbn [c_slab with_conn_error with_slab with_send_max].
    pose proof (map_linked_get st (fun _ r0 => if (last <? s_id r0) && is_local_init (c_role st) (s_id r0)
                                               then fail_rec (EGoAway debug code Remote) r0 else r0) k r Hk) as Hm.
    unfold map_linked in *. cbn [c_slab c_ids is_linked with_send_max] in *.
    change (is_linked (with_send_max st last)) with (is_linked st). rewrite Hm, Hl. reflexivity.
  - split; [|reflexivity]. destruct ((last <? s_id r) && _); cbn; auto.
Qed.

(* composed with the state machine (Proofs/StreamStateProofs.v recv_reset_surfaces): the peer's RST_STREAM(code) on a
   stream that was not closed reaches every handle of it with exactly that code: poll_reset (both flavours) reports
   Ok(Some(code)), a read reports Err(Reset(sid, code, Remote)) unless the peer's message was already complete *)
Theorem peer_reset_surfaces_exact st sid code o st' outs k r :
  iget st sid = Some (k, r) -> no_push (s_q r) = true ->
  step st (LRecvReset sid code o) = Ok st' outs -> result_of outs = ROk ->
  is_closed (s_state r) = false \/ r_queued o = true ->
  (forall m, step st' (LPollReset k m) = Ok st' [OSurface (s_id r) (RReason (Some code))]) /\
  (is_recv_end_stream (s_state r) = false ->
   step st' (LPollRecv k) = Ok st' [OSurface (s_id r) (RProtoErr (EReset sid code Remote))]) /\
  (is_recv_end_stream (s_state r) = true ->
   step st' (LPollRecv k) = Ok st' [OSurface (s_id r) (RBool false)]).
Proof.
  intros Hi Hnp Hs Hres Hc.
  destruct (peer_reset_reaches_handles st sid code o st' outs k r Hi Hnp Hs Hres) as (_ & _ & Hp & Hm).
  destruct (recv_reset_surfaces sid code (r_queued o) (s_state r) Hc) as ((Ha & Hb) & _ & _ & _ & Hn & He).
  split; [|split].
  - intros m. rewrite Hm. destruct m; [rewrite Ha|rewrite Hb]; reflexivity.
  - intros H. rewrite Hp. destruct (Hn H) as (_ & ->). reflexivity.
  - intros H. rewrite Hp. destruct (He H) as (_ & -> & _). reflexivity.
Qed.

(* non-vacuity *)
Example ex_explicit_reset_after_headers :
  let st := mkC Client true true [(1, mkS 1 (Open Streaming AwaitingHeaders) true false false [QHeaders false false] None)]
                [(1, 1)] (Some 3) (Some 2) MAX_ID MAX_ID None None in
  match step st (LSendReset 1 4294967295 true) with
  | Ok st' outs => queued_all outs = [(1, QReset 4294967295)] /\
                   match kget st' 1 with Some r' => s_q r' = [QHeaders false false; QReset 4294967295] | None => False end
  | _ => False
  end.
Proof. vm_compute. auto. Qed.

Example ex_peer_reset_any_code :
  let st := mkC Client true true [(1, mkS 1 (HalfClosedLocal Streaming) false false false [] None)]
                [(1, 1)] (Some 3) (Some 2) MAX_ID MAX_ID None None in
  match step st (LRecvReset 1 3735928559 (mkR false true)) with
  | Ok st' outs => step st' (LPollRecv 1) = Ok st' [OSurface 1 (RProtoErr (EReset 1 3735928559 Remote))]
  | _ => False
  end.
Proof. vm_compute. auto. Qed.
