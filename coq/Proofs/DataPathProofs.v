(* Proofs about Model/DataPath.v (property C01): the send-side split/reclaim machinery neither loses,
   duplicates nor reorders message atoms; END_STREAM goes out at most once and only with the last atom;
   no assert of the modelled code fires; the wire composition over an abstract synchronised codec;
   the receive queue delivers exactly once, in order, and reports a clean end only on a drained
   queue of a stream whose state says END_STREAM was received. *)
From H2V Require Import Base.Tac Base.Bytes Model.StreamState Model.DataPath.
Local Open Scope N_scope.

(* ------------------------------------------------------------------------------------------- *)
(* lists *)

Lemma find_s_id : forall l sid s, find_s sid l = Some s -> ss_id s = sid.
Proof.
  induction l as [|a l IH]; cbn [find_s]; intros sid s H; [discriminate|].
  destruct (N.eqb_spec (ss_id a) sid) as [E|E]; [inversion H; subst; auto | eauto].
Qed.

Lemma find_upd : forall l s x,
  find_s x (upd_s s l) =
  if N.eqb (ss_id s) x then match find_s x l with Some _ => Some s | None => None end else find_s x l.
Proof.
  induction l as [|a l IH]; intros s x; cbn [find_s upd_s].
  - destruct (N.eqb (ss_id s) x); reflexivity.
  - destruct (N.eqb_spec (ss_id a) (ss_id s)) as [E|E]; cbn [find_s].
    + destruct (N.eqb_spec (ss_id s) x) as [F|F].
      * rewrite E. destruct (N.eqb_spec (ss_id s) x); [reflexivity|contradiction].
      * rewrite E. destruct (N.eqb_spec (ss_id s) x); [contradiction|reflexivity].
    + rewrite IH. destruct (N.eqb_spec (ss_id a) x) as [F|F]; destruct (N.eqb_spec (ss_id s) x) as [G|G];
        try reflexivity. congruence.
Qed.

Lemma find_upd_same l s s0 : find_s (ss_id s) l = Some s0 -> find_s (ss_id s) (upd_s s l) = Some s.
Proof. intros H. rewrite find_upd, N.eqb_refl, H. reflexivity. Qed.

Lemma find_upd_other l s x : ss_id s <> x -> find_s x (upd_s s l) = find_s x l.
Proof. intros H. rewrite find_upd. destruct (N.eqb_spec (ss_id s) x); [contradiction|reflexivity]. Qed.

Lemma find_live_some l sid s : find_live sid l = Some s -> find_s sid l = Some s /\ ss_gone s = false.
Proof.
  unfold find_live. destruct (find_s sid l) as [s0|]; [|discriminate].
  destruct (ss_gone s0) eqn:G; [discriminate|]. intros H; inversion H; subst; auto.
Qed.

Lemma lenB_app a b : lenB (a ++ b) = lenB a + lenB b.
Proof. unfold lenB. rewrite app_length. lia. Qed.

Lemma take_drop n (p : bytes) : takeB n p ++ dropB n p = p.
Proof. apply firstn_skipn. Qed.

Lemma lenB_take n p : n <= lenB p -> lenB (takeB n p) = n.
Proof. unfold lenB, takeB. intros H. rewrite firstn_length. lia. Qed.

Lemma lenB_drop n p : lenB (dropB n p) = lenB p - n.
Proof. unfold lenB, dropB. rewrite skipn_length. lia. Qed.

Lemma take_all n p : lenB p <= n -> takeB n p = p.
Proof. unfold lenB, takeB. intros H. apply firstn_all2. lia. Qed.

Lemma drop_all n p : lenB p <= n -> dropB n p = [].
Proof. unfold lenB, dropB. intros H. apply skipn_all2. lia. Qed.

Lemma drop_nonnil n p : n < lenB p -> dropB n p <> [].
Proof.
  intros H E. pose proof (lenB_drop n p) as L. rewrite E in L. unfold lenB in L at 1. cbn in L. lia.
Qed.

Lemma flat_app a b : flat (a ++ b) = flat a ++ flat b.
Proof. unfold flat. apply flat_map_app. Qed.

Lemma payloads_app a b : payloads (a ++ b) = payloads a ++ payloads b.
Proof. unfold payloads. apply flat_map_app. Qed.

Lemma is_nil_true {A} (l : list A) : is_nil l = true <-> l = [].
Proof. destruct l; cbn; split; congruence. Qed.

Lemma is_nil_false {A} (l : list A) : is_nil l = false <-> l <> [].
Proof. destruct l; cbn; split; congruence. Qed.

(* ------------------------------------------------------------------------------------------- *)
(* atoms *)

Definition is_aeos (a : atom) : bool := match a with AEos => true | _ => false end.
Definition noeos (l : list atom) : Prop := forallb (fun a => negb (is_aeos a)) l = true.

Lemma noeos_app a b : noeos (a ++ b) <-> noeos a /\ noeos b.
Proof. unfold noeos. rewrite forallb_app, andb_true_iff. tauto. Qed.

Lemma noeos_bytes p : noeos (map AByte p).
Proof. unfold noeos. induction p; cbn; auto. Qed.

(* flat1 f = body ++ eos_atom (frame_eos f) with an END_STREAM-free body *)
Definition body1 (f : sframe) : list atom :=
  match f with
  | FHeaders k h _ => [AHead k h]
  | FData p _ => map AByte p
  | FPush pr h => [APush pr h]
  | FReset _ => []
  end.

Lemma flat1_split f : flat1 f = body1 f ++ eos_atom (frame_eos f) /\ noeos (body1 f).
Proof.
  destruct f; cbn [flat1 body1 frame_eos eos_atom]; split; try reflexivity; try apply noeos_bytes.
Qed.

Lemma flat1_reset f : is_reset f = true -> flat1 f = [].
Proof. destruct f; cbn; congruence. Qed.

Lemma flat_resets q : forallb is_reset q = true -> flat q = [].
Proof.
  induction q as [|f q IH]; cbn [forallb flat flat_map]; [reflexivity|].
  rewrite andb_true_iff. intros [A B]. rewrite (flat1_reset f A). cbn. apply IH, B.
Qed.

(* ------------------------------------------------------------------------------------------- *)
(* views of the state per stream *)

Lemma inflight_of_strs x st l : inflight_of x (set_strs st l) = inflight_of x st.
Proof. reflexivity. Qed.

Lemma inflight_of_put x st s : inflight_of x (put st s) = inflight_of x st.
Proof. reflexivity. Qed.

Lemma queue_of_put x st s s0 :
  find_s (ss_id s) (d_strs st) = Some s0 ->
  queue_of x (put st s) = if N.eqb (ss_id s) x then ss_q s else queue_of x st.
Proof.
  intros H. unfold queue_of, put, set_strs. cbn [d_strs]. rewrite find_upd.
  destruct (N.eqb_spec (ss_id s) x) as [E|E]; [subst; rewrite H|]; reflexivity.
Qed.

Lemma inflight_nothing x st : d_inflight st = IfNothing -> inflight_of x st = [].
Proof. unfold inflight_of. intros ->. reflexivity. Qed.

(* ------------------------------------------------------------------------------------------- *)
(* the invariant; ghost values: what was submitted / handled / whether cleared, per stream *)

Ltac split5 := split; [|split; [|split; [|split]]].

Record inv (sub : N -> list sframe) (clr : N -> bool) (hd : N -> list sframe) (st : dstate) : Prop := mkInv {
  i_c1 : d_next st = None \/ d_last st = None;
  i_c2 : d_inflight st = IfNothing <-> codec_frame st = None;
  i_c3 : forall k, d_inflight st = IfData k ->
         exists cf s, codec_frame st = Some cf /\ cf_sid cf = k /\ find_s k (d_strs st) = Some s;
  i_str : forall sid s, find_s sid (d_strs st) = Some s ->
      ss_buf s = lenB (payloads (ss_q s)) + lenB (payloads (inflight_of sid st)) /\
      ss_cleared s = clr sid /\
      (ss_gone s = true -> ss_q s = [] /\ ss_buf s = 0) /\
      (ss_eos s = false -> noeos (flat (sub sid))) /\
      (ss_eos s = true -> exists body, flat (sub sid) = body ++ [AEos] /\ noeos body);
  i_none : forall sid, find_s sid (d_strs st) = None -> flat (sub sid) = [] /\ flat (hd sid) = [] /\ clr sid = false;
  i_main : forall sid,
      (clr sid = false ->
         flat (hd sid) ++ flat (inflight_of sid st) ++ flat (queue_of sid st) = flat (sub sid)) /\
      (clr sid = true ->
         (exists tail, flat (hd sid) ++ tail = flat (sub sid)) /\
         forallb is_reset (queue_of sid st) = true /\ inflight_of sid st = [])
}.

Lemma inv_ext sub clr hd sub' clr' hd' st :
  (forall x, flat (sub' x) = flat (sub x)) -> (forall x, clr' x = clr x) -> (forall x, flat (hd' x) = flat (hd x)) ->
  inv sub clr hd st -> inv sub' clr' hd' st.
Proof.
  intros E1 E2 E3 [c1 c2 c3 istr inone imain]. constructor; auto.
  - intros sid s H. rewrite E1, E2. apply istr, H.
  - intros sid H. rewrite E1, E2, E3. apply inone, H.
  - intros sid. rewrite E1, E2, E3. apply imain.
Qed.

Lemma inv_init chain : inv (fun _ => []) (fun _ => false) (fun _ => []) (init_state chain).
Proof.
  constructor; cbn; auto.
  - split; auto.
  - intros k H; discriminate.
  - intros sid s H; discriminate.
  - intros sid. split; [reflexivity|discriminate].
Qed.

(* ------------------------------------------------------------------------------------------- *)
(* reclaim *)

Lemma codec_frame_last st : d_next st = None -> codec_frame st = d_last st.
Proof. unfold codec_frame. intros ->. reflexivity. Qed.

Lemma reclaim_inv sub clr hd st st' o :
  inv sub clr hd st -> reclaim st = Ok st' o ->
  o = [] /\ inv sub clr hd st' /\ d_last st' = None /\ d_next st' = d_next st.
Proof.
  intros I R. unfold reclaim in R.
  destruct (d_last st) as [cf|] eqn:L.
  2:{ inversion R; subst. auto. }
  destruct I as [c1 c2 c3 istr inone imain].
  assert (NX : d_next st = None) by (destruct c1 as [c1|c1]; [auto|congruence]).
  assert (CF : codec_frame st = Some cf) by (rewrite codec_frame_last; auto).
  destruct (d_inflight st) as [|k|] eqn:IF.
  - discriminate.
  - destruct (c3 k eq_refl) as (cf' & s0 & CF' & SID & F0). rewrite CF in CF'. inversion CF'; subst cf'.
    rewrite SID, N.eqb_refl in R. cbn [negb] in R.
    set (st1 := set_codec st IfNothing (d_next st) None) in *.
    assert (IFL1 : forall x, inflight_of x st1 = []) by (intros x; apply inflight_nothing; reflexivity).
    assert (IFLk : forall x, x <> k -> inflight_of x st = []).
    { intros x Hx. unfold inflight_of. rewrite IF, CF.
      destruct (N.eqb_spec k x); [congruence|reflexivity]. }
    destruct (is_nil (cf_rest cf)) eqn:NIL.
    + (* nothing left beyond the Take limit *)
      inversion R; subst st' o. clear R. apply is_nil_true in NIL.
      assert (IFLkk : inflight_of k st = []).
      { unfold inflight_of. rewrite IF, CF, NIL. rewrite andb_false_r. reflexivity. }
      assert (IFLall : forall x, inflight_of x st = inflight_of x st1).
      { intros x. rewrite IFL1. destruct (N.eq_dec x k); [subst; auto|auto]. }
      split; [reflexivity|]. split; [|split; [reflexivity| reflexivity]].
      constructor; cbn [d_next d_last d_inflight d_strs set_codec st1]; auto.
      * split; intros _; [unfold codec_frame; cbn; rewrite NX; reflexivity|reflexivity].
      * intros k' H; discriminate.
      * intros sid s H. change (inflight_of sid (set_codec st IfNothing (d_next st) None)) with (inflight_of sid st1).
        rewrite <- IFLall. apply istr, H.
      * intros sid. change (inflight_of sid (set_codec st IfNothing (d_next st) None)) with (inflight_of sid st1).
        rewrite <- IFLall. apply imain.
    + apply is_nil_false in NIL.
      destruct (find_live k (d_strs st1)) as [s|] eqn:FL; [|discriminate].
      inversion R; subst st' o. clear R.
      apply find_live_some in FL. destruct FL as [FS GN]. change (d_strs st1) with (d_strs st) in FS.
      pose proof (find_s_id _ _ _ FS) as IDS.
      set (fr := FData (cf_rest cf) (cf_eos cf)) in *.
      set (s1 := set_q s (fr :: ss_q s) (ss_buf s)).
      assert (IDS1 : ss_id s1 = k) by (cbn; auto).
      assert (IFLkk : inflight_of k st = [fr]).
      { unfold inflight_of. rewrite IF, CF, N.eqb_refl. cbn [andb].
        destruct (cf_rest cf); [congruence|reflexivity]. }
      assert (FS1 : find_s (ss_id s1) (d_strs st1) = Some s) by (rewrite IDS1; exact FS).
      split; [reflexivity|]. split; [|split; [reflexivity|reflexivity]].
      constructor.
      * cbn. auto.
      * cbn. split; intros _; [unfold codec_frame; cbn; rewrite NX; reflexivity|reflexivity].
      * cbn. intros k' H; discriminate.
      * intros sid s' H. rewrite inflight_of_put, IFL1.
        unfold put, set_strs in H. cbn [d_strs] in H. rewrite find_upd in H.
        destruct (N.eqb_spec (ss_id s1) sid) as [E|E].
        -- rewrite IDS1 in E. subst sid. change (d_strs st1) with (d_strs st) in H. rewrite FS in H.
           inversion H; subst s'. clear H.
           destruct (istr k s FS) as (B & C & G & E0 & E1). rewrite IFLkk in B.
           cbn [s1 set_q ss_buf ss_q ss_cleared ss_gone ss_eos].
           split; [|split; [auto|split; [|split; auto]]].
           ++ change (payloads (fr :: ss_q s)) with (cf_rest cf ++ payloads (ss_q s)).
              change (payloads [fr]) with (cf_rest cf ++ []) in B. rewrite app_nil_r in B.
              rewrite lenB_app. change (lenB (payloads [])) with 0. lia.
           ++ intros GG; congruence.
        -- change (d_strs st1) with (d_strs st) in H.
           destruct (istr sid s' H) as (B & C & G & E0 & E1). rewrite IFLk in B by congruence.
           split; [|split; [|split; [|split]]]; auto.
      * intros sid H. unfold put, set_strs in H. cbn [d_strs] in H. rewrite find_upd in H.
        destruct (N.eqb_spec (ss_id s1) sid) as [E|E].
        -- rewrite IDS1 in E. subst sid. change (d_strs st1) with (d_strs st) in H. rewrite FS in H. discriminate.
        -- apply inone. exact H.
      * intros sid. rewrite inflight_of_put, IFL1. rewrite (queue_of_put sid st1 s1 s FS1).
        destruct (N.eqb_spec (ss_id s1) sid) as [E|E].
        -- rewrite IDS1 in E. subst sid. destruct (imain k) as [M1 M2]. split.
           ++ intros C. specialize (M1 C). rewrite IFLkk in M1. cbn [s1 set_q ss_q].
              unfold queue_of in M1. rewrite FS in M1.
              change (flat (fr :: ss_q s)) with (flat1 fr ++ flat (ss_q s)).
              change (flat [fr]) with (flat1 fr ++ []) in M1. rewrite app_nil_r in M1.
              change (flat []) with (@nil atom). cbn [app]. exact M1.
           ++ intros C. destruct (M2 C) as (_ & _ & M). rewrite IFLkk in M. discriminate.
        -- change (queue_of sid st1) with (queue_of sid st). destruct (imain sid) as [M1 M2].
           rewrite IFLk in M1, M2 by congruence. split; auto.
  - (* Drop: the remainder is thrown away *)
    inversion R; subst st' o. clear R.
    assert (IFL0 : forall x, inflight_of x st = []) by (intros x; unfold inflight_of; rewrite IF; reflexivity).
    split; [reflexivity|]. split; [|split; reflexivity].
    constructor; cbn [d_next d_last d_inflight d_strs set_codec]; auto.
    + split; intros _; [unfold codec_frame; cbn; rewrite NX; reflexivity|reflexivity].
    + intros k' H; discriminate.
    + intros sid s H. rewrite inflight_nothing by reflexivity.
      destruct (istr sid s H) as (B & C & G & E0 & E1). rewrite IFL0 in B. split5; auto.
    + intros sid. rewrite inflight_nothing by reflexivity.
      destruct (imain sid) as [M1 M2]. rewrite IFL0 in M1, M2. split; auto.
Qed.

Lemma reclaim_no_panic sub clr hd st n : inv sub clr hd st -> reclaim st <> Panic n.
Proof.
  intros I R. unfold reclaim in R. destruct (d_last st) as [cf|] eqn:L; [|discriminate].
  destruct I as [c1 c2 c3 istr inone imain].
  assert (NX : d_next st = None) by (destruct c1 as [c1|c1]; [auto|congruence]).
  assert (CF : codec_frame st = Some cf) by (rewrite codec_frame_last; auto).
  destruct (d_inflight st) as [|k|] eqn:IF.
  - destruct c2 as [c2 _]. rewrite c2 in CF by reflexivity. discriminate.
  - destruct (c3 k eq_refl) as (cf' & s0 & CF' & SID & F0). rewrite CF in CF'. inversion CF'; subst cf'.
    rewrite SID, N.eqb_refl in R. cbn [negb] in R.
    destruct (is_nil (cf_rest cf)) eqn:NIL; [discriminate|].
    apply is_nil_false in NIL.
    destruct (find_live k (set_codec st IfNothing (d_next st) None).(d_strs)) eqn:FL; [discriminate|].
    cbn [d_strs set_codec] in FL. unfold find_live in FL. rewrite <- SID in F0 at 1. rewrite SID in F0.
    rewrite F0 in FL. destruct (ss_gone s0) eqn:G; [|discriminate].
    destruct (istr k s0 F0) as (B & _ & GG & _). destruct (GG G) as [Q0 B0].
    rewrite Q0, B0 in B. unfold inflight_of in B. rewrite IF, CF, N.eqb_refl in B. cbn [andb] in B.
    destruct (cf_rest cf) as [|b r] eqn:RR; [congruence|]. cbn in B. unfold lenB in B. cbn in B. lia.
  - discriminate.
Qed.

(* ------------------------------------------------------------------------------------------- *)
(* generic preservation lemmas *)

Lemma inv_codec sub clr hd st st' :
  inv sub clr hd st ->
  d_strs st' = d_strs st ->
  (d_next st' = None \/ d_last st' = None) ->
  (d_inflight st' = IfNothing <-> codec_frame st' = None) ->
  (forall k, d_inflight st' = IfData k ->
     exists cf, codec_frame st' = Some cf /\ cf_sid cf = k /\ d_inflight st = IfData k) ->
  (forall x, inflight_of x st' = inflight_of x st) ->
  inv sub clr hd st'.
Proof.
  intros [c1 c2 c3 istr inone imain] ES C1 C2 C3 IFL. constructor; auto.
  - intros k H. destruct (C3 k H) as (cf & CF & SID & OLD). destruct (c3 k OLD) as (_ & s & _ & _ & F).
    exists cf, s. rewrite ES. auto.
  - intros sid s H. rewrite ES in H. rewrite IFL. apply istr, H.
  - intros sid H. rewrite ES in H. apply inone, H.
  - intros sid. rewrite IFL. unfold queue_of. rewrite ES. apply imain.
Qed.

Lemma inv_update sub clr hd st sub' clr' hd' st' t s0 s1 :
  inv sub clr hd st ->
  find_s t (d_strs st) = Some s0 -> ss_id s1 = t ->
  d_strs st' = upd_s s1 (d_strs st) ->
  (d_next st' = None \/ d_last st' = None) ->
  (d_inflight st' = IfNothing <-> codec_frame st' = None) ->
  (forall k, d_inflight st' = IfData k ->
     exists cf, codec_frame st' = Some cf /\ cf_sid cf = k /\ (k = t \/ d_inflight st = IfData k)) ->
  (forall x, x <> t -> inflight_of x st' = inflight_of x st) ->
  (forall x, x <> t -> flat (sub' x) = flat (sub x) /\ clr' x = clr x /\ flat (hd' x) = flat (hd x)) ->
  ss_buf s1 = lenB (payloads (ss_q s1)) + lenB (payloads (inflight_of t st')) ->
  ss_cleared s1 = clr' t ->
  (ss_gone s1 = true -> ss_q s1 = [] /\ ss_buf s1 = 0) ->
  (ss_eos s1 = false -> noeos (flat (sub' t))) ->
  (ss_eos s1 = true -> exists body, flat (sub' t) = body ++ [AEos] /\ noeos body) ->
  (clr' t = false -> flat (hd' t) ++ flat (inflight_of t st') ++ flat (ss_q s1) = flat (sub' t)) ->
  (clr' t = true -> (exists tail, flat (hd' t) ++ tail = flat (sub' t)) /\
                    forallb is_reset (ss_q s1) = true /\ inflight_of t st' = []) ->
  inv sub' clr' hd' st'.
Proof.
  intros [c1 c2 c3 istr inone imain] F0 ID ES C1 C2 C3 IFL GH TB TC TG TE0 TE1 TM1 TM2.
  assert (FN : forall x, find_s x (d_strs st') = if N.eqb t x then Some s1 else find_s x (d_strs st)).
  { intros x. rewrite ES, find_upd, ID. destruct (N.eqb_spec t x) as [E|E]; [subst; rewrite F0|]; reflexivity. }
  constructor; auto.
  - intros k H. destruct (C3 k H) as (cf & CF & SID & OLD). rewrite FN.
    destruct (N.eqb_spec t k) as [E|E].
    + exists cf, s1. auto.
    + destruct OLD as [OLD|OLD]; [congruence|]. destruct (c3 k OLD) as (_ & s & _ & _ & F). exists cf, s. auto.
  - intros sid s H. rewrite FN in H. destruct (N.eqb_spec t sid) as [E|E].
    + subst sid. inversion H; subst s. split5; auto.
    + assert (E' : sid <> t) by congruence. destruct (GH sid E') as (G1 & G2 & G3).
      rewrite G1, G2, IFL by auto. apply istr, H.
  - intros sid H. rewrite FN in H. destruct (N.eqb_spec t sid) as [E|E]; [discriminate|].
    assert (E' : sid <> t) by congruence. destruct (GH sid E') as (G1 & G2 & G3).
    rewrite G1, G2, G3. apply inone, H.
  - intros sid. unfold queue_of. rewrite FN. destruct (N.eqb_spec t sid) as [E|E].
    + subst sid. split; auto.
    + assert (E' : sid <> t) by congruence. destruct (GH sid E') as (G1 & G2 & G3).
      rewrite G1, G2, G3, IFL by auto. apply imain.
Qed.

(* appending a frame to what was submitted *)
Lemma eos_after_append sub_t f e :
  (e = false -> noeos (flat sub_t)) ->
  (e = true -> is_reset f = true) ->
  (e = true -> exists body, flat sub_t = body ++ [AEos] /\ noeos body) ->
  ((e || frame_eos f) = false -> noeos (flat (sub_t ++ [f]))) /\
  ((e || frame_eos f) = true -> exists body, flat (sub_t ++ [f]) = body ++ [AEos] /\ noeos body).
Proof.
  intros H0 HR H1. rewrite flat_app. change (flat [f]) with (flat1 f ++ []). rewrite app_nil_r.
  destruct e; cbn [orb].
  - rewrite (flat1_reset f (HR eq_refl)), app_nil_r. split; [discriminate|]. intros _. apply H1; reflexivity.
  - destruct (flat1_split f) as [S B]. rewrite S. specialize (H0 eq_refl).
    destruct (frame_eos f); cbn [eos_atom]; split; try discriminate; intros _.
    + exists (flat sub_t ++ body1 f). rewrite app_assoc. split; [reflexivity|]. apply noeos_app; auto.
    + rewrite app_nil_r. apply noeos_app; auto.
Qed.

Definition sub_upd (sub : N -> list sframe) (l : label) : N -> list sframe := fun x => sub x ++ submitted1 x l.
Definition clr_upd (clr : N -> bool) (l : label) : N -> bool := fun x => clr x || cleared1 x l.
Definition hd_upd (hd : N -> list sframe) (o : list out) : N -> list sframe := fun x => hd x ++ handled x o.

Lemma eqb_neq_false a b : a <> b -> N.eqb a b = false.
Proof. intros H. destruct (N.eqb_spec a b); [contradiction|reflexivity]. Qed.

(* the part of LPop / LPopReset / LPopDropPush after the reclaim: the codec is empty *)
Lemma codec_empty_inflight sub clr hd st :
  inv sub clr hd st -> d_next st = None -> d_last st = None ->
  d_inflight st = IfNothing /\ forall x, inflight_of x st = [].
Proof.
  intros I N L. assert (E : d_inflight st = IfNothing).
  { apply (i_c2 _ _ _ _ I). unfold codec_frame. rewrite N, L. reflexivity. }
  split; [exact E|]. intros x. apply inflight_nothing, E.
Qed.

Lemma split_atoms p eos len :
  len <= lenB p ->
  flat1 (FData (takeB len p) (eos && (lenB p <=? len))) ++
  flat (if is_nil (dropB len p) then [] else [FData (dropB len p) eos]) = flat1 (FData p eos).
Proof.
  intros LE. destruct (N.leb_spec (lenB p) len) as [H|H].
  - rewrite take_all, drop_all by auto. rewrite andb_true_r. cbn. rewrite app_nil_r. reflexivity.
  - rewrite andb_false_r. pose proof (drop_nonnil len p H) as NN. apply is_nil_false in NN. rewrite NN.
    cbn [flat1 flat flat_map eos_atom]. rewrite !app_nil_r. rewrite app_assoc, <- map_app, take_drop. reflexivity.
Qed.

Lemma pop_data_inv sub clr hd st0 t s p eos q' max_len avail win st' o :
  inv sub clr hd st0 -> d_next st0 = None -> d_last st0 = None ->
  find_live t (d_strs st0) = Some s -> ss_q s = FData p eos :: q' ->
  pop_data st0 s p eos q' max_len avail win = Ok st' o ->
  inv sub clr (hd_upd hd o) st'.
Proof.
  intros I NX LS FL Q P.
  destruct (codec_empty_inflight _ _ _ _ I NX LS) as [IF0 IFL0].
  apply find_live_some in FL. destruct FL as [FS GN]. pose proof (find_s_id _ _ _ FS) as ID.
  unfold pop_data in P.
  destruct ((0 <? lenB p) && (avail <=? 0)%Z); [discriminate|].
  set (len := N.min (N.min (lenB p) max_len) (as_size avail)) in *.
  destruct ((0 <? len) && (as_size win <? len)); [discriminate|].
  destruct (ss_buf s <? len) eqn:BL; [discriminate|].
  rewrite IF0 in P. cbn [is_nothing negb] in P. inversion P; subst st' o. clear P.
  assert (LE : len <= lenB p) by (unfold len; lia).
  set (cf := mkCF (ss_id s) (dropB len p) eos).
  set (s1 := set_q s q' (ss_buf s - len)).
  set (st' := codec_buffer_data (put st0 s1) cf len).
  assert (S1 : d_strs st' = upd_s s1 (d_strs st0)) by (unfold st', codec_buffer_data; destruct (d_chain (put st0 s1) <=? len); reflexivity).
  assert (S2 : d_inflight st' = IfData t) by (unfold st', codec_buffer_data; destruct (d_chain (put st0 s1) <=? len); cbn; rewrite ID; reflexivity).
  assert (S3 : codec_frame st' = Some cf).
  { unfold st', codec_buffer_data, codec_frame. destruct (d_chain (put st0 s1) <=? len); cbn; [reflexivity|].
    rewrite NX. reflexivity. }
  assert (S4 : d_next st' = None \/ d_last st' = None).
  { unfold st', codec_buffer_data. destruct (d_chain (put st0 s1) <=? len); cbn; auto. }
  assert (IFLt : inflight_of t st' = if is_nil (dropB len p) then [] else [FData (dropB len p) eos]).
  { unfold inflight_of. rewrite S2, S3, N.eqb_refl. cbn [andb cf cf_rest cf_eos]. destruct (is_nil (dropB len p)); reflexivity. }
  destruct (i_str _ _ _ _ I t s FS) as (B & C & G & E0 & E1). rewrite IFL0, Q in B.
  change (payloads (FData p eos :: q')) with (p ++ payloads q') in B. rewrite lenB_app in B.
  change (lenB (payloads [])) with 0 in B.
  destruct (i_main _ _ _ _ I t) as [M1 M2]. unfold queue_of in M1, M2. rewrite FS, Q, IFL0 in M1, M2.
  assert (CF : clr t = false).
  { destruct (clr t) eqn:CT; [|reflexivity]. destruct (M2 eq_refl) as (_ & R & _). cbn in R. discriminate. }
  assert (HDt : hd_upd hd [OFrame (ss_id s) (FData (takeB len p) (eos && (lenB p <=? len)))] t
                = hd t ++ [FData (takeB len p) (eos && (lenB p <=? len))]).
  { unfold hd_upd. cbn [handled flat_map handled1]. rewrite ID, N.eqb_refl, app_nil_r. reflexivity. }
  apply (inv_update sub clr hd st0 sub clr _ st' t s s1 I FS); auto.
  - split; intros H; [rewrite S2 in H; discriminate | rewrite S3 in H; discriminate].
  - intros k H. rewrite S2 in H. inversion H; subst k. exists cf. cbn. auto.
  - intros x Hx. rewrite IFL0. unfold inflight_of. rewrite S2, S3, (eqb_neq_false t x) by congruence. reflexivity.
  - intros x Hx. unfold hd_upd. cbn [handled flat_map handled1]. rewrite ID, (eqb_neq_false t x) by congruence.
    cbn. rewrite app_nil_r. auto.
  - rewrite IFLt. cbn [s1 set_q ss_buf ss_q]. destruct (is_nil (dropB len p)) eqn:NIL.
    + apply is_nil_true in NIL. pose proof (lenB_drop len p) as LD. rewrite NIL in LD.
      change (lenB []) with 0 in LD. change (lenB (payloads [])) with 0. lia.
    + change (payloads [FData (dropB len p) eos]) with (dropB len p ++ []). rewrite app_nil_r, lenB_drop. lia.
  - cbn. intros GG; congruence.
  - intros _. rewrite HDt, flat_app, IFLt. cbn [s1 set_q ss_q].
    change (flat [FData (takeB len p) (eos && (lenB p <=? len))]) with (flat1 (FData (takeB len p) (eos && (lenB p <=? len))) ++ []).
    rewrite app_nil_r. rewrite <- (M1 CF). change (flat []) with (@nil atom). cbn [app].
    change (flat (FData p eos :: q')) with (flat1 (FData p eos) ++ flat q').
    rewrite <- (split_atoms p eos len LE). rewrite <- !app_assoc. reflexivity.
  - intros CT. congruence.
Qed.

Lemma pop_data_no_panic sub clr hd st0 t s p eos q' max_len avail win n :
  inv sub clr hd st0 -> d_next st0 = None -> d_last st0 = None ->
  find_live t (d_strs st0) = Some s -> ss_q s = FData p eos :: q' ->
  pop_data st0 s p eos q' max_len avail win <> Panic n.
Proof.
  intros I NX LS FL Q P.
  destruct (codec_empty_inflight _ _ _ _ I NX LS) as [IF0 IFL0].
  apply find_live_some in FL. destruct FL as [FS GN].
  unfold pop_data in P.
  destruct ((0 <? lenB p) && (avail <=? 0)%Z); [discriminate|].
  set (len := N.min (N.min (lenB p) max_len) (as_size avail)) in *.
  destruct ((0 <? len) && (as_size win <? len)); [discriminate|].
  destruct (i_str _ _ _ _ I t s FS) as (B & _). rewrite Q in B.
  change (payloads (FData p eos :: q')) with (p ++ payloads q') in B. rewrite lenB_app in B.
  destruct (N.ltb_spec (ss_buf s) len) as [H|H]; [unfold len in H; lia|].
  rewrite IF0 in P. discriminate.
Qed.

(* update of one record, codec untouched *)
Lemma inv_put sub clr hd st sub' clr' hd' t s0 s1 :
  inv sub clr hd st ->
  find_s t (d_strs st) = Some s0 -> ss_id s1 = t ->
  (forall x, x <> t -> flat (sub' x) = flat (sub x) /\ clr' x = clr x /\ flat (hd' x) = flat (hd x)) ->
  ss_buf s1 = lenB (payloads (ss_q s1)) + lenB (payloads (inflight_of t st)) ->
  ss_cleared s1 = clr' t ->
  (ss_gone s1 = true -> ss_q s1 = [] /\ ss_buf s1 = 0) ->
  (ss_eos s1 = false -> noeos (flat (sub' t))) ->
  (ss_eos s1 = true -> exists body, flat (sub' t) = body ++ [AEos] /\ noeos body) ->
  (clr' t = false -> flat (hd' t) ++ flat (inflight_of t st) ++ flat (ss_q s1) = flat (sub' t)) ->
  (clr' t = true -> (exists tail, flat (hd' t) ++ tail = flat (sub' t)) /\
                    forallb is_reset (ss_q s1) = true /\ inflight_of t st = []) ->
  inv sub' clr' hd' (put st s1).
Proof.
  intros I F0 ID GH TB TC TG TE0 TE1 TM1 TM2.
  apply (inv_update sub clr hd st sub' clr' hd' (put st s1) t s0 s1 I F0 ID); auto.
  - apply (i_c1 _ _ _ _ I).
  - apply (i_c2 _ _ _ _ I).
  - intros k H. destruct (i_c3 _ _ _ _ I k H) as (cf & s & A & B & C). exists cf. auto.
Qed.

Lemma inv_fresh sub clr hd st sid :
  inv sub clr hd st -> find_s sid (d_strs st) = None ->
  inv sub clr hd (set_strs st (mkSS sid [] 0 false false false :: d_strs st)).
Proof.
  intros I F. pose proof I as [c1 c2 c3 istr inone imain].
  destruct (inone sid F) as (S0 & H0 & C0).
  assert (IFLs : inflight_of sid st = []).
  { unfold inflight_of. destruct (d_inflight st) as [|k|] eqn:IF; try reflexivity.
    destruct (c3 k eq_refl) as (cf & s & CF & SID & FK). rewrite CF.
    destruct (N.eqb_spec k sid) as [E|E]; [subst; congruence|reflexivity]. }
  assert (FN : forall x, find_s x (mkSS sid [] 0 false false false :: d_strs st)
                         = if N.eqb sid x then Some (mkSS sid [] 0 false false false) else find_s x (d_strs st)).
  { intros x. reflexivity. }
  constructor; auto.
  - intros k H. destruct (c3 k H) as (cf & s & CF & SID & FK). cbn [d_strs set_strs]. rewrite FN.
    destruct (N.eqb sid k); eauto.
  - intros x s H. cbn [d_strs set_strs] in H. rewrite FN in H. rewrite inflight_of_strs.
    destruct (N.eqb_spec sid x) as [E|E].
    + subst x. inversion H; subst s. cbn. rewrite IFLs. split5; auto.
      * intros _. rewrite S0. reflexivity.
      * intros; discriminate.
    + apply istr, H.
  - intros x H. cbn [d_strs set_strs] in H. rewrite FN in H. destruct (N.eqb sid x); [discriminate|]. apply inone, H.
  - intros x. rewrite inflight_of_strs. unfold queue_of. cbn [d_strs set_strs]. rewrite FN.
    destruct (N.eqb_spec sid x) as [E|E].
    + subst x. cbn [ss_q]. specialize (imain sid). unfold queue_of in imain. rewrite F in imain. exact imain.
    + apply imain.
Qed.

(* a non-DATA frame leaves the head of a queue *)
Lemma pop_other_inv sub clr hd hd' st0 t s f q' :
  inv sub clr hd st0 -> d_next st0 = None -> d_last st0 = None ->
  find_live t (d_strs st0) = Some s -> ss_q s = f :: q' -> is_data f = false ->
  (forall x, hd' x = hd x ++ (if N.eqb t x then [f] else [])) ->
  inv sub clr hd' (put st0 (set_q s q' (ss_buf s))).
Proof.
  intros I NX LS FL Q ND HD.
  destruct (codec_empty_inflight _ _ _ _ I NX LS) as [IF0 IFL0].
  apply find_live_some in FL. destruct FL as [FS GN]. pose proof (find_s_id _ _ _ FS) as ID.
  destruct (i_str _ _ _ _ I t s FS) as (B & C & G & E0 & E1). rewrite Q in B.
  assert (PF : payloads (f :: q') = payloads q') by (destruct f; [reflexivity|discriminate|reflexivity|reflexivity]).
  destruct (i_main _ _ _ _ I t) as [M1 M2]. unfold queue_of in M1, M2. rewrite FS, Q, IFL0 in M1, M2.
  assert (HDt : flat (hd' t) = flat (hd t) ++ flat1 f).
  { rewrite HD, N.eqb_refl, flat_app. change (flat [f]) with (flat1 f ++ []). rewrite app_nil_r. reflexivity. }
  apply (inv_put sub clr hd st0 sub clr hd' t s (set_q s q' (ss_buf s)) I FS); auto.
  - intros x Hx. rewrite HD, (eqb_neq_false t x) by congruence. rewrite app_nil_r. auto.
  - cbn [set_q ss_buf ss_q]. rewrite <- PF. exact B.
  - cbn. intros GG; congruence.
  - intros CF. rewrite HDt, IFL0. cbn [set_q ss_q]. rewrite <- (M1 CF).
    change (flat []) with (@nil atom). cbn [app]. change (flat (f :: q')) with (flat1 f ++ flat q').
    rewrite <- app_assoc. reflexivity.
  - intros CT. destruct (M2 CT) as ((tail & TL) & R & _). cbn [forallb] in R. apply andb_true_iff in R.
    destruct R as [R1 R2]. rewrite IFL0. cbn [set_q ss_q]. split; [|split; auto].
    exists tail. rewrite HDt, (flat1_reset f R1), app_nil_r. exact TL.
Qed.

Definition clear_codec (st1 : dstate) (inf : inflight) (sid : N) : dstate :=
  match inf with
  | IfData k => if N.eqb k sid then set_codec st1 IfDrop (d_next st1) (d_last st1) else st1
  | _ => st1
  end.

Lemma clear_codec_proj st1 inf sid :
  d_strs (clear_codec st1 inf sid) = d_strs st1 /\ d_next (clear_codec st1 inf sid) = d_next st1 /\
  d_last (clear_codec st1 inf sid) = d_last st1 /\
  (d_inflight st1 = inf ->
   d_inflight (clear_codec st1 inf sid) = match inf with IfData k => if N.eqb k sid then IfDrop else IfData k | i => i end).
Proof.
  unfold clear_codec. destruct inf as [|k|]; auto. destruct (N.eqb k sid); cbn; auto.
Qed.

Ltac ghost_triv :=
  intros ?x; unfold sub_upd, clr_upd, hd_upd; cbn [submitted1 cleared1 handled flat_map handled1];
  rewrite ?app_nil_r, ?orb_false_r; reflexivity.

Lemma step_inv sub clr hd st l st' o :
  inv sub clr hd st -> step st l = Ok st' o ->
  inv (sub_upd sub l) (clr_upd clr l) (hd_upd hd o) st'.
Proof.
  intros I S. destruct l as [sid|sid|sid streaming p eos|sid f|sid| |sid max_len avail win|sid reason|sid| ];
    cbn [step] in S.
  - (* LNew *)
    destruct (find_s sid (d_strs st)) as [s|] eqn:F.
    + destruct (ss_gone s) eqn:G; [|discriminate]. inversion S; subst st' o. clear S.
      apply (inv_ext sub clr hd); try ghost_triv.
      pose proof (find_s_id _ _ _ F) as ID.
      destruct (i_str _ _ _ _ I sid s F) as (B & C & GG & E0 & E1).
      destruct (i_main _ _ _ _ I sid) as [M1 M2]. unfold queue_of in M1, M2. rewrite F in M1, M2.
      apply (inv_put sub clr hd st sub clr hd sid s (set_gone s false) I F); auto.
    + inversion S; subst st' o. clear S. apply (inv_ext sub clr hd); try ghost_triv. apply inv_fresh; auto.
  - (* LRemove *)
    destruct (find_live sid (d_strs st)) as [s|] eqn:FL; [|discriminate].
    destruct (is_nil (ss_q s) && (ss_buf s =? 0)) eqn:G; [|discriminate]. inversion S; subst st' o. clear S.
    apply andb_true_iff in G. destruct G as [G1 G2]. apply is_nil_true in G1. apply N.eqb_eq in G2.
    apply find_live_some in FL. destruct FL as [F GN]. pose proof (find_s_id _ _ _ F) as ID.
    apply (inv_ext sub clr hd); try ghost_triv.
    destruct (i_str _ _ _ _ I sid s F) as (B & C & GG & E0 & E1).
    destruct (i_main _ _ _ _ I sid) as [M1 M2]. unfold queue_of in M1, M2. rewrite F in M1, M2.
    apply (inv_put sub clr hd st sub clr hd sid s (set_gone s true) I F); auto.
  - (* LSendData *)
    destruct (find_live sid (d_strs st)) as [s|] eqn:FL; [|discriminate].
    destruct (MAXW <? lenB p) eqn:BIG.
    { inversion S; subst st' o. apply (inv_ext sub clr hd); auto.
      - intros x. unfold sub_upd. cbn [submitted1]. rewrite BIG. cbn [negb]. rewrite andb_false_r, app_nil_r. reflexivity.
      - ghost_triv.
      - ghost_triv. }
    destruct streaming; cbn [negb] in S.
    2:{ inversion S; subst st' o. apply (inv_ext sub clr hd); auto.
        - intros x. unfold sub_upd. cbn [submitted1]. rewrite andb_false_r. cbn. rewrite app_nil_r. reflexivity.
        - ghost_triv.
        - ghost_triv. }
    destruct (send_done s) eqn:SD; [discriminate|]. inversion S; subst st' o. clear S.
    unfold send_done in SD. apply orb_false_iff in SD. destruct SD as [SE SC].
    apply find_live_some in FL. destruct FL as [F GN]. pose proof (find_s_id _ _ _ F) as ID.
    destruct (i_str _ _ _ _ I sid s F) as (B & C & GG & E0 & E1).
    destruct (i_main _ _ _ _ I sid) as [M1 M2]. unfold queue_of in M1, M2. rewrite F in M1, M2.
    assert (CF : clr sid = false) by congruence.
    assert (SUBt : sub_upd sub (LSendData sid true p eos) sid = sub sid ++ [FData p eos]).
    { unfold sub_upd. cbn [submitted1]. rewrite N.eqb_refl, BIG. reflexivity. }
    destruct (eos_after_append (sub sid) (FData p eos) (ss_eos s)) as [A0 A1]; auto; try (intros; congruence).
    apply (inv_put sub clr hd st _ _ _ sid s _ I F); auto.
    + intros x Hx. unfold sub_upd, clr_upd, hd_upd. cbn [submitted1 cleared1 handled flat_map handled1].
      rewrite (eqb_neq_false sid x) by congruence. cbn. rewrite !app_nil_r, orb_false_r. auto.
    + cbn [ss_buf ss_q]. rewrite payloads_app. change (payloads [FData p eos]) with (p ++ []).
      rewrite app_nil_r, lenB_app. lia.
    + cbn. unfold clr_upd. cbn. rewrite orb_false_r. auto.
    + cbn. intros; discriminate.
    + cbn [ss_eos]. rewrite SUBt. exact A0.
    + cbn [ss_eos]. rewrite SUBt. exact A1.
    + intros _. rewrite SUBt. unfold hd_upd. cbn [handled flat_map handled1 ss_q]. rewrite app_nil_r.
      rewrite !flat_app. rewrite <- (M1 CF). rewrite <- !app_assoc. reflexivity.
    + unfold clr_upd. cbn. rewrite orb_false_r. intros; congruence.
  - (* LQueue *)
    destruct (find_live sid (d_strs st)) as [s|] eqn:FL; [|discriminate].
    destruct (is_data f) eqn:ND; [discriminate|].
    destruct (send_done s && negb (is_reset f)) eqn:SD; [discriminate|]. inversion S; subst st' o. clear S.
    apply find_live_some in FL. destruct FL as [F GN]. pose proof (find_s_id _ _ _ F) as ID.
    destruct (i_str _ _ _ _ I sid s F) as (B & C & GG & E0 & E1).
    destruct (i_main _ _ _ _ I sid) as [M1 M2]. unfold queue_of in M1, M2. rewrite F in M1, M2.
    assert (DONE : send_done s = true -> is_reset f = true).
    { intros D. rewrite D in SD. cbn in SD. destruct (is_reset f); [reflexivity|discriminate]. }
    assert (SUBt : sub_upd sub (LQueue sid f) sid = sub sid ++ [f]).
    { unfold sub_upd. cbn [submitted1]. rewrite N.eqb_refl. reflexivity. }
    destruct (eos_after_append (sub sid) f (ss_eos s)) as [A0 A1]; auto.
    { intros E. apply DONE. unfold send_done. rewrite E. reflexivity. }
    assert (PF : payloads [f] = []) by (destruct f; [reflexivity|discriminate|reflexivity|reflexivity]).
    apply (inv_put sub clr hd st _ _ _ sid s _ I F); auto.
    + intros x Hx. unfold sub_upd, clr_upd, hd_upd. cbn [submitted1 cleared1 handled flat_map handled1].
      rewrite (eqb_neq_false sid x) by congruence. rewrite !app_nil_r, orb_false_r. auto.
    + cbn [ss_buf ss_q]. rewrite payloads_app, PF, app_nil_r. exact B.
    + cbn. unfold clr_upd. cbn. rewrite orb_false_r. auto.
    + cbn. intros; discriminate.
    + cbn [ss_eos]. rewrite SUBt. exact A0.
    + cbn [ss_eos]. rewrite SUBt. exact A1.
    + unfold clr_upd. cbn [cleared1]. rewrite orb_false_r. intros CF. rewrite SUBt. unfold hd_upd.
      cbn [handled flat_map ss_q]. rewrite app_nil_r.
      rewrite !flat_app. rewrite <- (M1 CF). rewrite <- !app_assoc. reflexivity.
    + unfold clr_upd. cbn [cleared1]. rewrite orb_false_r. intros CT. destruct (M2 CT) as ((tail & TL) & R & IFL).
      assert (RF : is_reset f = true).
      { apply DONE. unfold send_done. rewrite C, CT. apply orb_true_r. }
      rewrite SUBt. unfold hd_upd. cbn [handled flat_map ss_q]. rewrite app_nil_r. split; [|split; auto].
      * exists tail. rewrite flat_app. change (flat [f]) with (flat1 f ++ []). rewrite (flat1_reset f RF). cbn [app].
        rewrite app_nil_r. exact TL.
      * rewrite forallb_app, R. cbn. rewrite RF. reflexivity.
  - (* LClear *)
    destruct (find_live sid (d_strs st)) as [s|] eqn:FL; [|discriminate]. inversion S; subst st' o. clear S.
    apply find_live_some in FL. destruct FL as [F GN]. pose proof (find_s_id _ _ _ F) as ID.
    destruct (i_str _ _ _ _ I sid s F) as (B & C & GG & E0 & E1).
    destruct (i_main _ _ _ _ I sid) as [M1 M2]. unfold queue_of in M1, M2. rewrite F in M1, M2.
    set (s1 := mkSS sid [] 0 (ss_eos s) true false).
    change (inv (sub_upd sub (LClear sid)) (clr_upd clr (LClear sid)) (hd_upd hd [])
                (clear_codec (put st s1) (d_inflight st) sid)).
    set (st' := clear_codec (put st s1) (d_inflight st) sid).
    destruct (clear_codec_proj (put st s1) (d_inflight st) sid) as (S1 & S2 & S3 & S5).
    fold st' in S1, S2, S3, S5. specialize (S5 eq_refl).
    change (d_strs (put st s1)) with (upd_s s1 (d_strs st)) in S1.
    change (d_next (put st s1)) with (d_next st) in S2. change (d_last (put st s1)) with (d_last st) in S3.
    assert (S4 : codec_frame st' = codec_frame st) by (unfold codec_frame; rewrite S2, S3; reflexivity).
    assert (IFLt : inflight_of sid st' = []).
    { unfold inflight_of. rewrite S5, S4. destruct (d_inflight st) as [|k|]; auto.
      destruct (N.eqb_spec k sid) as [E|E]; auto. destruct (codec_frame st); auto.
      rewrite (eqb_neq_false k sid E). reflexivity. }
    assert (SUBt : forall x, sub_upd sub (LClear sid) x = sub x) by (intros x; unfold sub_upd; cbn; apply app_nil_r).
    assert (HDt : forall x, hd_upd hd [] x = hd x) by (intros x; unfold hd_upd; cbn; apply app_nil_r).
    apply (inv_update sub clr hd st _ _ _ st' sid s s1 I F); auto.
    + rewrite S2, S3. apply (i_c1 _ _ _ _ I).
    + rewrite S5, S4. destruct (i_c2 _ _ _ _ I) as [A1 A2]. destruct (d_inflight st) as [|k|] eqn:IF.
      * split; auto.
      * destruct (N.eqb k sid); split; intros H; try discriminate; apply A2 in H; discriminate.
      * split; intros H; try discriminate. apply A2 in H; discriminate.
    + intros k H. rewrite S5 in H. rewrite S4. destruct (d_inflight st) as [|k0|] eqn:IF; try discriminate.
      destruct (N.eqb k0 sid); [discriminate|]. inversion H; subst k0.
      destruct (i_c3 _ _ _ _ I k IF) as (cf & s' & A & A' & A''). exists cf. auto.
    + intros x Hx. unfold inflight_of. rewrite S5, S4. destruct (d_inflight st) as [|k|] eqn:IF; auto.
      destruct (N.eqb_spec k sid) as [E|E]; auto. subst k. destruct (codec_frame st); auto.
      rewrite (eqb_neq_false sid x) by congruence. reflexivity.
    + intros x Hx. rewrite SUBt, HDt. unfold clr_upd. cbn [cleared1]. rewrite (eqb_neq_false sid x) by congruence.
      rewrite orb_false_r. auto.
    + rewrite IFLt. reflexivity.
    + unfold clr_upd. cbn [cleared1]. rewrite N.eqb_refl, orb_true_r. reflexivity.
    + rewrite SUBt. exact E0.
    + rewrite SUBt. exact E1.
    + unfold clr_upd. cbn [cleared1]. rewrite N.eqb_refl, orb_true_r. intros; discriminate.
    + intros _. rewrite SUBt, HDt, IFLt. split; [|split; reflexivity].
      destruct (clr sid) eqn:CT.
      * destruct (M2 eq_refl) as (TL & _). exact TL.
      * eexists. apply (M1 eq_refl).
  - (* LReclaim *)
    destruct (reclaim_inv _ _ _ _ _ _ I S) as (O & I' & _). subst o.
    apply (inv_ext sub clr hd); try ghost_triv. exact I'.
  - (* LPop *)
    destruct (reclaim st) as [st0 o0| |] eqn:R; try discriminate.
    destruct (reclaim_inv _ _ _ _ _ _ I R) as (O & I0 & LS & NXE). subst o0.
    destruct (d_next st0) eqn:NX; [discriminate|].
    destruct (find_live sid (d_strs st0)) as [s|] eqn:FL; [|discriminate].
    destruct (ss_q s) as [|f q'] eqn:Q; [discriminate|].
    assert (OTHER : is_data f = false ->
              (if negb (is_nothing (d_inflight st0)) then Panic 1
               else Ok (put st0 (set_q s q' (ss_buf s))) [OFrame sid f]) = Ok st' o ->
              inv (sub_upd sub (LPop sid max_len avail win)) (clr_upd clr (LPop sid max_len avail win)) (hd_upd hd o) st').
    { intros ND S'. destruct (negb (is_nothing (d_inflight st0))); [discriminate|]. inversion S'; subst st' o.
      apply (inv_ext sub clr (hd_upd hd [OFrame sid f])); try ghost_triv; auto.
      apply (pop_other_inv sub clr hd _ st0 sid s f q'); auto.
      intros x. unfold hd_upd. cbn [handled flat_map handled1]. rewrite app_nil_r. reflexivity. }
    destruct f as [k h e|p e|pr h|r]; try (apply OTHER; [reflexivity|exact S]).
    apply (inv_ext sub clr (hd_upd hd o)); try ghost_triv; auto.
    apply (pop_data_inv sub clr hd st0 sid s p e q' max_len avail win); auto.
  - (* LPopReset *)
    destruct (reclaim st) as [st0 o0| |] eqn:R; try discriminate.
    destruct (reclaim_inv _ _ _ _ _ _ I R) as (O & I0 & LS & NXE). subst o0.
    destruct (d_next st0) eqn:NX; [discriminate|].
    destruct (find_live sid (d_strs st0)) as [s|] eqn:FL; [|discriminate].
    destruct (negb (is_nil (ss_q s))); [discriminate|].
    destruct (negb (is_nothing (d_inflight st0))); [discriminate|]. inversion S; subst st' o.
    apply (inv_ext sub clr hd); try ghost_triv; auto.
    intros x. unfold hd_upd. cbn [handled flat_map handled1]. destruct (N.eqb sid x); rewrite flat_app; cbn; rewrite app_nil_r; reflexivity.
  - (* LPopDropPush *)
    destruct (reclaim st) as [st0 o0| |] eqn:R; try discriminate.
    destruct (reclaim_inv _ _ _ _ _ _ I R) as (O & I0 & LS & NXE). subst o0.
    destruct (d_next st0) eqn:NX; [discriminate|].
    destruct (find_live sid (d_strs st0)) as [s|] eqn:FL; [|discriminate].
    destruct (ss_q s) as [|f q'] eqn:Q; [discriminate|]. destruct f as [k h e|p e|pr h|r]; try discriminate.
    inversion S; subst st' o.
    apply (inv_ext sub clr (hd_upd hd [ODropPush sid pr h])); try ghost_triv; auto.
    apply (pop_other_inv sub clr hd _ st0 sid s (FPush pr h) q'); auto.
    intros x. unfold hd_upd. cbn [handled flat_map handled1]. rewrite app_nil_r. reflexivity.
  - (* LFlushed *)
    destruct (d_next st) as [cf|] eqn:NX; [|discriminate]. inversion S; subst st' o. clear S.
    apply (inv_ext sub clr hd); try ghost_triv.
    assert (LS : d_last st = None) by (destruct (i_c1 _ _ _ _ I) as [A|A]; [congruence|auto]).
    apply (inv_codec sub clr hd st); auto.
    + cbn. destruct (i_c2 _ _ _ _ I) as [A1 A2]. unfold codec_frame in *. cbn. rewrite NX in *. exact (conj A1 A2).
    + cbn. intros k H. destruct (i_c3 _ _ _ _ I k H) as (cf' & s & A & A' & A''). unfold codec_frame in *. cbn.
      rewrite NX in A. exists cf'. auto.
    + intros x. unfold inflight_of, codec_frame. cbn. rewrite NX. reflexivity.
Qed.

Lemma step_no_panic sub clr hd st l n : inv sub clr hd st -> step st l <> Panic n.
Proof.
  intros I S. destruct l as [sid|sid|sid streaming p eos|sid f|sid| |sid max_len avail win|sid reason|sid| ];
    cbn [step] in S.
  - destruct (find_s sid (d_strs st)) as [s|]; [destruct (ss_gone s)|]; discriminate.
  - destruct (find_live sid (d_strs st)) as [s|]; [|discriminate].
    destruct (is_nil (ss_q s) && (ss_buf s =? 0)); discriminate.
  - destruct (find_live sid (d_strs st)) as [s|]; [|discriminate].
    destruct (MAXW <? lenB p); [discriminate|]. destruct (negb streaming); [discriminate|].
    destruct (send_done s); discriminate.
  - destruct (find_live sid (d_strs st)) as [s|]; [|discriminate].
    destruct (is_data f); [discriminate|]. destruct (send_done s && negb (is_reset f)); discriminate.
  - destruct (find_live sid (d_strs st)) as [s|]; discriminate.
  - exact (reclaim_no_panic _ _ _ _ _ I S).
  - destruct (reclaim st) as [st0 o0|k|k] eqn:R; [|discriminate|exact (reclaim_no_panic _ _ _ _ _ I R)].
    destruct (reclaim_inv _ _ _ _ _ _ I R) as (O & I0 & LS & NXE).
    destruct (d_next st0) eqn:NX; [discriminate|].
    destruct (codec_empty_inflight _ _ _ _ I0 NX LS) as [IF0 _].
    destruct (find_live sid (d_strs st0)) as [s|] eqn:FL; [|discriminate].
    destruct (ss_q s) as [|f q'] eqn:Q; [discriminate|].
    destruct f as [k h e|p e|pr h|r]; try (rewrite IF0 in S; discriminate).
    exact (pop_data_no_panic _ _ _ _ _ _ _ _ _ _ _ _ _ I0 NX LS FL Q S).
  - destruct (reclaim st) as [st0 o0|k|k] eqn:R; [|discriminate|exact (reclaim_no_panic _ _ _ _ _ I R)].
    destruct (reclaim_inv _ _ _ _ _ _ I R) as (O & I0 & LS & NXE).
    destruct (d_next st0) eqn:NX; [discriminate|].
    destruct (codec_empty_inflight _ _ _ _ I0 NX LS) as [IF0 _].
    destruct (find_live sid (d_strs st0)) as [s|]; [|discriminate].
    destruct (negb (is_nil (ss_q s))); [discriminate|]. rewrite IF0 in S. discriminate.
  - destruct (reclaim st) as [st0 o0|k|k] eqn:R; [|discriminate|exact (reclaim_no_panic _ _ _ _ _ I R)].
    destruct (d_next st0); [discriminate|].
    destruct (find_live sid (d_strs st0)) as [s|]; [|discriminate].
    destruct (ss_q s) as [|f q']; [discriminate|]. destruct f; discriminate.
  - destruct (d_next st); discriminate.
Qed.

(* ------------------------------------------------------------------------------------------- *)
(* runs *)

Lemma submitted_app sid a b : submitted sid (a ++ b) = submitted sid a ++ submitted sid b.
Proof. unfold submitted. apply flat_map_app. Qed.
Lemma handled_app sid a b : handled sid (a ++ b) = handled sid a ++ handled sid b.
Proof. unfold handled. apply flat_map_app. Qed.

Lemma run_inv : forall ls sub clr hd st st' os,
  inv sub clr hd st -> run st ls = ROk st' os ->
  inv (fun x => sub x ++ submitted x ls) (fun x => clr x || cleared x ls) (fun x => hd x ++ handled x os) st'.
Proof.
  induction ls as [|l ls IH]; intros sub clr hd st st' os I R; cbn [run] in R.
  - inversion R; subst. apply (inv_ext sub clr hd); auto; intros x; cbn; rewrite ?app_nil_r, ?orb_false_r; reflexivity.
  - destruct (step st l) as [st1 o|k|k] eqn:S; try discriminate.
    destruct (run st1 ls) as [st2 os'|k r] eqn:R'; [|discriminate]. inversion R; subst st' os. clear R.
    pose proof (IH _ _ _ _ _ _ (step_inv _ _ _ _ _ _ _ I S) R') as I2.
    eapply inv_ext; [| | |exact I2]; intros x; unfold sub_upd, clr_upd, hd_upd.
    + change (submitted x (l :: ls)) with (submitted1 x l ++ submitted x ls). rewrite app_assoc. reflexivity.
    + cbn [cleared existsb]. rewrite orb_assoc. reflexivity.
    + rewrite handled_app, app_assoc. reflexivity.
Qed.

Lemma run_no_panic : forall ls sub clr hd st k n,
  inv sub clr hd st -> run st ls <> RFail k (Panic n).
Proof.
  induction ls as [|l ls IH]; intros sub clr hd st k n I R; cbn [run] in R; [discriminate|].
  destruct (step st l) as [st1 o|j|j] eqn:S.
  - destruct (run st1 ls) as [st2 os'|k' r] eqn:R'; [discriminate|]. inversion R; subst.
    exact (IH _ _ _ _ _ _ (step_inv _ _ _ _ _ _ _ I S) R').
  - inversion R.
  - exact (step_no_panic _ _ _ _ _ _ I S).
Qed.

Lemma run_init_inv chain ls st os :
  run (init_state chain) ls = ROk st os ->
  inv (fun x => submitted x ls) (fun x => cleared x ls) (fun x => handled x os) st.
Proof.
  intros R. pose proof (run_inv ls _ _ _ _ _ _ (inv_init chain) R) as I.
  eapply inv_ext; [| | |exact I]; intros x; reflexivity.
Qed.

(* the shape of everything ever submitted on a stream: END_STREAM-free atoms, then at most one AEos *)
Lemma submitted_shape sub clr hd st sid :
  inv sub clr hd st -> exists body e, flat (sub sid) = body ++ eos_atom e /\ noeos body.
Proof.
  intros I. destruct (find_s sid (d_strs st)) as [s|] eqn:F.
  - destruct (i_str _ _ _ _ I sid s F) as (_ & _ & _ & E0 & E1). destruct (ss_eos s).
    + destruct (E1 eq_refl) as (body & A & B). exists body, true. auto.
    + exists (flat (sub sid)), false. cbn. rewrite app_nil_r. auto.
  - destruct (i_none _ _ _ _ I sid F) as (A & _). exists [], false. rewrite A. split; reflexivity.
Qed.

Lemma last_or_nil {A} (l : list A) : l = [] \/ exists l' a, l = l' ++ [a].
Proof.
  destruct l as [|x l]; [left; reflexivity|right].
  destruct (@exists_last A (x :: l)) as (l' & a & E); [discriminate|]. exists l', a. exact E.
Qed.

Lemma prefix_with_eos (P tail body : list atom) e :
  P ++ tail = body ++ eos_atom e -> noeos body -> In AEos P -> tail = [] /\ e = true /\ P = body ++ [AEos].
Proof.
  intros E NB IN.
  assert (NP : forall l, noeos l -> ~ In AEos l).
  { intros l H J. unfold noeos in H. rewrite forallb_forall in H. specialize (H _ J). discriminate. }
  destruct e; cbn [eos_atom] in E.
  2:{ rewrite app_nil_r in E. exfalso. apply (NP body NB). rewrite <- E. apply in_or_app. auto. }
  destruct (last_or_nil tail) as [T|(t' & a & T)].
  - subst tail. rewrite app_nil_r in E. auto.
  - subst tail. rewrite app_assoc in E. apply app_inj_tail in E. destruct E as [E _].
    exfalso. apply (NP body NB). rewrite <- E. apply in_or_app. auto.
Qed.

(* ------------------------------------------------------------------------------------------- *)
(* C01, send side *)

Theorem send_split_preserves : forall chain ls st os sid,
  run (init_state chain) ls = ROk st os ->
  (* nothing lost, duplicated or reordered: handed to the codec ++ still inside the codec ++ still queued *)
  (cleared sid ls = false ->
     flat (handled sid os) ++ flat (inflight_of sid st) ++ flat (queue_of sid st) = flat (submitted sid ls)) /\
  (* always (also after a reset dropped the queue): a prefix of what was submitted *)
  (exists tail, flat (handled sid os) ++ tail = flat (submitted sid ls)) /\
  (* END_STREAM goes out only with the last submitted atom ... *)
  (In AEos (flat (handled sid os)) -> flat (handled sid os) = flat (submitted sid ls)) /\
  (* ... and at most once *)
  (forall pre post, flat (handled sid os) = pre ++ AEos :: post -> noeos pre /\ post = []).
Proof.
  intros chain ls st os sid R. pose proof (run_init_inv _ _ _ _ R) as I.
  destruct (i_main _ _ _ _ I sid) as [M1 M2].
  assert (PRE : exists tail, flat (handled sid os) ++ tail = flat (submitted sid ls)).
  { destruct (cleared sid ls) eqn:C; [destruct (M2 eq_refl) as (T & _); exact T|].
    eexists. apply (M1 eq_refl). }
  destruct (submitted_shape _ _ _ _ sid I) as (body & e & SH & NB).
  split; [exact M1|]. split; [exact PRE|].
  destruct PRE as (tail & PRE). rewrite SH in PRE.
  split.
  - intros IN. destruct (prefix_with_eos _ _ _ _ PRE NB IN) as (T & E & P). subst tail e.
    rewrite SH. cbn [eos_atom]. exact P.
  - intros pre post E.
    assert (IN : In AEos (flat (handled sid os))) by (rewrite E; apply in_or_app; right; left; reflexivity).
    destruct (prefix_with_eos _ _ _ _ PRE NB IN) as (T & Ee & P). rewrite E in P.
    destruct (last_or_nil post) as [Q|(post' & a & Q)]; subst post.
    + apply app_inj_tail in P. destruct P as [P _]. subst pre. auto.
    + exfalso. change (pre ++ AEos :: post' ++ [a]) with (pre ++ (AEos :: post') ++ [a]) in P.
      rewrite app_assoc in P. apply app_inj_tail in P. destruct P as [P _].
      unfold noeos in NB. rewrite <- P, forallb_app in NB. apply andb_true_iff in NB. destruct NB as [_ NB].
      cbn in NB. discriminate.
Qed.

(* byte-level reading of the same fact *)
Fixpoint bytes_of (l : list atom) : bytes :=
  match l with [] => [] | AByte b :: l' => b :: bytes_of l' | _ :: l' => bytes_of l' end.

Lemma bytes_of_app a b : bytes_of (a ++ b) = bytes_of a ++ bytes_of b.
Proof. induction a as [|x a IH]; cbn; [reflexivity|]. destruct x; cbn; rewrite IH; reflexivity. Qed.

Lemma bytes_of_map p : bytes_of (map AByte p) = p.
Proof. induction p; cbn; congruence. Qed.

Lemma bytes_of_flat l : bytes_of (flat l) = payloads l.
Proof.
  induction l as [|f l IH]; [reflexivity|].
  change (flat (f :: l)) with (flat1 f ++ flat l). change (payloads (f :: l)) with (data1 f ++ payloads l).
  rewrite bytes_of_app, IH. f_equal.
  destruct f as [k h e|p e|pr h|r]; cbn [flat1 data1 eos_atom]; try (destruct e; reflexivity); try reflexivity.
  rewrite bytes_of_app, bytes_of_map. destruct e; cbn; rewrite ?app_nil_r; reflexivity.
Qed.

Lemma payloads_handled_sent sid os : payloads (handled sid os) = payloads (sent sid os).
Proof.
  unfold handled, sent. induction os as [|o os IH]; [reflexivity|]. cbn [flat_map].
  rewrite !payloads_app, IH. f_equal. destruct o as [s f|s pr h|b]; cbn [handled1 sent1]; try reflexivity.
  destruct (N.eqb s sid); reflexivity.
Qed.

Theorem send_bytes_preserved : forall chain ls st os sid,
  run (init_state chain) ls = ROk st os ->
  (cleared sid ls = false ->
     payloads (sent sid os) ++ payloads (inflight_of sid st) ++ payloads (queue_of sid st)
     = payloads (submitted sid ls)) /\
  (exists tail, payloads (sent sid os) ++ tail = payloads (submitted sid ls)).
Proof.
  intros chain ls st os sid R. destruct (send_split_preserves _ _ _ _ sid R) as (A & (tail & B) & _).
  rewrite <- payloads_handled_sent. split.
  - intros C. specialize (A C). apply (f_equal bytes_of) in A.
    rewrite !bytes_of_app, !bytes_of_flat in A. exact A.
  - exists (bytes_of tail). apply (f_equal bytes_of) in B. rewrite bytes_of_app, !bytes_of_flat in B. exact B.
Qed.

Theorem datapath_no_assert : forall chain ls k n, run (init_state chain) ls <> RFail k (Panic n).
Proof. intros chain ls k n. exact (run_no_panic ls _ _ _ _ k n (inv_init chain)). Qed.

(* ------------------------------------------------------------------------------------------- *)
(* wire: composition with an abstract synchronised codec *)

Definition strict_prefix (pre bs : bytes) : Prop := exists suf, suf <> [] /\ pre ++ suf = bs.

Definition codec_sync {F ES DS} (c : wcodec F ES DS) (R : ES -> DS -> Prop) : Prop :=
  (forall ds, wc_dec c ds [] = None) /\
  forall es ds f bs es', R es ds -> wc_enc c es f = (bs, es') ->
    bs <> [] /\
    (forall rest, exists ds', wc_dec c ds (bs ++ rest) = Some (f, rest, ds') /\ R es' ds') /\
    (forall pre, strict_prefix pre bs -> wc_dec c ds pre = None).

Lemma app_split {A} : forall (a b c d : list A), a ++ b = c ++ d ->
  (exists l, a = c ++ l /\ d = l ++ b) \/ (exists l, l <> [] /\ c = a ++ l /\ b = l ++ d).
Proof.
  induction a as [|x a IH]; intros b c d E.
  - destruct c as [|y c].
    + left. exists []. cbn in *. auto.
    + right. exists (y :: c). cbn in *. repeat split; auto. discriminate.
  - destruct c as [|y c].
    + left. exists (x :: a). cbn in *. auto.
    + cbn in E. inversion E; subst y. destruct (IH _ _ _ H1) as [(l & A1 & A2)|(l & A0 & A1 & A2)].
      * left. exists l. cbn. split; congruence.
      * right. exists l. cbn. repeat split; congruence.
Qed.

(* whatever prefix w of the sender's octet stream has arrived, the reader has produced a prefix of the
   frames, in order, and nothing else *)
Theorem wire_prefix {F ES DS} (c : wcodec F ES DS) (R : ES -> DS -> Prop) :
  codec_sync c R ->
  forall fs es ds w tail fuel,
  R es ds -> w ++ tail = enc_all c es fs -> (length fs < fuel)%nat ->
  exists fs1 fs2, fs = fs1 ++ fs2 /\ dec_all c fuel ds w = fs1.
Proof.
  intros [EMP SY]. induction fs as [|f fs IH]; intros es ds w tail fuel RR E FU.
  - cbn in E. apply app_eq_nil in E. destruct E as [-> _]. exists [], []. split; [reflexivity|].
    destruct fuel; [reflexivity|]. cbn. rewrite EMP. reflexivity.
  - cbn [enc_all] in E. destruct (wc_enc c es f) as [bs es'] eqn:EN.
    destruct (SY _ _ _ _ _ RR EN) as (NE & DEC & PRE).
    destruct fuel as [|fuel]; [cbn in FU; lia|].
    destruct (app_split _ _ _ _ E) as [(l & A1 & A2)|(l & A0 & A1 & A2)].
    + subst w. destruct (DEC l) as (ds' & D & RR'). cbn [dec_all]. rewrite D.
      destruct (IH es' ds' l tail fuel RR' (eq_sym A2)) as (fs1 & fs2 & S1 & S2); [cbn in FU; lia|].
      exists (f :: fs1), fs2. split; [cbn; congruence|]. rewrite S2. reflexivity.
    + exists [], (f :: fs). split; [reflexivity|]. cbn [dec_all].
      rewrite (PRE w); [reflexivity|]. exists l. auto.
Qed.

Definition frames_of (sid : N) (l : list (N * sframe)) : list sframe :=
  flat_map (fun x => if N.eqb (fst x) sid then [snd x] else []) l.

Lemma frames_of_app sid a b : frames_of sid (a ++ b) = frames_of sid a ++ frames_of sid b.
Proof. unfold frames_of. apply flat_map_app. Qed.

Lemma frames_of_wire sid os : frames_of sid (wire_frames os) = sent sid os.
Proof.
  unfold frames_of, wire_frames, sent. induction os as [|o os IH]; [reflexivity|].
  cbn [flat_map]. rewrite flat_map_app, IH. f_equal.
  destruct o as [s f|s pr h|b]; cbn; try reflexivity. rewrite app_nil_r. reflexivity.
Qed.

Definition no_drop (sid : N) (os : list out) : Prop := handled sid os = sent sid os.

(* the receiver's frame sequence for stream sid carries a prefix of what was submitted on sid *)
Theorem wire_roundtrip {ES DS} (c : wcodec (N * sframe) ES DS) (R : ES -> DS -> Prop) :
  codec_sync c R ->
  forall chain ls st os es ds w tail sid,
  run (init_state chain) ls = ROk st os ->
  R es ds -> w ++ tail = enc_all c es (wire_frames os) ->
  let rx := dec_all c (S (length (wire_frames os))) ds w in
  (exists later, rx ++ later = wire_frames os) /\
  (exists more, payloads (frames_of sid rx) ++ more = payloads (submitted sid ls)) /\
  (no_drop sid os -> exists more, flat (frames_of sid rx) ++ more = flat (submitted sid ls)).
Proof.
  intros SY chain ls st os es ds w tail sid RUN RR E rx.
  destruct (wire_prefix c R SY (wire_frames os) es ds w tail (S (length (wire_frames os))) RR E) as (fs1 & fs2 & S1 & S2);
    [lia|].
  fold rx in S2. subst fs1.
  split; [exists fs2; auto|].
  assert (FR : sent sid os = frames_of sid rx ++ frames_of sid fs2).
  { rewrite <- frames_of_wire, S1, frames_of_app. reflexivity. }
  split.
  - destruct (send_bytes_preserved _ _ _ _ sid RUN) as (_ & (t & B)). rewrite FR, payloads_app in B.
    exists (payloads (frames_of sid fs2) ++ t). rewrite app_assoc. exact B.
  - intros ND. destruct (send_split_preserves _ _ _ _ sid RUN) as (_ & (t & B) & _).
    rewrite ND, FR, flat_app in B. exists (flat (frames_of sid fs2) ++ t). rewrite app_assoc. exact B.
Qed.

(* a (toy) instance showing the interface is inhabited: one octet of length, then the frame number;
   frames are numbers below 256 here *)
Definition toy_codec : wcodec N unit unit :=
  mkWC N unit unit (fun _ f => ([1; f], tt))
       (fun _ bs => match bs with 1 :: f :: rest => Some (f, rest, tt) | _ => None end).

Lemma toy_sync : codec_sync toy_codec (fun _ _ => True).
Proof.
  split; [reflexivity|]. intros es ds f bs es' _ E. cbn in E. inversion E; subst. split; [discriminate|]. split.
  - intros rest. exists tt. auto.
  - intros pre (suf & NE & P). destruct pre as [|a [|b pre]]; cbn in *; try reflexivity.
    + inversion P; subst. reflexivity.
    + inversion P. destruct pre; [|discriminate]. cbn in *. subst suf. congruence.
Qed.

(* ------------------------------------------------------------------------------------------- *)
(* C01, receive side *)

Lemma find_r_id : forall l sid s, find_r sid l = Some s -> rs_id s = sid.
Proof.
  induction l as [|a l IH]; cbn [find_r]; intros sid s H; [discriminate|].
  destruct (N.eqb_spec (rs_id a) sid) as [E|E]; [inversion H; subst; auto | eauto].
Qed.

Lemma find_r_upd : forall l s x,
  find_r x (upd_r s l) =
  if N.eqb (rs_id s) x then match find_r x l with Some _ => Some s | None => None end else find_r x l.
Proof.
  induction l as [|a l IH]; intros s x; cbn [find_r upd_r].
  - destruct (N.eqb (rs_id s) x); reflexivity.
  - destruct (N.eqb_spec (rs_id a) (rs_id s)) as [E|E]; cbn [find_r].
    + destruct (N.eqb_spec (rs_id s) x) as [F|F].
      * rewrite E. destruct (N.eqb_spec (rs_id s) x); [reflexivity|contradiction].
      * rewrite E. destruct (N.eqb_spec (rs_id s) x); [contradiction|reflexivity].
    + rewrite IH. destruct (N.eqb_spec (rs_id a) x) as [F|F]; destruct (N.eqb_spec (rs_id s) x) as [G|G];
        try reflexivity. congruence.
Qed.

Lemma find_r_del : forall l sid x,
  find_r x (del_r sid l) = if N.eqb sid x then None else find_r x l.
Proof.
  unfold del_r. induction l as [|a l IH]; intros sid x; cbn [find_r filter].
  - destruct (N.eqb sid x); reflexivity.
  - destruct (N.eqb_spec (rs_id a) sid) as [E|E]; cbn [negb find_r].
    + rewrite IH. destruct (N.eqb_spec sid x) as [F|F]; [reflexivity|].
      destruct (N.eqb_spec (rs_id a) x); [congruence|reflexivity].
    + rewrite IH. destruct (N.eqb_spec (rs_id a) x) as [F|F]; [|reflexivity].
      destruct (N.eqb_spec sid x); [congruence|reflexivity].
Qed.

Lemma rqueue_upd st sid r0 q x :
  find_r sid st = Some r0 ->
  rqueue_of x (upd_r (mkRS sid q) st) = if N.eqb sid x then q else rqueue_of x st.
Proof.
  intros F. unfold rqueue_of. rewrite find_r_upd. cbn [rs_id].
  destruct (N.eqb_spec sid x) as [E|E]; [subst; rewrite F|]; reflexivity.
Qed.

Lemma taken_dropped sid x q :
  flat_map (taken1 x) (map (RDropped sid) q) = if N.eqb sid x then q else [].
Proof.
  induction q as [|e q IH]; cbn [map flat_map taken1].
  - destruct (N.eqb sid x); reflexivity.
  - rewrite IH. destruct (N.eqb sid x); reflexivity.
Qed.

Lemma lead_skip q : lead_info q ++ skip_info q = q.
Proof. induction q as [|e q IH]; [reflexivity|]. destruct e; cbn; congruence. Qed.

(* one step: what left the queue (delivered or discarded) ++ the new queue = old queue ++ what arrived *)
Lemma rstep_conserve st l st' o x :
  rstep st l = ROkR st' o ->
  taken x o ++ rqueue_of x st' = rqueue_of x st ++ pushed1 x l.
Proof.
  unfold taken. intros S.
  destruct l as [sid|sid|sid info h|sid p eos|sid h|sid h|sid|sid s|sid s|sid s|sid s|sid|sid s]; cbn [rstep pushed1] in S |- *.
  - destruct (find_r sid st) eqn:F; [discriminate|]. inversion S; subst. cbn [flat_map app]. rewrite app_nil_r.
    unfold rqueue_of. cbn [find_r rs_id]. destruct (N.eqb_spec sid x); [subst; rewrite F|]; reflexivity.
  - destruct (find_r sid st) as [r|] eqn:F; [|discriminate]. inversion S; subst. rewrite app_nil_r, taken_dropped.
    unfold rqueue_of. rewrite find_r_del. destruct (N.eqb_spec sid x); [subst; rewrite F, app_nil_r|]; reflexivity.
  - unfold push_ev in S. destruct (find_r sid st) as [r|] eqn:F; [|discriminate]. inversion S; subst.
    cbn [flat_map app]. rewrite (rqueue_upd st sid r _ x F).
    destruct (N.eqb_spec sid x); [subst; unfold rqueue_of; rewrite F; reflexivity|rewrite app_nil_r; reflexivity].
  - destruct (is_nil p && negb eos) eqn:EMP.
    + destruct (find_r sid st); [|discriminate]. inversion S; subst. cbn. rewrite andb_false_r. cbn. rewrite app_nil_r. reflexivity.
    + unfold push_ev in S. destruct (find_r sid st) as [r|] eqn:F; [|discriminate]. inversion S; subst.
      cbn [flat_map app negb]. rewrite andb_true_r. rewrite (rqueue_upd st sid r _ x F).
      destruct (N.eqb_spec sid x); [subst; unfold rqueue_of; rewrite F; reflexivity|rewrite app_nil_r; reflexivity].
  - unfold push_ev in S. destruct (find_r sid st) as [r|] eqn:F; [|discriminate]. inversion S; subst.
    cbn [flat_map app]. rewrite (rqueue_upd st sid r _ x F).
    destruct (N.eqb_spec sid x); [subst; unfold rqueue_of; rewrite F; reflexivity|rewrite app_nil_r; reflexivity].
  - unfold push_ev in S. destruct (find_r sid st) as [r|] eqn:F; [|discriminate]. inversion S; subst.
    cbn [flat_map app]. rewrite (rqueue_upd st sid r _ x F).
    destruct (N.eqb_spec sid x); [subst; unfold rqueue_of; rewrite F; reflexivity|rewrite app_nil_r; reflexivity].
  - destruct (find_r sid st) as [r|] eqn:F; [|discriminate]. inversion S; subst. rewrite app_nil_r, taken_dropped.
    rewrite (rqueue_upd st sid r _ x F).
    destruct (N.eqb_spec sid x); [subst; unfold rqueue_of; rewrite F, app_nil_r|]; reflexivity.
  - destruct (find_r sid st) as [r|] eqn:F; [|discriminate]. rewrite app_nil_r.
    destruct (rs_q r) as [|e q'] eqn:Q.
    + inversion S; subst. unfold on_empty. destruct (ensure_recv_open s) as [|[|]| | | |]; reflexivity.
    + destruct e; inversion S; subst; cbn [flat_map taken1 app]; try reflexivity.
      rewrite (rqueue_upd st sid r _ x F).
      destruct (N.eqb_spec sid x); [subst; unfold rqueue_of; rewrite F, Q; reflexivity|reflexivity].
  - destruct (find_r sid st) as [r|] eqn:F; [|discriminate]. rewrite app_nil_r.
    destruct (rs_q r) as [|e q'] eqn:Q.
    + inversion S; subst. unfold on_empty. destruct (ensure_recv_open s) as [|[|]| | | |]; reflexivity.
    + destruct e; inversion S; subst; cbn [flat_map taken1 app]; try reflexivity.
      rewrite (rqueue_upd st sid r _ x F).
      destruct (N.eqb_spec sid x); [subst; unfold rqueue_of; rewrite F, Q; reflexivity|reflexivity].
  - destruct (find_r sid st) as [r|] eqn:F; [|discriminate]. rewrite app_nil_r.
    pose proof (lead_skip (rs_q r)) as LS.
    assert (TK : forall z, flat_map (taken1 x) (map (RDropped sid) (lead_info (rs_q r)) ++ [z])
                  = (if N.eqb sid x then lead_info (rs_q r) else []) ++ taken1 x z).
    { intros z. rewrite flat_map_app, taken_dropped. cbn. rewrite app_nil_r. reflexivity. }
    destruct (skip_info (rs_q r)) as [|e q'] eqn:SK.
    + destruct (ensure_recv_open s) as [|[|]| | | |]; inversion S; subst; rewrite TK, (rqueue_upd st sid r _ x F);
        cbn [taken1]; rewrite !app_nil_r in *;
        (destruct (N.eqb_spec sid x); [subst; unfold rqueue_of; rewrite F, ?app_nil_r; auto|reflexivity]).
    + destruct e; try discriminate. inversion S; subst. rewrite TK, (rqueue_upd st sid r _ x F). cbn [taken1].
      destruct (N.eqb_spec sid x); [|reflexivity]. subst. unfold rqueue_of. rewrite F.
      cbn [app]. rewrite <- app_assoc. cbn [app]. exact LS.
  - destruct (find_r sid st) as [r|] eqn:F; [|discriminate]. rewrite app_nil_r.
    destruct (rs_q r) as [|e q'] eqn:Q.
    + inversion S; subst. unfold on_empty. destruct (ensure_recv_open s) as [|[|]| | | |]; reflexivity.
    + destruct e; inversion S; subst; cbn [flat_map taken1 app]; try reflexivity;
        try (unfold on_empty; destruct (ensure_recv_open s) as [|[|]| | | |]; reflexivity).
      rewrite (rqueue_upd st sid r _ x F).
      destruct (N.eqb_spec sid x); [subst; unfold rqueue_of; rewrite F, Q; reflexivity|reflexivity].
  - destruct (find_r sid st) as [r|] eqn:F; [|discriminate]. rewrite app_nil_r.
    destruct (rs_q r) as [|e q'] eqn:Q; [discriminate|]. destruct e; try discriminate. inversion S; subst.
    cbn [flat_map taken1 app]. rewrite (rqueue_upd st sid r _ x F).
    destruct (N.eqb_spec sid x); [subst; unfold rqueue_of; rewrite F, Q; reflexivity|reflexivity].
  - destruct (find_r sid st) as [r|] eqn:F; [|discriminate]. inversion S; subst. cbn. rewrite app_nil_r. reflexivity.
Qed.

Lemma pushed_app sid a b : pushed sid (a ++ b) = pushed sid a ++ pushed sid b.
Proof. unfold pushed. apply flat_map_app. Qed.
Lemma taken_app sid a b : taken sid (a ++ b) = taken sid a ++ taken sid b.
Proof. unfold taken. apply flat_map_app. Qed.

Lemma rrun_conserve : forall ls st0 st os sid,
  rrun st0 ls = RROk st os -> taken sid os ++ rqueue_of sid st = rqueue_of sid st0 ++ pushed sid ls.
Proof.
  induction ls as [|l ls IH]; intros st0 st os sid R; cbn [rrun] in R.
  - inversion R; subst. cbn. rewrite app_nil_r. reflexivity.
  - destruct (rstep st0 l) as [st1 o|k|k] eqn:S; try discriminate.
    destruct (rrun st1 ls) as [st2 os'|k r] eqn:R'; [|discriminate]. inversion R; subst st os. clear R.
    rewrite taken_app. change (pushed sid (l :: ls)) with (pushed1 sid l ++ pushed sid ls).
    rewrite <- app_assoc, (IH _ _ _ sid R'), app_assoc, (rstep_conserve _ _ _ _ sid S), app_assoc. reflexivity.
Qed.

(* every event is delivered or (on the application's own request) discarded exactly once, in arrival order *)
Theorem recv_exactly_once : forall ls st os sid,
  rrun [] ls = RROk st os -> taken sid os ++ rqueue_of sid st = pushed sid ls.
Proof. intros ls st os sid R. apply (rrun_conserve ls [] st os sid R). Qed.

Lemma delivered_taken sid os :
  existsb (dropped1 sid) os = false -> delivered sid os = taken sid os.
Proof.
  unfold delivered, taken. induction os as [|o os IH]; [reflexivity|]. cbn [existsb flat_map].
  intros H. apply orb_false_iff in H. destruct H as [H1 H2]. rewrite (IH H2). f_equal.
  destruct o; cbn in *; try reflexivity. rewrite H1. reflexivity.
Qed.

Theorem recv_delivery_in_order : forall ls st os sid,
  rrun [] ls = RROk st os -> existsb (dropped1 sid) os = false ->
  delivered sid os ++ rqueue_of sid st = pushed sid ls.
Proof. intros ls st os sid R D. rewrite (delivered_taken _ _ D). apply recv_exactly_once, R. Qed.

Lemma clean_means_end_stream s :
  ensure_recv_open s = RBool false -> is_recv_end_stream s = true \/ s = ReservedLocal.
Proof.
  destruct s as [| | |a b|a|a|c]; cbn; try discriminate; auto. destruct c; cbn; try discriminate; auto.
Qed.

(* poll_data returns None only when no DATA is at the head; on a drained queue only when the stream
   state says END_STREAM was received (and no error is recorded) - and then everything that arrived has
   been handed out *)
Theorem recv_clean_end : forall ls st os sid s st',
  rrun [] ls = RROk st os ->
  rstep st (RPollData sid s) = ROkR st' [RNone sid] ->
  (forall p q, rqueue_of sid st <> EData p :: q) /\
  (rqueue_of sid st = [] ->
     ensure_recv_open s = RBool false /\ (is_recv_end_stream s = true \/ s = ReservedLocal) /\
     taken sid os = pushed sid ls).
Proof.
  intros ls st os sid s st' R S. cbn [rstep] in S. unfold rqueue_of.
  destruct (find_r sid st) as [r|] eqn:F; [|discriminate].
  destruct (rs_q r) as [|e q'] eqn:Q.
  - split; [intros p q H; discriminate|]. intros _.
    assert (E : ensure_recv_open s = RBool false).
    { unfold on_empty in S. destruct (ensure_recv_open s) as [|[|]| | | |]; inversion S; reflexivity. }
    split; [exact E|]. split; [apply clean_means_end_stream, E|].
    pose proof (recv_exactly_once _ _ _ sid R) as C. unfold rqueue_of in C. rewrite F, Q, app_nil_r in C. exact C.
  - split; [|intros H; discriminate]. intros p q H. inversion H; subst. discriminate.
Qed.

Theorem recv_trailers_clean_end : forall st sid s st',
  rstep st (RPollTrailers sid s) = ROkR st' [RNone sid] ->
  rqueue_of sid st = [] /\ ensure_recv_open s = RBool false.
Proof.
  intros st sid s st' S. cbn [rstep] in S. unfold rqueue_of.
  destruct (find_r sid st) as [r|] eqn:F; [|discriminate].
  destruct (rs_q r) as [|e q'] eqn:Q.
  - split; [reflexivity|]. unfold on_empty in S. destruct (ensure_recv_open s) as [|[|]| | | |]; inversion S; reflexivity.
  - destruct e; discriminate.
Qed.

(* an errored stream never ends cleanly: once the queue is drained the read reports the error *)
Theorem recv_error_never_clean : forall st sid r s e,
  find_r sid st = Some r -> rs_q r = [] -> ensure_recv_open s = RProtoErr e ->
  rstep st (RPollData sid s) = ROkR st [RErr sid] /\ rstep st (RPollTrailers sid s) = ROkR st [RErr sid].
Proof.
  intros st sid r s e F Q E. cbn [rstep]. rewrite F, Q. unfold on_empty. rewrite E. auto.
Qed.

(* ------------------------------------------------------------------------------------------- *)
(* non-vacuity: concrete runs (evaluated by the kernel) *)

Definition hd0 : sframe := FHeaders HkHead [([58;112], [47])] false.

(* two interleaved streams; stream 1's 5-byte END_STREAM body is split by a 1-byte window; the rest
   waits inside the codec, is reclaimed, and goes out after stream 3's DATA; END_STREAM on the last piece *)
Example ex_interleaved_split :
  exists st os,
    run (init_state 256)
      [LNew 1; LNew 3; LQueue 1 hd0; LSendData 1 true [10;11;12;13;14] true; LQueue 3 hd0;
       LSendData 3 true [20;21;22] false;
       LPop 1 16384 5 65535; LPop 3 16384 3 65535;
       LPop 1 16384 1 65535;              (* window of one byte *)
       LPop 3 16384 3 65535;
       LPop 1 16384 4 65534] = ROk st os /\
    wire_frames os = [(1, hd0); (3, hd0); (1, FData [10] false); (3, FData [20;21;22] false);
                      (1, FData [11;12;13;14] true)] /\
    flat (sent 1 os) = flat (submitted 1 [LQueue 1 hd0; LSendData 1 true [10;11;12;13;14] true]) /\
    d_inflight st = IfData 1 /\ queue_of 1 st = [].
Proof. eexists. eexists. vm_compute. repeat split; reflexivity. Qed.

(* a frame at or above the chain threshold stays in Encoder.next while it is written; after the flush it
   moves to last_data_frame and the part beyond max_frame_size is reclaimed to the FRONT of the queue,
   before the trailers *)
Example ex_partial_write_reclaim :
  exists st os,
    run (init_state 2)
      [LNew 1; LQueue 1 hd0; LSendData 1 true [1;2;3;4;5;6;7] false; LQueue 1 (FHeaders HkTrailers [] true);
       LPop 1 3 100 100; LPop 1 3 100 100; LFlushed; LReclaim] = ROk st os /\
    wire_frames os = [(1, hd0); (1, FData [1;2;3] false)] /\
    queue_of 1 st = [FData [4;5;6;7] false; FHeaders HkTrailers [] true] /\
    d_inflight st = IfNothing.
Proof. eexists. eexists. vm_compute. repeat split; reflexivity. Qed.

(* while the rest of the frame is still inside the codec the scheduler cannot take the trailers *)
Example ex_no_overtaking :
  run (init_state 2)
    [LNew 1; LQueue 1 hd0; LSendData 1 true [1;2;3;4;5;6;7] false; LQueue 1 (FHeaders HkTrailers [] true);
     LPop 1 3 100 100; LPop 1 3 100 100; LPop 1 3 100 100] = RFail 6 (Stuck 13).
Proof. vm_compute. reflexivity. Qed.

(* a reset in mid-frame: the queue is cleared, the codec's remainder is dropped (InFlightData::Drop), the
   peer is sent a strict prefix and RST_STREAM, and no END_STREAM *)
Example ex_reset_mid_frame :
  exists st os,
    run (init_state 2)
      [LNew 1; LQueue 1 hd0; LSendData 1 true [1;2;3;4;5;6;7] true;
       LPop 1 3 100 100; LPop 1 3 100 100; LClear 1; LQueue 1 (FReset 8); LFlushed; LPop 1 3 0 0] = ROk st os /\
    wire_frames os = [(1, hd0); (1, FData [1;2;3] false); (1, FReset 8)] /\
    d_inflight st = IfNothing /\ ~ In AEos (flat (sent 1 os)).
Proof.
  eexists. eexists. vm_compute. repeat split; try reflexivity.
  intros [H|[H|[H|[H|[]]]]]; discriminate.
Qed.

(* receive side: head, two body events, trailers; an interleaved second stream; clean end exactly at the end *)
Example ex_recv_in_order :
  exists st os,
    rrun [] [RNew 1; RNew 3; RRecvHeaders 1 false [([58;115], [50])]; RRecvData 1 [1;2] false;
             RRecvData 3 [9] false; RRecvData 1 [] false; RRecvData 1 [3] false; RRecvTrailers 1 [];
             RPollResponse 1 (Open Streaming Streaming); RPollData 1 (Closed EndStream);
             RPollData 3 (Open Streaming Streaming); RPollData 1 (Closed EndStream);
             RPollData 1 (Closed EndStream); RIsEndStream 1 (Closed EndStream);
             RPollTrailers 1 (Closed EndStream);
             RIsEndStream 1 (Closed EndStream); RPollData 1 (Closed EndStream); RPollTrailers 1 (Closed EndStream)]
      = RROk st os /\
    delivered 1 os = [EHead [([58;115], [50])]; EData [1;2]; EData [3]; ETrailers []] /\
    os = [RDeliver 1 (EHead [([58;115], [50])]); RDeliver 1 (EData [1;2]); RDeliver 3 (EData [9]);
          RDeliver 1 (EData [3]); RNone 1; RBoolean 1 false; RDeliver 1 (ETrailers []);
          RBoolean 1 true; RNone 1; RNone 1].
Proof. eexists. eexists. vm_compute. repeat split; reflexivity. Qed.

(* a stream reset before END_STREAM: the queued prefix is still delivered, then the error - never None *)
Example ex_recv_reset_prefix :
  let s' := fst (recv_reset 1 8 false (Open Streaming Streaming)) in
  exists st os,
    rrun [] [RNew 1; RRecvHeaders 1 false []; RRecvData 1 [1;2] false;
             RPollResponse 1 s'; RPollData 1 s'; RPollData 1 s'; RPollTrailers 1 s'] = RROk st os /\
    os = [RDeliver 1 (EHead []); RDeliver 1 (EData [1;2]); RErr 1; RErr 1].
Proof. eexists. eexists. vm_compute. repeat split; reflexivity. Qed.

(* ------------------------------------------------------------------------------------------- *)
(* link to the stream state machine (Properties/StreamState.v, C07/C17): a peer RST_STREAM, a connection
   error or EOF that arrives BEFORE the peer's END_STREAM makes every later read on the drained queue an
   error; after END_STREAM the message was complete and the read ends cleanly *)
From H2V Require Import Proofs.StreamStateProofs.

Theorem recv_reset_never_clean : forall st sid r s rsid reason q,
  find_r sid st = Some r -> rs_q r = [] ->
  is_closed s = false \/ q = true ->
  let s' := fst (recv_reset rsid reason q s) in
  (is_recv_end_stream s = false ->
     rstep st (RPollData sid s') = ROkR st [RErr sid] /\ rstep st (RPollTrailers sid s') = ROkR st [RErr sid]) /\
  (is_recv_end_stream s = true ->
     rstep st (RPollData sid s') = ROkR st [RNone sid] /\ is_recv_end_stream s' = true).
Proof.
  intros st sid r s rsid reason q F Q H s'.
  destruct (recv_reset_surfaces rsid reason q s H) as (_ & _ & _ & _ & A & B). fold s' in A, B. split.
  - intros E. destruct (A E) as (_ & OPEN). exact (recv_error_never_clean st sid r s' _ F Q OPEN).
  - intros E. destruct (B E) as (_ & OPEN & ES). split; [|exact ES]. cbn [rstep]. rewrite F, Q.
    unfold on_empty. rewrite OPEN. reflexivity.
Qed.
