(* C12, write half: proofs about Model/WriteBuf.v (the model of h2's codec/framed_write.rs).

   Main results
     C12_write_no_dup_drop   the octets the transport accepted, followed by what the encoder still
                             owes, are exactly the encodings of the buffered frames, in order
     C12_write_prefix / C12_write_complete / flush_ready_drained   corollaries
     C12_write_zero / run_stops_on_write_zero    a zero-length write is a WriteZero error at once
     C12_send_limit          every frame emitted for a well-formed value (including every
                             CONTINUATION produced by splitting) declares a payload <= max
     C12_send_limit_data_enforced / buffer_data_too_big   where DATA is checked against the limit

   MAX_MAX_FRAME_SIZE is the constant of Gen/FrameConsts.v (2^24 - 1). *)
From H2V Require Import Base.Tac Base.Bytes Gen.FrameConsts Ref.Rfc9113Frame Model.FrameCodec Model.WriteBuf.
Local Open Scope N_scope.

(* ---------------------------------------------------------------------------------------- *)
(* lists measured in N *)

Lemma lenN_nil : lenN [] = 0.
Proof. reflexivity. Qed.

Lemma lenN_cons x l : lenN (x :: l) = 1 + lenN l.
Proof. unfold lenN. cbn [length]. lia. Qed.

Lemma lenN_app a b : lenN (a ++ b) = lenN a + lenN b.
Proof. unfold lenN. rewrite app_length. lia. Qed.

Lemma lenN_zero l : lenN l = 0 -> l = [].
Proof. destruct l as [|x l]; [reflexivity|]. rewrite lenN_cons. lia. Qed.

Lemma olen_lenN l : olen l = lenN l.
Proof. reflexivity. Qed.

Lemma drop_dropN n l : drop n l = dropN n l.
Proof. reflexivity. Qed.

Lemma takeN_dropN n l : takeN n l ++ dropN n l = l.
Proof. apply firstn_skipn. Qed.

Lemma lenN_takeN n l : lenN (takeN n l) = N.min n (lenN l).
Proof. unfold lenN, takeN. rewrite firstn_length. lia. Qed.

Lemma lenN_dropN n l : lenN (dropN n l) = lenN l - n.
Proof. unfold lenN, dropN. rewrite skipn_length. lia. Qed.

Lemma length_dropN_lt n l : 1 <= n -> n < lenN l -> (length (dropN n l) < length l)%nat.
Proof. unfold lenN, dropN. rewrite skipn_length. lia. Qed.

Lemma dropN_all n l : lenN l <= n -> dropN n l = [].
Proof. unfold lenN, dropN. intros H. apply skipn_all2. lia. Qed.

Lemma takeN_all n l : lenN l <= n -> takeN n l = l.
Proof. unfold lenN, takeN. intros H. apply firstn_all2. lia. Qed.

Lemma dropN_0 l : dropN 0 l = l.
Proof. reflexivity. Qed.

Lemma dropN_app n a b : dropN n (a ++ b) = dropN n a ++ dropN (n - lenN a) b.
Proof.
  unfold dropN, lenN. rewrite skipn_app.
  replace (N.to_nat n - length a)%nat with (N.to_nat (n - N.of_nat (length a))) by lia.
  reflexivity.
Qed.

Lemma dropN_app_le n a b : n <= lenN a -> dropN n (a ++ b) = dropN n a ++ b.
Proof. intros H. rewrite dropN_app. replace (n - lenN a) with 0 by lia. reflexivity. Qed.

Lemma takeN_app_le n a b : n <= lenN a -> takeN n (a ++ b) = takeN n a.
Proof.
  unfold takeN, lenN. intros H. rewrite firstn_app.
  replace (N.to_nat n - length a)%nat with 0%nat by lia.
  cbn [firstn]. apply app_nil_r.
Qed.

Lemma skipn_skipn_nat {A} (x y : nat) (l : list A) : skipn x (skipn y l) = skipn (y + x) l.
Proof.
  revert l. induction y as [|y IH]; intros l; [reflexivity|].
  destruct l as [|a l]; cbn [skipn Nat.add].
  - destruct x; reflexivity.
  - apply IH.
Qed.

Lemma dropN_dropN a b l : dropN a (dropN b l) = dropN (b + a) l.
Proof.
  unfold dropN. rewrite skipn_skipn_nat.
  replace (N.to_nat b + N.to_nat a)%nat with (N.to_nat (b + a)) by lia. reflexivity.
Qed.

Lemma is_prefix_app a b : is_prefix a (a ++ b) = true.
Proof.
  induction a as [|x a IH]; [reflexivity|].
  cbn [app is_prefix]. rewrite N.eqb_refl, IH. reflexivity.
Qed.

(* ---------------------------------------------------------------------------------------- *)
(* frame heads *)

Lemma lenN_head_encode k fl sid len : lenN (head_encode k fl sid len) = 9.
Proof. reflexivity. Qed.

Lemma length_head_encode k fl sid len : length (head_encode k fl sid len) = 9%nat.
Proof. reflexivity. Qed.

Lemma has_bit_end_headers : has_bit headers_END_HEADERS headers_END_HEADERS = true.
Proof. reflexivity. Qed.

Lemma declared_length_head k fl sid len x :
  len < 16777216 -> declared_length (head_encode k fl sid len ++ x) = Some len.
Proof.
  intros H. unfold head_encode, enc_u24. cbn [app declared_length]. f_equal. lia.
Qed.

(* ---------------------------------------------------------------------------------------- *)
(* CONTINUATION splitting: total, and the result does not change with the fuel once there is enough of it *)

Lemma continuation_encode_eq max sid rest :
  1 <= max -> max <= MAX_MAX_FRAME_SIZE ->
  continuation_encode max sid rest =
    if max <? lenN rest
    then Ok (head_encode kind_continuation (headers_END_HEADERS - headers_END_HEADERS) sid max
               ++ takeN max rest, Some (dropN max rest))
    else Ok (head_encode kind_continuation headers_END_HEADERS sid (lenN rest) ++ rest, None).
Proof.
  intros H1 H2. unfold MAX_MAX_FRAME_SIZE in H2.
  unfold continuation_encode, header_block_encode, HEADER_LEN.
  destruct (max + 9 <? 9) eqn:E1; [apply N.ltb_lt in E1; lia|].
  replace (max + 9 - 9) with max by lia.
  rewrite lenN_nil.
  destruct (max <? 0) eqn:E2; [apply N.ltb_lt in E2; lia|].
  replace (max - 0) with max by lia.
  destruct (max <? lenN rest) eqn:E3; cbv beta iota.
  - apply N.ltb_lt in E3. rewrite lenN_takeN.
    replace (0 + N.min max (lenN rest)) with max by lia.
    destruct (16777216 <=? max) eqn:E4; [apply N.leb_le in E4; lia|].
    rewrite has_bit_end_headers. reflexivity.
  - apply N.ltb_ge in E3.
    replace (0 + lenN rest) with (lenN rest) by lia.
    destruct (16777216 <=? lenN rest) eqn:E4; [apply N.leb_le in E4; lia|].
    reflexivity.
Qed.

Lemma cont_total max sid :
  1 <= max -> max <= MAX_MAX_FRAME_SIZE ->
  forall f rest, (length rest < f)%nat ->
    exists more, continuations_encode f max sid rest = EOk more.
Proof.
  intros H1 H2. induction f as [|f IH]; intros rest Hf; [lia|].
  cbn [continuations_encode]. rewrite continuation_encode_eq by assumption.
  destruct (max <? lenN rest) eqn:E.
  - apply N.ltb_lt in E.
    destruct (IH (dropN max rest)) as [more Hm].
    { pose proof (length_dropN_lt max rest H1 E). lia. }
    rewrite Hm. eauto.
  - eauto.
Qed.

Lemma cont_fuel max sid :
  1 <= max -> max <= MAX_MAX_FRAME_SIZE ->
  forall f1 f2 rest, (length rest < f1)%nat -> (length rest < f2)%nat ->
    continuations_encode f1 max sid rest = continuations_encode f2 max sid rest.
Proof.
  intros H1 H2. induction f1 as [|f1 IH]; intros f2 rest Hf1 Hf2; [lia|].
  destruct f2 as [|f2]; [lia|].
  cbn [continuations_encode]. rewrite continuation_encode_eq by assumption.
  destruct (max <? lenN rest) eqn:E; [|reflexivity].
  apply N.ltb_lt in E.
  pose proof (length_dropN_lt max rest H1 E) as Hlt.
  rewrite (IH f2 (dropN max rest)) by lia. reflexivity.
Qed.

(* ---------------------------------------------------------------------------------------- *)
(* the invariant of the encoder state *)

Definition winv (max : N) (st : wstate) : Prop :=
  w_max st = max /\ w_pos st <= lenN (w_buf st) /\ 1 <= w_chain st /\
  match w_next st with
  | Some (NData _ _ payload) => payload = [] -> buf_rest st = []
  | _ => True
  end.

Lemma winv_winit vectored max : winv max (winit vectored max).
Proof.
  unfold winv, winit. cbn [w_max w_pos w_buf w_chain w_next].
  split; [reflexivity|]. split; [rewrite lenN_nil; lia|]. split; [|exact I].
  destruct vectored; unfold CHAIN_THRESHOLD, CHAIN_THRESHOLD_WITHOUT_VECTORED_IO; lia.
Qed.

Lemma pending_winit vectored max : pending (winit vectored max) = EOk [].
Proof. reflexivity. Qed.

Lemma has_capacity_next st : has_capacity st = true -> w_next st = None.
Proof.
  unfold has_capacity. intros H. apply andb_prop in H. destruct H as [H _].
  destruct (w_next st); [discriminate H|reflexivity].
Qed.

Lemma pending_none st : w_next st = None -> pending st = EOk (buf_rest st).
Proof. intros H. unfold pending. rewrite H. reflexivity. Qed.

(* [offered] is a prefix of [pending] *)
Lemma offered_prefix st p : pending st = EOk p -> exists x, p = offered st ++ x.
Proof.
  unfold pending, offered.
  destruct (w_next st) as [[sid fl payload|sid rest]|].
  - intros Hp. inversion Hp as [Hp']. clear Hp.
    destruct (w_vectored st).
    + exists []. rewrite app_nil_r. reflexivity.
    + destruct (lenN (buf_rest st) =? 0) eqn:E.
      * apply N.eqb_eq in E. apply lenN_zero in E. rewrite E. exists []. rewrite app_nil_r. reflexivity.
      * exists payload. reflexivity.
  - destruct (continuations_encode (S (length rest)) (w_max st) sid rest) as [more| | |];
      intros Hp; try discriminate Hp.
    inversion Hp. exists more. reflexivity.
  - intros Hp. inversion Hp. exists []. rewrite app_nil_r. reflexivity.
Qed.

Lemma buf_rest_advance st n :
  buf_rest (advance st n) = dropN (N.min n (lenN (buf_rest st))) (buf_rest st).
Proof.
  unfold advance.
  destruct (w_next st) as [[sid fl payload|sid rest]|];
    unfold buf_rest, set_w; cbn [w_pos w_buf]; rewrite dropN_dropN; reflexivity.
Qed.

Lemma advance_spec max st p n :
  winv max st -> pending st = EOk p -> n <= lenN (offered st) ->
  winv max (advance st n) /\
  pending (advance st n) = EOk (dropN n p) /\
  takeN n (offered st) = takeN n p.
Proof.
  intros (Hm & Hpos & Hch & Hnx) Hp Hn.
  assert (Htake : takeN n (offered st) = takeN n p).
  { destruct (offered_prefix st p Hp) as [x Hx]. rewrite Hx. symmetry. apply takeN_app_le. exact Hn. }
  pose proof (buf_rest_advance st n) as Hbr.
  assert (Hlen : lenN (buf_rest st) = lenN (w_buf st) - w_pos st).
  { unfold buf_rest. apply lenN_dropN. }
  split; [|split; [|exact Htake]].
  - (* invariant *)
    unfold winv. rewrite Hbr. clear Hbr Htake.
    unfold advance.
    destruct (w_next st) as [[sid fl payload|sid rest]|];
      unfold set_w; cbn [w_max w_pos w_buf w_chain w_next].
    + split; [exact Hm|]. split; [lia|]. split; [exact Hch|].
      intros Hd. apply (f_equal lenN) in Hd. rewrite lenN_dropN, lenN_nil in Hd.
      apply lenN_zero. rewrite lenN_dropN.
      destruct payload as [|b payload].
      * rewrite (Hnx eq_refl). rewrite lenN_nil. lia.
      * rewrite lenN_cons in Hd. lia.
    + split; [exact Hm|]. split; [lia|]. split; [exact Hch|exact I].
    + split; [exact Hm|]. split; [lia|]. split; [exact Hch|exact I].
  - (* pending *)
    unfold pending in *. unfold offered in Hn.
    assert (Hnx' : w_next (advance st n) =
                   match w_next st with
                   | Some (NData sid fl payload) =>
                       Some (NData sid fl (dropN (n - N.min n (lenN (buf_rest st))) payload))
                   | nx => nx
                   end).
    { unfold advance. destruct (w_next st) as [[sid fl payload|sid rest]|]; reflexivity. }
    assert (Hmx : w_max (advance st n) = w_max st).
    { unfold advance. destruct (w_next st) as [[sid fl payload|sid rest]|]; reflexivity. }
    rewrite Hnx', Hmx, Hbr. clear Hnx' Hmx Hbr.
    destruct (w_next st) as [[sid fl payload|sid rest]|].
    + inversion Hp as [Hp']. f_equal. rewrite dropN_app.
      destruct (N.le_gt_cases n (lenN (buf_rest st))) as [Hle|Hgt].
      * replace (N.min n (lenN (buf_rest st))) with n by lia.
        replace (n - n) with 0 by lia. replace (n - lenN (buf_rest st)) with 0 by lia. reflexivity.
      * replace (N.min n (lenN (buf_rest st))) with (lenN (buf_rest st)) by lia.
        rewrite (dropN_all (lenN (buf_rest st))) by lia.
        rewrite (dropN_all n (buf_rest st)) by lia. reflexivity.
    + destruct (continuations_encode (S (length rest)) (w_max st) sid rest) as [more| | |];
        try discriminate Hp.
      inversion Hp as [Hp']. f_equal.
      replace (N.min n (lenN (buf_rest st))) with n by lia.
      symmetry. apply dropN_app_le. exact Hn.
    + inversion Hp as [Hp']. f_equal.
      replace (N.min n (lenN (buf_rest st))) with n by lia. reflexivity.
Qed.

(* ---------------------------------------------------------------------------------------- *)
(* settle: unset_frame keeps what is owed; it neither diverges nor panics *)

Lemma settle_spec max st p :
  1 <= max -> max <= MAX_MAX_FRAME_SIZE ->
  winv max st -> pending st = EOk p ->
  (exists st', settle st = SDone st' /\ winv max st' /\ p = [] /\ pending st' = EOk [])
  \/ (exists st1, settle st = SBusy st1 /\ winv max st1 /\ pending st1 = EOk p /\ is_empty st1 = false).
Proof.
  intros Hmax1 Hmax2 Hinv Hp.
  unfold settle. destruct (is_empty st) eqn:Hemp.
  2:{ right. exists st. split; [reflexivity|]. split; [exact Hinv|]. split; [exact Hp|exact Hemp]. }
  destruct Hinv as (Hm & Hpos & Hch & Hnx).
  unfold unset_frame. unfold is_empty in Hemp. unfold pending in Hp.
  destruct (w_next st) as [[sid fl payload|sid rest]|] eqn:Hnext.
  - (* Next::Data, payload written *)
    left. apply N.eqb_eq in Hemp. apply lenN_zero in Hemp. subst payload.
    rewrite (Hnx eq_refl) in Hp. cbn [app] in Hp. inversion Hp as [Hp'].
    eexists. split; [reflexivity|].
    split; [|split; reflexivity].
    unfold winv, set_w; cbn [w_max w_pos w_buf w_chain w_next].
    split; [exact Hm|]. split; [rewrite lenN_nil; lia|]. split; [exact Hch|exact I].
  - (* Next::Continuation: the next CONTINUATION frame is encoded *)
    right. apply N.leb_le in Hemp.
    assert (Hbr : buf_rest st = []) by (unfold buf_rest; apply dropN_all; exact Hemp).
    rewrite Hbr in Hp. rewrite Hm in *.
    cbn [continuations_encode] in Hp.
    rewrite continuation_encode_eq in Hp by assumption.
    rewrite continuation_encode_eq by assumption.
    destruct (max <? lenN rest) eqn:E.
    + apply N.ltb_lt in E.
      destruct (continuations_encode (length rest) max sid (dropN max rest)) as [more| | |] eqn:Hc;
        try discriminate Hp.
      inversion Hp as [Hp']. clear Hp.
      cbn [option_map app].
      match goal with |- exists st1, (if is_empty ?s then _ else _) = _ /\ _ =>
        assert (He : is_empty s = false)
      end.
      { unfold is_empty, set_w; cbn [w_next w_buf w_pos].
        apply N.leb_gt. rewrite lenN_app, lenN_head_encode. lia. }
      rewrite He. eexists. split; [reflexivity|]. split; [|split; [|exact He]].
      * unfold winv, set_w; cbn [w_max w_pos w_buf w_chain w_next].
        split; [exact Hm|]. split; [lia|]. split; [exact Hch|exact I].
      * unfold pending, set_w; cbn [w_next w_max]. unfold buf_rest; cbn [w_pos w_buf].
        rewrite Hm.
        pose proof (length_dropN_lt max rest Hmax1 E) as Hlt.
        rewrite (cont_fuel max sid Hmax1 Hmax2 (S (length (dropN max rest))) (length rest)) by lia.
        rewrite Hc. rewrite dropN_0. reflexivity.
    + inversion Hp as [Hp']. clear Hp.
      cbn [option_map app].
      match goal with |- exists st1, (if is_empty ?s then _ else _) = _ /\ _ =>
        assert (He : is_empty s = false)
      end.
      { unfold is_empty, set_w; cbn [w_next w_buf w_pos].
        apply N.leb_gt. rewrite lenN_app, lenN_head_encode. lia. }
      rewrite He. eexists. split; [reflexivity|]. split; [|split; [|exact He]].
      * unfold winv, set_w; cbn [w_max w_pos w_buf w_chain w_next].
        split; [exact Hm|]. split; [lia|]. split; [exact Hch|exact I].
      * unfold pending, set_w; cbn [w_next]. unfold buf_rest; cbn [w_pos w_buf].
        rewrite dropN_0. reflexivity.
  - (* nothing in flight, buffer written *)
    left. apply N.leb_le in Hemp.
    assert (Hbr : buf_rest st = []) by (unfold buf_rest; apply dropN_all; exact Hemp).
    rewrite Hbr in Hp. inversion Hp as [Hp'].
    eexists. split; [reflexivity|].
    split; [|split; reflexivity].
    unfold winv, set_w; cbn [w_max w_pos w_buf w_chain w_next].
    split; [exact Hm|]. split; [rewrite lenN_nil; lia|]. split; [exact Hch|exact I].
Qed.

Lemma settle_never_diverges max st p :
  1 <= max -> max <= MAX_MAX_FRAME_SIZE ->
  winv max st -> pending st = EOk p ->
  settle st <> SDiverge /\ settle st <> SPanic.
Proof.
  intros H1 H2 Hinv Hp.
  destruct (settle_spec max st p H1 H2 Hinv Hp) as [(st' & Hs & _)|(st1 & Hs & _)];
    rewrite Hs; split; discriminate.
Qed.

(* ---------------------------------------------------------------------------------------- *)
(* flush *)

Lemma flush_spec max :
  1 <= max -> max <= MAX_MAX_FRAME_SIZE ->
  forall script st p st' ws r rest,
    winv max st -> pending st = EOk p ->
    flush st script = (st', ws, r, rest) ->
    winv max st' /\
    exists p', pending st' = EOk p' /\ concat ws ++ p' = p /\
               (r = FReady -> p' = []) /\ r <> FDiverge /\ r <> FPanic.
Proof.
  intros Hmax1 Hmax2.
  induction script as [|t script IH]; intros st p st' ws r rest Hinv Hp Hf.
  - cbn [flush] in Hf.
    destruct (settle_spec max st p Hmax1 Hmax2 Hinv Hp)
      as [(s & Hs & Hi & Hpe & Hps)|(s & Hs & Hi & Hps & _)]; rewrite Hs in Hf;
      inversion Hf; subst; clear Hf.
    + split; [exact Hi|]. exists []. cbn [concat app].
      repeat split; try reflexivity; try discriminate. exact Hps.
    + split; [exact Hi|]. exists p. cbn [concat app].
      repeat split; try reflexivity; try discriminate. exact Hps.
  - cbn [flush] in Hf.
    destruct (settle_spec max st p Hmax1 Hmax2 Hinv Hp)
      as [(s & Hs & Hi & Hpe & Hps)|(s & Hs & Hi & Hps & _)]; rewrite Hs in Hf.
    + inversion Hf; subst; clear Hf.
      split; [exact Hi|]. exists []. cbn [concat app].
      repeat split; try reflexivity; try discriminate. exact Hps.
    + destruct t as [k| | |].
      * (* TAccept k *)
        destruct (N.min k (lenN (offered s)) =? 0) eqn:En.
        { inversion Hf; subst; clear Hf.
          split; [exact Hi|]. exists p. cbn [concat app].
          repeat split; try reflexivity; try discriminate. exact Hps. }
        apply N.eqb_neq in En.
        destruct (flush (advance s (N.min k (lenN (offered s)))) script)
          as [[[st2 ws2] r2] rest2] eqn:Hf2.
        inversion Hf; subst; clear Hf.
        destruct (advance_spec max s p (N.min k (lenN (offered s))) Hi Hps) as (Hia & Hpa & Htk).
        { lia. }
        destruct (IH _ _ _ _ _ _ Hia Hpa Hf2) as (Hi2 & p2 & Hp2 & Hcat & Hrdy & Hnd & Hnp).
        split; [exact Hi2|]. exists p2.
        split; [exact Hp2|]. split; [|split; [exact Hrdy|split; [exact Hnd|exact Hnp]]].
        cbn [concat]. rewrite <- app_assoc, Hcat, Htk. apply takeN_dropN.
      * inversion Hf; subst; clear Hf.
        split; [exact Hi|]. exists p. cbn [concat app].
        repeat split; try reflexivity; try discriminate. exact Hps.
      * inversion Hf; subst; clear Hf.
        split; [exact Hi|]. exists p. cbn [concat app].
        repeat split; try reflexivity; try discriminate. exact Hps.
      * inversion Hf; subst; clear Hf.
        split; [exact Hi|]. exists p. cbn [concat app].
        repeat split; try reflexivity; try discriminate. exact Hps.
Qed.

Lemma flush_ready_drained max st p script st' ws rest :
  1 <= max -> max <= MAX_MAX_FRAME_SIZE ->
  winv max st -> pending st = EOk p ->
  flush st script = (st', ws, FReady, rest) ->
  pending st' = EOk [].
Proof.
  intros H1 H2 Hinv Hp Hf.
  destruct (flush_spec max H1 H2 script st p st' ws FReady rest Hinv Hp Hf)
    as (_ & p' & Hp' & _ & Hr & _).
  rewrite Hp', (Hr eq_refl). reflexivity.
Qed.

Lemma poll_ready_spec max :
  1 <= max -> max <= MAX_MAX_FRAME_SIZE ->
  forall script st p st' ws r rest,
    winv max st -> pending st = EOk p ->
    poll_ready st script = (st', ws, r, rest) ->
    winv max st' /\
    exists p', pending st' = EOk p' /\ concat ws ++ p' = p /\ r <> FDiverge /\ r <> FPanic.
Proof.
  intros Hmax1 Hmax2 script st p st' ws r rest Hinv Hp Hpr.
  unfold poll_ready in Hpr.
  destruct (has_capacity st) eqn:Hcap.
  - inversion Hpr; subst; clear Hpr. split; [exact Hinv|]. exists p. cbn [concat app].
    repeat split; try reflexivity; try discriminate. exact Hp.
  - destruct (flush st script) as [[[st1 ws1] r1] rest1] eqn:Hf.
    destruct (flush_spec max Hmax1 Hmax2 script st p st1 ws1 r1 rest1 Hinv Hp Hf)
      as (Hi1 & p1 & Hp1 & Hcat & _ & Hnd & Hnp).
    destruct r1; injection Hpr as E1 E2 E3 E4; subst st' ws r rest;
      (split; [exact Hi1|]; exists p1; split; [exact Hp1|]; split; [exact Hcat|]);
      try (split; discriminate); try (split; [exact Hnd|exact Hnp]).
    destruct (has_capacity st1); split; discriminate.
Qed.

(* ---------------------------------------------------------------------------------------- *)
(* Encoder::buffer appends exactly the encoding of the frame to what is owed *)

Lemma BOk_inj a b : BOk a = BOk b -> a = b.
Proof. intros H. injection H as H. exact H. Qed.

Lemma append_rest max st bytes buf' cap nx :
  winv max st -> buf' = w_buf st ++ bytes ->
  buf_rest (set_w st buf' (w_pos st) cap nx) = buf_rest st ++ bytes.
Proof.
  intros (_ & Hpos & _) ->. unfold buf_rest, set_w; cbn [w_pos w_buf].
  apply dropN_app_le. exact Hpos.
Qed.

Lemma append_winv max st bytes buf' cap nx :
  winv max st -> buf' = w_buf st ++ bytes ->
  match nx with Some (NData _ _ payload) => payload <> [] | _ => True end ->
  winv max (set_w st buf' (w_pos st) cap nx).
Proof.
  intros (Hm & Hpos & Hch & _) -> Hnx.
  unfold winv, set_w; cbn [w_max w_pos w_buf w_chain w_next].
  split; [exact Hm|]. split; [rewrite lenN_app; lia|]. split; [exact Hch|].
  destruct nx as [[sid fl payload|sid rest]|]; try exact I.
  intros Hnil. contradiction.
Qed.

Lemma append_direct_spec max st bytes pieces st' :
  winv max st -> append_direct st bytes pieces None = BOk st' ->
  winv max st' /\ pending st' = EOk (buf_rest st ++ bytes).
Proof.
  intros Hinv Ha. unfold append_direct in Ha. apply BOk_inj in Ha. subst st'.
  split.
  - apply (append_winv max st bytes); [exact Hinv|reflexivity|exact I].
  - rewrite pending_none by reflexivity.
    rewrite (append_rest max st bytes); [reflexivity|exact Hinv|reflexivity].
Qed.

Lemma append_limited_spec max st r sid st' :
  1 <= max -> max <= MAX_MAX_FRAME_SIZE ->
  winv max st -> append_limited st r sid = BOk st' ->
  winv max st' /\
  exists e, with_continuations max sid r = EOk e /\ pending st' = EOk (buf_rest st ++ e).
Proof.
  intros Hmax1 Hmax2 Hinv Ha.
  destruct r as [[bytes [rest|]]|e|]; cbn [append_limited option_map] in Ha;
    try discriminate Ha; apply BOk_inj in Ha; subst st'.
  - split; [apply (append_winv max st bytes); [exact Hinv|reflexivity|exact I]|].
    destruct (cont_total max sid Hmax1 Hmax2 (S (length rest)) rest) as [more Hm]; [lia|].
    exists (bytes ++ more). cbn [with_continuations]. rewrite Hm. split; [reflexivity|].
    unfold pending.
    rewrite (append_rest max st bytes) by (try exact Hinv; reflexivity).
    unfold set_w; cbn [w_next w_max].
    destruct Hinv as (Hmx & _). rewrite Hmx, Hm. rewrite app_assoc. reflexivity.
  - split; [apply (append_winv max st bytes); [exact Hinv|reflexivity|exact I]|].
    exists bytes. cbn [with_continuations]. split; [reflexivity|].
    rewrite pending_none by reflexivity.
    rewrite (append_rest max st bytes); [reflexivity|exact Hinv|reflexivity].
Qed.

Lemma buffer_spec max st p f st' :
  1 <= max -> max <= MAX_MAX_FRAME_SIZE ->
  winv max st -> pending st = EOk p -> buffer st f = BOk st' ->
  winv max st' /\ exists e, encode max f = EOk e /\ pending st' = EOk (p ++ e).
Proof.
  intros Hmax1 Hmax2 Hinv Hp Hb.
  unfold buffer in Hb. destruct (has_capacity st) eqn:Hcap; cbn [negb] in Hb; [|discriminate Hb].
  pose proof (has_capacity_next st Hcap) as Hnone.
  rewrite (pending_none st Hnone) in Hp. injection Hp as Hp. subst p.
  pose proof Hinv as (Hmx & Hpos & Hch & _).
  destruct f as [sid flags pad data|sid flags dep block|sid dep|sid flags promised block|s
                |ack payload|last code debug|sid inc|sid code]; cbn [encode].
  - (* DATA *)
    destruct (w_max st <? lenN data) eqn:Ebig; [discriminate Hb|].
    destruct (w_chain st <=? lenN data) eqn:Echain.
    + apply N.leb_le in Echain.
      destruct (lenN (w_buf st ++ head_encode kind_data flags sid (lenN data)) <? w_chain st) eqn:Ecopy.
      * (* chained, a bit of the payload copied behind the head *)
        apply N.ltb_lt in Ecopy. rewrite lenN_app, lenN_head_encode in Ecopy.
        apply BOk_inj in Hb. subst st'.
        set (extra := w_chain st - (lenN (w_buf st ++ head_encode kind_data flags sid (lenN data)) - w_pos st)).
        assert (Hextra : extra < lenN data).
        { unfold extra. rewrite lenN_app, lenN_head_encode. lia. }
        split.
        -- apply (append_winv max st (head_encode kind_data flags sid (lenN data) ++ takeN extra data));
             [exact Hinv|rewrite app_assoc; reflexivity|].
           intros Hnil. apply (f_equal lenN) in Hnil. rewrite lenN_dropN, lenN_nil in Hnil. lia.
        -- exists (data_encode sid flags data). split; [reflexivity|].
           unfold pending.
           rewrite (append_rest max st (head_encode kind_data flags sid (lenN data) ++ takeN extra data))
             by (try exact Hinv; rewrite app_assoc; reflexivity).
           unfold set_w; cbn [w_next]. unfold data_encode.
           rewrite <- !app_assoc. rewrite takeN_dropN. reflexivity.
      * (* chained, head only *)
        apply BOk_inj in Hb. subst st'.
        split.
        -- apply (append_winv max st (head_encode kind_data flags sid (lenN data)));
             [exact Hinv|reflexivity|].
           intros Hnil. rewrite Hnil, lenN_nil in Echain. lia.
        -- exists (data_encode sid flags data). split; [reflexivity|].
           unfold pending.
           rewrite (append_rest max st (head_encode kind_data flags sid (lenN data)))
             by (try exact Hinv; reflexivity).
           unfold set_w; cbn [w_next]. unfold data_encode.
           rewrite <- !app_assoc. reflexivity.
    + destruct (append_direct_spec max st _ _ st' Hinv Hb) as (Hi & Hpe).
      split; [exact Hi|]. eexists. split; [reflexivity|exact Hpe].
  - (* HEADERS *)
    rewrite Hmx in Hb.
    destruct (append_limited_spec max st _ sid st' Hmax1 Hmax2 Hinv Hb) as (Hi & e & He & Hpe).
    split; [exact Hi|]. exists e. split; [exact He|exact Hpe].
  - discriminate Hb.
  - (* PUSH_PROMISE *)
    rewrite Hmx in Hb.
    destruct (append_limited_spec max st _ sid st' Hmax1 Hmax2 Hinv Hb) as (Hi & e & He & Hpe).
    split; [exact Hi|]. exists e. split; [exact He|exact Hpe].
  - destruct (append_direct_spec max st _ _ st' Hinv Hb) as (Hi & Hpe).
    split; [exact Hi|]. eexists. split; [reflexivity|exact Hpe].
  - destruct (append_direct_spec max st _ _ st' Hinv Hb) as (Hi & Hpe).
    split; [exact Hi|]. eexists. split; [reflexivity|exact Hpe].
  - destruct (append_direct_spec max st _ _ st' Hinv Hb) as (Hi & Hpe).
    split; [exact Hi|]. eexists. split; [reflexivity|exact Hpe].
  - destruct (append_direct_spec max st _ _ st' Hinv Hb) as (Hi & Hpe).
    split; [exact Hi|]. eexists. split; [reflexivity|exact Hpe].
  - destruct (append_direct_spec max st _ _ st' Hinv Hb) as (Hi & Hpe).
    split; [exact Hi|]. eexists. split; [reflexivity|exact Hpe].
Qed.

(* ---------------------------------------------------------------------------------------- *)
(* run *)

Lemma buffered_frames_nil ops : buffered_frames ops [] = [].
Proof. destruct ops as [|[|f|] ops]; reflexivity. Qed.

Lemma run_spec max :
  1 <= max -> max <= MAX_MAX_FRAME_SIZE ->
  forall ops st script p st' ws os,
    winv max st -> pending st = EOk p ->
    run ops st script = (st', ws, os) ->
    winv max st' /\
    exists e p', encode_all max (buffered_frames ops os) = EOk e /\
                 pending st' = EOk p' /\ concat ws ++ p' = p ++ e.
Proof.
  intros Hmax1 Hmax2.
  induction ops as [|o ops IH]; intros st script p st' ws os Hinv Hp Hr.
  - cbn [run] in Hr. injection Hr as E1 E2 E3. subst st' ws os.
    split; [exact Hinv|]. exists [], p. cbn [buffered_frames encode_all concat app].
    split; [reflexivity|]. split; [exact Hp|]. rewrite app_nil_r. reflexivity.
  - destruct o as [|f|]; cbn [run] in Hr.
    + (* poll_ready *)
      destruct (poll_ready st script) as [[[st1 ws1] r] script'] eqn:Hpr.
      destruct (poll_ready_spec max Hmax1 Hmax2 script st p st1 ws1 r script' Hinv Hp Hpr)
        as (Hi1 & p1 & Hp1 & Hcat1 & _).
      destruct (fres_fatal r) eqn:Hfatal.
      * injection Hr as E1 E2 E3. subst st' ws os.
        split; [exact Hi1|]. exists [], p1.
        cbn [buffered_frames]. rewrite buffered_frames_nil. cbn [encode_all].
        split; [reflexivity|]. split; [exact Hp1|]. rewrite app_nil_r. exact Hcat1.
      * destruct (run ops st1 script') as [[st2 ws2] os2] eqn:Hr2.
        injection Hr as E1 E2 E3. subst st' ws os.
        destruct (IH st1 script' p1 st2 ws2 os2 Hi1 Hp1 Hr2) as (Hi2 & e & p2 & He & Hp2 & Hcat2).
        split; [exact Hi2|]. exists e, p2. cbn [buffered_frames].
        split; [exact He|]. split; [exact Hp2|].
        rewrite concat_app, <- app_assoc, Hcat2, app_assoc, Hcat1. reflexivity.
    + (* buffer *)
      destruct (buffer st f) as [st1| |] eqn:Hb.
      * destruct (buffer_spec max st p f st1 Hmax1 Hmax2 Hinv Hp Hb) as (Hi1 & ef & Hef & Hp1).
        destruct (run ops st1 script) as [[st2 ws2] os2] eqn:Hr2.
        injection Hr as E1 E2 E3. subst st' ws os.
        destruct (IH st1 script (p ++ ef) st2 ws2 os2 Hi1 Hp1 Hr2) as (Hi2 & e & p2 & He & Hp2 & Hcat2).
        split; [exact Hi2|]. exists (ef ++ e), p2. cbn [buffered_frames encode_all].
        rewrite Hef, He.
        split; [reflexivity|]. split; [exact Hp2|]. rewrite Hcat2, app_assoc. reflexivity.
      * destruct (run ops st script) as [[st2 ws2] os2] eqn:Hr2.
        injection Hr as E1 E2 E3. subst st' ws os.
        destruct (IH st script p st2 ws2 os2 Hinv Hp Hr2) as (Hi2 & e & p2 & He & Hp2 & Hcat2).
        split; [exact Hi2|]. exists e, p2. cbn [buffered_frames].
        split; [exact He|]. split; [exact Hp2|exact Hcat2].
      * injection Hr as E1 E2 E3. subst st' ws os.
        split; [exact Hinv|]. exists [], p.
        cbn [buffered_frames]. rewrite buffered_frames_nil. cbn [encode_all concat app].
        split; [reflexivity|]. split; [exact Hp|]. rewrite app_nil_r. reflexivity.
    + (* flush *)
      destruct (flush st script) as [[[st1 ws1] r] script'] eqn:Hfl.
      destruct (flush_spec max Hmax1 Hmax2 script st p st1 ws1 r script' Hinv Hp Hfl)
        as (Hi1 & p1 & Hp1 & Hcat1 & _).
      destruct (fres_fatal r) eqn:Hfatal.
      * injection Hr as E1 E2 E3. subst st' ws os.
        split; [exact Hi1|]. exists [], p1.
        cbn [buffered_frames]. rewrite buffered_frames_nil. cbn [encode_all].
        split; [reflexivity|]. split; [exact Hp1|]. rewrite app_nil_r. exact Hcat1.
      * destruct (run ops st1 script') as [[st2 ws2] os2] eqn:Hr2.
        injection Hr as E1 E2 E3. subst st' ws os.
        destruct (IH st1 script' p1 st2 ws2 os2 Hi1 Hp1 Hr2) as (Hi2 & e & p2 & He & Hp2 & Hcat2).
        split; [exact Hi2|]. exists e, p2. cbn [buffered_frames].
        split; [exact He|]. split; [exact Hp2|].
        rewrite concat_app, <- app_assoc, Hcat2, app_assoc, Hcat1. reflexivity.
Qed.

(* ---------------------------------------------------------------------------------------- *)
(* C12, write half *)

Theorem C12_write_no_dup_drop :
  forall vectored max ops script st' ws os,
    1 <= max -> max <= MAX_MAX_FRAME_SIZE ->
    run ops (winit vectored max) script = (st', ws, os) ->
    exists total rest,
      encode_all max (buffered_frames ops os) = EOk total /\
      pending st' = EOk rest /\
      concat ws ++ rest = total.
Proof.
  intros vectored max ops script st' ws os H1 H2 Hr.
  destruct (run_spec max H1 H2 ops (winit vectored max) script [] st' ws os
              (winv_winit vectored max) (pending_winit vectored max) Hr)
    as (_ & e & p' & He & Hp' & Hcat).
  exists e, p'. split; [exact He|]. split; [exact Hp'|exact Hcat].
Qed.

Theorem C12_write_prefix :
  forall vectored max ops script st' ws os,
    1 <= max -> max <= MAX_MAX_FRAME_SIZE ->
    run ops (winit vectored max) script = (st', ws, os) ->
    exists total,
      encode_all max (buffered_frames ops os) = EOk total /\
      is_prefix (concat ws) total = true.
Proof.
  intros vectored max ops script st' ws os H1 H2 Hr.
  destruct (C12_write_no_dup_drop vectored max ops script st' ws os H1 H2 Hr)
    as (total & rest & He & _ & Hcat).
  exists total. split; [exact He|]. rewrite <- Hcat. apply is_prefix_app.
Qed.

Theorem C12_write_complete :
  forall vectored max ops script st' ws os,
    1 <= max -> max <= MAX_MAX_FRAME_SIZE ->
    run ops (winit vectored max) script = (st', ws, os) ->
    pending st' = EOk [] ->
    encode_all max (buffered_frames ops os) = EOk (concat ws).
Proof.
  intros vectored max ops script st' ws os H1 H2 Hr Hp.
  destruct (C12_write_no_dup_drop vectored max ops script st' ws os H1 H2 Hr)
    as (total & rest & He & Hp' & Hcat).
  rewrite Hp in Hp'. injection Hp' as Hp'. subst rest.
  rewrite app_nil_r in Hcat. rewrite Hcat. exact He.
Qed.

(* the invariant holds in every state a run reaches, so [flush_ready_drained] applies there *)
Lemma run_winv :
  forall vectored max ops script st' ws os,
    1 <= max -> max <= MAX_MAX_FRAME_SIZE ->
    run ops (winit vectored max) script = (st', ws, os) ->
    winv max st' /\ exists p, pending st' = EOk p.
Proof.
  intros vectored max ops script st' ws os H1 H2 Hr.
  destruct (run_spec max H1 H2 ops (winit vectored max) script [] st' ws os
              (winv_winit vectored max) (pending_winit vectored max) Hr)
    as (Hi & e & p' & _ & Hp' & _).
  split; [exact Hi|]. exists p'. exact Hp'.
Qed.

(* ---------------------------------------------------------------------------------------- *)
(* WriteZero *)

Theorem C12_write_zero : forall st st1 script,
  settle st = SBusy st1 ->
  flush st (TZero :: script) = (st1, [], FWriteZero, script) /\
  flush st (TAccept 0 :: script) = (st1, [], FWriteZero, script).
Proof.
  intros st st1 script Hs. split; cbn [flush]; rewrite Hs; [reflexivity|].
  rewrite N.min_0_l. rewrite N.eqb_refl. reflexivity.
Qed.

(* more generally: whenever the transport takes nothing of a non-settled encoder *)
Lemma flush_accept_nothing st st1 k script :
  settle st = SBusy st1 -> N.min k (lenN (offered st1)) = 0 ->
  flush st (TAccept k :: script) = (st1, [], FWriteZero, script).
Proof.
  intros Hs Hk. cbn [flush]. rewrite Hs, Hk, N.eqb_refl. reflexivity.
Qed.

Lemma fres_fatal_write_zero : fres_fatal FWriteZero = true.
Proof. reflexivity. Qed.

Lemma run_stops_on_write_zero : forall ops st script st1 ws rest,
  flush st script = (st1, ws, FWriteZero, rest) ->
  run (OpFlush :: ops) st script = (st1, ws, [ObFlush FWriteZero]).
Proof. intros ops st script st1 ws rest Hf. cbn [run]. rewrite Hf. reflexivity. Qed.

Lemma run_stops_on_write_zero_poll : forall ops st script st1 ws rest,
  poll_ready st script = (st1, ws, FWriteZero, rest) ->
  run (OpPollReady :: ops) st script = (st1, ws, [ObPoll FWriteZero]).
Proof. intros ops st script st1 ws rest Hf. cbn [run]. rewrite Hf. reflexivity. Qed.

(* ---------------------------------------------------------------------------------------- *)
(* the size limit: every emitted frame declares a payload <= max *)

(* [framed max bs]: bs is a sequence of frames (9 octet head with the true payload length, then
   the payload), every payload at most [max] octets *)
Inductive framed (max : N) : list N -> Prop :=
| framed_nil : framed max []
| framed_cons k fl sid payload more :
    lenN payload <= max -> framed max more ->
    framed max (head_encode k fl sid (lenN payload) ++ payload ++ more).

Lemma framed_one max k fl sid len payload more :
  len = lenN payload -> len <= max -> framed max more ->
  framed max ((head_encode k fl sid len ++ payload) ++ more).
Proof. intros -> H1 H2. rewrite <- app_assoc. constructor; assumption. Qed.

Lemma framed_single max k fl sid len payload :
  len = lenN payload -> len <= max ->
  framed max (head_encode k fl sid len ++ payload).
Proof.
  intros Hl H1. rewrite <- (app_nil_r (head_encode k fl sid len ++ payload)).
  apply framed_one; [exact Hl|exact H1|constructor].
Qed.

Lemma payload_lengths_unfold fuel bs :
  bs <> [] ->
  payload_lengths (S fuel) bs =
    match declared_length bs with
    | None => None
    | Some len =>
        if 9 + len <=? olen bs
        then option_map (cons len) (payload_lengths fuel (drop (9 + len) bs))
        else None
    end.
Proof. destruct bs as [|b bs]; [congruence|reflexivity]. Qed.

Lemma framed_payload_lengths max bs :
  max <= MAX_MAX_FRAME_SIZE -> framed max bs ->
  forall fuel, (length bs < fuel)%nat ->
    exists ls, payload_lengths fuel bs = Some ls /\ forallb (fun l => l <=? max) ls = true.
Proof.
  intros Hmax Hf. unfold MAX_MAX_FRAME_SIZE in Hmax.
  induction Hf as [|k fl sid payload more Hle Hmore IH]; intros fuel Hfuel.
  - destruct fuel as [|fuel]; [lia|]. exists []. split; reflexivity.
  - destruct fuel as [|fuel]; [lia|].
    rewrite payload_lengths_unfold.
    2:{ intros Hnil. apply (f_equal (@length N)) in Hnil.
        rewrite app_length, length_head_encode in Hnil. cbn [length] in Hnil. lia. }
    rewrite declared_length_head by lia.
    change olen with lenN. change drop with dropN.
    rewrite !lenN_app, lenN_head_encode.
    destruct (9 + lenN payload <=? 9 + (lenN payload + lenN more)) eqn:E;
      [|apply N.leb_gt in E; lia].
    rewrite app_assoc, dropN_app.
    rewrite dropN_all by (rewrite lenN_app, lenN_head_encode; lia).
    rewrite lenN_app, lenN_head_encode.
    replace (9 + lenN payload - (9 + lenN payload)) with 0 by lia.
    rewrite dropN_0. cbn [app].
    destruct (IH fuel) as (ls & Hls & Hall).
    { rewrite !app_length, length_head_encode in Hfuel. lia. }
    rewrite Hls. cbn [option_map]. eexists. split; [reflexivity|].
    cbn [forallb]. rewrite Hall, andb_true_r. apply N.leb_le. exact Hle.
Qed.

Lemma framed_all_payloads_le max bs :
  max <= MAX_MAX_FRAME_SIZE -> framed max bs -> all_payloads_le max bs = true.
Proof.
  intros Hmax Hf. unfold all_payloads_le.
  destruct (framed_payload_lengths max bs Hmax Hf (S (length bs))) as (ls & Hls & Hall); [lia|].
  rewrite Hls. exact Hall.
Qed.

Lemma cont_framed max sid :
  1 <= max -> max <= MAX_MAX_FRAME_SIZE ->
  forall f rest more, continuations_encode f max sid rest = EOk more -> framed max more.
Proof.
  intros H1 H2. induction f as [|f IH]; intros rest more Hc; [discriminate Hc|].
  cbn [continuations_encode] in Hc. rewrite continuation_encode_eq in Hc by assumption.
  destruct (max <? lenN rest) eqn:E.
  - apply N.ltb_lt in E.
    destruct (continuations_encode f max sid (dropN max rest)) as [more'| | |] eqn:Hc';
      try discriminate Hc.
    injection Hc as Hc. subst more.
    apply framed_one; [rewrite lenN_takeN; lia|lia|exact (IH _ _ Hc')].
  - apply N.ltb_ge in E. injection Hc as Hc. subst more.
    apply framed_single; [reflexivity|exact E].
Qed.

(* the first frame of a header block (HEADERS / PUSH_PROMISE) *)
Lemma header_block_encode_framed max k flags sid prefix block bytes cont :
  lenN prefix <= max ->
  header_block_encode k flags sid prefix block (max + HEADER_LEN) = Ok (bytes, cont) ->
  exists fl' payload, bytes = head_encode k fl' sid (lenN payload) ++ payload /\ lenN payload <= max.
Proof.
  intros Hpre. unfold header_block_encode, HEADER_LEN.
  destruct (max + 9 <? 9) eqn:E1; [discriminate|].
  replace (max + 9 - 9) with max by lia.
  destruct (max <? lenN prefix) eqn:E2; [discriminate|].
  destruct (max - lenN prefix <? lenN block) eqn:E3; cbv beta iota.
  - apply N.ltb_lt in E3.
    destruct (16777216 <=? lenN prefix + lenN (takeN (max - lenN prefix) block)); [discriminate|].
    destruct (has_bit flags headers_END_HEADERS); [|discriminate].
    intros H. injection H as H _. subst bytes.
    exists (flags - headers_END_HEADERS), (prefix ++ takeN (max - lenN prefix) block).
    rewrite lenN_app. split; [reflexivity|]. rewrite lenN_takeN. lia.
  - apply N.ltb_ge in E3.
    destruct (16777216 <=? lenN prefix + lenN block); [discriminate|].
    intros H. injection H as H _. subst bytes.
    exists flags, (prefix ++ block).
    rewrite lenN_app. split; [reflexivity|]. lia.
Qed.

Lemma with_continuations_framed max k flags sid prefix block bs :
  1 <= max -> max <= MAX_MAX_FRAME_SIZE -> lenN prefix <= max ->
  with_continuations max sid (header_block_encode k flags sid prefix block (max + HEADER_LEN)) = EOk bs ->
  framed max bs.
Proof.
  intros H1 H2 Hpre Hw.
  destruct (header_block_encode k flags sid prefix block (max + HEADER_LEN))
    as [[bytes [rest|]]|e|] eqn:Hh; cbn [with_continuations] in Hw; try discriminate Hw.
  - destruct (continuations_encode (S (length rest)) max sid rest) as [more| | |] eqn:Hc;
      try discriminate Hw.
    injection Hw as Hw. subst bs.
    destruct (header_block_encode_framed max k flags sid prefix block bytes _ Hpre Hh)
      as (fl' & payload & Hb & Hle).
    rewrite Hb. apply framed_one; [reflexivity|exact Hle|].
    exact (cont_framed max sid H1 H2 _ _ _ Hc).
  - injection Hw as Hw. subst bs.
    destruct (header_block_encode_framed max k flags sid prefix block bytes _ Hpre Hh)
      as (fl' & payload & Hb & Hle).
    rewrite Hb. apply framed_single; [reflexivity|exact Hle].
Qed.

Lemma lenN_pairs_encode ps : lenN (pairs_encode ps) = 6 * N.of_nat (length ps).
Proof.
  induction ps as [|[id v] ps IH]; [reflexivity|].
  cbn [pairs_encode enc_u16 enc_u32 app]. rewrite !lenN_cons, IH. cbn [length]. lia.
Qed.

Lemma length_settings_pairs s : (length (settings_pairs s) <= 7)%nat.
Proof.
  unfold settings_pairs. rewrite !app_length.
  destruct (s_header_table_size s), (s_enable_push s), (s_max_concurrent_streams s),
    (s_initial_window_size s), (s_max_frame_size s), (s_max_header_list_size s),
    (s_enable_connect_protocol s); cbn [length]; lia.
Qed.

(* [frame_wf] is used only for the sizes nobody checks on the send path (DATA is checked by
   Encoder::buffer, see C12_send_limit_data_enforced; GOAWAY debug data by nobody) and for the
   8 octets of PING *)
Lemma wf_data_len max sid flags pad data :
  frame_wf max (FData sid flags pad data) = true -> lenN data <= max.
Proof.
  cbn [frame_wf]. intros H.
  apply andb_prop in H. destruct H as [H _].
  apply andb_prop in H. destruct H as [_ H]. apply N.leb_le. exact H.
Qed.

Lemma wf_goaway_len max last code debug :
  frame_wf max (FGoAway last code debug) = true -> 8 + lenN debug <= max.
Proof.
  cbn [frame_wf]. intros H.
  apply andb_prop in H. destruct H as [H _].
  apply andb_prop in H. destruct H as [_ H]. apply N.leb_le. exact H.
Qed.

Lemma wf_ping_len max ack payload :
  frame_wf max (FPing ack payload) = true -> lenN payload = 8.
Proof.
  cbn [frame_wf]. intros H.
  apply andb_prop in H. destruct H as [H _]. apply N.eqb_eq. exact H.
Qed.

Theorem encode_framed : forall max f bs,
  42 <= max -> max <= MAX_MAX_FRAME_SIZE ->
  frame_wf max f = true -> encode max f = EOk bs ->
  framed max bs.
Proof.
  intros max f bs H42 Hmax Hwf He.
  assert (H1 : 1 <= max) by lia.
  destruct f as [sid flags pad data|sid flags dep block|sid dep|sid flags promised block|s
                |ack payload|last code debug|sid inc|sid code]; cbn [encode] in He.
  - injection He as He. subst bs. unfold data_encode.
    apply framed_single; [reflexivity|]. exact (wf_data_len _ _ _ _ _ Hwf).
  - unfold headers_encode in He.
    destruct (has_bit flags headers_END_HEADERS); [|discriminate He].
    apply (with_continuations_framed max kind_headers flags sid [] block bs H1 Hmax);
      [rewrite lenN_nil; lia|exact He].
  - discriminate He.
  - unfold push_promise_encode in He.
    destruct (has_bit flags headers_END_HEADERS); [|discriminate He].
    apply (with_continuations_framed max kind_push_promise flags sid (enc_u32 promised) block bs H1 Hmax);
      [|exact He].
    change (lenN (enc_u32 promised)) with 4. lia.
  - injection He as He. subst bs. unfold settings_encode.
    apply framed_single; [symmetry; apply lenN_pairs_encode|].
    pose proof (length_settings_pairs s). lia.
  - injection He as He. subst bs. unfold ping_encode.
    apply framed_single; [reflexivity|]. rewrite (wf_ping_len _ _ _ Hwf). lia.
  - injection He as He. subst bs. unfold go_away_encode.
    apply framed_single.
    + rewrite !lenN_app. change (lenN (enc_u32 last)) with 4. change (lenN (enc_u32 code)) with 4. lia.
    + exact (wf_goaway_len _ _ _ _ Hwf).
  - injection He as He. subst bs. unfold window_update_encode.
    apply framed_single; [reflexivity|lia].
  - injection He as He. subst bs. unfold reset_encode.
    apply framed_single; [reflexivity|lia].
Qed.

Theorem C12_send_limit : forall max f bs,
  42 <= max -> max <= MAX_MAX_FRAME_SIZE ->
  frame_wf max f = true -> encode max f = EOk bs ->
  all_payloads_le max bs = true.
Proof.
  intros max f bs H42 Hmax Hwf He.
  apply framed_all_payloads_le; [exact Hmax|].
  exact (encode_framed max f bs H42 Hmax Hwf He).
Qed.

(* where h2 enforces the limit for DATA: Encoder::buffer returns UserError::PayloadTooBig *)
Theorem C12_send_limit_data_enforced : forall st sid fl pad data st',
  buffer st (FData sid fl pad data) = BOk st' -> lenN data <= w_max st.
Proof.
  intros st sid fl pad data st' Hb. unfold buffer in Hb.
  destruct (negb (has_capacity st)); [discriminate Hb|].
  destruct (w_max st <? lenN data) eqn:E; [discriminate Hb|].
  apply N.ltb_ge in E. exact E.
Qed.

Lemma buffer_data_too_big : forall st sid fl pad data,
  has_capacity st = true -> w_max st < lenN data ->
  buffer st (FData sid fl pad data) = BPayloadTooBig.
Proof.
  intros st sid fl pad data Hcap Hbig. unfold buffer. rewrite Hcap. cbn [negb].
  apply N.ltb_lt in Hbig. rewrite Hbig. reflexivity.
Qed.

(* ---------------------------------------------------------------------------------------- *)
(* non-vacuity: concrete runs (evaluated by vm_compute) *)

Definition enc_is (r : enc_result) (bs : list N) : bool :=
  match r with EOk b => list_N_eqb b bs | _ => false end.

Definition enc_len_is (r : enc_result) (n : N) : bool :=
  match r with EOk b => lenN b =? n | _ => false end.

(* run from [winit]; compare the observations (obs_code), the sizes of the accepted writes, check
   that what was written followed by what is still owed is the encoding of the buffered frames,
   and that [owed] octets are still owed *)
Definition run_check (vectored : bool) (max : N) (ops : list op) (script : list titem)
           (codes wlens : list N) (owed : N) : bool :=
  let '(st', ws, os) := run ops (winit vectored max) script in
  list_N_eqb (map obs_code os) codes && list_N_eqb (map lenN ws) wlens &&
  match pending st' with
  | EOk rest => enc_is (encode_all max (buffered_frames ops os)) (concat ws ++ rest) && (lenN rest =? owed)
  | _ => false
  end.

Definition enc_payload_lengths (r : enc_result) : option (list N) :=
  match r with EOk bs => payload_lengths (S (length bs)) bs | _ => None end.

(* a chained DATA frame (300 octets >= chain threshold 256, vectored): head + 247 copied octets in
   the buffer, 53 octets chained; transport takes 5, is Pending, then takes the rest *)
Example C12_write_ex_chained :
  run_check true 16384
    [OpBuffer (FData 1 1 None (repeat 7 300)); OpFlush; OpFlush; OpPollReady;
     OpBuffer (FHeaders 3 4 None (repeat 1 20)); OpFlush]
    [TAccept 5; TPending; TAccept 1000; TAccept 1000]
    [20; 11; 10; 0; 20; 10] [5; 304; 29] 0 = true.
Proof. vm_compute. reflexivity. Qed.

(* the same without vectored I/O (threshold 1024): the buffer and the chained payload go out in
   separate writes *)
Example C12_write_ex_chained_novec :
  run_check false 16384
    [OpBuffer (FData 1 0 None (repeat 7 1100)); OpFlush; OpFlush]
    [TAccept 5; TPending; TAccept 5000; TAccept 5000]
    [20; 11; 10] [5; 1019; 85] 0 = true.
Proof. vm_compute. reflexivity. Qed.

(* HEADERS split into CONTINUATIONs (max = 64, block of 200 octets: 64 + 64 + 64 + 8), then a small
   DATA frame; one write per CONTINUATION *)
Example C12_write_ex_continuations :
  run_check true 64
    [OpBuffer (FHeaders 1 4 None (repeat 1 200)); OpFlush; OpFlush; OpPollReady;
     OpBuffer (FData 1 1 None [1; 2; 3]); OpFlush]
    [TAccept 5; TPending; TAccept 1000; TAccept 1000; TAccept 1000; TAccept 1000; TAccept 1000]
    [20; 11; 10; 0; 20; 10] [5; 68; 73; 73; 17; 12] 0 = true.
Proof. vm_compute. reflexivity. Qed.

(* a run that ends in the middle of a header block: 78 octets written, 158 still owed *)
Example C12_write_ex_partial :
  run_check true 64
    [OpBuffer (FHeaders 1 4 None (repeat 1 200)); OpFlush]
    [TAccept 5; TAccept 1000; TPending]
    [20; 11] [5; 68] 163 = true.
Proof. vm_compute. reflexivity. Qed.

(* the hypotheses of C12_write_no_dup_drop / _prefix hold on a concrete run that stops in the
   middle of the first frame *)
Example C12_write_ex_hypotheses :
  1 <= 64 /\ 64 <= MAX_MAX_FRAME_SIZE /\
  exists st',
    run [OpBuffer (FHeaders 1 4 None (repeat 1 200)); OpFlush] (winit true 64) [TAccept 5; TPending]
      = (st', [[0; 0; 64; 1; 0]], [ObBuffered; ObFlush FPending]).
Proof.
  split; [unfold MAX_MAX_FRAME_SIZE; lia|]. split; [unfold MAX_MAX_FRAME_SIZE; lia|].
  exists (fst (fst (run [OpBuffer (FHeaders 1 4 None (repeat 1 200)); OpFlush] (winit true 64)
                        [TAccept 5; TPending]))).
  vm_compute. reflexivity.
Qed.

(* a state with a PING in the buffer *)
Definition ex_ping : frame := FPing false [1; 2; 3; 4; 5; 6; 7; 8].
Definition ex_ping_state : wstate :=
  match buffer (winit true 16384) ex_ping with BOk s => s | _ => winit true 16384 end.

Example ex_ping_state_buffered : buffer (winit true 16384) ex_ping = BOk ex_ping_state.
Proof. vm_compute. reflexivity. Qed.

Example ex_ping_state_inv :
  winv 16384 ex_ping_state /\ pending ex_ping_state = EOk (ping_encode false [1; 2; 3; 4; 5; 6; 7; 8]).
Proof.
  assert (H1 : 1 <= 16384) by lia.
  assert (H2 : 16384 <= MAX_MAX_FRAME_SIZE) by (unfold MAX_MAX_FRAME_SIZE; lia).
  destruct (buffer_spec 16384 _ [] ex_ping ex_ping_state H1 H2 (winv_winit true 16384)
              (pending_winit true 16384) ex_ping_state_buffered) as (Hi & e & He & Hp).
  cbn [encode ex_ping] in He. injection He as He. subst e.
  split; [exact Hi|exact Hp].
Qed.

(* flush_ready_drained: two writes, then Ready with nothing owed *)
Example flush_ready_drained_ex :
  flush ex_ping_state [TAccept 4; TAccept 100]
    = (set_w ex_ping_state [] 0 (w_cap ex_ping_state) None,
       [[0; 0; 8; 6]; [0; 0; 0; 0; 0; 1; 2; 3; 4; 5; 6; 7; 8]], FReady, []) /\
  pending (set_w ex_ping_state [] 0 (w_cap ex_ping_state) None) = EOk [].
Proof. split; vm_compute; reflexivity. Qed.

(* WriteZero: the transport returns 0 (or accepts 0 octets) while the PING is owed *)
Example C12_write_zero_ex :
  settle ex_ping_state = SBusy ex_ping_state /\
  flush ex_ping_state [TZero; TAccept 100] = (ex_ping_state, [], FWriteZero, [TAccept 100]) /\
  flush ex_ping_state [TAccept 0; TAccept 100] = (ex_ping_state, [], FWriteZero, [TAccept 100]) /\
  run [OpBuffer ex_ping; OpFlush; OpFlush] (winit true 16384) [TZero; TAccept 100]
    = (ex_ping_state, [], [ObBuffered; ObFlush FWriteZero]).
Proof. repeat split; vm_compute; reflexivity. Qed.

(* C12_send_limit: well-formed frames whose encodings are cut back into the expected payloads *)
Example C12_send_limit_ex_headers :
  frame_wf 64 (FHeaders 1 4 None (repeat 1 200)) = true /\
  enc_payload_lengths (encode 64 (FHeaders 1 4 None (repeat 1 200))) = Some [64; 64; 64; 8].
Proof. split; vm_compute; reflexivity. Qed.

Example C12_send_limit_ex_push_promise :
  frame_wf 64 (FPushPromise 1 4 2 (repeat 1 100)) = true /\
  enc_payload_lengths (encode 64 (FPushPromise 1 4 2 (repeat 1 100))) = Some [64; 40].
Proof. split; vm_compute; reflexivity. Qed.

Example C12_send_limit_ex_data :
  frame_wf 16384 (FData 1 1 None (repeat 7 300)) = true /\
  enc_payload_lengths (encode 16384 (FData 1 1 None (repeat 7 300))) = Some [300].
Proof. split; vm_compute; reflexivity. Qed.

Example C12_send_limit_ex_settings :
  let s := {| s_flags := 0; s_header_table_size := Some 4096; s_enable_push := Some 0;
              s_max_concurrent_streams := Some 100; s_initial_window_size := Some 65535;
              s_max_frame_size := Some 16384; s_max_header_list_size := Some 16384;
              s_enable_connect_protocol := Some 1 |} in
  frame_wf 42 (FSettings s) = true /\ enc_payload_lengths (encode 42 (FSettings s)) = Some [42].
Proof. split; vm_compute; reflexivity. Qed.

(* the bound 42 <= max of C12_send_limit is needed for exactly this frame: with max = 41 it is
   well-formed (frame_wf does not look at the size of SETTINGS) and its payload is 42 octets *)
Example C12_send_limit_bound_tight :
  let s := {| s_flags := 0; s_header_table_size := Some 4096; s_enable_push := Some 0;
              s_max_concurrent_streams := Some 100; s_initial_window_size := Some 65535;
              s_max_frame_size := Some 16384; s_max_header_list_size := Some 16384;
              s_enable_connect_protocol := Some 1 |} in
  frame_wf 41 (FSettings s) = true /\
  match encode 41 (FSettings s) with EOk bs => all_payloads_le 41 bs | _ => true end = false.
Proof. split; vm_compute; reflexivity. Qed.

(* DATA against the limit *)
Example C12_send_limit_data_enforced_ex :
  exists st', buffer (winit true 16384) (FData 1 1 None (repeat 7 300)) = BOk st'.
Proof.
  exists (match buffer (winit true 16384) (FData 1 1 None (repeat 7 300)) with
          | BOk s => s | _ => winit true 16384 end).
  vm_compute. reflexivity.
Qed.

Example buffer_data_too_big_ex :
  has_capacity (winit true 16384) = true /\
  w_max (winit true 16384) < lenN (repeat 7 (N.to_nat 16385)) /\
  buffer (winit true 16384) (FData 1 1 None (repeat 7 (N.to_nat 16385))) = BPayloadTooBig.
Proof.
  split; [vm_compute; reflexivity|]. split; [|vm_compute; reflexivity].
  apply N.ltb_lt. vm_compute. reflexivity.
Qed.
