(* List lemmas for the association-list store of Model/SendFlow.v *)
From H2V Require Import Base.Tac Model.SendFlow.
Local Open Scope Z_scope.

Fixpoint sum_avail (l : list sstream) : Z :=
  match l with [] => 0 | s :: l' => s_avail s + sum_avail l' end.

Lemma find_s_id sid l s : find_s sid l = Some s -> s_id s = sid.
Proof.
  induction l as [|x l IH]; cbn [find_s]; [discriminate|].
  destruct (N.eqb (s_id x) sid) eqn:E.
  - intros H; inversion H; subst. now apply N.eqb_eq.
  - exact IH.
Qed.

Lemma find_s_In sid l s : find_s sid l = Some s -> In s l.
Proof.
  induction l as [|x l IH]; cbn [find_s]; [discriminate|].
  destruct (N.eqb (s_id x) sid) eqn:E.
  - intros H; inversion H; subst. now left.
  - intros H; right; auto.
Qed.

Lemma find_s_none_notin sid l : find_s sid l = None -> ~ In sid (map s_id l).
Proof.
  induction l as [|x l IH]; cbn [find_s map]; [intros _ []|].
  destruct (N.eqb (s_id x) sid) eqn:E; [discriminate|].
  intros H [H1|H1]; [apply N.eqb_neq in E; auto | apply IH; auto].
Qed.

Lemma upd_ids s l : map s_id (upd_s s l) = map s_id l.
Proof.
  induction l as [|x l IH]; cbn [upd_s map]; [reflexivity|].
  destruct (N.eqb (s_id x) (s_id s)) eqn:E; cbn [map].
  - apply N.eqb_eq in E. now rewrite E.
  - now rewrite IH.
Qed.

Lemma sum_upd s s' l :
  NoDup (map s_id l) -> find_s (s_id s') l = Some s ->
  sum_avail (upd_s s' l) = sum_avail l - s_avail s + s_avail s'.
Proof.
  induction l as [|x l IH]; cbn [find_s upd_s sum_avail map]; [discriminate|].
  intros ND. inversion ND as [|? ? Hn ND']; subst.
  destruct (N.eqb (s_id x) (s_id s')) eqn:E.
  - intros H; inversion H; subst. cbn [sum_avail]. lia.
  - intros H. cbn [sum_avail]. rewrite (IH ND' H). lia.
Qed.

Lemma Forall_upd (P : sstream -> Prop) s' l :
  Forall P l -> P s' -> Forall P (upd_s s' l).
Proof.
  induction l as [|x l IH]; cbn [upd_s]; intros H Hs; [constructor|].
  inversion H; subst.
  destruct (N.eqb (s_id x) (s_id s')); constructor; auto.
Qed.

Lemma find_upd_same s' l s :
  find_s (s_id s') l = Some s -> find_s (s_id s') (upd_s s' l) = Some s'.
Proof.
  induction l as [|x l IH]; cbn [find_s upd_s]; [discriminate|].
  destruct (N.eqb (s_id x) (s_id s')) eqn:E.
  - intros _. cbn [find_s]. now rewrite N.eqb_refl.
  - intros H. cbn [find_s]. rewrite E. auto.
Qed.

Lemma find_upd_other sid s' l :
  sid <> s_id s' -> find_s sid (upd_s s' l) = find_s sid l.
Proof.
  intros Hne. induction l as [|x l IH]; cbn [find_s upd_s]; [reflexivity|].
  destruct (N.eqb (s_id x) (s_id s')) eqn:E.
  - cbn [find_s]. apply N.eqb_eq in E.
    destruct (N.eqb (s_id s') sid) eqn:E1; [apply N.eqb_eq in E1; congruence|].
    rewrite E. rewrite E1. reflexivity.
  - cbn [find_s]. destruct (N.eqb (s_id x) sid); auto.
Qed.

Lemma Forall_find (P : sstream -> Prop) sid l s :
  Forall P l -> find_s sid l = Some s -> P s.
Proof.
  intros H F. apply find_s_In in F. rewrite Forall_forall in H. auto.
Qed.

Lemma sum_avail_nonneg l : Forall (fun s => 0 <= s_avail s) l -> 0 <= sum_avail l.
Proof.
  induction 1; cbn [sum_avail]; lia.
Qed.

Lemma sum_avail_ge s l :
  Forall (fun s => 0 <= s_avail s) l -> In s l -> s_avail s <= sum_avail l.
Proof.
  induction 1 as [|x l Hx Hl IH]; cbn [sum_avail]; intros HIn; [destruct HIn|].
  destruct HIn as [->|HIn].
  - pose proof (sum_avail_nonneg l Hl). lia.
  - specialize (IH HIn). lia.
Qed.

Lemma del_ids_NoDup sid l : NoDup (map s_id l) -> NoDup (map s_id (del_s sid l)).
Proof.
  induction l as [|x l IH]; cbn [del_s map]; intros ND; [constructor|].
  inversion ND as [|? ? Hn ND']; subst.
  destruct (N.eqb (s_id x) sid); [assumption|].
  cbn [map]. constructor; [|auto].
  intros HIn. apply Hn. clear -HIn.
  induction l as [|y l IH]; cbn [del_s map] in *; [destruct HIn|].
  destruct (N.eqb (s_id y) sid); [right; assumption|].
  destruct HIn as [H|H]; [left; assumption|right; auto].
Qed.

Lemma Forall_del (P : sstream -> Prop) sid l : Forall P l -> Forall P (del_s sid l).
Proof.
  induction 1 as [|x l Hx Hl IH]; cbn [del_s]; [constructor|].
  destruct (N.eqb (s_id x) sid); [assumption|constructor; auto].
Qed.

Lemma sum_del sid l s :
  find_s sid l = Some s -> sum_avail (del_s sid l) = sum_avail l - s_avail s.
Proof.
  induction l as [|x l IH]; cbn [find_s del_s sum_avail]; [discriminate|].
  destruct (N.eqb (s_id x) sid) eqn:E.
  - intros H; inversion H; subst. lia.
  - intros H. cbn [sum_avail]. rewrite (IH H). lia.
Qed.

Lemma upd_upd a b l : s_id a = s_id b -> upd_s b (upd_s a l) = upd_s b l.
Proof.
  intros Hab. induction l as [|x l IH]; cbn [upd_s]; [reflexivity|].
  destruct (N.eqb (s_id x) (s_id a)) eqn:E.
  - cbn [upd_s]. rewrite Hab in E. rewrite E. rewrite Hab, N.eqb_refl. reflexivity.
  - cbn [upd_s]. rewrite Hab in E. rewrite E. f_equal. exact IH.
Qed.
