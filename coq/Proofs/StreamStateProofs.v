(* Proofs about the model of /repo/src/proto/streams/state.rs (Model/StreamState.v) against
   RFC 9113 section 5.1 (Ref/Rfc9113Stream.v).

   The control part of the state is finite (11 non-closed states, 4 kinds of closing cause), the
   payload (reason codes, stream ids, debug data, I/O kind and message) is unbounded: every theorem
   is proved by case analysis on the control part with the payload fields as universally quantified
   variables, and, where it speaks about "every later sequence of methods", by induction on that
   sequence. *)
From H2V Require Import Base.Tac Base.Bytes Model.StreamState Ref.Rfc9113Stream.
Local Open Scope N_scope.

(* ---------------------------------------------------------------------------------------------
   case-analysis tactics *)

Ltac d_state s := destruct s as [| | | [|] [|] | [|] | [|] | [|?e|?e|?r0]].
Ltac d_err e := destruct e as [?sid ?rr [| |]|?dd ?rr [| |]|?kk ?mm].
Ltac d_op o :=
  destruct o as [[|]|[|] [|]| | | |?sid ?rr [|]|?e| | |?sid ?rr [| |]|?rr].

(* ---------------------------------------------------------------------------------------------
   0. the boolean equalities used by the correspondence check decide equality *)

Lemma initiator_eqb_eq a b : initiator_eqb a b = true <-> a = b.
Proof. destruct a, b; cbn; split; congruence. Qed.

Lemma opt_bytes_eqb_eq a b : opt_bytes_eqb a b = true <-> a = b.
Proof.
  destruct a as [x|], b as [y|]; cbn [opt_bytes_eqb]; try (split; congruence).
  rewrite list_N_eqb_eq. split; congruence.
Qed.

Lemma perror_eqb_eq a b : perror_eqb a b = true <-> a = b.
Proof.
  destruct a as [s r i|d r i|k m], b as [s' r' i'|d' r' i'|k' m']; cbn [perror_eqb];
    try (split; congruence).
  - rewrite !andb_true_iff, !N.eqb_eq, initiator_eqb_eq. split.
    + intros [[-> ->] ->]; reflexivity.
    + intros E; inversion E; auto.
  - rewrite !andb_true_iff, N.eqb_eq, list_N_eqb_eq, initiator_eqb_eq. split.
    + intros [[-> ->] ->]; reflexivity.
    + intros E; inversion E; auto.
  - rewrite andb_true_iff, N.eqb_eq, opt_bytes_eqb_eq. split.
    + intros [-> ->]; reflexivity.
    + intros E; inversion E; auto.
Qed.

Lemma peer_eqb_eq a b : peer_eqb a b = true <-> a = b.
Proof. destruct a, b; cbn; split; congruence. Qed.

Lemma cause_eqb_eq a b : cause_eqb a b = true <-> a = b.
Proof.
  destruct a as [|e|e|r], b as [|e'|e'|r']; cbn [cause_eqb]; try (split; congruence).
  - rewrite perror_eqb_eq. split; congruence.
  - rewrite perror_eqb_eq. split; congruence.
  - rewrite N.eqb_eq. split; congruence.
Qed.

Lemma state_eqb_eq a b : state_eqb a b = true <-> a = b.
Proof.
  destruct a as [| | |l r|p|p|c], b as [| | |l' r'|p'|p'|c']; cbn [state_eqb];
    try (split; congruence).
  - rewrite andb_true_iff, !peer_eqb_eq. split.
    + intros [-> ->]; reflexivity.
    + intros E; inversion E; auto.
  - rewrite peer_eqb_eq. split; congruence.
  - rewrite peer_eqb_eq. split; congruence.
  - rewrite cause_eqb_eq. split; congruence.
Qed.

Lemma res_eqb_eq a b : res_eqb a b = true <-> a = b.
Proof.
  destruct a as [|x|x|x|x|], b as [|y|y|y|y|]; cbn [res_eqb]; try (split; congruence).
  - rewrite Bool.eqb_true_iff. split; congruence.
  - destruct x as [x|], y as [y|]; cbn [opt_N_eqb]; try (split; congruence).
    rewrite N.eqb_eq. split; congruence.
  - destruct x, y; cbn; split; congruence.
  - rewrite perror_eqb_eq. split; congruence.
Qed.

(* a transition case accepted by the check states exactly what the model computes *)
Lemma check_state_case_trans_sound dbg path from o to r :
  check_state_case (dbg, path, XTrans from o to r) = true ->
  run dbg Idle path = from /\ step dbg from o = (to, r).
Proof.
  cbn [check_state_case]. intros C.
  apply andb_true_iff in C as [C1 C2]. apply state_eqb_eq in C1. subst from.
  destruct (step dbg (run dbg Idle path) o) as [s' r'].
  apply andb_true_iff in C2 as [C2 C3].
  apply state_eqb_eq in C2. apply res_eqb_eq in C3. subst. auto.
Qed.

(* ---------------------------------------------------------------------------------------------
   1. abstraction to the RFC automaton *)

Definition abs (s : state) : rfc_state :=
  match s with
  | Idle => idle
  | ReservedLocal => reserved_local
  | ReservedRemote => reserved_remote
  | Open _ _ => open
  | HalfClosedLocal _ => half_closed_local
  | HalfClosedRemote _ => half_closed_remote
  | Closed _ => closed
  end.

Definition phase_of_peer (p : peer) : phase :=
  match p with AwaitingHeaders => awaiting | Streaming => body end.

(* phase of the message this endpoint sends / receives on the stream (RFC 9113 8.1) *)
Definition send_phase (s : state) : phase :=
  match s with
  | Idle | ReservedLocal => awaiting
  | Open l _ | HalfClosedRemote l => phase_of_peer l
  | _ => done
  end.

Definition recv_phase (s : state) : phase :=
  match s with
  | Idle | ReservedRemote => awaiting
  | Open _ r | HalfClosedLocal r => phase_of_peer r
  | _ => done
  end.

Definition phase_in (d : dir) (s : state) : phase :=
  match d with Send => send_phase s | Recv => recv_phase s end.

Definition hk (eos : bool) : ekind := if eos then KHES else KH.

(* the RFC event a method call stands for; connection-level endings are no event on the stream *)
Definition event_of (o : op) : option (dir * ekind) :=
  match o with
  | OSendOpen eos => Some (Send, hk eos)
  | ORecvOpen eos _ => Some (Recv, hk eos)
  | OReserveRemote => Some (Recv, KPP)
  | OReserveLocal => Some (Send, KPP)
  | ORecvClose => Some (Recv, KES)
  | OSendClose => Some (Send, KES)
  | ORecvReset _ _ _ => Some (Recv, KR)
  | OSetReset _ _ _ | OSetScheduledReset _ => Some (Send, KR)
  | OHandleError _ | ORecvEof => None
  end.

Definition res_ok (r : res) : bool :=
  match r with RUnit | RBool _ | RReason _ => true | _ => false end.

Definition is_opening (k : ekind) : bool := match k with KH | KHES => true | _ => false end.

(* how a closed model state got closed, in the RFC's terms *)
Definition how_of (s : state) : closed_how :=
  match s with
  | Closed (CError e) | Closed (ErrorAfterEndStream e) =>
    if error_is_local e then by_sent_reset else by_recv_reset
  | Closed (ScheduledLibraryReset _) => by_sent_reset
  | _ => by_end_stream
  end.

(* ---------------------------------------------------------------------------------------------
   2. refinement, method by method *)

Lemma send_open_cases eos s :
  snd (send_open eos s) = RUnit \/
  send_open eos s = (s, RUserErr UnexpectedFrameType).
Proof. d_state s; destruct eos; cbn; auto. Qed.

Lemma send_open_refines eos s s' :
  send_open eos s = (s', RUnit) ->
  rfc_step (abs s) Send (hk eos) = Some (abs s') /\
  opening_ok (send_phase s) = true /\
  send_phase s' = after_opening eos false.
Proof. d_state s; destruct eos; cbn; intros E; inversion E; subst; cbn; auto. Qed.

Lemma send_open_error_iff eos s :
  send_open eos s = (s, RUserErr UnexpectedFrameType) <->
  (rfc_step (abs s) Send (hk eos) = None \/ opening_ok (send_phase s) = false).
Proof.
  d_state s; destruct eos; cbn; split; intros E; auto; try discriminate;
    try (destruct E; discriminate).
Qed.

Lemma recv_open_cases eos info s :
  (exists b, snd (recv_open eos info s) = RBool b) \/
  recv_open eos info s = (s, RProtoErr (library_go_away PROTOCOL_ERROR)).
Proof. d_state s; destruct eos, info; cbn; eauto. Qed.

(* the one place where the code does not follow figure 2: a 1xx HEADERS on a promised stream leaves
   it ReservedRemote (the RFC automaton is in half-closed (local) from then on) *)
Lemma recv_open_refines eos info s s' b :
  recv_open eos info s = (s', RBool b) ->
  ((s = ReservedRemote /\ eos = false /\ info = true /\ s' = ReservedRemote) \/
   rfc_step (abs s) Recv (hk eos) = Some (abs s')) /\
  opening_ok (recv_phase s) = true /\
  recv_phase s' = after_opening eos info /\
  b = (is_idle s || state_eqb s ReservedRemote).
Proof.
  d_state s; destruct eos, info; cbn; intros E; inversion E; subst; cbn; auto 10.
Qed.

Lemma recv_open_ok_iff eos info s :
  (exists s' b, recv_open eos info s = (s', RBool b)) <-> is_recv_headers s = true.
Proof.
  d_state s; destruct eos, info; cbn; split; intros E; eauto; try discriminate;
    destruct E as (s' & b & E); discriminate.
Qed.

Lemma recv_open_error_iff eos info s :
  recv_open eos info s = (s, RProtoErr (library_go_away PROTOCOL_ERROR)) <->
  (rfc_step (abs s) Recv (hk eos) = None \/ opening_ok (recv_phase s) = false).
Proof.
  d_state s; destruct eos, info; cbn; split; intros E; auto; try discriminate;
    try (destruct E; discriminate).
Qed.

Lemma recv_close_refines s s' :
  recv_close s = (s', RUnit) -> rfc_step (abs s) Recv KES = Some (abs s').
Proof. d_state s; cbn; intros E; inversion E; subst; cbn; auto. Qed.

Lemma recv_close_cases s :
  (snd (recv_close s) = RUnit /\ rfc_step (abs s) Recv KES <> None) \/
  (recv_close s = (s, RProtoErr (library_go_away PROTOCOL_ERROR)) /\ rfc_step (abs s) Recv KES = None).
Proof. d_state s; cbn; auto; left; split; auto; discriminate. Qed.

Lemma send_close_refines s s' :
  send_close s = (s', RUnit) -> rfc_step (abs s) Send KES = Some (abs s').
Proof. d_state s; cbn; intros E; inversion E; subst; cbn; auto. Qed.

Lemma send_close_cases s :
  (snd (send_close s) = RUnit /\ rfc_step (abs s) Send KES <> None) \/
  (send_close s = (s, RPanic) /\ rfc_step (abs s) Send KES = None).
Proof. d_state s; cbn; auto; left; split; auto; discriminate. Qed.

Lemma reserve_remote_cases s :
  (s = Idle /\ reserve_remote s = (ReservedRemote, RUnit) /\
   rfc_step (abs s) Recv KPP = Some reserved_remote) \/
  (reserve_remote s = (s, RProtoErr (library_go_away PROTOCOL_ERROR)) /\
   rfc_step (abs s) Recv KPP = None).
Proof. d_state s; cbn; auto. Qed.

Lemma reserve_local_cases s :
  (s = Idle /\ reserve_local s = (ReservedLocal, RUnit) /\
   rfc_step (abs s) Send KPP = Some reserved_local) \/
  (reserve_local s = (s, RUserErr UnexpectedFrameType) /\ rfc_step (abs s) Send KPP = None).
Proof. d_state s; cbn; auto. Qed.

Lemma recv_reset_never_errors sid r q s : snd (recv_reset sid r q s) = RUnit.
Proof. d_state s; destruct q; reflexivity. Qed.

Lemma recv_reset_closes sid r q s : abs (fst (recv_reset sid r q s)) = closed.
Proof. d_state s; destruct q; reflexivity. Qed.

Lemma recv_reset_refines sid r q s :
  s <> Idle -> rfc_step (abs s) Recv KR = Some (abs (fst (recv_reset sid r q s))).
Proof. d_state s; destruct q; cbn; intros NI; auto; congruence. Qed.

Lemma set_reset_refines sid r i s :
  abs (fst (set_reset sid r i s)) = closed /\
  (abs s <> idle -> abs s <> closed ->
   rfc_step (abs s) Send KR = Some (abs (fst (set_reset sid r i s)))).
Proof. split; [reflexivity|]. d_state s; cbn; intros A B; auto; congruence. Qed.

Lemma set_scheduled_reset_cases dbg r s :
  (set_scheduled_reset dbg r s = (Closed (ScheduledLibraryReset r), RUnit) /\
   (dbg = false \/ is_closed s = false)) \/
  (set_scheduled_reset dbg r s = (s, RPanic) /\ dbg = true /\ is_closed s = true).
Proof. unfold set_scheduled_reset. destruct dbg; d_state s; cbn; auto. Qed.

(* One statement for all methods: a call that succeeds is the RFC transition of its event, except
   in three documented situations. *)
Theorem step_refines_rfc dbg s o s' r d k :
  step dbg s o = (s', r) -> event_of o = Some (d, k) -> res_ok r = true ->
  rfc_step (abs s) d k = Some (abs s')
  \/ (s = ReservedRemote /\ o = ORecvOpen false true /\ s' = ReservedRemote)
       (* 1xx on a promised stream: stays reserved *)
  \/ (k = KR /\ s = Idle /\ abs s' = closed)
       (* a reset on a record still Idle: callers only reach it for ids the peer/we did open *)
  \/ (k = KR /\ d = Send /\ abs s = closed /\ abs s' = closed).
       (* set_reset (or, without debug assertions, set_scheduled_reset) relabels a closed stream *)
Proof.
  intros S E K.
  d_state s; d_op o; try destruct dbg; cbn in S, E; inversion S; subst; inversion E; subst;
    cbn in K |- *; try discriminate; auto 10.
Qed.

(* A call that fails (Err or panic) leaves the state unchanged, and its event is one the RFC forbids
   in that state, or an opening header section where 8.1 allows none. *)
Theorem step_error_is_forbidden dbg s o s' r d k :
  step dbg s o = (s', r) -> event_of o = Some (d, k) -> res_ok r = false ->
  s' = s /\
  (rfc_step (abs s) d k = None \/ (is_opening k = true /\ opening_ok (phase_in d s) = false)).
Proof.
  intros S E K.
  d_state s; d_op o; try destruct dbg; cbn in S, E; inversion S; subst; inversion E; subst;
    cbn in K |- *; try discriminate; auto.
Qed.

(* Conversely every event the RFC permits (for an opening header section: in a phase where one is
   due) is accepted. *)
Theorem rfc_permitted_is_accepted dbg s o d k :
  event_of o = Some (d, k) -> rfc_step (abs s) d k <> None ->
  (is_opening k = true -> opening_ok (phase_in d s) = true) ->
  res_ok (snd (step dbg s o)) = true.
Proof.
  intros E A P.
  d_state s; d_op o; try destruct dbg; cbn in E; inversion E; subst; cbn in A, P |- *;
    auto; try congruence; try (specialize (P eq_refl); discriminate).
Qed.

(* connection-level endings *)
Lemma handle_error_closes e s : abs (fst (handle_error e s)) = closed.
Proof. d_state s; reflexivity. Qed.

Lemma recv_eof_closes s : abs (fst (recv_eof s)) = closed.
Proof. d_state s; reflexivity. Qed.

(* ---------------------------------------------------------------------------------------------
   3. invariants along every method sequence *)

Lemma run_app dbg s os1 os2 : run dbg s (os1 ++ os2) = run dbg (run dbg s os1) os2.
Proof. revert s; induction os1 as [|o os1 IH]; intros s; cbn [run app]; auto. Qed.

Lemma run_invariant (P : state -> Prop) dbg :
  (forall s o, P s -> P (fst (step dbg s o))) ->
  forall os s, P s -> P (run dbg s os).
Proof.
  intros Hstep os. induction os as [|o os IH]; intros s Hs; cbn [run]; auto.
Qed.

Lemma step_keeps_closed dbg s o : is_closed s = true -> is_closed (fst (step dbg s o)) = true.
Proof.
  d_state s; cbn [is_closed]; try discriminate; intros _; d_op o; try destruct dbg; reflexivity.
Qed.

Lemma step_keeps_send_closed dbg s o :
  is_send_closed s = true -> is_send_closed (fst (step dbg s o)) = true.
Proof.
  d_state s; cbn [is_send_closed]; try discriminate; intros _; d_op o; try destruct dbg; reflexivity.
Qed.

Theorem closed_forever dbg s os : is_closed s = true -> is_closed (run dbg s os) = true.
Proof.
  intros C. apply (run_invariant (fun s => is_closed s = true)); auto.
  intros s0 o. apply step_keeps_closed.
Qed.

Theorem send_closed_forever dbg s os :
  is_send_closed s = true -> is_send_closed (run dbg s os) = true.
Proof.
  intros C. apply (run_invariant (fun s => is_send_closed s = true)); auto.
  intros s0 o. apply step_keeps_send_closed.
Qed.

(* ---------------------------------------------------------------------------------------------
   4. C04: the sender side *)

(* a state with the send half closed lets nothing be started or continued: send_open is refused,
   the state is not "send streaming" (the guard of send_data / send_trailers), and a second
   END_STREAM would be a panic, not a frame *)
Lemma send_closed_is_silent s :
  is_send_closed s = true ->
  is_send_streaming s = false /\
  (forall eos, send_open eos s = (s, RUserErr UnexpectedFrameType)) /\
  send_close s = (s, RPanic) /\
  reserve_local s = (s, RUserErr UnexpectedFrameType) /\
  sender_may (abs s) DATA = false /\ sender_may (abs s) HEADERS = false /\
  sender_may (abs s) PUSH_PROMISE = false.
Proof.
  d_state s; cbn [is_send_closed]; try discriminate; intros _; cbn;
    repeat split; auto; intros [|]; reflexivity.
Qed.

Lemma end_stream_closes_send_half s s1 :
  (send_open true s = (s1, RUnit) \/ send_close s = (s1, RUnit)) -> is_send_closed s1 = true.
Proof.
  intros [E|E]; d_state s; cbn in E; inversion E; subst; reflexivity.
Qed.

Theorem nothing_after_end_stream dbg s s1 os :
  (send_open true s = (s1, RUnit) \/ send_close s = (s1, RUnit)) ->
  let s2 := run dbg s1 os in
  is_send_closed s2 = true /\ is_send_streaming s2 = false /\
  (forall eos, send_open eos s2 = (s2, RUserErr UnexpectedFrameType)) /\
  send_close s2 = (s2, RPanic) /\
  sender_may (abs s2) DATA = false /\ sender_may (abs s2) HEADERS = false.
Proof.
  intros E s2.
  assert (C : is_send_closed s2 = true).
  { apply send_closed_forever. eapply end_stream_closes_send_half; eauto. }
  destruct (send_closed_is_silent s2 C) as (A1 & A2 & A3 & _ & A5 & A6 & _). auto 10.
Qed.

Definition is_ending (o : op) : bool :=
  match o with
  | ORecvReset _ _ _ | OHandleError _ | ORecvEof | OSetReset _ _ _ => true
  | _ => false
  end.

Lemma ending_closes dbg s o : is_ending o = true -> is_closed (fst (step dbg s o)) = true.
Proof.
  d_op o; cbn [is_ending]; try discriminate; intros _; d_state s; reflexivity.
Qed.

Lemma closed_is_silent s :
  is_closed s = true ->
  is_send_streaming s = false /\ is_recv_streaming s = false /\ is_recv_headers s = false /\
  (forall t, sender_may (abs s) t = true -> t = PRIORITY).
Proof.
  d_state s; cbn [is_closed]; try discriminate; intros _; cbn; repeat split; auto;
    intros [| | | | |]; cbn; congruence.
Qed.

Theorem nothing_after_reset dbg s o os :
  is_ending o = true ->
  let s2 := run dbg (fst (step dbg s o)) os in
  is_closed s2 = true /\ is_send_streaming s2 = false /\
  (forall eos, send_open eos s2 = (s2, RUserErr UnexpectedFrameType)) /\
  (forall t, sender_may (abs s2) t = true -> t = PRIORITY).
Proof.
  intros E s2.
  assert (C : is_closed s2 = true) by (apply closed_forever, ending_closes; auto).
  destruct (closed_is_silent s2 C) as (A1 & _ & _ & A4).
  repeat split; auto.
  intros eos. revert C. clear. d_state s2; cbn; try discriminate; reflexivity.
Qed.

Definition relabels (dbg : bool) (o : op) : bool :=
  match o with
  | ORecvReset _ _ true | OSetReset _ _ _ => true
  | OSetScheduledReset _ => negb dbg
  | _ => false
  end.

(* a reset the library has only scheduled (not yet written) is not a cause the peer can see *)
Definition unsent (c : cause) : bool :=
  match c with ScheduledLibraryReset _ => true | _ => false end.

(* Closed is absorbing with its cause, except for the three documented relabellings; a reset that is
   only scheduled additionally gives way to the peer's RST_STREAM (fix 036e89b of /repo) *)
Lemma closed_cause_stable dbg c o :
  unsent c = false ->
  relabels dbg o = false -> fst (step dbg (Closed c) o) = Closed c.
Proof.
  intros U. d_op o; destruct dbg; cbn [relabels negb]; try discriminate; intros _; destruct c;
    try discriminate U; reflexivity.
Qed.

Definition relabels_unsent (dbg : bool) (o : op) : bool :=
  relabels dbg o || match o with ORecvReset _ _ _ | OHandleError _ => true | _ => false end.

Lemma scheduled_cause_stable dbg r o :
  relabels_unsent dbg o = false ->
  fst (step dbg (Closed (ScheduledLibraryReset r)) o) = Closed (ScheduledLibraryReset r).
Proof.
  unfold relabels_unsent. d_op o; destruct dbg; cbn [relabels negb orb]; try discriminate; intros _; reflexivity.
Qed.

Theorem scheduled_cause_forever dbg r os :
  forallb (fun o => negb (relabels_unsent dbg o)) os = true ->
  run dbg (Closed (ScheduledLibraryReset r)) os = Closed (ScheduledLibraryReset r).
Proof.
  induction os as [|o os IH]; cbn [forallb run]; auto.
  intros F. apply andb_true_iff in F as [F1 F2].
  rewrite scheduled_cause_stable by (destruct (relabels_unsent dbg o); auto; discriminate). auto.
Qed.

(* the peer's reset replaces a reset that was never written *)
Lemma scheduled_reset_gives_way sid reason r :
  fst (recv_reset sid reason false (Closed (ScheduledLibraryReset r)))
    = Closed (CError (remote_reset sid reason)).
Proof. reflexivity. Qed.

Theorem closed_cause_forever dbg c os :
  unsent c = false ->
  forallb (fun o => negb (relabels dbg o)) os = true -> run dbg (Closed c) os = Closed c.
Proof.
  intros U. induction os as [|o os IH]; cbn [forallb run]; auto.
  intros F. apply andb_true_iff in F as [F1 F2].
  rewrite closed_cause_stable by (auto; destruct (relabels dbg o); auto; discriminate). auto.
Qed.

(* the only way into "send streaming" is a successful send_open(false) *)
Theorem only_send_open_starts_streaming dbg s o :
  is_send_streaming s = false -> is_send_streaming (fst (step dbg s o)) = true ->
  o = OSendOpen false /\ snd (step dbg s o) = RUnit.
Proof.
  d_state s; cbn [is_send_streaming]; try discriminate; intros _;
    d_op o; try destruct dbg; cbn; intros E; try discriminate; auto.
Qed.

Lemma idle_is_silent :
  is_send_streaming Idle = false /\ send_close Idle = (Idle, RPanic) /\
  (forall t, sender_may (abs Idle) t = true -> t = HEADERS \/ t = PRIORITY).
Proof. repeat split; auto. intros [| | | | |]; cbn; auto; discriminate. Qed.

(* what leaves Idle: on the send side only send_open (HEADERS) and reserve_local (PUSH_PROMISE);
   everything else that leaves it is a receive-side event or an ending *)
Lemma leaving_idle dbg o s' r :
  step dbg Idle o = (s', r) -> s' <> Idle ->
  res_ok r = true /\
  match o with
  | OSendOpen eos => s' = if eos then HalfClosedLocal AwaitingHeaders else Open Streaming AwaitingHeaders
  | OReserveLocal => s' = ReservedLocal
  | ORecvOpen _ _ | OReserveRemote => is_send_streaming s' = false
  | ORecvReset _ _ _ | OHandleError _ | ORecvEof | OSetReset _ _ _ | OSetScheduledReset _ =>
    is_closed s' = true
  | ORecvClose | OSendClose => False
  end.
Proof.
  d_op o; try destruct dbg; cbn; intros E N; inversion E; subst; auto; congruence.
Qed.

Lemma streaming_is_rfc_sendable s :
  is_send_streaming s = true ->
  sender_may (abs s) DATA = true /\ sender_may (abs s) HEADERS = true /\ send_phase s = body.
Proof. d_state s; cbn; intros E; try discriminate; auto. Qed.

(* ---------------------------------------------------------------------------------------------
   5. C09: the receiver side *)

(* recv_open: accepted exactly where is_recv_headers holds (the guard streams.rs tests first);
   every refusal is the connection error PROTOCOL_ERROR *)
Theorem recv_open_verdict eos info s :
  (is_recv_headers s = true /\ exists s' b, recv_open eos info s = (s', RBool b)) \/
  (is_recv_headers s = false /\
   recv_open eos info s = (s, RProtoErr (EGoAway [] PROTOCOL_ERROR Library))).
Proof. d_state s; destruct eos, info; cbn; eauto. Qed.

(* where the RFC requires HEADERS to be accepted and a header section is due, it is *)
Lemma recv_open_accepts_required eos info s h :
  receiver_must (abs s) h HEADERS = accept -> opening_ok (recv_phase s) = true ->
  exists s' b, recv_open eos info s = (s', RBool b).
Proof. d_state s; destruct eos, info; cbn; intros A P; try discriminate; eauto. Qed.

(* where the RFC demands a connection error for HEADERS, recv_open gives one *)
Lemma recv_open_conn_error_required eos info s h :
  receiver_must (abs s) h HEADERS = conn_error ->
  recv_open eos info s = (s, RProtoErr (library_go_away PROTOCOL_ERROR)).
Proof. d_state s; destruct eos, info; cbn; intros A; try discriminate; reflexivity. Qed.

(* the complete table of refusals of recv_open with the RFC's verdict beside it *)
Lemma recv_open_refusals eos info s h :
  recv_open eos info s = (s, RProtoErr (library_go_away PROTOCOL_ERROR)) ->
  receiver_must (abs s) h HEADERS = conn_error                      (* reserved (local) *)
  \/ (abs s = half_closed_remote /\ receiver_must (abs s) h HEADERS = stream_error)
  \/ abs s = closed
  \/ (receiver_must (abs s) h HEADERS = accept /\ recv_phase s = body).   (* 8.1.1 malformed *)
Proof. d_state s; destruct eos, info; cbn; intros E; try discriminate; auto. Qed.

Theorem recv_close_verdict s h :
  (receiver_must (abs s) h DATA = accept /\ snd (recv_close s) = RUnit /\
   rfc_step (abs s) Recv KES = Some (abs (fst (recv_close s)))) \/
  (receiver_must (abs s) h DATA <> accept /\ rfc_step (abs s) Recv KES = None /\
   recv_close s = (s, RProtoErr (EGoAway [] PROTOCOL_ERROR Library))).
Proof.
  d_state s; cbn; auto; right; repeat split; auto; destruct h; discriminate.
Qed.

Lemma recv_close_conn_error_required s h :
  receiver_must (abs s) h DATA = conn_error ->
  recv_close s = (s, RProtoErr (library_go_away PROTOCOL_ERROR)).
Proof. d_state s; cbn; intros A; try discriminate; reflexivity. Qed.

(* RST_STREAM is never an error for the state machine, in any state, with any code; on a closed
   stream without queued frames it changes nothing *)
Theorem recv_reset_tolerated sid r q s :
  snd (recv_reset sid r q s) = RUnit /\
  is_closed (fst (recv_reset sid r q s)) = true /\
  (is_closed s = true -> q = false -> get_scheduled_reset s = None -> fst (recv_reset sid r q s) = s) /\
  (receiver_must (abs s) (how_of s) RST_STREAM = conn_error -> s = Idle).
Proof.
  d_state s; destruct q; cbn; repeat split; auto; intros; discriminate.
Qed.

(* frames racing with a reset we sent: is_local_error is exactly "closed by our own reset / error",
   the condition under which the RFC wants later frames discarded, not treated as errors *)
Theorem local_error_iff s :
  is_local_error s = true <-> (abs s = closed /\ is_reset s = true /\ how_of s = by_sent_reset).
Proof.
  d_state s; try d_err e; cbn;
    (split; [intros X; try discriminate; auto | intros (A & B & C); try discriminate; auto]).
Qed.

Lemma local_error_means_tolerate s t :
  is_local_error s = true ->
  receiver_must (abs s) (how_of s) t = tolerate \/ receiver_must (abs s) (how_of s) t = accept.
Proof.
  intros L. apply local_error_iff in L as (A & _ & Hw). rewrite A, Hw.
  destruct t; cbn; auto.
Qed.

Lemma local_reset_is_flagged dbg sid r i s :
  i <> Remote ->
  is_local_error (fst (set_reset sid r i s)) = true /\
  (snd (set_scheduled_reset dbg r s) = RUnit ->
   is_local_error (fst (set_scheduled_reset dbg r s)) = true) /\
  is_local_error (fst (recv_reset sid r true s)) = false.
Proof.
  intros NR. repeat split.
  - destruct i; cbn; auto; congruence.
  - unfold set_scheduled_reset. destruct (dbg && is_closed s); cbn; auto; discriminate.
  - d_state s; reflexivity.
Qed.

(* ---------------------------------------------------------------------------------------------
   6. C17: the error that closed the stream is what the handles see *)

Definition both_modes (f : poll_reset -> res) (r : res) : Prop :=
  f PRAwaitingHeaders = r /\ f PRStreaming = r.

(* the peer's RST_STREAM(sid, r), for every r: *)
Theorem recv_reset_surfaces sid r q s :
  is_closed s = false \/ q = true ->
  let s' := fst (recv_reset sid r q s) in
  both_modes (fun m => ensure_reason m s') (RReason (Some r)) /\
  is_remote_reset s' = true /\ is_reset s' = true /\ is_local_error s' = false /\
  (is_recv_end_stream s = false ->
     s' = Closed (CError (EReset sid r Remote)) /\
     ensure_recv_open s' = RProtoErr (EReset sid r Remote)) /\
  (is_recv_end_stream s = true ->
     s' = Closed (ErrorAfterEndStream (EReset sid r Remote)) /\
     ensure_recv_open s' = RBool false /\ is_recv_end_stream s' = true).
Proof.
  intros G. unfold both_modes.
  d_state s; destruct q; cbn in G |- *; try (destruct G; discriminate);
    repeat split; auto; intros; discriminate.
Qed.

(* a connection-level error (GOAWAY received or sent, I/O failure, connection-level reset): *)
(* [poll_reset] always reports e; a read reports e unless the peer's message was already complete
   (HalfClosedRemote), then it ends cleanly and only the cause records e *)
Theorem handle_error_surfaces e s :
  is_closed s = false ->
  let s' := fst (handle_error e s) in
  (is_recv_end_stream s = false ->
     s' = Closed (CError e) /\ ensure_recv_open s' = RProtoErr e) /\
  (is_recv_end_stream s = true ->
     s' = Closed (ErrorAfterEndStream e) /\ ensure_recv_open s' = RBool false /\
     is_recv_end_stream s' = true) /\
  is_local_error s' = error_is_local e /\
  match e with
  | EReset _ r _ | EGoAway _ r _ => both_modes (fun m => ensure_reason m s') (RReason (Some r))
  | EIo _ _ => both_modes (fun m => ensure_reason m s') (RProtoErr e)
  end.
Proof.
  intros NC. unfold both_modes.
  d_state s; cbn in NC |- *; try discriminate; destruct e; cbn;
    repeat split; auto; intros; discriminate.
Qed.

Corollary go_away_surfaces debug r i s :
  is_closed s = false ->
  let s' := fst (handle_error (EGoAway debug r i) s) in
  (is_recv_end_stream s = false -> ensure_recv_open s' = RProtoErr (EGoAway debug r i)) /\
  (is_recv_end_stream s = true -> ensure_recv_open s' = RBool false) /\
  (s' = Closed (CError (EGoAway debug r i)) \/ s' = Closed (ErrorAfterEndStream (EGoAway debug r i))) /\
  both_modes (fun m => ensure_reason m s') (RReason (Some r)) /\
  is_local_error s' = initiator_is_local i.
Proof.
  intros NC. destruct (handle_error_surfaces (EGoAway debug r i) s NC) as (A & B & C & D).
  repeat split; auto.
  - intros R. apply A; auto.
  - intros R. apply B; auto.
  - destruct (is_recv_end_stream s) eqn:R; [right; apply B | left; apply A]; auto.
  - apply D.
  - apply D.
Qed.

Theorem recv_eof_surfaces s :
  is_closed s = false ->
  let s' := fst (recv_eof s) in
  (is_recv_end_stream s = false ->
     s' = Closed (CError (EIo IO_BROKEN_PIPE (Some EOF_MSG))) /\
     ensure_recv_open s' = RProtoErr (EIo IO_BROKEN_PIPE (Some EOF_MSG))) /\
  (is_recv_end_stream s = true ->
     s' = Closed (ErrorAfterEndStream (EIo IO_BROKEN_PIPE (Some EOF_MSG))) /\
     ensure_recv_open s' = RBool false /\ is_recv_end_stream s' = true) /\
  both_modes (fun m => ensure_reason m s') (RProtoErr (EIo IO_BROKEN_PIPE (Some EOF_MSG))).
Proof.
  intros NC. unfold both_modes.
  d_state s; cbn in NC |- *; try discriminate; repeat split; auto; intros; discriminate.
Qed.

Theorem set_reset_surfaces sid r i s :
  let s' := fst (set_reset sid r i s) in
  s' = Closed (CError (EReset sid r i)) /\
  ensure_recv_open s' = RProtoErr (EReset sid r i) /\
  both_modes (fun m => ensure_reason m s') (RReason (Some r)) /\
  is_local_error s' = initiator_is_local i /\
  is_remote_reset s' = negb (initiator_is_local i).
Proof. unfold both_modes. destruct i; cbn; auto 10. Qed.

Theorem scheduled_reset_surfaces dbg r s :
  snd (set_scheduled_reset dbg r s) = RUnit ->
  let s' := fst (set_scheduled_reset dbg r s) in
  get_scheduled_reset s' = Some r /\
  ensure_recv_open s' = RProtoErr (EGoAway [] r Library) /\
  both_modes (fun m => ensure_reason m s') (RReason (Some r)).
Proof.
  unfold set_scheduled_reset, both_modes. destruct (dbg && is_closed s); cbn; auto; discriminate.
Qed.

(* and it stays what the handles see: every later method sequence without a relabelling call *)
Theorem error_persists dbg e os :
  forallb (fun o => negb (relabels dbg o)) os = true ->
  let s' := run dbg (Closed (CError e)) os in
  ensure_recv_open s' = RProtoErr e /\
  (forall m, ensure_reason m s' = ensure_reason m (Closed (CError e))).
Proof.
  intros F s'. subst s'. rewrite closed_cause_forever by (auto; reflexivity). auto.
Qed.

(* a later connection error never replaces the first cause *)
Lemma first_error_wins e c :
  (unsent c = false -> fst (handle_error e (Closed c)) = Closed c) /\ fst (recv_eof (Closed c)) = Closed c /\
  (unsent c = false -> forall sid r, fst (recv_reset sid r false (Closed c)) = Closed c).
Proof. repeat split; intros U; destruct c; try discriminate U; reflexivity. Qed.

(* ... and to a connection error (fix of /repo: no RST_STREAM for a stream the error already ended) *)
Lemma scheduled_reset_gives_way_conn e r :
  fst (handle_error e (Closed (ScheduledLibraryReset r))) = Closed (CError e).
Proof. reflexivity. Qed.

(* ---------------------------------------------------------------------------------------------
   7. C07: endings *)

Definition conn_ending (o : op) : bool :=
  match o with OHandleError _ | ORecvEof => true | _ => false end.

Theorem connection_end_closes_forever dbg s o os :
  conn_ending o = true ->
  let s2 := run dbg (fst (step dbg s o)) os in
  is_closed s2 = true /\
  is_recv_headers s2 = false /\ is_recv_streaming s2 = false /\ is_send_streaming s2 = false /\
  (ensure_recv_open s2 = RBool false \/ exists e, ensure_recv_open s2 = RProtoErr e).
Proof.
  intros E s2.
  assert (C : is_closed s2 = true).
  { apply closed_forever. d_op o; cbn in E; try discriminate; d_state s; reflexivity. }
  destruct (closed_is_silent s2 C) as (A1 & A2 & A3 & _).
  repeat split; auto.
  revert C. clear. d_state s2; cbn; try discriminate; eauto.
Qed.

(* after a connection ending, a pending or later read on the stream ends either cleanly or with
   an error, never "still open" *)
Lemma closed_never_pending s : is_closed s = true -> ensure_recv_open s <> RBool true.
Proof. d_state s; cbn; try discriminate. Qed.

(* the code a closed stream's cause carries, as poll_reset reports it *)
Definition reason_report (e : perror) : res :=
  match e with
  | EReset _ r _ | EGoAway _ r _ => RReason (Some r)
  | EIo _ _ => RProtoErr e
  end.

(* A stream whose peer had finished its message (is_recv_end_stream: HalfClosedRemote,
   Closed(EndStream), Closed(ErrorAfterEndStream)) keeps the clean end when the connection ends:
   after handle_error / recv_eof and every later method sequence without a relabelling call, a read
   ends with Ok(false); the error is still recorded as the cause and poll_reset reports its code. *)
Theorem completed_message_after_connection_end dbg s o os :
  conn_ending o = true -> is_recv_end_stream s = true ->
  forallb (fun o' => negb (relabels dbg o')) os = true ->
  let s1 := fst (step dbg s o) in
  let s2 := run dbg s1 os in
  s2 = s1 /\ is_closed s2 = true /\
  is_recv_end_stream s2 = true /\ ensure_recv_open s2 = RBool false /\
  (is_closed s = true -> s1 = s) /\
  (is_closed s = false ->
   exists p e, s = HalfClosedRemote p /\ s1 = Closed (ErrorAfterEndStream e) /\
               (o = OHandleError e \/ (o = ORecvEof /\ e = eof_error)) /\
               forall m, ensure_reason m s2 = reason_report e).
Proof.
  intros E R F s1 s2.
  assert (C1 : exists c, s1 = Closed c /\ is_recv_end_stream s1 = true /\
                         ensure_recv_open s1 = RBool false).
  { subst s1. d_op o; cbn in E; try discriminate; d_state s; cbn in R |- *; try discriminate; eauto. }
  destruct C1 as (c & C1 & C2 & C3).
  assert (S2 : s2 = s1).
  { subst s2. rewrite C1. apply closed_cause_forever; auto.
    rewrite C1 in C2. destruct c; cbn in C2 |- *; auto; discriminate. }
  rewrite S2. repeat split; auto.
  - rewrite C1; reflexivity.
  - intros C. subst s1. d_op o; cbn in E; try discriminate; d_state s; cbn in C |- *;
      try discriminate; reflexivity.
  - intros C. subst s1.
    d_op o; cbn in E; try discriminate; d_state s; cbn in R, C |- *; try discriminate.
    + exists AwaitingHeaders, e. repeat split; auto; try (intros m; destruct e, m; reflexivity).
    + exists Streaming, e. repeat split; auto; try (intros m; destruct e, m; reflexivity).
    + exists AwaitingHeaders, eof_error. repeat split; auto; try (intros m; destruct m; reflexivity).
    + exists Streaming, eof_error. repeat split; auto; try (intros m; destruct m; reflexivity).
Qed.

(* The defect this repaired (h2 before commit "fix: keep the clean end of a completely received
   message when the connection ends"): handle_error / recv_eof had no HalfClosedRemote arm. *)
Definition handle_error_old (e : perror) (s : state) : state * res :=
  match s with
  | Closed _ => (s, RUnit)
  | _ => (Closed (CError e), RUnit)
  end.

Theorem fix_needed :
  ~ (forall e s, is_recv_end_stream s = true ->
                 ensure_recv_open (fst (handle_error_old e s)) = RBool false) /\
  (forall e s, is_recv_end_stream s = true ->
               ensure_recv_open (fst (handle_error e s)) = RBool false) /\
  (forall e p, is_recv_end_stream (HalfClosedRemote p) = true /\
               ensure_recv_open (HalfClosedRemote p) = RBool false /\
               ensure_recv_open (fst (handle_error_old e (HalfClosedRemote p))) = RProtoErr e).
Proof.
  split; [|split].
  - intros A. specialize (A eof_error (HalfClosedRemote Streaming) eq_refl).
    vm_compute in A. discriminate.
  - intros e s R. d_state s; cbn in R |- *; try discriminate; reflexivity.
  - intros e p. destruct p; repeat split.
Qed.

(* the contrast: the peer's RST_STREAM keeps the received END_STREAM in every state *)
Lemma recv_reset_keeps_end_stream sid r q s :
  is_recv_end_stream s = true ->
  is_recv_end_stream (fst (recv_reset sid r q s)) = true /\
  ensure_recv_open (fst (recv_reset sid r q s)) = RBool false.
Proof. d_state s; destruct q; cbn; intros E; try discriminate; auto. Qed.

(* local resets forget it as well *)
Lemma local_reset_forgets_end_stream sid r i s :
  is_recv_end_stream (fst (set_reset sid r i s)) = false /\
  ensure_recv_open (fst (set_reset sid r i s)) = RProtoErr (EReset sid r i).
Proof. split; reflexivity. Qed.

(* ---------------------------------------------------------------------------------------------
   8. examples (non-vacuity of the hypotheses above) *)

(* client request/response with bodies *)
Example ex_client_exchange :
  run true Idle [OSendOpen false; OSendClose; ORecvOpen false true; ORecvOpen false false; ORecvClose]
  = Closed EndStream.
Proof. reflexivity. Qed.

(* server: request without body, response with body *)
Example ex_server_exchange :
  run true Idle [ORecvOpen true false; OSendOpen false; OSendClose] = Closed EndStream.
Proof. reflexivity. Qed.

(* push: promised stream on the server and on the client *)
Example ex_push_server : run true Idle [OReserveLocal; OSendOpen false; OSendClose] = Closed EndStream.
Proof. reflexivity. Qed.
Example ex_push_client :
  run true Idle [OReserveRemote; ORecvOpen false false; ORecvClose] = Closed EndStream.
Proof. reflexivity. Qed.

(* the 1xx oddity *)
Example ex_push_client_1xx : run true Idle [OReserveRemote; ORecvOpen false true] = ReservedRemote.
Proof. reflexivity. Qed.

Example ex_send_open_refines :
  send_open false Idle = (Open Streaming AwaitingHeaders, RUnit) /\
  send_open true (HalfClosedRemote AwaitingHeaders) = (Closed EndStream, RUnit).
Proof. split; reflexivity. Qed.

Example ex_recv_open_refines :
  recv_open false false (Open Streaming AwaitingHeaders) = (Open Streaming Streaming, RBool false) /\
  recv_open true false Idle = (HalfClosedRemote AwaitingHeaders, RBool true).
Proof. split; reflexivity. Qed.

Example ex_errors :
  step true (HalfClosedLocal Streaming) (OSendOpen false)
    = (HalfClosedLocal Streaming, RUserErr UnexpectedFrameType) /\
  step true (HalfClosedRemote Streaming) ORecvClose
    = (HalfClosedRemote Streaming, RProtoErr (library_go_away PROTOCOL_ERROR)) /\
  step true Idle OSendClose = (Idle, RPanic) /\
  step true (Closed EndStream) (OSetScheduledReset 8) = (Closed EndStream, RPanic) /\
  step false (Closed EndStream) (OSetScheduledReset 8) = (Closed (ScheduledLibraryReset 8), RUnit).
Proof. repeat split. Qed.

Example ex_after_end_stream :
  send_close (Open Streaming Streaming) = (HalfClosedLocal Streaming, RUnit) /\
  send_open true Idle = (HalfClosedLocal AwaitingHeaders, RUnit).
Proof. split; reflexivity. Qed.

Example ex_recv_reset_surfaces :
  is_closed (Open Streaming Streaming) = false /\
  fst (recv_reset 5 3735928559 false (Open Streaming Streaming))
    = Closed (CError (EReset 5 3735928559 Remote)) /\
  fst (recv_reset 5 3735928559 true (Closed EndStream))
    = Closed (ErrorAfterEndStream (EReset 5 3735928559 Remote)) /\
  fst (recv_reset 5 0 true (HalfClosedRemote Streaming))
    = Closed (ErrorAfterEndStream (EReset 5 0 Remote)).
Proof. repeat split. Qed.

Example ex_go_away_surfaces :
  ensure_recv_open (fst (handle_error (EGoAway [1; 2; 3] 4294967295 Remote) (HalfClosedLocal Streaming)))
    = RProtoErr (EGoAway [1; 2; 3] 4294967295 Remote) /\
  ensure_reason PRStreaming (fst (handle_error (EGoAway [1; 2; 3] 4294967295 Remote) (HalfClosedLocal Streaming)))
    = RReason (Some 4294967295).
Proof. split; reflexivity. Qed.

(* the C07 case: the request was completely received, then the connection failed *)
Example ex_completed_then_eof :
  is_recv_end_stream (HalfClosedRemote Streaming) = true /\
  ensure_recv_open (HalfClosedRemote Streaming) = RBool false /\
  fst (recv_eof (HalfClosedRemote Streaming)) = Closed (ErrorAfterEndStream eof_error) /\
  ensure_recv_open (fst (recv_eof (HalfClosedRemote Streaming))) = RBool false /\
  ensure_recv_open (fst (recv_eof (Closed EndStream))) = RBool false /\
  ensure_recv_open (fst (recv_eof (Open Streaming Streaming))) = RProtoErr eof_error.
Proof. repeat split. Qed.

Example ex_no_relabel :
  forallb (fun o => negb (relabels true o)) [ORecvReset 1 2 false; OHandleError eof_error; ORecvEof;
                                              OSendOpen true; OSetScheduledReset 3] = true.
Proof. reflexivity. Qed.

Example ex_local_error :
  is_local_error (Closed (CError (EReset 1 8 Library))) = true /\
  is_local_error (Closed (CError (EReset 1 8 Remote))) = false.
Proof. split; reflexivity. Qed.
