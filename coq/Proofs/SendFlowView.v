(* "Window view" of a send-flow state — the connection window, the initial-window setting and, per
   record, (key, window, dead flag) — and the fact that all capacity-shuffling functions leave it
   unchanged. *)
From H2V Require Import Base.Tac Model.SendFlow Proofs.SendFlowLists Proofs.SendFlowInv.
Local Open Scope Z_scope.

Definition sproj (s : sstream) : N * (Z * bool) := (s_id s, (s_win s, s_dead s)).
Definition wview (st : fstate) := (c_win st, c_init st, map sproj (c_strs st)).

Lemma sproj_upd s' l s :
  find_s (s_id s') l = Some s -> sproj s' = sproj s -> map sproj (upd_s s' l) = map sproj l.
Proof.
  intros F E. revert F. induction l as [|x l IH]; cbn [find_s upd_s map]; [reflexivity|].
  destruct (N.eqb (s_id x) (s_id s')) eqn:Ex.
  - intros H; inversion H; subst. cbn [map]. now rewrite E.
  - intros H. cbn [map]. now rewrite IH.
Qed.

Lemma wview_put st s s' :
  find_s (s_id s') (c_strs st) = Some s -> s_win s' = s_win s -> s_dead s' = s_dead s ->
  wview (put st s') = wview st.
Proof.
  intros F Hw Hd. unfold wview. simp_s. f_equal.
  apply (sproj_upd s' _ s F). unfold sproj. rewrite Hw, Hd.
  rewrite (find_s_id _ _ _ F). reflexivity.
Qed.

Lemma notify_proj mb prev s s1 outs :
  notify_if_up mb prev s = (s1, outs) -> s_id s1 = s_id s /\ s_win s1 = s_win s /\ s_dead s1 = s_dead s.
Proof.
  unfold notify_if_up. destruct (prev <? capacity mb s); intros H; inversion H; subst; simp_s; auto.
Qed.

Lemma notify_no_data mb prev s s1 outs k len :
  notify_if_up mb prev s = (s1, outs) -> ~ In (OData k len) outs.
Proof.
  unfold notify_if_up. destruct (prev <? capacity mb s); intros H; inversion H; subst; cbn [In].
  - destruct (s_parked s); cbn [In]; intuition discriminate.
  - tauto.
Qed.

Definition quiet (outs : list out) : Prop :=
  (forall k len, ~ In (OData k len) outs) /\ has_conn_err outs = false.

Lemma quiet_nil : quiet [].
Proof. split; [intros k len []|reflexivity]. Qed.

Lemma has_conn_err_app a b : has_conn_err (a ++ b) = has_conn_err a || has_conn_err b.
Proof.
  induction a as [|x a IH]; cbn [app has_conn_err]; [reflexivity|].
  destruct x; cbn [orb]; auto.
Qed.

Lemma quiet_app a b : quiet a -> quiet b -> quiet (a ++ b).
Proof.
  intros (A1 & A2) (B1 & B2). split.
  - intros k len H. apply in_app_or in H. destruct H; [eapply A1|eapply B1]; eauto.
  - rewrite has_conn_err_app, A2, B2. reflexivity.
Qed.

Lemma notify_quiet mb prev s s1 outs : notify_if_up mb prev s = (s1, outs) -> quiet outs.
Proof.
  intros H. split; [intros k len; eapply notify_no_data; eauto|].
  unfold notify_if_up in H. destruct (prev <? capacity mb s); inversion H; subst; [|reflexivity].
  destruct (s_parked s); reflexivity.
Qed.

(* result of a capacity-shuffling function: view unchanged, no DATA, no connection error *)
Definition shuffle_ok (st : fstate) (r : outcome) : Prop :=
  match r with
  | Ok st' outs => wview st' = wview st /\ quiet outs
  | _ => True
  end.

Lemma shuffle_refl st : shuffle_ok st (Ok st []).
Proof. split; [reflexivity|apply quiet_nil]. Qed.

Lemma shuffle_view st0 st r : wview st = wview st0 -> shuffle_ok st r -> shuffle_ok st0 r.
Proof. intros E. destruct r; cbn [shuffle_ok]; auto. intros (A & B). split; [congruence|assumption]. Qed.

Lemma set_cavail_view st a : wview (set_cavail st a) = wview st.
Proof. reflexivity. Qed.

Lemma try_assign_shuffle st sid o : shuffle_ok st (try_assign st sid o).
Proof.
  unfold try_assign.
  destruct (find_s sid (c_strs st)) as [s|] eqn:F; [|exact I].
  pose proof (find_s_id _ _ _ F) as Hid.
  destruct (o_pending_open o); [apply shuffle_refl|].
  destruct (s_req s <? as_size (s_avail s)); [exact I|].
  destruct (as_size (s_win s) <? as_size (s_avail s)); [exact I|].
  destruct (Z.min (s_req s - as_size (s_avail s)) (as_size (s_win s) - as_size (s_avail s)) =? 0); [apply shuffle_refl|].
  destruct (negb (o_streaming o) && (s_buf s =? 0)); [apply shuffle_refl|].
  destruct (0 <? as_size (c_avail st)); [|apply shuffle_refl].
  match goal with |- context [in_i32 ?X] => destruct (negb (in_i32 X)); [exact I|] end.
  match goal with |- context [notify_if_up ?A ?B ?C] => destruct (notify_if_up A B C) as [s1 outs] eqn:En end.
  match goal with |- context [in_i32 ?X] => destruct (negb (in_i32 X)); [exact I|] end.
  cbn [shuffle_ok]. destruct (notify_proj _ _ _ _ _ En) as (P1 & P2 & P3). simp_s.
  split; [|eapply notify_quiet; eauto].
  change (wview (set_cavail (put st s1) (c_avail st - Z.min (as_size (c_avail st)) (Z.min (s_req s - as_size (s_avail s)) (as_size (s_win s) - as_size (s_avail s))))) = wview st).
  rewrite set_cavail_view. apply (wview_put st s s1); [rewrite P1, Hid; exact F|exact P2|exact P3].
Qed.

Lemma visit_all_shuffle vs : forall st outs,
  quiet outs -> shuffle_ok st (visit_all st outs vs).
Proof.
  induction vs as [|v vs IH]; intros st outs Hq; cbn [visit_all].
  - split; [reflexivity|assumption].
  - destruct (c_avail st <=? 0); [exact I|].
    pose proof (try_assign_shuffle st (v_sid v) (v_obs v)) as X.
    destruct (try_assign st (v_sid v) (v_obs v)) as [st1 o1| |]; cbn [shuffle_ok] in *; auto.
    destruct X as (X1 & X2).
    apply (shuffle_view st st1); [exact X1|]. apply IH. apply quiet_app; assumption.
Qed.

Lemma assign_conn_shuffle st inc vs : shuffle_ok st (assign_conn st inc vs).
Proof.
  unfold assign_conn. destruct (negb (in_i32 (c_avail st + inc))); [exact I|].
  apply (shuffle_view st (set_cavail st (c_avail st + inc))); [reflexivity|].
  apply visit_all_shuffle. apply quiet_nil.
Qed.

Lemma vs_nil_shuffle st (vs : list visit) n : shuffle_ok st (match vs with [] => Ok st [] | _ => Stuck n end).
Proof. destruct vs; [apply shuffle_refl|exact I]. Qed.

Lemma add_outs_shuffle st pre r : quiet pre -> shuffle_ok st r -> shuffle_ok st (add_outs pre r).
Proof.
  intros Hq. destruct r; cbn [add_outs shuffle_ok]; auto. intros (A & B). split; [assumption|apply quiet_app; assumption].
Qed.

Lemma bind_shuffle st r f :
  shuffle_ok st r -> (forall st1 o1, quiet o1 -> shuffle_ok st1 (f st1 o1)) -> shuffle_ok st (bind r f).
Proof.
  intros Hr Hf. destruct r as [st1 o1| |]; cbn [bind shuffle_ok] in *; auto.
  destruct Hr as (A & B). apply (shuffle_view st st1 _ A). apply Hf. exact B.
Qed.

Lemma reclaim_all_shuffle st sid vs : shuffle_ok st (reclaim_all st sid vs).
Proof.
  unfold reclaim_all. destruct (find_s sid (c_strs st)) as [s|] eqn:F; [|exact I].
  pose proof (find_s_id _ _ _ F) as Hid.
  destruct (0 <? as_size (s_avail s)); [|apply vs_nil_shuffle].
  match goal with |- shuffle_ok _ (assign_conn (put st ?S) _ _) => set (s' := S) end.
  apply (shuffle_view st (put st s')); [|apply assign_conn_shuffle].
  apply (wview_put st s s'); unfold s'; simp_s; [rewrite Hid; exact F|reflexivity|reflexivity].
Qed.

Lemma reclaim_reserved_shuffle st sid vs : shuffle_ok st (reclaim_reserved st sid vs).
Proof.
  unfold reclaim_reserved. destruct (find_s sid (c_strs st)) as [s|] eqn:F; [|exact I].
  pose proof (find_s_id _ _ _ F) as Hid.
  destruct (s_buf s <? as_size (s_avail s)); [|apply vs_nil_shuffle].
  match goal with |- shuffle_ok _ (assign_conn (put st ?S) _ _) => set (s' := S) end.
  apply (shuffle_view st (put st s')); [|apply assign_conn_shuffle].
  apply (wview_put st s s'); unfold s'; simp_s; [rewrite Hid; exact F|reflexivity|reflexivity].
Qed.

Lemma clear_queue_shuffle st sid : shuffle_ok st (clear_queue st sid).
Proof.
  unfold clear_queue. destruct (find_s sid (c_strs st)) as [s|] eqn:F; [|exact I].
  pose proof (find_s_id _ _ _ F) as Hid.
  split; [|apply quiet_nil].
  apply (wview_put st s); simp_s; [rewrite Hid; exact F|reflexivity|reflexivity].
Qed.

Lemma reserve_shuffle st sid sc o cap vs : shuffle_ok st (reserve st sid sc o cap vs).
Proof.
  unfold reserve. destruct (find_s sid (c_strs st)) as [s|] eqn:F; [|exact I].
  pose proof (find_s_id _ _ _ F) as Hid.
  destruct (cap + s_buf s =? s_req s); [apply vs_nil_shuffle|].
  destruct (cap + s_buf s <? s_req s).
  - destruct (cap + s_buf s <? as_size (s_avail (set_req s (cap + s_buf s)))).
    + match goal with |- shuffle_ok _ (assign_conn (put st ?S) _ _) => set (s' := S) end.
      apply (shuffle_view st (put st s')); [|apply assign_conn_shuffle].
      apply (wview_put st s s'); unfold s'; simp_s; [rewrite Hid; exact F|reflexivity|reflexivity].
    + destruct vs; [|exact I]. split; [|apply quiet_nil].
      apply (wview_put st s); simp_s; [rewrite Hid; exact F|reflexivity|reflexivity].
  - destruct sc; [apply vs_nil_shuffle|]. destruct vs; [|exact I].
    match goal with |- shuffle_ok _ (try_assign (put st ?S) _ _) => set (s' := S) end.
    apply (shuffle_view st (put st s')); [|apply try_assign_shuffle].
    apply (wview_put st s s'); unfold s'; simp_s; [rewrite Hid; exact F|reflexivity|reflexivity].
Qed.
