(* Obligations about the lock inventory regenerated from /repo's CURRENT source (Gen/LockInventory.v, by
   /verif/translator/gen_locks.py).  The inventory is a finite list, so each obligation is a computation (`vm_compute`);
   what it licenses is stated by the general theorems of Proofs/LocksProofs.v (no wait cycle for threads whose sections have
   these shapes) and Proofs/HandoverProofs.v (destructors on a poisoned lock). *)
From H2V Require Import Base.Tac Gen.LockInventory Model.Locks Proofs.LocksProofs Model.Handover Proofs.HandoverProofs.
From Coq Require Import String.
Local Open Scope string_scope.
Local Open Scope list_scope.

Definition is_inner (l : lockid) : bool := match l with LInner => true | LSendBuf => false end.
Definition is_sendbuf (l : lockid) : bool := negb (is_inner l).

(* `inner` is only ever taken with no guard alive (never under send_buffer, never twice on one path: std Mutex is not
   re-entrant); `send_buffer` is never taken while a guard of `send_buffer` is alive.  `entry` = guards the function runs
   under (Inner's own methods are only callable through a guard of `inner`: checked by the translator). *)
Definition held_ok (entry : list lockid) (a : acq) : bool :=
  match a_lock a with
  | LInner => match entry ++ a_held a with [] => true | _ => false end
  | LSendBuf => negb (existsb is_sendbuf (entry ++ a_held a))
  end.

(* ... and no transport / poll / await call happens while a guard is alive *)
Definition order_ok (s : site) : bool := forallb (held_ok (s_entry s)) (s_acqs s) && (s_blocking s =? 0)%N.

Definition inner_acqs (s : site) : list acq := filter (fun a => is_inner (a_lock a)) (s_acqs s).

Fixpoint mem_str (x : string) (l : list string) : bool :=
  match l with [] => false | y :: l' => String.eqb x y || mem_str x l' end.

Definition one_hold (s : site) : bool :=
  match inner_acqs s with
  | [a] => negb (a_in_loop a) && s_to_end s
  | _ => false
  end.

(* every operation reachable from a handle (and every connection-side entry point) is ONE uninterrupted hold of `inner`
   that lasts to the end of the function; the only functions that release and re-take it are the listed unlock points *)
Definition single_hold (s : site) : bool :=
  match s_kind s with
  | KHandle | KConn => one_hold s
  | KShared => if mem_str (s_fn s) conn_unlock_points then true else one_hold s
  | KInnerMethod => match inner_acqs s with [] => true | _ => false end
  | KOther => match inner_acqs s with [] => true | _ => false end
  end.

Theorem lock_order_ok : forallb order_ok lock_sites = true.
Proof. vm_compute. reflexivity. Qed.

Theorem single_hold_ok : forallb single_hold lock_sites = true.
Proof. vm_compute. reflexivity. Qed.

Theorem unlock_points_are : conn_unlock_points = ["Streams::send_pending_refusal"; "Streams::poll_complete"].
Proof. reflexivity. Qed.

(* the critical sections of a function as a program of Model/Locks.v (0 = inner, 1 = send_buffer) *)
Fixpoint sections_from (acqs : list acq) (open : bool) : list action :=
  match acqs with
  | [] => if open then [Work; Release 0%nat] else []
  | a :: r =>
    match a_lock a with
    | LInner => (if open then [Work; Release 0%nat] else []) ++ Acquire 0%nat :: sections_from r true
    | LSendBuf => Work :: Acquire 1%nat :: Work :: Release 1%nat :: sections_from r open
    end
  end.

Fixpoint split_sections (p : list action) (cur : list action) : list (list action) :=
  match p with
  | [] => match cur with [] => [] | _ => [rev cur] end
  | Release 0%nat :: r => rev (Release 0%nat :: cur) :: split_sections r []
  | Release 1%nat :: r => match cur with
                          | _ => if existsb (fun x => match x with Acquire 0%nat => true | _ => false end) cur
                                 then split_sections r (Release 1%nat :: cur)
                                 else rev (Release 1%nat :: cur) :: split_sections r []
                          end
  | x :: r => split_sections r (x :: cur)
  end.

Definition sections_of (s : site) : list (list action) :=
  match s_entry s with
  | [] => split_sections (sections_from (s_acqs s) false) []
  | _ => split_sections (Acquire 0%nat :: sections_from (s_acqs s) true) []     (* shown inside its caller's hold of `inner` *)
  end.

Theorem inventory_sections_ok : forallb (fun s => program_ok (sections_of s)) lock_sites = true.
Proof. vm_compute. reflexivity. Qed.

Lemma forallb_flat_map {A B} (f : B -> bool) (g : A -> list B) l :
  forallb (fun x => forallb f (g x)) l = true -> forallb f (flat_map g l) = true.
Proof.
  induction l as [|x l IH]; cbn [forallb flat_map]; [reflexivity|].
  rewrite andb_true_iff, forallb_app. intros [H1 H2]. rewrite H1. cbn [andb]. auto.
Qed.

Lemma forallb_sub {A} (f : A -> bool) l l' : (forall x, In x l' -> In x l) -> forallb f l = true -> forallb f l' = true.
Proof. intros Hs H. rewrite forallb_forall in *. auto. Qed.

(* Threads that run ANY sequences of the inventoried functions (the connection task, handle users, destructors) never
   reach a configuration in which some thread still has work and nobody can move. *)
Theorem inventory_no_deadlock (threads : list (list site)) cfg :
  (forall t s, In t threads -> In s t -> In s lock_sites) ->
  reachable (map h2_thread (map (flat_map sections_of) threads)) cfg ->
  (forall t, In t cfg -> todo t = []) \/ exists i cfg', Locks.step cfg i = Some cfg'.
Proof.
  intros Hsub. apply no_deadlock_two_locks. intros p Hp. apply in_map_iff in Hp. destruct Hp as (t & <- & Ht).
  unfold program_ok. apply forallb_flat_map.
  apply (forallb_sub _ lock_sites); [intros s Hs; now apply (Hsub t)|]. exact inventory_sections_ok.
Qed.

(* ---------------------------------------------------------------------------------------------- poisoned locks *)

Definition pmode_of (p : poison) : pmode :=
  match p with
  | PUnwrap => MUnwrap | PErr => MErr | PSkip => MSkip | PPanicUnlessPanicking => MPanicUnlessPanicking
  | PTry => MSkip                 (* try_lock in Debug::fmt prints "<Poisoned>" *)
  end.

(* the functions that run inside destructors of API handles (Streams::drop, OpaqueStreamRef::drop -> drop_stream_ref,
   RecvStream::drop -> clear_recv_buffer, Debug::fmt may run in a panic message) *)
Definition destructor_fns : list string :=
  ["Streams::drop(Drop)"; "drop_stream_ref"; "OpaqueStreamRef::clear_recv_buffer"; "OpaqueStreamRef::fmt(Debug)"].

Definition destructor_modes : list pmode :=
  flat_map (fun s => if mem_str (s_fn s) destructor_fns then map (fun a => pmode_of (a_poison a)) (s_acqs s) else []) lock_sites.

Theorem destructors_present_and_tolerant :
  drop_unwrap_paths = [] /\ List.length destructor_modes = 4%nat /\ forallb tolerant destructor_modes = true.
Proof. vm_compute. repeat split. Qed.

(* whatever handles a stack frame owns, unwinding it on a poisoned (or healthy) lock never panics again *)
Theorem destructors_never_abort ds poisoned :
  (forall m, In m ds -> In m destructor_modes) -> unwind ds poisoned <> RAborts.
Proof.
  intros Hsub. apply unwind_never_aborts.
  apply (forallb_sub _ destructor_modes); [exact Hsub|]. apply destructors_present_and_tolerant.
Qed.

(* every other acquisition of `inner` surfaces a poisoned lock: unwrap (panic) or an error; none runs on it silently *)
Theorem non_destructor_sites_surface_poison :
  forallb (fun s => if mem_str (s_fn s) destructor_fns then true
                    else forallb (fun a => match a_poison a with PUnwrap | PErr => true | _ => false end) (s_acqs s))
          lock_sites = true.
Proof. vm_compute. reflexivity. Qed.

(* ---------------------------------------------------------------------------------------------- what is NOT here *)

(* no `unsafe` in the files modelled for C20 (streams layer, ping_pong.rs, codec/framed_write.rs, share.rs, client.rs) *)
Definition modelled_file (f : string) : bool :=
  String.prefix "src/proto/" f || String.prefix "src/codec/" f || String.eqb f "src/share.rs" || String.eqb f "src/client.rs" ||
  String.eqb f "src/server.rs".

Theorem no_unsafe_in_modelled_files : forallb (fun p => negb (modelled_file (fst p))) unsafe_blocks = true.
Proof. vm_compute. reflexivity. Qed.

(* the hook events whose order the threaded correspondence relies on are emitted while `inner` is held *)
Definition locked_family (n : string) : bool :=
  String.prefix "prio." n || String.prefix "send." n || String.prefix "recv." n || String.prefix "counts." n ||
  String.prefix "store." n || String.prefix "stream." n || String.prefix "inner." n || String.prefix "queue." n.

Theorem family_hooks_are_under_the_lock :
  forallb (fun p => if locked_family (fst p) then match snd p with HLocked => true | _ => false end else true) hook_sites = true.
Proof. vm_compute. reflexivity. Qed.

Example inventory_nonempty : (60 <=? List.length lock_sites)%nat = true /\ existsb (fun s => String.eqb (s_fn s) "StreamRef::send_data") lock_sites = true.
Proof. vm_compute. split; reflexivity. Qed.
