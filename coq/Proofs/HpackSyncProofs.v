(* HPACK, both ends (C10 composed with C11): h2's ENCODER model (Model/HpackEnc.v) feeding h2's DECODER
   model (Model/HpackDec.v), with the Huffman decoder model [huff_decode_opt] in the decoder.

   C10 (Proofs/HpackEncProofs.v, [block_roundtrip]) says: the reference decoder of RFC 7541 accepts every
   block the encoder model emits and returns the submitted fields; C11 (Proofs/HpackDecProofs.v,
   [hpack_decode_complete_modulo_validation], [hpack_chunking_ok]) says: whatever that same reference
   accepts, with fields that pass the http-crate validation, h2's decoder model accepts with the same
   fields and the same table, in every fragmentation.  Glue proved here:
     * every octet string the encoder model emits is a string of octets (< 256)           [enc_encode_octets]
     * the reference relation is monotone in the protocol limit: h2's decoder keeps the MAXIMUM of the
       queued SETTINGS values as its ceiling (queue_size_update), the reference of C10 the LAST one
                                                                                         [block_decodes_limit_mono]
   Result: [block_both_ends] (one block, the invariant [hsync] is kept) and [hpack_both_ends] (every
   history).  No known-class hypothesis (KF-C11-1 / KF-C11-3): see [enc_blocks_not_known_1],
   [enc_blocks_table_within_limit]. *)
From Coq Require Import String.
From H2V Require Import Base.Tac Base.Bytes Gen.StaticTable Model.HttpTokens Model.Huffman Model.HpackInt.
From H2V Require Import Ref.Rfc7541Int Ref.Rfc7541Static Ref.Rfc7541Block.
From H2V Require Import Model.HpackEnc Model.HpackDec.
From H2V Require Import Proofs.HuffmanProofs Proofs.HpackIntProofs Proofs.HpackEncProofs Proofs.HpackDecProofs.
Local Open Scope N_scope.

Notation hd := huff_decode_opt (only parsing).

(* ====================================================================================== *)
(* A. what the encoder writes are octets *)

Lemma lor_lt a b n : a < 2 ^ n -> b < 2 ^ n -> N.lor a b < 2 ^ n.
Proof.
  intros Ha Hb.
  destruct (N.eq_dec a 0) as [->|Ha0]; [rewrite N.lor_0_l; exact Hb|].
  destruct (N.eq_dec b 0) as [->|Hb0]; [rewrite N.lor_0_r; exact Ha|].
  assert (Hl : N.lor a b <> 0).
  { intros H. apply N.lor_eq_0_iff in H. destruct H as [H _]. contradiction. }
  apply N.log2_lt_pow2; [lia|]. rewrite N.log2_lor.
  apply N.max_lub_lt; apply N.log2_lt_pow2; lia.
Qed.

Lemma lor_byte a b : a < 256 -> b < 256 -> N.lor a b < 256.
Proof. change 256 with (2 ^ 8). apply lor_lt. Qed.

Lemma bytes_ok_one b : b < 256 -> bytes_ok [b] = true.
Proof. intros H. apply bytes_ok_cons. split; [exact H|reflexivity]. Qed.

Lemma enc_int_cont_octets : forall fuel v, bytes_ok (enc_int_cont fuel v) = true.
Proof.
  induction fuel as [|fuel IH]; intros v; [reflexivity|]. cbn [enc_int_cont].
  destruct (128 <=? v) eqn:E.
  - apply bytes_ok_cons. split; [|apply IH].
    apply lor_byte; [lia|]. apply N.mod_lt. lia.
  - apply N.leb_gt in E. apply bytes_ok_one. lia.
Qed.

Lemma pow2_le_256 p : p <= 8 -> 2 ^ p <= 256.
Proof. intros H. change 256 with (2 ^ 8). apply N.pow_le_mono_r; lia. Qed.

Lemma enc_int_octets v p fb : p <= 8 -> fb < 256 -> bytes_ok (enc_int v p fb) = true.
Proof.
  intros Hp Hfb. pose proof (pow2_le_256 p Hp) as H2. pose proof (pow2_pos p) as H0.
  unfold enc_int, encode_int_one_byte. destruct (v <? 2 ^ p - 1) eqn:E.
  - apply N.ltb_lt in E. apply bytes_ok_one. apply lor_byte; lia.
  - apply bytes_ok_cons. split; [apply lor_byte; lia|apply enc_int_cont_octets].
Qed.

Lemma enc_str_octets s : bytes_ok s = true -> bytes_ok (enc_str s) = true.
Proof.
  intros Hs. rewrite enc_str_shape. destruct s as [|x s]; [reflexivity|].
  rewrite bytes_ok_app. rewrite enc_int_octets by (change (1 * 2 ^ 7) with 128; lia).
  destruct (huff_encode_total (x :: s) Hs) as [_ H]. rewrite H. reflexivity.
Qed.

Lemma encode_not_indexed_octets i v sens : bytes_ok v = true -> bytes_ok (encode_not_indexed i v sens) = true.
Proof.
  intros Hv. unfold encode_not_indexed. rewrite bytes_ok_app, (enc_str_octets v Hv).
  destruct sens; rewrite enc_int_octets by lia; reflexivity.
Qed.

Lemma encode_not_indexed2_octets n v sens :
  bytes_ok n = true -> bytes_ok v = true -> bytes_ok (encode_not_indexed2 n v sens) = true.
Proof.
  intros Hn Hv. unfold encode_not_indexed2. rewrite !bytes_ok_app, (enc_str_octets n Hn), (enc_str_octets v Hv).
  destruct sens; reflexivity.
Qed.

Lemma encode_header_octets idx h octets :
  bytes_ok (h_name h) = true -> bytes_ok (h_value h) = true ->
  encode_header idx h = EOk octets -> bytes_ok octets = true.
Proof.
  intros Hn Hv. unfold encode_header. destruct idx as [i|i|s|i s|].
  - intros H. inversion H; subst. apply enc_int_octets; lia.
  - intros H. inversion H; subst. apply encode_not_indexed_octets. exact Hv.
  - destruct (hdr_is_sensitive h); [discriminate|]. intros H. inversion H; subst.
    apply bytes_ok_cons. split; [lia|]. rewrite bytes_ok_app, (enc_str_octets _ Hn), (enc_str_octets _ Hv). reflexivity.
  - destruct (hdr_is_sensitive h); [discriminate|]. intros H. inversion H; subst.
    rewrite bytes_ok_app, (enc_str_octets _ Hv). rewrite enc_int_octets by lia. reflexivity.
  - intros H. inversion H; subst. apply encode_not_indexed2_octets; assumption.
Qed.

Lemma encode_header_without_name_octets last lh v sens :
  bytes_ok (h_name lh) = true -> bytes_ok v = true ->
  bytes_ok (encode_header_without_name last lh v sens) = true.
Proof.
  intros Hn Hv. unfold encode_header_without_name. destruct (resolve_idx last).
  - apply encode_not_indexed_octets. exact Hv.
  - apply encode_not_indexed2_octets; assumption.
Qed.

Lemma str_ok_bytes s : str_ok s = true -> bytes_ok s = true.
Proof. intros H. apply str_ok_spec in H. apply H. Qed.

Lemma encode_loop_octets : forall fl t last t' out,
  forallb field_ok fl = true ->
  match last with Some (_, lh) => bytes_ok (h_name lh) = true | None => True end ->
  encode_loop t last fl = EOk (t', out) -> bytes_ok out = true.
Proof.
  induction fl as [|f fl IH]; intros t last t' out Hok Hlast H; cbn [encode_loop] in H.
  - inversion H; subst. reflexivity.
  - cbn [forallb] in Hok. apply andb_true_iff in Hok. destruct Hok as [Hf Hok].
    unfold field_ok in Hf. apply andb_true_iff in Hf. destruct Hf as [Hfn Hfv].
    apply str_ok_bytes in Hfv.
    destruct (fi_name f) as [n|] eqn:En.
    + apply str_ok_bytes in Hfn.
      destruct (table_index t (mkHdr n (fi_value f) (fi_sens f))) as [[t1 idx]|e] eqn:Eti; [|discriminate].
      destruct (encode_header idx (mkHdr n (fi_value f) (fi_sens f))) as [octets|e] eqn:Eeh; [|discriminate].
      destruct (encode_loop t1 (Some (idx, mkHdr n (fi_value f) (fi_sens f))) fl) as [[t2 rest]|e] eqn:El; [|discriminate].
      inversion H; subst. rewrite bytes_ok_app.
      rewrite (encode_header_octets idx (mkHdr n (fi_value f) (fi_sens f)) octets Hfn Hfv Eeh).
      rewrite (IH t1 (Some (idx, mkHdr n (fi_value f) (fi_sens f))) _ _ Hok Hfn El). reflexivity.
    + destruct last as [[idx lh]|]; [|discriminate].
      destruct (encode_loop t (Some (idx, lh)) fl) as [[t2 rest]|e] eqn:El; [|discriminate].
      inversion H; subst. rewrite bytes_ok_app.
      rewrite (encode_header_without_name_octets idx lh _ (fi_sens f) Hlast Hfv).
      rewrite (IH t (Some (idx, lh)) _ _ Hok Hlast El). reflexivity.
Qed.

Lemma enc_size_update_octets v : bytes_ok (enc_size_update v) = true.
Proof. unfold enc_size_update. apply enc_int_octets; lia. Qed.

(* for EVERY encoder state: a block the encoder emits for strings of octets is a string of octets *)
Theorem enc_encode_octets st fl st2 out :
  forallb field_ok fl = true -> enc_encode st fl = EOk (st2, out) -> octets out.
Proof.
  intros Hok H. apply bytes_ok_octets. unfold enc_encode in H.
  destruct (encode_size_updates st) as [[st1 upd]|e] eqn:Eu; [|discriminate].
  destruct (encode_loop (e_table st1) None fl) as [[t2 body]|e] eqn:El; [|discriminate].
  inversion H; subst. rewrite bytes_ok_app. rewrite (encode_loop_octets fl (e_table st1) None t2 body Hok I El).
  rewrite andb_true_r. unfold encode_size_updates in Eu.
  destruct (e_size_update st) as [[v|mn mx]|].
  - destruct (table_resize (e_table st) v); [|discriminate]. inversion Eu; subst. apply enc_size_update_octets.
  - destruct (table_resize (e_table st) mn) as [t1|]; [|discriminate].
    destruct (table_resize t1 mx); [|discriminate]. inversion Eu; subst.
    rewrite bytes_ok_app, !enc_size_update_octets. reflexivity.
  - inversion Eu; subst. reflexivity.
Qed.

(* ====================================================================================== *)
(* B. the reference relation is monotone in the protocol limit *)

Lemma updates_decode_limit_mono L lim lim' dyn max bs dyn' max' :
  lim <= lim' -> updates_decode L lim dyn max bs dyn' max' -> updates_decode L lim' dyn max bs dyn' max'.
Proof.
  intros Hle H. induction H as [|dyn max enc n bs dyn' max' Hs _ IH]; [constructor|].
  eapply ud_cons; [|exact IH]. inversion Hs; subst. constructor; [assumption|lia].
Qed.

Lemma block_decodes_limit_mono hdf L rs bs fs rs' lim' :
  r_limit rs <= lim' -> block_decodes hdf L rs bs fs rs' ->
  block_decodes hdf L (mk_rstate (r_dyn rs) (r_max rs) lim') bs fs (mk_rstate (r_dyn rs') (r_max rs') lim').
Proof.
  intros Hle (b1 & b2 & dyn1 & max1 & -> & Hu & Hf & Hm & Hl).
  exists b1, b2, dyn1, max1. cbn [r_dyn r_max r_limit]. split; [reflexivity|].
  split; [eapply updates_decode_limit_mono; eassumption|]. auto.
Qed.

(* ====================================================================================== *)
(* C. queue_size_update: the ceiling in force for the next block *)

Lemma fold_queue_table : forall ups d,
  d_table (fold_left queue_size_update ups d) = d_table d /\
  d_last_max (fold_left queue_size_update ups d) = d_last_max d.
Proof.
  induction ups as [|u ups IH]; intros d; cbn [fold_left]; [auto|].
  destruct (IH (queue_size_update d u)) as [A B]. rewrite A, B. auto.
Qed.

Lemma last_limit_of_queue d u : u <= last_limit_of (queue_size_update d u) /\
                                last_limit_of d <= last_limit_of (queue_size_update d u) \/
                                d_queued d = None /\ last_limit_of (queue_size_update d u) = u.
Proof.
  unfold last_limit_of, take_queued, queue_size_update. cbn [d_queued d_last_max].
  destruct (d_queued d) as [v|]; cbn [d_last_max]; [left; lia|right; auto].
Qed.

Lemma queued_limit_ge_last : forall ups d x,
  ups <> [] -> last ups x <= last_limit_of (fold_left queue_size_update ups d).
Proof.
  assert (Mono : forall ups d, d_queued d <> None ->
            last_limit_of d <= last_limit_of (fold_left queue_size_update ups d) /\
            d_queued (fold_left queue_size_update ups d) <> None).
  { induction ups as [|u ups IH]; intros d Hq; cbn [fold_left]; [split; [lia|exact Hq]|].
    assert (Hq1 : d_queued (queue_size_update d u) <> None) by (unfold queue_size_update; cbn [d_queued]; discriminate).
    destruct (IH _ Hq1) as [A B]. split; [|exact B].
    destruct (last_limit_of_queue d u) as [[_ H]|[H _]]; [lia|contradiction]. }
  induction ups as [|u ups IH]; intros d x Hne; [contradiction|].
  cbn [fold_left]. destruct ups as [|u' ups'].
  - cbn [fold_left last]. destruct (last_limit_of_queue d u) as [[H _]|[_ H]]; lia.
  - rewrite last_cons. change (last (u' :: ups') u) with (last (u' :: ups') x) || idtac.
    rewrite (last_indep ups' u' u x). apply IH. discriminate.
Qed.

Lemma queued_limit d ups :
  d_queued d = None ->
  last ups (d_last_max d) <= last_limit_of (fold_left queue_size_update ups d).
Proof.
  intros Hq. destruct ups as [|u ups].
  - cbn [fold_left last]. unfold last_limit_of, take_queued. rewrite Hq. lia.
  - apply queued_limit_ge_last. discriminate.
Qed.

(* ====================================================================================== *)
(* D. one block through both models *)

(* the two ends between two blocks: the encoder invariant of C10, the decoder invariant of C11, equal
   tables (entries and maximum), nothing queued, and the table maximum within the decoder's ceiling *)
Definition hsync (st : enc_state) (d : decoder) : Prop :=
  einv st /\ e_size_update st = None /\ wf d /\ d_queued d = None /\
  t_entries (d_table d) = et_entries (e_table st) /\
  t_max (d_table d) = et_max (e_table st) /\
  et_max (e_table st) <= d_last_max d.

Lemma hsync_sizes st d : hsync st d ->
  t_size (d_table d) = et_size (e_table st) /\ t_size (d_table d) <= t_max (d_table d) /\
  t_max (d_table d) <= d_last_max d /\ t_max (d_table d) <= 4096.
Proof.
  intros (((Ht1 & Ht2) & H4 & _) & _ & (_ & Hs & Hle) & _ & He & Hm & Hl).
  assert (E : t_size (d_table d) = et_size (e_table st)) by (rewrite Hs, He; symmetry; exact Ht1).
  rewrite Hm. split; [exact E|]. split; [rewrite <- Hm; exact Hle|]. split; [exact Hl|exact H4].
Qed.

Lemma hsync_init m0 : hsync (enc_new m0) (decoder_new (N.min m0 4096)).
Proof.
  destruct (sync_init m0) as (Hi & Hn & _).
  unfold hsync. split; [exact Hi|]. split; [exact Hn|]. split; [apply wf_table_new|].
  unfold decoder_new, HpackDec.table_new, enc_new, HpackEnc.table_new, DEFAULT_MAX_ALLOWED_SIZE.
  cbn [d_queued d_table d_last_max t_entries t_max e_table et_entries et_max]. repeat split; lia.
Qed.

Definition fields_valid (fs : list (list N * list N)) : bool := forallb field_valid fs.

Theorem block_both_ends st d ups fl :
  hsync st d -> block_ok fl = true -> fields_valid (submitted fl) = true ->
  exists st2 out,
    enc_encode (fold_left enc_update_max_size ups st) fl = EOk (st2, out) /\
    let d1 := fold_left queue_size_update ups d in
    r_verdict (decode hd d1 out) = VOk /\
    r_fields (decode hd d1 out) = submitted fl /\
    hsync st2 (r_dec (decode hd d1 out)) /\
    rfc_block_decodes hd h2_int_limit (abs (take_queued d1)) out (submitted fl) (abs (r_dec (decode hd d1 out))) /\
    (forall frags, frags <> [] -> concat frags = out ->
       same_result (decode_chunks hd d1 frags) (decode hd d1 out)).
Proof.
  intros (Hi & Hnone & Hwf & Hq & Hent & Hmax & Hlim) Hok Hval.
  set (rs := abs d).
  assert (Hs : sync st rs).
  { unfold sync, rs, abs. cbn [r_dyn r_max r_limit]. auto. }
  destruct (block_roundtrip h2_int_limit st rs ups fl ltac:(unfold h2_int_limit; lia) Hs Hok)
    as (st2 & out & rs2 & Henc & Hdec & Hs2).
  exists st2, out. split; [exact Henc|]. cbv zeta.
  set (d1 := fold_left queue_size_update ups d).
  destruct (fold_queue_table ups d) as [Htab Hlm]. fold d1 in Htab, Hlm.
  assert (Hwf1 : wf d1) by (unfold wf; rewrite Htab; exact Hwf).
  assert (Hoct : octets out).
  { unfold block_ok in Hok. apply andb_true_iff in Hok. destruct Hok as [_ Hok].
    eapply enc_encode_octets; eassumption. }
  apply rfc_ref_decode_block_spec in Hdec. destruct Hdec as [Hbd Hred].
  pose proof (queued_limit d ups Hq) as Hql. fold d1 in Hql.
  rewrite last_limit_spec in Hbd, Hred.
  assert (Hl2 : r_limit rs2 = last ups (d_last_max d)).
  { destruct Hbd as (b1 & b2 & dyn1 & max1 & _ & _ & _ & _ & Hl). exact Hl. }
  apply (block_decodes_limit_mono _ _ _ _ _ _ (last_limit_of d1)) in Hbd;
    [|unfold rs, abs; cbn [r_limit]; exact Hql].
  cbn [r_dyn r_max] in Hbd.
  assert (Habs : abs (take_queued d1) = mk_rstate (r_dyn rs) (r_max rs) (last_limit_of d1)).
  { unfold abs, rs. cbn [r_dyn r_max]. rewrite take_queued_table, Htab. reflexivity. }
  rewrite <- Habs in Hbd.
  destruct (hpack_decode_complete_modulo_validation hd d1 out _ _ Hwf1 Hoct Hbd Hval) as (Hv & Hf & Ha).
  split; [exact Hv|]. split; [exact Hf|]. split.
  - destruct (decode_inv hd d1 out Hwf1) as (Hwf2 & Hq2 & Hlm2 & _).
    destruct Hs2 as (Hi2 & Hn2 & Hdyn2 & Hmax2 & Hlim2).
    unfold abs in Ha. injection Ha as Ha1 Ha2 Ha3.
    unfold hsync. split; [exact Hi2|]. split; [exact Hn2|]. split; [exact Hwf2|]. split; [exact Hq2|].
    split; [rewrite Ha1; exact Hdyn2|]. split; [rewrite Ha2; exact Hmax2|].
    rewrite Ha3. lia.
  - split.
    + split.
      * rewrite Ha. exact Hbd.
      * rewrite Habs. unfold reduction_signalled in *. unfold rs, abs in Hred, Hql |- *.
        cbn [r_dyn r_max r_limit] in Hred, Hql |- *.
        destruct Hred as [Hred|(enc & n & rest & E & Hsu)]; [left; lia|right].
        exists enc, n, rest. split; [exact E|]. inversion Hsu; subst. constructor; [assumption|lia].
    + intros frags Hne Hc. subst out. apply hpack_chunking_ok; assumption.
Qed.

(* ====================================================================================== *)
(* E. the known classes of C11 do not occur on what the encoder model emits *)

(* KF-C11-1 (a size update after a header field, where fragmentation matters): never -- the encoder
   emits size updates only in front of the first field of a block (C10_reduction_signalled), and
   KF-C11-3 (a required size update is not enforced by the decoder): irrelevant here, because the
   encoder does signal every reduction: the conclusions of C11's two `_except_known` theorems hold for
   every block of the encoder model WITHOUT their hypothesis [~ required_update_pending]. *)
Theorem enc_blocks_outside_known_classes st d ups fl :
  hsync st d -> block_ok fl = true -> fields_valid (submitted fl) = true ->
  exists st2 out,
    enc_encode (fold_left enc_update_max_size ups st) fl = EOk (st2, out) /\
    let d1 := fold_left queue_size_update ups d in
    let d2 := r_dec (decode hd d1 out) in
    ~ size_update_after_field hd d1 out /\
    rfc_block_decodes hd h2_int_limit (abs (take_queued d1)) out (r_fields (decode hd d1 out)) (abs d2) /\
    (t_size (d_table d2) <= t_max (d_table d2) /\ t_max (d_table d2) <= d_last_max d2).
Proof.
  intros Hs Hok Hval.
  destruct (block_both_ends st d ups fl Hs Hok Hval) as (st2 & out & Henc & Hv & Hf & Hs2 & Hrfc & _).
  exists st2, out. split; [exact Henc|]. cbv zeta. split; [|split].
  - unfold size_update_after_field. intros Hq. rewrite decode_is_run in Hq, Hv.
    pose proof (run_quirk_verdict hd _ _ (le_n _) true _ Hq) as Hbad. rewrite Hv in Hbad. discriminate.
  - rewrite Hf. exact Hrfc.
  - destruct (hsync_sizes _ _ Hs2) as (_ & A & B & _). auto.
Qed.

(* ====================================================================================== *)
(* F. every history *)

(* h2's decoder model over a history: the SETTINGS values are queued before each block
   (queue_size_update), the block arrives as the given fragments (decode_chunks =
   HEADERS/PUSH_PROMISE + CONTINUATION payloads), a block that is not accepted ends the run *)
Fixpoint dec_h2_run (d : decoder) (h : history) (fragss : list (list (list N)))
  : option (list (list (list N * list N)) * decoder) :=
  match h, fragss with
  | [], [] => Some ([], d)
  | (ups, _) :: h', frags :: fragss' =>
    let r := decode_chunks hd (fold_left queue_size_update ups d) frags in
    match r_verdict r with
    | VOk =>
      match dec_h2_run (r_dec r) h' fragss' with
      | Some (fss, d') => Some (r_fields r :: fss, d')
      | None => None
      end
    | _ => None
    end
  | _, _ => None
  end.

(* C11's side condition, for every submitted list: the fields pass the http-crate validation that
   h2's decoder applies (Header::new: HeaderName::from_lowercase / HeaderValue / Method / StatusCode) *)
Definition history_valid (h : history) : bool := forallb (fun b => fields_valid (submitted (snd b))) h.

(* any way of cutting each block into (at least one) fragments *)
Definition fragmentation (fragss : list (list (list N))) (outs : list (list N)) : Prop :=
  Forall2 (fun frags out => frags <> [] /\ concat frags = out) fragss outs.

Lemma run_both_ends : forall h st d,
  hsync st d -> history_ok h = true -> history_valid h = true ->
  exists st' outs, enc_run st h = EOk (st', outs) /\
    forall fragss, fragmentation fragss outs ->
      exists d', dec_h2_run d h fragss = Some (map (fun b => submitted (snd b)) h, d') /\ hsync st' d'.
Proof.
  induction h as [|[ups fl] h IH]; intros st d Hs Hok Hval.
  - exists st, []. split; [reflexivity|]. intros fragss Hfr. inversion Hfr; subst. exists d. auto.
  - cbn [history_ok forallb snd] in Hok. apply andb_true_iff in Hok. destruct Hok as [Hb Hok].
    cbn [history_valid forallb snd] in Hval. apply andb_true_iff in Hval. destruct Hval as [Hvb Hval].
    destruct (block_both_ends st d ups fl Hs Hb Hvb) as (st2 & out & Henc & Hv & Hf & Hs2 & _ & Hch).
    destruct (IH st2 _ Hs2 Hok Hval) as (st' & outs & Hrun & Hd).
    exists st', (out :: outs). cbn [enc_run]. rewrite Henc, Hrun. split; [reflexivity|].
    intros fragss Hfr. inversion Hfr as [|frags o fragss' os [Hne Hc] Hrest]; subst.
    destruct (Hch frags Hne eq_refl) as (Cf & Cv & Cd).
    destruct (Hd fragss' Hrest) as (d' & Hdr & Hs').
    exists d'. split; [|exact Hs'].
    cbn [dec_h2_run map snd]. rewrite Cv, Hv, Cd, Hdr, Cf, Hf. reflexivity.
Qed.

(* C10 + C11: for EVERY initial size, EVERY history of SETTINGS values and header lists whose strings
   are octet strings shorter than 2^24 (history_ok, C10) and pass h2's field validation
   (history_valid, C11), and EVERY fragmentation of every block: the encoder model does not fail, the
   decoder model accepts every block and yields exactly the submitted field lists, in order; afterwards
   the two dynamic tables are equal (entries, size, maximum) and within the decoder's ceiling. *)
Theorem hpack_both_ends : forall (m0 : N) (h : history),
  history_ok h = true -> history_valid h = true ->
  exists st outs,
    enc_run (enc_new m0) h = EOk (st, outs) /\
    forall fragss, fragmentation fragss outs ->
      exists d',
        dec_h2_run (decoder_new (N.min m0 4096)) h fragss = Some (map (fun b => submitted (snd b)) h, d') /\
        t_entries (d_table d') = et_entries (e_table st) /\
        t_size (d_table d') = et_size (e_table st) /\
        t_max (d_table d') = et_max (e_table st) /\
        t_size (d_table d') <= t_max (d_table d') /\ t_max (d_table d') <= d_last_max d'.
Proof.
  intros m0 h Hok Hval.
  destruct (run_both_ends h _ _ (hsync_init m0) Hok Hval) as (st & outs & Hrun & Hd).
  exists st, outs. split; [exact Hrun|]. intros fragss Hfr.
  destruct (Hd fragss Hfr) as (d' & Hdr & Hs). exists d'. split; [exact Hdr|].
  destruct (hsync_sizes _ _ Hs) as (A & B & C & _).
  destruct Hs as (_ & _ & _ & _ & He & Hm & _). auto 10.
Qed.

(* non-vacuity: C10's demonstration history (pseudo header, static name, repeats, a nameless item,
   sensitive values, a lower-then-higher and a to-zero size change) satisfies both side conditions;
   the three blocks, cut into single octets, come out of the decoder model as submitted *)
Example hpack_both_ends_nonvacuous :
  history_ok demo_history = true /\ history_valid demo_history = true /\
  match enc_run (enc_new 4096) demo_history with
  | EOk (st, outs) =>
    let fragss := map (fun o => map (fun b => [b]) o) outs in
    fragmentation fragss outs /\
    match dec_h2_run (decoder_new 4096) demo_history fragss with
    | Some (fss, d') => fss = map (fun b => submitted (snd b)) demo_history /\
                        t_entries (d_table d') = et_entries (e_table st)
    | None => False
    end
  | EFail _ => False
  end.
Proof.
  split; [vm_compute; reflexivity|]. split; [vm_compute; reflexivity|].
  destruct (enc_run (enc_new 4096) demo_history) as [[st outs]|e] eqn:E; [|vm_compute in E; discriminate].
  vm_compute in E. inversion E; subst. clear E. cbv zeta. split.
  - repeat constructor; try discriminate; vm_compute; reflexivity.
  - vm_compute. auto.
Qed.
