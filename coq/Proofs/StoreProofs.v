(* Every label preserves the invariant of the store model; the C19 theorems. *)
From H2V Require Import Base.Tac Model.Counts Model.Store Proofs.CountsProofs Proofs.StoreLists Proofs.StoreInv.
Local Open Scope N_scope.

Ltac simp_s :=
  unfold put, set_slab, set_ids, set_qs, set_cs, set_refs in *;
  cbn [slab ids refs nstreams handles qs cs] in *.

(* the labels that carry a store::Key obtained by the caller (a Ptr it holds) *)
Definition label_key (l : slabel) : option key :=
  match l with
  | LRemove k | LPush _ k | LPushFront _ k | LHNew k | LTransitionAfter k _ => Some k
  | _ => None
  end.

Definition sstep_ok (st : sstate) (l : slabel) : Prop :=
  match sstep st l with
  | SOk st' _ => SInv st'
  | SStuck _ => True
  | SPanic _ => exists k, label_key l = Some k /\ resolve st k = None
  end.

Lemma any_flag_true r f : r_fl r f = true -> any_flag r = true.
Proof. intros H. unfold any_flag. apply existsb_exists. exists f. split; [destruct f; cbn; auto 10|exact H]. Qed.

Lemma has_reason_flag r f : r_fl r f = true -> has_reason r = true.
Proof. intros H. unfold has_reason. rewrite (any_flag_true r f H). rewrite orb_true_r. reflexivity. Qed.

Lemma has_reason_ref r : 0 < r_ref r -> has_reason r = true.
Proof. intros H. unfold has_reason. apply N.ltb_lt in H. rewrite H. reflexivity. Qed.

Lemma has_reason_seen r c : has_reason (with_seen r c) = negb (c && (r_ref r =? 0) && no_flags r).
Proof.
  unfold has_reason, with_seen, no_flags, any_flag. cbn [r_ref r_fl r_closed].
  destruct (r_ref r =? 0) eqn:E.
  - apply N.eqb_eq in E. rewrite E. cbn [N.ltb N.compare]. destruct c, (existsb (r_fl r) all_fids); reflexivity.
  - apply N.eqb_neq in E. assert (X : 0 <? r_ref r = true) by (apply N.ltb_lt; lia). rewrite X.
    destruct c; reflexivity.
Qed.

Lemma b2n_le1 b : b2n b <= 1.
Proof. destruct b; cbn [b2n]; lia. Qed.

Lemma sinv_set_cs st c : SInv st -> CInv c -> SInv (set_cs st c).
Proof. intros [] Hc. constructor; simp_s; assumption. Qed.

(* ---------------------------------------------------------------- labels *)

Lemma step_counts st cl : SInv st -> sstep_ok st (LCounts cl).
Proof.
  intros H. unfold sstep_ok.
  destruct cl; cbn [sstep]; try exact I;
    match goal with |- context [cstep ?c ?l] => pose proof (cstep_inv c l (I_cs _ H)) as X; destruct (cstep c l) end;
    cbn [cstep_ok] in X; try exact I; try contradiction; apply sinv_set_cs; assumption.
Qed.

Lemma step_insert st idx serial id : SInv st -> sstep_ok st (LInsert idx serial id).
Proof.
  intros H. unfold sstep_ok. cbn [sstep].
  destruct (amem idx (slab st)) eqn:E1; [exact I|]. destruct (amem id (ids st)) eqn:E2; [exact I|].
  apply amem_alook in E1. apply amem_alook in E2. destruct H.
  assert (Hh : forall k s, In (k, s) (handles st) -> k <> (idx, id)).
  { intros k s Hi Ek. destruct (I_hres k s Hi) as (r0 & A & _). subst k. cbn [fst] in A. congruence. }
  assert (Hq : forall x k, In (x, k) (qs st) -> k <> (idx, id)).
  { intros x k Hi Ek. destruct (I_qres x k Hi) as (r0 & A & _). subst k. cbn [fst] in A. congruence. }
  constructor; simp_s.
  - cbn [map fst]. constructor; [apply alook_None_notin; exact E1|exact I_slab].
  - intros id' idx'. cbn [alook]. destruct (id =? id') eqn:E.
    + intros A. inversion A; subst. exists (new_rec serial id). rewrite N.eqb_refl. apply N.eqb_eq in E. split; [reflexivity|exact E].
    + intros A. destruct (I_ids id' idx' A) as (r0 & B & C). exists r0. split; [|exact C].
      destruct (idx =? idx') eqn:E3; [apply N.eqb_eq in E3; congruence|exact B].
  - intros k s Hi. destruct (I_hres k s Hi) as (r0 & A & B). exists r0. split; [|exact B]. cbn [alook].
    destruct (idx =? fst k) eqn:E3; [apply N.eqb_eq in E3; congruence|exact A].
  - intros idx' r0. cbn [alook]. destruct (idx =? idx') eqn:E3.
    + intros A. inversion A; subst. apply N.eqb_eq in E3. subst idx'. cbn [new_rec r_ref r_id].
      symmetry. apply hcount_none. intros k' s Hi. exact (Hh k' s Hi).
    + apply I_hcnt.
  - exact I_refs.
  - intros x k Hi. destruct (I_qres x k Hi) as (r0 & A & B). exists r0. split; [|exact B]. cbn [alook].
    destruct (idx =? fst k) eqn:E3; [apply N.eqb_eq in E3; congruence|exact A].
  - intros idx' r0 f. cbn [alook]. destruct (idx =? idx') eqn:E3.
    + intros A. inversion A; subst. apply N.eqb_eq in E3. subst idx'. cbn [new_rec r_fl r_id b2n].
      apply qcount_none. intros x k' Hi. exact (Hq x k' Hi).
    + apply I_qcnt.
  - exact I_cs.
  - intros idx' r0. cbn [alook]. destruct (idx =? idx').
    + intros A. inversion A; subst. left. reflexivity.
    + apply I_reason.
Qed.

Lemma step_unlink st id : SInv st -> sstep_ok st (LUnlink id).
Proof.
  intros H. unfold sstep_ok. cbn [sstep]. destruct H. constructor; simp_s; try assumption.
  intros id' idx'. rewrite alook_adel. destruct (id =? id'); [discriminate|]. apply I_ids.
Qed.

Lemma step_remove st k : SInv st -> sstep_ok st (LRemove k).
Proof.
  intros H. unfold sstep_ok. cbn [sstep label_key].
  destruct (alook (fst k) (slab st)) as [r|] eqn:E1.
  2:{ exists k. split; [reflexivity|]. unfold resolve. rewrite E1. reflexivity. }
  destruct (r_id r =? snd k) eqn:E2; cbn [negb].
  2:{ exists k. split; [reflexivity|]. unfold resolve. rewrite E1, E2. reflexivity. }
  destruct ((r_ref r =? 0) && no_flags r) eqn:E3; cbn [negb]; [|exact I].
  destruct (existsb (fun e : N * N => snd e =? fst k) (ids st)) eqn:E4; [exact I|].
  apply andb_true_iff in E3. destruct E3 as (E3 & E5). apply N.eqb_eq in E3.
  destruct H. constructor; simp_s.
  - apply adel_nodup. exact I_slab.
  - apply (ids_ok_del _ (ids st)); [exact I_ids|]. intros id idx A. split; [exact A|].
    pose proof (existsb_false _ _ E4 (id, idx) (alook_In _ _ _ A)) as X. cbn [snd] in X. apply N.eqb_neq in X. exact X.
  - apply h_res_del; [exact I_hres|]. exact (no_handle_at _ _ _ _ I_hres I_hcnt E1 E3).
  - apply h_cnt_del. exact I_hcnt.
  - exact I_refs.
  - apply q_res_del; [exact I_qres|]. exact (no_queue_at _ _ _ _ I_qres I_qcnt E1 E5).
  - apply q_cnt_del. exact I_qcnt.
  - exact I_cs.
  - apply reason_del. exact I_reason.
Qed.

(* shared by push and push_front: the record of k gets flag (flag_of q), the queue list gets one more (q, k) *)
Lemma push_inv st q k r q' :
  SInv st -> resolve st k = Some r -> r_fl r (flag_of q) = false ->
  (forall f k2, qcount f k2 q' = qcount f k2 (qs st) + (if fid_eqb (flag_of q) f && key_eqb k2 k then 1 else 0)) ->
  (forall x k2, In (x, k2) q' -> In (x, k2) (qs st) \/ k2 = k) ->
  SInv (set_qs (put st k (with_flag r (flag_of q) true)) q').
Proof.
  intros H Hr Hf Hc Hin. apply resolve_spec in Hr. destruct Hr as (Hl & Hid). destruct H.
  assert (Ek : k = (fst k, r_id r)) by (destruct k; cbn [fst snd] in *; congruence).
  constructor; simp_s.
  - apply aset_nodup. exact I_slab.
  - apply (ids_ok_upd _ _ _ r); [exact Hl|reflexivity|exact I_ids].
  - apply (h_res_upd _ _ _ r); [exact Hl|reflexivity|reflexivity|exact I_hres].
  - apply (h_cnt_upd _ (handles st) _ _ r); auto. cbn [with_flag r_ref]. apply I_hcnt. exact Hl.
  - exact I_refs.
  - intros x k2 Hi. destruct (Hin x k2 Hi) as [Ho|Ho].
    + refine (q_res_upd _ (qs st) _ r _ Hl _ I_qres x k2 Ho); reflexivity.
    + subst k2. exists (with_flag r (flag_of q) true). rewrite alook_aset_same. split; [reflexivity|exact Hid].
  - apply (q_cnt_upd _ (qs st) _ _ r); auto.
    + intros f. rewrite Hc. rewrite <- Ek. rewrite key_eqb_refl, andb_true_r. rewrite Ek at 1. rewrite (I_qcnt _ _ f Hl).
      cbn [with_flag r_fl]. destruct (fid_eqb (flag_of q) f) eqn:E.
      * apply fid_eqb_eq in E. subst f. rewrite Hf. reflexivity.
      * lia.
    + intros f k2 Hne. rewrite Hc. destruct (key_eqb k2 k) eqn:E; [apply key_eqb_eq in E; subst k2; congruence|].
      rewrite andb_false_r. lia.
  - exact I_cs.
  - apply reason_upd; [exact I_reason|]. left. apply (has_reason_flag _ (flag_of q)). cbn [with_flag r_fl]. rewrite fid_eqb_refl. reflexivity.
Qed.

Lemma step_push st q k : SInv st -> sstep_ok st (LPush q k).
Proof.
  intros H. unfold sstep_ok. cbn [sstep label_key].
  destruct (resolve st k) as [r|] eqn:Er; [|exists k; auto].
  destruct (r_fl r (flag_of q)) eqn:Ef; [exact H|].
  destruct (qlast q (qs st)) as [t|] eqn:El.
  - pose proof (qlast_In _ _ _ El) as Hi. destruct (I_qres _ H q t Hi) as (r0 & A & B).
    assert (X : resolve st t = Some r0) by (apply resolve_spec; auto). rewrite X.
    apply (push_inv st q k r); auto.
    + intros f k2. rewrite qcount_app. cbn [qcount]. lia.
    + intros x k2 Hin. apply in_app_or in Hin. destruct Hin as [Hin|[Hin|[]]]; [left; exact Hin|right; congruence].
  - apply (push_inv st q k r); auto.
    + intros f k2. rewrite qcount_app. cbn [qcount]. lia.
    + intros x k2 Hin. apply in_app_or in Hin. destruct Hin as [Hin|[Hin|[]]]; [left; exact Hin|right; congruence].
Qed.

Lemma step_push_front st q k : SInv st -> sstep_ok st (LPushFront q k).
Proof.
  intros H. unfold sstep_ok. cbn [sstep label_key].
  destruct (resolve st k) as [r|] eqn:Er; [|exists k; auto].
  destruct (r_fl r (flag_of q)) eqn:Ef; [exact H|].
  apply (push_inv st q k r); auto.
  - intros f k2. cbn [qcount]. lia.
  - intros x k2 [Hin|Hin]; [right; congruence|left; exact Hin].
Qed.

Lemma step_pop st q : SInv st -> sstep_ok st (LPop q).
Proof.
  intros H. unfold sstep_ok. cbn [sstep label_key].
  destruct (qfirst q (qs st)) as [k|] eqn:Eq; [|exact H].
  pose proof (qfirst_In _ _ _ Eq) as Hi. destruct (I_qres _ H q k Hi) as (r & Hl & Hid).
  assert (X : resolve st k = Some r) by (apply resolve_spec; auto). rewrite X.
  assert (Ek : k = (fst k, r_id r)) by (destruct k; cbn [fst snd] in *; congruence).
  destruct H. constructor; simp_s.
  - apply aset_nodup. exact I_slab.
  - apply (ids_ok_upd _ _ _ r); [exact Hl|reflexivity|exact I_ids].
  - apply (h_res_upd _ _ _ r); [exact Hl|reflexivity|reflexivity|exact I_hres].
  - apply (h_cnt_upd _ (handles st) _ _ r); auto. cbn [with_owed with_flag r_ref]. apply I_hcnt. exact Hl.
  - exact I_refs.
  - intros x k2 Hin. apply qdel_first_In in Hin. refine (q_res_upd _ (qs st) _ r _ Hl _ I_qres x k2 Hin); reflexivity.
  - apply (q_cnt_upd _ (qs st) _ _ r); auto.
    + intros f. pose proof (I_qcnt (fst k) r f Hl) as Q. rewrite <- Ek in Q.
      pose proof (qcount_qdel_first q k (qs st) f k Eq) as Y. rewrite key_eqb_refl, andb_true_r in Y.
      rewrite <- Ek. cbn [with_owed with_flag r_fl]. pose proof (b2n_le1 (r_fl r f)).
      destruct (fid_eqb (flag_of q) f); [cbn [b2n]; lia|lia].
    + intros f k2 Hne. pose proof (qcount_qdel_first q k (qs st) f k2 Eq) as Y.
      destruct (key_eqb k2 k) eqn:E; [apply key_eqb_eq in E; subst k2; congruence|]. rewrite andb_false_r in Y. lia.
  - exact I_cs.
  - apply reason_upd; [exact I_reason|]. right. reflexivity.
Qed.

(* shared by OpaqueStreamRef::new and ::clone *)
Lemma hnew_inv st k r :
  SInv st -> resolve st k = Some r ->
  SInv (set_refs (put st k (with_ref r (r_ref r + 1))) (refs st + 1) (nstreams st) ((k, r_serial r) :: handles st)).
Proof.
  intros H Hr. apply resolve_spec in Hr. destruct Hr as (Hl & Hid). destruct H.
  assert (Ek : k = (fst k, r_id r)) by (destruct k; cbn [fst snd] in *; congruence).
  constructor; simp_s.
  - apply aset_nodup. exact I_slab.
  - apply (ids_ok_upd _ _ _ r); [exact Hl|reflexivity|exact I_ids].
  - intros k2 s [Hi|Hi].
    + inversion Hi; subst. exists (with_ref r (r_ref r + 1)). rewrite alook_aset_same. auto.
    + refine (h_res_upd _ (handles st) _ r _ Hl _ _ I_hres _ _ Hi); reflexivity.
  - apply (h_cnt_upd _ (handles st) _ _ r); auto.
    + pose proof (I_hcnt (fst k) r Hl) as Q. rewrite <- Ek in Q. rewrite <- Ek. cbn [with_ref r_ref hcount]. rewrite key_eqb_refl. lia.
    + intros k2 Hne. cbn [hcount]. destruct (key_eqb k2 k) eqn:E; [apply key_eqb_eq in E; subst k2; congruence|lia].
  - cbn [length]. rewrite Nat2N.inj_succ. lia.
  - apply (q_res_upd _ _ _ r); [exact Hl|reflexivity|exact I_qres].
  - apply (q_cnt_upd _ (qs st) _ _ r); auto. intros f. cbn [with_ref r_fl]. apply I_qcnt. exact Hl.
  - exact I_cs.
  - apply reason_upd; [exact I_reason|]. left. apply has_reason_ref. cbn [with_ref r_ref]. lia.
Qed.

Lemma step_hnew st k : SInv st -> sstep_ok st (LHNew k).
Proof.
  intros H. unfold sstep_ok. cbn [sstep label_key].
  destruct (resolve st k) as [r|] eqn:Er; [|exists k; auto]. apply hnew_inv; assumption.
Qed.

Lemma step_hclone st k s : SInv st -> sstep_ok st (LHClone k s).
Proof.
  intros H. unfold sstep_ok. cbn [sstep label_key].
  destruct (hmem (k, s) (handles st)) eqn:Em; cbn [negb]; [|exact I].
  apply hmem_In in Em. destruct (I_hres _ H k s Em) as (r & A & B & C).
  assert (X : resolve st k = Some r) by (apply resolve_spec; auto). rewrite X. apply hnew_inv; assumption.
Qed.

Lemma step_hdrop st k s c : SInv st -> sstep_ok st (LHDrop k s c).
Proof.
  intros H. unfold sstep_ok. cbn [sstep label_key].
  destruct (hmem (k, s) (handles st)) eqn:Em; cbn [negb]; [|exact I].
  apply hmem_In in Em. destruct (I_hres _ H k s Em) as (r & Hl & Hid & Hs).
  assert (X : resolve st k = Some r) by (apply resolve_spec; auto).
  assert (Ek : k = (fst k, r_id r)) by (destruct k; cbn [fst snd] in *; congruence).
  pose proof (hdel_length _ _ Em) as Hlen. pose proof (hcount_hdel _ _ _ Em) as Hcnt.
  destruct H.
  destruct (refs st =? 0) eqn:E0; [apply N.eqb_eq in E0; rewrite I_refs, Hlen, Nat2N.inj_succ in E0; lia|].
  rewrite X.
  assert (Hrc : r_ref r = hcount k (handles st)) by (pose proof (I_hcnt (fst k) r Hl) as Q; rewrite <- Ek in Q; exact Q).
  destruct (r_ref r =? 0) eqn:E1; [apply N.eqb_eq in E1; lia|].
  constructor; simp_s.
  - apply aset_nodup. exact I_slab.
  - apply (ids_ok_upd _ _ _ r); [exact Hl|reflexivity|exact I_ids].
  - intros k2 s2 Hi. apply hdel_In in Hi. refine (h_res_upd _ (handles st) _ r _ Hl _ _ I_hres _ _ Hi); reflexivity.
  - apply (h_cnt_upd _ (handles st) _ _ r); auto.
    + cbn [with_owed with_ref r_ref]. rewrite <- Ek. lia.
    + intros k2 Hne. apply hcount_hdel_other. intros E. subst k2. congruence.
  - rewrite Hlen, Nat2N.inj_succ in I_refs. lia.
  - apply (q_res_upd _ _ _ r); [exact Hl|reflexivity|exact I_qres].
  - apply (q_cnt_upd _ (qs st) _ _ r); auto. intros f. cbn [with_owed with_ref r_fl]. apply I_qcnt. exact Hl.
  - exact I_cs.
  - apply reason_upd; [exact I_reason|]. right. reflexivity.
Qed.

Lemma step_sclone st : SInv st -> sstep_ok st LSClone.
Proof.
  intros H. unfold sstep_ok. cbn [sstep]. destruct (nstreams st =? 0); [exact I|].
  destruct H. constructor; simp_s; try assumption. lia.
Qed.

Lemma step_sdrop st : SInv st -> sstep_ok st LSDrop.
Proof.
  intros H. unfold sstep_ok. cbn [sstep label_key]. destruct (nstreams st =? 0) eqn:E; [exact I|]. apply N.eqb_neq in E.
  destruct H. destruct (refs st =? 0) eqn:E0; [apply N.eqb_eq in E0; lia|].
  constructor; simp_s; try assumption. lia.
Qed.

Lemma step_transition st k o : SInv st -> sstep_ok st (LTransitionAfter k o).
Proof.
  intros H. unfold sstep_ok. cbn [sstep label_key].
  destruct (resolve st k) as [r|] eqn:Er; [|exists k; auto].
  match goal with |- context [cstep ?c ?l] => pose proof (cstep_inv c l (I_cs _ H)) as X; destruct (cstep c l) as [c1 o1|n|n] end;
    cbn [cstep_ok] in X; [|exact I|contradiction].
  apply resolve_spec in Er. destruct Er as (Hl & Hid).
  assert (Ek : k = (fst k, r_id r)) by (destruct k; cbn [fst snd] in *; congruence).
  set (unl := so_closed o && negb (r_fl r FReset)).
  set (ids1 := if unl then adel (r_id r) (ids st) else ids st).
  assert (Hsub : forall id idx, alook id ids1 = Some idx -> alook id (ids st) = Some idx /\ (unl = true -> id <> r_id r)).
  { intros id idx. unfold ids1. destruct unl.
    - rewrite alook_adel. destruct (r_id r =? id) eqn:E; [discriminate|]. apply N.eqb_neq in E. intros A. split; [exact A|]. intros _. congruence.
    - intros A. split; [exact A|discriminate]. }
  destruct H.
  destruct (so_closed o && (r_ref r =? 0) && no_flags r) eqn:Erel.
  - (* released: removed *)
    apply andb_true_iff in Erel. destruct Erel as (Erel & Enf). apply andb_true_iff in Erel. destruct Erel as (Ecl & Eref).
    apply N.eqb_eq in Eref.
    assert (Eunl : unl = true).
    { unfold unl. rewrite Ecl. unfold no_flags in Enf. apply negb_true_iff in Enf. rewrite (any_flag_false r Enf FReset). reflexivity. }
    assert (G : SInv (mkS (adel (fst k) (slab st)) ids1 (refs st) (nstreams st) (handles st) (qs st) c1)).
    { constructor; simp_s.
      - apply adel_nodup. exact I_slab.
      - apply (ids_ok_del _ (ids st)); [exact I_ids|]. intros id idx A. destruct (Hsub id idx A) as (B & C). split; [exact B|].
        intros E. subst idx. destruct (I_ids id _ B) as (r0 & D & F). rewrite Hl in D. inversion D; subst r0. apply (C Eunl). congruence.
      - apply h_res_del; [exact I_hres|]. exact (no_handle_at _ _ _ _ I_hres I_hcnt Hl Eref).
      - apply h_cnt_del. exact I_hcnt.
      - exact I_refs.
      - apply q_res_del; [exact I_qres|]. exact (no_queue_at _ _ _ _ I_qres I_qcnt Hl Enf).
      - apply q_cnt_del. exact I_qcnt.
      - exact X.
      - apply reason_del. exact I_reason. }
    unfold ids1, unl in G. destruct (so_closed o && negb (r_fl r FReset)); exact G.
  - (* kept *)
    assert (G : SInv (mkS (aset (fst k) (with_seen r (so_closed o)) (slab st)) ids1 (refs st) (nstreams st) (handles st) (qs st) c1)).
    { constructor; simp_s.
      - apply aset_nodup. exact I_slab.
      - apply (ids_ok_upd _ _ _ r); auto. intros id idx A. apply I_ids. apply (Hsub id idx A).
      - apply (h_res_upd _ _ _ r); [exact Hl|reflexivity|reflexivity|exact I_hres].
      - apply (h_cnt_upd _ (handles st) _ _ r); auto. cbn [with_seen r_ref]. apply I_hcnt. exact Hl.
      - exact I_refs.
      - apply (q_res_upd _ _ _ r); [exact Hl|reflexivity|exact I_qres].
      - apply (q_cnt_upd _ (qs st) _ _ r); auto. intros f. cbn [with_seen r_fl]. apply I_qcnt. exact Hl.
      - exact X.
      - apply reason_upd; [exact I_reason|]. left. rewrite has_reason_seen, Erel. reflexivity. }
    unfold ids1, unl in G. destruct (so_closed o && negb (r_fl r FReset)); exact G.
Qed.

Lemma step_quiesce st : SInv st -> sstep_ok st LQuiesce.
Proof.
  intros H. unfold sstep_ok. cbn [sstep label_key].
  destruct (existsb (fun e : N * rec => r_owed (snd e) && negb (has_reason (snd e))) (slab st)) eqn:E; [exact I|].
  destruct H.
  assert (L : forall idx r', alook idx (map (fun e : N * rec => (fst e, with_owed (snd e) false)) (slab st)) = Some r' ->
              exists r, alook idx (slab st) = Some r /\ r' = with_owed r false).
  { intros idx r'. rewrite (alook_map (fun r => with_owed r false)). destruct (alook idx (slab st)) as [r|]; cbn [option_map]; [|discriminate].
    intros A. inversion A. exists r. auto. }
  constructor; simp_s.
  - rewrite (map_fst_map (fun r => with_owed r false)). exact I_slab.
  - intros id idx A. destruct (I_ids id idx A) as (r & B & C). exists (with_owed r false).
    rewrite (alook_map (fun r => with_owed r false)), B. auto.
  - intros k s A. destruct (I_hres k s A) as (r & B & C & D). exists (with_owed r false).
    rewrite (alook_map (fun r => with_owed r false)), B. auto.
  - intros idx r' A. destruct (L idx r' A) as (r & B & ->). cbn [with_owed r_ref r_id]. apply I_hcnt. exact B.
  - exact I_refs.
  - intros x k A. destruct (I_qres x k A) as (r & B & C). exists (with_owed r false).
    rewrite (alook_map (fun r => with_owed r false)), B. auto.
  - intros idx r' f A. destruct (L idx r' A) as (r & B & ->). cbn [with_owed r_fl r_id]. apply I_qcnt. exact B.
  - exact I_cs.
  - intros idx r' A. destruct (L idx r' A) as (r & B & ->). left.
    pose proof (existsb_false _ _ E (idx, r) (alook_In _ _ _ B)) as Y. cbn [snd] in Y.
    destruct (I_reason idx r B) as [Z|Z]; [exact Z|]. rewrite Z in Y. cbn [andb] in Y. apply negb_false_iff in Y. exact Y.
Qed.

Theorem sstep_inv st l : SInv st -> sstep_ok st l.
Proof.
  intros H. destruct l.
  - apply step_counts; exact H.
  - apply step_insert; exact H.
  - apply step_unlink; exact H.
  - apply step_remove; exact H.
  - apply step_push; exact H.
  - apply step_push_front; exact H.
  - apply step_pop; exact H.
  - apply step_hnew; exact H.
  - apply step_hclone; exact H.
  - apply step_hdrop; exact H.
  - unfold sstep_ok. cbn [sstep]. exact H.
  - apply step_sclone; exact H.
  - apply step_sdrop; exact H.
  - unfold sstep_ok. cbn [sstep]. exact H.
  - unfold sstep_ok. cbn [sstep]. destruct (nstreams st =? 0); [exact I|exact H].
  - apply step_transition; exact H.
  - apply step_quiesce; exact H.
Qed.

Lemma sinit_inv ms mr mlr mrr mle : limit_ok mr -> SInv (sinit ms mr mlr mrr mle).
Proof.
  intros H. unfold sinit. constructor; cbn [slab ids refs nstreams handles qs cs map length].
  - constructor.
  - intros id idx A. discriminate.
  - intros k s [].
  - intros idx r A. discriminate.
  - reflexivity.
  - intros x k [].
  - intros idx r f A. discriminate.
  - apply cinit_inv. exact H.
  - intros idx r A. discriminate.
Qed.

(* ---------------------------------------------------------------- runs *)

Theorem srun_inv ls : forall st, SInv st ->
  match srun st ls with
  | inl (Some (st', _)) => SInv st'
  | _ => True
  end.
Proof.
  induction ls as [|l ls IH]; intros st H; cbn [srun]; [exact H|].
  pose proof (sstep_inv st l H) as X. unfold sstep_ok in X.
  destruct (sstep st l) as [st1 o1|n|n]; [|exact I|exact I].
  specialize (IH st1 X). destruct (srun st1 ls) as [[[st2 os]|]|[k r]]; [exact IH|exact I|exact I].
Qed.

(* along ANY label sequence no Rust assert / overflow / `dangling store key` panic of the modelled code fires, except for a
   label whose own key argument (a Ptr the caller holds) does not resolve in the state it is applied to *)
Fixpoint run_ok (st : sstate) (ls : list slabel) : Prop :=
  match ls with
  | [] => True
  | l :: ls' =>
    match sstep st l with
    | SOk st1 _ => run_ok st1 ls'
    | SStuck _ => True
    | SPanic _ => exists k, label_key l = Some k /\ resolve st k = None
    end
  end.

Theorem srun_no_panic ls : forall st, SInv st -> run_ok st ls.
Proof.
  induction ls as [|l ls IH]; intros st H; cbn [run_ok]; [exact I|].
  pose proof (sstep_inv st l H) as X. unfold sstep_ok in X.
  destruct (sstep st l) as [st1 o1|n|n]; [apply IH; exact X|exact I|exact X].
Qed.

(* ---------------------------------------------------------------- C19 *)

Lemma qcount_In_pos q k l : In (q, k) l -> 1 <= qcount (flag_of q) k l.
Proof.
  induction l as [|[q' k'] l IH]; cbn [In qcount]; [intros []|].
  intros [H|H].
  - inversion H; subst. rewrite fid_eqb_refl, key_eqb_refl. cbn [andb]. lia.
  - specialize (IH H). destruct (fid_eqb (flag_of q') (flag_of q) && key_eqb k k'); lia.
Qed.

(* a key held by a handle, a queue or the id map resolves, and to the record it was taken for *)
Theorem no_stale_key st : SInv st ->
  (forall k s, In (k, s) (handles st) -> exists r, resolve st k = Some r /\ r_serial r = s /\ 0 < r_ref r) /\
  (forall q k, In (q, k) (qs st) -> exists r, resolve st k = Some r /\ r_fl r (flag_of q) = true) /\
  (forall id idx, alook id (ids st) = Some idx -> exists r, resolve st (idx, id) = Some r) /\
  (forall k r, resolve st k = Some r -> r_id r = snd k).
Proof.
  intros H. repeat split.
  - intros k s Hi. destruct (I_hres _ H k s Hi) as (r & A & B & C). exists r.
    split; [apply resolve_spec; auto|]. split; [exact C|].
    assert (Ek : k = (fst k, r_id r)) by (destruct k; cbn [fst snd] in *; congruence).
    pose proof (I_hcnt _ H _ _ A) as Q. rewrite <- Ek in Q. pose proof (hcount_hdel _ _ _ Hi). lia.
  - intros q k Hi. destruct (I_qres _ H q k Hi) as (r & A & B). exists r. split; [apply resolve_spec; auto|].
    assert (Ek : k = (fst k, r_id r)) by (destruct k; cbn [fst snd] in *; congruence).
    pose proof (I_qcnt _ H _ _ (flag_of q) A) as Q. rewrite <- Ek in Q. pose proof (qcount_In_pos _ _ _ Hi).
    destruct (r_fl r (flag_of q)); [reflexivity|cbn [b2n] in Q; lia].
  - intros id idx A. destruct (I_ids _ H id idx A) as (r & B & C). exists r. apply resolve_spec. cbn [fst snd]. auto.
  - intros k r A. apply resolve_spec in A. apply A.
Qed.

(* transition_after on a closed record without handle, queue membership or reset expiry removes it *)
Theorem released_is_removed st k o r st' outs :
  SInv st -> resolve st k = Some r ->
  so_closed o = true -> r_ref r = 0 -> no_flags r = true ->
  sstep st (LTransitionAfter k o) = SOk st' outs ->
  alook (fst k) (slab st') = None /\ resolve st' k = None /\ alook (r_id r) (ids st') = None /\
  outs = [OBool true; OBool true] /\
  (so_sched o = false -> cmem (r_serial r) (counted (cs st')) = false /\
     (cmem (r_serial r) (counted (cs st)) = true ->
        if so_local o then (num_send (cs st') = num_send (cs st) - 1)%Z else (num_recv (cs st') = num_recv (cs st) - 1)%Z)).
Proof.
  intros H Hr Hc H0 Hn E. cbn [sstep] in E. rewrite Hr in E.
  assert (Hf : r_fl r FReset = false).
  { unfold no_flags in Hn. apply negb_true_iff in Hn. exact (any_flag_false r Hn FReset). }
  destruct (cstep (cs st) (TransitionAfter (r_serial r) (mkT (so_closed o) (r_fl r FReset) (so_reset_counted o) (so_sched o) (so_local o)))) as [c1 o1|n|n] eqn:Ec;
    [|discriminate|discriminate].
  rewrite Hc, H0, Hn, Hf in E. cbn [andb negb N.eqb] in E. rewrite N.eqb_refl in E. cbn [andb] in E.
  inversion E; subst st' outs. simp_s.
  split; [apply alook_adel_same|]. split; [unfold resolve; simp_s; rewrite alook_adel_same; reflexivity|].
  split; [apply alook_adel_same|]. split; [reflexivity|].
  intros Hs. pose proof (C05_slot_recycled (cs st) (r_serial r) _ c1 o1 (I_cs _ H) Ec) as Y. cbn [t_closed t_sched_reset t_local] in Y.
  destruct (Y Hc Hs) as (Y1 & Y2 & _). split; [exact Y1|]. intros Hm. specialize (Y2 Hm). destruct (so_local o); apply Y2.
Qed.

(* a record only disappears when it has no handle and is in no queue *)
Theorem no_premature_removal st l st' outs idx r :
  sstep st l = SOk st' outs -> alook idx (slab st) = Some r -> alook idx (slab st') = None ->
  r_ref r = 0 /\ no_flags r = true.
Proof.
  intros E Hl Hn.
  assert (U : forall (i : N) r', alook idx (aset i r' (slab st)) = None -> False).
  { intros i r' A. rewrite alook_aset in A. destruct (i =? idx); [discriminate|]. congruence. }
  destruct l; cbn [sstep] in E.
  - destruct l; try discriminate;
      match type of E with context [cstep ?c ?x] => destruct (cstep c x) end; try discriminate; inversion E; subst; simp_s; congruence.
  - destruct (amem idx0 (slab st)); [discriminate|]. destruct (amem id (ids st)); [discriminate|]. inversion E; subst. simp_s.
    cbn [alook] in Hn. destruct (idx0 =? idx); [discriminate|congruence].
  - inversion E; subst. simp_s. congruence.
  - destruct (alook (fst k) (slab st)) as [r0|] eqn:E1; [|discriminate].
    destruct (negb (r_id r0 =? snd k)); [discriminate|].
    destruct ((r_ref r0 =? 0) && no_flags r0) eqn:E3; cbn [negb] in E; [|discriminate].
    destruct (existsb (fun e : N * N => snd e =? fst k) (ids st)); [discriminate|]. inversion E; subst. simp_s.
    rewrite alook_adel in Hn. destruct (fst k =? idx) eqn:E5; [|congruence]. apply N.eqb_eq in E5. subst idx.
    rewrite E1 in Hl. inversion Hl; subst r0. apply andb_true_iff in E3. destruct E3 as (A & B). apply N.eqb_eq in A. auto.
  - destruct (resolve st k) as [r0|]; [|discriminate]. destruct (r_fl r0 (flag_of q)); [inversion E; subst; congruence|].
    destruct (match qlast q (qs st) with Some t => resolve st t | None => Some r0 end); [|discriminate].
    inversion E; subst. simp_s. exfalso. exact (U _ _ Hn).
  - destruct (resolve st k) as [r0|]; [|discriminate]. destruct (r_fl r0 (flag_of q)); [inversion E; subst; congruence|].
    inversion E; subst. simp_s. exfalso. exact (U _ _ Hn).
  - destruct (qfirst q (qs st)) as [k|]; [|inversion E; subst; congruence].
    destruct (resolve st k) as [r0|]; [|discriminate]. inversion E; subst. simp_s. exfalso. exact (U _ _ Hn).
  - destruct (resolve st k) as [r0|]; [|discriminate]. inversion E; subst. simp_s. exfalso. exact (U _ _ Hn).
  - destruct (negb (hmem (k, serial) (handles st))); [discriminate|].
    destruct (resolve st k) as [r0|]; [|discriminate]. inversion E; subst. simp_s. exfalso. exact (U _ _ Hn).
  - destruct (negb (hmem (k, serial) (handles st))); [discriminate|]. destruct (refs st =? 0); [discriminate|].
    destruct (resolve st k) as [r0|]; [|discriminate]. destruct (r_ref r0 =? 0); [discriminate|].
    inversion E; subst. simp_s. exfalso. exact (U _ _ Hn).
  - inversion E; subst. congruence.
  - destruct (nstreams st =? 0); [discriminate|]. inversion E; subst. simp_s. congruence.
  - destruct (nstreams st =? 0); [discriminate|]. destruct (refs st =? 0); [discriminate|]. inversion E; subst. simp_s. congruence.
  - inversion E; subst. congruence.
  - destruct (nstreams st =? 0); [discriminate|]. inversion E; subst. congruence.
  - destruct (resolve st k) as [r0|] eqn:Er; [|discriminate].
    match type of E with context [cstep ?c ?x] => destruct (cstep c x) end; try discriminate.
    apply resolve_spec in Er. destruct Er as (Er & _).
    destruct (so_closed o && (r_ref r0 =? 0) && no_flags r0) eqn:E3.
    + inversion E; subst. simp_s.
      assert (Hn' : alook idx (adel (fst k) (slab st)) = None).
      { destruct (so_closed o && negb (r_fl r0 FReset)); simp_s; exact Hn. }
      rewrite alook_adel in Hn'. destruct (fst k =? idx) eqn:E5; [|congruence]. apply N.eqb_eq in E5. subst idx.
      rewrite Er in Hl. inversion Hl; subst r0. apply andb_true_iff in E3. destruct E3 as (A & B).
      apply andb_true_iff in A. destruct A as (_ & A). apply N.eqb_eq in A. auto.
    + inversion E; subst. simp_s. exfalso.
      destruct (so_closed o && negb (r_fl r0 FReset)); simp_s; exact (U _ _ Hn).
  - destruct (existsb (fun e : N * rec => r_owed (snd e) && negb (has_reason (snd e))) (slab st)); [discriminate|].
    inversion E; subst. simp_s. rewrite (alook_map (fun r => with_owed r false)), Hl in Hn. discriminate.
Qed.

Lemma has_reason_cases r : has_reason r = true -> 0 < r_ref r \/ (exists f, r_fl r f = true) \/ r_closed r = false.
Proof.
  unfold has_reason. intros H. apply orb_true_iff in H. destruct H as [H|H].
  - apply orb_true_iff in H. destruct H as [H|H]; [left; apply N.ltb_lt; exact H|].
    right. left. unfold any_flag in H. apply existsb_exists in H. destruct H as (f & _ & H). exists f. exact H.
  - right. right. apply negb_true_iff. exact H.
Qed.

(* every stored record has a reason to be kept, or transition_after still owes it a look; at the end of a
   lock-atomic section (Quiesce) nothing is owed *)
Theorem kept_has_reason st : SInv st ->
  forall idx r, alook idx (slab st) = Some r ->
  0 < r_ref r \/ (exists f, r_fl r f = true) \/ r_closed r = false \/ r_owed r = true.
Proof.
  intros H idx r A. destruct (I_reason _ H idx r A) as [B|B]; [|auto].
  destruct (has_reason_cases r B) as [C|[C|C]]; auto.
Qed.

Theorem kept_has_reason_quiescent st st' outs : SInv st -> sstep st LQuiesce = SOk st' outs ->
  forall idx r, alook idx (slab st') = Some r ->
  r_owed r = false /\ (0 < r_ref r \/ (exists f, r_fl r f = true) \/ r_closed r = false).
Proof.
  intros H E idx r A. pose proof (sstep_inv st LQuiesce H) as X. unfold sstep_ok in X. rewrite E in X.
  cbn [sstep] in E. destruct (existsb (fun e : N * rec => r_owed (snd e) && negb (has_reason (snd e))) (slab st)) eqn:Ex; [discriminate|].
  inversion E; subst. simp_s. rewrite (alook_map (fun r => with_owed r false)) in A.
  destruct (alook idx (slab st)) as [r0|] eqn:B; cbn [option_map] in A; [|discriminate]. inversion A; subst r. split; [reflexivity|].
  pose proof (existsb_false _ _ Ex (idx, r0) (alook_In _ _ _ B)) as Y. cbn [snd] in Y.
  assert (Z : has_reason r0 = true).
  { destruct (I_reason _ H idx r0 B) as [Z|Z]; [exact Z|]. rewrite Z in Y. cbn [andb] in Y. apply negb_false_iff in Y. exact Y. }
  exact (has_reason_cases (with_owed r0 false) Z).
Qed.

Lemma ccount_total l : (ccount true l + ccount false l = Z.of_nat (length l))%Z.
Proof.
  induction l as [|[k b] l IH]; cbn [ccount length]; [reflexivity|]. rewrite Nat2Z.inj_succ. destruct b; cbn [Bool.eqb]; lia.
Qed.

(* the idle-close decision of a client connection *)
Theorem idle_client_closes st st' outs : SInv st -> sstep st LMaybeClose = SOk st' outs ->
  st' = st /\
  (handles st = [] -> nstreams st = 1 -> counted (cs st) = [] -> outs = [OGoAwayNow]) /\
  (handles st <> [] \/ 1 < nstreams st \/ counted (cs st) <> [] -> outs = []).
Proof.
  intros H E. cbn [sstep] in E. destruct (nstreams st =? 0) eqn:E0; [discriminate|]. apply N.eqb_neq in E0.
  inversion E; subst st' outs. split; [reflexivity|].
  destruct (I_cs _ H) as (C1 & C2 & _). pose proof (ccount_total (counted (cs st))) as T.
  pose proof (ccount_nonneg true (counted (cs st))). pose proof (ccount_nonneg false (counted (cs st))).
  pose proof (I_refs _ H) as R. unfold busy, has_streams. split.
  - intros Hh Hn Hc. rewrite Hh in R. rewrite Hc in C1, C2. cbn [ccount length] in *.
    rewrite C1, C2. cbn [Z.eqb negb orb]. replace (refs st) with 1 by lia. reflexivity.
  - intros [Hh|[Hn|Hc]].
    + destruct (handles st) as [|h hs]; [congruence|]. cbn [length] in R. rewrite Nat2N.inj_succ in R.
      assert (X : 1 <? refs st = true) by (apply N.ltb_lt; lia). rewrite X, orb_true_r. reflexivity.
    + assert (X : 1 <? refs st = true) by (apply N.ltb_lt; lia). rewrite X, orb_true_r. reflexivity.
    + destruct (counted (cs st)) as [|c cl] eqn:Ec; [congruence|]. cbn [length] in T. rewrite Nat2Z.inj_succ in T.
      destruct (num_send (cs st) =? 0)%Z eqn:A; destruct (num_recv (cs st) =? 0)%Z eqn:B; cbn [negb orb]; try reflexivity. lia.
Qed.

(* dropping a reference wakes the connection task when only one reference is left *)
Theorem streams_drop_wakes st st' outs : sstep st LSDrop = SOk st' outs ->
  refs st' = refs st - 1 /\ (outs = [OWakeConn] <-> refs st' = 1).
Proof.
  intros E. cbn [sstep] in E. destruct (nstreams st =? 0); [discriminate|]. destruct (refs st =? 0); [discriminate|].
  inversion E; subst. simp_s. split; [reflexivity|]. destruct (refs st - 1 =? 1) eqn:A.
  - apply N.eqb_eq in A. split; auto.
  - apply N.eqb_neq in A. split; [discriminate|congruence].
Qed.

Theorem handle_drop_wakes st k s c st1 o1 st2 o2 :
  sstep st (LHDrop k s c) = SOk st1 o1 -> sstep st1 LHDropEnd = SOk st2 o2 ->
  refs st1 = refs st - 1 /\ st2 = st1 /\ (o2 = [OWakeConn] <-> refs st1 = 1).
Proof.
  intros E1 E2. cbn [sstep] in E1, E2.
  destruct (negb (hmem (k, s) (handles st))); [discriminate|]. destruct (refs st =? 0); [discriminate|].
  destruct (resolve st k) as [r|]; [|discriminate]. destruct (r_ref r =? 0); [discriminate|].
  inversion E1; subst st1 o1. inversion E2; subst st2 o2. simp_s. split; [reflexivity|]. split; [reflexivity|].
  destruct (refs st - 1 =? 1) eqn:A.
  - apply N.eqb_eq in A. split; auto.
  - apply N.eqb_neq in A. split; [discriminate|congruence].
Qed.

(* with the connection alive, "one reference left" means: no request-handle clone and no stream handle *)
Theorem one_reference_left st : SInv st -> 1 <= nstreams st -> refs st = 1 -> nstreams st = 1 /\ handles st = [].
Proof.
  intros H Hn Hr. pose proof (I_refs _ H) as R. destruct (handles st) as [|h hs]; [split; [lia|reflexivity]|].
  cbn [length] in R. rewrite Nat2N.inj_succ in R. lia.
Qed.

(* the first wake-up of drop_stream_ref: the last handle of a closed stream *)
Theorem handle_drop_closed_wakes st k s c st' outs r :
  sstep st (LHDrop k s c) = SOk st' outs -> resolve st k = Some r ->
  (outs = [OWakeConn] <-> (r_ref r = 1 /\ c = true)).
Proof.
  intros E Hr. cbn [sstep] in E. rewrite Hr in E.
  destruct (negb (hmem (k, s) (handles st))); [discriminate|]. destruct (refs st =? 0); [discriminate|].
  destruct (r_ref r =? 0) eqn:E0; [discriminate|]. apply N.eqb_neq in E0. inversion E; subst.
  destruct (r_ref r - 1 =? 0) eqn:A; destruct c; cbn [andb].
  - apply N.eqb_eq in A. split; [intros _; split; [lia|reflexivity]|reflexivity].
  - split; [discriminate|intros (_ & B); discriminate].
  - apply N.eqb_neq in A. split; [discriminate|intros (B & _); lia].
  - split; [discriminate|intros (_ & B); discriminate].
Qed.

(* the slot of the locally-reset count comes back when a counted record has left the expiry queue *)
Theorem reset_slot_returned st k o r st' outs :
  sstep st (LTransitionAfter k o) = SOk st' outs -> resolve st k = Some r ->
  so_reset_counted o = true -> r_fl r FReset = false ->
  (num_lreset (cs st') = num_lreset (cs st) - 1)%Z.
Proof.
  intros E Hr Hc Hf. cbn [sstep] in E. rewrite Hr in E.
  destruct (cstep (cs st) (TransitionAfter (r_serial r) (mkT (so_closed o) (r_fl r FReset) (so_reset_counted o) (so_sched o) (so_local o)))) as [c1 o1|n|n] eqn:Ec;
    [|discriminate|discriminate].
  assert (X : cs st' = c1).
  { destruct (so_closed o && (r_ref r =? 0) && no_flags r); inversion E; subst; simp_s;
      destruct (so_closed o && negb (r_fl r FReset)); reflexivity. }
  rewrite X. rewrite (reset_slot_returned (cs st) (r_serial r) _ c1 o1 Ec). cbn [t_pending_reset t_reset_counted].
  rewrite Hf, Hc. reflexivity.
Qed.

(* non-vacuity: a request is opened, its two handles are dropped, the record is released and removed; then the last request
   handle goes and the connection decides to close *)
Definition demo_slabels : list slabel :=
  [ LSClone; LInsert 0 7 1; LHNew (0, 1); LHClone (0, 1) 7; LPush KSend (0, 1);
    LTransitionAfter (0, 1) (mkSO false false false true); LQuiesce;
    LMaybeClose;
    LPop KSend; LTransitionAfter (0, 1) (mkSO false false false true); LQuiesce;
    LHDrop (0, 1) 7 false; LTransitionAfter (0, 1) (mkSO false false false true); LHDropEnd; LQuiesce;
    LHDrop (0, 1) 7 true; LTransitionAfter (0, 1) (mkSO true false false true); LHDropEnd; LQuiesce;
    LSDrop; LMaybeClose ].

Example demo_store :
  match srun (sinit (Some 5%Z) None 10%Z 20%Z None) demo_slabels with
  | inl (Some (st, outs)) =>
    slab st = [] /\ ids st = [] /\ refs st = 1 /\ handles st = [] /\
    nth 7 outs [] = [] /\ nth 15 outs [] = [OWakeConn] /\ nth 16 outs [] = [OBool true; OBool true] /\
    nth 19 outs [] = [OWakeConn] /\ nth 20 outs [] = [OGoAwayNow]
  | _ => False
  end.
Proof. vm_compute. repeat split; reflexivity. Qed.

(* slot reuse: the index of a removed record is given to a new record with another id; a key kept from the old record does
   not reach the new one *)
Example demo_slot_reuse :
  match srun (sinit None None 10%Z 20%Z None)
             [ LInsert 0 1 1; LTransitionAfter (0, 1) (mkSO true false false true); LInsert 0 2 3 ] with
  | inl (Some (st, _)) => resolve st (0, 1) = None /\ exists r, resolve st (0, 3) = Some r /\ r_serial r = 2
  | _ => False
  end.
Proof. vm_compute. split; [reflexivity|]. eexists. split; reflexivity. Qed.

(* KF-C19-3: a pop from pending_capacity that is not followed by transition_after, on a record whose last reason it was, is
   rejected by the model at the end of the section (Quiesce guard, Stuck 9); the implementation keeps the record for ever *)
Example known_evict_refuted :
  srun (sinit None None 0%Z 20%Z None)
       [ LInsert 0 1 1; LPush KCap (0, 1); LTransitionAfter (0, 1) (mkSO true false false true); LQuiesce;
         LPop KCap; LQuiesce ] = inr (5, SStuck 9).
Proof. vm_compute. reflexivity. Qed.

(* the non-known order: a pop that IS followed by transition_after releases a record whose last reason it was *)
Theorem evicted_record_released_except_known st q k st1 o r1 st2 outs :
  SInv st -> sstep st (LPop q) = SOk st1 [OKey k] ->
  resolve st1 k = Some r1 -> r_ref r1 = 0 -> no_flags r1 = true -> so_closed o = true ->
  sstep st1 (LTransitionAfter k o) = SOk st2 outs ->
  resolve st2 k = None /\ alook (fst k) (slab st2) = None.
Proof.
  intros H E1 Hr H0 Hn Hc E2.
  pose proof (sstep_inv st (LPop q) H) as X. unfold sstep_ok in X. rewrite E1 in X.
  destruct (released_is_removed st1 k o r1 st2 outs X Hr Hc H0 Hn E2) as (A & B & _). auto.
Qed.
