(* C09 at the dispatch layer: how Inner::recv_* reacts to every received frame, in every reachable and
   unreachable state of the store (the theorems are about one step from ANY state, hence about every
   history), for all observed inputs. *)
From H2V Require Import Base.Tac Base.Bytes Model.StreamState Ref.Rfc9113Stream Proofs.StreamStateProofs
  Model.Dispatch.
Local Open Scope N_scope.

(* ---------------------------------------------------------------------------------------------
   association lists *)

Lemma sget_sset_same {A} k (r : A) l : sget k (sset k r l) = Some r.
Proof.
  induction l as [|[k' x] l IH]; cbn [sset sget].
  - rewrite N.eqb_refl; reflexivity.
  - destruct (k' =? k) eqn:E; cbn [sget]; rewrite E; auto.
Qed.

Lemma sget_sset_other {A} k k2 (r : A) l : k2 <> k -> sget k2 (sset k r l) = sget k2 l.
Proof.
  intros Hne. induction l as [|[k' x] l IH]; cbn [sset sget].
  - destruct (k =? k2) eqn:E; auto. apply N.eqb_eq in E; congruence.
  - destruct (k' =? k) eqn:E; cbn [sget].
    + apply N.eqb_eq in E; subst k'. destruct (k =? k2) eqn:E2; auto. apply N.eqb_eq in E2; congruence.
    + destruct (k' =? k2); auto.
Qed.

Lemma sget_sdel_other {A} k k2 (l : list (N * A)) : k2 <> k -> sget k2 (sdel k l) = sget k2 l.
Proof.
  intros Hne. induction l as [|[k' x] l IH]; cbn [sdel sget]; auto.
  destruct (k' =? k) eqn:E; cbn [sget].
  - apply N.eqb_eq in E; subst k'. destruct (k =? k2) eqn:E2; auto. apply N.eqb_eq in E2; congruence.
  - destruct (k' =? k2); auto.
Qed.

(* ---------------------------------------------------------------------------------------------
   projections of the state updates *)

Lemma kget_put_same st k r : kget (put st k r) k = Some r.
Proof. apply sget_sset_same. Qed.
Lemma kget_put_other st k k2 r : k2 <> k -> kget (put st k r) k2 = kget st k2.
Proof. apply sget_sset_other. Qed.
Lemma ids_put st k r : c_ids (put st k r) = c_ids st.
Proof. reflexivity. Qed.
Lemma kget_insert_same st k r : kget (insert st k r) k = Some r.
Proof. apply sget_sset_same. Qed.
Lemma kget_insert_other st k k2 r : k2 <> k -> kget (insert st k r) k2 = kget st k2.
Proof. apply sget_sset_other. Qed.
Lemma ids_insert_other st k r sid : sid <> s_id r -> sget sid (c_ids (insert st k r)) = sget sid (c_ids st).
Proof. intros; unfold insert; cbn. apply sget_sset_other; auto. Qed.

(* ---------------------------------------------------------------------------------------------
   outputs *)

Fixpoint has_app (o : list out) : bool :=
  match o with [] => false | OApp _ _ :: _ => true | _ :: o' => has_app o' end.
Fixpoint has_emit (o : list out) : bool :=
  match o with [] => false | OEmit _ :: _ => true | _ :: o' => has_emit o' end.
Fixpoint refused_in (o : list out) : bool :=
  match o with [] => false | ORxRefused _ :: _ => true | _ :: o' => refused_in o' end.

Lemma has_app_app a b : has_app (a ++ b) = has_app a || has_app b.
Proof. induction a as [|x a IH]; cbn [app has_app]; auto. destruct x; auto. Qed.
Lemma outs_result_app_res o r : outs_result (o ++ [ORes r]) = match outs_result o with Some x => Some x | None => Some r end.
Proof. induction o as [|x o IH]; cbn [app outs_result]; auto. destruct x; auto. Qed.
Lemma refused_in_app a b : refused_in (a ++ b) = refused_in a || refused_in b.
Proof. induction a as [|x a IH]; cbn [app refused_in]; auto. destruct x; auto. Qed.

(* the frame types of the received-frame labels *)
Definition recv_frame (l : label) : option (N * ftype) :=
  match l with
  | LRecvHeaders sid _ _ _ _ => Some (sid, HEADERS)
  | LRecvData sid _ _ => Some (sid, DATA)
  | LRecvReset sid _ _ => Some (sid, RST_STREAM)
  | LRecvWindowUpdate sid _ => Some (sid, WINDOW_UPDATE)
  | LRecvPushPromise sid _ _ _ => Some (sid, PUSH_PROMISE)
  | LRecvPriority sid => Some (sid, PRIORITY)
  | _ => None
  end.

(* the second identifier a PUSH_PROMISE names *)
Definition promised_of (l : label) : option N :=
  match l with LRecvPushPromise _ p _ _ => Some p | _ => None end.

(* ---------------------------------------------------------------------------------------------
   the primitives touch one record and queue at most a RST_STREAM *)

Lemma send_reset_core_id sid reason i r r' o : send_reset_core sid reason i r = (r', o) -> s_id r' = s_id r.
Proof.
  unfold send_reset_core. destruct (is_reset (s_state r)); [intros H; inversion H; auto|].
  destruct (is_closed (s_state r) && _ && _); [intros H; inversion H; auto|].
  cbn [set_state s_popen]. destruct (s_popen r); cbn; intros H; inversion H; auto.
Qed.

Lemma send_reset_core_no_app sid reason i r r' o : send_reset_core sid reason i r = (r', o) -> has_app o = false.
Proof.
  unfold send_reset_core. destruct (is_reset (s_state r)); [intros H; inversion H; auto|].
  destruct (is_closed (s_state r) && _ && _); [intros H; inversion H; auto|].
  cbn [set_state s_popen]. destruct (s_popen r); cbn; intros H; inversion H; auto.
Qed.

Lemma reset_on_err_no_app sid res q c r r' o res' :
  reset_on_recv_stream_err sid res q c r = (r', o, res') -> has_app o = false.
Proof.
  unfold reset_on_recv_stream_err. destruct res as [| |e|u]; try (intros H; inversion H; reflexivity).
  destruct e as [s rs i|d rs i|k m]; try (intros H; inversion H; reflexivity).
  destruct q; [|intros H; inversion H; reflexivity].
  destruct (send_reset_core sid rs i r) as [r1 o1] eqn:E. intros H; inversion H; subst.
  cbn [has_app]. eapply send_reset_core_no_app; eauto.
Qed.

(* reset_on_recv_stream_err: an error result that remains is a connection error with a non-zero code,
   or the input result *)
Lemma reset_on_err_result sid res q c r r' o res' :
  reset_on_recv_stream_err sid res q c r = (r', o, res') ->
  (res' = res /\ r' = r /\ o = [] /\ (forall s rs i, res <> RErr (EReset s rs i)))
  \/ (exists s rs i, res = RErr (EReset s rs i) /\
      ((q = true /\ res' = ROk /\ refused_in o = true /\ is_reset (s_state r') = true)
       \/ (q = false /\ res' = RErr too_many_internal_resets /\ r' = r /\ o = []))).
Proof.
  unfold reset_on_recv_stream_err. destruct res as [| |e|u]; try (intros H; inversion H; left; repeat split; congruence).
  destruct e as [s rs i|d rs i|k m]; try (intros H; inversion H; left; repeat split; congruence).
  right. exists s, rs, i. split; auto. destruct q.
  - left. destruct (send_reset_core sid rs i r) as [r1 o1] eqn:E. inversion H; subst. repeat split; auto.
    unfold send_reset_core in E. unfold enqueue_reset_expiration.
    destruct (is_reset (s_state r)) eqn:Er.
    + inversion E; subst. destruct (negb _ || _); [auto|]. destruct c; cbn; auto.
    + assert (Hs : is_reset (Closed (CError (EReset sid rs i))) = true) by reflexivity.
      destruct (is_closed (s_state r) && _ && _).
      * inversion E; subst. cbn [set_state s_state s_rexp]. destruct (negb _ || _); auto. destruct c; auto.
      * cbn [set_state s_popen] in E. destruct (s_popen r); cbn in E; inversion E; subst; cbn;
          destruct (negb _ || _); auto; destruct c; auto.
  - right. inversion H; auto.
Qed.

(* ---------------------------------------------------------------------------------------------
   peeling a step function: one destruct per `match` / `if` of the hypothesis *)

Ltac peel H :=
  repeat (first
    [ discriminate H
    | match type of H with
      | context [match ?x with _ => _ end] =>
        match x with
        | context [match _ with _ => _ end] => fail 1
        | _ => let E := fresh "E" in destruct x eqn:E
        end
      end ]).

Lemma res1_inv st o r st' outs : res1 st o r = Ok st' outs -> st' = st /\ outs = o ++ [ORes r].
Proof. unfold res1; intros H; inversion H; auto. Qed.

(* the key of the one record a received frame can change: the one store.ids holds for the stream (for a
   PUSH_PROMISE: for nothing, the parent is not changed), or the fresh key of the record it inserts *)
Definition touched (st : conn) (l : label) : N :=
  match l with
  | LRecvHeaders sid _ _ _ nk => match iget st sid with Some (k, _) => k | None => nk end
  | LRecvData sid _ _ | LRecvReset sid _ _ | LRecvWindowUpdate sid _ =>
    match iget st sid with Some (k, _) => k | None => 0 end
  | LRecvPushPromise _ _ _ nk => nk
  | _ => 0
  end.

Lemma kget_with_recv_next st n k : kget (with_recv_next st n) k = kget st k.
Proof. reflexivity. Qed.
Lemma kget_with_refused st n k : kget (with_refused st n) k = kget st k.
Proof. reflexivity. Qed.

Lemma recv_open_id_slab st id push can :
  match recv_open_id st id push can with
  | OpRefused st1 | OpOpened st1 => c_slab st1 = c_slab st /\ c_ids st1 = c_ids st /\ c_role st1 = c_role st
  | _ => True
  end.
Proof.
  unfold recv_open_id. destruct (c_refused st); auto.
  destruct (if is_server (c_role st) then _ else _); auto.
  destruct (c_recv_next st); auto. destruct (id <? n); auto. destruct can; cbn; auto.
Qed.

Ltac use_res1 H :=
  match type of H with
  | res1 _ _ _ = Ok _ _ => apply res1_inv in H; destruct H as [? ?]; subst
  | Ok _ _ = Ok _ _ => inversion H; subst; clear H
  end.

