(* C09 at the dispatch layer: how Inner::recv_* reacts to every received frame, in every reachable and
   unreachable state of the store (the theorems are about one step from ANY state, hence about every
   history), for all observed inputs. *)
From H2V Require Import Base.Tac Base.Bytes Model.StreamState Ref.Rfc9113Stream Proofs.StreamStateProofs
  Model.Dispatch.
Local Open Scope N_scope.

(* ---------------------------------------------------------------------------------------------
   association lists *)

Lemma sget_sset_same {A} k (r : A) l : sget k (sset k r l) = Some r.
Proof.
  induction l as [|[k' x] l IH]; cbn [sset sget].
  - rewrite N.eqb_refl; reflexivity.
  - destruct (k' =? k) eqn:E; cbn [sget]; rewrite E; auto.
Qed.

Lemma sget_sset_other {A} k k2 (r : A) l : k2 <> k -> sget k2 (sset k r l) = sget k2 l.
Proof.
  intros Hne. induction l as [|[k' x] l IH]; cbn [sset sget].
  - destruct (k =? k2) eqn:E; auto. apply N.eqb_eq in E; congruence.
  - destruct (k' =? k) eqn:E; cbn [sget].
    + apply N.eqb_eq in E; subst k'. destruct (k =? k2) eqn:E2; auto. apply N.eqb_eq in E2; congruence.
    + destruct (k' =? k2); auto.
Qed.

Lemma sget_sdel_other {A} k k2 (l : list (N * A)) : k2 <> k -> sget k2 (sdel k l) = sget k2 l.
Proof.
  intros Hne. induction l as [|[k' x] l IH]; cbn [sdel sget]; auto.
  destruct (k' =? k) eqn:E; cbn [sget].
  - apply N.eqb_eq in E; subst k'. destruct (k =? k2) eqn:E2; auto. apply N.eqb_eq in E2; congruence.
  - destruct (k' =? k2); auto.
Qed.

(* ---------------------------------------------------------------------------------------------
   projections of the state updates *)

Lemma kget_put_same st k r : kget (put st k r) k = Some r.
Proof. apply sget_sset_same. Qed.
Lemma kget_put_other st k k2 r : k2 <> k -> kget (put st k r) k2 = kget st k2.
Proof. apply sget_sset_other. Qed.
Lemma ids_put st k r : c_ids (put st k r) = c_ids st.
Proof. reflexivity. Qed.
Lemma kget_insert_same st k r : kget (insert st k r) k = Some r.
Proof. apply sget_sset_same. Qed.
Lemma kget_insert_other st k k2 r : k2 <> k -> kget (insert st k r) k2 = kget st k2.
Proof. apply sget_sset_other. Qed.
Lemma ids_insert_other st k r sid : sid <> s_id r -> sget sid (c_ids (insert st k r)) = sget sid (c_ids st).
Proof. intros; unfold insert; cbn. apply sget_sset_other; auto. Qed.

(* ---------------------------------------------------------------------------------------------
   clear_queue fails the streams whose PUSH_PROMISE it drops (repair cc6ac6c) *)

Lemma failed_promise_idem c : failed_promise (failed_promise c) = failed_promise c.
Proof. reflexivity. Qed.

Definition same_or_failed (st st' : conn) (k : N) : Prop :=
  kget st' k = kget st k \/ exists c, kget st k = Some c /\ kget st' k = Some (failed_promise c).

Lemma same_or_failed_refl st k : same_or_failed st st k.
Proof. left; reflexivity. Qed.

Lemma same_or_failed_trans st1 st2 st3 k :
  same_or_failed st1 st2 k -> same_or_failed st2 st3 k -> same_or_failed st1 st3 k.
Proof.
  intros [H1|(c & H1 & H1')] [H2|(d & H2 & H2')].
  - left; congruence.
  - right. exists d. rewrite <- H1. auto.
  - right. exists c. split; auto. congruence.
  - right. exists c. split; auto. rewrite H2'. rewrite H1' in H2. inversion H2; subst. reflexivity.
Qed.

Lemma fail_promised_one_spec st f k : same_or_failed st (fail_promised_one st f) k.
Proof.
  destruct f; try apply same_or_failed_refl. cbn [fail_promised_one].
  destruct (iget st promised) as [[ck c]|] eqn:Ei; [|apply same_or_failed_refl].
  destruct (N.eq_dec k ck) as [->|Hne].
  - right. exists c. split; [|apply kget_put_same].
    unfold iget in Ei. destruct (sget promised (c_ids st)); [|discriminate].
    destruct (kget st n) eqn:E; [|discriminate]. inversion Ei; subst; auto.
  - left. apply kget_put_other; auto.
Qed.

Lemma fail_promised_spec q : forall st k, same_or_failed st (fail_promised st q) k.
Proof.
  induction q as [|f q IH]; intros st k; cbn [fail_promised fold_left]; [apply same_or_failed_refl|].
  eapply same_or_failed_trans; [apply fail_promised_one_spec|apply IH].
Qed.

Lemma drop_promises_spec st o q k : same_or_failed st (drop_promises st o q) k.
Proof. unfold drop_promises. destruct (has_cleared o); [apply fail_promised_spec|apply same_or_failed_refl]. Qed.

Fixpoint no_push (q : list qframe) : bool :=
  match q with [] => true | QPush _ :: _ => false | _ :: q' => no_push q' end.

Lemma fail_promised_no_push q : forall st, no_push q = true -> fail_promised st q = st.
Proof.
  induction q as [|f q IH]; intros st H; cbn [fail_promised fold_left]; auto.
  destruct f; cbn [no_push] in H; try discriminate; cbn [fail_promised_one]; apply IH; auto.
Qed.

Lemma drop_promises_no_push st o q : no_push q = true -> drop_promises st o q = st.
Proof. intros H. unfold drop_promises. destruct (has_cleared o); auto. apply fail_promised_no_push; auto. Qed.

Lemma drop_put_other st k r2 o q k0 :
  k0 <> k -> same_or_failed st (drop_promises (put st k r2) o q) k0.
Proof.
  intros Hne. destruct (drop_promises_spec (put st k r2) o q k0) as [H|(c & H & H')].
  - left. rewrite H. apply kget_put_other; auto.
  - right. exists c. rewrite kget_put_other in H by auto. auto.
Qed.

Lemma drop_put_same st k r2 o q :
  kget (drop_promises (put st k r2) o q) k = Some r2 \/ kget (drop_promises (put st k r2) o q) k = Some (failed_promise r2).
Proof.
  destruct (drop_promises_spec (put st k r2) o q k) as [H|(c & H & H')].
  - left. rewrite H. apply kget_put_same.
  - right. rewrite kget_put_same in H. inversion H; subst. auto.
Qed.

(* ---------------------------------------------------------------------------------------------
   outputs *)

Fixpoint has_app (o : list out) : bool :=
  match o with [] => false | OApp _ _ :: _ => true | _ :: o' => has_app o' end.
Fixpoint has_emit (o : list out) : bool :=
  match o with [] => false | OEmit _ :: _ => true | _ :: o' => has_emit o' end.
Fixpoint refused_in (o : list out) : bool :=
  match o with [] => false | ORxRefused _ :: _ => true | _ :: o' => refused_in o' end.

Lemma has_app_app a b : has_app (a ++ b) = has_app a || has_app b.
Proof. induction a as [|x a IH]; cbn [app has_app]; auto. destruct x; auto. Qed.
Lemma outs_result_app_res o r : outs_result (o ++ [ORes r]) = match outs_result o with Some x => Some x | None => Some r end.
Proof. induction o as [|x o IH]; cbn [app outs_result]; auto. destruct x; auto. Qed.
Lemma refused_in_app a b : refused_in (a ++ b) = refused_in a || refused_in b.
Proof. induction a as [|x a IH]; cbn [app refused_in]; auto. destruct x; auto. Qed.

(* the frame types of the received-frame labels *)
Definition recv_frame (l : label) : option (N * ftype) :=
  match l with
  | LRecvHeaders sid _ _ _ _ => Some (sid, HEADERS)
  | LRecvData sid _ _ => Some (sid, DATA)
  | LRecvReset sid _ _ => Some (sid, RST_STREAM)
  | LRecvWindowUpdate sid _ => Some (sid, WINDOW_UPDATE)
  | LRecvPushPromise sid _ _ _ => Some (sid, PUSH_PROMISE)
  | LRecvPriority sid => Some (sid, PRIORITY)
  | _ => None
  end.

(* the second identifier a PUSH_PROMISE names *)
Definition promised_of (l : label) : option N :=
  match l with LRecvPushPromise _ p _ _ => Some p | _ => None end.

(* ---------------------------------------------------------------------------------------------
   the primitives touch one record and queue at most a RST_STREAM *)

Lemma send_reset_core_id sid reason i r r' o : send_reset_core sid reason i r = (r', o) -> s_id r' = s_id r.
Proof.
  unfold send_reset_core. destruct (is_reset (s_state r)); [intros H; inversion H; auto|].
  destruct (is_closed (s_state r) && _ && _); [intros H; inversion H; auto|].
  cbn [set_state s_popen]. destruct (s_popen r); cbn; intros H; inversion H; auto.
Qed.

Lemma send_reset_core_no_app sid reason i r r' o : send_reset_core sid reason i r = (r', o) -> has_app o = false.
Proof.
  unfold send_reset_core. destruct (is_reset (s_state r)); [intros H; inversion H; auto|].
  destruct (is_closed (s_state r) && _ && _); [intros H; inversion H; auto|].
  cbn [set_state s_popen]. destruct (s_popen r); cbn; intros H; inversion H; auto.
Qed.

Lemma reset_on_err_no_app sid res q c r r' o res' :
  reset_on_recv_stream_err sid res q c r = (r', o, res') -> has_app o = false.
Proof.
  unfold reset_on_recv_stream_err. destruct res as [| |e|u]; try (intros H; inversion H; reflexivity).
  destruct e as [s rs i|d rs i|k m]; try (intros H; inversion H; reflexivity).
  destruct q; [|intros H; inversion H; reflexivity].
  destruct (send_reset_core sid rs i r) as [r1 o1] eqn:E. intros H; inversion H; subst.
  cbn [has_app]. eapply send_reset_core_no_app; eauto.
Qed.

(* reset_on_recv_stream_err: an error result that remains is a connection error with a non-zero code,
   or the input result *)
Lemma reset_on_err_result sid res q c r r' o res' :
  reset_on_recv_stream_err sid res q c r = (r', o, res') ->
  (res' = res /\ r' = r /\ o = [] /\ (forall s rs i, res <> RErr (EReset s rs i)))
  \/ (exists s rs i, res = RErr (EReset s rs i) /\
      ((q = true /\ res' = ROk /\ refused_in o = true /\ is_reset (s_state r') = true)
       \/ (q = false /\ res' = RErr too_many_internal_resets /\ r' = r /\ o = []))).
Proof.
  unfold reset_on_recv_stream_err. destruct res as [| |e|u]; try (intros H; inversion H; left; repeat split; congruence).
  destruct e as [s rs i|d rs i|k m]; try (intros H; inversion H; left; repeat split; congruence).
  right. exists s, rs, i. split; auto. destruct q.
  - left. destruct (send_reset_core sid rs i r) as [r1 o1] eqn:E. inversion H; subst. repeat split; auto.
    unfold send_reset_core in E. unfold enqueue_reset_expiration.
    destruct (is_reset (s_state r)) eqn:Er.
    + inversion E; subst. destruct (negb _ || _); [auto|]. destruct c; cbn; auto.
    + assert (Hs : is_reset (Closed (CError (EReset sid rs i))) = true) by reflexivity.
      destruct (is_closed (s_state r) && _ && _).
      * inversion E; subst. cbn [set_state s_state s_rexp]. destruct (negb _ || _); auto. destruct c; auto.
      * cbn [set_state s_popen] in E. destruct (s_popen r); cbn in E; inversion E; subst; cbn;
          destruct (negb _ || _); auto; destruct c; auto.
  - right. inversion H; auto.
Qed.

(* ---------------------------------------------------------------------------------------------
   peeling a step function: one destruct per `match` / `if` of the hypothesis *)

Ltac peel H :=
  repeat (first
    [ discriminate H
    | match type of H with
      | context [match ?x with _ => _ end] =>
        match x with
        | context [match _ with _ => _ end] => fail 1
        | _ => let E := fresh "E" in destruct x eqn:E
        end
      end ]).

Lemma res1_inv st o r st' outs : res1 st o r = Ok st' outs -> st' = st /\ outs = o ++ [ORes r].
Proof. unfold res1; intros H; inversion H; auto. Qed.

(* the key of the one record a received frame can change: the one store.ids holds for the stream (for a
   PUSH_PROMISE: for nothing, the parent is not changed), or the fresh key of the record it inserts *)
Definition touched (st : conn) (l : label) : N :=
  match l with
  | LRecvHeaders sid _ _ _ nk => match iget st sid with Some (k, _) => k | None => nk end
  | LRecvData sid _ _ | LRecvReset sid _ _ | LRecvWindowUpdate sid _ =>
    match iget st sid with Some (k, _) => k | None => 0 end
  | LRecvPushPromise _ _ _ nk => nk
  | _ => 0
  end.

Lemma kget_with_recv_next st n k : kget (with_recv_next st n) k = kget st k.
Proof. reflexivity. Qed.
Lemma kget_with_refused st n k : kget (with_refused st n) k = kget st k.
Proof. reflexivity. Qed.

Lemma recv_open_id_slab st id push can :
  match recv_open_id st id push can with
  | OpRefused st1 | OpOpened st1 => c_slab st1 = c_slab st /\ c_ids st1 = c_ids st /\ c_role st1 = c_role st
  | _ => True
  end.
Proof.
  unfold recv_open_id. destruct (c_refused st); auto.
  destruct (if is_server (c_role st) then _ else _); auto.
  destruct (c_recv_next st); auto. destruct (id <? n); auto. destruct can; cbn; auto.
Qed.

Ltac use_res1 H :=
  match type of H with
  | res1 _ _ _ = Ok _ _ => apply res1_inv in H; destruct H as [? ?]; subst
  | Ok _ _ = Ok _ _ => inversion H; subst; clear H
  end.

(* ---------------------------------------------------------------------------------------------
   definitions of the statements *)

Ltac unf :=
  unfold step_recv_headers, recv_headers_on, recv_headers_core, recv_trailers_core,
         step_recv_data, recv_data_core, ignore_data, step_recv_reset, step_recv_window_update, step_recv_push_promise,
         reset_on_recv_stream_err,
         send_reset_core, enqueue_reset_expiration, schedule_implicit_reset, queue_frame, clear_queue, res1,
         conn_proto, conn_flow, lib_reset, library_go_away, too_many_data_frames, too_many_resets, too_many_internal_resets in *.

Lemma sset_same {A} k (r : A) l : sget k l = Some r -> sset k r l = l.
Proof.
  induction l as [|[k' x] l IH]; cbn [sget sset]; [discriminate|].
  destruct (k' =? k) eqn:E; intros H.
  - inversion H; subst. reflexivity.
  - rewrite IH; auto.
Qed.

Lemma iget_kget st sid k r : iget st sid = Some (k, r) -> kget st k = Some r.
Proof.
  unfold iget. destruct (sget sid (c_ids st)); [|discriminate]. destruct (kget st n) eqn:E; [|discriminate].
  intros H; inversion H; subst; auto.
Qed.

Lemma put_same st k r : kget st k = Some r -> put st k r = st.
Proof. intros H. unfold put. unfold kget in H. rewrite sset_same by auto. destruct st; reflexivity. Qed.


Definition result_of (o : list out) : result := match outs_result o with Some r => r | None => ROk end.

Definition is_conn_error (r : result) : bool :=
  match r with RErr (EGoAway _ c _) => negb (c =? 0) | _ => false end.

(* the state of a stream as the peer can know it, from this endpoint's record *)
Definition pview (ro : role) (r : srec) : rfc_state * closed_how :=
  if s_ppush r then (idle, by_end_stream)
  else if s_popen r && negb (is_server ro) then (idle, by_end_stream)
  else if is_closed (s_state r) && negb (is_local_error (s_state r)) then (closed, how_of (s_state r))
  else if s_popen r then (reserved_local, by_end_stream)
  else (abs (s_state r), how_of (s_state r)).

Definition lenient (ro : role) (r : srec) (t : ftype) : bool :=
  s_ppush r
  || is_local_error (s_state r)
  || (match s_state r, t with
      | Idle, _ => true
      | ReservedLocal, HEADERS => true
      | ReservedRemote, WINDOW_UPDATE => true
      | _, _ => false
      end).


Ltac kill_state r Hv L4 :=
  destruct (s_state r) as [| | |lo re|p|p|c] eqn:Es;
  [ | | | destruct lo, re | destruct p | destruct p
    | destruct c as [|e|e|rs]; [ | destruct e as [es er ei|ed er ei|ek em]; [destruct ei| destruct ei | ]
                                 | destruct e as [es er ei|ed er ei|ek em]; [destruct ei| destruct ei | ] | ] ];
  cbn in Hv, L4; try discriminate.

(* record shapes no history produces (DispatchInv proves it): a request still waiting for a concurrency slot has
   received nothing *)
Definition wf_rec (ro : role) (r : srec) : bool :=
  negb (s_popen r && is_recv_streaming (s_state r)).

Fixpoint bad_reset_queued (o : list out) : bool :=
  match o with
  | [] => false
  | OQueue _ (QReset c) :: o' => violation_code c || bad_reset_queued o'
  | _ :: o' => bad_reset_queued o'
  end.

(* the endpoint penalises the peer: a connection error, or a stream error with a code that accuses the peer *)
Definition penalised (o : list out) : bool :=
  match result_of o with
  | RErr (EGoAway _ _ _) => true
  | RErr (EReset _ c Library) => violation_code c
  | _ => false
  end || bad_reset_queued o.

(* the observed verdicts that are not the peer's fault *)
Definition obs_fine (l : label) : bool :=
  match l with
  | LRecvHeaders _ eos info o _ => negb (info && eos) && match h_verdict o with HOk => true | _ => false end
                                   && (h_can_count o || h_quota o)
  | LRecvData _ _ o => match d_verdict o with DOk => true | _ => false end && d_budget o
  | LRecvReset _ _ o => r_quota o
  | LRecvWindowUpdate _ o => negb (w_overflow o)
  | LRecvPushPromise _ _ o _ => p_valid o
  | _ => true
  end.

(* RFC 9113 8.1: where the frame stands in the peer's message *)
Definition msg_fine (l : label) (s : state) : bool :=
  match l with
  | LRecvHeaders _ eos _ _ _ =>
    match recv_phase s with awaiting => true | body => eos | done => true end
  | LRecvData _ _ _ => match recv_phase s with awaiting => false | _ => true end
  | _ => true
  end.

Lemma wf_shape_rec ro sid r : wf_shape ro sid r = true -> wf_rec ro r = true.
Proof.
  unfold wf_shape, wf_rec. destruct (s_popen r); [|reflexivity].
  destruct (s_ppush r); cbn [negb andb]; [rewrite !andb_false_r; discriminate|].
  destruct (s_state r) as [| | |lo re|p|p|c]; try destruct lo; try destruct re; try destruct p;
    destruct (is_local_init ro sid), (is_server ro); cbn; try discriminate; auto.
Qed.

(* 8.4 / 5.1.1: a PUSH_PROMISE is legal from a server to a client that has not disabled push, on a request of the
   client, and promises a fresh even identifier above all earlier ones *)
Definition conn_fine (st : conn) (l : label) : bool :=
  match l with
  | LRecvPushPromise sid p _ _ =>
    negb (is_server (c_role st)) && c_push_local st && is_server_init p &&
    match c_recv_next st with Some n => n <=? p | None => false end &&
    is_local_init (c_role st) sid
  | _ => true
  end.

Definition tolerable (v : verdict) : bool := match v with accept | tolerate => true | _ => false end.

Ltac kill_state2 r Hv Hm Hwf :=
  destruct (s_state r) as [| | |lo re|p|p|c] eqn:Es;
  [ | | | destruct lo, re | destruct p | destruct p
    | destruct c as [|e|e|rs]; [ | destruct e as [es er ei|ed er ei|ek em]; [destruct ei| destruct ei | ]
                                 | destruct e as [es er ei|ed er ei|ek em]; [destruct ei| destruct ei | ] | ] ];
  cbn in Hv, Hm, Hwf; try discriminate.

Ltac finish0 :=
  try reflexivity;
  try (exfalso; repeat match goal with b : bool |- _ => destruct b end;
       cbn in *; try congruence;
       repeat match goal with v : hverdict |- _ => destruct v | v : dverdict |- _ => destruct v end;
       cbn in *; congruence).

(* ---------------------------------------------------------------------------------------------
   a received frame changes at most the record of its stream; nothing is handed to the codec *)

Theorem recv_confined st l sid t st' outs :
  recv_frame l = Some (sid, t) -> step st l = Ok st' outs ->
  (forall k, k <> touched st l -> same_or_failed st st' k) /\ has_emit outs = false.
Proof.
  intros Hl Hs. destruct l; cbn [recv_frame] in Hl; try discriminate; inversion Hl; subst; clear Hl;
    cbn [step touched] in *.
  - (* HEADERS *)
    unfold step_recv_headers in Hs.
    destruct (sid =? 0); [discriminate|].
    destruct (c_recv_max st <? sid); [use_res1 Hs; split; auto; intros; apply same_or_failed_refl|].
    destruct (iget st sid) as [[k r]|] eqn:Ei.
    + unf. cbn [s_popen s_state set_state] in Hs. peel Hs; use_res1 Hs;
        (split; [intros; first [apply same_or_failed_refl | apply drop_put_other; auto] | reflexivity]).
    + destruct ((negb (is_server (c_role st)) || h_no_method o) && may_have_forgotten st sid); [use_res1 Hs; split; auto; intros; apply same_or_failed_refl|].
      pose proof (recv_open_id_slab st sid false (h_can_open o)) as Ho.
      destruct (recv_open_id st sid false (h_can_open o)) as [e|st1|st1|]; try discriminate.
      * use_res1 Hs; split; auto; intros; apply same_or_failed_refl.
      * use_res1 Hs; destruct Ho as (Hsl & _). split; auto. intros; left; unfold kget; rewrite Hsl; auto.
      * destruct Ho as (Hsl & Hid & _). destruct (kget st1 nk) eqn:Ek; [discriminate|].
        unf. cbn [s_popen s_state set_state new_rec s_q] in Hs. unfold drop_promises in Hs. cbn [fail_promised fold_left] in Hs.
        peel Hs; use_res1 Hs;
        (split; [intros; left; rewrite ?kget_put_other by auto; rewrite ?kget_insert_other by auto; unfold kget; rewrite Hsl; auto | reflexivity]).
  - (* DATA *)
    unf. destruct (sid =? 0); [discriminate|].
    destruct (iget st sid) as [[k r]|] eqn:Ei.
    + peel Hs; use_res1 Hs; (split; [intros; first [apply same_or_failed_refl | apply drop_put_other; auto] | reflexivity]).
    + peel Hs; use_res1 Hs; split; auto; intros; apply same_or_failed_refl.
  - (* RST *)
    unf. destruct (iget st sid) as [[k r]|] eqn:Ei; peel Hs; use_res1 Hs;
      (split; [intros; first [apply same_or_failed_refl | apply drop_put_other; auto] | reflexivity]).
  - unf. destruct (iget st sid) as [[k r]|] eqn:Ei; peel Hs; use_res1 Hs;
      (split; [intros; first [apply same_or_failed_refl | apply drop_put_other; auto] | reflexivity]).
  - (* PP *)
    unf. destruct (sid =? 0); [discriminate|].
    destruct (iget st sid) as [[k r]|] eqn:Ei; [|use_res1 Hs; split; auto; intros; apply same_or_failed_refl].
    destruct (negb (is_local_init (c_role st) sid) || s_popen r); [use_res1 Hs; split; auto; intros; apply same_or_failed_refl|].
    destruct (c_recv_max st <? sid); [use_res1 Hs; split; auto; intros; apply same_or_failed_refl|].
    pose proof (recv_open_id_slab st promised true (p_can_open o)) as Ho.
    destruct (is_local_error (s_state r)).
    { destruct (negb (c_push_local st)); [use_res1 Hs; split; auto; intros; apply same_or_failed_refl|].
      destruct (recv_open_id st promised true (p_can_open o)) as [e|st1|st1|]; try discriminate;
        use_res1 Hs; split; auto; intros; try apply same_or_failed_refl;
        destruct Ho as (Hsl & _); left; unfold kget; rewrite Hsl; auto. }
    destruct (ensure_recv_open (s_state r)) as [|b| | | |]; try (use_res1 Hs; split; auto; intros; apply same_or_failed_refl).
    destruct b; [|use_res1 Hs; split; auto; intros; apply same_or_failed_refl].
    destruct (negb (c_push_local st)); [use_res1 Hs; split; auto; intros; apply same_or_failed_refl|].
    destruct (recv_open_id st promised true (p_can_open o)) as [e|st1|st1|]; try discriminate.
    * use_res1 Hs; split; auto; intros; apply same_or_failed_refl.
    * use_res1 Hs; destruct Ho as (Hsl & _). split; auto. intros; left; unfold kget; rewrite Hsl; auto.
    * destruct Ho as (Hsl & Hid & _). destruct (kget st1 nk) eqn:Ek; [discriminate|].
      cbn [new_rec s_state reserve_remote set_state] in Hs. peel Hs; use_res1 Hs;
      (split; [intros; left; rewrite ?kget_insert_other by auto; unfold kget; rewrite Hsl; auto | reflexivity]).
  - use_res1 Hs. split; auto. intros; apply same_or_failed_refl.
Qed.

(* ---------------------------------------------------------------------------------------------
   reaction: where RFC 9113 5.1 demands a connection error *)

Theorem recv_conn_error_required st l sid t k r st' outs :
  recv_frame l = Some (sid, t) -> iget st sid = Some (k, r) -> c_recv_max st <? sid = false ->
  wf_shape (c_role st) sid r = true ->
  receiver_must_for (is_local_init (c_role st) sid) (fst (pview (c_role st) r)) (snd (pview (c_role st) r)) t = conn_error ->
  lenient (c_role st) r t = false ->
  step st l = Ok st' outs ->
  is_conn_error (result_of outs) = true /\ has_app outs = false /\ st' = st.
Proof.
  intros Hl Hi Hmax Hwf0 Hv Hlen Hs. pose proof (wf_shape_rec _ _ _ Hwf0) as Hwf. unfold wf_rec in Hwf.
  apply andb_true_iff in Hwf0. destruct Hwf0 as [Hwf0 _].
  unfold lenient in Hlen. apply orb_false_iff in Hlen. destruct Hlen as [Hlen L4].
  apply orb_false_iff in Hlen. destruct Hlen as [L1 L2].
  unfold pview in Hv. rewrite L1, L2 in Hv. rewrite andb_true_r in Hv.
  destruct l; cbn [recv_frame] in Hl; try discriminate; inversion Hl; subst; clear Hl; cbn [step] in Hs;
    unf; unfold recv_open_id in Hs; rewrite ?Hi, ?Hmax, ?L2 in Hs;
    (destruct (sid =? 0); [try discriminate|]);
    try (use_res1 Hs; cbn; auto; fail);
    destruct (is_server (c_role st)) eqn:Er; destruct (s_popen r) eqn:Ep;
    kill_state r Hv L4; cbn in Hs, L2, Hwf, Hwf0, Hv; try discriminate;
    try (destruct (is_local_init _ sid); discriminate);
    peel Hs; try (use_res1 Hs);
    try (exfalso; repeat match goal with H : context [_ || true] |- _ => rewrite orb_true_r in H end;
         try (apply negb_true_iff in Hwf0; rewrite Hwf0 in *; cbn in *); congruence);
    rewrite ?(put_same st k r) by (eapply iget_kget; eauto); cbn; auto.
Qed.

(* T2: a frame on an identifier that was never used *)
Theorem recv_idle_conn_error st l sid t st' outs :
  recv_frame l = Some (sid, t) -> iget st sid = None -> not_idle st sid = false ->
  c_recv_max st <? sid = false -> t <> PRIORITY ->
  (t = HEADERS -> is_local_init (c_role st) sid = true) ->
  step st l = Ok st' outs ->
  is_conn_error (result_of outs) = true /\ has_app outs = false /\ st' = st.
Proof.
  intros Hl Hi Hidle Hmax Hp Hh Hs.
  assert (Hf : sid <> 0 -> may_have_forgotten st sid = false).
  { intros Hz. unfold may_have_forgotten, not_idle in *. destruct (sid =? 0); auto. }
  destruct l; cbn [recv_frame] in Hl; try discriminate; inversion Hl; subst; clear Hl; cbn [step] in Hs;
    unf; rewrite ?Hi, ?Hmax, ?Hidle in Hs; cbn [andb] in Hs; try congruence;
    (destruct (sid =? 0) eqn:Ez; [try discriminate|apply N.eqb_neq in Ez; rewrite ?(Hf Ez) in Hs]);
    try (use_res1 Hs; cbn; auto; fail).
  (* HEADERS on an identifier of ours *)
  specialize (Hh eq_refl). rewrite andb_false_r in Hs.
  unfold recv_open_id in Hs. unfold is_local_init in Hh.
  destruct (c_refused st); [discriminate|].
  destruct (is_server (c_role st)) eqn:Er; cbn in Hh, Hs.
  - assert (Hc : is_client_init sid = false).
    { unfold is_client_init, is_server_init in *. destruct (sid =? 0); cbn in *; try discriminate.
      destruct (sid mod 2 =? 0) eqn:E0; try discriminate. apply N.eqb_eq in E0. rewrite E0. reflexivity. }
    rewrite Hc in Hs. cbn in Hs. use_res1 Hs. cbn; auto.
  - use_res1 Hs. cbn; auto.
Qed.

(* an error that blames the frame (everything but the DATA-frame budget, which is charged after the frame was taken) *)
Definition blames (r : result) : bool :=
  match r with
  | RErr (EGoAway d _ _) => negb (list_N_eqb d TOO_MANY_DATA_FRAMES)
  | RErr _ => true
  | _ => false
  end.

Ltac leaf :=
  match goal with
  | |- _ -> _ => let H := fresh in intros H; vm_compute in H; vm_compute;
                 first [ reflexivity | destruct H; discriminate | idtac ]
  end.

Theorem recv_refused_not_surfaced st l sid t st' outs :
  recv_frame l = Some (sid, t) -> step st l = Ok st' outs ->
  blames (result_of outs) = true \/ refused_in outs = true ->
  has_app outs = false.
Proof.
  intros Hl Hs. destruct l; cbn [recv_frame] in Hl; try discriminate; inversion Hl; subst; clear Hl; cbn [step] in Hs.
  - unf. unfold recv_open_id in Hs. cbn [new_rec s_popen s_state] in Hs.
    peel Hs; try (use_res1 Hs); unfold result_of; leaf.
  - unf. peel Hs; try (use_res1 Hs); unfold result_of; leaf.
  - unf. peel Hs; try (use_res1 Hs); unfold result_of; leaf.
  - unf. peel Hs; try (use_res1 Hs); unfold result_of; leaf.
  - unf. unfold recv_open_id in Hs. cbn [new_rec s_state reserve_remote] in Hs.
    peel Hs; try (use_res1 Hs); unfold result_of; leaf.
  - use_res1 Hs. intros; reflexivity.
Qed.

