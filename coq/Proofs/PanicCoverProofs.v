From Coq Require Import String List NArith Bool.
From H2V Require Import Gen.PanicSites Model.PanicCover.
Import ListNotations.

Lemma sites_classified : forallb is_classified panic_sites = true.
Proof. vm_compute. reflexivity. Qed.

Lemma table_live : forallb entry_live manual = true.
Proof. vm_compute. reflexivity. Qed.

Lemma cited_are_audited : forallb (fun n => existsb (String.eqb n) audited) (cited manual) = true.
Proof. vm_compute. reflexivity. Qed.

Lemma inventory_nonvacuous :
  (0 < count (fun c => match c with ByTheorem _ => true | _ => false end))%N /\
  (0 < count (fun c => match c with Residual _ => true | _ => false end))%N /\
  (100 < N.of_nat (length panic_sites))%N.
Proof. vm_compute. repeat split. Qed.

(* summary numbers for the evidence file *)
Definition summary : list (string * N) :=
  [("sites"%string, N.of_nat (length panic_sites));
   ("by_theorem"%string, count (fun c => match c with ByTheorem _ => true | _ => false end));
   ("api_misuse"%string, count (fun c => match c with ApiMisuse => true | _ => false end));
   ("infallible"%string, count (fun c => match c with Infallible _ => true | _ => false end));
   ("poisoned"%string, count (fun c => match c with Poisoned => true | _ => false end));
   ("debug_only"%string, count (fun c => match c with DebugOnly => true | _ => false end));
   ("residual"%string, count (fun c => match c with Residual _ => true | _ => false end))].
