(* C09 at the dispatch layer, tolerance: every frame RFC 9113 permits in the stream's state is taken without a
   connection error and without a stream error that accuses the peer. *)
From H2V Require Import Base.Tac Base.Bytes Model.StreamState Ref.Rfc9113Stream Proofs.StreamStateProofs
  Model.Dispatch Proofs.DispatchRecv.
Local Open Scope N_scope.

(* ---------------------------------------------------------------------------------------------
   tolerance *)

Theorem recv_tolerated st l sid t k r st' outs :
  recv_frame l = Some (sid, t) -> iget st sid = Some (k, r) -> (sid =? 0) = false ->
  wf_shape (c_role st) sid r = true ->
  tolerable (receiver_must_for (is_local_init (c_role st) sid) (fst (pview (c_role st) r)) (snd (pview (c_role st) r)) t) = true ->
  obs_fine l = true -> msg_fine l (s_state r) = true -> conn_fine st l = true ->
  step st l = Ok st' outs ->
  penalised outs = false.
Proof.
  intros Hl Hi Hz Hwf Hv Ho Hm Hc Hs. unfold pview in Hv. unfold wf_shape in Hwf.
  destruct l; cbn [recv_frame] in Hl; try discriminate; inversion Hl; subst; clear Hl; cbn [step obs_fine msg_fine conn_fine] in *;
    try (use_res1 Hs; reflexivity).
  5: { (* PUSH_PROMISE *)
    apply andb_true_iff in Hc. destruct Hc as [Hc Hloc].
    apply andb_true_iff in Hc. destruct Hc as [Hc Hc3]. apply andb_true_iff in Hc. destruct Hc as [Hc Hc2].
    apply andb_true_iff in Hc. destruct Hc as [Er Hc1]. apply negb_true_iff in Er.
    destruct (c_recv_next st) as [n|] eqn:En; [|discriminate]. apply N.leb_le in Hc3.
    assert (Hlt : (promised <? n) = false) by (apply N.ltb_ge; auto).
    unfold step_recv_push_promise, recv_open_id in Hs. rewrite Hi, Hz, Er, Hc1, Hc2, En, Hlt, Hloc in Hs. cbn [negb andb orb] in Hs.
    destruct (s_popen r) eqn:Ep; destruct (s_ppush r) eqn:Eu; rewrite ?Er in *;
      kill_state2 r Hv Hm Hwf;
      try (destruct (is_local_init _ sid); discriminate);
      destruct o; cbn in Ho; subst;
      unf; cbn in Hs; peel Hs; try (use_res1 Hs); finish0. }
  all: destruct (is_server (c_role st)) eqn:Er; destruct (s_popen r) eqn:Ep; destruct (s_ppush r) eqn:Eu;
    kill_state2 r Hv Hm Hwf;
    try (destruct (is_local_init _ sid); discriminate);
    destruct o; cbn in Ho;
    unf; unfold recv_open_id in Hs; rewrite ?Hi, ?Es, ?Ep, ?Eu, ?Er, ?Hz in Hs; cbn in Hs.
  all: peel Hs; try (use_res1 Hs); finish0.
Qed.

(* frames on an identifier the store does not know (closed and forgotten, or never used) *)
Theorem recv_unknown_tolerated st l sid t st' outs :
  recv_frame l = Some (sid, t) -> iget st sid = None -> (sid =? 0) = false ->
  (t = WINDOW_UPDATE \/ t = RST_STREAM \/ t = PRIORITY) -> not_idle st sid = true \/ t = PRIORITY ->
  obs_fine l = true ->
  step st l = Ok st' outs ->
  penalised outs = false /\ st' = st /\ has_app outs = false.
Proof.
  intros Hl Hi Hz Ht Hn Ho Hs.
  destruct l; cbn [recv_frame] in Hl; try discriminate; inversion Hl; subst; clear Hl; cbn [step] in Hs;
    try (destruct Ht as [Ht|[Ht|Ht]]; discriminate); unf; rewrite ?Hi, ?Hz in Hs.
  - destruct Hn as [Hn|Hn]; [|discriminate]. rewrite Hn in Hs. peel Hs; use_res1 Hs; auto.
  - destruct Hn as [Hn|Hn]; [|discriminate]. rewrite Hn in Hs. use_res1 Hs; auto.
  - use_res1 Hs; auto.
Qed.

(* a new stream of the peer: HEADERS on a fresh identifier of the right parity *)
Theorem recv_new_stream_tolerated st sid eos info o nk st' outs :
  iget st sid = None -> is_server (c_role st) = true -> is_client_init sid = true ->
  (match c_recv_next st with Some n => n <=? sid | None => false end) = true ->
  obs_fine (LRecvHeaders sid eos info o nk) = true ->
  step st (LRecvHeaders sid eos info o nk) = Ok st' outs ->
  penalised outs = false.
Proof.
  intros Hi Er Hc Hn Ho Hs. cbn [step obs_fine] in *.
  assert (Hz : (sid =? 0) = false).
  { unfold is_client_init in Hc. destruct (sid =? 0); auto. }
  destruct (c_recv_next st) as [n|] eqn:En; [|discriminate]. apply N.leb_le in Hn.
  assert (Hlt : (sid <? n) = false) by (apply N.ltb_ge; auto).
  assert (Hf : may_have_forgotten st sid = false).
  { unfold may_have_forgotten, is_local_init. rewrite Hz, Er, En.
    unfold is_client_init, is_server_init in *. rewrite Hz in *. cbn [negb andb] in *.
    destruct (sid mod 2 =? 0) eqn:E0.
    - apply N.eqb_eq in E0. rewrite E0 in Hc. discriminate.
    - cbn. exact Hlt. }
  unfold step_recv_headers, recv_open_id in Hs. rewrite Hi, Hz, Er, Hc, En, Hlt, Hf in Hs.
  rewrite andb_false_r in Hs. cbn [negb andb orb] in Hs.
  destruct o; cbn in Ho. unf. cbn in Hs.
  peel Hs; try (use_res1 Hs); finish0.
Qed.

