(* The concrete instance of C01's wire interface: [h2_wcodec] (Model/WireCodec.v) = h2's frame codec
   composed with h2's HPACK encoder on the sending side and h2's HPACK decoder on the receiving side.

   DataPath's [codec_sync c R] quantifies over EVERY frame value and demands the frame back unchanged.
   No real codec satisfies that literally: a stream id has 31 bits, a DATA payload must fit the peer's
   max_frame_size, header strings must be octet strings, h2's decoder validates fields, the receiver
   bounds CONTINUATION runs -- and the wire does not carry DataPath's head/interim/trailers tag.
   [codec_sync_on P proj c R] is the same interface relative to a predicate P on (encoder state, frame)
   and a projection proj (what the wire preserves); [codec_sync] is the instance P = True, proj = id
   ([codec_sync_is_on]).  [wire_prefix_on] is DataPath's wire_prefix for it, [h2_sync] discharges it for
   [h2_wcodec] with R = [hsync] (HPACK tables equal, sizes within limits), and [wire_roundtrip_h2] is
   C01_wire_roundtrip for the concrete codec, with the side conditions as explicit hypotheses. *)
From H2V Require Import Base.Tac Base.Bytes Gen.FrameConsts Ref.Rfc9113Frame.
From H2V Require Import Model.FrameCodec Model.ReadBuf Model.Huffman Model.HpackInt Model.HpackEnc Model.HpackDec.
From H2V Require Import Proofs.HpackIntProofs Proofs.HpackEncProofs Proofs.HpackDecProofs Proofs.HpackSyncProofs.
From H2V Require Import Proofs.ReadBufProofs Proofs.FrameSeqProofs.
From H2V Require Model.WriteBuf.
From H2V Require Import Model.StreamState Model.DataPath Model.WireCodec Proofs.DataPathProofs.
Local Open Scope N_scope.

(* ====================================================================================== *)
(* A. the interface, relative to a predicate and a projection *)

Definition codec_sync_on {F ES DS} (P : ES -> F -> Prop) (proj : F -> F)
           (c : wcodec F ES DS) (R : ES -> DS -> Prop) : Prop :=
  (forall ds, wc_dec c ds [] = None) /\
  forall es ds f bs es', R es ds -> P es f -> wc_enc c es f = (bs, es') ->
    bs <> [] /\
    (forall rest, exists ds', wc_dec c ds (bs ++ rest) = Some (proj f, rest, ds') /\ R es' ds') /\
    (forall pre, strict_prefix pre bs -> wc_dec c ds pre = None).

Lemma codec_sync_is_on {F ES DS} (c : wcodec F ES DS) (R : ES -> DS -> Prop) :
  codec_sync c R <-> codec_sync_on (fun _ _ => True) (fun f => f) c R.
Proof.
  unfold codec_sync, codec_sync_on. split; intros [A B]; (split; [exact A|]).
  - intros es ds f bs es' HR _ HE. exact (B es ds f bs es' HR HE).
  - intros es ds f bs es' HR HE. exact (B es ds f bs es' HR I HE).
Qed.

(* P along the sender's run: each frame against the encoder state it meets *)
Fixpoint all_ok {F ES DS} (P : ES -> F -> Prop) (c : wcodec F ES DS) (es : ES) (fs : list F) : Prop :=
  match fs with
  | [] => True
  | f :: fs' => P es f /\ all_ok P c (snd (wc_enc c es f)) fs'
  end.

Theorem wire_prefix_on {F ES DS} (P : ES -> F -> Prop) (proj : F -> F) (c : wcodec F ES DS) (R : ES -> DS -> Prop) :
  codec_sync_on P proj c R ->
  forall fs es ds w tail fuel,
  R es ds -> all_ok P c es fs -> w ++ tail = enc_all c es fs -> (length fs < fuel)%nat ->
  exists fs1 fs2, fs = fs1 ++ fs2 /\ dec_all c fuel ds w = map proj fs1.
Proof.
  intros [EMP SY]. induction fs as [|f fs IH]; intros es ds w tail fuel RR OK E FU.
  - cbn in E. apply app_eq_nil in E. destruct E as [-> _]. exists [], []. split; [reflexivity|].
    destruct fuel; [reflexivity|]. cbn. rewrite EMP. reflexivity.
  - cbn [enc_all] in E. cbn [all_ok] in OK. destruct OK as [OKf OK].
    destruct (wc_enc c es f) as [bs es'] eqn:EN. cbn [snd] in OK.
    destruct (SY _ _ _ _ _ RR OKf EN) as (NE & DEC & PRE).
    destruct fuel as [|fuel]; [cbn in FU; lia|].
    destruct (app_split _ _ _ _ E) as [(l & A1 & A2)|(l & A0 & A1 & A2)].
    + subst w. destruct (DEC l) as (ds' & D & RR'). cbn [dec_all]. rewrite D.
      destruct (IH es' ds' l tail fuel RR' OK (eq_sym A2)) as (fs1 & fs2 & S1 & S2); [cbn in FU; lia|].
      exists (f :: fs1), fs2. split; [cbn; congruence|]. rewrite S2. reflexivity.
    + exists [], (f :: fs). split; [reflexivity|]. cbn [dec_all].
      rewrite (PRE w); [reflexivity|]. exists l. auto.
Qed.

(* ====================================================================================== *)
(* B. the side conditions *)

(* a submitted field list: C10's condition (octet strings shorter than 2^24) and C11's (the fields
   pass the validation h2's decoder applies: Header::new) *)
Definition hfields_ok (p : wparams) (h : fields) : Prop :=
  forallb field_ok (hblock_in p h) = true /\ fields_valid h = true.

(* the block the sender's encoder produces for [f] in state [es] needs no more CONTINUATION frames than
   the receiver's flood limit tolerates (framed_read.rs calc_max_continuation_frames; beyond it the
   receiver answers GOAWAY(ENHANCE_YOUR_CALM) "too_many_continuations") *)
Definition block_fits (p : wparams) (es : enc_state) (sid : N) (f : sframe) : Prop :=
  forall block es', h2_block p es f = Some (block, es') ->
    cont_ok (wp_smax p) (wp_rmax p) (wp_hls p) (wire_frame_of sid f block).

Definition sframe_ok (p : wparams) (es : enc_state) (x : N * sframe) : Prop :=
  sid_ok (fst x) = true /\ fst x <> 0 /\
  match snd x with
  | FData pl _ => FrameCodec.lenN pl <= wp_smax p /\ bytes_ok pl = true
  | FReset code => u32_ok code = true
  | FHeaders _ h _ => hfields_ok p h /\ block_fits p es (fst x) (snd x)
  | FPush pr h => sid_ok pr = true /\ hfields_ok p h /\ block_fits p es (fst x) (snd x)
  end.

Definition wparams_ok (p : wparams) : Prop :=
  42 <= wp_smax p /\ wp_smax p <= MAX_MAX_FRAME_SIZE /\ wp_smax p <= wp_rmax p.

(* ====================================================================================== *)
(* C. the sending side *)

Lemma submitted_from_hblock p : forall h prev, submitted_from prev (hblock_in p h) = h.
Proof.
  induction h as [|[n v] h IH]; intros prev; [reflexivity|].
  cbn [hblock_in map submitted_from to_field_in fi_name fi_value fst snd]. fold (hblock_in p h).
  rewrite IH. reflexivity.
Qed.

Lemma submitted_hblock p h : HpackEnc.submitted (hblock_in p h) = h.
Proof. apply submitted_from_hblock. Qed.

Lemma block_named_hblock p h : block_named (hblock_in p h) = true.
Proof. destruct h as [|[n v] h]; reflexivity. Qed.

(* HPACK of one frame: what [h2_block] yields, and what the receiver's decoder makes of it *)
Lemma h2_block_sync p es ds f :
  hsync es ds ->
  match sframe_fields f with Some h => hfields_ok p h | None => True end ->
  exists block es',
    h2_block p es f = Some (block, es') /\ bytes_ok block = true /\
    match sframe_fields f with
    | None => es' = es
    | Some h =>
        r_verdict (decode huff_decode_opt ds block) = VOk /\
        r_fields (decode huff_decode_opt ds block) = h /\
        hsync es' (r_dec (decode huff_decode_opt ds block))
    end.
Proof.
  intros Hs Hok. unfold h2_block. destruct (sframe_fields f) as [h|].
  - destruct Hok as [Hf Hv].
    assert (Hb : block_ok (hblock_in p h) = true).
    { unfold block_ok. rewrite block_named_hblock, Hf. reflexivity. }
    assert (Hv' : fields_valid (HpackEnc.submitted (hblock_in p h)) = true) by (rewrite submitted_hblock; exact Hv).
    destruct (block_both_ends es ds [] (hblock_in p h) Hs Hb Hv') as (st2 & out & Henc & Hver & Hfl & Hs2 & _ & _).
    cbn [fold_left] in Henc, Hver, Hfl, Hs2. rewrite Henc.
    exists out, st2. split; [reflexivity|]. split.
    + apply bytes_ok_octets. eapply enc_encode_octets; eassumption.
    + rewrite submitted_hblock in Hfl. auto.
  - exists [], es. auto.
Qed.

Lemma sframe_ok_fields p es x :
  sframe_ok p es x -> match sframe_fields (snd x) with Some h => hfields_ok p h | None => True end.
Proof.
  intros (_ & _ & H). destruct (snd x) as [k h e|pl e|pr h|code]; cbn [sframe_fields]; try exact I.
  - apply H.
  - apply H.
Qed.

Lemma wire_frame_wf p es x block es' :
  sframe_ok p es x -> bytes_ok block = true -> h2_block p es (snd x) = Some (block, es') ->
  frame_wf (wp_smax p) (wire_frame_of (fst x) (snd x) block) = true /\
  cont_ok (wp_smax p) (wp_rmax p) (wp_hls p) (wire_frame_of (fst x) (snd x) block).
Proof.
  intros (Hsid & Hs0 & H) Hbl Hblock. apply N.eqb_neq in Hs0.
  destruct (snd x) as [k h e|pl e|pr h|code] eqn:Ef; cbn [wire_frame_of frame_wf].
  - destruct H as [_ Hfit]. split; [|apply (Hfit block es'); exact Hblock].
    rewrite Hsid, Hs0, Hbl. destruct e; reflexivity.
  - destruct H as [Hl Hb]. split.
    + rewrite Hsid, Hs0, Hb. apply N.leb_le in Hl. rewrite Hl. destruct e; reflexivity.
    + unfold cont_ok. cbn [continuations_needed]. lia.
  - destruct H as (Hpr & _ & Hfit). split; [|apply (Hfit block es'); exact Hblock].
    rewrite Hsid, Hs0, Hpr, Hbl. reflexivity.
  - split.
    + rewrite Hsid, Hs0, H. reflexivity.
    + unfold cont_ok. cbn [continuations_needed]. lia.
Qed.

Lemma reader_on_clean p bs : rclean (wp_rmax p) (wp_hls p) (reader_on p bs) /\ r_buf (reader_on p bs) = bs.
Proof. unfold rclean, reader_on. repeat split; reflexivity. Qed.

Lemma has_bit_eos (e : bool) : has_bit (if e then data_END_STREAM else 0) data_END_STREAM = e.
Proof. destruct e; reflexivity. Qed.

Lemma has_bit_heos (e : bool) :
  has_bit (headers_END_HEADERS + (if e then headers_END_STREAM else 0)) headers_END_STREAM = e.
Proof. destruct e; reflexivity. Qed.

(* ====================================================================================== *)
(* D. codec_sync for the concrete codec *)

Theorem h2_sync p : wparams_ok p -> codec_sync_on (sframe_ok p) norm_wire (h2_wcodec p) hsync.
Proof.
  intros (H42 & Hmax & Hr). split.
  - intros ds. reflexivity.
  - intros es ds [sid f] bs es' Hs Hok Henc.
    cbn [h2_wcodec wc_enc wc_dec] in *. unfold h2_enc in Henc. cbn [fst snd] in Henc.
    destruct (h2_block_sync p es ds f Hs (sframe_ok_fields p es (sid, f) Hok)) as (block & es1 & Hb & Hbl & Hdec).
    rewrite Hb in Henc.
    destruct (wire_frame_wf p es (sid, f) block es1 Hok Hbl Hb) as [Hwf Hc]. cbn [fst snd] in Hwf, Hc.
    destruct (poll_logical (wp_smax p) (wp_rmax p) (wp_hls p) _ H42 Hmax Hr Hwf Hc) as (bs0 & He & H9 & Hfull & Hpre).
    rewrite He in Henc. inversion Henc; subst bs0 es1. clear Henc.
    split; [destruct bs; [cbn in H9; lia|discriminate]|]. split.
    + intros rest. unfold h2_dec.
      destruct (reader_on_clean p (bs ++ rest)) as [Hcl Hbuf].
      destruct (Hfull _ rest Hcl Hbuf) as (hs' & Hp). rewrite Hp. unfold norm_wire. cbn [fst snd].
      destruct f as [k h e|pl e|pr h|code]; cbn [wire_frame_of raw_event is_header_frame strip_block frame_block
                                                    sframe_fields norm_frame r_buf set_core] in *.
      * destruct Hdec as (Hv & Hf & Hs2). rewrite Hv, Hf, has_bit_heos. eauto.
      * subst es'. rewrite has_bit_eos. eauto.
      * destruct Hdec as (Hv & Hf & Hs2). rewrite Hv, Hf. eauto.
      * subst es'. eauto.
    + intros pre Hsp. unfold h2_dec.
      destruct (reader_on_clean p pre) as [Hcl Hbuf].
      assert (Hn : snd (poll hp_raw (reader_on p pre)) = None) by (apply Hpre; [exact Hcl|rewrite Hbuf; exact Hsp]).
      destruct (poll hp_raw (reader_on p pre)) as [st' o]. cbn [snd] in Hn. subst o. reflexivity.
Qed.

(* ====================================================================================== *)
(* E. C01, wire round trip, for the concrete codec *)

Lemma frames_of_norm sid : forall l, frames_of sid (map norm_wire l) = map norm_frame (frames_of sid l).
Proof.
  unfold frames_of. induction l as [|[s f] l IH]; [reflexivity|].
  cbn [map flat_map norm_wire fst snd]. rewrite IH. destruct (N.eqb s sid); reflexivity.
Qed.

Lemma payloads_norm : forall l, payloads (map norm_frame l) = payloads l.
Proof.
  unfold payloads. induction l as [|f l IH]; [reflexivity|]. cbn [map flat_map]. rewrite IH.
  destruct f; reflexivity.
Qed.

Lemma flat_norm : forall l, flat (map norm_frame l) = map norm_atom (flat l).
Proof.
  unfold flat. induction l as [|f l IH]; [reflexivity|]. cbn [map flat_map]. rewrite IH, map_app. f_equal.
  destruct f as [k h e|pl e|pr h|code]; cbn [norm_frame flat1 map norm_atom].
  - destruct e; reflexivity.
  - rewrite map_app, map_map. destruct e; reflexivity.
  - reflexivity.
  - reflexivity.
Qed.

(* the receiver's frame sequence -- produced by h2's frame reader and h2's HPACK decoder from ANY prefix of
   the octets that h2's HPACK encoder and h2's frame writer emitted for the sender's frames -- is a prefix
   of those frames, in order (modulo the head/trailers tag, which the wire does not carry), and carries
   for every stream a prefix of what was submitted on it *)
Theorem wire_roundtrip_h2 p :
  wparams_ok p ->
  forall chain ls st os es ds w tail sid,
  run (init_state chain) ls = ROk st os ->
  hsync es ds ->
  all_ok (sframe_ok p) (h2_wcodec p) es (wire_frames os) ->
  w ++ tail = enc_all (h2_wcodec p) es (wire_frames os) ->
  let rx := dec_all (h2_wcodec p) (S (length (wire_frames os))) ds w in
  (exists later, rx ++ later = map norm_wire (wire_frames os)) /\
  (exists more, payloads (frames_of sid rx) ++ more = payloads (submitted sid ls)) /\
  (no_drop sid os -> exists more, flat (frames_of sid rx) ++ more = map norm_atom (flat (submitted sid ls))).
Proof.
  intros Hp chain ls st os es ds w tail sid RUN RR OK E rx.
  destruct (wire_prefix_on _ _ _ _ (h2_sync p Hp) (wire_frames os) es ds w tail (S (length (wire_frames os))) RR OK E)
    as (fs1 & fs2 & S1 & S2); [lia|].
  fold rx in S2.
  split; [exists (map norm_wire fs2); rewrite S2, <- map_app, <- S1; reflexivity|].
  assert (FR : sent sid os = frames_of sid fs1 ++ frames_of sid fs2).
  { rewrite <- frames_of_wire, S1, frames_of_app. reflexivity. }
  rewrite S2, frames_of_norm. split.
  - rewrite payloads_norm.
    destruct (send_bytes_preserved _ _ _ _ sid RUN) as (_ & (t & B)). rewrite FR, payloads_app in B.
    exists (payloads (frames_of sid fs2) ++ t). rewrite app_assoc. exact B.
  - intros ND. rewrite flat_norm.
    destruct (send_split_preserves _ _ _ _ sid RUN) as (_ & (t & B) & _).
    rewrite ND, FR, flat_app in B. rewrite <- B, !map_app.
    exists (map norm_atom (flat (frames_of sid fs2)) ++ map norm_atom t). rewrite app_assoc. reflexivity.
Qed.

(* from the start of a connection: Encoder::new / Decoder::new with the same table size *)
Corollary wire_roundtrip_h2_init p m0 :
  wparams_ok p ->
  forall chain ls st os w tail sid,
  run (init_state chain) ls = ROk st os ->
  all_ok (sframe_ok p) (h2_wcodec p) (enc_new m0) (wire_frames os) ->
  w ++ tail = enc_all (h2_wcodec p) (enc_new m0) (wire_frames os) ->
  let rx := dec_all (h2_wcodec p) (S (length (wire_frames os))) (decoder_new (N.min m0 4096)) w in
  (exists later, rx ++ later = map norm_wire (wire_frames os)) /\
  (exists more, payloads (frames_of sid rx) ++ more = payloads (submitted sid ls)) /\
  (no_drop sid os -> exists more, flat (frames_of sid rx) ++ more = map norm_atom (flat (submitted sid ls))).
Proof.
  intros Hp chain ls st os w tail sid RUN OK E.
  exact (wire_roundtrip_h2 p Hp chain ls st os _ _ w tail sid RUN (hsync_init m0) OK E).
Qed.

(* ====================================================================================== *)
(* E'. the sender's octet stream is the frame writer's: [enc_all (h2_wcodec p)] is Model/WriteBuf.v's
   [encode_all] of the frame values handed to Codec::buffer, so C12_write_no_dup_drop / C12_write_prefix
   apply to it (what the transport has seen is a prefix of it, for all partial-write patterns) *)

Fixpoint h2_frames (p : wparams) (es : enc_state) (fs : list (N * sframe)) : list frame :=
  match fs with
  | [] => []
  | x :: fs' =>
      match h2_block p es (snd x) with
      | Some (block, es') => wire_frame_of (fst x) (snd x) block :: h2_frames p es' fs'
      | None => []
      end
  end.

Theorem enc_all_is_encode_all p :
  wparams_ok p ->
  forall fs es ds, hsync es ds -> all_ok (sframe_ok p) (h2_wcodec p) es fs ->
  WriteBuf.encode_all (wp_smax p) (h2_frames p es fs) = FrameCodec.EOk (enc_all (h2_wcodec p) es fs) /\
  frames_wf (wp_smax p) (h2_frames p es fs) = true /\
  Forall (cont_ok (wp_smax p) (wp_rmax p) (wp_hls p)) (h2_frames p es fs).
Proof.
  intros (H42 & Hmax & Hr). induction fs as [|[sid f] fs IH]; intros es ds Hs OK.
  - repeat split. constructor.
  - cbn [all_ok] in OK. destruct OK as [Hok OK].
    destruct (h2_block_sync p es ds f Hs (sframe_ok_fields p es (sid, f) Hok)) as (block & es1 & Hb & Hbl & Hdec).
    destruct (wire_frame_wf p es (sid, f) block es1 Hok Hbl Hb) as [Hwf Hc]. cbn [fst snd] in Hwf, Hc.
    destruct (poll_logical (wp_smax p) (wp_rmax p) (wp_hls p) _ H42 Hmax Hr Hwf Hc) as (bs0 & He & _).
    assert (Henc : h2_enc p es (sid, f) = (bs0, es1)).
    { unfold h2_enc. cbn [fst snd]. rewrite Hb, He. reflexivity. }
    cbn [wc_enc h2_wcodec] in OK. rewrite Henc in OK. cbn [snd] in OK.
    assert (Hs1 : exists ds1, hsync es1 ds1).
    { destruct f as [k h e|pl e|pr h|code]; cbn [sframe_fields] in Hdec.
      - destruct Hdec as (_ & _ & H). eauto.
      - subst es1. eauto.
      - destruct Hdec as (_ & _ & H). eauto.
      - subst es1. eauto. }
    destruct Hs1 as (ds1 & Hs1).
    destruct (IH es1 ds1 Hs1 OK) as (A & B & C).
    cbn [h2_frames enc_all fst snd wc_enc h2_wcodec]. rewrite Hb, Henc.
    cbn [WriteBuf.encode_all frames_wf forallb]. rewrite He, A. fold (frames_wf (wp_smax p) (h2_frames p es1 fs)).
    rewrite Hwf, B. repeat split. constructor; assumption.
Qed.

(* ====================================================================================== *)
(* F. the side conditions are decidable: an executable check, and a non-vacuity example *)

Definition hfields_okb (p : wparams) (h : fields) : bool :=
  forallb field_ok (hblock_in p h) && fields_valid h.

Definition block_fitsb (p : wparams) (es : enc_state) (sid : N) (f : sframe) : bool :=
  match h2_block p es f with
  | Some (block, _) =>
      continuations_needed (wp_smax p) (wire_frame_of sid f block)
        <=? calc_max_continuation_frames (wp_hls p) (wp_rmax p) + 1
  | None => true
  end.

Definition sframe_okb (p : wparams) (es : enc_state) (x : N * sframe) : bool :=
  sid_ok (fst x) && negb (fst x =? 0) &&
  match snd x with
  | FData pl _ => (FrameCodec.lenN pl <=? wp_smax p) && bytes_ok pl
  | FReset code => u32_ok code
  | FHeaders _ h _ => hfields_okb p h && block_fitsb p es (fst x) (snd x)
  | FPush pr h => sid_ok pr && hfields_okb p h && block_fitsb p es (fst x) (snd x)
  end.

Fixpoint all_okb (p : wparams) (es : enc_state) (fs : list (N * sframe)) : bool :=
  match fs with
  | [] => true
  | f :: fs' => sframe_okb p es f && all_okb p (snd (h2_enc p es f)) fs'
  end.

Lemma hfields_okb_ok p h : hfields_okb p h = true -> hfields_ok p h.
Proof. unfold hfields_okb, hfields_ok. intros H. apply andb_true_iff in H. exact H. Qed.

Lemma block_fitsb_ok p es sid f : block_fitsb p es sid f = true -> block_fits p es sid f.
Proof.
  unfold block_fitsb, block_fits. intros H block es' Hb. rewrite Hb in H. apply N.leb_le in H. exact H.
Qed.

Lemma sframe_okb_ok p es x : sframe_okb p es x = true -> sframe_ok p es x.
Proof.
  unfold sframe_okb, sframe_ok. intros H.
  apply andb_true_iff in H. destruct H as [H H3]. apply andb_true_iff in H. destruct H as [H1 H2].
  split; [exact H1|]. split; [apply N.eqb_neq; destruct (fst x =? 0); [discriminate|reflexivity]|].
  destruct (snd x) as [k h e|pl e|pr h|code].
  - apply andb_true_iff in H3. destruct H3 as [A B]. split; [apply hfields_okb_ok; exact A|apply block_fitsb_ok; exact B].
  - apply andb_true_iff in H3. destruct H3 as [A B]. split; [apply N.leb_le; exact A|exact B].
  - apply andb_true_iff in H3. destruct H3 as [A C]. apply andb_true_iff in A. destruct A as [A B].
    split; [exact A|]. split; [apply hfields_okb_ok; exact B|apply block_fitsb_ok; exact C].
  - exact H3.
Qed.

Lemma all_okb_ok p : forall fs es, all_okb p es fs = true -> all_ok (sframe_ok p) (h2_wcodec p) es fs.
Proof.
  induction fs as [|f fs IH]; intros es H; [exact I|].
  cbn [all_okb] in H. apply andb_true_iff in H. destruct H as [A B].
  cbn [all_ok]. split; [apply sframe_okb_ok; exact A|]. apply IH. exact B.
Qed.

(* ---- non-vacuity ---- *)
(* two interleaved streams: a response head on each, stream 1's 5-octet body cut by a 1-octet window
   (the remainder waits inside the codec, is reclaimed and goes out later, END_STREAM on the last piece),
   stream 3's body followed by trailers; 16 KiB frames, h2's default header list limit *)
Definition ex_p : wparams := mkWP 16384 16384 16777216 (fun _ _ => false).
Definition ex_head : sframe :=
  FHeaders HkHead [([58;115;116;97;116;117;115], [50;48;48]);                                   (* :status 200 *)
                   ([99;111;110;116;101;110;116;45;116;121;112;101], [116;101;120;116])] false.  (* content-type text *)
Definition ex_trailers : sframe :=
  FHeaders HkTrailers [([120;45;99;104;101;99;107], [97;98;99])] true.                           (* x-check abc *)
Definition ex_labels : list label :=
  [LNew 1; LNew 3; LQueue 1 ex_head; LSendData 1 true [10;11;12;13;14] true; LQueue 3 ex_head;
   LSendData 3 true [20;21;22] false; LQueue 3 ex_trailers;
   LPop 1 16384 5 65535; LPop 3 16384 3 65535; LPop 1 16384 1 65535; LPop 3 16384 3 65535;
   LPop 1 16384 4 65534; LPop 3 16384 0 0].

Example wire_roundtrip_h2_nonvacuous :
  wparams_ok ex_p /\
  exists st os,
    run (init_state 256) ex_labels = ROk st os /\
    wire_frames os = [(1, ex_head); (3, ex_head); (1, FData [10] false); (3, FData [20;21;22] false);
                      (1, FData [11;12;13;14] true); (3, ex_trailers)] /\
    all_ok (sframe_ok ex_p) (h2_wcodec ex_p) (enc_new 4096) (wire_frames os) /\
    let total := enc_all (h2_wcodec ex_p) (enc_new 4096) (wire_frames os) in
    (* all octets arrived: every frame, trailers tagged HkHead *)
    dec_all (h2_wcodec ex_p) (S (length (wire_frames os))) (decoder_new 4096) total
      = map norm_wire (wire_frames os) /\
    (* the last 3 octets missing: every frame but the trailers *)
    dec_all (h2_wcodec ex_p) (S (length (wire_frames os))) (decoder_new 4096) (firstn (length total - 3) total)
      = map norm_wire (removelast (wire_frames os)) /\
    (* six frames, 54 octets of frame heads; the second response head is two indexed fields *)
    length total = 81%nat.
Proof.
  split; [unfold wparams_ok, ex_p, MAX_MAX_FRAME_SIZE; cbn; lia|].
  destruct (run (init_state 256) ex_labels) as [st os|k r] eqn:E; [|vm_compute in E; discriminate].
  vm_compute in E. inversion E; subst. clear E.
  eexists _, _. split; [reflexivity|]. split; [vm_compute; reflexivity|].
  split; [apply all_okb_ok; vm_compute; reflexivity|].
  cbv zeta. split; [vm_compute; reflexivity|]. split; vm_compute; reflexivity.
Qed.
