(* C04 at the dispatch layer: what the API calls put on a stream's queue, what leaves the queue, the identifiers.
   One step from ANY state, for all observed inputs. *)
From H2V Require Import Base.Tac Base.Bytes Model.StreamState Ref.Rfc9113Stream Proofs.StreamStateProofs
  Model.Dispatch Proofs.DispatchRecv Proofs.DispatchReset.
Local Open Scope N_scope.

Fixpoint outs_emitted_frames (o : list out) : list wframe :=
  match o with
  | [] => []
  | OEmit f :: o' => f :: outs_emitted_frames o'
  | _ :: o' => outs_emitted_frames o'
  end.

(* ---------------------------------------------------------------------------------------------
   API calls queue only what the state machine allows *)

(* send_request: refused without a trace when the identifiers have run out, for a server, after a connection error;
   else the stream gets the next identifier, its HEADERS are queued behind the concurrency gate (pending_open), and
   next_stream_id moves on - to the overflow marker beyond 2^31-1, never around *)
Theorem send_request_opens st eos rejected hdr_ok nk st' outs :
  ids_wf st = true ->
  step st (LSendRequest eos rejected hdr_ok nk) = Ok st' outs ->
  match result_of outs with
  | ROk =>
    exists id, c_send_next st = Some id /\ c_send_next st' = next_id id /\ is_server (c_role st) = false /\
               c_conn_error st = None /\
               queued_all outs = [(id, QHeaders eos false)] /\
               kget st' nk = Some (mkS id (fst (send_open eos Idle)) true false false [QHeaders eos false] None) /\
               snd (send_open eos Idle) = RUnit /\
               (forall k, k <> nk -> kget st' k = kget st k)
  | _ => queued_all outs = [] /\ c_slab st' = c_slab st /\ c_ids st' = c_ids st /\
         (c_send_next st = None -> st' = st /\ result_of outs = RUser UOverflowedStreamId \/ c_conn_error st <> None)
  end.
Proof.
  intros Hw. cbn [step]. unfold step_send_request, send_headers_core, queue_frame, res1. intros Hs.
  unfold ids_wf in Hw.
  destruct (c_conn_error st) eqn:Ee.
  { inversion Hs; subst. cbn. repeat split; auto. intros _. right. discriminate. }
  destruct (c_send_next st) as [id|] eqn:En.
  2:{ inversion Hs; subst. cbn. repeat split; auto. }
  destruct rejected; [inversion Hs; subst; cbn; repeat split; auto; discriminate|].
  destruct (is_server (c_role st)) eqn:Er; [inversion Hs; subst; cbn; repeat split; auto; discriminate|].
  destruct hdr_ok; cbn [negb] in Hs; [|inversion Hs; subst; cbn; repeat split; auto; discriminate].
  destruct (kget _ nk) eqn:Ek; [discriminate|].
  rewrite Hw in Hs.
  destruct eos; cbn in Hs; inversion Hs; subst; clear Hs; cbn;
    (eexists; repeat split; eauto; try (unfold kget; cbn; apply sget_sset_same);
     intros; unfold kget; cbn; apply sget_sset_other; auto).
Qed.

(* the identifier after `id`, if there is one, is larger and of the same parity *)
Lemma next_id_increases id n : next_id id = Some n -> id < n /\ n mod 2 = id mod 2 /\ n <= MAX_ID.
Proof.
  unfold next_id. destruct (MAX_ID <? id + 2) eqn:E; [discriminate|]. intros H; inversion H; subst.
  apply N.ltb_ge in E. split; [lia|]. split; [|lia].
  replace (id + 2) with (id + 1 * 2) by lia. apply N.mod_add. lia.
Qed.

(* send_response / send_pushed_response, send_data, send_trailers, send_informational: a frame is queued only where
   the state machine permits it, at the end of that stream's queue, other records untouched *)
Theorem send_response_queues st k eos hdr_ok st' outs r :
  kget st k = Some r -> step st (LSendResponse k eos hdr_ok) = Ok st' outs ->
  (forall k', k' <> k -> kget st' k' = kget st k') /\ has_emit outs = false /\
  match result_of outs with
  | ROk => exists s', send_open eos (s_state r) = (s', RUnit) /\ queued_all outs = [(s_id r, QHeaders eos false)] /\
                      exists r', kget st' k = Some r' /\ s_state r' = s' /\ s_q r' = s_q r ++ [QHeaders eos false]
  | _ => queued_all outs = [] /\ st' = st
  end.
Proof.
  intros Hk. cbn [step]. unfold step_send_response, send_headers_core, queue_frame, res1. rewrite Hk. intros Hs.
  destruct hdr_ok; cbn [negb] in Hs; [|inversion Hs; subst; cbn; auto].
  destruct (send_open eos (s_state r)) as [s1 [| | | | |]] eqn:Eo; inversion Hs; subst; clear Hs; cbn; auto.
  split; [intros; apply kget_put_other; auto|]. split; auto.
  eexists; split; [reflexivity|]. split; auto. eexists. split; [apply kget_put_same|].
  cbn [set_state s_ppush]. destruct (is_local_init (c_role st) (s_id r) && negb (s_ppush r)); cbn; auto.
Qed.

Theorem send_data_queues st k eos too_big st' outs r :
  kget st k = Some r -> step st (LSendData k eos too_big) = Ok st' outs ->
  (forall k', k' <> k -> kget st' k' = kget st k') /\ has_emit outs = false /\
  match result_of outs with
  | ROk => is_send_streaming (s_state r) = true /\ queued_all outs = [(s_id r, QData eos)] /\
           exists r', kget st' k = Some r' /\ s_q r' = s_q r ++ [QData eos] /\
                      s_state r' = (if eos then fst (send_close (s_state r)) else s_state r)
  | _ => queued_all outs = [] /\ st' = st
  end.
Proof.
  intros Hk. cbn [step]. unfold step_send_data, queue_frame, res1. rewrite Hk. intros Hs.
  destruct too_big; [inversion Hs; subst; cbn; auto|].
  destruct (is_send_streaming (s_state r)) eqn:Es; cbn [negb] in Hs; [|inversion Hs; subst; cbn; auto].
  destruct eos.
  - destruct (send_close (s_state r)) as [s1 [| | | | |]] eqn:Ec; try discriminate. inversion Hs; subst; clear Hs. cbn.
    split; [intros; apply kget_put_other; auto|]. repeat split; auto. eexists. split; [apply kget_put_same|]. cbn; auto.
  - inversion Hs; subst; clear Hs. cbn.
    split; [intros; apply kget_put_other; auto|]. repeat split; auto. eexists. split; [apply kget_put_same|]. cbn; auto.
Qed.

Theorem send_trailers_queues st k hdr_ok st' outs r :
  kget st k = Some r -> step st (LSendTrailers k hdr_ok) = Ok st' outs ->
  (forall k', k' <> k -> kget st' k' = kget st k') /\ has_emit outs = false /\
  match result_of outs with
  | ROk => is_send_streaming (s_state r) = true /\ queued_all outs = [(s_id r, QTrailers)] /\
           exists r', kget st' k = Some r' /\ s_q r' = s_q r ++ [QTrailers] /\ s_state r' = fst (send_close (s_state r))
  | _ => queued_all outs = [] /\ st' = st
  end.
Proof.
  intros Hk. cbn [step]. unfold step_send_trailers, queue_frame, res1. rewrite Hk. intros Hs.
  destruct hdr_ok; cbn [negb] in Hs; [|inversion Hs; subst; cbn; auto].
  destruct (is_send_streaming (s_state r)) eqn:Es; cbn [negb] in Hs; [|inversion Hs; subst; cbn; auto].
  destruct (send_close (s_state r)) as [s1 [| | | | |]] eqn:Ec; try discriminate. inversion Hs; subst; clear Hs. cbn.
  split; [intros; apply kget_put_other; auto|]. repeat split; auto. eexists. split; [apply kget_put_same|]. cbn; auto.
Qed.

Theorem send_info_queues st k eos hdr_ok st' outs r :
  kget st k = Some r -> step st (LSendInfo k eos hdr_ok) = Ok st' outs ->
  (forall k', k' <> k -> kget st' k' = kget st k') /\ has_emit outs = false /\
  match result_of outs with
  | ROk => is_send_awaiting_headers (s_state r) = true /\ eos = false /\ queued_all outs = [(s_id r, QHeaders false true)] /\
           exists r', kget st' k = Some r' /\ s_q r' = s_q r ++ [QHeaders false true] /\ s_state r' = s_state r
  | _ => queued_all outs = [] /\ st' = st
  end.
Proof.
  intros Hk. cbn [step]. unfold step_send_info, queue_frame, res1. rewrite Hk. intros Hs.
  destruct (is_local_init (c_role st) (s_id r)); [discriminate|].
  destruct eos; [inversion Hs; subst; cbn; auto|].
  destruct hdr_ok; cbn [negb] in Hs; [|inversion Hs; subst; cbn; auto].
  destruct (is_send_awaiting_headers (s_state r)) eqn:Es; cbn [negb] in Hs; [|inversion Hs; subst; cbn; auto].
  inversion Hs; subst; clear Hs. cbn.
  split; [intros; apply kget_put_other; auto|]. repeat split; auto. eexists. split; [apply kget_put_same|]. cbn; auto.
Qed.

(* push_request: only a server, only on a stream of the peer whose send half is not closed (open or half-closed
   (remote) for the peer), only while the peer accepts pushes and below its GOAWAY; the promised stream gets the next
   identifier of ours, is reserved (local) and gated behind its PUSH_PROMISE (pending_push) *)
Theorem push_request_reserves st k convert_ok hdr_ok nk st' outs parent :
  kget st k = Some parent -> step st (LPushRequest k convert_ok hdr_ok nk) = Ok st' outs ->
  has_emit outs = false /\
  match result_of outs with
  | ROk =>
    exists id, c_send_next st = Some id /\ c_send_next st' = next_id id /\ (c_send_max st <? id) = false /\
               is_server (c_role st) = true /\ is_local_init (c_role st) (s_id parent) = false /\
               c_push_remote st = true /\ is_send_closed (s_state parent) = false /\
               queued_all outs = [(s_id parent, QPush id)] /\
               kget st' nk = Some (mkS id ReservedLocal false true false [] None) /\
               (exists p', kget st' k = Some p' /\ s_q p' = s_q parent ++ [QPush id] /\ s_state p' = s_state parent)
  | _ => queued_all outs = []
  end.
Proof.
  intros Hk. cbn [step]. unfold step_push_request, queue_frame, res1. rewrite Hk. intros Hs.
  destruct (is_server (c_role st)) eqn:Er; cbn [negb orb] in Hs; [|discriminate].
  destruct (is_local_init (c_role st) (s_id parent)) eqn:El; [discriminate|].
  destruct (c_send_next st) as [id|] eqn:En; [|inversion Hs; subst; cbn; auto].
  destruct (c_send_max st <? id) eqn:Em; [inversion Hs; subst; cbn; auto|].
  destruct (kget _ nk) eqn:Ek; [discriminate|]. cbn [new_rec s_state reserve_local] in Hs.
  destruct convert_ok; cbn [negb] in Hs; [|inversion Hs; subst; cbn; auto].
  destruct (c_push_remote st) eqn:Ep; cbn [negb] in Hs; [|inversion Hs; subst; cbn; auto].
  destruct (is_send_closed (s_state parent)) eqn:Ec; [inversion Hs; subst; cbn; auto|].
  destruct hdr_ok; cbn [negb] in Hs; [|inversion Hs; subst; cbn; auto].
  inversion Hs; subst; clear Hs. cbn. split; auto.
  exists id. repeat split; auto.
  - destruct (N.eq_dec k nk) as [->|Hne].
    + unfold kget in Ek. cbn in Ek. unfold kget in Hk. congruence.
    + unfold kget. cbn. rewrite sget_sset_other by auto. apply sget_sset_same.
  - eexists. split; [unfold kget; cbn; apply sget_sset_same|]. cbn; auto.
Qed.

(* ---------------------------------------------------------------------------------------------
   what leaves a queue *)

(* pop_frame never touches a stream that is not opened on the wire yet (waiting for a concurrency slot, or for its
   PUSH_PROMISE): nothing is sent on an idle stream *)
Theorem pop_needs_send_ready st k o st' outs r :
  kget st k = Some r -> step st (LPop k o) = Ok st' outs -> s_popen r = false /\ s_ppush r = false.
Proof.
  intros Hk. cbn [step]. unfold step_pop. rewrite Hk.
  destruct (s_popen r), (s_ppush r); cbn [orb]; try discriminate. auto.
Qed.

(* what it emits is the frame at the front of that stream's queue (a DATA frame possibly in part: then without
   END_STREAM, the remainder stays first in line), or - with an empty queue - the scheduled RST_STREAM; one frame at
   most, on that stream *)
Theorem pop_emits_front st k o st' outs r :
  kget st k = Some r -> step st (LPop k o) = Ok st' outs ->
  match outs_emitted_frames outs with
  | [] => True
  | [WFrame sid f] =>
    sid = s_id r /\
    match s_q r with
    | [] => exists reason, get_scheduled_reset (s_state r) = Some reason /\ f = QReset reason
    | QData eos :: _ => f = QData eos \/ (f = QData false /\ pp_partial o = true)
    | g :: _ => f = g
    end
  | _ => False
  end.
Proof.
  intros Hk. cbn [step]. unfold step_pop, clear_queue. rewrite Hk. intros Hs.
  destruct (s_popen r || s_ppush r); [discriminate|].
  destruct (s_q r) as [|f q'] eqn:Eq.
  - destruct (get_scheduled_reset (s_state r)) eqn:Eg; inversion Hs; subst; cbn; eauto.
  - destruct f.
    + inversion Hs; subst; cbn; auto.
    + inversion Hs; subst; cbn; auto.
    + destruct (get_scheduled_reset (s_state r)) as [reason|].
      * destruct (negb (reason =? NO_ERROR)); [inversion Hs; subst; cbn; auto|].
        destruct (s_infl r); [discriminate|]. destruct (pp_blocked o); [inversion Hs; subst; cbn; auto|].
        destruct (pp_partial o) eqn:Ep; inversion Hs; subst; cbn; auto.
      * destruct (s_infl r); [discriminate|]. destruct (pp_blocked o); [inversion Hs; subst; cbn; auto|].
        destruct (pp_partial o) eqn:Ep; inversion Hs; subst; cbn; auto.
    + destruct (iget _ promised) as [[ck c]|]; inversion Hs; subst; cbn; auto.
    + inversion Hs; subst; cbn; auto.
Qed.

(* a stream WINDOW_UPDATE goes out only while the stream still receives a body (open or half-closed (local)) *)
Theorem window_update_only_receiving st k has st' outs r :
  kget st k = Some r -> step st (LSendWindowUpdate k has) = Ok st' outs ->
  st' = st /\ (outs = [] \/ (outs = [OEmit (WWindowUpdate (s_id r))] /\ is_recv_streaming (s_state r) = true)).
Proof.
  intros Hk. cbn [step]. unfold step_send_window_update. rewrite Hk.
  destruct (is_recv_streaming (s_state r)); cbn [andb]; [destruct has|]; intros H; inversion H; auto.
Qed.

(* ---------------------------------------------------------------------------------------------
   nothing after END_STREAM or a reset *)

(* once the send half is closed (END_STREAM queued or sent, or the stream reset or failed) no API call queues another
   HEADERS, DATA or PUSH_PROMISE on the stream *)
Theorem send_closed_queues_nothing st l k r st' outs :
  kget st k = Some r -> is_send_closed (s_state r) = true ->
  ((exists eos tb, l = LSendData k eos tb) \/ (exists h, l = LSendTrailers k h) \/
   (exists eos h, l = LSendResponse k eos h) \/ (exists eos h, l = LSendInfo k eos h)) ->
  step st l = Ok st' outs -> queued_all outs = [] /\ st' = st.
Proof.
  intros Hk Hc Hl Hs.
  assert (Hns : is_send_streaming (s_state r) = false)
    by (destruct (s_state r) as [| | |lo re|p|p|c]; try destruct lo; try destruct p; cbn in *; congruence).
  assert (Hna : is_send_awaiting_headers (s_state r) = false)
    by (destruct (s_state r) as [| | |lo re|p|p|c]; try destruct lo; try destruct p; cbn in *; congruence).
  destruct Hl as [(eos & tb & Hl)|[(h & Hl)|[(eos & h & Hl)|(eos & h & Hl)]]]; subst l; cbn [step] in Hs.
  - unfold step_send_data, res1 in Hs. rewrite Hk, Hns in Hs. destruct tb; inversion Hs; auto.
  - unfold step_send_trailers, res1 in Hs. rewrite Hk, Hns in Hs. destruct h; inversion Hs; auto.
  - unfold step_send_response, send_headers_core, res1 in Hs. rewrite Hk in Hs.
    destruct h; cbn [negb] in Hs; [|inversion Hs; auto].
    assert (Ho : snd (send_open eos (s_state r)) = RUserErr UnexpectedFrameType).
    { destruct (s_state r) as [| | |lo re|p|p|c]; try destruct lo; try destruct p; destruct eos; cbn in *; congruence. }
    destruct (send_open eos (s_state r)) as [s1 rr]. cbn in Ho. subst rr. inversion Hs; auto.
  - unfold step_send_info, res1 in Hs. rewrite Hk, Hna in Hs.
    destruct (is_local_init _ _); [discriminate|].
    destruct eos; [inversion Hs; auto|]. destruct h; inversion Hs; auto.
Qed.

(* a record that is reset (by either side, by the library, or with a reset scheduled) is never reset again: the calls
   that can reset a stream queue no second RST_STREAM *)
Theorem reset_queues_no_second st k r code can st' outs :
  kget st k = Some r -> is_reset (s_state r) = true ->
  step st (LSendReset k code can) = Ok st' outs -> queued_all outs = [].
Proof.
  intros Hk Hr. cbn [step]. unfold step_send_reset, actions_send_reset, send_reset_core, res1. rewrite Hk, Hr.
  intros H; inversion H; reflexivity.
Qed.

Theorem drop_after_reset_nothing st k r can st' outs :
  kget st k = Some r -> is_closed (s_state r) = true ->
  step st (LDropLast k can []) = Ok st' outs -> outs = [] /\ kget st' k = Some r.
Proof.
  intros Hk Hc. cbn [step]. unfold step_drop_last, maybe_cancel. rewrite Hk, Hc. cbn [cancel_kids].
  intros H; inversion H; subst. split; auto. unfold kget; cbn. apply sget_sset_same.
Qed.
