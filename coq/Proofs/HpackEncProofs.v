(* Proofs about the HPACK encoder model (Model/HpackEnc.v) against the RFC 7541 reference decoder
   (Ref/Rfc7541Block.v), property C10.

   Main results (restated in Properties/C10.v):
     enc_roundtrip          C10_roundtrip            every history of (update_max_size calls, header
                                                     lists) decodes, block by block, through the
                                                     reference decoder to the submitted lists
     enc_never_panics       C10_never_panics         only the "nameless first field" panic is reachable
     enc_table_bound        C10_table_bound          size <= max_size <= last value allowed
     enc_reduction_signalled C10_reduction_signalled min first, then the final value
     split_irrelevant       C10_split
     sensitive_not_inserted C10_sensitive_never_indexed
   Depends on Model/Huffman.v and on [huff_roundtrip] of Proofs/HuffmanProofs.v only. *)
From Coq Require Import String.
From H2V Require Import Base.Tac Base.Bytes Gen.StaticTable Model.HttpTokens Model.Huffman.
From H2V Require Import Ref.Rfc7541Int Ref.Rfc7541Static Ref.Rfc7541Block.
From H2V Require Import Model.HpackEnc Proofs.HuffmanProofs.
Local Open Scope N_scope.

(* ====================================================================================== *)
(* A. integers *)

Lemma pow2_pos k : 0 < 2 ^ k.
Proof. apply N.neq_0_lt_0, N.pow_nonzero. lia. Qed.

Lemma lor_add a b k : a mod 2 ^ k = 0 -> b < 2 ^ k -> N.lor a b = a + b.
Proof.
  intros Ha Hb.
  assert (Hl : N.land a b = 0).
  { apply N.bits_inj; intro n. rewrite N.land_spec, N.bits_0.
    destruct (N.lt_ge_cases n k) as [Hn|Hn].
    - assert (Hd : a = 2 ^ k * (a / 2 ^ k)).
      { pose proof (N.div_mod a (2 ^ k)) as H. rewrite Ha, N.add_0_r in H. apply H.
        apply N.pow_nonzero. lia. }
      rewrite Hd, N.mul_comm, N.mul_pow2_bits_low by assumption. reflexivity.
    - rewrite <- (N.mod_small b (2 ^ k)) by assumption.
      rewrite N.mod_pow2_bits_high by assumption. apply andb_false_r. }
  rewrite <- N.lxor_lor by assumption. symmetry. apply N.add_nocarry_lxor. assumption.
Qed.

Lemma lor_hi hi p x : x < 2 ^ p -> N.lor (hi * 2 ^ p) x = hi * 2 ^ p + x.
Proof.
  intros Hx. apply lor_add with (k := p); [|assumption].
  apply N.mod_mul, N.pow_nonzero. lia.
Qed.

Lemma lor_128 x : x < 256 -> N.lor 128 x = 128 + x mod 128.
Proof.
  intros Hx. destruct (N.lt_ge_cases x 128) as [Hl|Hg].
  - rewrite (lor_add 128 x 7); [|reflexivity|exact Hl]. rewrite N.mod_small by assumption. reflexivity.
  - assert (Hy : x = 128 + (x - 128)) by lia.
    assert (Hm : x mod 128 = x - 128).
    { symmetry. apply (N.mod_unique x 128 1); lia. }
    rewrite Hm. rewrite Hy at 1.
    rewrite <- (lor_add 128 (x - 128) 7); [|reflexivity|change (2 ^ 7) with 128; lia].
    rewrite N.lor_assoc, N.lor_diag. reflexivity.
Qed.

Lemma log2_div128 v : 128 <= v -> N.log2 (v / 128) < N.log2 v.
Proof.
  intros Hv. change 128 with (2 ^ 7). rewrite <- N.shiftr_div_pow2, N.log2_shiftr.
  assert (7 <= N.log2 v). { change 7 with (N.log2 128). apply N.log2_le_mono. assumption. }
  lia.
Qed.

Lemma cont_roundtrip : forall (L : nat) v fuel rest,
  v < 128 ^ N.of_nat L -> (N.to_nat (N.log2 v) < fuel)%nat -> (1 <= L)%nat ->
  ref_decode_cont L (enc_int_cont fuel v ++ rest) = Some (v, rest).
Proof.
  induction L as [|L IH]; intros v fuel rest Hv Hf HL; [lia|].
  destruct fuel as [|fuel]; [lia|].
  cbn [enc_int_cont].
  destruct (128 <=? v) eqn:E.
  - apply N.leb_le in E.
    assert (Hb : N.lor 128 (v mod 256) = 128 + v mod 128).
    { rewrite lor_128 by (apply N.mod_lt; lia).
      f_equal. lia. }
    rewrite Hb. cbn [app ref_decode_cont].
    assert (Hm : v mod 128 < 128) by (apply N.mod_lt; lia).
    replace (128 + v mod 128 <? 128) with false by (symmetry; apply N.ltb_ge; lia).
    replace (128 + v mod 128 <? 256) with true by (symmetry; apply N.ltb_lt; lia).
    assert (Hq : v / 128 < 128 ^ N.of_nat L).
    { apply N.div_lt_upper_bound; [lia|].
      rewrite Nnat.Nat2N.inj_succ, N.pow_succ_r' in Hv. exact Hv. }
    assert (HL' : (1 <= L)%nat).
    { destruct L as [|L']; [|lia]. cbn in Hq. assert (1 <= v / 128) by (apply N.div_le_lower_bound; lia). lia. }
    rewrite IH; [| exact Hq | | exact HL'].
    + f_equal. f_equal. pose proof (N.div_mod v 128). lia.
    + pose proof (log2_div128 v E). lia.
  - apply N.leb_gt in E. cbn [app ref_decode_cont].
    replace (v <? 128) with true by (symmetry; apply N.ltb_lt; lia). reflexivity.
Qed.

(* the first octet of an integer: pattern bits above, value bits (< 2^p) below *)
Lemma enc_int_head v p hi :
  exists x tl, enc_int v p (hi * 2 ^ p) = (hi * 2 ^ p + x) :: tl /\ x < 2 ^ p.
Proof.
  unfold enc_int, encode_int_one_byte. pose proof (pow2_pos p) as Hp.
  destruct (v <? 2 ^ p - 1) eqn:E.
  - apply N.ltb_lt in E. exists v, []. rewrite lor_hi by lia. split; [reflexivity|lia].
  - exists (2 ^ p - 1), (enc_int_cont (S (N.to_nat (N.log2 (v - (2 ^ p - 1))))) (v - (2 ^ p - 1))).
    rewrite lor_hi by lia. split; [reflexivity|lia].
Qed.

Lemma enc_int_decode (L : nat) p hi v rest :
  (1 <= L)%nat -> v < 128 ^ N.of_nat L ->
  ref_decode_int L p (enc_int v p (hi * 2 ^ p) ++ rest) = Some (v, rest).
Proof.
  intros HL Hv. unfold enc_int, encode_int_one_byte. pose proof (pow2_pos p) as Hp.
  assert (Hnz : 2 ^ p <> 0) by lia.
  destruct (v <? 2 ^ p - 1) eqn:E.
  - apply N.ltb_lt in E. rewrite lor_hi by lia. cbn [app ref_decode_int].
    rewrite N.add_comm, N.mod_add by assumption. rewrite N.mod_small by lia.
    replace (v <? 2 ^ p - 1) with true by (symmetry; apply N.ltb_lt; assumption). reflexivity.
  - apply N.ltb_ge in E. rewrite lor_hi by lia. cbn [app ref_decode_int].
    rewrite N.add_comm, N.mod_add by assumption. rewrite N.mod_small by lia.
    replace (2 ^ p - 1 <? 2 ^ p - 1) with false by (symmetry; apply N.ltb_irrefl).
    rewrite cont_roundtrip; [| lia | lia | exact HL].
    f_equal. f_equal. lia.
Qed.

(* 128^L for the limits of interest *)
Lemma pow128_ge (L : nat) : (4 <= L)%nat -> 2 ^ 28 <= 128 ^ N.of_nat L.
Proof.
  intros HL. change (2 ^ 28) with (128 ^ 4).
  apply N.pow_le_mono_r; lia.
Qed.

(* ====================================================================================== *)
(* B. strings *)

Lemma lenb_app a b : lenb (a ++ b) = lenb a + lenb b.
Proof. unfold lenb. rewrite app_length. lia. Qed.

Lemma lenb_cons x l : lenb (x :: l) = 1 + lenb l.
Proof. unfold lenb. cbn [List.length]. lia. Qed.

Lemma split_at_app : forall (a rest : list N), split_at (lenb a) (a ++ rest) = Some (a, rest).
Proof.
  induction a as [|x a IH]; intros rest.
  - destruct rest; reflexivity.
  - rewrite lenb_cons. cbn [app split_at].
    replace (1 + lenb a =? 0) with false by (symmetry; apply N.eqb_neq; lia).
    replace (1 + lenb a - 1) with (lenb a) by lia. rewrite IH. reflexivity.
Qed.

Lemma enc_flush_len : forall fuel bits left put bits' left',
  enc_flush fuel bits left = Some (put, bits', left') -> (List.length put <= fuel)%nat.
Proof.
  induction fuel as [|fuel IH]; intros bits left put bits' left' H; cbn [enc_flush] in H.
  - destruct (32 <? left); [|discriminate]. inversion H; subst. cbn. lia.
  - destruct (32 <? left).
    + inversion H; subst. cbn. lia.
    + destruct (enc_flush fuel (bits * 256 mod 2 ^ 64) (left + 8)) as [[[p b] l]|] eqn:E; [|discriminate].
      inversion H; subst. apply IH in E. cbn [List.length]. lia.
Qed.

Lemma enc_loop_len : forall src bits left out,
  enc_loop bits left src = Some out -> (List.length out <= 6 * List.length src + 1)%nat.
Proof.
  induction src as [|b src IH]; intros bits left out H; cbn [enc_loop] in H.
  - destruct (left =? 40); [inversion H; subst; cbn; lia|].
    destruct (64 <=? left); [discriminate|]. inversion H; subst. cbn. lia.
  - destruct (nth_error _ (N.to_nat b)) as [[nbits code]|]; [|discriminate].
    destruct (left <? nbits); [discriminate|].
    destruct (64 <=? left - nbits); [discriminate|].
    destruct (enc_flush flush_fuel _ _) as [[[put bits'] left']|] eqn:Ef; [|discriminate].
    destruct (enc_loop bits' left' src) as [rest|] eqn:El; [|discriminate].
    inversion H; subst. apply IH in El. apply enc_flush_len in Ef. unfold flush_fuel in Ef.
    rewrite app_length. cbn [List.length]. lia.
Qed.

Lemma huff_encode_len s : lenb (huff_encode s) <= 6 * lenb s + 1.
Proof.
  unfold huff_encode, huff_encode_opt. destruct (enc_loop 0 40 s) as [out|] eqn:E.
  - apply enc_loop_len in E. unfold lenb. lia.
  - unfold lenb. cbn. lia.
Qed.

(* a string the theorems speak about: octets, shorter than 16 MiB *)
Definition str_ok (s : list N) : bool := bytes_ok s && (lenb s <? 2 ^ 24).

Lemma str_ok_spec s : str_ok s = true -> bytes_ok s = true /\ lenb s < 2 ^ 24.
Proof. unfold str_ok. rewrite andb_true_iff, N.ltb_lt. auto. Qed.

Lemma huff_opt_roundtrip s : bytes_ok s = true -> huff_decode_opt (huff_encode s) = Some s.
Proof. intros H. unfold huff_decode_opt. rewrite huff_roundtrip by assumption. reflexivity. Qed.

Lemma enc_str_shape s :
  enc_str s = match s with
              | [] => [0]
              | _ :: _ => enc_int (lenb (huff_encode s)) 7 (1 * 2 ^ 7) ++ huff_encode s
              end.
Proof.
  destruct s as [|x s]; [reflexivity|]. unfold enc_str.
  destruct (encode_int_one_byte (lenb (huff_encode (x :: s))) 7) eqn:E; [|reflexivity].
  unfold enc_int. rewrite E. reflexivity.
Qed.

Lemma enc_str_decode (L : nat) s rest :
  (4 <= L)%nat -> str_ok s = true ->
  ref_string huff_decode_opt L (enc_str s ++ rest) = Some (s, rest).
Proof.
  intros HL Hs. apply str_ok_spec in Hs. destruct Hs as [Hb Hl].
  rewrite enc_str_shape. destruct s as [|x s].
  - cbn [app]. unfold ref_string, ref_decode_int.
    change (0 mod 2 ^ 7) with 0. change (0 <? 2 ^ 7 - 1) with true. cbv beta iota.
    change (split_at 0 rest) with (split_at (lenb []) ([] ++ rest)). rewrite split_at_app.
    reflexivity.
  - set (h := huff_encode (x :: s)) in *.
    destruct (enc_int_head (lenb h) 7 1) as (y & tl & Hhd & Hy).
    pose proof (huff_encode_len (x :: s)) as Hlen. fold h in Hlen.
    pose proof (pow128_ge L HL) as HP.
    assert (Hdec : ref_decode_int L 7 (enc_int (lenb h) 7 (1 * 2 ^ 7) ++ h ++ rest) = Some (lenb h, h ++ rest)).
    { apply enc_int_decode; [lia|]. change (2 ^ 28) with 268435456 in HP.
      change (2 ^ 24) with 16777216 in Hl. lia. }
    rewrite <- app_assoc. unfold ref_string. rewrite Hdec. rewrite Hhd. cbn [app].
    rewrite split_at_app.
    change (2 ^ 7) with 128 in *.
    replace ((1 * 128 + y) / 128 =? 0) with false by (symmetry; apply N.eqb_neq; lia).
    replace ((1 * 128 + y) / 128 =? 1) with true by (symmetry; apply N.eqb_eq; lia).
    unfold h. rewrite huff_opt_roundtrip by assumption. reflexivity.
Qed.

(* ====================================================================================== *)
(* C. the static table: what index_static returns is what the RFC's table holds there *)

Definition static_entry_ok (e : list N * option (list N) * N * bool) : bool :=
  let '(n', ex, idx, flag) := e in
  (1 <=? idx) && (idx <=? 61) &&
  match nthN rfc_static (idx - 1) with
  | Some (n0, v0) =>
    list_N_eqb n0 n' &&
    (if flag then match ex with Some v' => list_N_eqb v0 v' | None => false end else true)
  | None => false
  end.

Lemma static_index_ok : forallb static_entry_ok static_index = true.
Proof. vm_compute. reflexivity. Qed.

Lemma index_static_in_sound : forall tbl n v i flag,
  forallb static_entry_ok tbl = true -> index_static_in tbl n v = Some (i, flag) ->
  1 <= i <= 61 /\ exists v0, nthN rfc_static (i - 1) = Some (n, v0) /\ (flag = true -> v0 = v).
Proof.
  induction tbl as [|[[[n' ex] idx] fl] tbl IH]; intros n v i flag Hall H; cbn [index_static_in] in H.
  - discriminate.
  - cbn [forallb] in Hall. apply andb_true_iff in Hall. destruct Hall as [He Hall].
    destruct (list_N_eqb n n' && match ex with Some v' => list_N_eqb v v' | None => true end) eqn:E.
    + inversion H; subst idx fl. clear H.
      apply andb_true_iff in E. destruct E as [En Ev]. apply list_N_eqb_eq in En. subst n'.
      unfold static_entry_ok in He.
      apply andb_true_iff in He. destruct He as [He Hn].
      apply andb_true_iff in He. destruct He as [H1 H61].
      apply N.leb_le in H1. apply N.leb_le in H61. split; [lia|].
      destruct (nthN rfc_static (i - 1)) as [[n0 v0]|]; [|discriminate].
      apply andb_true_iff in Hn. destruct Hn as [Hn0 Hfl]. apply list_N_eqb_eq in Hn0. subst n0.
      exists v0. split; [reflexivity|]. intros ->.
      destruct ex as [v'|]; [|discriminate].
      apply list_N_eqb_eq in Hfl. apply list_N_eqb_eq in Ev. congruence.
    + eapply IH; eassumption.
Qed.

Lemma index_static_sound h i flag :
  index_static h = Some (i, flag) ->
  1 <= i <= 61 /\ exists v0, nthN rfc_static (i - 1) = Some (h_name h, v0) /\ (flag = true -> v0 = h_value h).
Proof. apply index_static_in_sound, static_index_ok. Qed.

Lemma lookup_static dyn i : 1 <= i <= 61 -> lookup dyn i = nthN rfc_static (i - 1).
Proof.
  intros H. unfold lookup, rfc_static_len.
  replace (i =? 0) with false by (symmetry; apply N.eqb_neq; lia).
  replace (i <=? 61) with true by (symmetry; apply N.leb_le; lia). reflexivity.
Qed.

Lemma lookup_dyn dyn j : lookup dyn (j + DYN_OFFSET) = nthN dyn j.
Proof.
  unfold lookup, rfc_static_len, DYN_OFFSET, dyn_offset.
  replace (j + 62 =? 0) with false by (symmetry; apply N.eqb_neq; lia).
  replace (j + 62 <=? 61) with false by (symmetry; apply N.leb_gt; lia).
  replace (j + 62 - 61 - 1) with j by lia. reflexivity.
Qed.

(* ====================================================================================== *)
(* D. the table operations are the RFC's eviction rules *)

Lemma table_size_app a b : table_size (a ++ b) = table_size a + table_size b.
Proof. induction a as [|x a IH]; cbn [app table_size]; lia. Qed.

Lemma entry_size_ge f : 32 <= entry_size f.
Proof. unfold entry_size. lia. Qed.

Lemma keep_prefix_all : forall l b, table_size l <= b -> keep_prefix b l = l.
Proof.
  induction l as [|x l IH]; intros b H; cbn [keep_prefix table_size] in *; [reflexivity|].
  replace (entry_size x <=? b) with true by (symmetry; apply N.leb_le; lia).
  rewrite IH by lia. reflexivity.
Qed.

Lemma keep_prefix_drop_last : forall l x b,
  b < table_size (l ++ [x]) -> keep_prefix b (l ++ [x]) = keep_prefix b l.
Proof.
  induction l as [|y l IH]; intros x b H; cbn [app keep_prefix table_size] in *.
  - replace (entry_size x <=? b) with false by (symmetry; apply N.leb_gt; lia). reflexivity.
  - destruct (entry_size y <=? b) eqn:E; [|reflexivity].
    apply N.leb_le in E. rewrite IH by lia. reflexivity.
Qed.

Lemma keep_prefix_size : forall l b, table_size (keep_prefix b l) <= b.
Proof.
  induction l as [|x l IH]; intros b; cbn [keep_prefix table_size]; [lia|].
  destruct (entry_size x <=? b) eqn:E; cbn [table_size]; [|lia].
  apply N.leb_le in E. specialize (IH (b - entry_size x)). lia.
Qed.

Lemma pop_back_spec {A} : forall l : list A,
  (pop_back l = None /\ l = []) \/ (exists l' x, pop_back l = Some (l', x) /\ l = l' ++ [x]).
Proof.
  induction l as [|y l IH]; [left; auto|]. right. cbn [pop_back].
  destruct IH as [[-> ->]|(l' & x & -> & ->)].
  - exists [], y. auto.
  - exists (y :: l'), x. auto.
Qed.

Lemma table_len_le es : 32 * lenN es <= table_size es.
Proof.
  unfold lenN. induction es as [|e es IH]; cbn [table_size List.length]; [lia|].
  pose proof (entry_size_ge e). lia.
Qed.

Lemma converge_spec : forall fuel es size max extra,
  size = extra + table_size es -> extra <= max -> (List.length es < fuel)%nat ->
  converge fuel es size max =
    EOk (keep_prefix (max - extra) es, extra + table_size (keep_prefix (max - extra) es)).
Proof.
  induction fuel as [|fuel IH]; intros es size max extra Hs He Hf; [lia|].
  cbn [converge]. destruct (size <=? max) eqn:E.
  - apply N.leb_le in E. rewrite keep_prefix_all by lia. subst size. reflexivity.
  - apply N.leb_gt in E.
    destruct (pop_back_spec es) as [[_ ->]|(es' & last & Hp & ->)].
    + cbn [table_size] in Hs. lia.
    + rewrite Hp. rewrite table_size_app in Hs. cbn [table_size] in Hs.
      change (fsize last) with (entry_size last).
      replace (size <? entry_size last) with false by (symmetry; apply N.ltb_ge; lia).
      rewrite (IH es' (size - entry_size last) max extra); [| lia | lia |].
      * rewrite keep_prefix_drop_last; [reflexivity|].
        rewrite table_size_app. cbn [table_size]. lia.
      * rewrite app_length in Hf. cbn [List.length] in Hf. lia.
Qed.

Definition tinv (t : enc_table) : Prop :=
  et_size t = table_size (et_entries t) /\ et_size t <= et_max t.

(* the table after inserting f, in the RFC's words *)
Definition ins (t : enc_table) (f : hfield) : enc_table :=
  mkTable (add_entry (et_max t) f (et_entries t))
          (table_size (add_entry (et_max t) f (et_entries t))) (et_max t).

Lemma add_entry_size max f dyn : table_size (add_entry max f dyn) <= max.
Proof.
  unfold add_entry. destruct (entry_size f <=? max) eqn:E; cbn [table_size]; [|lia].
  apply N.leb_le in E. pose proof (keep_prefix_size dyn (max - entry_size f)). lia.
Qed.

Lemma tinv_ins t f : tinv (ins t f).
Proof. unfold tinv, ins. cbn [et_size et_entries et_max]. split; [reflexivity|apply add_entry_size]. Qed.

Lemma table_insert_spec t f : tinv t -> fsize f <= et_max t -> table_insert t f = EOk (ins t f).
Proof.
  intros [Hs Hm] Hf. unfold table_insert, converge_fuel.
  rewrite (converge_spec _ _ _ _ (fsize f)); [| lia | exact Hf | apply Nat.lt_succ_diag_r].
  unfold ins, add_entry. change (entry_size f) with (fsize f).
  replace (fsize f <=? et_max t) with true by (symmetry; apply N.leb_le; exact Hf).
  cbn [table_size]. reflexivity.
Qed.

(* the table after a size update to v, in the RFC's words *)
Definition rsz (t : enc_table) (v : N) : enc_table :=
  mkTable (evict_to v (et_entries t)) (table_size (evict_to v (et_entries t))) v.

Lemma tinv_rsz t v : tinv (rsz t v).
Proof. unfold tinv, rsz, evict_to. cbn [et_size et_entries et_max]. split; [reflexivity|apply keep_prefix_size]. Qed.

Lemma table_resize_spec t v : tinv t -> table_resize t v = EOk (rsz t v).
Proof.
  intros [Hs Hm]. unfold table_resize, rsz, evict_to. destruct (v =? 0) eqn:E.
  - apply N.eqb_eq in E. subst v. destruct (et_entries t) as [|e es]; [reflexivity|].
    cbn [keep_prefix]. pose proof (entry_size_ge e).
    replace (entry_size e <=? 0) with false by (symmetry; apply N.leb_gt; lia). reflexivity.
  - unfold converge_fuel. rewrite (converge_spec _ _ _ _ 0); [| lia | lia | apply Nat.lt_succ_diag_r].
    rewrite N.sub_0_r, N.add_0_l. reflexivity.
Qed.

(* ====================================================================================== *)
(* E. searching the table *)

Lemma find_first_pos_spec p : forall es i j,
  find_first_pos p es i = Some j -> i <= j /\ exists e, nthN es (j - i) = Some e /\ p e = true.
Proof.
  induction es as [|e es IH]; intros i j H; cbn [find_first_pos] in H; [discriminate|].
  destruct (p e) eqn:E.
  - inversion H; subst j. split; [lia|]. exists e. cbn [nthN]. rewrite N.sub_diag. auto.
  - apply IH in H. destruct H as [Hle (e' & Hn & Hp)]. split; [lia|]. exists e'. cbn [nthN].
    replace (j - i =? 0) with false by (symmetry; apply N.eqb_neq; lia).
    replace (j - i - 1) with (j - (i + 1)) by lia. auto.
Qed.

Lemma find_last_pos_spec p : forall es i j,
  find_last_pos p es i = Some j -> i <= j /\ exists e, nthN es (j - i) = Some e /\ p e = true.
Proof.
  induction es as [|e es IH]; intros i j H; cbn [find_last_pos] in H; [discriminate|].
  destruct (find_last_pos p es (i + 1)) as [j'|] eqn:E.
  - inversion H; subst j'. apply IH in E. destruct E as [Hle (e' & Hn & Hp)].
    split; [lia|]. exists e'. cbn [nthN].
    replace (j - i =? 0) with false by (symmetry; apply N.eqb_neq; lia).
    replace (j - i - 1) with (j - (i + 1)) by lia. auto.
  - destruct (p e) eqn:Ep; [|discriminate]. inversion H; subst j. split; [lia|].
    exists e. cbn [nthN]. rewrite N.sub_diag. auto.
Qed.

Lemma nthN_lt {A} : forall (l : list A) n x, nthN l n = Some x -> n < lenN l.
Proof.
  unfold lenN. induction l as [|y l IH]; intros n x H; cbn [nthN] in H; [discriminate|].
  cbn [List.length]. destruct (n =? 0) eqn:E.
  - apply N.eqb_eq in E. lia.
  - apply N.eqb_neq in E. apply IH in H. lia.
Qed.

Lemma name_is_spec n e : name_is n e = true -> fst e = n.
Proof. unfold name_is. apply list_N_eqb_eq. Qed.

Lemma field_is_spec n v e : field_is n v e = true -> e = (n, v).
Proof.
  unfold field_is. rewrite andb_true_iff. intros [H1 H2].
  apply list_N_eqb_eq in H1. apply list_N_eqb_eq in H2. destruct e. cbn in *. congruence.
Qed.

(* the outcomes of Table::index *)
Lemma table_index_cases t h : tinv t ->
  (table_index t h = EOk (t, index_new (index_static h))) \/
  (exists r, table_index t h = EOk (t, Indexed (r + DYN_OFFSET)) /\
             nthN (et_entries t) r = Some (h_name h, h_value h)) \/
  (exists j v0, table_index t h = EOk (t, Name (j + DYN_OFFSET)) /\
                nthN (et_entries t) j = Some (h_name h, v0) /\ hdr_is_sensitive h = true) \/
  (hdr_is_sensitive h = false /\ fsize (hdr_field h) <= et_max t /\
   exists i, table_index t h = EOk (ins t (hdr_field h), InsertedValue i 0) /\
     ((exists fl, index_static h = Some (i, fl)) \/
      (exists j v0, i = j + DYN_OFFSET /\ nthN (et_entries t) j = Some (h_name h, v0)))) \/
  (hdr_is_sensitive h = false /\ fsize (hdr_field h) <= et_max t /\ index_static h = None /\
   table_index t h = EOk (ins t (hdr_field h), Inserted 0)).
Proof.
  intros Ht. unfold table_index.
  destruct (hdr_skip_value_index h); [left; reflexivity|].
  assert (Hdyn :
    et_max t * 3 <? hdr_len h * 4 = false ->
    (index_dynamic t h (index_static h) = EOk (t, index_new (index_static h))) \/
    (exists r, index_dynamic t h (index_static h) = EOk (t, Indexed (r + DYN_OFFSET)) /\
               nthN (et_entries t) r = Some (h_name h, h_value h)) \/
    (exists j v0, index_dynamic t h (index_static h) = EOk (t, Name (j + DYN_OFFSET)) /\
                  nthN (et_entries t) j = Some (h_name h, v0) /\ hdr_is_sensitive h = true) \/
    (hdr_is_sensitive h = false /\ fsize (hdr_field h) <= et_max t /\
     exists i, index_dynamic t h (index_static h) = EOk (ins t (hdr_field h), InsertedValue i 0) /\
       ((exists fl, index_static h = Some (i, fl)) \/
        (exists j v0, i = j + DYN_OFFSET /\ nthN (et_entries t) j = Some (h_name h, v0)))) \/
    (hdr_is_sensitive h = false /\ fsize (hdr_field h) <= et_max t /\ index_static h = None /\
     index_dynamic t h (index_static h) = EOk (ins t (hdr_field h), Inserted 0))).
  { intros Hsmall. apply N.ltb_ge in Hsmall. unfold hdr_len in Hsmall.
    assert (Hfit : fsize (hdr_field h) <= et_max t) by lia.
    unfold index_dynamic.
    destruct (find_first_pos (name_is (h_name h)) (et_entries t) 0) as [newest|] eqn:Ef.
    - apply find_first_pos_spec in Ef. destruct Ef as [_ (e & Hn & Hp)].
      rewrite N.sub_0_r in Hn. apply name_is_spec in Hp. destruct e as [en ev]. cbn [fst] in Hp. subst en.
      destruct (find_last_pos (field_is (h_name h) (h_value h)) (et_entries t) 0) as [r|] eqn:El.
      + apply find_last_pos_spec in El. destruct El as [_ (e & Hr & Hq)].
        rewrite N.sub_0_r in Hr. apply field_is_spec in Hq. subst e.
        right; left. exists r. auto.
      + destruct (hdr_is_sensitive h) eqn:Es.
        * right; right; left. exists newest, ev. auto.
        * right; right; right; left. split; [reflexivity|]. split; [exact Hfit|].
          rewrite table_insert_spec by assumption.
          destruct (index_static h) as [[i fl]|] eqn:Est; cbn [statik_name].
          -- exists i. split; [reflexivity|]. left. exists fl. reflexivity.
          -- exists (newest + DYN_OFFSET). split; [reflexivity|]. right. exists newest, ev. auto.
    - destruct (hdr_is_sensitive h) eqn:Es; [left; reflexivity|].
      rewrite table_insert_spec by assumption.
      destruct (index_static h) as [[i fl]|] eqn:Est; cbn [statik_name].
      + right; right; right; left. split; [reflexivity|]. split; [exact Hfit|].
        exists i. split; [reflexivity|]. left. exists fl. reflexivity.
      + right; right; right; right. auto. }
  destruct (index_static h) as [[i [|]]|] eqn:Est.
  - left. reflexivity.
  - destruct (et_max t * 3 <? hdr_len h * 4) eqn:E; [left; reflexivity|]. apply Hdyn. reflexivity.
  - destruct (et_max t * 3 <? hdr_len h * 4) eqn:E; [left; reflexivity|]. apply Hdyn. reflexivity.
Qed.

(* ====================================================================================== *)
(* F. every representation the encoder writes is read back by the reference decoder *)

Notation hd := huff_decode_opt (only parsing).

Lemma small_lt_pow (L : nat) i : (4 <= L)%nat -> i < 2 ^ 28 -> i < 128 ^ N.of_nat L.
Proof. intros HL Hi. pose proof (pow128_ge L HL). lia. Qed.

(* 6.1 *)
Lemma rep_indexed (L : nat) max dyn i f rest :
  (4 <= L)%nat -> i < 2 ^ 28 -> lookup dyn i = Some f ->
  ref_field_step hd L max dyn (enc_int i 7 128 ++ rest) = Some (f, dyn, rest).
Proof.
  intros HL Hi Hl. change 128 with (1 * 2 ^ 7).
  pose proof (enc_int_decode L 7 1 i rest ltac:(lia) (small_lt_pow L i HL Hi)) as Hd.
  destruct (enc_int_head i 7 1) as (x & tl & Hh & Hx).
  rewrite Hh in Hd |- *. cbn [app] in Hd |- *. unfold ref_field_step. rewrite Hd, Hl.
  change (2 ^ 7) with 128 in *.
  replace ((1 * 128 + x) / 128 =? 1) with true by (symmetry; apply N.eqb_eq; lia).
  reflexivity.
Qed.

(* 6.2.2 / 6.2.3 with an indexed name; hi = 0 without indexing, hi = 1 never indexed *)
Lemma rep_literal_idx (L : nat) max dyn hi i n v0 v rest :
  (4 <= L)%nat -> hi <= 1 -> 1 <= i < 2 ^ 28 -> lookup dyn i = Some (n, v0) -> str_ok v = true ->
  ref_field_step hd L max dyn (enc_int i 4 (hi * 2 ^ 4) ++ enc_str v ++ rest) = Some ((n, v), dyn, rest).
Proof.
  intros HL Hhi Hi Hl Hv.
  pose proof (enc_int_decode L 4 hi i (enc_str v ++ rest) ltac:(lia) (small_lt_pow L i HL ltac:(lia))) as Hd.
  destruct (enc_int_head i 4 hi) as (x & tl & Hh & Hx).
  rewrite Hh in Hd |- *. cbn [app] in Hd |- *. unfold ref_field_step.
  change (2 ^ 4) with 16 in *.
  replace ((hi * 16 + x) / 128 =? 1) with false by (symmetry; apply N.eqb_neq; lia).
  replace ((hi * 16 + x) / 64 =? 1) with false by (symmetry; apply N.eqb_neq; lia).
  assert (Hb : ((hi * 16 + x) / 16 =? 0) || ((hi * 16 + x) / 16 =? 1) = true).
  { apply orb_true_iff. rewrite !N.eqb_eq. lia. }
  rewrite Hb. unfold ref_literal, ref_lit_name. rewrite Hd.
  replace (i =? 0) with false by (symmetry; apply N.eqb_neq; lia).
  rewrite Hl. rewrite enc_str_decode by assumption. reflexivity.
Qed.

Lemma encode_not_indexed_shape i v sens :
  encode_not_indexed i v sens = enc_int i 4 ((if sens then 1 else 0) * 2 ^ 4) ++ enc_str v.
Proof. unfold encode_not_indexed. destruct sens; reflexivity. Qed.

Lemma rep_not_indexed (L : nat) max dyn sens i n v0 v rest :
  (4 <= L)%nat -> 1 <= i < 2 ^ 28 -> lookup dyn i = Some (n, v0) -> str_ok v = true ->
  ref_field_step hd L max dyn (encode_not_indexed i v sens ++ rest) = Some ((n, v), dyn, rest).
Proof.
  intros HL Hi Hl Hv. rewrite encode_not_indexed_shape, <- app_assoc.
  eapply rep_literal_idx; try eassumption. destruct sens; lia.
Qed.

(* 6.2.2 / 6.2.3 with a literal name *)
Lemma rep_not_indexed2 (L : nat) max dyn sens n v rest :
  (4 <= L)%nat -> str_ok n = true -> str_ok v = true ->
  ref_field_step hd L max dyn (encode_not_indexed2 n v sens ++ rest) = Some ((n, v), dyn, rest).
Proof.
  intros HL Hn Hv. unfold encode_not_indexed2.
  assert (Hgen : forall b, b = 0 \/ b = 16 ->
    ref_field_step hd L max dyn (([b] ++ enc_str n ++ enc_str v) ++ rest) = Some ((n, v), dyn, rest)).
  { intros b Hb. rewrite <- !app_assoc. cbn [app]. unfold ref_field_step.
    replace (b / 128 =? 1) with false by (symmetry; apply N.eqb_neq; lia).
    replace (b / 64 =? 1) with false by (symmetry; apply N.eqb_neq; lia).
    assert (Hb2 : (b / 16 =? 0) || (b / 16 =? 1) = true).
    { apply orb_true_iff. rewrite !N.eqb_eq. lia. }
    rewrite Hb2. unfold ref_literal, ref_lit_name, ref_decode_int.
    change (2 ^ 4) with 16.
    replace (b mod 16) with 0 by (destruct Hb; subst b; reflexivity).
    change (0 <? 16 - 1) with true. cbv beta iota. change (0 =? 0) with true. cbv beta iota.
    rewrite enc_str_decode by assumption. rewrite enc_str_decode by assumption. reflexivity. }
  destruct sens; apply Hgen; auto.
Qed.

(* 6.2.1 with an indexed name *)
Lemma rep_incremental_idx (L : nat) max dyn i n v0 v rest :
  (4 <= L)%nat -> 1 <= i < 2 ^ 28 -> lookup dyn i = Some (n, v0) -> str_ok v = true ->
  ref_field_step hd L max dyn ((enc_int i 6 64 ++ enc_str v) ++ rest)
  = Some ((n, v), add_entry max (n, v) dyn, rest).
Proof.
  intros HL Hi Hl Hv. rewrite <- app_assoc. change 64 with (1 * 2 ^ 6).
  pose proof (enc_int_decode L 6 1 i (enc_str v ++ rest) ltac:(lia) (small_lt_pow L i HL ltac:(lia))) as Hd.
  destruct (enc_int_head i 6 1) as (x & tl & Hh & Hx).
  rewrite Hh in Hd |- *. cbn [app] in Hd |- *. unfold ref_field_step.
  change (2 ^ 6) with 64 in *.
  replace ((1 * 64 + x) / 128 =? 1) with false by (symmetry; apply N.eqb_neq; lia).
  replace ((1 * 64 + x) / 64 =? 1) with true by (symmetry; apply N.eqb_eq; lia).
  unfold ref_literal, ref_lit_name. rewrite Hd.
  replace (i =? 0) with false by (symmetry; apply N.eqb_neq; lia).
  rewrite Hl. rewrite enc_str_decode by assumption. reflexivity.
Qed.

(* 6.2.1 with a literal name *)
Lemma rep_incremental_new (L : nat) max dyn n v rest :
  (4 <= L)%nat -> str_ok n = true -> str_ok v = true ->
  ref_field_step hd L max dyn ((64 :: enc_str n ++ enc_str v) ++ rest)
  = Some ((n, v), add_entry max (n, v) dyn, rest).
Proof.
  intros HL Hn Hv. cbn [app]. rewrite <- app_assoc. unfold ref_field_step.
  change (64 / 128 =? 1) with false. change (64 / 64 =? 1) with true. cbv beta iota.
  unfold ref_literal, ref_lit_name, ref_decode_int.
  change (64 mod 2 ^ 6) with 0. change (0 <? 2 ^ 6 - 1) with true. cbv beta iota.
  change (0 =? 0) with true. cbv beta iota.
  rewrite enc_str_decode by assumption. rewrite enc_str_decode by assumption. reflexivity.
Qed.

(* a field representation is never mistaken for a size update *)
Lemma field_not_update (L L' : nat) max dyn limit bs r :
  ref_field_step hd L max dyn bs = Some r -> ref_update_step L' limit bs = None.
Proof.
  unfold ref_field_step, ref_update_step. destruct bs as [|b bs]; [discriminate|].
  intros H. destruct (b / 32 =? 1) eqn:E; [|reflexivity]. apply N.eqb_eq in E. exfalso.
  destruct (b / 128 =? 1) eqn:E1; [apply N.eqb_eq in E1; lia|].
  destruct (b / 64 =? 1) eqn:E2; [apply N.eqb_eq in E2; lia|].
  destruct ((b / 16 =? 0) || (b / 16 =? 1)) eqn:E3; [|discriminate].
  apply orb_true_iff in E3. rewrite !N.eqb_eq in E3. lia.
Qed.

(* 6.3 *)
Lemma rep_size_update (L : nat) limit v rest :
  (4 <= L)%nat -> v <= limit -> v < 2 ^ 28 ->
  ref_update_step L limit (enc_size_update v ++ rest) = Some (v, rest).
Proof.
  intros HL Hv Hs. unfold enc_size_update. change 32 with (1 * 2 ^ 5).
  pose proof (enc_int_decode L 5 1 v rest ltac:(lia) (small_lt_pow L v HL Hs)) as Hd.
  destruct (enc_int_head v 5 1) as (x & tl & Hh & Hx).
  rewrite Hh in Hd |- *. cbn [app] in Hd |- *. unfold ref_update_step. rewrite Hd.
  change (2 ^ 5) with 32 in *.
  replace ((1 * 32 + x) / 32 =? 1) with true by (symmetry; apply N.eqb_eq; lia).
  replace (v <=? limit) with true by (symmetry; apply N.leb_le; assumption). reflexivity.
Qed.

(* ====================================================================================== *)
(* G. one header, then the loop of `encode` *)

Definition hdr_ok (h : hdr) : bool := str_ok (h_name h) && str_ok (h_value h).

(* index i names an entry with name n in the decoder's address space *)
Definition name_ref_ok (dyn : list field) (i : N) (n : list N) : Prop :=
  1 <= i < 2 ^ 28 /\ exists v0, lookup dyn i = Some (n, v0).

(* what `last_index` has to satisfy for encode_header_without_name *)
Definition last_ok (dyn : list field) (idx : index) (n : list N) : Prop :=
  match resolve_idx idx with Some i => name_ref_ok dyn i n | None => True end.

Lemma dyn_pos_small t j e :
  tinv t -> et_max t <= 4096 -> nthN (et_entries t) j = Some e -> 1 <= j + DYN_OFFSET < 2 ^ 28.
Proof.
  intros [Hs Hm] H4 Hn. apply nthN_lt in Hn. pose proof (table_len_le (et_entries t)) as Hlen.
  unfold lenN in *.
  unfold DYN_OFFSET, dyn_offset. change (2 ^ 28) with 268435456. lia.
Qed.

(* wf-free part: Table::index and encode_header never fail; sensitive headers are not inserted *)
Lemma table_index_ok t h : tinv t ->
  exists t' idx octets, table_index t h = EOk (t', idx) /\ encode_header idx h = EOk octets /\
    tinv t' /\ et_max t' = et_max t /\ (hdr_is_sensitive h = true -> t' = t).
Proof.
  intros Ht.
  destruct (table_index_cases t h Ht) as [H|[(r & H & _)|[(j & v0 & H & _ & _)|[(Hs & Hf & i & H & _)|(Hs & Hf & _ & H)]]]].
  - exists t, (index_new (index_static h)).
    destruct (index_static h) as [[i [|]]|]; cbn [index_new encode_header]; eauto 10.
  - exists t, (Indexed (r + DYN_OFFSET)). cbn [encode_header]. eauto 10.
  - exists t, (Name (j + DYN_OFFSET)). cbn [encode_header]. eauto 10.
  - exists (ins t (hdr_field h)), (InsertedValue i 0). cbn [encode_header]. rewrite Hs.
    eexists. split; [exact H|]. split; [reflexivity|]. split; [apply tinv_ins|]. split; [reflexivity|discriminate].
  - exists (ins t (hdr_field h)), (Inserted 0). cbn [encode_header]. rewrite Hs.
    eexists. split; [exact H|]. split; [reflexivity|]. split; [apply tinv_ins|]. split; [reflexivity|discriminate].
Qed.

Lemma index_new_step (L : nat) max dyn h : (4 <= L)%nat -> hdr_ok h = true ->
  exists octets, encode_header (index_new (index_static h)) h = EOk octets /\
    (forall rest, ref_field_step hd L max dyn (octets ++ rest) = Some (hdr_field h, dyn, rest)) /\
    last_ok dyn (index_new (index_static h)) (h_name h).
Proof.
  intros HL Hh. unfold hdr_ok in Hh. apply andb_true_iff in Hh. destruct Hh as [Hn Hv].
  destruct (index_static h) as [[i [|]]|] eqn:Est; cbn [index_new encode_header].
  - apply index_static_sound in Est. destruct Est as [Hi (v0 & Hnth & Hfl)].
    specialize (Hfl eq_refl). subst v0.
    assert (Hl : lookup dyn i = Some (h_name h, h_value h)) by (rewrite lookup_static; assumption).
    eexists. split; [reflexivity|]. split.
    + intros rest. apply rep_indexed; [assumption| change (2 ^ 28) with 268435456; lia | exact Hl].
    + unfold last_ok, name_ref_ok. cbn [resolve_idx]. split; [change (2 ^ 28) with 268435456; lia|eauto].
  - apply index_static_sound in Est. destruct Est as [Hi (v0 & Hnth & _)].
    assert (Hl : lookup dyn i = Some (h_name h, v0)) by (rewrite lookup_static; assumption).
    eexists. split; [reflexivity|]. split.
    + intros rest. eapply rep_not_indexed; [assumption| change (2 ^ 28) with 268435456; lia | exact Hl | assumption].
    + unfold last_ok, name_ref_ok. cbn [resolve_idx]. split; [change (2 ^ 28) with 268435456; lia|eauto].
  - eexists. split; [reflexivity|]. split.
    + intros rest. apply rep_not_indexed2; assumption.
    + exact I.
Qed.

Lemma table_index_step (L : nat) t h :
  (4 <= L)%nat -> tinv t -> et_max t <= 4096 -> hdr_ok h = true ->
  exists t' idx octets, table_index t h = EOk (t', idx) /\ encode_header idx h = EOk octets /\
    (forall rest, ref_field_step hd L (et_max t) (et_entries t) (octets ++ rest)
                  = Some (hdr_field h, et_entries t', rest)) /\
    tinv t' /\ et_max t' = et_max t /\ last_ok (et_entries t') idx (h_name h).
Proof.
  intros HL Ht H4 Hh.
  pose proof Hh as Hh'. unfold hdr_ok in Hh'. apply andb_true_iff in Hh'. destruct Hh' as [Hn Hv].
  destruct (table_index_cases t h Ht) as [H|[(r & H & Hr)|[(j & v0 & H & Hj & Hs)|[(Hs & Hf & i & H & Hi)|(Hs & Hf & Hst & H)]]]].
  - destruct (index_new_step L (et_max t) (et_entries t) h HL Hh) as (octets & He & Hd & Hlast).
    exists t, (index_new (index_static h)), octets. auto 10.
  - exists t, (Indexed (r + DYN_OFFSET)). cbn [encode_header]. eexists.
    split; [exact H|]. split; [reflexivity|].
    pose proof (dyn_pos_small t r _ Ht H4 Hr) as Hb.
    split; [|split; [exact Ht|split; [reflexivity|]]].
    + intros rest. apply rep_indexed; [assumption|lia|]. rewrite lookup_dyn. exact Hr.
    + unfold last_ok, name_ref_ok. cbn [resolve_idx]. split; [exact Hb|]. rewrite lookup_dyn. eauto.
  - exists t, (Name (j + DYN_OFFSET)). cbn [encode_header]. eexists.
    split; [exact H|]. split; [reflexivity|].
    pose proof (dyn_pos_small t j _ Ht H4 Hj) as Hb.
    split; [|split; [exact Ht|split; [reflexivity|]]].
    + intros rest. eapply rep_not_indexed; [assumption|exact Hb| |assumption]. rewrite lookup_dyn. exact Hj.
    + unfold last_ok, name_ref_ok. cbn [resolve_idx]. split; [exact Hb|]. rewrite lookup_dyn. eauto.
  - exists (ins t (hdr_field h)), (InsertedValue i 0). cbn [encode_header]. rewrite Hs. eexists.
    split; [exact H|]. split; [reflexivity|].
    assert (Hname : name_ref_ok (et_entries t) i (h_name h)).
    { destruct Hi as [(fl & Hst)|(j & v0 & -> & Hj)].
      - apply index_static_sound in Hst. destruct Hst as [Hi (v0 & Hnth & _)].
        split; [change (2 ^ 28) with 268435456; lia|]. exists v0. rewrite lookup_static; assumption.
      - split; [eapply dyn_pos_small; eassumption|]. exists v0. rewrite lookup_dyn. exact Hj. }
    destruct Hname as [Hb (v0 & Hl)].
    split; [|split; [apply tinv_ins|split; [reflexivity|]]].
    + intros rest. cbn [ins et_entries]. eapply rep_incremental_idx; eassumption.
    + unfold last_ok, name_ref_ok. cbn [resolve_idx ins et_entries].
      split; [unfold DYN_OFFSET, dyn_offset; change (2 ^ 28) with 268435456; lia|].
      rewrite lookup_dyn. unfold add_entry. change (entry_size (hdr_field h)) with (fsize (hdr_field h)).
      replace (fsize (hdr_field h) <=? et_max t) with true by (symmetry; apply N.leb_le; exact Hf).
      cbn [nthN]. change (0 =? 0) with true. cbv beta iota. unfold hdr_field. eauto.
  - exists (ins t (hdr_field h)), (Inserted 0). cbn [encode_header]. rewrite Hs. eexists.
    split; [exact H|]. split; [reflexivity|].
    split; [|split; [apply tinv_ins|split; [reflexivity|]]].
    + intros rest. cbn [ins et_entries]. apply rep_incremental_new; assumption.
    + unfold last_ok, name_ref_ok. cbn [resolve_idx ins et_entries].
      split; [unfold DYN_OFFSET, dyn_offset; change (2 ^ 28) with 268435456; lia|].
      rewrite lookup_dyn. unfold add_entry. change (entry_size (hdr_field h)) with (fsize (hdr_field h)).
      replace (fsize (hdr_field h) <=? et_max t) with true by (symmetry; apply N.leb_le; exact Hf).
      cbn [nthN]. change (0 =? 0) with true. cbv beta iota. unfold hdr_field. eauto.
Qed.

Lemma nameless_step (L : nat) max dyn idx lh v sens rest :
  (4 <= L)%nat -> last_ok dyn idx (h_name lh) -> str_ok (h_name lh) = true -> str_ok v = true ->
  ref_field_step hd L max dyn (encode_header_without_name idx lh v sens ++ rest)
  = Some ((h_name lh, v), dyn, rest).
Proof.
  intros HL Hlast Hn Hv. unfold encode_header_without_name, last_ok in *.
  destruct (resolve_idx idx) as [i|].
  - destruct Hlast as [Hb (v0 & Hl)]. eapply rep_not_indexed; eassumption.
  - apply rep_not_indexed2; assumption.
Qed.

(* well-formedness of what is submitted *)
Definition field_ok (f : field_in) : bool :=
  match fi_name f with Some n => str_ok n | None => true end && str_ok (fi_value f).

Definition block_named (fl : list field_in) : bool :=
  match fl with
  | [] => true
  | f :: _ => match fi_name f with Some _ => true | None => false end
  end.

Definition block_ok (fl : list field_in) : bool := block_named fl && forallb field_ok fl.

Definition last_inv (dyn : list field) (last : option (index * hdr)) (prev : list N) : Prop :=
  match last with
  | None => True
  | Some (idx, lh) => h_name lh = prev /\ str_ok prev = true /\ last_ok dyn idx prev
  end.

Lemma ref_fields_nil (L : nat) max fuel dyn : ref_fields hd L max fuel dyn [] = Some ([], dyn).
Proof. destruct fuel; reflexivity. Qed.

Lemma ref_fields_step (L : nat) max fuel dyn octets rest f dyn1 fs dyn2 :
  (forall r, ref_field_step hd L max dyn (octets ++ r) = Some (f, dyn1, r)) ->
  (List.length (octets ++ rest) <= fuel)%nat ->
  (forall fuel', (List.length rest <= fuel')%nat -> ref_fields hd L max fuel' dyn1 rest = Some (fs, dyn2)) ->
  ref_fields hd L max fuel dyn (octets ++ rest) = Some (f :: fs, dyn2).
Proof.
  intros Hstep Hfuel Hrest.
  assert (Hne : octets <> []).
  { intros ->. specialize (Hstep []). cbn in Hstep. discriminate. }
  destruct octets as [|b octets]; [congruence|].
  cbn [app List.length] in Hfuel. destruct fuel as [|fuel]; [lia|].
  cbn [app ref_fields]. change (b :: octets ++ rest) with ((b :: octets) ++ rest).
  rewrite Hstep. rewrite Hrest; [reflexivity|]. rewrite app_length in Hfuel. lia.
Qed.

Lemma encode_loop_decode (L : nat) : (4 <= L)%nat -> forall fl t last prev,
  tinv t -> et_max t <= 4096 -> forallb field_ok fl = true ->
  last_inv (et_entries t) last prev -> (last = None -> block_named fl = true) ->
  exists t' out, encode_loop t last fl = EOk (t', out) /\ tinv t' /\ et_max t' = et_max t /\
    forall fuel, (List.length out <= fuel)%nat ->
      ref_fields hd L (et_max t) fuel (et_entries t) out
      = Some (submitted_from prev fl, et_entries t').
Proof.
  intros HL. induction fl as [|f fl IH]; intros t last prev Ht H4 Hok Hlast Hnamed.
  - exists t, []. cbn [encode_loop submitted_from].
    split; [reflexivity|]. split; [exact Ht|]. split; [reflexivity|].
    intros fuel _. apply ref_fields_nil.
  - cbn [forallb] in Hok. apply andb_true_iff in Hok. destruct Hok as [Hf Hok].
    unfold field_ok in Hf. apply andb_true_iff in Hf. destruct Hf as [Hfn Hfv].
    cbn [encode_loop submitted_from]. destruct (fi_name f) as [n|] eqn:En.
    + set (h := mkHdr n (fi_value f) (fi_sens f)).
      assert (Hh : hdr_ok h = true) by (unfold hdr_ok, h; cbn [h_name h_value]; rewrite Hfn, Hfv; reflexivity).
      destruct (table_index_step L t h HL Ht H4 Hh) as (t1 & idx & octets & Hti & Heh & Hstep & Ht1 & Hm1 & Hl1).
      rewrite Hti, Heh.
      destruct (IH t1 (Some (idx, h)) n Ht1 ltac:(lia) Hok) as (t2 & rest & Hloop & Ht2 & Hm2 & Hdec).
      { cbn [last_inv]. unfold h at 1. cbn [h_name]. auto. }
      { discriminate. }
      rewrite Hloop. exists t2, (octets ++ rest). split; [reflexivity|]. split; [exact Ht2|].
      split; [lia|]. intros fuel Hfuel.
      eapply ref_fields_step; [exact Hstep|exact Hfuel|]. intros fuel' Hfuel'.
      rewrite <- Hm1. apply Hdec. exact Hfuel'.
    + destruct last as [[idx lh]|].
      * cbn [last_inv] in Hlast. destruct Hlast as (Hname & Hprev & Hl).
        destruct (IH t (Some (idx, lh)) prev Ht H4 Hok) as (t2 & rest & Hloop & Ht2 & Hm2 & Hdec).
        { cbn [last_inv]. auto. }
        { discriminate. }
        rewrite Hloop. eexists t2, (_ ++ rest). split; [reflexivity|]. split; [exact Ht2|].
        split; [exact Hm2|]. intros fuel Hfuel.
        eapply ref_fields_step; [|exact Hfuel|exact Hdec].
        intros r. rewrite <- Hname. apply nameless_step; try assumption; rewrite Hname; assumption.
      * specialize (Hnamed eq_refl). cbn [block_named] in Hnamed. rewrite En in Hnamed. discriminate.
Qed.

(* wf-free: the loop can only fail with the "no previous name" panic, and keeps the invariant *)
Lemma encode_loop_inv : forall fl t last, tinv t ->
  (exists t' out, encode_loop t last fl = EOk (t', out) /\ tinv t' /\ et_max t' = et_max t) \/
  encode_loop t last fl = EFail NoPreviousName.
Proof.
  induction fl as [|f fl IH]; intros t last Ht; cbn [encode_loop].
  - left. eauto.
  - destruct (fi_name f) as [n|].
    + destruct (table_index_ok t (mkHdr n (fi_value f) (fi_sens f)) Ht)
        as (t1 & idx & octets & Hti & Heh & Ht1 & Hm1 & _).
      rewrite Hti, Heh.
      destruct (IH t1 (Some (idx, mkHdr n (fi_value f) (fi_sens f))) Ht1)
        as [(t2 & rest & Hloop & Ht2 & Hm2)|Hfail]; rewrite ?Hloop, ?Hfail.
      * left. exists t2, (octets ++ rest). split; [reflexivity|]. split; [exact Ht2|lia].
      * right. reflexivity.
    + destruct last as [[idx lh]|]; [|right; reflexivity].
      destruct (IH t (Some (idx, lh)) Ht) as [(t2 & rest & Hloop & Ht2 & Hm2)|Hfail]; rewrite ?Hloop, ?Hfail.
      * left. eauto 10.
      * right. reflexivity.
Qed.

(* ====================================================================================== *)
(* H. update_max_size, one block, a history *)

Definition pend_le (st : enc_state) : Prop :=
  match e_size_update st with
  | None => True
  | Some (One v) => v <= 4096
  | Some (Two mn v) => mn <= 4096 /\ v <= 4096
  end.

Definition einv (st : enc_state) : Prop :=
  tinv (e_table st) /\ et_max (e_table st) <= 4096 /\ e_max_allowed st = 4096 /\ pend_le st.

(* the pending updates against the peer's current limit *)
Definition pend_ok (st : enc_state) (lim : N) : Prop :=
  match e_size_update st with
  | None => et_max (e_table st) <= lim
  | Some (One v) => v <= lim
  | Some (Two mn v) => mn <= v /\ v <= lim
  end.

(* the max_size the table has after the pending updates are emitted *)
Definition final_target (st : enc_state) : N :=
  match e_size_update st with
  | None => et_max (e_table st)
  | Some (One v) => v
  | Some (Two _ v) => v
  end.

Lemma pend_ok_target st lim : pend_ok st lim -> final_target st <= lim.
Proof. unfold pend_ok, final_target. destruct (e_size_update st) as [[v|mn v]|]; lia. Qed.

Lemma upd_table st u : e_table (enc_update_max_size st u) = e_table st.
Proof.
  unfold enc_update_max_size. destruct (e_size_update st) as [[old|mn mx]|].
  - destruct (old <? N.min u (e_max_allowed st)); [destruct (et_max (e_table st) <? old)|]; reflexivity.
  - destruct (N.min u (e_max_allowed st) <? mn); reflexivity.
  - destruct (negb (N.min u (e_max_allowed st) =? et_max (e_table st))); reflexivity.
Qed.

Lemma upd_allowed st u : e_max_allowed (enc_update_max_size st u) = e_max_allowed st.
Proof.
  unfold enc_update_max_size. destruct (e_size_update st) as [[old|mn mx]|].
  - destruct (old <? N.min u (e_max_allowed st)); [destruct (et_max (e_table st) <? old)|]; reflexivity.
  - destruct (N.min u (e_max_allowed st) <? mn); reflexivity.
  - destruct (negb (N.min u (e_max_allowed st) =? et_max (e_table st))); reflexivity.
Qed.

Lemma upd_inv st lim u :
  einv st -> pend_ok st lim -> einv (enc_update_max_size st u) /\ pend_ok (enc_update_max_size st u) u.
Proof.
  intros ([Ht1 Ht2] & H4 & Ha & Hp) Hl. unfold einv, tinv, pend_ok, pend_le in *.
  rewrite upd_table, upd_allowed.
  unfold enc_update_max_size. rewrite Ha.
  destruct (e_size_update st) as [[old|mn mx]|] eqn:E0.
  - destruct (old <? N.min u 4096) eqn:E1; [destruct (et_max (e_table st) <? old) eqn:E2|];
      cbn [e_size_update]; rewrite ?N.ltb_lt, ?N.ltb_ge in *; repeat split; try assumption; lia.
  - destruct (N.min u 4096 <? mn) eqn:E1; cbn [e_size_update];
      rewrite ?N.ltb_lt, ?N.ltb_ge in *; repeat split; try assumption; lia.
  - destruct (N.min u 4096 =? et_max (e_table st)) eqn:E1; cbn [negb e_size_update].
    + apply N.eqb_eq in E1. rewrite E0. repeat split; try assumption; lia.
    + repeat split; try assumption; lia.
Qed.

Lemma last_indep {A} : forall l (a d d' : A), last (a :: l) d = last (a :: l) d'.
Proof.
  induction l as [|y l IH]; intros a d d'; [reflexivity|].
  change (last (a :: y :: l) d) with (last (y :: l) d).
  change (last (a :: y :: l) d') with (last (y :: l) d'). apply IH.
Qed.

Lemma last_cons {A} (x : A) l d : last (x :: l) d = last l x.
Proof.
  destruct l as [|y l]; [reflexivity|].
  change (last (x :: y :: l) d) with (last (y :: l) d). apply last_indep.
Qed.

Lemma last_app {A} (a b : list A) d : last (a ++ b) d = last b (last a d).
Proof.
  revert d. induction a as [|x a IH]; intros d; [reflexivity|].
  change ((x :: a) ++ b) with (x :: (a ++ b)). rewrite !last_cons. apply IH.
Qed.

Lemma fold_upd_inv : forall ups st lim,
  einv st -> pend_ok st lim ->
  einv (fold_left enc_update_max_size ups st) /\
  pend_ok (fold_left enc_update_max_size ups st) (last ups lim) /\
  e_table (fold_left enc_update_max_size ups st) = e_table st.
Proof.
  induction ups as [|u ups IH]; intros st lim Hi Hp; cbn [fold_left]; [auto|].
  destruct (upd_inv st lim u Hi Hp) as [Hi' Hp'].
  destruct (IH _ _ Hi' Hp') as (H1 & H2 & H3).
  rewrite last_cons. rewrite H3, upd_table. auto.
Qed.

Lemma last_limit_spec rs ups :
  last_limit rs ups = mk_rstate (r_dyn rs) (r_max rs) (last ups (r_limit rs)).
Proof.
  unfold last_limit. destruct ups as [|x xs _] using rev_ind.
  - destruct rs; reflexivity.
  - rewrite rev_app_distr. cbn [rev app]. rewrite last_app. reflexivity.
Qed.

Lemma enc_size_update_len v : (1 <= List.length (enc_size_update v))%nat.
Proof.
  unfold enc_size_update. change 32 with (1 * 2 ^ 5).
  destruct (enc_int_head v 5 1) as (x & tl & -> & _). cbn [List.length]. lia.
Qed.

Lemma ref_fields_not_update (L L' : nat) max fuel dyn limit out r :
  ref_fields hd L max (S fuel) dyn out = Some r -> ref_update_step L' limit out = None.
Proof.
  destruct out as [|b out]; [reflexivity|]. cbn [ref_fields].
  destruct (ref_field_step hd L max dyn (b :: out)) as [[[f d] rest]|] eqn:E; [|discriminate].
  intros _. eapply field_not_update. exact E.
Qed.

Lemma ref_block_fields (L : nat) lim fuel dyn max out fs dyn' :
  (forall fuel', (List.length out <= fuel')%nat -> ref_fields hd L max fuel' dyn out = Some (fs, dyn')) ->
  (List.length out < fuel)%nat ->
  ref_block hd L lim fuel dyn max out = Some (fs, dyn', max).
Proof.
  intros H Hf. destruct fuel as [|fuel]; [lia|]. cbn [ref_block].
  pose proof (H (S fuel) ltac:(lia)) as H1.
  rewrite (ref_fields_not_update L L max fuel dyn lim out _ H1). rewrite H1. reflexivity.
Qed.

Lemma ref_block_update (L : nat) lim fuel dyn max v rest :
  (4 <= L)%nat -> v <= lim -> v <= 4096 ->
  ref_block hd L lim (S fuel) dyn max (enc_size_update v ++ rest)
  = ref_block hd L lim fuel (evict_to v dyn) v rest.
Proof.
  intros HL Hv H4. cbn [ref_block].
  rewrite rep_size_update; [reflexivity|assumption|assumption|change (2 ^ 28) with 268435456; lia].
Qed.

Lemma ref_update_step_update (L : nat) lim v rest :
  (4 <= L)%nat -> v <= lim -> v <= 4096 ->
  ref_update_step L lim (enc_size_update v ++ rest) = Some (v, rest).
Proof.
  intros. apply rep_size_update; [assumption|assumption|change (2 ^ 28) with 268435456; lia].
Qed.

(* encoder and reference decoder between two blocks *)
Definition sync (st : enc_state) (rs : rstate) : Prop :=
  einv st /\ e_size_update st = None /\ r_dyn rs = et_entries (e_table st) /\
  r_max rs = et_max (e_table st) /\ et_max (e_table st) <= r_limit rs.

(* wf-free: what `encode` does to the invariant *)
Lemma enc_encode_inv st fl : einv st ->
  (exists st2 out, enc_encode st fl = EOk (st2, out) /\ einv st2 /\ e_size_update st2 = None /\
                   et_max (e_table st2) = final_target st) \/
  enc_encode st fl = EFail NoPreviousName.
Proof.
  intros (Ht & H4 & Ha & Hp). unfold enc_encode, encode_size_updates, final_target, pend_le in *.
  destruct (e_size_update st) as [[v|mn v]|].
  - rewrite (table_resize_spec _ v Ht). cbn [e_table e_max_allowed].
    destruct (encode_loop_inv fl (rsz (e_table st) v) None (tinv_rsz _ _)) as [(t2 & o & Hl & Ht2 & Hm2)|Hf];
      rewrite ?Hl, ?Hf; [left|right; reflexivity].
    eexists _, _. split; [reflexivity|]. unfold einv, pend_le. cbn [e_table e_max_allowed e_size_update rsz et_max] in *.
    repeat split; try apply Ht2; auto; lia.
  - destruct Hp as [Hp1 Hp2]. rewrite (table_resize_spec _ mn Ht).
    rewrite (table_resize_spec _ v (tinv_rsz _ _)). cbn [e_table e_max_allowed].
    destruct (encode_loop_inv fl (rsz (rsz (e_table st) mn) v) None (tinv_rsz _ _)) as [(t2 & o & Hl & Ht2 & Hm2)|Hf];
      rewrite ?Hl, ?Hf; [left|right; reflexivity].
    eexists _, _. split; [reflexivity|]. unfold einv, pend_le. cbn [e_table e_max_allowed e_size_update rsz et_max] in *.
    repeat split; try apply Ht2; auto; lia.
  - destruct (encode_loop_inv fl (e_table st) None Ht) as [(t2 & o & Hl & Ht2 & Hm2)|Hf];
      rewrite ?Hl, ?Hf; [left|right; reflexivity].
    eexists _, _. split; [reflexivity|]. unfold einv, pend_le. cbn [e_table e_max_allowed e_size_update].
    repeat split; try apply Ht2; auto; lia.
Qed.

Lemma sync_after (t2 : enc_table) (v lim allowed : N) :
  tinv t2 -> et_max t2 = v -> v <= 4096 -> v <= lim -> allowed = 4096 ->
  sync (mkEnc t2 allowed None) (mk_rstate (et_entries t2) v lim).
Proof.
  intros Ht Hm H4 Hl Ha. unfold sync, einv, pend_le.
  cbn [e_table e_max_allowed e_size_update r_dyn r_max r_limit].
  repeat split; try apply Ht; auto; lia.
Qed.

(* one block: the encoder's octets, read by the reference decoder (RFC clause 4.2 included) *)
Lemma block_roundtrip (L : nat) st rs ups fl :
  (4 <= L)%nat -> sync st rs -> block_ok fl = true ->
  exists st2 out rs2,
    enc_encode (fold_left enc_update_max_size ups st) fl = EOk (st2, out) /\
    rfc_ref_decode_block hd L (last_limit rs ups) out = Some (submitted fl, rs2) /\
    sync st2 rs2.
Proof.
  intros HL (Hi & Hnone & Hdyn & Hmax & Hlim) Hok.
  unfold block_ok in Hok. apply andb_true_iff in Hok. destruct Hok as [Hnamed Hfields].
  assert (Hp0 : pend_ok st (r_limit rs)) by (unfold pend_ok; rewrite Hnone; exact Hlim).
  destruct (fold_upd_inv ups st (r_limit rs) Hi Hp0) as (Hi1 & Hp1 & Htab).
  rewrite last_limit_spec.
  remember (fold_left enc_update_max_size ups st) as st1 eqn:Est1.
  remember (last ups (r_limit rs)) as lim eqn:Elim.
  destruct Hi1 as (Ht1 & H41 & Ha1 & Hle1).
  rewrite Hdyn, Hmax, <- Htab.
  unfold enc_encode, encode_size_updates, rfc_ref_decode_block, ref_reduction_signalled, ref_decode_block.
  cbn [r_limit r_dyn r_max].
  unfold pend_ok, pend_le, submitted in *.
  destruct (e_size_update st1) as [[v|mn v]|] eqn:Esu.
  - (* One v *)
    rewrite (table_resize_spec _ v Ht1). cbn [e_table e_max_allowed].
    destruct (encode_loop_decode L HL fl (rsz (e_table st1) v) None [] (tinv_rsz _ _) Hle1 Hfields I (fun _ => Hnamed))
      as (t2 & out & Hloop & Ht2 & Hm2 & Hdec).
    cbn [rsz et_max et_entries] in Hm2, Hdec.
    rewrite Hloop. eexists _, _, _. split; [reflexivity|].
    rewrite (ref_update_step_update L lim v out HL Hp1 Hle1). rewrite orb_true_r.
    rewrite (ref_block_update L lim _ _ _ v out HL Hp1 Hle1).
    rewrite (ref_block_fields L lim _ _ v out _ _ Hdec).
    + split; [reflexivity|]. apply sync_after; auto.
    + rewrite app_length. pose proof (enc_size_update_len v). lia.
  - (* Two mn v *)
    destruct Hp1 as [Hmv Hvl]. destruct Hle1 as [Hmn4 Hv4].
    rewrite (table_resize_spec _ mn Ht1). rewrite (table_resize_spec _ v (tinv_rsz _ _)).
    cbn [e_table e_max_allowed].
    destruct (encode_loop_decode L HL fl (rsz (rsz (e_table st1) mn) v) None [] (tinv_rsz _ _) Hv4 Hfields I (fun _ => Hnamed))
      as (t2 & out & Hloop & Ht2 & Hm2 & Hdec).
    cbn [rsz et_max et_entries] in Hm2, Hdec.
    rewrite Hloop. eexists _, _, _. split; [reflexivity|].
    rewrite <- app_assoc.
    rewrite (ref_update_step_update L lim mn _ HL ltac:(lia) Hmn4). rewrite orb_true_r.
    rewrite (ref_block_update L lim _ _ _ mn _ HL ltac:(lia) Hmn4).
    assert (Hlen : (List.length (enc_size_update mn ++ enc_size_update v ++ out)
                    = S (Nat.pred (List.length (enc_size_update mn)) + List.length (enc_size_update v ++ out)))%nat).
    { rewrite app_length. pose proof (enc_size_update_len mn). lia. }
    rewrite Hlen. cbn [Nat.add].
    assert (Hmore : forall k fuel, ref_block hd L lim (S (k + fuel)) (evict_to mn (et_entries (e_table st1))) mn
                      (enc_size_update v ++ out)
                    = ref_block hd L lim (k + fuel) (evict_to v (evict_to mn (et_entries (e_table st1)))) v out).
    { intros k fuel. apply ref_block_update; assumption. }
    rewrite Hmore.
    rewrite (ref_block_fields L lim _ _ v out _ _ Hdec).
    + split; [reflexivity|]. apply sync_after; auto.
    + rewrite app_length. pose proof (enc_size_update_len v). lia.
  - (* no update pending *)
    destruct (encode_loop_decode L HL fl (e_table st1) None [] Ht1 H41 Hfields I (fun _ => Hnamed))
      as (t2 & out & Hloop & Ht2 & Hm2 & Hdec).
    rewrite Hloop. eexists _, _, _. split; [reflexivity|]. cbn [app].
    replace (et_max (e_table st1) <=? lim) with true by (symmetry; apply N.leb_le; exact Hp1).
    cbn [orb].
    rewrite (ref_block_fields L lim _ _ _ out _ _ Hdec); [|lia].
    split; [reflexivity|]. apply sync_after; auto.
Qed.

(* ====================================================================================== *)
(* I. histories: the property theorems *)

(* a history: per block the values given to update_max_size before it (= the peer's
   SETTINGS_HEADER_TABLE_SIZE values, in order) and the header list submitted *)
Definition history : Type := list (list N * list field_in).

Fixpoint enc_run (st : enc_state) (h : history) : eres (enc_state * list (list N)) :=
  match h with
  | [] => EOk (st, [])
  | (ups, fl) :: h' =>
    match enc_encode (fold_left enc_update_max_size ups st) fl with
    | EFail e => EFail e
    | EOk (st1, out) =>
      match enc_run st1 h' with
      | EFail e => EFail e
      | EOk (st2, outs) => EOk (st2, out :: outs)
      end
    end
  end.

(* the peer: the reference decoder, told the same limits, fed the blocks in order;
   RFC 7541 4.2 (a reduction has to be signalled) is part of [rfc_ref_decode_block] *)
Fixpoint dec_run (L : nat) (rs : rstate) (h : history) (outs : list (list N))
  : option (list (list (list N * list N))) :=
  match h, outs with
  | [], [] => Some []
  | (ups, _) :: h', out :: outs' =>
    match rfc_ref_decode_block huff_decode_opt L (last_limit rs ups) out with
    | Some (fs, rs') =>
      match dec_run L rs' h' outs' with
      | Some r => Some (fs :: r)
      | None => None
      end
    | None => None
    end
  | _, _ => None
  end.

Definition history_ok (h : history) : bool := forallb (fun b => block_ok (snd b)) h.

Lemma run_roundtrip (L : nat) : (4 <= L)%nat -> forall h st rs,
  sync st rs -> history_ok h = true ->
  exists st' outs, enc_run st h = EOk (st', outs) /\
    dec_run L rs h outs = Some (map (fun b => submitted (snd b)) h).
Proof.
  intros HL. induction h as [|[ups fl] h IH]; intros st rs Hs Hok.
  - exists st, []. auto.
  - cbn [history_ok forallb snd] in Hok. apply andb_true_iff in Hok. destruct Hok as [Hb Hok].
    destruct (block_roundtrip L st rs ups fl HL Hs Hb) as (st2 & out & rs2 & Henc & Hdec & Hs2).
    destruct (IH st2 rs2 Hs2 Hok) as (st' & outs & Hrun & Hd).
    exists st', (out :: outs). cbn [enc_run dec_run map snd]. rewrite Henc, Hrun, Hdec, Hd. auto.
Qed.

Lemma sync_init m0 : sync (enc_new m0) (rstate_init (N.min m0 4096)).
Proof.
  unfold sync, einv, tinv, pend_le, enc_new, table_new, rstate_init, DEFAULT_MAX_ALLOWED_SIZE.
  cbn [e_table e_max_allowed e_size_update et_size et_entries et_max r_dyn r_max r_limit table_size].
  repeat split; lia.
Qed.

(* C10, round trip *)
Theorem enc_roundtrip : forall (L : nat) (m0 : N) (h : history),
  (4 <= L)%nat -> history_ok h = true ->
  exists st outs,
    enc_run (enc_new m0) h = EOk (st, outs) /\
    dec_run L (rstate_init (N.min m0 4096)) h outs = Some (map (fun b => submitted (snd b)) h).
Proof. intros L m0 h HL Hok. apply run_roundtrip; [assumption|apply sync_init|assumption]. Qed.

(* ---- wf-free facts about every history ---- *)

Lemma einv_init m0 : einv (enc_new m0) /\ pend_ok (enc_new m0) m0.
Proof.
  unfold einv, tinv, pend_le, pend_ok, enc_new, table_new, DEFAULT_MAX_ALLOWED_SIZE.
  cbn [e_table e_max_allowed e_size_update et_size et_entries et_max table_size].
  repeat split; lia.
Qed.

Definition allowed (m0 : N) (h : history) : N := last (concat (map fst h)) m0.

Lemma run_inv : forall h st lim,
  einv st -> pend_ok st lim -> e_size_update st = None ->
  match enc_run st h with
  | EOk (st', _) => einv st' /\ pend_ok st' (last (concat (map fst h)) lim) /\ e_size_update st' = None
  | EFail e => e = NoPreviousName
  end.
Proof.
  induction h as [|[ups fl] h IH]; intros st lim Hi Hp Hn; cbn [enc_run map fst concat].
  - cbn [last]. auto.
  - destruct (fold_upd_inv ups st lim Hi Hp) as (Hi1 & Hp1 & Htab).
    destruct (enc_encode_inv _ fl Hi1) as [(st2 & out & Henc & Hi2 & Hn2 & Hm2)|Hf]; [|rewrite Hf; reflexivity].
    rewrite Henc.
    assert (Hp2 : pend_ok st2 (last ups lim)).
    { unfold pend_ok. rewrite Hn2, Hm2. apply pend_ok_target. exact Hp1. }
    specialize (IH st2 (last ups lim) Hi2 Hp2 Hn2).
    destruct (enc_run st2 h) as [[st' outs]|e]; [|exact IH].
    rewrite last_app. exact IH.
Qed.

(* C10: the only way `encode` can fail is the documented panic for a leading nameless field *)
Theorem enc_never_panics : forall (m0 : N) (h : history) (e : fail),
  enc_run (enc_new m0) h = EFail e -> e = NoPreviousName.
Proof.
  intros m0 h e H. destruct (einv_init m0) as [Hi Hp].
  pose proof (run_inv h (enc_new m0) m0 Hi Hp eq_refl) as Hr. rewrite H in Hr. exact Hr.
Qed.

(* C10: the table never exceeds what the peer allowed.  [allowed m0 h] is the last value given
   to update_max_size in the history (the initial size when there was none). *)
Theorem enc_table_bound : forall (m0 : N) (h : history) st outs,
  enc_run (enc_new m0) h = EOk (st, outs) ->
  table_size (et_entries (e_table st)) = et_size (e_table st) /\
  et_size (e_table st) <= et_max (e_table st) /\
  et_max (e_table st) <= allowed m0 h /\
  et_max (e_table st) <= 4096.
Proof.
  intros m0 h st outs H. destruct (einv_init m0) as [Hi Hp].
  pose proof (run_inv h (enc_new m0) m0 Hi Hp eq_refl) as Hr. rewrite H in Hr.
  destruct Hr as (([Hs Hm] & H4 & Ha & Hle) & Hpend & Hnone). unfold allowed.
  unfold pend_ok in Hpend. rewrite Hnone in Hpend. repeat split; try lia.
Qed.

(* ---- reductions are signalled: minimum first, then the final value ---- *)

(* update_max_size caps its argument *)
Definition capv (st : enc_state) (u : N) : N := N.min u (e_max_allowed st).

(* [lo] / [fin]: minimum / last of the capped values given since the last block *)
Definition pend_spec (tmax lo fin : N) (su : option size_update) : Prop :=
  lo <= fin /\
  match su with
  | None => lo = tmax /\ fin = tmax
  | Some (One x) => x = fin /\ (lo = x \/ tmax <= lo)
  | Some (Two mn x) => x = fin /\ mn = lo /\ mn <= tmax /\ mn <= x
  end.

Lemma upd_spec0 st u : e_size_update st = None ->
  pend_spec (et_max (e_table st)) (capv st u) (capv st u) (e_size_update (enc_update_max_size st u)).
Proof.
  intros Hn. unfold pend_spec, enc_update_max_size, capv. rewrite Hn.
  destruct (N.min u (e_max_allowed st) =? et_max (e_table st)) eqn:E; cbn [negb e_size_update].
  - apply N.eqb_eq in E. rewrite Hn. lia.
  - lia.
Qed.

Lemma upd_spec st lo fin u :
  pend_spec (et_max (e_table st)) lo fin (e_size_update st) ->
  pend_spec (et_max (e_table st)) (N.min lo (capv st u)) (capv st u)
            (e_size_update (enc_update_max_size st u)).
Proof.
  unfold pend_spec, enc_update_max_size, capv. intros [Hlf H].
  destruct (e_size_update st) as [[old|mn mx]|] eqn:E0.
  - destruct H as [-> H].
    destruct (fin <? N.min u (e_max_allowed st)) eqn:E1;
      [destruct (et_max (e_table st) <? fin) eqn:E2|]; cbn [e_size_update];
      rewrite ?N.ltb_lt, ?N.ltb_ge in *; lia.
  - destruct H as (-> & -> & H1 & H2).
    destruct (N.min u (e_max_allowed st) <? lo) eqn:E1; cbn [e_size_update];
      rewrite ?N.ltb_lt, ?N.ltb_ge in *; lia.
  - destruct H as [-> ->].
    destruct (N.min u (e_max_allowed st) =? et_max (e_table st)) eqn:E1; cbn [negb e_size_update].
    + apply N.eqb_eq in E1. rewrite E0. lia.
    + apply N.eqb_neq in E1. lia.
Qed.

Lemma fold_spec : forall ups st lo fin,
  pend_spec (et_max (e_table st)) lo fin (e_size_update st) ->
  pend_spec (et_max (e_table st)) (fold_left N.min (map (capv st) ups) lo)
            (last (map (capv st) ups) fin)
            (e_size_update (fold_left enc_update_max_size ups st)) /\
  e_table (fold_left enc_update_max_size ups st) = e_table st /\
  e_max_allowed (fold_left enc_update_max_size ups st) = e_max_allowed st.
Proof.
  induction ups as [|u ups IH]; intros st lo fin H; cbn [fold_left map]; [auto|].
  pose proof (upd_spec st lo fin u H) as H1.
  rewrite <- (upd_table st u) in H1.
  destruct (IH _ _ _ H1) as (H2 & H3 & H4).
  assert (Hc : forall x, capv (enc_update_max_size st u) x = capv st x).
  { intros x. unfold capv. rewrite upd_allowed. reflexivity. }
  rewrite (map_ext _ _ Hc) in H2. rewrite upd_table in H2. rewrite last_cons.
  rewrite H3, H4, upd_table, upd_allowed. auto.
Qed.

Theorem enc_reduction_signalled : forall st u ups fl st2 out,
  tinv (e_table st) -> e_size_update st = None ->
  let vs := map (capv st) ups in
  let lo := fold_left N.min vs (capv st u) in
  let fin := last vs (capv st u) in
  lo < et_max (e_table st) ->
  enc_encode (fold_left enc_update_max_size (u :: ups) st) fl = EOk (st2, out) ->
  exists t1 rest,
    (out = enc_size_update lo ++ rest \/ out = enc_size_update lo ++ enc_size_update fin ++ rest) /\
    (lo <> fin -> out = enc_size_update lo ++ enc_size_update fin ++ rest) /\
    et_max t1 = fin /\ encode_loop t1 None fl = EOk (e_table st2, rest) /\
    et_max (e_table st2) = fin.
Proof.
  intros st u ups fl st2 out Ht Hn vs lo fin Hlo Henc. cbn [fold_left] in Henc.
  pose proof (upd_spec0 st u Hn) as H0. rewrite <- (upd_table st u) in H0.
  destruct (fold_spec ups _ _ _ H0) as (Hspec & Htab & Hall).
  assert (Hc : forall x, capv (enc_update_max_size st u) x = capv st x).
  { intros x. unfold capv. rewrite upd_allowed. reflexivity. }
  rewrite (map_ext _ _ Hc) in Hspec. rewrite upd_table in Hspec, Htab.
  fold vs in Hspec. fold lo in Hspec. fold fin in Hspec.
  remember (fold_left enc_update_max_size ups (enc_update_max_size st u)) as st1 eqn:Est1.
  assert (Ht1 : tinv (e_table st1)) by (rewrite Htab; exact Ht).
  unfold enc_encode, encode_size_updates in Henc. unfold pend_spec in Hspec.
  destruct Hspec as [Hlf Hspec].
  destruct (e_size_update st1) as [[x|mn x]|].
  - destruct Hspec as [-> Hx]. assert (Hlx : lo = fin) by lia.
    rewrite (table_resize_spec _ fin Ht1) in Henc. cbn [e_table e_max_allowed] in Henc.
    destruct (encode_loop_inv fl (rsz (e_table st1) fin) None (tinv_rsz _ _)) as [(t2 & o & Hl & Ht2 & Hm2)|Hf];
      [rewrite Hl in Henc|rewrite Hf in Henc; discriminate].
    inversion Henc; subst st2 out. clear Henc.
    exists (rsz (e_table st1) fin), o. cbn [e_table rsz et_max] in *.
    rewrite Hlx. split; [left; reflexivity|]. split; [congruence|]. auto.
  - destruct Hspec as (-> & -> & Hm1 & Hm2).
    rewrite (table_resize_spec _ lo Ht1) in Henc.
    rewrite (table_resize_spec _ fin (tinv_rsz _ _)) in Henc. cbn [e_table e_max_allowed] in Henc.
    destruct (encode_loop_inv fl (rsz (rsz (e_table st1) lo) fin) None (tinv_rsz _ _)) as [(t2 & o & Hl & Ht2 & Hm3)|Hf];
      [rewrite Hl in Henc|rewrite Hf in Henc; discriminate].
    inversion Henc; subst st2 out. clear Henc.
    exists (rsz (rsz (e_table st1) lo) fin), o. cbn [e_table rsz et_max] in *.
    rewrite <- app_assoc. auto.
  - destruct Hspec as [Hl1 Hl2]. lia.
Qed.

(* ---- framing ---- *)

(* how a block was cut into HEADERS / CONTINUATION fragments is invisible to the decoder: it
   only ever sees the concatenation (the framing itself is property C12) *)
Theorem split_irrelevant :
  forall (hdf : list N -> option (list N)) (L : nat) (rs : rstate) (frags : list (list N)) (block : list N),
  concat frags = block ->
  ref_decode_block hdf L rs (concat frags) = ref_decode_block hdf L rs block.
Proof. intros hdf L rs frags block ->. reflexivity. Qed.

(* ---- sensitive headers ---- *)

(* a sensitive header (HeaderValue::set_sensitive) never changes the dynamic table *)
Theorem sensitive_not_inserted : forall t h,
  tinv t -> hdr_is_sensitive h = true ->
  exists idx octets, table_index t h = EOk (t, idx) /\ encode_header idx h = EOk octets.
Proof.
  intros t h Ht Hs. destruct (table_index_ok t h Ht) as (t' & idx & octets & H1 & H2 & _ & _ & H5).
  rewrite (H5 Hs) in H1. eauto.
Qed.

(* ---- the hypotheses are satisfiable, the conclusions are not vacuous ---- *)

Local Open Scope string_scope.

Definition demo_history : history :=
  [ ([], [FI (Some (bstr ":method")) (bstr "GET") false;
          FI (Some (bstr ":path")) (bstr "/index.php") false;
          FI (Some (bstr "x-custom")) (bstr "one") false;
          FI None (bstr "two") false;
          FI (Some (bstr "authorization")) (bstr "secret") true;
          FI (Some (bstr "x-token")) (bstr "hunter2") true]);
    ([100; 4096], [FI (Some (bstr "x-custom")) (bstr "one") false;
                   FI (Some (bstr "x-custom")) (bstr "three") false;
                   FI (Some (bstr "accept")) (bstr "") false]);
    ([0], [FI (Some (bstr "x-custom")) (bstr "one") false]) ].

Example demo_history_ok : history_ok demo_history = true.
Proof. vm_compute. reflexivity. Qed.

Example demo_roundtrip :
  history_ok demo_history = true /\
  match enc_run (enc_new 4096) demo_history with
  | EOk (_, outs) =>
    dec_run 4 (rstate_init 4096) demo_history outs
    = Some (map (fun b => submitted (snd b)) demo_history) /\
    map (fun o => hd_error o) outs = [Some 130; Some 63; Some 32]
  | EFail _ => False
  end.
Proof. vm_compute. auto. Qed.

Example demo_reduction :
  let st := enc_new 4096 in
  tinv (e_table st) /\ e_size_update st = None /\
  fold_left N.min (map (capv st) [4096]) (capv st 100) < et_max (e_table st) /\
  exists st2 out, enc_encode (fold_left enc_update_max_size [100; 4096] st)
                             [FI (Some (bstr "a")) (bstr "b") false] = EOk (st2, out).
Proof.
  cbv zeta. split; [split; vm_compute; [reflexivity|discriminate]|].
  split; [reflexivity|]. split; [vm_compute; reflexivity|].
  eexists _, _. vm_compute. reflexivity.
Qed.
