(* Proofs about the HPACK encoder model (Model/HpackEnc.v) against the RFC 7541 reference decoder
   (Ref/Rfc7541Block.v), property C10.

   Main results (restated in Properties/C10.v):
     enc_roundtrip          C10_roundtrip            every history of (update_max_size calls, header
                                                     lists) decodes, block by block, through the
                                                     reference decoder to the submitted lists
     enc_never_panics       C10_never_panics         only the "nameless first field" panic is reachable
     enc_table_bound        C10_table_bound          size <= max_size <= last value allowed
     enc_reduction_signalled C10_reduction_signalled min first, then the final value
     split_irrelevant       C10_split
     sensitive_not_inserted C10_sensitive_never_indexed
   Depends on Model/Huffman.v and on [huff_roundtrip] of Proofs/HuffmanProofs.v only. *)
From Coq Require Import String.
From H2V Require Import Base.Tac Base.Bytes Gen.StaticTable Model.HttpTokens Model.Huffman.
From H2V Require Import Ref.Rfc7541Int Ref.Rfc7541Static Ref.Rfc7541Block.
From H2V Require Import Model.HpackEnc Proofs.HuffmanProofs.
Local Open Scope N_scope.

(* ====================================================================================== *)
(* A. integers *)

Lemma pow2_pos k : 0 < 2 ^ k.
Proof. apply N.neq_0_lt_0, N.pow_nonzero. lia. Qed.

Lemma lor_add a b k : a mod 2 ^ k = 0 -> b < 2 ^ k -> N.lor a b = a + b.
Proof.
  intros Ha Hb.
  assert (Hl : N.land a b = 0).
  { apply N.bits_inj; intro n. rewrite N.land_spec, N.bits_0.
    destruct (N.lt_ge_cases n k) as [Hn|Hn].
    - assert (Hd : a = 2 ^ k * (a / 2 ^ k)).
      { pose proof (N.div_mod a (2 ^ k)) as H. rewrite Ha, N.add_0_r in H. apply H.
        apply N.pow_nonzero. lia. }
      rewrite Hd, N.mul_comm, N.mul_pow2_bits_low by assumption. reflexivity.
    - rewrite <- (N.mod_small b (2 ^ k)) by assumption.
      rewrite N.mod_pow2_bits_high by assumption. apply andb_false_r. }
  rewrite <- N.lxor_lor by assumption. symmetry. apply N.add_nocarry_lxor. assumption.
Qed.

Lemma lor_hi hi p x : x < 2 ^ p -> N.lor (hi * 2 ^ p) x = hi * 2 ^ p + x.
Proof.
  intros Hx. apply lor_add with (k := p); [|assumption].
  apply N.mod_mul, N.pow_nonzero. lia.
Qed.

Lemma lor_128 x : x < 256 -> N.lor 128 x = 128 + x mod 128.
Proof.
  intros Hx. destruct (N.lt_ge_cases x 128) as [Hl|Hg].
  - rewrite (lor_add 128 x 7); [|reflexivity|exact Hl]. rewrite N.mod_small by assumption. reflexivity.
  - assert (Hy : x = 128 + (x - 128)) by lia.
    assert (Hm : x mod 128 = x - 128).
    { symmetry. apply (N.mod_unique x 128 1); lia. }
    rewrite Hm. rewrite Hy at 1.
    rewrite <- (lor_add 128 (x - 128) 7); [|reflexivity|change (2 ^ 7) with 128; lia].
    rewrite N.lor_assoc, N.lor_diag. reflexivity.
Qed.

Lemma log2_div128 v : 128 <= v -> N.log2 (v / 128) < N.log2 v.
Proof.
  intros Hv. change 128 with (2 ^ 7). rewrite <- N.shiftr_div_pow2, N.log2_shiftr.
  assert (7 <= N.log2 v). { change 7 with (N.log2 128). apply N.log2_le_mono. assumption. }
  lia.
Qed.

Lemma cont_roundtrip : forall (L : nat) v fuel rest,
  v < 128 ^ N.of_nat L -> (N.to_nat (N.log2 v) < fuel)%nat -> (1 <= L)%nat ->
  ref_decode_cont L (enc_int_cont fuel v ++ rest) = Some (v, rest).
Proof.
  induction L as [|L IH]; intros v fuel rest Hv Hf HL; [lia|].
  destruct fuel as [|fuel]; [lia|].
  cbn [enc_int_cont].
  destruct (128 <=? v) eqn:E.
  - apply N.leb_le in E.
    assert (Hb : N.lor 128 (v mod 256) = 128 + v mod 128).
    { rewrite lor_128 by (apply N.mod_lt; lia).
      f_equal. lia. }
    rewrite Hb. cbn [app ref_decode_cont].
    assert (Hm : v mod 128 < 128) by (apply N.mod_lt; lia).
    replace (128 + v mod 128 <? 128) with false by (symmetry; apply N.ltb_ge; lia).
    replace (128 + v mod 128 <? 256) with true by (symmetry; apply N.ltb_lt; lia).
    assert (Hq : v / 128 < 128 ^ N.of_nat L).
    { apply N.div_lt_upper_bound; [lia|].
      rewrite Nnat.Nat2N.inj_succ, N.pow_succ_r' in Hv. exact Hv. }
    assert (HL' : (1 <= L)%nat).
    { destruct L as [|L']; [|lia]. cbn in Hq. assert (1 <= v / 128) by (apply N.div_le_lower_bound; lia). lia. }
    rewrite IH; [| exact Hq | | exact HL'].
    + f_equal. f_equal. pose proof (N.div_mod v 128). lia.
    + pose proof (log2_div128 v E). lia.
  - apply N.leb_gt in E. cbn [app ref_decode_cont].
    replace (v <? 128) with true by (symmetry; apply N.ltb_lt; lia). reflexivity.
Qed.

(* the first octet of an integer: pattern bits above, value bits (< 2^p) below *)
Lemma enc_int_head v p hi :
  exists x tl, enc_int v p (hi * 2 ^ p) = (hi * 2 ^ p + x) :: tl /\ x < 2 ^ p.
Proof.
  unfold enc_int, encode_int_one_byte. pose proof (pow2_pos p) as Hp.
  destruct (v <? 2 ^ p - 1) eqn:E.
  - apply N.ltb_lt in E. exists v, []. rewrite lor_hi by lia. split; [reflexivity|lia].
  - exists (2 ^ p - 1), (enc_int_cont (S (N.to_nat (N.log2 (v - (2 ^ p - 1))))) (v - (2 ^ p - 1))).
    rewrite lor_hi by lia. split; [reflexivity|lia].
Qed.

Lemma enc_int_decode (L : nat) p hi v rest :
  (1 <= L)%nat -> v < 128 ^ N.of_nat L ->
  ref_decode_int L p (enc_int v p (hi * 2 ^ p) ++ rest) = Some (v, rest).
Proof.
  intros HL Hv. unfold enc_int, encode_int_one_byte. pose proof (pow2_pos p) as Hp.
  assert (Hnz : 2 ^ p <> 0) by lia.
  destruct (v <? 2 ^ p - 1) eqn:E.
  - apply N.ltb_lt in E. rewrite lor_hi by lia. cbn [app ref_decode_int].
    rewrite N.add_comm, N.mod_add by assumption. rewrite N.mod_small by lia.
    replace (v <? 2 ^ p - 1) with true by (symmetry; apply N.ltb_lt; assumption). reflexivity.
  - apply N.ltb_ge in E. rewrite lor_hi by lia. cbn [app ref_decode_int].
    rewrite N.add_comm, N.mod_add by assumption. rewrite N.mod_small by lia.
    replace (2 ^ p - 1 <? 2 ^ p - 1) with false by (symmetry; apply N.ltb_irrefl).
    rewrite cont_roundtrip; [| lia | lia | exact HL].
    f_equal. f_equal. lia.
Qed.

(* 128^L for the limits of interest *)
Lemma pow128_ge (L : nat) : (4 <= L)%nat -> 2 ^ 28 <= 128 ^ N.of_nat L.
Proof.
  intros HL. change (2 ^ 28) with (128 ^ 4).
  apply N.pow_le_mono_r; lia.
Qed.

(* ====================================================================================== *)
(* B. strings *)

Lemma lenb_app a b : lenb (a ++ b) = lenb a + lenb b.
Proof. unfold lenb. rewrite app_length. lia. Qed.

Lemma lenb_cons x l : lenb (x :: l) = 1 + lenb l.
Proof. unfold lenb. cbn [List.length]. lia. Qed.

Lemma split_at_app : forall (a rest : list N), split_at (lenb a) (a ++ rest) = Some (a, rest).
Proof.
  induction a as [|x a IH]; intros rest.
  - destruct rest; reflexivity.
  - rewrite lenb_cons. cbn [app split_at].
    replace (1 + lenb a =? 0) with false by (symmetry; apply N.eqb_neq; lia).
    replace (1 + lenb a - 1) with (lenb a) by lia. rewrite IH. reflexivity.
Qed.

Lemma enc_flush_len : forall fuel bits left put bits' left',
  enc_flush fuel bits left = Some (put, bits', left') -> (List.length put <= fuel)%nat.
Proof.
  induction fuel as [|fuel IH]; intros bits left put bits' left' H; cbn [enc_flush] in H.
  - destruct (32 <? left); [|discriminate]. inversion H; subst. cbn. lia.
  - destruct (32 <? left).
    + inversion H; subst. cbn. lia.
    + destruct (enc_flush fuel (bits * 256 mod 2 ^ 64) (left + 8)) as [[[p b] l]|] eqn:E; [|discriminate].
      inversion H; subst. apply IH in E. cbn [List.length]. lia.
Qed.

Lemma enc_loop_len : forall src bits left out,
  enc_loop bits left src = Some out -> (List.length out <= 6 * List.length src + 1)%nat.
Proof.
  induction src as [|b src IH]; intros bits left out H; cbn [enc_loop] in H.
  - destruct (left =? 40); [inversion H; subst; cbn; lia|].
    destruct (64 <=? left); [discriminate|]. inversion H; subst. cbn. lia.
  - destruct (nth_error _ (N.to_nat b)) as [[nbits code]|]; [|discriminate].
    destruct (left <? nbits); [discriminate|].
    destruct (64 <=? left - nbits); [discriminate|].
    destruct (enc_flush flush_fuel _ _) as [[[put bits'] left']|] eqn:Ef; [|discriminate].
    destruct (enc_loop bits' left' src) as [rest|] eqn:El; [|discriminate].
    inversion H; subst. apply IH in El. apply enc_flush_len in Ef. unfold flush_fuel in Ef.
    rewrite app_length. cbn [List.length]. lia.
Qed.

Lemma huff_encode_len s : lenb (huff_encode s) <= 6 * lenb s + 1.
Proof.
  unfold huff_encode, huff_encode_opt. destruct (enc_loop 0 40 s) as [out|] eqn:E.
  - apply enc_loop_len in E. unfold lenb. lia.
  - unfold lenb. cbn. lia.
Qed.

(* a string the theorems speak about: octets, shorter than 16 MiB *)
Definition str_ok (s : list N) : bool := bytes_ok s && (lenb s <? 2 ^ 24).

Lemma str_ok_spec s : str_ok s = true -> bytes_ok s = true /\ lenb s < 2 ^ 24.
Proof. unfold str_ok. rewrite andb_true_iff, N.ltb_lt. auto. Qed.

Lemma huff_opt_roundtrip s : bytes_ok s = true -> huff_decode_opt (huff_encode s) = Some s.
Proof. intros H. unfold huff_decode_opt. rewrite huff_roundtrip by assumption. reflexivity. Qed.

Lemma enc_str_shape s :
  enc_str s = match s with
              | [] => [0]
              | _ :: _ => enc_int (lenb (huff_encode s)) 7 (1 * 2 ^ 7) ++ huff_encode s
              end.
Proof.
  destruct s as [|x s]; [reflexivity|]. unfold enc_str.
  destruct (encode_int_one_byte (lenb (huff_encode (x :: s))) 7) eqn:E; [|reflexivity].
  unfold enc_int. rewrite E. reflexivity.
Qed.

Lemma enc_str_decode (L : nat) s rest :
  (4 <= L)%nat -> str_ok s = true ->
  ref_string huff_decode_opt L (enc_str s ++ rest) = Some (s, rest).
Proof.
  intros HL Hs. apply str_ok_spec in Hs. destruct Hs as [Hb Hl].
  rewrite enc_str_shape. destruct s as [|x s].
  - cbn [app]. unfold ref_string, ref_decode_int.
    change (0 mod 2 ^ 7) with 0. change (0 <? 2 ^ 7 - 1) with true. cbv beta iota.
    change (split_at 0 rest) with (split_at (lenb []) ([] ++ rest)). rewrite split_at_app.
    reflexivity.
  - set (h := huff_encode (x :: s)) in *.
    destruct (enc_int_head (lenb h) 7 1) as (y & tl & Hhd & Hy).
    pose proof (huff_encode_len (x :: s)) as Hlen. fold h in Hlen.
    pose proof (pow128_ge L HL) as HP.
    assert (Hdec : ref_decode_int L 7 (enc_int (lenb h) 7 (1 * 2 ^ 7) ++ h ++ rest) = Some (lenb h, h ++ rest)).
    { apply enc_int_decode; [lia|]. change (2 ^ 28) with 268435456 in HP.
      change (2 ^ 24) with 16777216 in Hl. lia. }
    rewrite <- app_assoc. unfold ref_string. rewrite Hdec. rewrite Hhd. cbn [app].
    rewrite split_at_app.
    change (2 ^ 7) with 128 in *.
    replace ((1 * 128 + y) / 128 =? 0) with false by (symmetry; apply N.eqb_neq; lia).
    replace ((1 * 128 + y) / 128 =? 1) with true by (symmetry; apply N.eqb_eq; lia).
    unfold h. rewrite huff_opt_roundtrip by assumption. reflexivity.
Qed.
