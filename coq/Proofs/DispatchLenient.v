(* C09 at the dispatch layer: the classes where the faithful model is more lenient than RFC 9113 5.1 demands
   (Proofs/DispatchRecv.v `lenient`): closed witnesses.  Each satisfies every hypothesis of
   recv_conn_error_required except `lenient = false`, and the step does NOT end in a connection error. *)
From H2V Require Import Base.Tac Base.Bytes Model.StreamState Ref.Rfc9113Stream Proofs.StreamStateProofs
  Model.Dispatch Proofs.DispatchRecv.
Local Open Scope N_scope.

Definition mk_conn (ro : role) (slab : list (N * srec)) (ids : list (N * N)) (snext rnext : N) : conn :=
  mkC ro true true slab ids (Some snext) (Some rnext) MAX_ID MAX_ID None None.

Definition robs_ok : robs := mkR false true.
Definition wobs_ok : wobs := mkW false true true.
Definition pobs_ok : pobs := mkP true true true true.
Definition dobs_ok : dobs := mkD DOk true false true true true.
Definition hobs_ok : hobs := mkH true true HOk true true false.

(* what the reaction theorem would conclude *)
Definition reacts (st : conn) (l : label) : bool :=
  match step st l with
  | Ok _ outs => is_conn_error (result_of outs)
  | _ => true
  end.

Definition demands_conn_error (st : conn) (sid : N) (t : ftype) : bool :=
  match iget st sid with
  | Some (_, r) =>
    wf_shape (c_role st) sid r &&
    match receiver_must_for (is_local_init (c_role st) sid) (fst (pview (c_role st) r)) (snd (pview (c_role st) r)) t with
    | conn_error => true
    | _ => false
    end
  | None => false
  end.

(* L1: a server has promised stream 2, the PUSH_PROMISE is still queued (the peer cannot know the stream): the peer's
   RST_STREAM on it is accepted and resets the stream *)
Definition st_l1 : conn :=
  mk_conn Server [(1, mkS 1 (HalfClosedRemote Streaming) false false false [QPush 2] None);
                  (2, mkS 2 ReservedLocal false true false [] None)] [(1, 1); (2, 2)] 4 3.
Example lenient_promise_unsent :
  demands_conn_error st_l1 2 RST_STREAM = true /\ reacts st_l1 (LRecvReset 2 8 robs_ok) = false /\
  demands_conn_error st_l1 2 WINDOW_UPDATE = true /\ reacts st_l1 (LRecvWindowUpdate 2 wobs_ok) = false.
Proof. vm_compute. auto. Qed.

(* L2: a request reset by the application before it was sent (still waiting for a concurrency slot: idle for the peer):
   DATA on it is ignored *)
Definition st_l2 : conn :=
  mk_conn Client [(1, mkS 1 (Closed (CError (EReset 1 8 User))) true false true
                         [QHeaders false false; QReset 8] None)] [(1, 1)] 3 2.
Example lenient_reset_before_sent :
  demands_conn_error st_l2 1 DATA = true /\ reacts st_l2 (LRecvData 1 false dobs_ok) = false.
Proof. vm_compute. auto. Qed.

(* repaired by 28d67d9 (found with this model, replays corpus/dispatch/lenient_push_on_pending_open.json and
   lenient_reserved_remote.json): a PUSH_PROMISE on a request that has not been sent yet, on a request reset before it
   was sent, and on a stream that is itself pushed used to be accepted (the nested promise was reserved and parked where
   no API reaches it); now each is a connection error *)
Definition st_l3 : conn :=
  mk_conn Client [(1, mkS 1 (Open Streaming AwaitingHeaders) true false false [QHeaders false false] None)] [(1, 1)] 3 2.
Definition st_l5 : conn :=
  mk_conn Client [(2, mkS 2 ReservedRemote false false false [] None)] [(2, 2)] 1 4.
Example push_only_on_a_seen_request :
  demands_conn_error st_l3 1 PUSH_PROMISE = true /\ reacts st_l3 (LRecvPushPromise 1 2 pobs_ok 9) = true /\
  demands_conn_error st_l2 1 PUSH_PROMISE = true /\ reacts st_l2 (LRecvPushPromise 1 2 pobs_ok 9) = true /\
  demands_conn_error st_l5 2 PUSH_PROMISE = true /\ reacts st_l5 (LRecvPushPromise 2 4 pobs_ok 9) = true.
Proof. vm_compute. auto 10. Qed.

(* L4: HEADERS without END_STREAM on a stream this server has promised (reserved (local)) get a stream error where
   5.1 demands a connection error *)
Definition st_l4 : conn :=
  mk_conn Server [(2, mkS 2 ReservedLocal false false false [] None)] [(2, 2)] 4 3.
Example lenient_headers_on_reserved_local :
  demands_conn_error st_l4 2 HEADERS = true /\ reacts st_l4 (LRecvHeaders 2 false false hobs_ok 9) = false.
Proof. vm_compute. auto. Qed.

(* L5: on a stream the peer has promised (reserved (remote)) WINDOW_UPDATE is accepted *)
Example lenient_on_reserved_remote :
  demands_conn_error st_l5 2 WINDOW_UPDATE = true /\ reacts st_l5 (LRecvWindowUpdate 2 wobs_ok) = false.
Proof. vm_compute. auto. Qed.

(* the exclusion is needed: without it the reaction theorem is false *)
Theorem conn_error_required_refuted :
  ~ (forall st l sid t k r st' outs,
     recv_frame l = Some (sid, t) -> iget st sid = Some (k, r) -> c_recv_max st <? sid = false ->
     wf_shape (c_role st) sid r = true ->
     receiver_must_for (is_local_init (c_role st) sid) (fst (pview (c_role st) r)) (snd (pview (c_role st) r)) t = conn_error ->
     step st l = Ok st' outs ->
     is_conn_error (result_of outs) = true).
Proof.
  intros H.
  specialize (H st_l5 (LRecvWindowUpdate 2 wobs_ok) 2 WINDOW_UPDATE 2 (mkS 2 ReservedRemote false false false [] None)
                st_l5 [ORes ROk] eq_refl eq_refl eq_refl eq_refl eq_refl eq_refl).
  vm_compute in H. discriminate.
Qed.

(* The repaired defect 60d7633.  Before it, the arm of Inner::recv_push_promise for a locally reset parent (repair
   631577b) refused the promised stream BEFORE looking at the promised identifier: *)
Definition old_refusal_arm (st : conn) (promised : N) : outcome :=
  if negb (c_push_local st) then res1 st [] (RErr conn_proto)
  else res1 st [ORxRefused promised] (RErr (lib_reset promised CANCEL)).

Definition st_l6 : conn :=
  mk_conn Client [(1, mkS 1 (Closed (CError (EReset 1 8 User))) false false true [] None)] [(1, 1)] 3 2.

(* an identifier of the wrong parity, never used (idle, and one of OUR OWN), was answered with RST_STREAM on that idle
   stream, and Inner::send_reset moved our own next_stream_id past it; the repaired step ends the connection *)
Theorem push_refusal_fix_needed :
  (match old_refusal_arm st_l6 7 with
   | Ok st1 outs =>
     result_of outs = RErr (EReset 7 CANCEL Library) /\ not_idle st1 7 = false /\ is_local_init (c_role st1) 7 = true /\
     match step st1 (LPoll2Reset 7 CANCEL true true 9) with
     | Ok st2 outs2 => outs_queued outs2 = [(7, 3, false, false, CANCEL)] /\ c_send_next st2 = Some 9
     | _ => False
     end
   | _ => False
   end) /\
  (match step st_l6 (LRecvPushPromise 1 7 pobs_ok 9) with
   | Ok st1 outs => is_conn_error (result_of outs) = true /\ st1 = st_l6
   | _ => False
   end).
Proof. vm_compute. auto 10. Qed.
