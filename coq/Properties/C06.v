(* C06 -- progress: with a cooperating peer every operation completes (no lost wakeup).  Statements only
   (proofs: Proofs/WakeProofs.v, Proofs/ProgressProofs.v, Proofs/ProgressRecv.v, Proofs/RecvFlowRun.v).

   The temporal statement of the property ("eventually completes", over an unmodelled executor, transport and peer) is
   decomposed into statements that hold for ALL label sequences of the models:
     1. wake discipline as an invariant (no lost wakeup),
     2. enabledness of the connection task's work plus a strictly decreasing, bounded-below measure (no idle stall,
        no self-waking livelock inside the model),
     3. the repaired stalls: the pre-repair step violates 1/2, the current one satisfies them.
   What is not derived here: that enabled labels are eventually taken (that is the executor's fairness plus the
   cooperation of transport, peer and application -- explored on the real crate by the waker-only executor oracle). *)
From H2V Require Import Base.Tac Model.Wake Proofs.WakeProofs.
From H2V Require Model.SendFlow Proofs.SendFlowInv Proofs.ProgressProofs.
From H2V Require Model.RecvFlow Proofs.RecvFlowInv Proofs.RecvFlowRun Proofs.ProgressRecv.
Local Open Scope N_scope.

(* 1. NoLostWake.  In every run of the wake model in which no waker slot is used by two tasks at once: every task that
   was told to wait and whose wait is over (w_due) has a wake pending (w_woken); and every task that was told to wait
   either still has its waker stored in the slot or has a wake pending. *)
Theorem C06_no_lost_wake :
  forall (ls : list wlabel) (st : wstate),
  wrun_nodisp notify_of winit ls = Some st ->
  (forall t, In t (w_due st) -> In t (w_woken st)) /\
  (forall t sl, In (t, sl) (w_parked st) -> rget sl (w_reg st) = Some t \/ In t (w_woken st)).
Proof. exact no_lost_wake_thm. Qed.

(* the same for any implementation table that covers the specification table *)
Theorem C06_no_lost_wake_any_table :
  forall (nf : site -> list slot) (ls : list wlabel) (st : wstate),
  (forall s sl, In sl (interested s) -> In sl (nf s)) ->
  wrun_nodisp nf winit ls = Some st -> forall t, In t (w_due st) -> In t (w_woken st).
Proof. exact no_lost_wake_any_table. Qed.

(* the table of the current tree covers the specification: at every site, every slot whose waiters must learn about
   the event is taken and woken *)
Theorem C06_table_complete : forall s sl, In sl (interested s) -> In sl (notify_of s).
Proof. exact table_complete. Qed.

(* the wake is emitted by the very label at which the wait ends *)
Theorem C06_wake_in_same_label :
  forall st s sl t, In sl (interested s) -> rget sl (w_reg st) = Some t ->
  In t (wakes_of (snd (wstep notify_of st (LSite s)))).
Proof. exact wake_in_same_label. Qed.

(* the connection task is woken by every entry through which a handle leaves it work (frame queued, request queued,
   window update owed, target window changed, last handle / stream reference dropped, reservation lowered) *)
Theorem C06_connection_woken_by_work :
  forall st w t, rget SlConn (w_reg st) = Some t -> In t (wakes_of (snd (wstep notify_of st (LSite (StWork w))))).
Proof. exact conn_woken_by_work. Qed.

(* 3a. the push wait (repaired by a67af12): before, END_STREAM on the parent left the parked task due and not woken *)
Theorem C06_push_fix_needed :
  exists st, wrun_nodisp notify_before_push_fix winit push_run = Some st /\
    In 105 (w_due st) /\ ~ In 105 (w_woken st) /\ no_lost_wake st = false.
Proof. exact push_fix_needed. Qed.

Theorem C06_push_fix_repairs :
  exists st, wrun_nodisp notify_of winit push_run = Some st /\ In 105 (w_due st) /\ In 105 (w_woken st).
Proof. exact push_fix_repairs. Qed.

(* 3b. lowering a reservation (repaired by b730a71): before, the connection task stayed parked with work queued *)
Theorem C06_reserve_fix_needed :
  exists st, wrun_nodisp notify_before_reserve_fix winit reserve_run = Some st /\
    In 1 (w_due st) /\ ~ In 1 (w_woken st) /\ rget SlConn (w_reg st) = Some 1.
Proof. exact reserve_fix_needed. Qed.

Theorem C06_reserve_fix_repairs :
  exists st, wrun_nodisp notify_of winit reserve_run = Some st /\ In 1 (w_woken st) /\ rget SlConn (w_reg st) = None.
Proof. exact reserve_fix_repairs. Qed.

(* 3c. the readiness wait (repaired by f1e4dd0): sharing the send_task slot with the stream's own SendStream throws one
   waker out (the run is outside the hypothesis of C06_no_lost_wake) and the opening of the stream wakes only the
   other task; with its own slot both are woken *)
Theorem C06_open_fix_needed :
  wrun_nodisp notify_of winit open_run_before = None /\
  let st := wrun notify_of winit open_run_before in
  In (2, SlSend 3) (w_parked st) /\ ~ In 2 (w_woken st) /\ rget (SlSend 3) (w_reg st) = None /\ w_woken st = [111].
Proof. exact open_fix_needed. Qed.

Theorem C06_open_fix_repairs :
  exists st, wrun_nodisp notify_of winit open_run_after = Some st /\ In 2 (w_woken st) /\ In 111 (w_woken st) /\ In 2 (w_due st).
Proof. exact open_fix_repairs. Qed.

(* the hypotheses are satisfiable and the conclusion is not vacuous *)
Theorem C06_nonvacuous_wake :
  exists st, wrun_nodisp notify_of winit wdemo = Some st /\ w_due st <> [] /\ no_lost_wake st = true /\
    w_woken st = [1; 105; 100; 103; 2].
Proof. exact wdemo_runs. Qed.

(* 2a. send side, enabledness: buffered DATA whose head frame is empty or whose stream holds assigned capacity can be
   popped by the connection task -- the label is neither Stuck nor a Panic -- and DATA is emitted
   (cooperative facts used: the transport accepts a frame of positive maximal length, 0 < mx) *)
Theorem C06_send_pop_enabled :
  forall st sid s f q mx,
  SendFlowInv.Inv st -> SendFlow.find_s sid (SendFlow.c_strs st) = Some s -> SendFlow.s_frames s = f :: q ->
  SendFlow.s_dead s = false -> (f = 0 \/ 0 < SendFlow.s_avail s)%Z -> (0 < mx)%Z ->
  exists st' outs, SendFlow.step st (SendFlow.LPopData sid f mx) =
                   SendFlow.Ok st' (SendFlow.OData sid (Z.min (Z.min f mx) (SendFlow.s_avail s)) :: outs).
Proof. exact ProgressProofs.send_pop_enabled. Qed.

(* 2b. send side, variant: every successful pop strictly decreases the queued work (octets + frames), which is never
   negative: no self-waking livelock on the send queues *)
Theorem C06_send_pop_decreases :
  forall st sid sz mx st' outs,
  SendFlowInv.Inv st -> (0 <= sz)%Z -> (0 < mx)%Z ->
  SendFlow.step st (SendFlow.LPopData sid sz mx) = SendFlow.Ok st' outs ->
  (0 <= ProgressProofs.qsum (SendFlow.c_strs st') < ProgressProofs.qsum (SendFlow.c_strs st))%Z.
Proof. exact ProgressProofs.send_pop_decreases. Qed.

(* 2c. receive side: after every error-free history, a record whose application holds the handle, has released
   everything and is owed a WINDOW_UPDATE is queued for the connection task (cooperative fact used: the application
   releases what it reads, r_infl = 0) *)
Theorem C06_owed_update_is_queued :
  forall ls st outs s,
  Forall RecvFlowInv.rlabel_ok ls -> RecvFlow.rrun RecvFlow.rinit_state ls = inl (Some (st, outs)) ->
  In s (RecvFlow.k_strs st) ->
  RecvFlow.r_isrecv s = true -> RecvFlow.r_done s = false -> RecvFlow.r_unl s = false -> RecvFlow.r_infl s = 0%Z ->
  RecvFlow.unclaimed (RecvFlow.r_win s) (RecvFlow.r_avail s) <> None -> RecvFlow.r_pend s = true.
Proof. exact ProgressRecv.owed_update_is_queued. Qed.

(* 2d. ... its pop is enabled, emits the WINDOW_UPDATE and settles the debt (nothing is owed on the record afterwards) *)
Theorem C06_owed_update_pop_settles :
  forall d st s,
  RecvFlowInv.RInvD d st -> In s (RecvFlow.k_strs st) ->
  RecvFlow.unclaimed (RecvFlow.r_win s) (RecvFlow.r_avail s) <> None ->
  exists st' s',
    RecvFlow.rstep st (RecvFlow.RStreamWUPop (RecvFlow.r_id s) true) =
      RecvFlow.ROk st' [RecvFlow.RWU (RecvFlow.r_id s) (RecvFlow.r_avail s - RecvFlow.r_win s)%Z] /\
    RecvFlow.rfind (RecvFlow.r_id s) (RecvFlow.k_strs st') = Some s' /\
    RecvFlow.unclaimed (RecvFlow.r_win s') (RecvFlow.r_avail s') = None /\ RecvFlow.r_pend s' = false.
Proof. exact ProgressRecv.owed_update_pop_settles. Qed.

(* 3d. the design-time stall F1 (repaired by 6962309): without the repair a run reaches a record that is owed its whole
   configured window, has released everything, and is NOT queued -- 2c fails, the WINDOW_UPDATE is never sent *)
Theorem C06_f1_fix_needed :
  exists ls st s, Forall RecvFlowInv.rlabel_ok ls /\ RecvFlowRun.rrun_nofix RecvFlow.rinit_state ls = Some st /\
    In s (RecvFlow.k_strs st) /\
    RecvFlow.r_isrecv s = true /\ RecvFlow.r_done s = false /\ RecvFlow.r_unl s = false /\ RecvFlow.r_infl s = 0%Z /\
    RecvFlow.unclaimed (RecvFlow.r_win s) (RecvFlow.r_avail s) = Some (RecvFlow.r_base s - RecvFlow.r_win s)%Z /\
    (RecvFlow.r_win s < 0)%Z /\ RecvFlow.r_pend s = false /\ ~ RecvFlowInv.rQ s.
Proof. exact RecvFlowRun.C03_fix_needed. Qed.
