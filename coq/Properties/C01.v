(* Property C01 (end-to-end message fidelity under any fragmentation and schedule): restatements only;
   every theorem is proved in Proofs/DataPathProofs.v and is closed under the global context.
   Model: Model/DataPath.v (prioritize.rs queue/split/reclaim, the codec's two DATA slots, recv.rs event
   queue and poll_* functions).  `flat` turns a frame sequence into its atom stream (octets, heads,
   promises, END_STREAM), so one equation says "nothing lost, duplicated, reordered, END_STREAM exactly
   where it was submitted" for every way of cutting DATA frames. *)
From H2V Require Import Base.Tac Base.Bytes Model.StreamState Model.DataPath Proofs.DataPathProofs.
Local Open Scope N_scope.

(* For ALL label sequences (submissions, scheduler choices, max_frame_len, window values at each pop,
   flush completions, resets), at every point of the run and for every stream:
   handed-to-codec ++ remainder-inside-codec ++ still-queued = submitted (unless the queue was cleared);
   always a prefix; END_STREAM only together with the last submitted atom, and at most once. *)
Theorem C01_send_split_preserves : forall chain ls st os sid,
  run (init_state chain) ls = ROk st os ->
  (cleared sid ls = false ->
     flat (handled sid os) ++ flat (inflight_of sid st) ++ flat (queue_of sid st) = flat (submitted sid ls)) /\
  (exists tail, flat (handled sid os) ++ tail = flat (submitted sid ls)) /\
  (In AEos (flat (handled sid os)) -> flat (handled sid os) = flat (submitted sid ls)) /\
  (forall pre post, flat (handled sid os) = pre ++ AEos :: post -> noeos pre /\ post = []).
Proof. exact send_split_preserves. Qed.

(* the octet reading of it: concat(payloads sent) ++ concat(still held) = concat(payloads submitted) *)
Theorem C01_send_bytes_preserved : forall chain ls st os sid,
  run (init_state chain) ls = ROk st os ->
  (cleared sid ls = false ->
     payloads (sent sid os) ++ payloads (inflight_of sid st) ++ payloads (queue_of sid st)
     = payloads (submitted sid ls)) /\
  (exists tail, payloads (sent sid os) ++ tail = payloads (submitted sid ls)).
Proof. exact send_bytes_preserved. Qed.

(* no assert / panic of the modelled code fires (in_flight_data_frame discipline, buffered_send_data
   underflow, "wasn't expecting a frame to reclaim", dangling store key), for all label sequences *)
Theorem C01_datapath_no_assert : forall chain ls k n, run (init_state chain) ls <> RFail k (Panic n).
Proof. exact datapath_no_assert. Qed.

(* Wire.  Interface needed from the frame codec (C12) and HPACK (C10/C11), as an argument, not an axiom:
   `codec_sync c R` = decode after encode is the identity whatever octets follow, a strict prefix of an
   encoding is "need more", no frame from no octets, and the two contexts stay related by R.
   Then for EVERY prefix w of the sender's octet stream (C12_write_prefix: what the transport has seen
   is such a prefix, for all partial-write patterns; C12_read_chunking: the reader's result does not
   depend on how w is cut into reads) the reader has produced a prefix of the frames in order. *)
Theorem C01_wire_prefix : forall (F ES DS : Type) (c : wcodec F ES DS) (R : ES -> DS -> Prop),
  codec_sync c R ->
  forall fs es ds w tail fuel,
  R es ds -> w ++ tail = enc_all c es fs -> (length fs < fuel)%nat ->
  exists fs1 fs2, fs = fs1 ++ fs2 /\ dec_all c fuel ds w = fs1.
Proof. exact @wire_prefix. Qed.

(* composition with the send side: what the receiver's frame sequence carries for stream sid is a prefix
   of what was submitted on sid (octets: always; all atoms: when no promise was dropped on sid) *)
Theorem C01_wire_roundtrip : forall (ES DS : Type) (c : wcodec (N * sframe) ES DS) (R : ES -> DS -> Prop),
  codec_sync c R ->
  forall chain ls st os es ds w tail sid,
  run (init_state chain) ls = ROk st os ->
  R es ds -> w ++ tail = enc_all c es (wire_frames os) ->
  let rx := dec_all c (S (length (wire_frames os))) ds w in
  (exists later, rx ++ later = wire_frames os) /\
  (exists more, payloads (frames_of sid rx) ++ more = payloads (submitted sid ls)) /\
  (no_drop sid os -> exists more, flat (frames_of sid rx) ++ more = flat (submitted sid ls)).
Proof. exact @wire_roundtrip. Qed.

Theorem C01_wire_interface_inhabited : codec_sync toy_codec (fun _ _ => True).
Proof. exact toy_sync. Qed.

(* Receive API: every event that arrived on a stream leaves its queue exactly once, in arrival order,
   either delivered or - only on the application's own request (handles dropped; poll_response before
   the interim heads were taken) - discarded *)
Theorem C01_delivery_exactly_once : forall ls st os sid,
  rrun [] ls = RROk st os -> taken sid os ++ rqueue_of sid st = pushed sid ls.
Proof. exact recv_exactly_once. Qed.

Theorem C01_delivery_in_order : forall ls st os sid,
  rrun [] ls = RROk st os -> existsb (dropped1 sid) os = false ->
  delivered sid os ++ rqueue_of sid st = pushed sid ls.
Proof. exact recv_delivery_in_order. Qed.

(* clean end of the body is reported only with no DATA at the head of the queue; on a drained queue only
   if the stream state says END_STREAM was received and no error, and then everything that arrived
   has been handed out *)
Theorem C01_clean_end : forall ls st os sid s st',
  rrun [] ls = RROk st os ->
  rstep st (RPollData sid s) = ROkR st' [RNone sid] ->
  (forall p q, rqueue_of sid st <> EData p :: q) /\
  (rqueue_of sid st = [] ->
     ensure_recv_open s = RBool false /\ (is_recv_end_stream s = true \/ s = ReservedLocal) /\
     taken sid os = pushed sid ls).
Proof. exact recv_clean_end. Qed.

Theorem C01_trailers_clean_end : forall st sid s st',
  rstep st (RPollTrailers sid s) = ROkR st' [RNone sid] ->
  rqueue_of sid st = [] /\ ensure_recv_open s = RBool false.
Proof. exact recv_trailers_clean_end. Qed.

(* a stream whose state records an error reports it once the queue is drained: never a clean end *)
Theorem C01_error_never_clean : forall st sid r s e,
  find_r sid st = Some r -> rs_q r = [] -> ensure_recv_open s = RProtoErr e ->
  rstep st (RPollData sid s) = ROkR st [RErr sid] /\ rstep st (RPollTrailers sid s) = ROkR st [RErr sid].
Proof. exact recv_error_never_clean. Qed.

(* with the state machine of C07/C17: RST_STREAM before the peer's END_STREAM => error, after => clean *)
Theorem C01_reset_never_clean : forall st sid r s rsid reason q,
  find_r sid st = Some r -> rs_q r = [] ->
  is_closed s = false \/ q = true ->
  let s' := fst (recv_reset rsid reason q s) in
  (is_recv_end_stream s = false ->
     rstep st (RPollData sid s') = ROkR st [RErr sid] /\ rstep st (RPollTrailers sid s') = ROkR st [RErr sid]) /\
  (is_recv_end_stream s = true ->
     rstep st (RPollData sid s') = ROkR st [RNone sid] /\ is_recv_end_stream s' = true).
Proof. exact recv_reset_never_clean. Qed.

(* non-vacuity: interleaved streams with a split forced by a 1-byte window; a partly written frame
   reclaimed in front of the trailers; no overtaking while the remainder is inside the codec; a reset in
   mid-frame; receive order with an interleaved stream; a reset stream delivering a prefix then the error *)
Theorem C01_nonvacuous_interleaved_split :
  exists st os,
    run (init_state 256)
      [LNew 1; LNew 3; LQueue 1 hd0; LSendData 1 true [10;11;12;13;14] true; LQueue 3 hd0;
       LSendData 3 true [20;21;22] false;
       LPop 1 16384 5 65535; LPop 3 16384 3 65535; LPop 1 16384 1 65535; LPop 3 16384 3 65535;
       LPop 1 16384 4 65534] = ROk st os /\
    wire_frames os = [(1, hd0); (3, hd0); (1, FData [10] false); (3, FData [20;21;22] false);
                      (1, FData [11;12;13;14] true)] /\
    flat (sent 1 os) = flat (submitted 1 [LQueue 1 hd0; LSendData 1 true [10;11;12;13;14] true]) /\
    d_inflight st = IfData 1 /\ queue_of 1 st = [].
Proof. exact ex_interleaved_split. Qed.

Theorem C01_nonvacuous_partial_write_reclaim :
  exists st os,
    run (init_state 2)
      [LNew 1; LQueue 1 hd0; LSendData 1 true [1;2;3;4;5;6;7] false; LQueue 1 (FHeaders HkTrailers [] true);
       LPop 1 3 100 100; LPop 1 3 100 100; LFlushed; LReclaim] = ROk st os /\
    wire_frames os = [(1, hd0); (1, FData [1;2;3] false)] /\
    queue_of 1 st = [FData [4;5;6;7] false; FHeaders HkTrailers [] true] /\
    d_inflight st = IfNothing.
Proof. exact ex_partial_write_reclaim. Qed.

Theorem C01_nonvacuous_no_overtaking :
  run (init_state 2)
    [LNew 1; LQueue 1 hd0; LSendData 1 true [1;2;3;4;5;6;7] false; LQueue 1 (FHeaders HkTrailers [] true);
     LPop 1 3 100 100; LPop 1 3 100 100; LPop 1 3 100 100] = RFail 6 (Stuck 13).
Proof. exact ex_no_overtaking. Qed.

Theorem C01_nonvacuous_reset_mid_frame :
  exists st os,
    run (init_state 2)
      [LNew 1; LQueue 1 hd0; LSendData 1 true [1;2;3;4;5;6;7] true;
       LPop 1 3 100 100; LPop 1 3 100 100; LClear 1; LQueue 1 (FReset 8); LFlushed; LPop 1 3 0 0] = ROk st os /\
    wire_frames os = [(1, hd0); (1, FData [1;2;3] false); (1, FReset 8)] /\
    d_inflight st = IfNothing /\ ~ In AEos (flat (sent 1 os)).
Proof. exact ex_reset_mid_frame. Qed.

Theorem C01_nonvacuous_recv_in_order :
  exists st os,
    rrun [] [RNew 1; RNew 3; RRecvHeaders 1 false [([58;115], [50])]; RRecvData 1 [1;2] false;
             RRecvData 3 [9] false; RRecvData 1 [] false; RRecvData 1 [3] false; RRecvTrailers 1 [];
             RPollResponse 1 (Open Streaming Streaming); RPollData 1 (Closed EndStream);
             RPollData 3 (Open Streaming Streaming); RPollData 1 (Closed EndStream);
             RPollData 1 (Closed EndStream); RIsEndStream 1 (Closed EndStream);
             RPollTrailers 1 (Closed EndStream);
             RIsEndStream 1 (Closed EndStream); RPollData 1 (Closed EndStream); RPollTrailers 1 (Closed EndStream)]
      = RROk st os /\
    delivered 1 os = [EHead [([58;115], [50])]; EData [1;2]; EData [3]; ETrailers []] /\
    os = [RDeliver 1 (EHead [([58;115], [50])]); RDeliver 1 (EData [1;2]); RDeliver 3 (EData [9]);
          RDeliver 1 (EData [3]); RNone 1; RBoolean 1 false; RDeliver 1 (ETrailers []);
          RBoolean 1 true; RNone 1; RNone 1].
Proof. exact ex_recv_in_order. Qed.

Theorem C01_nonvacuous_recv_reset_prefix :
  let s' := fst (recv_reset 1 8 false (Open Streaming Streaming)) in
  exists st os,
    rrun [] [RNew 1; RRecvHeaders 1 false []; RRecvData 1 [1;2] false;
             RPollResponse 1 s'; RPollData 1 s'; RPollData 1 s'; RPollTrailers 1 s'] = RROk st os /\
    os = [RDeliver 1 (EHead []); RDeliver 1 (EData [1;2]); RErr 1; RErr 1].
Proof. exact ex_recv_reset_prefix. Qed.
