(* C03 — receive-side flow control: the advertised windows never exceed the configuration, every
   flow-controlled byte received is credited back exactly once, and a window whose data has all been
   released returns to its configured size.
   Statements only; proofs are in Proofs/RecvFlow*.v.  Model: Model/RecvFlow.v (tied to
   /repo/src/proto/streams/{recv,flow_control,streams}.rs by the lock-step correspondence
   lib/props/parts/recvflow.py). *)
From H2V Require Import Base.Tac Model.RecvFlow Proofs.RecvFlowLists Proofs.RecvFlowInv Proofs.RecvFlowEff Proofs.RecvFlowRun.
Local Open Scope Z_scope.

(* One label from any state satisfying the invariant RInvD d (d = bytes a step charged to the
   connection before reporting a connection error): the invariant is kept with the same d unless the
   step reports a connection error (then d may grow), and the step does not panic: not the u32
   underflow of in_flight_data -= capacity, not checked_size's assert, not the
   expect("unexpected flow control state") of either WINDOW_UPDATE emission, not the debug_asserts. *)
Theorem C03_step_invariant :
  forall (d : Z) (st : rstate) (l : rlabel),
  0 <= d -> RInvD d st -> rlabel_ok l ->
  match rstep st l with
  | ROk st' outs => (exists d', d <= d' /\ RInvD d' st') /\ (rhas_conn_err outs = false -> RInvD d st')
  | RStuck _ => True
  | RPanic _ => False
  end.
Proof. exact rstep_inv. Qed.

(* For every label sequence (every history of DATA on live, reset, unknown streams, with and without
   padding, releases, dropped handles, target and SETTINGS changes, WINDOW_UPDATE emissions) on which
   no connection error was reported:
   R1 connection: available + in flight = configured target (<= 2^31-1);
   R2 every in-flight byte of the connection belongs to exactly one record;
   R3 every record: window <= available, available + in flight <= configured size, with equality
      while the application holds the receive handle; configured size <= 2^31-1 and, for a record
      still linked in the store, <= SETTINGS_INITIAL_WINDOW_SIZE. *)
Theorem C03_conservation :
  forall (ls : list rlabel) (st : rstate) (outs : list (list rout)),
  Forall rlabel_ok ls -> rrun rinit_state ls = inl (Some (st, outs)) -> rno_conn_err outs = true ->
  k_avail st + k_infl st = k_target st /\ 0 <= k_target st <= RMAXW /\
  k_infl st = sum_infl (k_strs st) /\
  NoDup (map r_id (k_strs st)) /\
  forall s, In s (k_strs st) ->
    0 <= r_infl s /\ r_win s <= r_avail s /\ r_avail s + r_infl s <= r_base s /\
    (r_isrecv s = true -> r_done s = false -> r_unl s = false -> r_avail s + r_infl s = r_base s) /\
    r_base s <= RMAXW /\ (r_unl s = false -> r_base s <= k_init st).
Proof. exact C03_conservation. Qed.

(* the same after connection errors, except that the bytes of the failing frames (d) stay charged *)
Theorem C03_conservation_after_error :
  forall (ls : list rlabel) (st : rstate) (outs : list (list rout)),
  Forall rlabel_ok ls -> rrun rinit_state ls = inl (Some (st, outs)) ->
  k_avail st + k_infl st = k_target st /\ 0 <= k_target st <= RMAXW /\
  (exists d, 0 <= d /\ k_infl st = sum_infl (k_strs st) + d) /\
  NoDup (map r_id (k_strs st)) /\
  forall s, In s (k_strs st) ->
    0 <= r_infl s /\ r_win s <= r_avail s /\ r_avail s + r_infl s <= r_base s /\
    (r_isrecv s = true -> r_done s = false -> r_unl s = false -> r_avail s + r_infl s = r_base s) /\
    r_base s <= RMAXW /\ (r_unl s = false -> r_base s <= k_init st).
Proof. exact C03_conservation_any. Qed.

(* no reachable label trips an assert / expect / unsigned underflow of the receive-flow code *)
Theorem C03_no_panic :
  forall (ls : list rlabel) (k n : N),
  Forall rlabel_ok ls -> rrun rinit_state ls <> inr (k, RPanic n).
Proof. exact C03_no_panic. Qed.

(* From every reachable state, for every label:
   - a WINDOW_UPDATE is emitted only as the single output of RConnWU (stream 0) or of
     RStreamWUPop key true, its increment is positive, and right after it the advertised window
     equals available <= configured size <= 2^31-1 (for a linked stream <= the initial window size);
   - the connection window rises at no other label;
   - a stream window rises at no label other than its own emission and a
     SETTINGS_INITIAL_WINDOW_SIZE increase. *)
Theorem C03_never_over_advertised :
  forall (ls : list rlabel) (st : rstate) (outs : list (list rout)) (l : rlabel) (st' : rstate) (o : list rout),
  Forall rlabel_ok ls -> rrun rinit_state ls = inl (Some (st, outs)) ->
  rlabel_ok l -> rstep st l = ROk st' o ->
  (forall key incr, In (RWU key incr) o ->
     (l = RConnWU /\ key = 0%N /\
      o = [RWU 0 incr] /\ 0 < incr /\ k_win st' = k_win st + incr /\
      k_win st' = k_avail st' /\ k_avail st' <= k_target st' /\ k_target st' <= RMAXW) \/
     (l = RStreamWUPop key true /\
      o = [RWU key incr] /\ 0 < incr /\
      exists s s', rfind key (k_strs st) = Some s /\ rfind key (k_strs st') = Some s' /\
        r_win s' = r_win s + incr /\ r_win s' = r_avail s' /\ r_avail s' <= r_base s' /\
        r_base s' <= RMAXW /\ (r_unl s' = false -> r_base s' <= k_init st'))) /\
  (l <> RConnWU -> k_win st' <= k_win st) /\
  (forall key s s', rfind key (k_strs st) = Some s -> rfind key (k_strs st') = Some s' ->
     ~ match l with
       | RStreamWUPop k true => k = key
       | RApplySettings new_init _ => k_init st < new_init
       | _ => False
       end -> r_win s' <= r_win s).
Proof. exact C03_never_over_advertised. Qed.

(* in every reachable state every stream window is within its configured size *)
Theorem C03_window_bounds :
  forall (ls : list rlabel) (st : rstate) (outs : list (list rout)),
  Forall rlabel_ok ls -> rrun rinit_state ls = inl (Some (st, outs)) ->
  forall s, In s (k_strs st) ->
    r_win s <= r_avail s /\ r_avail s <= r_base s /\ r_base s <= RMAXW /\
    (r_unl s = false -> r_base s <= k_init st /\ k_init st <= RMAXW).
Proof. exact C03_window_bounds. Qed.

(* on every run without connection error the connection window the model holds is what the peer
   computes from the wire: 65535 + sum of WINDOW_UPDATE(stream 0) increments - sum of the
   flow-controlled sizes of all DATA frames (known, reset, unknown streams alike) *)
Theorem C03_conn_ledger :
  forall (ls : list rlabel) (st : rstate) (outs : list (list rout)),
  Forall rlabel_ok ls -> rrun rinit_state ls = inl (Some (st, outs)) -> rno_conn_err outs = true ->
  k_win st = RDEFAULT + conn_ledger ls outs.
Proof. exact C03_conn_ledger. Qed.

(* In every reachable state: with nothing in flight the connection has its whole target available,
   and a stream whose application holds the handle and has released everything has its whole
   configured size available; the advertised window then either is settled (nothing, or less than
   half a window, is withheld: h2 batches WINDOW_UPDATEs) or the WINDOW_UPDATE is due (connection) /
   the stream is queued for one (is_pending_window_update), and that emission carries exactly the
   missing amount and makes window = available = configured size. *)
Theorem C03_restores :
  forall (ls : list rlabel) (st : rstate) (outs : list (list rout)),
  Forall rlabel_ok ls -> rrun rinit_state ls = inl (Some (st, outs)) ->
  (k_infl st = 0 ->
     k_avail st = k_target st /\
     ((unclaimed (k_win st) (k_avail st) = None /\
       (k_target st <= k_win st \/ (k_win st < k_target st /\ k_target st - k_win st < Z.quot (k_win st) 2))) \/
      exists st', rstep st RConnWU = ROk st' [RWU 0 (k_target st - k_win st)] /\
                  k_win st' = k_target st /\ k_avail st' = k_target st)) /\
  (forall s, In s (k_strs st) ->
     r_isrecv s = true -> r_done s = false -> r_unl s = false -> r_infl s = 0 ->
     r_avail s = r_base s /\
     ((unclaimed (r_win s) (r_avail s) = None /\ r_win s <= r_base s /\
       (r_base s <= r_win s \/ (r_win s < r_base s /\ r_base s - r_win s < Z.quot (r_win s) 2))) \/
      (r_pend s = true /\
       exists st' s', rstep st (RStreamWUPop (r_id s) true) = ROk st' [RWU (r_id s) (r_base s - r_win s)] /\
                      rfind (r_id s) (k_strs st') = Some s' /\
                      r_win s' = r_base s /\ r_avail s' = r_base s /\ r_base s' = r_base s))).
Proof. exact C03_restores. Qed.

(* one-step form: popping a queued record that is owed capacity emits exactly available - window *)
Theorem C03_stream_window_update_emits :
  forall (d : Z) (st : rstate) (s : rstream),
  RInvD d st -> In s (k_strs st) -> unclaimed (r_win s) (r_avail s) <> None ->
  exists st' s',
    rstep st (RStreamWUPop (r_id s) true) = ROk st' [RWU (r_id s) (r_avail s - r_win s)] /\
    rfind (r_id s) (k_strs st') = Some s' /\
    r_win s' = r_avail s /\ r_avail s' = r_avail s /\ r_base s' = r_base s /\ r_infl s' = r_infl s /\
    r_pend s' = false.
Proof. exact pop_emits. Qed.

(* the repaired defect (corpus/conn/f1_window_stall.json): if apply_local_settings did not queue a
   stream on a decrease of the initial window size (rstep_nofix = rstep except for that), a run
   reaches a record whose application holds the handle and has released everything, that is owed its
   whole configured size, has a negative window, and is not queued: the credit is never sent *)
Theorem C03_fix_needed :
  exists ls st s, Forall rlabel_ok ls /\ rrun_nofix rinit_state ls = Some st /\ In s (k_strs st) /\
    r_isrecv s = true /\ r_done s = false /\ r_unl s = false /\ r_infl s = 0 /\
    unclaimed (r_win s) (r_avail s) = Some (r_base s - r_win s) /\ r_win s < 0 /\ r_pend s = false /\
    ~ rQ s.
Proof. exact C03_fix_needed. Qed.

Theorem C03_nofix_differs_only_on_decrease :
  forall st l, (forall n t, l = RApplySettings n t -> k_init st <= n) -> rstep_nofix st l = rstep st l.
Proof. exact rstep_nofix_same. Qed.

(* the hypotheses are satisfiable and the conclusions are not vacuous: a concrete history with
   padding, releases, both kinds of WINDOW_UPDATE, DATA on an unknown stream, a SETTINGS decrease and
   increase, a target change, a stream error, a dropped handle and a closed stream *)
Theorem C03_nonvacuous_labels : Forall rlabel_ok rdemo_labels.
Proof. exact rdemo_labels_ok. Qed.

Theorem C03_nonvacuous_run :
  match rrun rinit_state rdemo_labels with
  | inl (Some (st, outs)) =>
      rno_conn_err outs = true /\
      concat outs = [RWU 1 30000; RWU 0 30000; RWU 0 34965; RStreamErr 2] /\
      k_win st = RDEFAULT + conn_ledger rdemo_labels outs /\
      k_infl st = 0 /\ k_avail st = 100000
  | _ => False
  end.
Proof. exact rdemo_runs. Qed.

(* a reachable record satisfying the hypotheses of C03_restores that is queued for its WINDOW_UPDATE *)
Theorem C03_nonvacuous_restores :
  match rrun rinit_state rdemo_prefix with
  | inl (Some (st, outs)) =>
      exists s, In s (k_strs st) /\ r_id s = 1%N /\ r_isrecv s = true /\ r_done s = false /\
                r_unl s = false /\ r_infl s = 0 /\ r_pend s = true /\
                unclaimed (r_win s) (r_avail s) = Some 30000
  | _ => False
  end.
Proof. exact rdemo_restores_queued. Qed.

(* with the repair, the history of C03_fix_needed queues the stream and its WINDOW_UPDATE restores
   the window to the new configured size *)
Theorem C03_fix_repairs :
  match rrun rinit_state (f1_labels ++ [RStreamWUPop 1 true]) with
  | inl (Some (st, outs)) =>
      rno_conn_err outs = true /\ concat outs = [RWU 1 20000] /\
      rfind 1%N (k_strs st) = Some (mkR 1 10000 10000 0 false true 10000 false false)
  | _ => False
  end.
Proof. exact f1_fixed. Qed.
